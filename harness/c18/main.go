// C18 -- encrypted files round-trip, leak no plaintext and authenticate every module.
//
// (a) AAD / envelope correspondence: every module of every written file is
//     decrypted HERE with crypto/aes + cipher.NewGCM under the AAD the Coq
//     model computes for (module type, ordinals): success for every module is
//     the tie between makeAAD / the writer's ordinal bookkeeping and the model.
//     Reader histories of the model are replayed against the same bytes.
// (b) round trips over rows/options x footer modes x key assignments, reads
//     after SeekToRow, lazy dictionary, missing column key.
// (c) plaintext scan: no marker value of any column (nor its min/max) occurs in
//     the bytes of an encrypted file.
// (d) tamper enumeration: bit flips in every module, module transplants within
//     a file and across files, truncation, wrong keys -> the read must fail.
package main

import (
	"bytes"
	"crypto/aes"
	"crypto/cipher"
	"crypto/sha256"
	"encoding/binary"
	"encoding/json"
	"errors"
	"fmt"
	"io"
	"reflect"
	"sort"
	"strings"
	"time"

	"github.com/parquet-go/parquet-go"
	"github.com/parquet-go/parquet-go/compress"
	"github.com/parquet-go/parquet-go/encoding/thrift"
	"github.com/parquet-go/parquet-go/format"

	"verif/harness/core"
)

func main() { core.Main("C18", run, replay) }

// ---------------------------------------------------------------------------
// rows

type rowP struct {
	ID   int64    `parquet:"id"`
	Name string   `parquet:"name"`
	Opt  *string  `parquet:"opt,optional"`
	Tags []string `parquet:"tags,list"`
	Val  int64    `parquet:"val"`
}

// same columns, dictionary encoded where it applies
type rowD struct {
	ID   int64    `parquet:"id"`
	Name string   `parquet:"name,dict"`
	Opt  *string  `parquet:"opt,optional,dict"`
	Tags []string `parquet:"tags,list"`
	Val  int64    `parquet:"val,dict"`
}

var leafPaths = []string{"id", "name", "opt", "tags.list.element", "val"}

// fparams describes one written file completely (rows are derived from Seed).
type fparams struct {
	Seed      int64  `json:"seed"`
	Rows      int    `json:"rows"`
	V         int    `json:"v"`         // data page version
	Codec     string `json:"codec"`     // uncompressed snappy gzip zstd
	Dict      bool   `json:"dict"`      // dictionary encoded columns
	RGRows    int    `json:"rg_rows"`   // rows per row group
	PageRows  int    `json:"page_rows"` // rows per data page (<= 64)
	Bloom     bool   `json:"bloom"`
	EncFooter bool   `json:"enc_footer"`
	ColKeys   bool   `json:"col_keys"` // own keys for "name" and "tags.list.element"
	Prefix    int    `json:"prefix"`   // length of the AAD prefix
	KeyLen    int    `json:"key_len"`
	FileID    int64  `json:"file_id"` // 0: random identifier chosen by the writer
	// FileIDLen: length of the explicit identifier (0: 8 bytes).  FileIDShare: the
	// identifiers of the files of one family (same Seed, FileID = n, n+1, ...)
	// have their first FileIDShare bytes in common and differ in the next one;
	// when FileIDShare >= the length, the twin's identifier is this one
	// extended by 1-4 bytes (see fileIdentifier, twin)
	FileIDLen   int `json:"file_id_len,omitempty"`
	FileIDShare int `json:"file_id_share,omitempty"`
	// KeyShare: all the keys of the configuration (footer key, column keys) have
	// their first KeyShare bytes in common and differ in the next one (0: independent keys)
	KeyShare int `json:"key_share,omitempty"`
	Uniform   bool   `json:"uniform"` // all values present and of fixed size (equal module sizes)
	AllKeys   bool   `json:"all_keys,omitempty"` // every leaf column has its own key
	RowSeed   int64  `json:"row_seed,omitempty"` // the rows derive from this seed (0: Seed); the keys always derive from Seed
	// Route: how the options reach the writer ("": NewGenericWriter with every option given directly), see routes.go
	Route string `json:"route,omitempty"`
	// Leaves: the leaf columns of the schema when it is not the one of rowP (sized.go)
	Leaves []string `json:"leaves,omitempty"`
	// Sized: a file of rowZ rows with one long module (sized.go)
	Sized *zparams `json:"sized,omitempty"`
	// Nested: a file of rowN rows, leaf columns with repeated leaf names, keys per column path (nested.go)
	Nested *nparams `json:"nested,omitempty"`
	// Hist: this file is file Hist.Index of a history of files that all come
	// from ONE *EncryptionConfig value and the same writer options
	Hist *history `json:"hist,omitempty"`
}

// sfile: what differs between the files of a history.
type sfile struct {
	RowSeed int64 `json:"row_seed"`
	Rows    int   `json:"rows"`
	RGRows  int   `json:"rg_rows"`
}

// history: several files produced from one EncryptionConfig value.
type history struct {
	// one letter per file: n = a new writer constructed with WithEncryption(cfg)
	// for the one shared cfg, r = the writer of the previous file after Reset
	Ops   string  `json:"ops"`
	Eager bool    `json:"eager,omitempty"` // every writer is constructed before the first file is written
	Index int     `json:"index"`           // the file the enclosing fparams describes
	Files []sfile `json:"files"`           // rows of the files (entry Index: see fparams)
}

// sibling returns the description of file j of p's history.
func (p *fparams) sibling(j int) *fparams {
	q := *p
	h := *p.Hist
	h.Files = append([]sfile{}, p.Hist.Files...)
	h.Files[p.Hist.Index] = sfile{p.RowSeed, p.Rows, p.RGRows}
	h.Index = j
	q.RowSeed, q.Rows, q.RGRows = h.Files[j].RowSeed, h.Files[j].Rows, h.Files[j].RGRows
	q.Hist = &h
	return &q
}

// setGeometry gives every file of the history the same number of rows and row groups.
func (p *fparams) setGeometry(rows, rgRows int) {
	p.Rows, p.RGRows = rows, rgRows
	if p.Hist != nil {
		h := *p.Hist
		h.Files = append([]sfile{}, p.Hist.Files...)
		for j := range h.Files {
			h.Files[j].Rows, h.Files[j].RGRows = rows, rgRows
		}
		p.Hist = &h
	}
}

// ownKey: does the configuration give this leaf column its own key?
func (p *fparams) keyMode() string {
	switch {
	case p.AllKeys:
		return "all-columns"
	case p.ColKeys:
		return "some-columns"
	}
	return "footer-only"
}

func (p *fparams) leaves() []string {
	if p.Leaves != nil {
		return p.Leaves
	}
	return leafPaths
}

func (p *fparams) ownKey(name string) bool {
	for i, l := range p.leaves() {
		if l == name {
			if p.Nested != nil {
				return i < len(p.Nested.Classes) && p.Nested.Classes[i] > 0
			}
			return p.AllKeys || p.ColKeys && (name == "name" || name == "tags.list.element" || name == "blob")
		}
	}
	return false
}

func (p fparams) String() string { b, _ := json.Marshal(p); return string(b) }

func derive(seed int64, label string, n int) []byte {
	h := sha256.Sum256([]byte(fmt.Sprintf("c18/%d/%s", seed, label)))
	return h[:n]
}

// key: the key the configuration assigns to the footer ("footer") or to the
// leaf column of that path.  Keys are independent (KeyShare = 0) or members of
// a family: the first KeyShare bytes in common, the next byte different for
// every two keys of the configuration.
func (p *fparams) key(name string) []byte {
	if name != "footer" && !p.ownKey(name) {
		name = "footer"
	}
	ord := 0 // number of the key within the configuration
	if name != "footer" {
		for i, l := range p.leaves() {
			if l == name {
				ord = i + 1
				if p.Nested != nil {
					// keys per PATH, the same key VALUE for the paths of one class
					ord = p.Nested.Classes[i]
					name = fmt.Sprintf("class/%d", ord)
				}
			}
		}
	}
	k := derive(p.Seed, "key/"+name, p.KeyLen)
	if s := min(p.KeyShare, p.KeyLen-1); s > 0 {
		fam := derive(p.Seed, "key-family", p.KeyLen)
		copy(k[:s], fam)
		k[s] = fam[s] ^ byte(ord+1)
	}
	return k
}

// fileIdentifier: the explicit identifier of the configuration (nil: none).
func (p *fparams) fileIdentifier() []byte {
	if p.FileID == 0 {
		return nil
	}
	if p.FileIDLen == 0 && p.FileIDShare == 0 {
		return derive(p.FileID, "fileid", 8)
	}
	n := p.FileIDLen
	if n == 0 {
		n = 8
	}
	n = min(n, 32)
	id := derive(p.FileID, "fileid", n)
	fam := derive(p.Seed, "fileid-family", 32)
	s := min(p.FileIDShare, n)
	copy(id[:s], fam)
	if s < n {
		id[s] = fam[s] ^ byte(p.FileID%251+1)
	}
	return id
}

// twin: the description of another file of the same family (same keys, schema
// and rows, the next explicit identifier: same length and FileIDShare leading
// bytes in common, or, when all bytes are shared, this identifier extended).
func (p *fparams) twin() *fparams {
	q := *p
	q.FileID++
	n := p.FileIDLen
	if n == 0 {
		n = 8
	}
	if p.FileIDShare >= n {
		q.FileIDLen = n + 1 + int(p.FileID%4)
	}
	return &q
}

func (p *fparams) encryption() *parquet.EncryptionConfig {
	cfg := &parquet.EncryptionConfig{FooterKey: p.key("footer"), EncryptedFooter: p.EncFooter}
	for _, l := range p.leaves() {
		if p.ownKey(l) {
			if cfg.ColumnKeys == nil {
				cfg.ColumnKeys = map[string][]byte{}
			}
			cfg.ColumnKeys[l] = p.key(l)
		}
	}
	if p.Prefix > 0 {
		cfg.AadPrefix = derive(p.Seed, "prefix", p.Prefix)
	}
	if p.FileID != 0 {
		cfg.FileIdentifier = p.fileIdentifier()
	}
	return cfg
}

// splitmix64: rows are a pure function of the seed
type smix struct{ s uint64 }

func (r *smix) next() uint64 {
	r.s += 0x9E3779B97F4A7C15
	z := r.s
	z = (z ^ (z >> 30)) * 0xBF58476D1CE4E5B9
	z = (z ^ (z >> 27)) * 0x94D049BB133111EB
	return z ^ (z >> 31)
}

func marker(r *smix, tag byte) string {
	return fmt.Sprintf("%c%015x", tag, r.next()>>4) // 16 chars, 60 random bits
}

func markerInt(r *smix) int64 { return int64(r.next()&0x3FFFFFFFFFFFFFFF | 1<<62) }

func (p *fparams) rows() []rowP {
	seed := p.Seed
	if p.RowSeed != 0 {
		seed = p.RowSeed
	}
	r := &smix{uint64(seed)*7919 + 17}
	names := make([]string, 6)
	vals := make([]int64, 5)
	for i := range names {
		names[i] = marker(r, 'N')
	}
	for i := range vals {
		vals[i] = markerInt(r)
	}
	out := make([]rowP, p.Rows)
	for i := range out {
		o := &out[i]
		o.ID = markerInt(r)
		o.Val = vals[r.next()%uint64(len(vals))]
		if p.Dict || r.next()%3 == 0 {
			o.Name = names[r.next()%uint64(len(names))]
		} else {
			o.Name = marker(r, 'U')
		}
		if p.Uniform || r.next()%4 != 0 {
			s := marker(r, 'O')
			if p.Dict {
				s = "O" + names[r.next()%uint64(len(names))][1:]
			}
			o.Opt = &s
		}
		n := 1
		if !p.Uniform {
			n = int(r.next() % 4)
		}
		for k := 0; k < n; k++ {
			o.Tags = append(o.Tags, marker(r, 'T'))
		}
	}
	if p.ctor() == 'S' {
		// the file of a sorting writer holds the rows by id
		sortByID(out)
	}
	return out
}

func codecOf(name string) compress.Codec {
	switch name {
	case "snappy":
		return &parquet.Snappy
	case "gzip":
		return &parquet.Gzip
	case "zstd":
		return &parquet.Zstd
	}
	return &parquet.Uncompressed
}

// others: every option but the encryption (sorting: those of a sorting writer,
// which orders the rows by id and cuts the row groups itself).
func (p *fparams) others(sorting bool) []parquet.WriterOption {
	if p.Sized != nil {
		return p.sizedOptions()
	}
	if p.Nested != nil {
		return p.nestedOptions()
	}
	opts := []parquet.WriterOption{
		parquet.DataPageVersion(p.V), parquet.Compression(codecOf(p.Codec)),
		parquet.PageBufferSize(1), parquet.DataPageStatistics(true),
	}
	if p.Bloom {
		opts = append(opts, parquet.BloomFilters(parquet.SplitBlockFilter(10, "id"), parquet.SplitBlockFilter(10, "name"),
			parquet.SplitBlockFilter(10, "tags", "list", "element")))
	}
	if sorting {
		opts = append(opts, parquet.SortingWriterConfig(parquet.SortingColumns(parquet.Ascending("id"))))
		if p.RGRows > 0 {
			opts = append(opts, parquet.MaxRowsPerRowGroup(int64(p.RGRows)))
		}
	}
	return opts
}

// feedT writes the rows of one file (pages of p.PageRows rows, row groups of
// p.RGRows rows) and closes the file.
func feedT[T any](w rowWriter[T], p *fparams, rows []T) error {
	pr := p.PageRows
	if pr <= 0 || pr > 64 {
		pr = 64
	}
	inGroup := 0
	for i := 0; i < len(rows); {
		k := pr
		if i+k > len(rows) {
			k = len(rows) - i
		}
		if p.RGRows > 0 && inGroup+k > p.RGRows {
			k = p.RGRows - inGroup
		}
		if _, err := w.Write(rows[i : i+k]); err != nil {
			return err
		}
		i += k
		inGroup += k
		if p.RGRows > 0 && inGroup == p.RGRows && i < len(rows) {
			if err := w.Flush(); err != nil {
				return err
			}
			inGroup = 0
		}
	}
	return w.Close()
}

func writeT[T any](p *fparams, rows []T, encrypted bool) ([]byte, error) {
	var buf bytes.Buffer
	var cfg *parquet.EncryptionConfig
	if encrypted {
		cfg = p.encryption()
	}
	if encrypted && p.ctor() == 'F' {
		_, opts, err := p.writerOptions(cfg)
		if err != nil {
			return nil, err
		}
		if err := parquet.Write[T](&buf, rows, opts...); err != nil {
			return nil, err
		}
		return buf.Bytes(), nil
	}
	w, err := newWriterT[T](p, &buf, cfg)
	if err != nil {
		return nil, err
	}
	in := rows
	if encrypted {
		in = inputOrder(p, rows)
	}
	if err := feedT(w, p, in); err != nil {
		return nil, err
	}
	return buf.Bytes(), nil
}

// writeHistoryT writes every file of p's history: ONE EncryptionConfig value
// is handed to every writer constructed, and a writer is reused through Reset
// where the history says so.
func writeHistoryT[T any](p *fparams, conv func([]rowP) []T) ([][]byte, error) {
	h := p.Hist
	cfg := p.encryption()
	bufs := make([]*bytes.Buffer, len(h.Ops))
	writers := make([]rowWriter[T], len(h.Ops))
	var err error
	for j := range bufs {
		bufs[j] = new(bytes.Buffer)
		if h.Eager && h.Ops[j] == 'n' {
			if writers[j], err = newWriterT[T](p, bufs[j], cfg); err != nil {
				return nil, err
			}
		}
	}
	var w rowWriter[T]
	out := make([][]byte, len(h.Ops))
	for j := range bufs {
		switch {
		case h.Ops[j] == 'r' && w != nil:
			w.Reset(bufs[j])
		case writers[j] != nil:
			w = writers[j]
		default:
			if w, err = newWriterT[T](p, bufs[j], cfg); err != nil {
				return nil, err
			}
		}
		q := p.sibling(j)
		if err := feedT(w, q, inputOrder(q, conv(q.rows()))); err != nil {
			return nil, fmt.Errorf("file %d of the history: %w", j, err)
		}
		out[j] = bufs[j].Bytes()
	}
	return out, nil
}

func toD(rows []rowP) []rowD {
	out := make([]rowD, len(rows))
	for i, r := range rows {
		out[i] = rowD(r)
	}
	return out
}

func fromD(rows []rowD) []rowP {
	out := make([]rowP, len(rows))
	for i, r := range rows {
		out[i] = rowP(r)
	}
	return out
}

func (p *fparams) write(rows []rowP, encrypted bool) (data []byte, err error) {
	defer func() {
		if r := recover(); r != nil {
			err = fmt.Errorf("PANIC: %v", r)
		}
	}()
	if encrypted && p.Hist != nil {
		all, err := p.writeAll()
		if err != nil {
			return nil, err
		}
		return all[p.Hist.Index], nil
	}
	if p.Dict {
		return writeT(p, toD(rows), encrypted)
	}
	return writeT(p, rows, encrypted)
}

// writeAll writes the encrypted files of p's history (one file without history).
func (p *fparams) writeAll() (all [][]byte, err error) {
	defer func() {
		if r := recover(); r != nil {
			err = fmt.Errorf("PANIC: %v", r)
		}
	}()
	if p.Hist == nil {
		d, err := p.write(p.rows(), true)
		return [][]byte{d}, err
	}
	if p.Dict {
		return writeHistoryT(p, toD)
	}
	return writeHistoryT(p, func(r []rowP) []rowP { return r })
}

// ---------------------------------------------------------------------------
// keys handed to the reader

type keyset struct {
	p       *fparams
	missing map[string]bool   // ErrKeyNotFound for these columns
	wrong   map[string][]byte // other key material for "footer" or a column
	// the reader holds the footer key only and answers it for every column
	footerOnly bool
}

func (k *keyset) FooterKey([]byte) ([]byte, error) {
	if w, ok := k.wrong["footer"]; ok {
		return w, nil
	}
	return k.p.key("footer"), nil
}

func (k *keyset) ColumnKey(path []string, _ []byte) ([]byte, error) {
	name := strings.Join(path, ".")
	if k.missing[name] {
		return nil, fmt.Errorf("no key for %s: %w", name, parquet.ErrKeyNotFound)
	}
	if w, ok := k.wrong[name]; ok {
		return w, nil
	}
	if k.footerOnly {
		return k.p.key("footer"), nil
	}
	return k.p.key(name), nil
}

// ---------------------------------------------------------------------------
// guarded execution: panics and hangs of the implementation become outcomes

type outcome struct {
	Err    error
	Panic  string
	Hung   bool
	Rows   []rowP
	Blooms int // bloom filter probes answered
}

func (o *outcome) failed() bool { return o.Err != nil || o.Panic != "" || o.Hung }

func guard(deadline time.Duration, f func(o *outcome)) *outcome {
	o := &outcome{}
	done := make(chan struct{})
	go func() {
		defer close(done)
		defer func() {
			if r := recover(); r != nil {
				o.Panic = fmt.Sprint(r)
			}
		}()
		f(o)
	}()
	select {
	case <-done:
		return o
	case <-time.After(deadline):
		return &outcome{Hung: true}
	}
}

func readRowsT[T any](f *parquet.File, from int64) ([]T, error) {
	r := parquet.NewGenericReader[T](f)
	defer r.Close()
	if from > 0 {
		if err := r.SeekToRow(from); err != nil {
			return nil, fmt.Errorf("SeekToRow(%d): %w", from, err)
		}
	}
	var out []T
	buf := make([]T, 37)
	for {
		n, err := r.Read(buf)
		out = append(out, buf[:n]...)
		if errors.Is(err, io.EOF) {
			return out, nil
		}
		if err != nil {
			return out, err
		}
		if n == 0 {
			return out, fmt.Errorf("Read returned 0 rows and no error")
		}
	}
}

func (p *fparams) readRows(f *parquet.File, from int64) ([]rowP, error) {
	if p.Dict {
		r, err := readRowsT[rowD](f, from)
		return canon(fromD(r)), err
	}
	r, err := readRowsT[rowP](f, from)
	return canon(r), err
}

// canon: an empty list reads back as an empty, not a nil, slice
func canon(rows []rowP) []rowP {
	for i := range rows {
		if len(rows[i].Tags) == 0 {
			rows[i].Tags = nil
		}
	}
	return rows
}

// touchAll opens the file and reads everything a reader can read: footer,
// column metadata and page index (OpenFile), all rows, every bloom filter.
func (p *fparams) touchAll(data []byte, ks parquet.KeyRetriever, rows []rowP, opts ...parquet.FileOption) *outcome {
	return guard(20*time.Second, func(o *outcome) {
		all := append([]parquet.FileOption{parquet.WithDecryption(ks)}, opts...)
		f, err := parquet.OpenFile(bytes.NewReader(data), int64(len(data)), all...)
		if err != nil {
			o.Err = fmt.Errorf("open: %w", err)
			return
		}
		got, err := p.readRows(f, 0)
		o.Rows = got
		if err != nil {
			o.Err = fmt.Errorf("read: %w", err)
			return
		}
		if f.NumRows() != int64(len(got)) {
			o.Err = fmt.Errorf("read %d rows, footer says %d", len(got), f.NumRows())
			return
		}
		// bloom filters: one present value per filtered chunk
		base := 0
		for _, rg := range f.RowGroups() {
			n := int(rg.NumRows())
			for ci, cc := range rg.ColumnChunks() {
				bf := cc.BloomFilter()
				if bf == nil || base >= len(rows) {
					continue
				}
				var v parquet.Value
				switch ci {
				case 0:
					v = parquet.Int64Value(rows[base].ID)
				case 1:
					v = parquet.ByteArrayValue([]byte(rows[base].Name))
				default:
					// probe anything: only the load of the filter matters
					v = parquet.ByteArrayValue([]byte("x"))
				}
				ok, err := bf.Check(v)
				if err != nil {
					o.Err = fmt.Errorf("bloom filter rg %d col %d: %w", rg.NumRows(), ci, err)
					return
				}
				if !ok && ci <= 1 {
					o.Err = fmt.Errorf("bloom filter of column %d answers false for a written value", ci)
					return
				}
				o.Blooms++
			}
			base += n
		}
	})
}

// ---------------------------------------------------------------------------
// independent parse of the encrypted file (own AES-GCM, AADs from the model)

type module struct {
	Type int    `json:"type"` // module type code
	RG   int    `json:"rg"`
	Col  int    `json:"col"`
	Page int    `json:"page"`
	Off  int    `json:"off"` // file offset of the envelope (or of the 28-byte signature)
	Len  int    `json:"len"`
	Key  string `json:"key"`
	Sig  bool   `json:"sig,omitempty"`
	aad  []byte
}

func (m module) String() string {
	return fmt.Sprintf("type=%d rg=%d col=%d page=%d off=%d len=%d", m.Type, m.RG, m.Col, m.Page, m.Off, m.Len)
}

type walked struct {
	Mods    []module
	Meta    format.FileMetaData
	Pfx, FU []byte
	Layout  string     // oracle syntax
	Chunks  [][][]int  // [rg][col] -> indexes into Mods of the chunk's page modules in file order
	Pages   [][]int    // [rg][col] -> number of data pages
	Dicts   [][]bool
	ClearMD [][]format.ColumnMetaData // what the clear footer says about each column chunk
	Footer  []byte                    // the clear bytes of the footer (plaintext mode) or FileCryptoMetaData
}

func localAAD(pfx, fu []byte, typ int, ords ...int) []byte {
	b := append(append(append([]byte{}, pfx...), fu...), byte(typ))
	for _, o := range ords {
		b = append(b, byte(uint16(o)), byte(uint16(o)>>8))
	}
	return b
}

func arity(typ int) int {
	switch typ {
	case 0:
		return 0
	case 2, 3, 4, 5:
		return 3
	}
	return 2
}

// modelAAD asks the model; falls back to the local computation when the model
// does not build, and reports a disagreement between the two.
func modelAAD(c *core.Ctx, pfx, fu []byte, typ, rg, col, pg int) []byte {
	local := localAAD(pfx, fu, typ, []int{rg, col, pg}[:arity(typ)]...)
	if !c.HasOracle() {
		return local
	}
	req := fmt.Sprintf("c18.aad %s %s %x %x %x %x", core.Hexs(pfx), core.Hexs(fu), typ, rg, col, pg)
	ans := c.Ask(req)
	if ans != core.Hexs(local) {
		c.Mismatch("corr:C18.aad-local", req, core.Hexs(local), ans, nil)
	}
	if !strings.HasPrefix(ans, "x") {
		return local
	}
	b := make([]byte, (len(ans)-1)/2)
	fmt.Sscanf(ans[1:], "%x", &b)
	return b
}

func gcmOf(key []byte) (cipher.AEAD, error) {
	blk, err := aes.NewCipher(key)
	if err != nil {
		return nil, err
	}
	return cipher.NewGCM(blk)
}

// openEnvelope: 4-byte LE length | 12-byte nonce | ciphertext | 16-byte tag
func openEnvelope(key, aad, env []byte) ([]byte, int, error) {
	if len(env) < 4 {
		return nil, 0, fmt.Errorf("envelope shorter than its length field")
	}
	ml := int(binary.LittleEndian.Uint32(env))
	if ml < 28 || 4+ml > len(env) {
		return nil, 0, fmt.Errorf("module length %d does not fit (%d bytes available)", ml, len(env)-4)
	}
	g, err := gcmOf(key)
	if err != nil {
		return nil, 0, err
	}
	pt, err := g.Open(nil, env[4:16], env[16:4+ml], aad)
	return pt, 4 + ml, err
}

func decodeThrift(b []byte, v any) (int, error) {
	var proto thrift.CompactProtocol
	r := proto.NewReaderFromBytes(b)
	if err := thrift.NewDecoder(r).Decode(v); err != nil {
		return 0, err
	}
	return r.BytesRead(), nil
}

// walk parses the file with the model's AADs.  A failure here means that
// makeAAD, the ordinals of the writer or the layout of the file differ from
// the model (or from the Parquet encryption layout this harness implements).
// cryptoMDError: the ColumnCryptoMetaData of a column chunk is not the one the
// key assignment of the configuration requires.
type cryptoMDError struct{ what string }

// identifierError: the file does not carry the identifier the configuration names.
type identifierError struct{ want, got []byte }

func (e *identifierError) Error() string {
	return fmt.Sprintf("file identifier in the file (%x, %d bytes) differs from the configured one (%x, %d bytes)", e.got, len(e.got), e.want, len(e.want))
}

// keyError: a module does not open under the key the configuration assigns to
// it (independent AES-GCM, AAD of the model) but opens under another key of
// the configuration.
type keyError struct {
	mod          module
	want, opened string
}

func (e *keyError) Error() string {
	return fmt.Sprintf("module {%v} does not open with the key configured for %q but opens with the key configured for %q", e.mod, e.want, e.opened)
}

// otherKey: which other key of the configuration opens the envelope under this AAD ("" none)?
func (p *fparams) otherKey(keyName string, aad, env []byte) string {
	names := append([]string{"footer"}, p.leaves()...)
	for _, n := range names {
		if n != "footer" && !p.ownKey(n) || bytes.Equal(p.key(n), p.key(keyName)) {
			continue
		}
		if _, _, err := openEnvelope(p.key(n), aad, env); err == nil {
			return n
		}
	}
	return ""
}

func (e *cryptoMDError) Error() string { return e.what }

// checkCryptoMD: a column with its own key carries ENCRYPTION_WITH_COLUMN_KEY
// naming its own path, any other column ENCRYPTION_WITH_FOOTER_KEY.
func checkCryptoMD(p *fparams, rg, col int, ch *format.ColumnChunk) error {
	if col >= len(p.leaves()) {
		return &cryptoMDError{fmt.Sprintf("rg %d: column chunk %d of a schema of %d leaves", rg, col, len(p.leaves()))}
	}
	path := p.leaves()[col]
	switch cm := ch.CryptoMetadata.Value.(type) {
	case *format.EncryptionWithColumnKey:
		if got := strings.Join(cm.PathInSchema, "."); !p.ownKey(path) || got != path {
			return &cryptoMDError{fmt.Sprintf("rg %d col %d (%s, own key: %v): crypto_metadata is ENCRYPTION_WITH_COLUMN_KEY with path_in_schema %q", rg, col, path, p.ownKey(path), got)}
		}
	case *format.EncryptionWithFooterKey:
		if p.ownKey(path) {
			return &cryptoMDError{fmt.Sprintf("rg %d col %d (%s has its own key): crypto_metadata is ENCRYPTION_WITH_FOOTER_KEY", rg, col, path)}
		}
	default:
		return &cryptoMDError{fmt.Sprintf("rg %d col %d (%s): no crypto_metadata (%T)", rg, col, path, ch.CryptoMetadata.Value)}
	}
	return nil
}

// fileUniqueOf reads aad_file_unique from the clear part of the file tail.
func fileUniqueOf(data []byte) ([]byte, error) {
	n := len(data)
	if n < 12 {
		return nil, fmt.Errorf("file too short")
	}
	flen := int(binary.LittleEndian.Uint32(data[n-8:]))
	if flen+12 > n {
		return nil, fmt.Errorf("footer length %d", flen)
	}
	footer := data[n-8-flen : n-8]
	var algo format.EncryptionAlgorithm
	if string(data[n-4:]) == "PARE" {
		var cm format.FileCryptoMetaData
		if _, err := decodeThrift(footer, &cm); err != nil {
			return nil, err
		}
		algo = cm.EncryptionAlgorithm
	} else {
		var md format.FileMetaData
		if _, err := decodeThrift(footer, &md); err != nil {
			return nil, err
		}
		algo = md.EncryptionAlgorithm
	}
	a, ok := algo.Value.(*format.AesGcmV1)
	if !ok {
		return nil, fmt.Errorf("algorithm %T", algo.Value)
	}
	return a.AadFileUnique, nil
}

func walk(c *core.Ctx, p *fparams, data []byte) (*walked, error) {
	w := &walked{}
	n := len(data)
	if n < 12 {
		return nil, fmt.Errorf("file too short")
	}
	magic := string(data[n-4:])
	flen := int(binary.LittleEndian.Uint32(data[n-8:]))
	if flen+12 > n {
		return nil, fmt.Errorf("footer length %d", flen)
	}
	fstart := n - 8 - flen
	footer := data[fstart : n-8]
	add := func(m module) []byte {
		m.aad = modelAAD(c, w.Pfx, w.FU, m.Type, m.RG, m.Col, m.Page)
		w.Mods = append(w.Mods, m)
		return m.aad
	}
	switch {
	case magic == "PARE" && p.EncFooter:
		var cm format.FileCryptoMetaData
		k, err := decodeThrift(footer, &cm)
		if err != nil {
			return nil, fmt.Errorf("FileCryptoMetaData: %w", err)
		}
		algo, ok := cm.EncryptionAlgorithm.Value.(*format.AesGcmV1)
		if !ok {
			return nil, fmt.Errorf("algorithm %T", cm.EncryptionAlgorithm.Value)
		}
		w.Pfx, w.FU = algo.AadPrefix, algo.AadFileUnique
		w.Footer = footer[:k]
		aad := add(module{Type: 0, Off: fstart + k, Len: flen - k, Key: "footer"})
		pt, used, err := openEnvelope(p.key("footer"), aad, footer[k:])
		if err != nil || used != flen-k {
			return nil, fmt.Errorf("footer module: %v (used %d of %d)", err, used, flen-k)
		}
		if err := thrift.Unmarshal(new(thrift.CompactProtocol), pt, &w.Meta); err != nil {
			return nil, fmt.Errorf("decrypted footer: %w", err)
		}
	case magic == "PAR1" && !p.EncFooter:
		k, err := decodeThrift(footer, &w.Meta)
		if err != nil {
			return nil, fmt.Errorf("FileMetaData: %w", err)
		}
		if flen-k != 28 {
			return nil, fmt.Errorf("plaintext footer is followed by %d bytes, want a 28-byte signature", flen-k)
		}
		algo, ok := w.Meta.EncryptionAlgorithm.Value.(*format.AesGcmV1)
		if !ok {
			return nil, fmt.Errorf("algorithm %T", w.Meta.EncryptionAlgorithm.Value)
		}
		w.Pfx, w.FU = algo.AadPrefix, algo.AadFileUnique
		w.Footer = footer[:k]
		aad := add(module{Type: 0, Off: fstart + k, Len: 28, Key: "footer", Sig: true})
		g, err := gcmOf(p.key("footer"))
		if err != nil {
			return nil, err
		}
		sig := footer[k:]
		if _, err := g.Open(nil, sig[:12], sig[12:], append(append([]byte{}, aad...), footer[:k]...)); err != nil {
			return nil, fmt.Errorf("footer signature: %w", err)
		}
	default:
		return nil, fmt.Errorf("magic %q with EncryptedFooter=%v", magic, p.EncFooter)
	}
	if string(data[:4]) != magic {
		return nil, fmt.Errorf("head magic %q, tail magic %q", data[:4], magic)
	}
	if p.FileID != 0 && !bytes.Equal(w.FU, p.fileIdentifier()) {
		return nil, &identifierError{p.fileIdentifier(), w.FU}
	}
	if !bytes.Equal(w.Pfx, p.encryption().AadPrefix) {
		return nil, fmt.Errorf("AAD prefix in the file differs from the configured one")
	}
	var lay []string
	for i := range w.Meta.RowGroups {
		rg := &w.Meta.RowGroups[i]
		var cols []string
		w.Chunks = append(w.Chunks, make([][]int, len(rg.Columns)))
		w.Pages = append(w.Pages, make([]int, len(rg.Columns)))
		w.Dicts = append(w.Dicts, make([]bool, len(rg.Columns)))
		w.ClearMD = append(w.ClearMD, make([]format.ColumnMetaData, len(rg.Columns)))
		for j := range rg.Columns {
			ch := &rg.Columns[j]
			if err := checkCryptoMD(p, i, j, ch); err != nil {
				return nil, err
			}
			keyName := "footer"
			if cm, ok := ch.CryptoMetadata.Value.(*format.EncryptionWithColumnKey); ok {
				keyName = strings.Join(cm.PathInSchema, ".")
			}
			key := p.key(keyName)
			md := ch.MetaData
			if !p.EncFooter {
				w.ClearMD[i][j] = ch.MetaData
				enc := ch.EncryptedColumnMetadata
				if len(enc) == 0 {
					return nil, fmt.Errorf("rg %d col %d: plaintext footer without EncryptedColumnMetadata", i, j)
				}
				off := bytes.Index(footer, enc)
				aad := add(module{Type: 1, RG: i, Col: j, Off: fstart + off, Len: len(enc), Key: keyName})
				pt, used, err := openEnvelope(key, aad, enc)
				if err != nil {
					if o := p.otherKey(keyName, aad, enc); o != "" {
						return nil, &keyError{w.Mods[len(w.Mods)-1], keyName, o}
					}
				}
				if err != nil || used != len(enc) {
					return nil, fmt.Errorf("column metadata module rg %d col %d: %v", i, j, err)
				}
				md = format.ColumnMetaData{}
				if err := thrift.Unmarshal(new(thrift.CompactProtocol), pt, &md); err != nil {
					return nil, fmt.Errorf("decrypted column metadata: %w", err)
				}
			}
			// page index
			var oi format.OffsetIndex
			for _, ix := range []struct {
				typ      int
				off, len int
				v        any
			}{{8, int(ch.ColumnIndexOffset), int(ch.ColumnIndexLength), new(format.ColumnIndex)},
				{9, int(ch.OffsetIndexOffset), int(ch.OffsetIndexLength), &oi}} {
				if ix.off == 0 {
					return nil, fmt.Errorf("rg %d col %d: no page index module %d", i, j, ix.typ)
				}
				aad := add(module{Type: ix.typ, RG: i, Col: j, Off: ix.off, Len: ix.len, Key: keyName})
				pt, used, err := openEnvelope(key, aad, data[ix.off:ix.off+ix.len])
				if err != nil {
					if o := p.otherKey(keyName, aad, data[ix.off:ix.off+ix.len]); o != "" {
						return nil, &keyError{w.Mods[len(w.Mods)-1], keyName, o}
					}
				}
				if err != nil || used != ix.len {
					return nil, fmt.Errorf("page index module %d rg %d col %d: %v", ix.typ, i, j, err)
				}
				if err := thrift.Unmarshal(new(thrift.CompactProtocol), pt, ix.v); err != nil {
					return nil, fmt.Errorf("decrypted page index %d: %w", ix.typ, err)
				}
			}
			// pages
			pos := int(md.DataPageOffset)
			hasDict := md.DictionaryPageOffset != 0
			if hasDict {
				pos = int(md.DictionaryPageOffset)
			}
			end := pos + int(md.TotalCompressedSize)
			pg := 0
			first := true
			for pos < end {
				ht, bt, ord := 3, 2, pg
				if first && hasDict {
					ht, bt, ord = 5, 4, 0
				}
				var hdr format.PageHeader
				for _, typ := range []int{ht, bt} {
					aad := add(module{Type: typ, RG: i, Col: j, Page: ord, Off: pos, Key: keyName})
					pt, used, err := openEnvelope(key, aad, data[pos:end])
					if err != nil {
						if o := p.otherKey(keyName, aad, data[pos:end]); o != "" {
							return nil, &keyError{w.Mods[len(w.Mods)-1], keyName, o}
						}
						return nil, fmt.Errorf("page module type %d rg %d col %d page %d at %d: %v", typ, i, j, ord, pos, err)
					}
					w.Mods[len(w.Mods)-1].Len = used
					w.Chunks[i][j] = append(w.Chunks[i][j], len(w.Mods)-1)
					if typ == ht {
						if _, err := decodeThrift(pt, &hdr); err != nil {
							return nil, fmt.Errorf("decrypted page header: %w", err)
						}
						isDict := hdr.Type == format.DictionaryPage
						if isDict != (ht == 5) {
							return nil, fmt.Errorf("rg %d col %d: page type %v under module type %d", i, j, hdr.Type, ht)
						}
						if ht == 3 {
							if pg >= len(oi.PageLocations) || int(oi.PageLocations[pg].Offset) != pos {
								return nil, fmt.Errorf("rg %d col %d: offset index does not list page %d at %d", i, j, pg, pos)
							}
						}
					}
					pos += used
				}
				if first && hasDict {
					first = false
					continue
				}
				first = false
				pg++
			}
			if pg != len(oi.PageLocations) {
				return nil, fmt.Errorf("rg %d col %d: %d data pages walked, offset index lists %d", i, j, pg, len(oi.PageLocations))
			}
			w.Pages[i][j], w.Dicts[i][j] = pg, hasDict
			hasBloom := md.BloomFilterOffset != 0
			if hasBloom {
				pos := int(md.BloomFilterOffset)
				for _, typ := range []int{6, 7} {
					aad := add(module{Type: typ, RG: i, Col: j, Off: pos, Key: keyName})
					_, used, err := openEnvelope(key, aad, data[pos:])
					if err != nil {
						if o := p.otherKey(keyName, aad, data[pos:]); o != "" {
							return nil, &keyError{w.Mods[len(w.Mods)-1], keyName, o}
						}
						return nil, fmt.Errorf("bloom filter module %d rg %d col %d: %v", typ, i, j, err)
					}
					w.Mods[len(w.Mods)-1].Len = used
					pos += used
				}
			}
			cols = append(cols, fmt.Sprintf("%s.%x.%s", b01(hasDict), pg, b01(hasBloom)))
		}
		if len(cols) == 0 {
			lay = append(lay, "-")
		} else {
			lay = append(lay, strings.Join(cols, ","))
		}
	}
	w.Layout = strings.Join(lay, "/")
	if w.Layout == "" {
		w.Layout = "_"
	}
	return w, nil
}

// walkStructural locates the modules without opening them: offsets come from
// the metadata as decrypted by the implementation itself, sizes from the
// length fields.  Used for the tamper enumeration when the model's AADs do not
// open the file (the enumeration must not depend on the model being right).
func walkStructural(p *fparams, data []byte) (w *walked, err error) {
	defer func() {
		if r := recover(); r != nil {
			err = fmt.Errorf("PANIC: %v", r)
		}
	}()
	f, err := parquet.OpenFile(bytes.NewReader(data), int64(len(data)), parquet.WithDecryption(&keyset{p: p}))
	if err != nil {
		return nil, err
	}
	w = &walked{Meta: *f.Metadata()}
	n := len(data)
	flen := int(binary.LittleEndian.Uint32(data[n-8:]))
	fstart := n - 8 - flen
	footer := data[fstart : n-8]
	envLen := func(off int) int { return 4 + int(binary.LittleEndian.Uint32(data[off:])) }
	if p.EncFooter {
		var cm format.FileCryptoMetaData
		k, err := decodeThrift(footer, &cm)
		if err != nil {
			return nil, err
		}
		w.Mods = append(w.Mods, module{Type: 0, Off: fstart + k, Len: flen - k, Key: "footer"})
	} else {
		w.Mods = append(w.Mods, module{Type: 0, Off: n - 8 - 28, Len: 28, Key: "footer", Sig: true})
	}
	for i := range w.Meta.RowGroups {
		rg := &w.Meta.RowGroups[i]
		for j := range rg.Columns {
			ch := &rg.Columns[j]
			md := &ch.MetaData
			keyName := "footer"
			if cm, ok := ch.CryptoMetadata.Value.(*format.EncryptionWithColumnKey); ok {
				keyName = strings.Join(cm.PathInSchema, ".")
			}
			if enc := ch.EncryptedColumnMetadata; len(enc) > 0 {
				w.Mods = append(w.Mods, module{Type: 1, RG: i, Col: j, Off: fstart + bytes.Index(footer, enc), Len: len(enc), Key: keyName})
			}
			w.Mods = append(w.Mods, module{Type: 8, RG: i, Col: j, Off: int(ch.ColumnIndexOffset), Len: int(ch.ColumnIndexLength), Key: keyName},
				module{Type: 9, RG: i, Col: j, Off: int(ch.OffsetIndexOffset), Len: int(ch.OffsetIndexLength), Key: keyName})
			pos := int(md.DataPageOffset)
			first := md.DictionaryPageOffset != 0
			if first {
				pos = int(md.DictionaryPageOffset)
			}
			end := pos + int(md.TotalCompressedSize)
			for pg := 0; pos < end; {
				ht, bt, ord := 3, 2, pg
				if first {
					ht, bt, ord = 5, 4, 0
				}
				for _, typ := range []int{ht, bt} {
					l := envLen(pos)
					w.Mods = append(w.Mods, module{Type: typ, RG: i, Col: j, Page: ord, Off: pos, Len: l, Key: keyName})
					pos += l
				}
				if !first {
					pg++
				}
				first = false
			}
			if md.BloomFilterOffset != 0 {
				pos := int(md.BloomFilterOffset)
				for _, typ := range []int{6, 7} {
					l := envLen(pos)
					w.Mods = append(w.Mods, module{Type: typ, RG: i, Col: j, Off: pos, Len: l, Key: keyName})
					pos += l
				}
			}
		}
	}
	return w, nil
}

func b01(b bool) string {
	if b {
		return "1"
	}
	return "0"
}

// checkWriterModel compares the module sequence of each chunk with what the
// writer state machine of the model produces for the file's layout.
func checkWriterModel(c *core.Ctx, p *fparams, w *walked) bool {
	if !c.HasOracle() {
		return true
	}
	ok := true
	for i := range w.Chunks {
		for j := range w.Chunks[i] {
			var got []string
			for _, m := range w.Mods {
				if m.RG == i && m.Col == j && m.Type >= 2 && m.Type <= 5 {
					got = append(got, fmt.Sprintf("%x:%s", m.Type, core.Hexs(m.aad)))
				}
			}
			for _, t := range []int{6, 7, 8, 9, 1} {
				for _, m := range w.Mods {
					if m.RG == i && m.Col == j && m.Type == t {
						got = append(got, fmt.Sprintf("%x:%s", m.Type, core.Hexs(m.aad)))
					}
				}
			}
			req := fmt.Sprintf("c18.chunk %s %s %s %s %x %x", core.Hexs(w.Pfx), core.Hexs(w.FU), b01(p.EncFooter), w.Layout, i, j)
			want := c.Ask(req)
			if want != strings.Join(got, ",") {
				c.Mismatch("corr:C18.writer", req, strings.Join(got, ","), want, p)
				ok = false
			}
		}
	}
	return ok
}

// checkKeyModel: the key assignment of the model (writer_key of Aad/Keys.v over
// the ColumnKeys map of the configuration, looked up by the dot-joined PATH)
// against the file: for every column chunk of the first row group, whether its
// crypto_metadata names a column key, and which key value opened its modules
// in walk (0: the footer key; equal numbers: equal key values).
func checkKeyModel(c *core.Ctx, p *fparams, w *walked) bool {
	if !c.HasOracle() || len(w.Meta.RowGroups) == 0 {
		return true
	}
	cfg := p.encryption()
	var names []string
	for n := range cfg.ColumnKeys {
		names = append(names, n)
	}
	sort.Strings(names)
	num := map[string]int{}
	var items []string
	for _, n := range names {
		k := string(cfg.ColumnKeys[n])
		if num[k] == 0 {
			num[k] = len(num) + 1
		}
		items = append(items, fmt.Sprintf("%s:%x", core.Hexs([]byte(n)), num[k]))
	}
	m := "_"
	if len(items) > 0 {
		m = strings.Join(items, ",")
	}
	ok := true
	for j := range w.Meta.RowGroups[0].Columns {
		if j >= len(p.leaves()) {
			break
		}
		var comps []string
		for _, s := range strings.Split(p.leaves()[j], ".") {
			comps = append(comps, core.Hexs([]byte(s)))
		}
		impl := "0 0"
		if cm, own := w.Meta.RowGroups[0].Columns[j].CryptoMetadata.Value.(*format.EncryptionWithColumnKey); own {
			// walk opened the modules of the chunk with the key configured for this path
			impl = fmt.Sprintf("%x 1", num[string(cfg.ColumnKeys[strings.Join(cm.PathInSchema, ".")])])
		}
		req := fmt.Sprintf("c18.colkey %s %s", m, strings.Join(comps, ","))
		if ans := c.Ask(req); ans != impl {
			c.Mismatch("corr:C18.column-key", req+" (column "+p.leaves()[j]+")", impl, ans, p)
			ok = false
		}
	}
	return ok
}

// checkModelHistories runs random reader histories of the MODEL on a chunk of
// the real file: every module read the model predicts (place in the chunk,
// type, AAD) must open the real module at that place with AES-GCM.
func checkModelHistories(c *core.Ctx, p *fparams, w *walked, data []byte, count int) bool {
	if !c.HasOracle() {
		return true
	}
	ok := true
	for t := 0; t < count; t++ {
		i := c.Rng.Intn(len(w.Chunks))
		j := c.Rng.Intn(len(w.Chunks[i]))
		np := w.Pages[i][j]
		var ops []string
		for k, n := 0, 1+c.Rng.Intn(12); k < n; k++ {
			switch c.Rng.Intn(8) {
			case 0, 1, 2, 3:
				ops = append(ops, "n"+b01(c.Rng.Intn(4) != 0))
			case 4, 5:
				ops = append(ops, fmt.Sprintf("s%x.%s", c.Rng.Intn(np+1), b01(c.Rng.Intn(6) == 0)))
			case 6:
				ops = append(ops, "z")
			default:
				ops = append(ops, "d")
			}
		}
		req := fmt.Sprintf("c18.ordinals %s %s %s %s %x %x %s", core.Hexs(w.Pfx), core.Hexs(w.FU), b01(p.EncFooter), w.Layout, i, j, strings.Join(ops, ","))
		ans := c.Ask(req)
		c.Case("model-history", req, len(ops) > 1)
		if ans == "_" {
			continue
		}
		for _, ev := range strings.Split(ans, ",") {
			f := strings.Split(ev, ":")
			if len(f) != 4 {
				c.Mismatch("corr:C18.ordinals", req, "", ans, p)
				return false
			}
			var at, code int
			fmt.Sscanf(f[0], "%d", &at)
			fmt.Sscanf(f[1], "%x", &code)
			aad := make([]byte, (len(f[2])-1)/2)
			fmt.Sscanf(f[2][1:], "%x", &aad)
			if at >= len(w.Chunks[i][j]) {
				c.Mismatch("corr:C18.ordinals", req, fmt.Sprintf("chunk has %d modules", len(w.Chunks[i][j])), ev, p)
				return false
			}
			m := w.Mods[w.Chunks[i][j][at]]
			_, _, err := openEnvelope(p.key(m.Key), aad, data[m.Off:m.Off+m.Len])
			if err != nil || m.Type != code || f[3] != "1" {
				c.Mismatch("corr:C18.ordinals", req, fmt.Sprintf("module %d of the chunk is %v; AES-GCM with the model's AAD: %v", at, m, err), ev, p)
				ok = false
			}
		}
	}
	return ok
}

// ---------------------------------------------------------------------------
// (c) plaintext scan

var (
	scanWitness      = map[string]int{}
	scanWitnessFiles int
)

func markersOf(rows []rowP) map[string][][]byte {
	m := map[string][][]byte{}
	seen := map[string]bool{}
	add := func(col string, b []byte) {
		k := col + string(b)
		if !seen[k] {
			seen[k] = true
			m[col] = append(m[col], b)
		}
	}
	for _, r := range rows {
		add("id", binary.LittleEndian.AppendUint64(nil, uint64(r.ID)))
		add("val", binary.LittleEndian.AppendUint64(nil, uint64(r.Val)))
		add("name", []byte(r.Name))
		if r.Opt != nil {
			add("opt", []byte(*r.Opt))
		}
		for _, t := range r.Tags {
			add("tags", []byte(t))
		}
	}
	return m
}

func region(w *walked, data []byte, off int) string {
	n := len(data)
	flen := int(binary.LittleEndian.Uint32(data[n-8:]))
	if off >= n-8-flen {
		return "footer"
	}
	if w != nil {
		for _, m := range w.Mods {
			if off >= m.Off && off < m.Off+m.Len {
				return fmt.Sprintf("module type %d rg %d col %d page %d", m.Type, m.RG, m.Col, m.Page)
			}
		}
	}
	return "outside any module"
}

func plaintextScan(c *core.Ctx, p *fparams, rows []rowP, data []byte, w *walked) bool {
	ok := true
	for col, ms := range markersOf(rows) {
		for _, m := range ms {
			if k := bytes.Index(data, m); k >= 0 {
				c.Violation("plaintext-leak", fmt.Sprintf("a value of encrypted column %q (or its min/max statistic) occurs in clear at file offset %d (%s); file %s", col, k, region(w, data, k), p),
					map[string]any{"kind": "scan", "params": p, "column": col, "offset": k, "where": region(w, data, k)})
				ok = false
				break
			}
		}
	}
	if !clearMetadataCheck(c, p, w) {
		ok = false
	}
	return ok
}

// clearMetadataCheck: the clear footer of plaintext-footer mode holds no
// column metadata (values counts, min/max, offsets) of an encrypted column.
func clearMetadataCheck(c *core.Ctx, p *fparams, w *walked) bool {
	ok := true
	if w != nil && !p.EncFooter {
		for i := range w.ClearMD {
			for j := range w.ClearMD[i] {
				md := &w.ClearMD[i][j]
				if md.NumValues != 0 || len(md.Statistics.MinValue) != 0 || len(md.Statistics.MaxValue) != 0 || len(md.Statistics.Min) != 0 ||
					len(md.Statistics.Max) != 0 || md.DataPageOffset != 0 || md.TotalCompressedSize != 0 || len(md.PathInSchema) != 0 || len(md.Encoding) != 0 {
					c.Violation("clear-footer-metadata", fmt.Sprintf("plaintext footer keeps column metadata of encrypted column rg %d col %d in the clear (num_values=%d, min=%x, max=%x); file %s", i, j, md.NumValues, md.Statistics.MinValue, md.Statistics.MaxValue, p),
						map[string]any{"kind": "scan", "params": p, "rg": i, "col": j})
					ok = false
				}
			}
		}
	}
	return ok
}

// keylessRead: a reader that holds NO key opens the bytes (a plaintext footer
// may open) and reads what it can, rows and the first page of every column
// chunk: no value written may come back.
func keylessRead(c *core.Ctx, p *fparams, rows []rowP, data []byte) bool {
	ints := map[int64]string{}
	strs := map[string]string{}
	for _, r := range rows {
		ints[r.ID], ints[r.Val], strs[r.Name] = "id", "val", "name"
		if r.Opt != nil {
			strs[*r.Opt] = "opt"
		}
		for _, t := range r.Tags {
			strs[t] = "tags"
		}
	}
	o := guard(20*time.Second, func(o *outcome) {
		f, err := parquet.OpenFile(bytes.NewReader(data), int64(len(data)))
		if err != nil {
			return
		}
		got, _ := p.readRows(f, 0)
		for i, r := range got {
			col := ""
			switch {
			case ints[r.ID] != "":
				col = ints[r.ID]
			case ints[r.Val] != "":
				col = ints[r.Val]
			case strs[r.Name] != "":
				col = strs[r.Name]
			case r.Opt != nil && strs[*r.Opt] != "":
				col = strs[*r.Opt]
			}
			for _, t := range r.Tags {
				if strs[t] != "" {
					col = strs[t]
				}
			}
			if col != "" {
				o.Err = fmt.Errorf("row %d of %d rows read without any key holds a value written to column %q", i, len(got), col)
				return
			}
		}
		for gi, rg := range f.RowGroups() {
			for ci, cc := range rg.ColumnChunks() {
				pages := cc.Pages()
				pg, err := pages.ReadPage()
				if err == nil && pg != nil {
					vals := make([]parquet.Value, pg.NumValues())
					m, _ := pg.Values().ReadValues(vals)
					for _, v := range vals[:m] {
						col := ""
						switch v.Kind() {
						case parquet.Int64:
							col = ints[v.Int64()]
						case parquet.ByteArray:
							col = strs[string(v.ByteArray())]
						}
						if col != "" {
							o.Err = fmt.Errorf("ReadPage on row group %d column %d without any key returned a value written to column %q", gi, ci, col)
							break
						}
					}
					parquet.Release(pg)
				}
				pages.Close()
				if o.Err != nil {
					return
				}
			}
		}
	})
	c.Res.Evaluations++
	switch {
	case o.Err != nil:
		c.Violation("readable-without-keys", fmt.Sprintf("file written with an EncryptionConfig (options %s): %v; file %s", p.route(), o.Err, p),
			map[string]any{"kind": "file", "params": p})
		return false
	case o.Panic != "" || o.Hung:
		c.Violation("keyless-read-panic", fmt.Sprintf("reading an encrypted file without keys: panic=%q hung=%v; file %s", o.Panic, o.Hung, p),
			map[string]any{"kind": "file", "params": p})
		return false
	}
	return true
}

// ---------------------------------------------------------------------------
// (b) round trips

func genParams(c *core.Ctx, i int) *fparams {
	r := c.Rng
	p := &fparams{Seed: r.Int63n(1 << 40), V: 1 + r.Intn(2), Dict: r.Intn(2) == 0, Bloom: r.Intn(3) == 0,
		EncFooter: i%2 == 0, ColKeys: (i/2)%3 == 0, AllKeys: (i/2)%3 == 2, KeyLen: []int{16, 24, 32}[r.Intn(3)],
		Codec: []string{"uncompressed", "uncompressed", "snappy", "gzip", "zstd"}[r.Intn(5)]}
	p.Rows = 1 + r.Intn(c.N(160, 400))
	p.PageRows = 1 + r.Intn(40)
	if r.Intn(3) != 0 {
		p.RGRows = 1 + r.Intn(p.Rows)
	}
	if r.Intn(3) == 0 {
		p.Prefix = 1 + r.Intn(12)
	}
	if r.Intn(2) == 0 {
		p.FileID = 1 + r.Int63n(1<<40)
		// the explicit identifier: 8 bytes in one file of three, else 1..24 bytes
		if r.Intn(3) != 0 {
			p.FileIDLen = 1 + r.Intn(24)
		}
	}
	// the keys of the configuration: independent, or a family with a common
	// prefix of 1 .. KeyLen-1 bytes (often 16: the AES-128 part of a longer key)
	switch r.Intn(4) {
	case 0:
		p.KeyShare = 1 + r.Intn(p.KeyLen-1)
	case 1:
		p.KeyShare = min(16, p.KeyLen-1)
	}
	// how the options reach the writer: given directly to NewGenericWriter in
	// one file of three, a random route otherwise
	if i%3 != 0 {
		p.Route = genRoute(c, r)
		if p.Route == defaultRoute {
			p.Route = ""
		}
	}
	return p
}

// genHistory: two or three files written from ONE EncryptionConfig value, by
// writers constructed from it and by writers reused through Reset, x footer
// mode x key assignment (footer key only, some columns, all columns); the
// configuration names no file identifier in 3 histories of 4.
var historyOps = []string{"nr", "nn", "nrr", "nrn", "nnr", "nr", "nnn", "nrr"}

func genHistory(c *core.Ctx, i int) *fparams {
	r := c.Rng
	p := genParams(c, i)
	p.EncFooter = i%2 == 0
	p.ColKeys, p.AllKeys = (i/2)%3 == 1, (i/2)%3 == 2
	p.Rows = 1 + r.Intn(c.N(48, 120))
	p.RGRows = 0
	if r.Intn(3) != 0 {
		p.RGRows = 1 + r.Intn(p.Rows)
	}
	p.Uniform = r.Intn(2) == 0
	p.FileID = 0
	if i%4 == 3 {
		p.FileID = 1 + r.Int63n(1<<40)
	}
	if p.ctor() == 'F' {
		// the function Write makes one file; its options through a sorting writer instead
		p.Route = "S" + p.Route[1:]
	}
	h := &history{Ops: historyOps[(i/6)%len(historyOps)]}
	h.Eager = strings.Count(h.Ops, "n") > 1 && r.Intn(3) == 0
	for range h.Ops {
		f := sfile{RowSeed: 1 + r.Int63n(1<<40), Rows: p.Rows, RGRows: p.RGRows}
		if r.Intn(2) == 0 {
			// another geometry (otherwise: equal module sizes, when the rows are uniform)
			f.Rows = 1 + r.Intn(c.N(48, 120))
			f.RGRows = 0
			if r.Intn(3) != 0 {
				f.RGRows = 1 + r.Intn(f.Rows)
			}
		}
		h.Files = append(h.Files, f)
	}
	p.Hist = h
	return p.sibling(0)
}

func (h *history) describe() string {
	var parts []string
	for j := range h.Ops {
		if h.Ops[j] == 'r' {
			parts = append(parts, fmt.Sprintf("file %d: the writer of file %d after Reset", j, j-1))
		} else {
			parts = append(parts, fmt.Sprintf("file %d: a new writer", j))
		}
	}
	s := "files written from one EncryptionConfig value (" + strings.Join(parts, "; ")
	if h.Eager {
		s += "; all writers constructed before the first file is written"
	}
	return s + ")"
}

// checkHistory writes the files of p's history in one run; every file is
// checked like a fresh file (checkData), then across the files: without a
// configured identifier no two files carry the same aad_file_unique, and a
// module of one file put in the place of the module with the same type and
// ordinals (and size) of another file makes the read fail.
func checkHistory(c *core.Ctx, p *fparams, record bool) bool {
	h := p.Hist
	all, err := p.writeAll()
	if err != nil {
		c.Violation("write-error", fmt.Sprintf("writing %s failed: %v; %s", h.describe(), err, p), map[string]any{"kind": "history", "params": p})
		return false
	}
	ok := true
	files := make([]*tfile, len(all))
	ids := make([][]byte, len(all))
	for j := range all {
		q := p.sibling(j)
		rows := q.rows()
		fok, w := checkData(c, q, rows, all[j], record)
		if !fok {
			ok = false
		}
		if w != nil {
			files[j] = &tfile{q, rows, all[j], w}
		}
		if ids[j], err = fileUniqueOf(all[j]); err != nil {
			ids[j] = nil
		}
	}
	if !ok {
		return false
	}
	if p.FileID != 0 {
		// the caller pinned the identifier: every file carries it (walk), and the
		// files are interchangeable by the caller's choice
		return ok
	}
	for j := range all {
		for k := j + 1; k < len(all); k++ {
			c.Res.Evaluations++
			if ids[j] != nil && bytes.Equal(ids[j], ids[k]) {
				c.Violation("file-identifier-reused", fmt.Sprintf("%s, no FileIdentifier configured: files %d and %d carry the same aad_file_unique %x, so that the AADs of their modules coincide; %s", h.describe(), j, k, ids[j], p),
					map[string]any{"kind": "history", "params": p})
				ok = false
			}
		}
	}
	// cross-file replacements: a few per ordered pair of files, of different module types
	for k := range files {
		for j := range files {
			if j == k || files[j] == nil || files[k] == nil {
				continue
			}
			cands := enumerate(c, files[k], files[j], "xfile", -1, 1, true)
			c.Rng.Shuffle(len(cands), func(a, b int) { cands[a], cands[b] = cands[b], cands[a] })
			seen := map[int]bool{}
			for ci := range cands {
				tc := &cands[ci]
				if seen[tc.Target.Type] || len(seen) >= 4 {
					continue
				}
				seen[tc.Target.Type] = true
				tc.Mut.From = j + 1
				if !files[k].runCase(c, tc, files[j]) {
					return false
				}
			}
		}
	}
	return ok
}

// shrinkHistory simplifies a failing history: the options like shrinkFile,
// then fewer and smaller files.
func shrinkHistory(c *core.Ctx, p *fparams) *fparams {
	cur := *p
	fails := func(q *fparams) bool { return c.Probe(func() { checkHistory(c, q, false) }) }
	dropFile := func(q *fparams, j int) bool {
		if len(q.Hist.Ops) <= 2 || j >= len(q.Hist.Ops) {
			return false
		}
		full := q.sibling(q.Hist.Index).Hist
		ops := []byte(full.Ops)
		if ops[j] == 'n' && j+1 < len(ops) {
			ops[j+1] = 'n'
		}
		nh := &history{Eager: full.Eager}
		for k := range ops {
			if k != j {
				nh.Ops += string(ops[k])
				nh.Files = append(nh.Files, full.Files[k])
			}
		}
		q.Hist = nh
		q.RowSeed, q.Rows, q.RGRows = nh.Files[0].RowSeed, nh.Files[0].Rows, nh.Files[0].RGRows
		return true
	}
	mods := []func(q *fparams) bool{
		func(q *fparams) bool { return dropFile(q, len(q.Hist.Ops)-1) },
		func(q *fparams) bool { return dropFile(q, 0) },
		func(q *fparams) bool { return dropFile(q, 1) },
		func(q *fparams) bool { ok := q.Hist.Eager; h := *q.Hist; h.Eager = false; q.Hist = &h; return ok },
		func(q *fparams) bool {
			small := true
			for _, f := range q.sibling(0).Hist.Files {
				small = small && f.Rows <= 4 && f.RGRows == 0
			}
			q.setGeometry(4, 0)
			return !small
		},
		func(q *fparams) bool { ok := q.Bloom; q.Bloom = false; return ok },
		func(q *fparams) bool { ok := q.Codec != "uncompressed"; q.Codec = "uncompressed"; return ok },
		func(q *fparams) bool { ok := q.Dict; q.Dict = false; return ok },
		func(q *fparams) bool { ok := q.Prefix != 0; q.Prefix = 0; return ok },
		func(q *fparams) bool { ok := q.AllKeys; q.AllKeys = false; q.ColKeys = true; return ok },
		func(q *fparams) bool { ok := q.ColKeys || q.AllKeys; q.ColKeys, q.AllKeys = false, false; return ok },
		func(q *fparams) bool { ok := q.KeyShare != 0; q.KeyShare = 0; return ok },
		func(q *fparams) bool { ok := q.FileIDLen != 0; q.FileIDLen = 0; return ok },
		func(q *fparams) bool { ok := q.KeyLen != 16; q.KeyLen = 16; q.KeyShare = min(q.KeyShare, 15); return ok },
		func(q *fparams) bool { ok := q.PageRows < 64; q.PageRows = 64; return ok },
		func(q *fparams) bool { ok := !q.Uniform; q.Uniform = true; return ok },
	}
	for changed := true; changed; {
		changed = false
		for _, mod := range mods {
			q := cur
			if mod(&q) && fails(&q) {
				cur, changed = q, true
			}
		}
	}
	return &cur
}

// checkFile runs (a) (b) (c) on one parameter set; false when something was reported.
func checkFile(c *core.Ctx, p *fparams, record bool) bool {
	rows := p.rows()
	data, err := p.write(rows, true)
	if err != nil {
		c.Violation("write-error", fmt.Sprintf("writing an encrypted file failed: %v; file %s", err, p), map[string]any{"kind": "file", "params": p})
		return false
	}
	ok, _ := checkData(c, p, rows, data, record)
	return ok
}

// checkData runs (a) (b) (c) on the bytes of the file p describes.
func checkData(c *core.Ctx, p *fparams, rows []rowP, data []byte, record bool) (bool, *walked) {
	ok := true
	fail := func(class, what string) {
		c.Violation(class, what+"; file "+p.String(), map[string]any{"kind": "file", "params": p})
		ok = false
	}
	// (a) independent parse with the model's AADs
	w, err := walk(c, p, data)
	var cme *cryptoMDError
	if errors.As(err, &cme) {
		// the footer is not the one the Parquet encryption layout prescribes for
		// the key assignment: readers resolve the keys through this field
		o := p.touchAll(data, &keyset{p: p}, rows)
		back := "the file reads back with the keys resolved by that path"
		if o.failed() || !reflect.DeepEqual(o.Rows, rows) {
			back = fmt.Sprintf("reading the file with the right keys, resolved by column path: err=%v panic=%q hung=%v, %d of %d rows", o.Err, o.Panic, o.Hung, len(o.Rows), len(rows))
		}
		fail("crypto-metadata", "the column chunk metadata of the written footer does not state the key of the column: "+cme.what+"; "+back)
		return false, nil
	}
	var ke *keyError
	if errors.As(err, &ke) {
		// per-column keys: the module of a column is sealed under the key of
		// another one (or of the footer), whoever holds that key reads the column
		// and a reader elsewhere holding the configured key does not
		fail("sealed-with-another-key", "independent AES-GCM (crypto/aes, cipher.NewGCM) on the bytes of the written file: "+ke.Error()+": the file is not encrypted under the key assignment of its configuration")
		return false, nil
	}
	if err != nil {
		// the property predicates first, on the bytes as they are: nothing in
		// clear, nothing for a reader without keys
		if !plaintextScan(c, p, rows, data, nil) {
			ok = false
		}
		if !keylessRead(c, p, rows, data) {
			ok = false
		}
		// which configuration did the writer use, and which one does the model say?
		if used := identifyConfig(p, data); used != 1 {
			what := map[int]string{0: "none: the file carries no encryption algorithm", 2: "the decoy configuration named by an option that a later option overrides"}[used]
			if what == "" {
				what = "neither the configuration of the file nor the decoy opens the footer"
			}
			c.Mismatch("corr:C18.options", "options "+p.route()+" ("+err.Error()+")", what, fmt.Sprintf("configuration %d (E)", modelEffective(c, p.route())), p)
			ok = false
		}
		// is the file readable by the implementation itself?
		o := p.touchAll(data, &keyset{p: p}, rows)
		if o.failed() || !reflect.DeepEqual(o.Rows, rows) {
			fail("roundtrip", fmt.Sprintf("file cannot be parsed with the model's AADs (%v) and does not read back either (%v %s)", err, o.Err, o.Panic))
		} else if ok {
			c.Mismatch("corr:C18.aad", p.String(), "the file reads back but AES-GCM with the model's AADs fails: "+err.Error(), "every module opens under make_aad", p)
			ok = false
		}
		return ok, nil
	}
	if !checkWriterModel(c, p, w) {
		ok = false
	}
	if !checkKeyModel(c, p, w) {
		ok = false
	}
	if !checkModelHistories(c, p, w, data, 6) {
		ok = false
	}
	// (c)
	if !plaintextScan(c, p, rows, data, w) {
		ok = false
	}
	if !keylessRead(c, p, rows, data) {
		ok = false
	}
	if record && p.Codec == "uncompressed" && scanWitnessFiles < 8 {
		// the same scan finds the markers of every column in the unencrypted twin
		if twin, err := p.write(rows, false); err == nil {
			scanWitnessFiles++
			for col, ms := range markersOf(rows) {
				for _, m := range ms {
					if bytes.Contains(twin, m) {
						scanWitness[col]++
						break
					}
				}
			}
		}
	}
	// (b) all keys
	full := &keyset{p: p}
	o := p.touchAll(data, full, rows)
	switch {
	case o.Panic != "":
		fail("panic", "reading an untampered encrypted file panicked: "+o.Panic)
	case o.Hung:
		fail("hang", "reading an untampered encrypted file did not finish")
	case o.Err != nil:
		fail("roundtrip", "reading an untampered encrypted file failed: "+o.Err.Error())
	case !reflect.DeepEqual(o.Rows, rows):
		fail("roundtrip", fmt.Sprintf("rows read back differ from the rows written (%d vs %d rows)", len(o.Rows), len(rows)))
	}
	if !ok {
		return false, w
	}
	// (b') the same sequential read by a reader that has no page index (the
	// page cursor then finds its way through the dictionary and data page
	// modules by their headers alone) and by one that loads neither index nor
	// bloom filters
	for vi, opts := range [][]parquet.FileOption{
		{parquet.SkipPageIndex(true)},
		{parquet.SkipPageIndex(true), parquet.SkipBloomFilters(true), parquet.FileReadMode(parquet.ReadModeAsync)},
	} {
		o := p.touchAll(data, full, rows, opts...)
		if o.failed() || !reflect.DeepEqual(o.Rows, rows) {
			c.Violation("roundtrip-no-index", fmt.Sprintf("reading an untampered encrypted file sequentially without its page index (option set %d): err=%v panic=%q hung=%v, %d rows, want %d; file %s", vi, o.Err, o.Panic, o.Hung, len(o.Rows), len(rows), p),
				map[string]any{"kind": "file", "params": p})
			return false, w
		}
	}
	// reads after SeekToRow, with and without the page index
	for t := 0; t < 3; t++ {
		from := int64(c.Rng.Intn(len(rows) + 1))
		var opts []parquet.FileOption
		if t == 2 {
			opts = append(opts, parquet.SkipPageIndex(true), parquet.SkipBloomFilters(true))
		}
		so := guard(20*time.Second, func(o *outcome) {
			f, err := parquet.OpenFile(bytes.NewReader(data), int64(len(data)), append(opts, parquet.WithDecryption(full))...)
			if err != nil {
				o.Err = err
				return
			}
			o.Rows, o.Err = p.readRows(f, from)
		})
		if so.failed() || !reflect.DeepEqual(append([]rowP{}, so.Rows...), append([]rowP{}, rows[from:]...)) {
			c.Violation("seek-roundtrip", fmt.Sprintf("SeekToRow(%d) then reading (skip page index: %v): err=%v panic=%q hung=%v, %d rows, want %d; file %s", from, t == 2, so.Err, so.Panic, so.Hung, len(so.Rows), len(rows)-int(from), p),
				map[string]any{"kind": "seek", "params": p, "from": from, "skip_index": t == 2})
			ok = false
			break
		}
	}
	if ok && !cursorHistories(c, p, rows, data, w) {
		ok = false
	}
	if ok && !missingKey(c, p, rows, data) {
		ok = false
	}
	if ok && !wrongKeyProbe(c, p, rows, data) {
		ok = false
	}
	if record {
		footer := map[bool]string{true: "encrypted", false: "plaintext"}[p.EncFooter]
		bucket := fmt.Sprintf("roundtrip/footer=%s/keys=%s/v%d/%s/dict=%v", footer, p.keyMode(), p.V, p.Codec, p.Dict)
		if p.Hist != nil {
			// which file of which kind of history
			bucket = fmt.Sprintf("history/%s#%d/footer=%s/keys=%s", p.Hist.Ops, p.Hist.Index, footer, p.keyMode())
		}
		c.Case(bucket, p.String(), len(w.Mods) > 8)
		c.Case("route/"+routeShape(p.route())+"/footer="+footer, p.route()+"|"+p.String(), len(w.Mods) > 8)
		c.Res.Evaluations += len(w.Mods) // modules opened with the model's AAD
		c.Sample(map[string]any{"params": p, "modules": len(w.Mods), "layout": w.Layout})
	}
	return ok, w
}

// cursorHistories drives FilePages of single chunks through random histories
// (ReadPage, SeekToRow, ReadDictionary) and checks the values returned for the
// required columns against the rows written.
func cursorHistories(c *core.Ctx, p *fparams, rows []rowP, data []byte, w *walked) bool {
	ok := true
	for t := 0; t < 6 && ok; t++ {
		// every required column with the page index, and without it
		skipIndex := t >= 3
		col := []int{0, 1, 4, 1, 4, 0}[t]
		o := guard(20*time.Second, func(o *outcome) {
			opts := []parquet.FileOption{parquet.WithDecryption(&keyset{p: p})}
			if skipIndex {
				opts = append(opts, parquet.SkipPageIndex(true), parquet.SkipBloomFilters(true))
			}
			f, err := parquet.OpenFile(bytes.NewReader(data), int64(len(data)), opts...)
			if err != nil {
				o.Err = err
				return
			}
			base := 0
			for gi, rg := range f.RowGroups() {
				n := int(rg.NumRows())
				pages := rg.ColumnChunks()[col].Pages()
				pos := 0
				var hist []string
				for k := 0; k < 10; k++ {
					switch c.Rng.Intn(5) {
					case 0, 1:
						r := c.Rng.Intn(n)
						hist = append(hist, fmt.Sprintf("seek %d", r))
						if err := pages.SeekToRow(int64(r)); err != nil {
							o.Err = fmt.Errorf("rg %d col %d %v: %w", gi, col, hist, err)
							pages.Close()
							return
						}
						pos = r
					case 2:
						hist = append(hist, "dict")
						if fp, isFP := pages.(*parquet.FilePages); isFP {
							if _, err := fp.ReadDictionary(); err != nil {
								o.Err = fmt.Errorf("rg %d col %d %v: %w", gi, col, hist, err)
								pages.Close()
								return
							}
						}
					default:
						hist = append(hist, "read")
						pg, err := pages.ReadPage()
						if err == io.EOF && pos >= n {
							continue
						}
						if err != nil {
							o.Err = fmt.Errorf("rg %d col %d %v: %w", gi, col, hist, err)
							pages.Close()
							return
						}
						vals := make([]parquet.Value, pg.NumValues())
						m, _ := pg.Values().ReadValues(vals)
						for q := 0; q < m; q++ {
							r := rows[base+pos+q]
							var want parquet.Value
							switch col {
							case 0:
								want = parquet.Int64Value(r.ID)
							case 1:
								want = parquet.ByteArrayValue([]byte(r.Name))
							default:
								want = parquet.Int64Value(r.Val)
							}
							if !parquet.Equal(vals[q], want) {
								o.Err = fmt.Errorf("rg %d col %d after %v: value %d of the page is %v, row %d holds %v", gi, col, hist, q, vals[q], base+pos+q, want)
								parquet.Release(pg)
								pages.Close()
								return
							}
						}
						pos += int(pg.NumRows())
						parquet.Release(pg)
					}
				}
				pages.Close()
				base += n
			}
		})
		if o.failed() {
			c.Violation("cursor-history", fmt.Sprintf("page cursor on an encrypted chunk (skip page index: %v): err=%v panic=%q hung=%v; file %s", skipIndex, o.Err, o.Panic, o.Hung, p),
				map[string]any{"kind": "file", "params": p})
			ok = false
		}
	}
	return ok
}

// missingKey: the reader has no key for column "name".
func missingKey(c *core.Ctx, p *fparams, rows []rowP, data []byte) bool {
	if !p.ownKey("name") {
		return true
	}
	ok := true
	// a reader that holds the footer key only (and answers it for every column)
	// does not get at a column that has its own key
	fo := p.touchAll(data, &keyset{p: p, footerOnly: true}, rows)
	switch {
	case fo.Panic != "" || fo.Hung:
		c.Violation("footer-key-only-panic", fmt.Sprintf("reader holding only the footer key: panic=%q hung=%v; file %s", fo.Panic, fo.Hung, p), map[string]any{"kind": "missing-key", "params": p})
		ok = false
	case fo.Err == nil:
		c.Violation("footer-key-only-data", fmt.Sprintf("reader holding only the footer key read %d rows with a nil error although %s have their own keys; file %s", len(fo.Rows), p.keyMode(), p), map[string]any{"kind": "missing-key", "params": p})
		ok = false
	}
	for _, r := range fo.Rows {
		if r.Name != "" {
			c.Violation("footer-key-only-data", "reader holding only the footer key obtained a value of column \"name\", which has its own key; file "+p.String(), map[string]any{"kind": "missing-key", "params": p})
			ok = false
			break
		}
	}
	ks := &keyset{p: p, missing: map[string]bool{"name": true}}
	// whole rows: must fail, must not panic
	o := p.touchAll(data, ks, rows)
	switch {
	case o.Panic != "":
		c.Violation("missing-key-panic", fmt.Sprintf("reader without the key of column \"name\": reading rows panicked: %s; file %s", o.Panic, p), map[string]any{"kind": "missing-key", "params": p})
		ok = false
	case o.Hung:
		c.Violation("hang", "reader without a column key did not finish; file "+p.String(), map[string]any{"kind": "missing-key", "params": p})
		ok = false
	case o.Err == nil:
		c.Violation("missing-key-data", fmt.Sprintf("reader without the key of column \"name\" read %d rows with a nil error; file %s", len(o.Rows), p), map[string]any{"kind": "missing-key", "params": p})
		ok = false
	}
	for _, r := range o.Rows {
		if r.Name != "" {
			c.Violation("missing-key-data", "reader without the key of column \"name\" obtained a value of that column; file "+p.String(), map[string]any{"kind": "missing-key", "params": p})
			ok = false
			break
		}
	}
	// per column: "name" fails, the columns under other keys still read
	o2 := guard(20*time.Second, func(o *outcome) {
		f, err := parquet.OpenFile(bytes.NewReader(data), int64(len(data)), parquet.WithDecryption(ks))
		if err != nil {
			o.Err = fmt.Errorf("open: %w", err)
			return
		}
		for gi, rg := range f.RowGroups() {
			for ci, cc := range rg.ColumnChunks() {
				pages := cc.Pages()
				pg, err := pages.ReadPage()
				if ci == 1 {
					if err == nil {
						o.Err = fmt.Errorf("rg %d: ReadPage on column \"name\" returned a page of %d values without its key", gi, pg.NumValues())
					} else if !errors.Is(err, parquet.ErrKeyNotFound) {
						o.Err = fmt.Errorf("rg %d: ReadPage on column \"name\" without key: %w (does not wrap ErrKeyNotFound)", gi, err)
					}
				} else if err != nil {
					o.Err = fmt.Errorf("rg %d col %d (key available): %w", gi, ci, err)
				}
				if pg != nil {
					parquet.Release(pg)
				}
				pages.Close()
				if o.Err != nil {
					return
				}
			}
		}
	})
	if o2.Err != nil && strings.HasPrefix(o2.Err.Error(), "open:") {
		c.Violation("missing-key-open-aborts", fmt.Sprintf("reader whose key retriever answers ErrKeyNotFound for column \"name\": OpenFile fails (%v) although the contract of ErrKeyNotFound is to leave only that column inaccessible; file %s", o2.Err, p), map[string]any{"kind": "missing-key", "params": p})
		ok = false
	} else if o2.failed() {
		c.Violation("missing-key-columns", fmt.Sprintf("reader without the key of column \"name\": err=%v panic=%q; file %s", o2.Err, o2.Panic, p), map[string]any{"kind": "missing-key", "params": p})
		ok = false
	}
	c.Case("missing-key", p.String(), true)
	return ok
}

// wrongKeyProbe: a reader whose retriever answers, for ONE key of the
// configuration (the footer key or the key of one column), the right key with
// one bit inverted at a random position (the right key was used before in this
// process: by the writer and by the reads above) must get an error, whatever
// OpenFile loads eagerly.
func wrongKeyProbe(c *core.Ctx, p *fparams, rows []rowP, data []byte) bool {
	names := []string{"footer"}
	for _, l := range p.leaves() {
		if p.ownKey(l) {
			names = append(names, l)
		}
	}
	// a function of the parameters, so that a failing file shrinks and replays
	h := &smix{uint64(p.Seed)*31 + uint64(p.RowSeed) + uint64(p.KeyLen)*977}
	name := names[h.next()%uint64(len(names))]
	at := 1 + int(h.next()%uint64(p.KeyLen))
	skip := int(h.next() % 3)
	ks := &keyset{p: p, wrong: map[string][]byte{name: p.wrongKey(name, at)}}
	cls, what := classify(p, rows, data, ks, skipOptions(skip)...)
	c.Res.Evaluations++
	c.Case(fmt.Sprintf("wrong-key/len=%d/byte>=16:%v/key=%s", p.KeyLen, at > 16, map[bool]string{true: "footer", false: "column"}[name == "footer"]), fmt.Sprintf("%s|%s|%d|%d", p, name, at, skip), true)
	if cls == "error" {
		return true
	}
	c.Violation("wrong-key-accepted", fmt.Sprintf("reader whose key for %q is the right %d-byte key with one bit of byte %d inverted (skip option set %d): the read returned %s (%s) instead of an error; file %s", name, p.KeyLen, at-1, skip, cls, what, p),
		map[string]any{"kind": "file", "params": p})
	return false
}

// ---------------------------------------------------------------------------
// (d) tamper enumeration

type mutation struct {
	Kind string `json:"kind"`           // flip, transplant, xfile, length, truncate-file, wrong-key
	Byte int    `json:"byte,omitempty"` // flip: byte offset within the module
	Bit  int    `json:"bit,omitempty"`
	Src  *module `json:"src,omitempty"`   // transplant: the module copied over the target
	Val  uint32 `json:"val,omitempty"`    // length: new value of the length field
	Key  string `json:"keyname,omitempty"` // wrong-key: which key the reader gets wrong
	// wrong-key: KeyByte = k > 0: the wrong key is the right one with one bit of
	// its byte k-1 inverted (0: an independent key); Skip: what the reader does
	// not load on OpenFile, so that the first module it meets under the wrong
	// column key is a page index / a bloom filter / a page (1: SkipPageIndex, 2: + SkipBloomFilters)
	KeyByte int `json:"key_byte,omitempty"`
	Skip    int `json:"skip,omitempty"`
	// xfile: the source file. 0: the twin (another writer and configuration with
	// the next explicit identifier; in a history the previous file, or the next
	// one for file 0); k+1: file k of the history
	From int `json:"from,omitempty"`
}

type tamperCase struct {
	Params fparams  `json:"params"`
	Target module   `json:"target"`
	Mut    mutation `json:"mutation"`
}

// classify runs the full read on tampered bytes.  The property: an error.
func classify(p *fparams, rows []rowP, tampered []byte, ks parquet.KeyRetriever, opts ...parquet.FileOption) (string, string) {
	o := p.touchAll(tampered, ks, rows, opts...)
	switch {
	case o.Panic != "":
		return "panic", o.Panic
	case o.Hung:
		return "hang", "no result within the deadline"
	case o.Err != nil:
		return "error", o.Err.Error()
	case reflect.DeepEqual(o.Rows, rows):
		return "identical-data-nil-error", fmt.Sprintf("%d rows, equal to the rows written", len(o.Rows))
	default:
		return "wrong-data-nil-error", fmt.Sprintf("%d rows differing from the %d written", len(o.Rows), len(rows))
	}
}

type tfile struct {
	p    *fparams
	rows []rowP
	data []byte
	w    *walked
}

func buildTamperFile(c *core.Ctx, p *fparams) *tfile {
	rows := p.rows()
	data, err := p.write(rows, true)
	if err != nil {
		c.Violation("write-error", fmt.Sprintf("writing an encrypted file failed: %v; file %s", err, p), map[string]any{"kind": "file", "params": p})
		return nil
	}
	return tamperFileOf(c, p, rows, data)
}

// buildTamperPair: the file p describes and the file modules are taken from
// for the cross-file replacements.  Without history the twin is written by
// another writer from another configuration value with the next explicit
// identifier; the files of a history come from one run over one configuration.
func buildTamperPair(c *core.Ctx, p *fparams, from int) (*tfile, *tfile) {
	if p.Hist == nil {
		t := buildTamperFile(c, p)
		if t == nil {
			return nil, nil
		}
		// same keys, same schema, same rows: another file
		return t, buildTamperFile(c, p.twin())
	}
	all, err := p.writeAll()
	if err != nil {
		c.Violation("write-error", fmt.Sprintf("writing a history of encrypted files failed: %v; file %s", err, p), map[string]any{"kind": "file", "params": p})
		return nil, nil
	}
	t := tamperFileOf(c, p, p.rows(), all[p.Hist.Index])
	if t == nil {
		return nil, nil
	}
	j := from - 1
	if from == 0 {
		if j = p.Hist.Index - 1; j < 0 {
			j = 1
		}
	}
	if j < 0 || j >= len(all) || j == p.Hist.Index {
		return t, nil
	}
	q := p.sibling(j)
	return t, tamperFileOf(c, q, q.rows(), all[j])
}

func tamperFileOf(c *core.Ctx, p *fparams, rows []rowP, data []byte) *tfile {
	w, err := walk(c, p, data)
	if err != nil {
		c.Mismatch("corr:C18.aad", p.String(), "AES-GCM with the model's AADs fails: "+err.Error(), "every module opens under make_aad", p)
		if w, err = walkStructural(p, data); err != nil {
			return nil
		}
	}
	if cls, what := classify(p, rows, data, &keyset{p: p}); cls != "identical-data-nil-error" {
		c.Violation("roundtrip", fmt.Sprintf("untampered file does not read back: %s %s; file %s", cls, what, p), map[string]any{"kind": "file", "params": p})
		return nil
	}
	return &tfile{p, rows, data, w}
}

// apply returns the tampered bytes (a fresh copy) or nil when the mutation does not apply.
func (t *tfile) apply(tc *tamperCase, other *tfile) []byte {
	m := tc.Target
	d := append([]byte{}, t.data...)
	switch tc.Mut.Kind {
	case "flip":
		if tc.Mut.Byte >= m.Len {
			return nil
		}
		d[m.Off+tc.Mut.Byte] ^= 1 << uint(tc.Mut.Bit)
	case "length":
		if m.Sig {
			return nil
		}
		binary.LittleEndian.PutUint32(d[m.Off:], tc.Mut.Val)
	case "transplant":
		s := tc.Mut.Src
		if s == nil || s.Len != m.Len {
			return nil
		}
		copy(d[m.Off:m.Off+m.Len], t.data[s.Off:s.Off+s.Len])
	case "xfile":
		s := tc.Mut.Src
		if s == nil || other == nil || s.Len != m.Len {
			return nil
		}
		copy(d[m.Off:m.Off+m.Len], other.data[s.Off:s.Off+s.Len])
	case "truncate-file":
		// the file ends inside the module; the tail (footer, magic) is kept
		// behind it so that the file still opens
		cut := m.Off + tc.Mut.Byte
		if tc.Mut.Byte >= m.Len || m.Type == 0 || m.Type == 1 {
			return nil
		}
		d = append(append([]byte{}, t.data[:cut]...), make([]byte, m.Len-tc.Mut.Byte)...)
		d = append(d, t.data[m.Off+m.Len:]...)
	default:
		return nil
	}
	if bytes.Equal(d, t.data) {
		return nil
	}
	return d
}

// eval applies the mutation and classifies the read ("" = does not apply).
func (t *tfile) eval(tc *tamperCase, other *tfile) (string, string) {
	if tc.Mut.Kind == "wrong-key" {
		ks := &keyset{p: t.p, wrong: map[string][]byte{tc.Mut.Key: t.p.wrongKey(tc.Mut.Key, tc.Mut.KeyByte)}}
		return classify(t.p, t.rows, t.data, ks, skipOptions(tc.Mut.Skip)...)
	}
	d := t.apply(tc, other)
	if d == nil {
		return "", ""
	}
	return classify(t.p, t.rows, d, &keyset{p: t.p})
}

// wrongKey: an independent key of the same length (at = 0) or the right key
// with one bit of byte at-1 inverted.
func (p *fparams) wrongKey(name string, at int) []byte {
	if at <= 0 || at > p.KeyLen {
		return derive(p.Seed, "wrong/"+name, p.KeyLen)
	}
	k := append([]byte{}, p.key(name)...)
	k[at-1] ^= 1 << uint(at%8)
	return k
}

func skipOptions(skip int) []parquet.FileOption {
	switch skip {
	case 1:
		return []parquet.FileOption{parquet.SkipPageIndex(true)}
	case 2:
		return []parquet.FileOption{parquet.SkipPageIndex(true), parquet.SkipBloomFilters(true)}
	}
	return nil
}

func (t *tfile) runCase(c *core.Ctx, tc *tamperCase, other *tfile) bool {
	cls, what := t.eval(tc, other)
	return t.report(c, tc, cls, what)
}

func (t *tfile) report(c *core.Ctx, tc *tamperCase, cls, what string) bool {
	if cls == "" {
		return true
	}
	c.Case(fmt.Sprintf("tamper/%s/type=%d", tc.Mut.Kind, tc.Target.Type), fmt.Sprintf("%d|%v|%+v|%v", t.p.Seed, tc.Target, tc.Mut, tc.Mut.Src), true)
	if cls == "error" {
		return true
	}
	class := map[string]string{"panic": "tamper-panic", "hang": "tamper-hang",
		"identical-data-nil-error": "tamper-undetected", "wrong-data-nil-error": "tamper-wrong-data"}[cls]
	if tc.Mut.Kind == "transplant" || tc.Mut.Kind == "xfile" {
		class += "-" + tc.Mut.Kind
	}
	if tc.Mut.Kind == "wrong-key" {
		class = "wrong-key-accepted"
	}
	src := ""
	if tc.Mut.Kind == "xfile" {
		src = fmt.Sprintf(" taken from a twin file written with the same keys and the explicit identifier %x (%d bytes; this file: %x, %d bytes)", t.p.twin().fileIdentifier(), len(t.p.twin().fileIdentifier()), t.p.fileIdentifier(), len(t.p.fileIdentifier()))
		if h := t.p.Hist; h != nil {
			j := tc.Mut.From - 1
			if tc.Mut.From == 0 {
				if j = h.Index - 1; j < 0 {
					j = 1
				}
			}
			src = fmt.Sprintf(" taken from file %d and put into file %d of: %s, no FileIdentifier configured", j, h.Index, h.describe())
		}
	}
	if tc.Mut.Kind == "wrong-key" {
		wk := "an independent key of the same length"
		if tc.Mut.KeyByte > 0 {
			wk = fmt.Sprintf("the right %d-byte key with one bit of byte %d inverted", t.p.KeyLen, tc.Mut.KeyByte-1)
		}
		c.Violation(class, fmt.Sprintf("reader whose key for %q is %s (the right key was used before in this process; skip option set %d): the read returned %s (%s) instead of an error; file %s", tc.Mut.Key, wk, tc.Mut.Skip, cls, what, t.p),
			map[string]any{"kind": "tamper", "case": tc})
		return false
	}
	c.Violation(class, fmt.Sprintf("%s of module {%v} (%+v, source {%v}%s): the read returned %s (%s) instead of an error; file %s", tc.Mut.Kind, tc.Target, tc.Mut, tc.Mut.Src, src, cls, what, t.p),
		map[string]any{"kind": "tamper", "case": tc})
	return false
}

// tamperParams: small files whose modules of equal type have equal sizes.
func tamperParams(c *core.Ctx, i int) *fparams {
	p := &fparams{Seed: c.Rng.Int63n(1 << 40), Rows: 12, V: 1 + i%2, Codec: "uncompressed", Dict: i%4 >= 2, RGRows: 6, PageRows: 2,
		Bloom: i%3 == 0, EncFooter: i%2 == 0, ColKeys: (i/2)%2 == 1, KeyLen: []int{16, 32, 24}[i%3], FileID: 1000 + int64(i), Uniform: true}
	if i%5 == 4 {
		p.Prefix = 5
	}
	// where the other file of the cross-file replacements comes from: a twin
	// with another explicit identifier, or (no identifier configured) a second
	// file from the same configuration value: another writer, the writer reset
	switch (i / 2) % 3 {
	case 1:
		p.FileID = 0
		p.Hist = &history{Ops: "nn", Index: 1, Files: []sfile{{0, p.Rows, p.RGRows}, {0, p.Rows, p.RGRows}}}
	case 2:
		p.FileID = 0
		p.Hist = &history{Ops: "nr", Index: 1 - i/6%2, Files: []sfile{{0, p.Rows, p.RGRows}, {0, p.Rows, p.RGRows}}}
	}
	if i >= 6 && i%7 == 0 {
		p.AllKeys = true
	}
	// explicit identifiers of 8 / more / fewer bytes whose twins share a prefix
	if p.FileID != 0 && i%2 == 1 {
		p.FileIDLen = []int{12, 5, 16, 9}[(i/6)%4]
		p.FileIDShare = []int{8, 4, 15, 9}[(i/6)%4]
	}
	// key families: the first 16 bytes (or all but the last byte) in common
	if i%3 != 0 {
		p.KeyShare = []int{16, p.KeyLen - 1}[(i/3)%2]
		p.KeyShare = min(p.KeyShare, p.KeyLen-1)
	}
	return p
}

// shrinkTamper looks for a smaller file on which the same kind of mutation of
// a module of the same type is still accepted.
func shrinkTamper(c *core.Ctx, tc *tamperCase) *tamperCase {
	best := tc
	try := func(mod func(p *fparams)) {
		p := best.Params
		mod(&p)
		var found *tamperCase
		c.Probe(func() {
			var t, other *tfile
			if best.Mut.Kind == "xfile" {
				t, other = buildTamperPair(c, &p, best.Mut.From)
			} else {
				t = buildTamperFile(c, &p)
			}
			if t == nil {
				return
			}
			for _, cand := range enumerate(c, t, other, best.Mut.Kind, best.Target.Type, 1, true) {
				cand := cand
				cand.Mut.From = best.Mut.From
				if c.Probe(func() { t.runCase(c, &cand, other) }) {
					found = &cand
					return
				}
			}
		})
		if found != nil {
			best = found
		}
	}
	try(func(p *fparams) { p.Bloom = false })
	try(func(p *fparams) { p.KeyShare = 0 })
	try(func(p *fparams) { p.ColKeys = false; p.AllKeys = false })
	try(func(p *fparams) { p.AllKeys = false })
	try(func(p *fparams) { p.Prefix = 0 })
	try(func(p *fparams) { p.Dict = false })
	try(func(p *fparams) { p.setGeometry(6, 0) })
	try(func(p *fparams) { p.setGeometry(4, 0) })
	return best
}

// enumerate lists the tamper cases of one kind (all kinds when kind == "").
func enumerate(c *core.Ctx, t *tfile, other *tfile, kind string, onlyType int, stride int, all bool) []tamperCase {
	var out []tamperCase
	want := func(k string) bool { return kind == "" || kind == k }
	mods := t.w.Mods
	for mi, m := range mods {
		if onlyType >= 0 && m.Type != onlyType {
			continue
		}
		if want("flip") {
			// every byte of the module (one bit each, the bit varies with the
			// position); quick: every stride-th byte plus the first and last 32
			for b := 0; b < m.Len; b++ {
				if !all && stride > 1 && b%stride != (mi%stride) && b >= 20 && b < m.Len-20 {
					continue
				}
				bit := (b*5 + mi) % 8
				if !m.Sig && b == 2 {
					bit %= 4 // length field: the reader allocates what it announces (at most +512 KiB here)
				}
				if !m.Sig && b == 3 {
					bit = 0 // +16 MiB
					if mi%8 != 0 && mi != len(mods)-1 {
						continue
					}
					if mi == len(mods)-1 {
						bit = 7 // one 2 GiB announcement per file: no panic, no hang
					}
				}
				out = append(out, tamperCase{*t.p, m, mutation{Kind: "flip", Byte: b, Bit: bit}})
			}
		}
		if want("length") && !m.Sig {
			ml := uint32(m.Len - 4)
			for _, v := range []uint32{0, 27, 28, ml - 1, ml + 1, ml / 2, ml + 4096} {
				if v != ml {
					out = append(out, tamperCase{*t.p, m, mutation{Kind: "length", Val: v}})
				}
			}
		}
		if want("truncate-file") && m.Type >= 2 {
			for _, b := range []int{0, 4, 16, m.Len - 16, m.Len - 1} {
				if b >= 0 && b < m.Len {
					out = append(out, tamperCase{*t.p, m, mutation{Kind: "truncate-file", Byte: b}})
				}
			}
		}
		if want("transplant") {
			for si := range mods {
				s := mods[si]
				if si != mi && s.Type == m.Type && s.Len == m.Len && !m.Sig {
					out = append(out, tamperCase{*t.p, m, mutation{Kind: "transplant", Src: &s}})
				}
			}
		}
		if want("xfile") && other != nil {
			for si := range other.w.Mods {
				s := other.w.Mods[si]
				if s.Type == m.Type && s.RG == m.RG && s.Col == m.Col && s.Page == m.Page && s.Len == m.Len {
					out = append(out, tamperCase{*t.p, m, mutation{Kind: "xfile", Src: &s}})
				}
			}
		}
	}
	if want("wrong-key") && onlyType < 0 {
		names := []string{"footer"}
		for _, l := range t.p.leaves() {
			if t.p.ownKey(l) {
				names = append(names, l)
			}
		}
		// every key of the configuration x (an independent key; the right key
		// with one bit inverted in byte 0, 1, ... KeyLen-1) x what OpenFile loads
		for _, k := range names {
			for at := 0; at <= t.p.KeyLen; at++ {
				for skip := 0; skip < 3; skip++ {
					if k == "footer" && skip > 0 && at%8 != 1 {
						continue // the footer is opened first whatever is skipped
					}
					if skip != at%3 && at%4 != 1 && at != 0 {
						continue // one option set per position, all three for every fourth
					}
					out = append(out, tamperCase{*t.p, module{Type: -1, Key: k}, mutation{Kind: "wrong-key", Key: k, KeyByte: at, Skip: skip}})
				}
			}
		}
	}
	return out
}

func tamperEnumeration(c *core.Ctx) {
	nFiles := c.N(6, 16)
	stride := c.N(7, 1)
	pairs := 0
	for i := 0; i < nFiles; i++ {
		p := tamperParams(c, i)
		t, other := buildTamperPair(c, p, 0)
		if t == nil {
			continue
		}
		cases := enumerate(c, t, other, "", -1, stride, false)
		// quick: a sample of the transplants (all pairs in thorough)
		if c.Quick() {
			var kept []tamperCase
			tr := 0
			for _, tc := range cases {
				if tc.Mut.Kind == "transplant" {
					tr++
					if tr%7 != i%7 {
						continue
					}
				}
				kept = append(kept, tc)
			}
			cases = kept
		}
		reported := map[string]bool{}
		for k := range cases {
			tc := &cases[k]
			if tc.Mut.Kind == "transplant" || tc.Mut.Kind == "xfile" {
				pairs++
			}
			if reported[tc.Mut.Kind] {
				continue
			}
			cls, what := t.eval(tc, other)
			if cls == "" || cls == "error" {
				t.report(c, tc, cls, what)
				continue
			}
			// not rejected: look for a smaller file showing the same, report that one
			reported[tc.Mut.Kind] = true
			min := shrinkTamper(c, tc)
			if min != tc {
				if mt, mo := buildTamperPair(c, &min.Params, min.Mut.From); mt != nil {
					if !mt.runCase(c, min, mo) {
						continue
					}
				}
			}
			t.report(c, tc, cls, what)
		}
		if i == 0 {
			c.Sample(map[string]any{"tamper_file": p, "modules": len(t.w.Mods), "cases": len(cases)})
		}
	}
	c.Note("tamper enumeration: %d files, %d module replacements by a module of equal type and size (same file; a twin file with another explicit identifier; another file written from the same configuration value without identifier by a second writer / by the same writer after Reset)", nFiles, pairs)
	if pairs == 0 {
		c.Violation("harness-vacuous", "no pair of modules of equal type and size was found: the transplant enumeration is empty", nil)
	}
}

// ---------------------------------------------------------------------------
// fixed scenarios

// BeginRowGroup on an encrypting writer must not put plaintext into the file.
func scenarioBeginRowGroup(c *core.Ctx) {
	for _, ef := range []bool{true, false} {
		p := &fparams{Seed: 77, KeyLen: 16, EncFooter: ef}
		o := guard(20*time.Second, func(o *outcome) {
			var buf bytes.Buffer
			w := parquet.NewGenericWriter[rowP](&buf, parquet.WithEncryption(p.encryption()))
			rg := w.BeginRowGroup()
			var rows []parquet.Row
			for i := 0; i < 10; i++ {
				rows = append(rows, w.Schema().Deconstruct(nil, rowP{ID: int64(i), Name: fmt.Sprintf("SECRETMARKER%04d", i), Val: 7}))
			}
			_, werr := rg.WriteRows(rows)
			_, cerr := rg.Commit()
			clerr := w.Close()
			leaked := bytes.Contains(buf.Bytes(), []byte("SECRETMARKER0003"))
			if leaked {
				o.Err = fmt.Errorf("WriteRows=%v Commit=%v Close=%v and the file holds the values of the row group in clear", werr, cerr, clerr)
			} else if werr == nil && cerr == nil {
				// accepted: then it must read back
				f, err := parquet.OpenFile(bytes.NewReader(buf.Bytes()), int64(buf.Len()), parquet.WithDecryption(&keyset{p: p}))
				if err != nil {
					o.Err = fmt.Errorf("Commit returned nil but the file does not open: %w", err)
					return
				}
				got, err := readRowsT[rowP](f, 0)
				if err != nil || len(got) != 10 {
					o.Err = fmt.Errorf("Commit returned nil but the rows do not read back: %d rows, %v", len(got), err)
				}
			}
		})
		c.Case("scenario/begin-row-group", fmt.Sprint(ef), true)
		if o.failed() {
			c.Violation("begin-row-group-plaintext", fmt.Sprintf("BeginRowGroup on an encrypting writer (encrypted footer: %v): err=%v panic=%q", ef, o.Err, o.Panic),
				map[string]any{"kind": "begin-row-group", "enc_footer": ef})
		}
	}
}

// Page ordinals: the writer's decision to accept a chunk of n pages is the
// model's; an accepted file reads back; pages 65536 apart cannot be exchanged.
func scenarioPageOrdinals(c *core.Ctx) {
	type row struct {
		V int64 `parquet:"v"`
	}
	writeN := func(n int, bloom bool) ([]byte, error) {
		var buf bytes.Buffer
		p := &fparams{Seed: 78, KeyLen: 16, EncFooter: true}
		opts := []parquet.WriterOption{parquet.WithEncryption(p.encryption()), parquet.PageBufferSize(1), parquet.DataPageStatistics(false)}
		if bloom {
			opts = append(opts, parquet.BloomFilters(parquet.SplitBlockFilter(10, "v")))
		}
		w := parquet.NewGenericWriter[row](&buf, opts...)
		for i := 0; i < n; i++ {
			if _, err := w.Write([]row{{V: int64(i) * 1000003}}); err != nil {
				return nil, err
			}
		}
		if err := w.Close(); err != nil {
			return nil, err
		}
		return buf.Bytes(), nil
	}
	p := &fparams{Seed: 78, KeyLen: 16, EncFooter: true}
	sizes := []int{32768, 32769, 65537}
	for _, n := range sizes {
		var data []byte
		var err error
		tn := time.Now()
		defer func(n int) { c.Note("page ordinals: %d pages: %.1fs", n, time.Since(tn).Seconds()) }(n)
		o := guard(120*time.Second, func(o *outcome) { data, err = writeN(n, n == 32768) })
		if o.failed() {
			c.Violation("page-ordinal-wrap", fmt.Sprintf("writing %d pages: panic=%q hung=%v", n, o.Panic, o.Hung), map[string]any{"kind": "page-ordinals", "pages": n})
			continue
		}
		c.Case("scenario/page-ordinals", fmt.Sprint(n), true)
		accepted := err == nil
		if c.HasOracle() {
			want := c.Ask(fmt.Sprintf("c18.accepts 0.%x.0", n))
			if want != b01(accepted) {
				c.Mismatch("corr:C18.accepts", fmt.Sprintf("chunk of %d data pages", n), fmt.Sprintf("accepted=%v (%v)", accepted, err), want, n)
			}
		}
		if !accepted {
			continue
		}
		f, err := parquet.OpenFile(bytes.NewReader(data), int64(len(data)), parquet.WithDecryption(&keyset{p: p}))
		if err != nil {
			c.Violation("roundtrip", fmt.Sprintf("file with %d pages in a chunk does not open: %v", n, err), map[string]any{"kind": "page-ordinals", "pages": n})
			continue
		}
		got, err := readRowsT[row](f, 0)
		bad := err != nil || len(got) != n
		for i := 0; !bad && i < n; i++ {
			bad = got[i].V != int64(i)*1000003
		}
		if bad {
			c.Violation("roundtrip", fmt.Sprintf("file with %d pages in a chunk does not read back: %d rows, %v", n, len(got), err), map[string]any{"kind": "page-ordinals", "pages": n})
			continue
		}
		cc := f.RowGroups()[0].ColumnChunks()[0]
		if bf := cc.BloomFilter(); bf != nil {
			for i := 0; i < n; i += 997 {
				if ok, err := bf.Check(parquet.Int64Value(int64(i) * 1000003)); err != nil || !ok {
					c.Violation("page-ordinal-wrap", fmt.Sprintf("bloom filter of an encrypted chunk of %d pages answers %v (%v) for a written value", n, ok, err), map[string]any{"kind": "page-ordinals", "pages": n})
					break
				}
			}
		}
		oi, err := cc.OffsetIndex()
		if err != nil || oi.NumPages() != n {
			continue
		}
		// pages whose ordinals differ only above the low byte(s) cannot be exchanged
		for _, d := range []int{256, 512, 4096, 16384} {
			a, b := 3, 3+d
			if b >= n {
				continue
			}
			oa, sa, ob, sb := oi.Offset(a), oi.CompressedPageSize(a), oi.Offset(b), oi.CompressedPageSize(b)
			if sa != sb {
				continue
			}
			mod := append([]byte{}, data...)
			copy(mod[oa:oa+sa], data[ob:ob+sb])
			copy(mod[ob:ob+sb], data[oa:oa+sa])
			c.Res.Evaluations++
			if f2, err := parquet.OpenFile(bytes.NewReader(mod), int64(len(mod)), parquet.WithDecryption(&keyset{p: p})); err == nil {
				if got, err := readRowsT[row](f2, 0); err == nil {
					c.Violation("page-ordinal-wrap", fmt.Sprintf("chunk of %d pages: pages %d and %d exchanged: %d rows read with a nil error, row %d = %d", n, a, b, len(got), a, got[a].V),
						map[string]any{"kind": "page-ordinals", "pages": n, "exchanged": []int{a, b}})
				}
			}
		}
		if n > 65536 {
			o0, s0, o1, s1 := oi.Offset(0), oi.CompressedPageSize(0), oi.Offset(65536), oi.CompressedPageSize(65536)
			if s0 == s1 {
				mod := append([]byte{}, data...)
				copy(mod[o0:o0+s0], data[o1:o1+s1])
				copy(mod[o1:o1+s1], data[o0:o0+s0])
				f2, err := parquet.OpenFile(bytes.NewReader(mod), int64(len(mod)), parquet.WithDecryption(&keyset{p: p}))
				if err == nil {
					got, err := readRowsT[row](f2, 0)
					if err == nil {
						c.Violation("page-ordinal-wrap", fmt.Sprintf("chunk of %d pages accepted; pages 0 and 65536 exchanged: %d rows read with a nil error, row 0 = %d (written: 0)", n, len(got), got[0].V),
							map[string]any{"kind": "page-ordinals", "pages": n})
					}
				}
			}
		}
	}
}

// Row group ordinals above 255: the only page of row group 2 and of row group
// 2+256 cannot be exchanged (both footer modes).
func scenarioRowGroupOrdinals(c *core.Ctx) {
	type row struct {
		V int64 `parquet:"v"`
	}
	for _, ef := range []bool{true, false} {
		p := &fparams{Seed: 80, KeyLen: 16, EncFooter: ef}
		var buf bytes.Buffer
		w := parquet.NewGenericWriter[row](&buf, parquet.WithEncryption(p.encryption()), parquet.DataPageStatistics(false))
		n := 300
		var err error
		for i := 0; i < n && err == nil; i++ {
			if _, err = w.Write([]row{{V: int64(i) * 1000003}}); err == nil {
				err = w.Flush()
			}
		}
		if err == nil {
			err = w.Close()
		}
		if err != nil {
			c.Violation("roundtrip", fmt.Sprintf("writing %d encrypted row groups: %v", n, err), map[string]any{"kind": "row-group-ordinals", "enc_footer": ef})
			continue
		}
		data := buf.Bytes()
		f, err := parquet.OpenFile(bytes.NewReader(data), int64(len(data)), parquet.WithDecryption(&keyset{p: p}))
		if err != nil || len(f.RowGroups()) != n {
			c.Violation("roundtrip", fmt.Sprintf("file with %d encrypted row groups does not open: %v", n, err), map[string]any{"kind": "row-group-ordinals", "enc_footer": ef})
			continue
		}
		loc := func(g int) (int64, int64, bool) {
			oi, err := f.RowGroups()[g].ColumnChunks()[0].OffsetIndex()
			if err != nil || oi == nil || oi.NumPages() != 1 {
				return 0, 0, false
			}
			return oi.Offset(0), oi.CompressedPageSize(0), true
		}
		a, b := 2, 2+256
		oa, sa, ok1 := loc(a)
		ob, sb, ok2 := loc(b)
		c.Case("scenario/row-group-ordinals", fmt.Sprint(ef), true)
		if !ok1 || !ok2 || sa != sb {
			c.Note("row group ordinals: page sizes differ (%d, %d), exchange skipped", sa, sb)
			continue
		}
		mod := append([]byte{}, data...)
		copy(mod[oa:oa+sa], data[ob:ob+sb])
		copy(mod[ob:ob+sb], data[oa:oa+sa])
		c.Res.Evaluations++
		if f2, err := parquet.OpenFile(bytes.NewReader(mod), int64(len(mod)), parquet.WithDecryption(&keyset{p: p})); err == nil {
			if got, err := readRowsT[row](f2, 0); err == nil {
				c.Violation("module-exchange-accepted", fmt.Sprintf("%d row groups (encrypted footer %v): the pages of row groups %d and %d exchanged: %d rows read with a nil error, row %d = %d", n, ef, a, b, len(got), a, got[a].V),
					map[string]any{"kind": "row-group-ordinals", "enc_footer": ef})
			}
		}
	}
}

// A plaintext footer whose signature was cut off must not be accepted.
func scenarioStrippedSignature(c *core.Ctx) {
	p := &fparams{Seed: 79, Rows: 10, V: 2, Codec: "uncompressed", PageRows: 5, KeyLen: 16, EncFooter: false}
	rows := p.rows()
	data, err := p.write(rows, true)
	if err != nil {
		c.Violation("write-error", err.Error(), nil)
		return
	}
	n := len(data)
	flen := binary.LittleEndian.Uint32(data[n-8:])
	mod := append([]byte{}, data[:n-8-28]...)
	mod = binary.LittleEndian.AppendUint32(mod, flen-28)
	mod = append(mod, "PAR1"...)
	for _, skip := range []bool{false, true} {
		var opts []parquet.FileOption
		if skip {
			opts = append(opts, parquet.SkipPageIndex(true), parquet.SkipBloomFilters(true))
		}
		// the footer is authenticated by its signature alone: the read affected
		// by its removal is OpenFile, whatever is read afterwards
		o := guard(20*time.Second, func(o *outcome) {
			all := append([]parquet.FileOption{parquet.WithDecryption(&keyset{p: p})}, opts...)
			f, err := parquet.OpenFile(bytes.NewReader(mod), int64(len(mod)), all...)
			if err != nil {
				o.Err = err
				return
			}
			o.Blooms = int(f.NumRows())
		})
		c.Case("scenario/stripped-signature", fmt.Sprint(skip), true)
		if o.Panic != "" || o.Hung || o.Err == nil {
			c.Violation("plaintext-footer-signature-stripped", fmt.Sprintf("plaintext footer with its 28-byte signature removed (skip page index: %v): OpenFile with the keys returns err=%v panic=%q and a file of %d rows: the unauthenticated footer is accepted", skip, o.Err, o.Panic, o.Blooms),
				map[string]any{"kind": "stripped-signature", "skip_index": skip})
		}
	}
}

// scenarioIdentifierPairs: pairs of small files written with the same keys,
// schema and rows and two explicit identifiers: of every length 1..20 sharing
// their first 0..length-1 bytes, or one a proper prefix of the other.  The
// identifiers differ, so a module of one file put at the same position of the
// other must be refused (and each file carries the identifier it was given:
// walk).
func scenarioIdentifierPairs(c *core.Ctx) {
	pairs, moved := 0, 0
	k := 0
	for n := 1; n <= 20; n++ {
		for share := 0; share <= n; share++ {
			k++
			if c.Quick() && n > 2 && share != 0 && share != n && share != 8 && share != n-1 && (k+int(c.Rng.Int63n(3)))%3 != 0 {
				continue // quick: no sharing, all but one byte, 8 bytes, proper prefix; a third of the others
			}
			p := &fparams{Seed: c.Rng.Int63n(1 << 40), Rows: 4, V: 1 + k%2, Codec: "uncompressed", PageRows: 4, Dict: k%5 == 0,
				EncFooter: k%2 == 0, ColKeys: k%3 == 0, KeyLen: []int{16, 24, 32}[k%3], Uniform: true,
				FileID: 1 + c.Rng.Int63n(1<<40), FileIDLen: n, FileIDShare: share}
			if k%4 == 0 {
				p.Prefix = 1 + k%7
			}
			t, other := buildTamperPair(c, p, 0)
			if t == nil || other == nil {
				continue
			}
			pairs++
			c.Case(fmt.Sprintf("identifier-pair/len=%d/%s", n, map[bool]string{true: "proper-prefix", false: "shared-bytes"}[share == n]), fmt.Sprintf("%d/%d/%x/%x", n, share, t.w.FU, other.w.FU), true)
			if bytes.Equal(t.w.FU, other.w.FU) {
				c.Violation("file-identifier-collapsed", fmt.Sprintf("two files written with the distinct explicit identifiers %x and %x carry the same aad_file_unique %x; file %s", p.fileIdentifier(), p.twin().fileIdentifier(), t.w.FU, p),
					map[string]any{"kind": "file", "params": p})
				return
			}
			cands := enumerate(c, t, other, "xfile", -1, 1, true)
			c.Rng.Shuffle(len(cands), func(a, b int) { cands[a], cands[b] = cands[b], cands[a] })
			seen := map[int]bool{}
			for ci := range cands {
				tc := &cands[ci]
				if c.Quick() && (seen[tc.Target.Type] || len(seen) >= 3) {
					continue
				}
				seen[tc.Target.Type] = true
				moved++
				cls, what := t.eval(tc, other)
				if cls == "" || cls == "error" {
					t.report(c, tc, cls, what)
					continue
				}
				min := shrinkTamper(c, tc)
				if min != tc {
					if mt, mo := buildTamperPair(c, &min.Params, min.Mut.From); mt != nil && !mt.runCase(c, min, mo) {
						return
					}
				}
				t.report(c, tc, cls, what)
				return
			}
		}
	}
	c.Note("identifier pairs: %d pairs of files with explicit identifiers of 1..20 bytes sharing a prefix, %d modules moved to the same position of the other file", pairs, moved)
	if moved == 0 {
		c.Violation("harness-vacuous", "no module was moved between two files with explicit identifiers", nil)
	}
}

// ---------------------------------------------------------------------------

func run(c *core.Ctx) {
	c.Res.Rule = "files: rows of 5 columns (int64, string, optional string, list of strings, int64; every value a 60-bit random marker) written with random options " +
		"(page version, codec, dictionary, row groups, rows per page, bloom filters, key length 16/24/32 with independent keys or a family of keys sharing their first 1..len-1 bytes (often 16), AAD prefix, random file identifier or an explicit one of 8 or 1..24 bytes, which the file must carry as given) x {encrypted, signed plaintext footer} x {footer key only, own keys for two columns, own keys for all columns}; " +
		"each file is parsed independently (own AES-GCM, AADs from the model; crypto_metadata of every column chunk = the variant and path the key assignment requires) module by module, read back (all rows, after SeekToRow with and without page index, page cursors with random histories, reader lacking a column key, reader holding the footer key only, reader whose footer key or one column key is the right key with one bit inverted at a position drawn from the whole key) and scanned for markers; a module that opens under another key of the configuration than the one assigned to its column is a violation; " +
		"the options reach the writer directly (NewGenericWriter, one file of three) or by a random route: constructor NewGenericWriter / NewWriter (rows one by one) / NewSortingWriter (rows handed over in another order, file ordered by id) / the function Write, and a random tree over {other options, WithEncryption(the configuration), 0-2 WithEncryption(decoy configuration)} with runs of options wrapped in NewWriterConfig(...) or in a WriterConfig value used as an option, kept when the model (effective_encryption) says the configuration of the file is the one used; every such file is checked like a directly configured one, plus a reader WITHOUT keys (rows, first page of every chunk) that must obtain no written value; " +
		"sized modules: files of (int64, byte array) rows where one module -- a data page holding one long value (and the header carrying its statistics), a data page of many values under a large PageBufferSize, a dictionary page, a bloom filter bitset -- has a length field at 2^16, 2^20, 2^20+28 (each -1/0/+1, reached exactly by measuring a first file), random up to 3 MiB, and 2^24, x footer mode x page version x codec x key assignment: independent parse, length fields against the model (len_field, stream_accepts), round trip (all rows, without page index, after SeekToRow, bloom filters, ReadDictionary), scan for pieces of the values, reader without keys; " +
		"histories: 2-3 files written from ONE EncryptionConfig value (new writers constructed from it one after another or all up front, writers reused through Reset: nr nn nrr nrn nnr nnn) x footer mode x key assignment, every file checked like a fresh file, " +
		"and, when no identifier is configured, pairwise distinct aad_file_unique and rejection of modules of one file put at the same ordinals of another; " +
		"identifier pairs: pairs of small files with the same keys and rows and two explicit identifiers of 1..20 bytes sharing their first 0..all-but-one bytes, or one a proper prefix of the other: modules moved to the same position of the other file must be refused; " +
		"nested schemas: files of rows with groups, lists and maps whose leaves repeat names (home.zip work.zip zip, home.city work.city, two list elements, two map keys and values), keys assigned per column PATH (one key value per leaf name / one per path / random, some paths under the footer key; the model's writer_key against crypto_metadata), independent parse, round trip, readers whose retriever grants a subset of the paths (every subset up to 3 paths, else none / each single path / all but one / random): granted columns read back exactly, refused ones fail, OpenFile does not; a wrong key for one path; " +
		"tamper enumeration on small files with equal-sized modules (key families sharing 16 or all but one byte, explicit identifiers of 5..16 bytes sharing 4..15 bytes with the twin's): one bit of every byte (quick: every 9th byte and the 20 first/last) of every module, length field values, file truncation inside a module, " +
		"every replacement of a module by another of the same type and size (same file; twin file with the same keys and another explicit identifier; second file from the same configuration value without identifier, by another writer or by the same writer after Reset), wrong keys: for the footer key and every column key, an independent key and the right key with one bit inverted in EACH of its bytes, x what OpenFile loads eagerly (everything / no page index / neither index nor bloom filters). A case = one file check or one tampered read; non-trivial = the file has more than 8 modules / any tampered read."
	if c.HasOracle() {
		lim := c.Ask("c18.limits")
		want := fmt.Sprintf("%x %x %x", 32767, parquet.MaxRowGroups, parquet.MaxColumnIndex)
		if lim != want {
			c.Mismatch("corr:C18.limits", "max int16 / MaxRowGroups / MaxColumnIndex", want, lim, nil)
		}
	}
	// (a)(b)(c)
	t0 := time.Now()
	nFiles := c.N(170, 800)
	var vm []string
	for i := 0; i < nFiles; i++ {
		p := genParams(c, i)
		if c.Probe(func() { checkFile(c, p, false) }) {
			checkFile(c, shrinkFile(c, p), true)
		} else {
			checkFile(c, p, true)
		}
		if i < 12 {
			vm = append(vm, vmCases(c, p)...)
		}
	}
	c.Note("plaintext scan witness: in %d unencrypted twin files the scan finds a marker of column id/name/opt/tags/val in %d/%d/%d/%d/%d files",
		scanWitnessFiles, scanWitness["id"], scanWitness["name"], scanWitness["opt"], scanWitness["tags"], scanWitness["val"])
	if scanWitnessFiles > 0 && (scanWitness["id"] == 0 || scanWitness["name"] == 0 || scanWitness["val"] == 0 || scanWitness["tags"] == 0) {
		c.Violation("harness-vacuous", "the plaintext scan does not find the markers in unencrypted files either", nil)
	}
	// histories of files from one configuration value
	th := time.Now()
	nHist := c.N(36, 144)
	for i := 0; i < nHist; i++ {
		p := genHistory(c, i)
		if c.Probe(func() { checkHistory(c, p, false) }) {
			checkHistory(c, shrinkHistory(c, p), true)
		} else {
			checkHistory(c, p, true)
		}
		if i < 3 {
			c.Sample(map[string]any{"history": p.Hist.describe(), "params": p})
		}
	}
	c.Note("histories: %d (%d files) in %.1fs", nHist, histFiles(nHist), time.Since(th).Seconds())
	sizedModules(c)
	t1 := time.Now()
	scenarioBeginRowGroup(c)
	scenarioStrippedSignature(c)
	scenarioPageOrdinals(c)
	scenarioRowGroupOrdinals(c)
	scenarioIdentifierPairs(c)
	nestedFiles(c)
	t2 := time.Now()
	// (d)
	tamperEnumeration(c)
	c.Note("wall: files %.1fs, scenarios %.1fs, tamper %.1fs", t1.Sub(t0).Seconds(), t2.Sub(t1).Seconds(), time.Since(t2).Seconds())

	c.Vm("From Coq Require Import List ZArith NArith.\nFrom PQ Require Import Base.Bytes Aad.Model.\nImport ListNotations.\nOpen Scope N_scope.")
	c.Vm("Definition cases : list (bytes * bytes * Z * Z * Z * Z * bytes) := [\n  " + strings.Join(vm, ";\n  ") + "].")
	c.Vm("Definition beq (a b : bytes) : bool := bytes_eqb a b.")
	c.Vm("Definition mismatches := filter (fun '(pfx, fu, code, rg, col, pg, want) => match oracle_aad pfx fu code rg col pg with Some a => negb (beq a want) | None => true end) cases.")
	c.Vm("Definition M := Eval vm_compute in (length cases, mismatches).\nPrint M.")
	c.Res.VmCases = len(vm)
}

func histFiles(n int) int {
	k := 0
	for i := 0; i < n; i++ {
		k += len(historyOps[(i/6)%len(historyOps)])
	}
	return k
}

// vmCases: AADs under which modules of a real file opened with AES-GCM.
func vmCases(c *core.Ctx, p *fparams) []string {
	rows := p.rows()
	data, err := p.write(rows, true)
	if err != nil {
		return nil
	}
	var out []string
	silent := func() *walked {
		var w *walked
		c.Probe(func() { w, _ = walk(c, p, data) })
		return w
	}
	w := silent()
	if w == nil {
		return nil
	}
	idx := make([]int, len(w.Mods))
	for i := range idx {
		idx[i] = i
	}
	sort.Slice(idx, func(a, b int) bool { return (idx[a]*7919)%len(idx) < (idx[b]*7919)%len(idx) })
	for _, i := range idx[:min(3, len(idx))] {
		m := w.Mods[i]
		// the AAD that authenticated the real module
		aad := localAAD(w.Pfx, w.FU, m.Type, []int{m.RG, m.Col, m.Page}[:arity(m.Type)]...)
		out = append(out, fmt.Sprintf("(%s, %s, %s, %s, %s, %s, %s)", core.CoqBytes(w.Pfx), core.CoqBytes(w.FU), core.CoqZ(int64(m.Type)),
			core.CoqZ(int64(m.RG)), core.CoqZ(int64(m.Col)), core.CoqZ(int64(m.Page)), core.CoqBytes(aad)))
	}
	return out
}

// shrinkFile simplifies the parameters of a failing file check.
func shrinkFile(c *core.Ctx, p *fparams) *fparams {
	cur := *p
	fails := func(q *fparams) bool { return c.Probe(func() { checkFile(c, q, false) }) }
	for changed := true; changed; {
		changed = false
		for _, mod := range []func(q *fparams) bool{
			func(q *fparams) bool { ok := q.Rows > 1; q.Rows /= 2; if q.Rows < 1 { q.Rows = 1 }; if q.RGRows > q.Rows { q.RGRows = q.Rows }; return ok },
			func(q *fparams) bool { ok := q.RGRows != 0; q.RGRows = 0; return ok },
			func(q *fparams) bool { ok := q.Bloom; q.Bloom = false; return ok },
			func(q *fparams) bool { ok := q.Codec != "uncompressed"; q.Codec = "uncompressed"; return ok },
			func(q *fparams) bool { ok := q.Dict; q.Dict = false; return ok },
			func(q *fparams) bool { ok := q.Prefix != 0; q.Prefix = 0; return ok },
			func(q *fparams) bool { ok := q.AllKeys; q.AllKeys = false; q.ColKeys = true; return ok },
			func(q *fparams) bool { ok := q.ColKeys || q.AllKeys; q.ColKeys, q.AllKeys = false, false; return ok },
			func(q *fparams) bool { ok := q.Hist != nil; q.Hist = nil; return ok },
			func(q *fparams) bool { ok := q.KeyShare != 0; q.KeyShare = 0; return ok },
			func(q *fparams) bool { ok := q.FileIDLen != 0; q.FileIDLen = 0; return ok },
			func(q *fparams) bool { ok := q.KeyLen != 16; q.KeyLen = 16; q.KeyShare = min(q.KeyShare, 15); return ok },
			func(q *fparams) bool { ok := q.PageRows < 64; q.PageRows = 64; return ok },
			func(q *fparams) bool { ok := q.Route != ""; q.Route = ""; return ok },
			func(q *fparams) bool { return simplerRoute(q, "G:C(O,E)") },
			func(q *fparams) bool { return simplerRoute(q, "G:O,C(E)") },
			func(q *fparams) bool { return simplerRoute(q, "G:O,L(E)") },
			func(q *fparams) bool { return simplerRoute(q, "F:O,E") },
			func(q *fparams) bool { return simplerRoute(q, "S:O,E") },
			func(q *fparams) bool { return simplerRoute(q, "W:O,E") },
			func(q *fparams) bool { return simplerRoute(q, string(q.ctor())+":O,E") },
		} {
			q := cur
			if mod(&q) && fails(&q) {
				cur, changed = q, true
			}
		}
	}
	return &cur
}

func replay(c *core.Ctx, raw json.RawMessage) {
	var r struct {
		Kind   string      `json:"kind"`
		Params *fparams    `json:"params"`
		Case   *tamperCase `json:"case"`
	}
	if err := json.Unmarshal(raw, &r); err != nil {
		c.Note("unreadable replay: %v", err)
		return
	}
	switch r.Kind {
	case "tamper":
		t, other := buildTamperPair(c, &r.Case.Params, r.Case.Mut.From)
		if t == nil {
			return
		}
		// offsets of the replay are those of the file written now: nonces are
		// random but sizes are a function of the parameters
		t.runCase(c, r.Case, other)
	case "begin-row-group":
		scenarioBeginRowGroup(c)
	case "page-ordinals":
		scenarioPageOrdinals(c)
	case "stripped-signature":
		scenarioStrippedSignature(c)
	case "sized":
		if r.Params != nil && r.Params.Sized != nil {
			checkSized(c, r.Params, nil)
		}
	case "nested":
		if r.Params != nil && r.Params.Nested != nil {
			checkNested(c, r.Params, true)
		}
	case "history":
		if r.Params != nil && r.Params.Hist != nil {
			checkHistory(c, r.Params, true)
		}
	default:
		if r.Params != nil {
			checkFile(c, r.Params, true)
		}
	}
}
