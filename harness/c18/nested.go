// C18 -- nested schemas with repeated leaf names, keys assigned per column PATH.
//
// The rows of main.go have five leaf columns with five different leaf names.
// Here the schema has groups, lists and maps whose leaves share names
// (home.zip / work.zip / zip, home.city / work.city, two list `element`s, two
// map `key`s and `value`s).  The key of a column is assigned by its path: a
// class number per leaf (0: the footer key; equal numbers: the same key VALUE
// configured for different paths; different numbers: different keys).  Every
// file is parsed independently (walk: the module of a column opens under the
// key configured for ITS path), read back with all keys, and read by readers
// whose retriever grants only a subset of the paths: the granted columns (and
// those under the footer key) must read back exactly, every refused column
// must fail with an error; a wrong key for one path makes that column fail.
package main

import (
	"bytes"
	"encoding/binary"
	"errors"
	"fmt"
	"io"
	"reflect"
	"strings"
	"time"

	"github.com/parquet-go/parquet-go"

	"verif/harness/core"
)

type addrN struct {
	Zip  string `parquet:"zip"`
	City string `parquet:"city"`
}

type rowN struct {
	ID    int64             `parquet:"id"`
	Home  addrN             `parquet:"home"`
	Work  addrN             `parquet:"work"`
	Zips  []string          `parquet:"zips,list"`
	Codes []string          `parquet:"codes,list"`
	Attr  map[string]string `parquet:"attr"`
	Extra map[string]string `parquet:"extra"`
	Zip   string            `parquet:"zip"`
}

// nestedLeaves: the leaf columns of rowN in schema order (taken from the schema itself).
var nestedLeaves = func() []string {
	var out []string
	for _, path := range parquet.SchemaOf(rowN{}).Columns() {
		out = append(out, strings.Join(path, "."))
	}
	return out
}()

func leafName(path string) string { return path[strings.LastIndexByte(path, '.')+1:] }

type nparams struct {
	// Classes: per leaf of nestedLeaves, 0 = the footer key, k > 0 = key number k
	Classes []int `json:"classes"`
}

func (p *fparams) nrows() []rowN {
	r := &smix{uint64(p.Seed)*7919 + 41}
	out := make([]rowN, p.Rows)
	for i := range out {
		o := &out[i]
		o.ID = markerInt(r)
		o.Home = addrN{marker(r, 'H'), marker(r, 'I')}
		o.Work = addrN{marker(r, 'W'), marker(r, 'X')}
		o.Zip = marker(r, 'Z')
		for k := int(r.next() % 3); k > 0; k-- {
			o.Zips = append(o.Zips, marker(r, 'L'))
		}
		for k := int(r.next() % 3); k > 0; k-- {
			o.Codes = append(o.Codes, marker(r, 'C'))
		}
		// at most one entry: the order of the values of a column is then a function of the rows
		if r.next()%3 != 0 {
			o.Attr = map[string]string{marker(r, 'K'): marker(r, 'V')}
		}
		if r.next()%3 != 0 {
			o.Extra = map[string]string{marker(r, 'E'): marker(r, 'F')}
		}
	}
	return out
}

func (p *fparams) nestedOptions() []parquet.WriterOption {
	opts := []parquet.WriterOption{
		parquet.DataPageVersion(p.V), parquet.Compression(codecOf(p.Codec)),
		parquet.PageBufferSize(1), parquet.DataPageStatistics(true),
	}
	if p.Bloom {
		opts = append(opts, parquet.BloomFilters(parquet.SplitBlockFilter(10, "home", "zip"), parquet.SplitBlockFilter(10, "work", "zip"),
			parquet.SplitBlockFilter(10, "zip")))
	}
	return opts
}

func (p *fparams) writeNested(rows []rowN) (data []byte, err error) {
	defer func() {
		if r := recover(); r != nil {
			err = fmt.Errorf("PANIC: %v", r)
		}
	}()
	var buf bytes.Buffer
	w, err := newWriterT[rowN](p, &buf, p.encryption())
	if err != nil {
		return nil, err
	}
	if err := feedT(w, p, rows); err != nil {
		return nil, err
	}
	return buf.Bytes(), nil
}

func canonN(rows []rowN) []rowN {
	for i := range rows {
		if len(rows[i].Zips) == 0 {
			rows[i].Zips = nil
		}
		if len(rows[i].Codes) == 0 {
			rows[i].Codes = nil
		}
		if len(rows[i].Attr) == 0 {
			rows[i].Attr = nil
		}
		if len(rows[i].Extra) == 0 {
			rows[i].Extra = nil
		}
	}
	return rows
}

// readColumn: every value of the chunk (with its levels), page by page.
func readColumn(cc parquet.ColumnChunk) (out []string, err error) {
	pages := cc.Pages()
	defer pages.Close()
	for {
		pg, err := pages.ReadPage()
		if errors.Is(err, io.EOF) {
			return out, nil
		}
		if err != nil {
			return out, err
		}
		vals := make([]parquet.Value, pg.NumValues())
		n, rerr := pg.Values().ReadValues(vals)
		for _, v := range vals[:n] {
			out = append(out, fmt.Sprintf("%+v", v))
		}
		parquet.Release(pg)
		if rerr != nil && !errors.Is(rerr, io.EOF) {
			return out, rerr
		}
		if n == 0 && pg.NumValues() > 0 {
			return out, fmt.Errorf("page of %d values returned none", pg.NumValues())
		}
	}
}

// columnsOf: the values of every column chunk, [row group][leaf]; errs holds
// the error of the chunks that could not be read.
func columnsOf(f *parquet.File) (vals [][][]string, errs [][]error) {
	for _, rg := range f.RowGroups() {
		var v [][]string
		var e []error
		for _, cc := range rg.ColumnChunks() {
			cv, err := readColumn(cc)
			v, e = append(v, cv), append(e, err)
		}
		vals, errs = append(vals, v), append(errs, e)
	}
	return
}

func (p *fparams) ownKeyLeaves() []string {
	var out []string
	for _, l := range p.leaves() {
		if p.ownKey(l) {
			out = append(out, l)
		}
	}
	return out
}

// grantSubsets: which sets of own-key paths the readers hold: all of them when
// there are at most 3 such paths; else none, every single path, everything but
// a single path (quick: a third of those), and two random sets.
func grantSubsets(h *smix, own []string, thorough bool) [][]bool {
	m := len(own)
	var out [][]bool
	if m <= 3 {
		for s := 0; s < 1<<m-1; s++ { // the full set is the round trip
			g := make([]bool, m)
			for i := range g {
				g[i] = s>>i&1 == 1
			}
			out = append(out, g)
		}
		return out
	}
	out = append(out, make([]bool, m))
	for i := 0; i < m; i++ {
		one, allBut := make([]bool, m), make([]bool, m)
		for k := range allBut {
			allBut[k] = true
		}
		one[i], allBut[i] = true, false
		out = append(out, one)
		if thorough || h.next()%3 == 0 {
			out = append(out, allBut)
		}
	}
	for t := 0; t < 2; t++ {
		g := make([]bool, m)
		for i := range g {
			g[i] = h.next()%2 == 0
		}
		out = append(out, g)
	}
	return out
}

func (p *fparams) describeKeys() string {
	var parts []string
	for i, l := range p.leaves() {
		if k := p.Nested.Classes[i]; k > 0 {
			parts = append(parts, fmt.Sprintf("%s: key %d", l, k))
		}
	}
	if len(parts) == 0 {
		return "footer key for every column"
	}
	return "column keys by path {" + strings.Join(parts, ", ") + "}, footer key for the other columns"
}

// checkNested: the checks of checkData on a file of rowN rows.
func checkNested(c *core.Ctx, p *fparams, record bool) bool {
	rows := p.nrows()
	replay := map[string]any{"kind": "nested", "params": p}
	what := "nested schema (" + p.describeKeys() + ")"
	data, err := p.writeNested(rows)
	if err != nil {
		c.Violation("write-error", fmt.Sprintf("%s: writing the encrypted file failed: %v; file %s", what, err, p), replay)
		return false
	}
	open := func(ks parquet.KeyRetriever, opts ...parquet.FileOption) (*parquet.File, error) {
		return parquet.OpenFile(bytes.NewReader(data), int64(len(data)), append(opts, parquet.WithDecryption(ks))...)
	}
	// round trip with all the keys: rows, and the values column by column (the
	// reference for the readers holding fewer keys)
	var ref [][][]string
	o := guard(20*time.Second, func(o *outcome) {
		f, err := open(&keyset{p: p})
		if err != nil {
			o.Err = fmt.Errorf("open: %w", err)
			return
		}
		got, err := readRowsT[rowN](f, 0)
		if err != nil {
			o.Err = fmt.Errorf("read after %d of %d rows: %w", len(got), len(rows), err)
			return
		}
		if !reflect.DeepEqual(canonN(got), canonN(append([]rowN{}, rows...))) {
			o.Err = fmt.Errorf("the %d rows read differ from the %d rows written", len(got), len(rows))
			return
		}
		var errs [][]error
		ref, errs = columnsOf(f)
		for gi := range errs {
			for ci, e := range errs[gi] {
				if e != nil {
					o.Err = fmt.Errorf("reading the pages of row group %d column %s: %w", gi, p.leaves()[ci], e)
					return
				}
			}
		}
	})
	c.Res.Evaluations++
	w, werr := walk(c, p, data)
	var ke *keyError
	var cme *cryptoMDError
	switch {
	case errors.As(werr, &ke):
		c.Violation("sealed-with-another-key", fmt.Sprintf("%s: independent AES-GCM on the bytes of the written file: %v: the file is not encrypted under the key assignment of its configuration; file %s", what, ke, p), replay)
		return false
	case errors.As(werr, &cme):
		c.Violation("crypto-metadata", fmt.Sprintf("%s: the column chunk metadata of the written footer does not state the key of the column: %s; file %s", what, cme.what, p), replay)
		return false
	}
	if o.failed() {
		c.Violation("roundtrip", fmt.Sprintf("%s: reading the untampered file with the right keys (the retriever answers the key configured for the path it is asked for): err=%v panic=%q hung=%v; independent parse: %v; file %s", what, o.Err, o.Panic, o.Hung, werr, p), replay)
		return false
	}
	if werr != nil {
		c.Mismatch("corr:C18.aad", p.String(), "the file reads back but AES-GCM with the model's AADs fails: "+werr.Error(), "every module opens under make_aad", p)
		return false
	}
	ok := checkWriterModel(c, p, w)
	if !checkKeyModel(c, p, w) {
		ok = false
	}
	if !clearMetadataCheck(c, p, w) {
		ok = false
	}
	// nothing in clear
	leak := func(b []byte, col string) bool {
		if k := bytes.Index(data, b); k >= 0 {
			c.Violation("plaintext-leak", fmt.Sprintf("%s: a value of column %s occurs in clear at file offset %d (%s); file %s", what, col, k, region(w, data, k), p), replay)
			return true
		}
		return false
	}
	for _, r := range rows {
		vals := []string{r.Home.Zip, r.Home.City, r.Work.Zip, r.Work.City, r.Zip}
		vals = append(append(vals, r.Zips...), r.Codes...)
		for k, v := range r.Attr {
			vals = append(vals, k, v)
		}
		for k, v := range r.Extra {
			vals = append(vals, k, v)
		}
		for _, v := range vals {
			if leak([]byte(v), "of a string") {
				return false
			}
		}
		if leak(binary.LittleEndian.AppendUint64(nil, uint64(r.ID)), "id") {
			return false
		}
	}
	// readers holding the keys of some paths only
	own := p.ownKeyLeaves()
	subsets := grantSubsets(&smix{uint64(p.Seed)*131 + 7}, own, !c.Quick())
	if len(own) == 0 {
		subsets = nil
	}
	for _, g := range subsets {
		missing := map[string]bool{}
		var granted, refused []string
		for i, l := range own {
			if g[i] {
				granted = append(granted, l)
			} else {
				missing[l] = true
				refused = append(refused, l)
			}
		}
		who := fmt.Sprintf("reader whose key retriever answers ErrKeyNotFound for the paths %v and the configured key for the paths %v", refused, granted)
		so := guard(20*time.Second, func(o *outcome) {
			f, err := open(&keyset{p: p, missing: missing})
			if err != nil {
				o.Err = fmt.Errorf("OpenFile fails (%w) although the contract of ErrKeyNotFound is to leave only those columns inaccessible", err)
				return
			}
			vals, errs := columnsOf(f)
			for gi := range vals {
				for ci, l := range p.leaves() {
					switch {
					case missing[l] && errs[gi][ci] == nil:
						o.Err = fmt.Errorf("row group %d: the pages of column %s were read without its key: %d values, first ones %v", gi, l, len(vals[gi][ci]), vals[gi][ci][:min(2, len(vals[gi][ci]))])
					case missing[l]:
					case errs[gi][ci] != nil:
						o.Err = fmt.Errorf("row group %d: column %s, whose key the reader holds, cannot be read: %w", gi, l, errs[gi][ci])
					case !reflect.DeepEqual(vals[gi][ci], ref[gi][ci]):
						o.Err = fmt.Errorf("row group %d: column %s reads back %d values differing from the %d written", gi, l, len(vals[gi][ci]), len(ref[gi][ci]))
					}
					if o.Err != nil {
						return
					}
				}
			}
			// whole rows need the refused columns
			if got, err := readRowsT[rowN](f, 0); err == nil && len(refused) > 0 {
				o.Err = fmt.Errorf("reading whole rows returned %d rows and a nil error", len(got))
			}
		})
		c.Res.Evaluations++
		c.Case(fmt.Sprintf("nested/granted=%d-of-%d/footer=%v", len(granted), len(own), p.EncFooter), fmt.Sprintf("%s|%v", p, g), true)
		if so.failed() {
			c.Violation("column-key-subset", fmt.Sprintf("%s, %s: err=%v panic=%q hung=%v; file %s", what, who, so.Err, so.Panic, so.Hung, p), replay)
			return false
		}
	}
	// a wrong key for ONE path (the right key of that path with one bit inverted)
	if len(own) > 0 {
		h := &smix{uint64(p.Seed)*31 + uint64(p.KeyLen)*977}
		l := own[h.next()%uint64(len(own))]
		at := 1 + int(h.next()%uint64(p.KeyLen))
		skip := int(h.next() % 3)
		ci := 0
		for k, n := range p.leaves() {
			if n == l {
				ci = k
			}
		}
		wo := guard(20*time.Second, func(o *outcome) {
			f, err := open(&keyset{p: p, wrong: map[string][]byte{l: p.wrongKey(l, at)}}, skipOptions(skip)...)
			if err != nil {
				return // refused
			}
			for gi, rg := range f.RowGroups() {
				if vals, err := readColumn(rg.ColumnChunks()[ci]); err == nil && len(ref[gi][ci]) > 0 {
					o.Err = fmt.Errorf("row group %d: %d values of the column were read with a nil error", gi, len(vals))
					return
				}
			}
		})
		c.Res.Evaluations++
		c.Case(fmt.Sprintf("nested/wrong-key/len=%d/byte>=16:%v", p.KeyLen, at > 16), fmt.Sprintf("%s|%s|%d", p, l, at), true)
		if wo.failed() {
			c.Violation("wrong-key-accepted", fmt.Sprintf("%s, reader whose key for the path %s is the right %d-byte key with one bit of byte %d inverted (skip option set %d): err=%v panic=%q hung=%v; file %s", what, l, p.KeyLen, at-1, skip, wo.Err, wo.Panic, wo.Hung, p), replay)
			return false
		}
	}
	if record {
		distinct := map[int]bool{}
		sameName := false
		byName := map[string]int{}
		for i, l := range p.leaves() {
			k := p.Nested.Classes[i]
			if k == 0 {
				continue
			}
			distinct[k] = true
			if prev, seen := byName[leafName(l)]; seen && prev == k {
				sameName = true
			}
			byName[leafName(l)] = k
		}
		c.Case(fmt.Sprintf("nested/roundtrip/footer=%v/own-key-paths=%d/keys=%d/same-leaf-name-same-key=%v", p.EncFooter, len(own), len(distinct), sameName), p.String(), len(w.Mods) > 8)
		c.Res.Evaluations += len(w.Mods)
	}
	return ok
}

func genNested(c *core.Ctx, i int) *fparams {
	r := c.Rng
	p := &fparams{Seed: r.Int63n(1 << 40), V: 1 + r.Intn(2), Bloom: r.Intn(3) == 0, EncFooter: i%2 == 0,
		KeyLen: []int{16, 24, 32}[r.Intn(3)], Codec: []string{"uncompressed", "snappy", "zstd"}[r.Intn(3)],
		Leaves: nestedLeaves, Nested: &nparams{Classes: make([]int, len(nestedLeaves))}}
	p.Rows = 1 + r.Intn(c.N(24, 120))
	p.PageRows = 1 + r.Intn(20)
	if r.Intn(2) == 0 {
		p.RGRows = 1 + r.Intn(p.Rows)
	}
	if r.Intn(3) == 0 {
		p.Prefix = 1 + r.Intn(12)
	}
	if r.Intn(3) == 0 {
		p.FileID = 1 + r.Int63n(1<<40)
		p.FileIDLen = 1 + r.Intn(24)
	}
	switch r.Intn(4) {
	case 0:
		p.KeyShare = 1 + r.Intn(p.KeyLen-1)
	case 1:
		p.KeyShare = min(16, p.KeyLen-1)
	}
	cl := p.Nested.Classes
	switch (i / 2) % 3 {
	case 0:
		// one key VALUE per leaf name (zip, city, element, key, value), assigned path by path; id under the footer key
		names := map[string]int{}
		for k, l := range nestedLeaves {
			if l == "id" {
				continue
			}
			n := leafName(l)
			if names[n] == 0 {
				names[n] = 1 + len(names)
			}
			cl[k] = names[n]
			if r.Intn(6) == 0 {
				cl[k] = 0
			}
		}
	case 1:
		// every path its own key, some paths under the footer key
		for k := range cl {
			if r.Intn(3) != 0 {
				cl[k] = k + 1
			}
		}
	default:
		for k := range cl {
			cl[k] = r.Intn(4)
		}
	}
	return p
}

func shrinkNested(c *core.Ctx, p *fparams) *fparams {
	cur := *p
	fails := func(q *fparams) bool { return c.Probe(func() { checkNested(c, q, false) }) }
	withClasses := func(q *fparams, f func(cl []int) bool) bool {
		cl := append([]int{}, q.Nested.Classes...)
		ok := f(cl)
		q.Nested = &nparams{Classes: cl}
		return ok
	}
	mods := []func(q *fparams) bool{
		func(q *fparams) bool { ok := q.Rows > 2; q.Rows = 2; q.RGRows = 0; return ok },
		func(q *fparams) bool { ok := q.RGRows != 0; q.RGRows = 0; return ok },
		func(q *fparams) bool { ok := q.Bloom; q.Bloom = false; return ok },
		func(q *fparams) bool { ok := q.Codec != "uncompressed"; q.Codec = "uncompressed"; return ok },
		func(q *fparams) bool { ok := q.Prefix != 0; q.Prefix = 0; return ok },
		func(q *fparams) bool { ok := q.FileID != 0; q.FileID, q.FileIDLen = 0, 0; return ok },
		func(q *fparams) bool { ok := q.KeyShare != 0; q.KeyShare = 0; return ok },
		func(q *fparams) bool { ok := q.KeyLen != 16; q.KeyLen = 16; q.KeyShare = min(q.KeyShare, 15); return ok },
		func(q *fparams) bool { ok := q.PageRows < 64; q.PageRows = 64; return ok },
	}
	for k := range nestedLeaves {
		k := k
		mods = append(mods, func(q *fparams) bool {
			return withClasses(q, func(cl []int) bool { ok := cl[k] != 0; cl[k] = 0; return ok })
		})
	}
	for changed := true; changed; {
		changed = false
		for _, mod := range mods {
			q := cur
			if mod(&q) && fails(&q) {
				cur, changed = q, true
			}
		}
	}
	return &cur
}

func nestedFiles(c *core.Ctx) {
	t0 := time.Now()
	n := c.N(30, 180)
	for i := 0; i < n; i++ {
		p := genNested(c, i)
		if c.Probe(func() { checkNested(c, p, false) }) {
			checkNested(c, shrinkNested(c, p), true)
		} else {
			checkNested(c, p, true)
		}
		if i < 2 {
			c.Sample(map[string]any{"nested": p.describeKeys(), "params": p})
		}
	}
	c.Note("nested schemas: %d files of leaves %v in %.1fs", n, nestedLeaves, time.Since(t0).Seconds())
}
