// C18 -- module SIZES.  The files of main.go hold 16-byte values: every module
// is a few hundred bytes long.  Here the module of interest -- a data page
// body (one long value; many values under a large PageBufferSize), the header
// of that page (its statistics), a dictionary page, a bloom filter bitset --
// is given a chosen length around the places where the 4-byte length field of
// the envelope carries into its next byte (2^16, 2^20, 2^24) and above the
// round numbers an implementation might take for "large" (1 MiB plus the 28
// bytes of nonce and tag).  The lengths actually reached are MEASURED on the
// file by the independent parse (which opens every module with its own
// AES-GCM under the model's AADs) and compared with the model's length field
// (Aad/Model.v len_field, stream_accepts: the streamed reader accepts every
// length the writer writes); the file must read back.
package main

import (
	"bytes"
	"encoding/binary"
	"fmt"
	"strings"
	"time"

	"github.com/parquet-go/parquet-go"

	"verif/harness/core"
)

type rowZ struct {
	ID   int64  `parquet:"id"`
	Blob []byte `parquet:"blob"`
}

type rowZD struct {
	ID   int64  `parquet:"id"`
	Blob []byte `parquet:"blob,dict"`
}

var sizedLeaves = []string{"id", "blob"}

type zparams struct {
	Kind      string `json:"kind"`   // value dict bloom page
	Target    int    `json:"target"` // wanted value of the length field of the module of interest
	Unit      int    `json:"unit"`   // dict, page: length of the ordinary values
	Stats     bool   `json:"stats"`  // page statistics (min/max of a long value make a long page header)
	BlobBloom bool   `json:"blob_bloom,omitempty"` // bloom filter on the blob column (the writer reads its encrypted pages back)
	// Adjust: correction of the length of the last value, found by measuring a
	// first file, so that the module has the wanted length whatever the
	// encoding of the page adds to the values
	Adjust int `json:"adjust,omitempty"`
}

func fill(r *smix, n int) []byte {
	b := make([]byte, n+8)
	for i := 0; i < n; i += 8 {
		binary.LittleEndian.PutUint64(b[i:], r.next())
	}
	return b[:n]
}

// zrows: the rows of a sized file, a pure function of the parameters.
func (p *fparams) zrows() []rowZ {
	z := p.Sized
	r := &smix{uint64(p.Seed)*7919 + 29}
	plain := z.Target - 28 // plaintext bytes wanted in the module of interest
	var out []rowZ
	add := func(b []byte) { out = append(out, rowZ{ID: markerInt(r), Blob: b}) }
	switch z.Kind {
	case "value":
		// PLAIN body of a page holding one value: 4-byte length + the value
		add(fill(r, 16))
		add(fill(r, max(plain-4+z.Adjust, 1)))
		add(fill(r, 16))
	case "bloom":
		for i := 0; i < 64; i++ {
			add(fill(r, 16))
		}
	default:
		// dict: the dictionary page holds every distinct value once (4-byte
		// length + value); page: one data page holds every row
		unit := max(z.Unit, 16)
		n := max(plain/(4+unit), 2)
		for i := 0; i < n-1; i++ {
			add(fill(r, unit))
		}
		add(fill(r, max(plain-(n-1)*(4+unit)-4+z.Adjust, 0)))
		if z.Kind == "dict" {
			for i := 0; i < n; i += 3 {
				out = append(out, rowZ{ID: markerInt(r), Blob: out[i].Blob})
			}
		}
	}
	return out
}

func (p *fparams) sizedOptions() []parquet.WriterOption {
	z := p.Sized
	opts := []parquet.WriterOption{parquet.DataPageVersion(p.V), parquet.Compression(codecOf(p.Codec)), parquet.DataPageStatistics(z.Stats)}
	var filters []parquet.BloomFilterColumn
	switch z.Kind {
	case "value":
		opts = append(opts, parquet.PageBufferSize(1))
	case "page":
		opts = append(opts, parquet.PageBufferSize(2*z.Target+1024))
	case "bloom":
		// bitset of 32-byte blocks: ceil(64 values * bits / 8 / 32) blocks
		filters = append(filters, parquet.SplitBlockFilter(uint((z.Target-28+7)/8), "id"))
	}
	if z.BlobBloom {
		filters = append(filters, parquet.SplitBlockFilter(10, "blob"))
	}
	if len(filters) > 0 {
		opts = append(opts, parquet.BloomFilters(filters...))
	}
	return opts
}

func writeSizedT[T any](p *fparams, rows []T) (data []byte, err error) {
	defer func() {
		if r := recover(); r != nil {
			err = fmt.Errorf("PANIC: %v", r)
		}
	}()
	var buf bytes.Buffer
	w, err := newWriterT[T](p, &buf, p.encryption())
	if err != nil {
		return nil, err
	}
	if p.Sized.Kind == "value" {
		for i := range rows {
			if _, err := w.Write(rows[i : i+1]); err != nil {
				return nil, err
			}
		}
	} else if _, err := w.Write(rows); err != nil {
		return nil, err
	}
	if err := w.Close(); err != nil {
		return nil, err
	}
	return buf.Bytes(), nil
}

func toZD(rows []rowZ) []rowZD {
	out := make([]rowZD, len(rows))
	for i, r := range rows {
		out[i] = rowZD(r)
	}
	return out
}

func (p *fparams) writeSized(rows []rowZ) ([]byte, error) {
	if p.Sized.Kind == "dict" {
		return writeSizedT(p, toZD(rows))
	}
	return writeSizedT(p, rows)
}

func (p *fparams) readSized(f *parquet.File, from int64) ([]rowZ, error) {
	if p.Sized.Kind == "dict" {
		r, err := readRowsT[rowZD](f, from)
		out := make([]rowZ, len(r))
		for i := range r {
			out[i] = rowZ(r[i])
		}
		return out, err
	}
	return readRowsT[rowZ](f, from)
}

func sameZ(a, b []rowZ) bool {
	if len(a) != len(b) {
		return false
	}
	for i := range a {
		if a[i].ID != b[i].ID || !bytes.Equal(a[i].Blob, b[i].Blob) {
			return false
		}
	}
	return true
}

// touchSized: everything a reader with the keys can read.
func (p *fparams) touchSized(data []byte, rows []rowZ, from int64, opts ...parquet.FileOption) *outcome {
	return guard(60*time.Second, func(o *outcome) {
		all := append([]parquet.FileOption{parquet.WithDecryption(&keyset{p: p})}, opts...)
		f, err := parquet.OpenFile(bytes.NewReader(data), int64(len(data)), all...)
		if err != nil {
			o.Err = fmt.Errorf("open: %w", err)
			return
		}
		got, err := p.readSized(f, from)
		if err != nil {
			o.Err = fmt.Errorf("read after %d of %d rows: %w", len(got), len(rows)-int(from), err)
			return
		}
		if !sameZ(got, rows[from:]) {
			o.Err = fmt.Errorf("the %d rows read differ from the %d rows written", len(got), len(rows)-int(from))
			return
		}
		if from != 0 {
			return
		}
		for gi, rg := range f.RowGroups() {
			for ci, cc := range rg.ColumnChunks() {
				if bf := cc.BloomFilter(); bf != nil {
					v := parquet.Int64Value(rows[0].ID)
					if ci == 1 {
						v = parquet.ByteArrayValue(rows[0].Blob)
					}
					if ok, err := bf.Check(v); err != nil || !ok {
						o.Err = fmt.Errorf("bloom filter of row group %d column %d answers %v for a written value: %v", gi, ci, ok, err)
						return
					}
					o.Blooms++
				}
				pages := cc.Pages()
				if fp, isFP := pages.(*parquet.FilePages); isFP && p.Sized.Kind == "dict" && ci == 1 {
					if _, err := fp.ReadDictionary(); err != nil {
						o.Err = fmt.Errorf("ReadDictionary of row group %d column %d: %w", gi, ci, err)
					}
				}
				pages.Close()
				if o.Err != nil {
					return
				}
			}
		}
	})
}

func sizeClass(ml int) string {
	switch {
	case ml < 1<<16:
		return "below-2^16"
	case ml < 1<<20:
		return "2^16..2^20"
	case ml <= 1<<20+28:
		return "2^20..2^20+28"
	case ml < 1<<24:
		return "2^20+28..2^24"
	}
	return "2^24-and-above"
}

// windows: short pieces of the values, to be looked for in the file bytes.
func windows(rows []rowZ) [][]byte {
	var out [][]byte
	for i, r := range rows {
		if i > 40 && i < len(rows)-2 {
			continue
		}
		out = append(out, binary.LittleEndian.AppendUint64(nil, uint64(r.ID)))
		b := r.Blob
		if len(b) < 12 {
			continue
		}
		k := min(24, len(b))
		out = append(out, b[:k], b[len(b)/2-k/2:len(b)/2-k/2+k], b[len(b)-k:])
	}
	return out
}

// checkSized: the checks of checkData on a file with a long module.
// (record: coverage is appended there, to be recorded by the caller once the
// file is known to pass)
func checkSized(c *core.Ctx, p *fparams, record *[]func()) bool {
	z := p.Sized
	rows := p.zrows()
	replay := map[string]any{"kind": "sized", "params": p}
	what := fmt.Sprintf("%s module of about %d bytes", map[string]string{"value": "data page holding one long value:", "dict": "dictionary page:", "bloom": "bloom filter bitset:", "page": "data page of many values under a large PageBufferSize:"}[z.Kind], z.Target)
	data, err := p.writeSized(rows)
	if err != nil {
		c.Violation("write-error", fmt.Sprintf("%s: writing the encrypted file failed: %v; file %s", what, err, p), replay)
		return false
	}
	ok := true
	w, werr := walk(c, p, data)
	// round trip by the implementation: sequentially, without the page index,
	// after a seek
	for vi, opts := range [][]parquet.FileOption{nil, {parquet.SkipPageIndex(true), parquet.SkipBloomFilters(true)}, nil} {
		from := int64(0)
		if vi == 2 {
			from = int64(len(rows) / 2)
		}
		o := p.touchSized(data, rows, from, opts...)
		if o.failed() {
			biggest := ""
			if w != nil {
				mx := 0
				for i := range w.Mods {
					if w.Mods[i].Len > w.Mods[mx].Len {
						mx = i
					}
				}
				biggest = fmt.Sprintf("; longest module {%v}", w.Mods[mx])
			}
			c.Violation("roundtrip", fmt.Sprintf("%s: reading the untampered file with the right keys (variant %d: 0 all rows, 1 no page index, 2 after SeekToRow(%d)): err=%v panic=%q hung=%v%s; file %s", what, vi, from, o.Err, o.Panic, o.Hung, biggest, p), replay)
			return false
		}
	}
	if werr != nil {
		c.Mismatch("corr:C18.aad", p.String(), "the file reads back but AES-GCM with the model's AADs fails: "+werr.Error(), "every module opens under make_aad", p)
		return false
	}
	if !checkWriterModel(c, p, w) || !checkModelHistories(c, p, w, data, 3) {
		ok = false
	}
	// the length fields of the long modules against the model
	longest := map[int]int{}
	for _, m := range w.Mods {
		if m.Sig {
			continue
		}
		ml := m.Len - 4
		if ml > longest[m.Type] {
			longest[m.Type] = ml
		}
		if ml < 1<<15 {
			continue
		}
		c.Res.Evaluations++
		if c.HasOracle() {
			req := fmt.Sprintf("c18.envelope %x %x", ml-28, len(data)-m.Off-4)
			got := core.Hexs(data[m.Off:m.Off+4]) + " 1"
			if ans := c.Ask(req); ans != got {
				c.Mismatch("corr:C18.envelope", req+" {"+m.String()+"}", got, ans, p)
				ok = false
			}
		}
	}
	// nothing in clear
	for _, win := range windows(rows) {
		if k := bytes.Index(data, win); k >= 0 {
			c.Violation("plaintext-leak", fmt.Sprintf("%s: %d bytes of a value of an encrypted column occur in clear at file offset %d (%s); file %s", what, len(win), k, region(w, data, k), p), replay)
			ok = false
			break
		}
	}
	if !clearMetadataCheck(c, p, w) {
		ok = false
	}
	// nothing for a reader without keys
	ko := guard(60*time.Second, func(o *outcome) {
		f, err := parquet.OpenFile(bytes.NewReader(data), int64(len(data)))
		if err != nil {
			return
		}
		got, _ := p.readSized(f, 0)
		for i, r := range got {
			if i < len(rows) && (r.ID == rows[i].ID || len(r.Blob) > 0 && bytes.Equal(r.Blob, rows[i].Blob)) {
				o.Err = fmt.Errorf("row %d read without any key holds a written value", i)
				return
			}
		}
	})
	if ko.failed() {
		c.Violation("readable-without-keys", fmt.Sprintf("%s: reading without keys: err=%v panic=%q hung=%v; file %s", what, ko.Err, ko.Panic, ko.Hung, p), replay)
		ok = false
	}
	if record != nil {
		*record = append(*record, func() {
			sizedReached = append(sizedReached, fmt.Sprintf("%s %d->%d", z.Kind, z.Target, longest[moduleOfInterest[z.Kind]]))
			footer := map[bool]string{true: "encrypted", false: "plaintext"}[p.EncFooter]
			for _, t := range map[string][]int{"value": {2, 3}, "page": {2, 3}, "dict": {4}, "bloom": {7}}[z.Kind] {
				if t == 3 && !z.Stats {
					continue
				}
				c.Case(fmt.Sprintf("sized/%s/module-type=%d/length=%s/footer=%s", z.Kind, t, sizeClass(longest[t]), footer), p.String(), longest[t] >= 1<<16)
			}
		})
	}
	return ok
}

var moduleOfInterest = map[string]int{"value": 2, "page": 2, "dict": 4, "bloom": 7}

// calibrate writes the file once and corrects the length of the last value by
// the difference between the wanted and the measured length of the module
// (the encodings add a few bytes per page or take the length prefixes out of
// it; compressed pages differ by what the codec adds).
func calibrate(p *fparams) {
	z := p.Sized
	if z.Kind == "bloom" {
		return // bitsets are made of 32-byte blocks
	}
	for iter := 0; iter < 2; iter++ {
		data, err := p.writeSized(p.zrows())
		if err != nil {
			return
		}
		w, err := walkStructural(p, data)
		if err != nil {
			return
		}
		longest := 0
		for _, m := range w.Mods {
			if m.Type == moduleOfInterest[z.Kind] && m.Len-4 > longest {
				longest = m.Len - 4
			}
		}
		if longest == z.Target {
			return
		}
		z.Adjust += z.Target - longest
	}
}

// wanted length field -> longest module of every type, as measured
var sizedReached []string

func pick(c *core.Ctx, b int) int { return b + c.Rng.Intn(3) - 1 }

// genSized: kind x footer mode x target lengths.  Quick: for every pair one
// length at each of 2^16, 2^20, 2^20+28 (a random one of -1, 0, +1 off) and a
// random one up to 3 MiB, and one file at 2^24 for two of the kinds; thorough: all three
// offsets, more random lengths, 2^24 in both footer modes.
func genSized(c *core.Ctx) []*fparams {
	var out []*fparams
	r := c.Rng
	mk := func(kind string, ef bool, target int, exact bool) {
		p := &fparams{Seed: r.Int63n(1 << 40), V: 1 + r.Intn(2), EncFooter: ef, KeyLen: []int{16, 24, 32}[r.Intn(3)], Leaves: sizedLeaves,
			Codec:   []string{"uncompressed", "uncompressed", "uncompressed", "snappy", "zstd"}[r.Intn(5)],
			ColKeys: r.Intn(3) == 0, AllKeys: r.Intn(5) == 0,
			Sized:   &zparams{Kind: kind, Target: target, Unit: []int{40, 1000, 60000}[r.Intn(3)], Stats: r.Intn(3) != 0, BlobBloom: r.Intn(3) == 0}}
		if r.Intn(4) == 0 {
			p.Prefix = 1 + r.Intn(12)
		}
		if r.Intn(2) == 0 {
			p.FileID = 1 + r.Int63n(1<<40)
		}
		if target >= 1<<23 {
			// 16 MiB modules: keep the rest of the file cheap
			p.Sized.Unit = 60000
			if kind != "bloom" {
				p.Sized.BlobBloom = false
			}
		}
		if exact {
			calibrate(p)
		}
		out = append(out, p)
	}
	for ki, kind := range []string{"value", "dict", "bloom", "page"} {
		for _, ef := range []bool{true, false} {
			for _, b := range []int{1 << 16, 1 << 20, 1<<20 + 28} {
				if c.Quick() {
					mk(kind, ef, pick(c, b), true)
				} else {
					for d := -1; d <= 1; d++ {
						mk(kind, ef, b+d, true)
					}
				}
			}
			for k := 0; k < c.N(1, 4); k++ {
				mk(kind, ef, 1<<20+29+r.Intn(2<<20), false)
			}
			if !c.Quick() {
				mk(kind, ef, pick(c, 1<<24), true)
			}
		}
		if c.Quick() && (ki+int(c.Seed))%2 == 0 {
			// 16 MiB modules: two kinds per run, which ones depends on the seed
			mk(kind, r.Intn(2) == 0, pick(c, 1<<24), true)
		}
	}
	return out
}

// shrinkSized: simpler options, then the smallest target length that still fails.
func shrinkSized(c *core.Ctx, p *fparams) *fparams {
	cur := *p
	z := *p.Sized
	cur.Sized = &z
	fails := func(q *fparams) bool { return c.Probe(func() { checkSized(c, q, nil) }) }
	try := func(mod func(q *fparams) bool) {
		q := cur
		zz := *cur.Sized
		q.Sized = &zz
		if mod(&q) && fails(&q) {
			cur = q
		}
	}
	try(func(q *fparams) bool { ok := q.Sized.BlobBloom; q.Sized.BlobBloom = false; return ok })
	try(func(q *fparams) bool { ok := q.Sized.Stats; q.Sized.Stats = false; return ok })
	try(func(q *fparams) bool { ok := q.Codec != "uncompressed"; q.Codec = "uncompressed"; return ok })
	try(func(q *fparams) bool { ok := q.ColKeys || q.AllKeys; q.ColKeys, q.AllKeys = false, false; return ok })
	try(func(q *fparams) bool { ok := q.Prefix != 0; q.Prefix = 0; return ok })
	try(func(q *fparams) bool { ok := q.KeyLen != 16; q.KeyLen = 16; return ok })
	lo, hi := 64, cur.Sized.Target // lo passes (or is too small to matter), hi fails
	for hi-lo > 1 {
		mid := lo + (hi-lo)/2
		q := cur
		zz := *cur.Sized
		zz.Target = mid
		q.Sized = &zz
		if fails(&q) {
			hi = mid
		} else {
			lo = mid
		}
	}
	cur.Sized.Target = hi
	return &cur
}

func sizedModules(c *core.Ctx) {
	t0 := time.Now()
	ps := genSized(c)
	for _, p := range ps {
		var record []func()
		if c.Probe(func() { checkSized(c, p, &record) }) {
			checkSized(c, shrinkSized(c, p), nil)
			continue
		}
		for _, f := range record {
			f()
		}
	}
	c.Note("sized modules: %d files in %.1fs; kind wanted->longest module length field by module type: %s", len(ps), time.Since(t0).Seconds(), strings.Join(sizedReached, "; "))
}
