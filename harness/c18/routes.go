// C18 -- the ways an EncryptionConfig reaches the writer of a file.
//
// A route is "<constructor>:<options>".  Constructors: G NewGenericWriter,
// W NewWriter (rows written one by one through Write(any)), S NewSortingWriter
// (rows written in another order than the file holds them), F the function
// parquet.Write.  Options: a comma separated list of
//
//	O      every other option of the file (page version, codec, page size, ...)
//	E      WithEncryption(the configuration of the file)
//	X      WithEncryption(a decoy: other keys, the other footer mode)
//	C(..)  NewWriterConfig(options...) used as one option
//	L(..)  a WriterConfig value to which the options were applied (no defaults)
//
// The model (Aad/Model.v, apply_wopt / effective_encryption) says which of the
// configurations named the writer of the file uses; the generator only keeps
// trees for which that is E, and the file must then be what a writer directly
// given WithEncryption(E) produces: parsed with E's keys and AADs, no value in
// clear, unreadable without keys.
package main

import (
	"encoding/binary"
	"fmt"
	"io"
	"math/rand"
	"sort"
	"strings"

	"github.com/parquet-go/parquet-go"
	"github.com/parquet-go/parquet-go/format"

	"verif/harness/core"
)

const defaultRoute = "G:O,E"

type optNode struct {
	kind byte // O E X C L
	kids []optNode
}

func (p *fparams) route() string {
	if p.Route == "" {
		return defaultRoute
	}
	return p.Route
}

func (p *fparams) ctor() byte { return p.route()[0] }

func parseRoute(s string) (byte, []optNode, error) {
	if len(s) < 3 || s[1] != ':' || !strings.ContainsRune("GWSF", rune(s[0])) {
		return 0, nil, fmt.Errorf("route %q", s)
	}
	t := s[2:]
	pos := 0
	var list func() ([]optNode, error)
	list = func() ([]optNode, error) {
		var out []optNode
		for {
			if pos >= len(t) {
				return nil, fmt.Errorf("route %q", s)
			}
			n := optNode{kind: t[pos]}
			pos++
			switch n.kind {
			case 'O', 'E', 'X':
			case 'C', 'L':
				if pos >= len(t) || t[pos] != '(' {
					return nil, fmt.Errorf("route %q", s)
				}
				pos++
				if pos < len(t) && t[pos] == ')' {
					pos++
					break
				}
				kids, err := list()
				if err != nil {
					return nil, err
				}
				if pos >= len(t) || t[pos] != ')' {
					return nil, fmt.Errorf("route %q", s)
				}
				pos++
				n.kids = kids
			default:
				return nil, fmt.Errorf("route %q", s)
			}
			out = append(out, n)
			if pos < len(t) && t[pos] == ',' {
				pos++
				continue
			}
			return out, nil
		}
	}
	nodes, err := list()
	if err == nil && pos != len(t) {
		err = fmt.Errorf("route %q", s)
	}
	return s[0], nodes, err
}

func printNodes(nodes []optNode) string {
	parts := make([]string, len(nodes))
	for i, n := range nodes {
		parts[i] = string(n.kind)
		if n.kind == 'C' || n.kind == 'L' {
			parts[i] += "(" + printNodes(n.kids) + ")"
		}
	}
	return strings.Join(parts, ",")
}

// lastNamed: the specification of the model (C18_options_reach_writer), used
// when the oracle is not available and compared with it otherwise: the
// configuration named last, depth first (0: none).
func lastNamed(nodes []optNode) int {
	last := 0
	for _, n := range nodes {
		switch n.kind {
		case 'E':
			last = 1
		case 'X':
			last = 2
		case 'C', 'L':
			if k := lastNamed(n.kids); k != 0 {
				last = k
			}
		}
	}
	return last
}

// modelEffective asks the model which configuration the writer of the file uses.
func modelEffective(c *core.Ctx, route string) int {
	ctor, nodes, err := parseRoute(route)
	if err != nil {
		return -1
	}
	local := lastNamed(nodes)
	if !c.HasOracle() {
		return local
	}
	via := "d"
	if ctor == 'S' || ctor == 'F' {
		via = "c"
	}
	req := fmt.Sprintf("c18.effective %s %s", via, printNodes(nodes))
	ans := c.Ask(req)
	var k int
	if _, err := fmt.Sscanf(ans, "%x", &k); err != nil || k != local {
		c.Mismatch("corr:C18.options-local", req, fmt.Sprint(local), ans, nil)
		return local
	}
	return k
}

func swapNames(nodes []optNode) {
	for i := range nodes {
		switch nodes[i].kind {
		case 'E':
			nodes[i].kind = 'X'
		case 'X':
			nodes[i].kind = 'E'
		}
		swapNames(nodes[i].kids)
	}
}

// genRoute: a constructor and a random tree over one O, one E and up to two
// decoys, in random order, with up to three runs of neighbours wrapped into
// configurations; the names are exchanged when the model says that the decoy
// is the configuration used.
func genRoute(c *core.Ctx, r *rand.Rand) string {
	ctor := "GGGGGGSSSWWFF"[r.Intn(13)]
	nodes := []optNode{{kind: 'O'}, {kind: 'E'}}
	for k := 0; k < 2; k++ {
		if r.Intn(3) == 0 {
			nodes = append(nodes, optNode{kind: 'X'})
		}
	}
	r.Shuffle(len(nodes), func(a, b int) { nodes[a], nodes[b] = nodes[b], nodes[a] })
	for k := 0; k < 3; k++ {
		if r.Intn(5) < 2 {
			continue
		}
		i := r.Intn(len(nodes))
		j := i + 1 + r.Intn(len(nodes)-i)
		wrapped := optNode{kind: "CCL"[r.Intn(3)], kids: append([]optNode{}, nodes[i:j]...)}
		nodes = append(append(append([]optNode{}, nodes[:i]...), wrapped), nodes[j:]...)
	}
	route := fmt.Sprintf("%c:%s", ctor, printNodes(nodes))
	if modelEffective(c, route) == 2 {
		swapNames(nodes)
		route = fmt.Sprintf("%c:%s", ctor, printNodes(nodes))
	}
	return route
}

// routeShape: a coarse description for the coverage buckets.
func routeShape(route string) string {
	_, nodes, err := parseRoute(route)
	if err != nil {
		return "?"
	}
	var depth func(ns []optNode, d int) int
	depth = func(ns []optNode, d int) int {
		for _, n := range ns {
			if n.kind == 'E' {
				return d
			}
			if k := depth(n.kids, d+1); k >= 0 {
				return k
			}
		}
		return -1
	}
	return fmt.Sprintf("ctor=%c/E-inside-%d-configs/decoy=%v", route[0], depth(nodes, 0), strings.Contains(route, "X"))
}

// decoy: another configuration (other keys, the other footer mode).
func (p *fparams) decoy() *parquet.EncryptionConfig {
	return &parquet.EncryptionConfig{FooterKey: derive(p.Seed, "decoy/footer", p.KeyLen), EncryptedFooter: !p.EncFooter,
		ColumnKeys: map[string][]byte{"id": derive(p.Seed, "decoy/id", p.KeyLen)}}
}

// buildOptions turns the option tree into the options handed to the constructor.
func (p *fparams) buildOptions(nodes []optNode, cfg *parquet.EncryptionConfig, others []parquet.WriterOption) ([]parquet.WriterOption, error) {
	var out []parquet.WriterOption
	for _, n := range nodes {
		switch n.kind {
		case 'O':
			out = append(out, others...)
		case 'E':
			out = append(out, parquet.WithEncryption(cfg))
		case 'X':
			out = append(out, parquet.WithEncryption(p.decoy()))
		case 'C', 'L':
			kids, err := p.buildOptions(n.kids, cfg, others)
			if err != nil {
				return nil, err
			}
			if n.kind == 'C' {
				wc, err := parquet.NewWriterConfig(kids...)
				if err != nil {
					return nil, fmt.Errorf("NewWriterConfig: %w", err)
				}
				out = append(out, wc)
			} else {
				wc := new(parquet.WriterConfig)
				wc.Apply(kids...)
				out = append(out, wc)
			}
		}
	}
	return out, nil
}

// rowWriter: what the constructors have in common.
type rowWriter[T any] interface {
	Write([]T) (int, error)
	Flush() error
	Close() error
	Reset(io.Writer)
}

// anyWriter writes the rows one by one through (*parquet.Writer).Write.
type anyWriter[T any] struct{ w *parquet.Writer }

func (a anyWriter[T]) Write(rows []T) (int, error) {
	for i := range rows {
		if err := a.w.Write(&rows[i]); err != nil {
			return i, err
		}
	}
	return len(rows), nil
}
func (a anyWriter[T]) Flush() error      { return a.w.Flush() }
func (a anyWriter[T]) Close() error      { return a.w.Close() }
func (a anyWriter[T]) Reset(o io.Writer) { a.w.Reset(o) }

// writerOptions: the options of the route (cfg == nil: the unencrypted twin,
// every other option given directly).
func (p *fparams) writerOptions(cfg *parquet.EncryptionConfig) (byte, []parquet.WriterOption, error) {
	if cfg == nil {
		return 'G', p.others(false), nil
	}
	ctor, nodes, err := parseRoute(p.route())
	if err != nil {
		return 0, nil, err
	}
	opts, err := p.buildOptions(nodes, cfg, p.others(ctor == 'S'))
	return ctor, opts, err
}

func newWriterT[T any](p *fparams, out io.Writer, cfg *parquet.EncryptionConfig) (rowWriter[T], error) {
	ctor, opts, err := p.writerOptions(cfg)
	if err != nil {
		return nil, err
	}
	switch ctor {
	case 'G':
		return parquet.NewGenericWriter[T](out, opts...), nil
	case 'W':
		return anyWriter[T]{parquet.NewWriter(out, opts...)}, nil
	case 'S':
		return parquet.NewSortingWriter[T](out, int64(1+p.Rows/3), opts...), nil
	}
	return nil, fmt.Errorf("constructor %c makes no writer that can be fed in steps", ctor)
}

// input: the order in which the rows are handed to the writer.  The sorting
// writer gets them in a pseudo-random order and the file holds them by id.
func inputOrder[T any](p *fparams, rows []T) []T {
	if p.ctor() != 'S' {
		return rows
	}
	in := append([]T{}, rows...)
	r := &smix{uint64(p.Seed)*31 + 5}
	for i := len(in) - 1; i > 0; i-- {
		j := int(r.next() % uint64(i+1))
		in[i], in[j] = in[j], in[i]
	}
	return in
}

func sortByID(rows []rowP) {
	sort.SliceStable(rows, func(a, b int) bool { return rows[a].ID < rows[b].ID })
}

// simplerRoute replaces the route of q by a canonical one when that one is shorter.
func simplerRoute(q *fparams, route string) bool {
	if len(route) >= len(q.route()) || q.Hist != nil && route[0] == 'F' {
		return false
	}
	q.Route = route
	return true
}

// identifyConfig tells from the bytes which configuration the writer used:
// 0 the file carries no encryption algorithm, 1 the configuration of the file
// (its footer key opens the footer module / verifies the footer signature),
// 2 the decoy, -1 neither.
func identifyConfig(p *fparams, data []byte) int {
	n := len(data)
	if n < 12 {
		return -1
	}
	flen := int(binary.LittleEndian.Uint32(data[n-8:]))
	if flen+12 > n {
		return -1
	}
	footer := data[n-8-flen : n-8]
	keys := map[int][]byte{1: p.key("footer"), 2: p.decoy().FooterKey}
	if string(data[n-4:]) == "PARE" {
		var cm format.FileCryptoMetaData
		k, err := decodeThrift(footer, &cm)
		if err != nil {
			return -1
		}
		algo, ok := cm.EncryptionAlgorithm.Value.(*format.AesGcmV1)
		if !ok {
			return -1
		}
		for _, id := range []int{1, 2} {
			if _, _, err := openEnvelope(keys[id], localAAD(algo.AadPrefix, algo.AadFileUnique, 0), footer[k:]); err == nil {
				return id
			}
		}
		return -1
	}
	var md format.FileMetaData
	k, err := decodeThrift(footer, &md)
	if err != nil {
		return -1
	}
	algo, ok := md.EncryptionAlgorithm.Value.(*format.AesGcmV1)
	if !ok {
		return 0
	}
	if flen-k != 28 {
		return -1
	}
	sig := footer[k:]
	for _, id := range []int{1, 2} {
		g, err := gcmOf(keys[id])
		if err != nil {
			continue
		}
		aad := append(localAAD(algo.AadPrefix, algo.AadFileUnique, 0), footer[:k]...)
		if _, err := g.Open(nil, sig[:12], sig[12:], aad); err == nil {
			return id
		}
	}
	return -1
}
