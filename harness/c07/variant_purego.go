//go:build purego

package main

const c07Purego = true
