// C07 — modular encryption as one more writer option of the file cases.
//
// An encrypted file stores the bloom filter header and bitset as AES-GCM
// modules, the pages the writer re-reads at flush to fill a filter of a size
// not known in advance are envelopes too, column chunks are never copied
// verbatim to or from an encrypted file, and in plaintext-footer mode the
// column metadata (with the filter offset) is sealed with the row group. None
// of this changes what the filter must answer: the files are opened with the
// keys and every written value is checked, under every option set.
package main

import (
	"fmt"
	"sort"
	"strings"

	"github.com/parquet-go/parquet-go"

	"verif/harness/core"
)

// c07Enc is the encryption configuration of a file case (nil: no encryption).
type c07Enc struct {
	Footer string `json:"footer"`           // "encrypted" (PARE magic) or "plaintext" (signed PAR1 footer, column metadata sealed per row group)
	Keys   string `json:"keys"`             // "footer": every column under the footer key; "columns": every column has its own key; "mixed": odd columns have their own key
	KeyLen int    `json:"key_len"`          // 16, 24 or 32 bytes
	Prefix bool   `json:"prefix,omitempty"` // an AAD prefix is configured (stored in the file)
	Ident  bool   `json:"ident,omitempty"`  // the 8-byte file identifier is given (otherwise drawn by the writer)
	// Where: "dst" the file under test is encrypted, the files its row groups
	// come from (copy paths, history steps) are not; "both"; "src" only the
	// source files are encrypted (their chunks must be decoded, not spliced).
	Where string `json:"where"`
}

func (e *c07Enc) dst() bool { return e != nil && e.Where != "src" }
func (e *c07Enc) src() bool { return e != nil && e.Where != "dst" }

func (e *c07Enc) class() string {
	if e == nil {
		return "none"
	}
	return e.Footer + "-footer/" + e.Keys + "-keys"
}

func (e *c07Enc) keyLen() int {
	switch e.KeyLen {
	case 24, 32:
		return e.KeyLen
	}
	return 16
}

// c07Key derives the key of a given role (0: footer, 1+i: column i).
func (e *c07Enc) key(role int) []byte {
	k := make([]byte, e.keyLen())
	for i := range k {
		k[i] = byte(0x5A + role*37 + i*11)
	}
	return k
}

func (e *c07Enc) ownKey(ci int) bool {
	switch e.Keys {
	case "columns":
		return true
	case "mixed":
		return ci%2 == 1
	}
	return false
}

func (e *c07Enc) columnKeys(ncols int) map[string][]byte {
	keys := map[string][]byte{}
	for ci := 0; ci < ncols; ci++ {
		if e.ownKey(ci) {
			keys[c07Name(ci)] = e.key(1 + ci)
		}
	}
	return keys
}

// writerOption is the WithEncryption option of the configuration.
func (e *c07Enc) writerOption(ncols int) parquet.WriterOption {
	cfg := &parquet.EncryptionConfig{
		FooterKey:       e.key(0),
		EncryptedFooter: e.Footer != "plaintext",
	}
	if keys := e.columnKeys(ncols); len(keys) > 0 {
		cfg.ColumnKeys = keys
	}
	if e.Prefix {
		cfg.AadPrefix = []byte("c07-aad-prefix/")
	}
	if e.Ident {
		cfg.FileIdentifier = []byte{0xC0, 7, 1, 2, 3, 4, 5, 6}
	}
	return parquet.WithEncryption(cfg)
}

// c07Keys hands out the keys of a configuration by column path.
type c07Keys struct {
	footer  []byte
	columns map[string][]byte
}

func (k c07Keys) FooterKey([]byte) ([]byte, error) { return k.footer, nil }

func (k c07Keys) ColumnKey(path []string, _ []byte) ([]byte, error) {
	if key, ok := k.columns[strings.Join(path, ".")]; ok {
		return key, nil
	}
	return nil, fmt.Errorf("no key for column %v: %w", path, parquet.ErrKeyNotFound)
}

// fileOptions are the options a reader of the file needs (none for a plaintext file).
func (e *c07Enc) fileOptions(ncols int) []parquet.FileOption {
	if e == nil {
		return nil
	}
	return []parquet.FileOption{parquet.WithDecryption(c07Keys{footer: e.key(0), columns: e.columnKeys(ncols)})}
}

// c07GenEnc draws an encryption configuration.
func c07GenEnc(c *core.Ctx) *c07Enc {
	r := c.Rng
	return &c07Enc{
		Footer: []string{"encrypted", "plaintext"}[r.Intn(2)],
		Keys:   []string{"footer", "columns", "mixed"}[r.Intn(3)],
		KeyLen: []int{16, 16, 24, 32}[r.Intn(4)],
		Prefix: r.Intn(3) == 0,
		Ident:  r.Intn(2) == 0,
		Where:  []string{"dst", "dst", "both", "both", "src"}[r.Intn(5)],
	}
}

// c07EncNoConcurrent: a row group begun with BeginRowGroup cannot be committed
// to an encrypted file (Commit refuses it: its pages would have to be encrypted
// under an ordinal that is not known when they are written); the histories of
// encrypted files write those rows through MultiRowGroup(buffers) instead.
func c07EncNoConcurrent(steps []c07Step) {
	for i := range steps {
		if steps[i].Op == "concurrent" {
			steps[i].Op = "multibuf"
		}
	}
}

var c07GridPaths = []string{"rows", "buffer", "copy", "reencode", "concat", "copyrows", "history"}

// c07GridSize is the number of cells of the grid of c07GenEncGrid.
const c07GridSize = 7 * 2 * 3 * 2 * 2

// c07GenEncGrid enumerates (write path) x (footer mode) x (key assignment) x
// (data page version) x (filters deferred to the end of the file or not); the
// columns (three to five types, every encoding the harness knows, dictionary
// and not), rows, batch sizes, page buffers, flushes, codecs, gzip filters,
// dictionary limit, history steps and which side is encrypted are drawn.
func c07GenEncGrid(c *core.Ctx, i int) *c07File {
	r := c.Rng
	k := i % c07GridSize
	path := c07GridPaths[k%7]
	k /= 7
	footer := []string{"encrypted", "plaintext"}[k%2]
	k /= 2
	keys := []string{"footer", "columns", "mixed"}[k%3]
	k /= 3
	v1 := k%2 == 1
	k /= 2
	deferred := k%2 == 1

	cs := &c07File{Kind: "file", Path: path, V1: v1, Deferred: deferred}
	perm := r.Perm(len(c07Types))
	for _, t := range perm[:3+r.Intn(3)] {
		cs.Cols = append(cs.Cols, c07GenCol(c, c07Types[t]))
	}
	n := []int{2, 9, 40, 130, 300}[r.Intn(5)]
	cs.Rows = c07GenRows(c, cs.Cols, n, 0)
	cs.Batch = []int{1, 7, 64, 1000}[r.Intn(4)]
	for f := r.Intn(3); f > 0 && n > 1; f-- {
		cs.Flush = append(cs.Flush, 1+r.Intn(n-1))
	}
	sort.Ints(cs.Flush)
	// small page buffers: a chunk has several pages to read back
	cs.PageBuf = []int{0, 64, 64, 256, 256, 4096}[r.Intn(6)]
	if r.Intn(4) == 0 {
		cs.MaxRows = int64(1 + r.Intn(n))
	}
	cs.Codec = []string{"", "snappy", "zstd", "gzip"}[r.Intn(4)]
	cs.DstCodec = []string{"", "snappy", "zstd"}[r.Intn(3)]
	if cs.DstCodec == cs.Codec {
		cs.DstCodec = "gzip"
	}
	cs.Gzip = r.Intn(4) == 0
	cs.SrcBits = r.Intn(3) != 0
	if r.Intn(6) == 0 {
		cs.DictMax = []int64{16, 64, 256, 2048}[r.Intn(4)]
	}
	cs.Enc = c07GenEnc(c)
	cs.Enc.Footer, cs.Enc.Keys = footer, keys
	if cs.Enc.Where == "src" {
		cs.Enc.Where = "dst" // the grid is about the file under test
	}
	if path == "history" {
		cs.Steps = c07GenSteps(c, n, r.Intn(len(c07PendingOps)*len(c07NextOps)))
		c07EncNoConcurrent(cs.Steps)
		cs.Reenc = r.Intn(3) == 0
		if r.Intn(4) == 0 {
			cs.Reset = 1 + r.Intn(n)
			cs.ResetMode = []string{"pending", "flushed", "closed"}[r.Intn(3)]
		}
	}
	// two ways of opening the file besides the default one
	opens := c07GenOpens(c, false)
	cs.Opens = []c07Open{opens[1+r.Intn(2)], opens[3]}
	return cs
}
