// Build / CPU-path variants of C07.
//
// The hashing and block kernels of bloom/ and bloom/xxhash exist in several
// versions chosen at build time (-tags purego: portable Go; otherwise, on
// amd64, assembly) and, within the assembly, at run time from the CPU
// features golang.org/x/sys/cpu reports (bloom: AVX2 body or scalar fallback
// of filterInsertBulk / filterInsert / filterCheck / blockMask; xxhash:
// AVX-512 body or scalar fallback of the MultiSum64UintK kernels). The writer
// and the reader of one value do not always take the same version (a 16-byte
// value is hashed in bulk by MultiSum64Uint128 when written and by Sum64 when
// looked up; bits are set in bulk and tested one hash at a time), so each
// version has to agree with the model on its own. bin/props.d/C07.json runs
// this harness once per version: "default" (every feature the machine has),
// "purego", "noavx2" (GODEBUG=cpu.avx2=off,cpu.avx512*=off: the scalar
// fallbacks of the assembly) and, in the thorough tier, "avx2only" (AVX-512
// off). Every part of the harness runs unchanged under each of them; reports
// name the variant because a replay fails only under the same build and
// environment.
package main

import (
	"os"

	"verif/harness/core"
)

func c07VariantTag(c *core.Ctx) string {
	v := c.Res.Variant
	if v == "" || v == "default" {
		return ""
	}
	tag := " [build variant " + v
	if g := os.Getenv("GODEBUG"); g != "" {
		tag += ", GODEBUG=" + g
	}
	return tag + "]"
}

func c07Viol(c *core.Ctx, class, what string, replay any) {
	c.Violation(class, what+c07VariantTag(c), replay)
}

func c07Mism(c *core.Ctx, corr, cs, impl, model string, replay any) {
	c.Mismatch(corr, cs+c07VariantTag(c), impl, model, replay)
}

// c07VariantNote records which kernels this run exercised.
func c07VariantNote(c *core.Ctx) {
	g := os.Getenv("GODEBUG")
	if g == "" {
		g = "(unset)"
	}
	c.Note("build variant %q: purego=%v, GODEBUG=%s (golang.org/x/sys/cpu honours cpu.<feature>=off; the assembly kernels select their AVX2 / AVX-512 bodies from it)", c.Res.Variant, c07Purego, g)
}
