// C07 — bloom filters never answer absent for a value that was written.
//
// (a) xxhash.Sum64 / Sum64UintK / MultiSum64UintK against the Gallina XXH64;
// (b) bloom.SplitBlockFilter insert bytes / Check / CheckSplitBlock /
//
//	NumSplitBlocksOf and the splitBlockEncoding.Encode* methods against the model;
//
// (c) end to end through real files: every physical type, dictionary and
//
//	plain columns, optional and repeated columns, bits-per-value settings,
//	several row groups, deferred and gzip-compressed filters, WriteRowGroup
//	from buffers and from other files (copy / re-encode / concatenation),
//	write HISTORIES on one writer (rows left pending by WriteRows / CopyRows /
//	ReadRowsFrom followed by Flush, WriteRowGroup of a buffer, of file row
//	groups, of a MultiRowGroup / merge of file row groups or buffers, a
//	concurrent row group, after Reset of a used writer):
//	every written non-null value must Check true; the stored filter bytes
//	are compared with the model's filter of the chunk's values; every file
//	with modular encryption as one more writer option (encrypted or signed
//	plaintext footer, footer key only or per-column keys, of the file, of the
//	files its row groups come from, or both; see encrypt.go) crossed with
//	all of the above, the files being read with the keys; every file
//	is then re-opened under several option sets (filters loaded from the
//	header, prefetched, skipped and loaded on demand; read buffers smaller
//	and larger than the filters; optimistic reads; async mode; reader
//	kinds) and the filter obtained through ColumnChunk.BloomFilter,
//	BloomFilterFrom and the MultiRowGroup filter must report every written
//	value present and expose the same bytes;
//
// (d) a vm_compute cross-check sample (cases.v).
package main

import (
	"bytes"
	"encoding/binary"
	"encoding/hex"
	"encoding/json"
	"fmt"
	"io"
	"math"
	"os"
	"sort"
	"strconv"
	"strings"
	"time"

	"github.com/parquet-go/parquet-go"
	"github.com/parquet-go/parquet-go/bloom"
	"github.com/parquet-go/parquet-go/bloom/xxhash"
	"github.com/parquet-go/parquet-go/deprecated"
	"github.com/parquet-go/parquet-go/encoding"

	"verif/harness/core"
)

func main() { core.Main("C07", runC07, replayC07) }

// ---------------------------------------------------------------- cases

type c07Col struct {
	Type string `json:"type"`           // bool i32 i64 i96 f32 f64 ba flba
	Size int    `json:"size,omitempty"` // flba
	UUID bool   `json:"uuid,omitempty"`
	Rep  string `json:"rep"`  // required optional repeated
	Enc  string `json:"enc"`  // plain dict delta split dlba dba
	Bits uint   `json:"bits"` // bits per value of the requested filter; 0 = no filter on this column
}

// c07File is one end-to-end case. Rows[r][c] lists the values of column c in
// row r as hex of their PLAIN bytes: exactly one entry for required columns,
// one entry or none (null) for optional ones, any number for repeated ones.
type c07File struct {
	Kind     string       `json:"kind"` // "file"
	Cols     []c07Col     `json:"cols"`
	Rows     [][][]string `json:"rows"`
	Path     string       `json:"path"` // rows buffer copy reencode concat copyrows
	Batch    int          `json:"batch"`
	Flush    []int        `json:"flush,omitempty"` // row indexes before which Flush is called (path rows / source file)
	PageBuf  int          `json:"page_buf"`
	MaxRows  int64        `json:"max_rows,omitempty"`
	V1       bool         `json:"v1,omitempty"`
	Codec    string       `json:"codec,omitempty"`
	Gzip     bool         `json:"gzip,omitempty"`
	Deferred bool         `json:"deferred,omitempty"`
	DictMax  int64        `json:"dict_max,omitempty"`
	Prefetch bool         `json:"prefetch,omitempty"`
	SrcBits  bool         `json:"src_filters,omitempty"` // copy paths: the source file has the same filters
	DstCodec string       `json:"dst_codec,omitempty"`
	Enc      *c07Enc      `json:"enc,omitempty"` // modular encryption of the file and/or of the files its row groups come from

	// path "history": the calls made on the one destination writer, in order
	Steps     []c07Step `json:"steps,omitempty"`
	Reenc     bool      `json:"reenc,omitempty"`      // history: the destination uses DstCodec (file row groups are re-encoded, not copied)
	Reset     int       `json:"reset,omitempty"`      // history: the writer first wrote this many rows to another output, then Reset
	ResetMode string    `json:"reset_mode,omitempty"` // state at Reset: "pending" (default) "flushed" "closed"

	// the option sets under which the file is re-opened and every filter re-checked
	Opens []c07Open `json:"opens,omitempty"`

	keyCache string
}

// c07Step is one call (or group of calls) on the destination writer. The steps
// consume the rows of the case in order; rows left over are written with
// WriteRows before Close.
type c07Step struct {
	Op    string `json:"op"`              // rows flush buffer concurrent file multi merge sortmerge multibuf copyrows readfrom
	N     int    `json:"n,omitempty"`     // rows of the case consumed by the step
	Parts int    `json:"parts,omitempty"` // row groups of the source file / number of buffers
	Mix   int    `json:"mix,omitempty"`   // sortmerge: key ranges of the source row groups 0 disjoint, 1 overlapping at their ends, 2 overlapping entirely
}

// sortKey is the column a sortmerge step sorts on: the first required column
// whose order the harness reproduces (-1: none, the step is a plain merge).
func (cs *c07File) sortKey() int {
	for i, col := range cs.Cols {
		if col.Rep == "required" && (col.Type == "i32" || col.Type == "i64" || col.Type == "ba") {
			return i
		}
	}
	return -1
}

// unordered reports whether the order of the rows in the file may differ from
// that of the case (a sorted merge orders its rows by the key).
func (cs *c07File) unordered() bool {
	if cs.Path != "history" {
		return false
	}
	for _, st := range cs.Steps {
		if st.Op == "sortmerge" {
			return true
		}
	}
	return false
}

func (cs *c07File) keyLess(key, a, b int) bool {
	x, y := unhex(cs.Rows[a][key][0]), unhex(cs.Rows[b][key][0])
	switch cs.Cols[key].Type {
	case "i32":
		return int32(binary.LittleEndian.Uint32(x)) < int32(binary.LittleEndian.Uint32(y))
	case "i64":
		return int64(binary.LittleEndian.Uint64(x)) < int64(binary.LittleEndian.Uint64(y))
	}
	return bytes.Compare(x, y) < 0
}

// c07Open is one way of opening the file and of obtaining the filters.
type c07Open struct {
	Prefetch   bool   `json:"prefetch,omitempty"`   // PrefetchBloomFilters(true)
	Skip       bool   `json:"skip,omitempty"`       // SkipBloomFilters(true): header and bits are read on the first BloomFilter call
	Buf        int    `json:"buf,omitempty"`        // ReadBufferSize, 0 = default
	Optimistic bool   `json:"optimistic,omitempty"` // OptimisticRead(true)
	Async      bool   `json:"async,omitempty"`      // FileReadMode(ReadModeAsync)
	NoIndex    bool   `json:"no_index,omitempty"`   // SkipPageIndex(true)
	Reader     string `json:"reader,omitempty"`     // "" bytes.Reader, "eof" (reports io.EOF with the last byte), "file" (*os.File)
	Via        string `json:"via,omitempty"`        // "" ColumnChunk.BloomFilter, "from" BloomFilterFrom(another reader), "multi" MultiRowGroup(all row groups) column filter
}

func (o c07Open) String() string {
	b, _ := json.Marshal(o)
	return string(b)
}

func (o c07Open) load() string {
	switch {
	case o.Skip:
		return "on-demand"
	case o.Prefetch:
		return "prefetched"
	}
	return "header-at-open"
}

func (o c07Open) bufClass() string {
	switch {
	case o.Buf == 0:
		return "buf-default"
	case o.Buf < 4096:
		return "buf-small"
	}
	return "buf-large"
}

func (o c07Open) options() []parquet.FileOption {
	var fo []parquet.FileOption
	if o.Prefetch {
		fo = append(fo, parquet.PrefetchBloomFilters(true))
	}
	if o.Skip {
		fo = append(fo, parquet.SkipBloomFilters(true))
	}
	if o.Buf > 0 {
		fo = append(fo, parquet.ReadBufferSize(o.Buf))
	}
	if o.Optimistic {
		fo = append(fo, parquet.OptimisticRead(true))
	}
	if o.Async {
		fo = append(fo, parquet.FileReadMode(parquet.ReadModeAsync))
	}
	if o.NoIndex {
		fo = append(fo, parquet.SkipPageIndex(true))
	}
	return fo
}

// c07EOFReader is a valid io.ReaderAt that reports io.EOF together with the
// last byte of the data (which the contract allows).
type c07EOFReader struct{ data []byte }

func (r c07EOFReader) ReadAt(p []byte, off int64) (int, error) {
	if off < 0 || off >= int64(len(r.data)) {
		return 0, io.EOF
	}
	n := copy(p, r.data[off:])
	if n < len(p) || off+int64(n) == int64(len(r.data)) {
		return n, io.EOF
	}
	return n, nil
}

// open opens data under the option set; done releases what was created.
func (o c07Open) open(data []byte, extra ...parquet.FileOption) (f *parquet.File, done func(), err error) {
	defer func() {
		if r := recover(); r != nil {
			err = fmt.Errorf("panic: %v", r)
		}
	}()
	done = func() {}
	var r io.ReaderAt = bytes.NewReader(data)
	switch o.Reader {
	case "eof":
		r = c07EOFReader{data}
	case "file":
		tmp, terr := os.CreateTemp("", "c07-*.parquet")
		if terr != nil {
			break // no temporary directory: keep the in-memory reader
		}
		done = func() { tmp.Close(); os.Remove(tmp.Name()) }
		if _, terr := tmp.Write(data); terr != nil {
			done()
			done = func() {}
			break
		}
		r = tmp
	}
	f, err = parquet.OpenFile(r, int64(len(data)), append(o.options(), extra...)...)
	if err != nil {
		done()
		done = func() {}
	}
	return f, done, err
}

type c07Hash struct {
	Kind  string `json:"kind"` // "xxh64" "sum8" "sum16" "sum32" "sum64" "sum128"
	Bytes string `json:"bytes,omitempty"`
	Value uint64 `json:"value,omitempty"`
}

type c07Filter struct {
	Kind   string   `json:"kind"` // "filter"
	N      int      `json:"n"`
	Bulk   bool     `json:"bulk"`
	Hashes []uint64 `json:"hashes"`
	Probes []uint64 `json:"probes"`
}

type c07Encode struct {
	Kind    string   `json:"kind"` // "encode"
	Type    string   `json:"type"`
	N       int      `json:"n"`
	Size    int      `json:"size,omitempty"`
	Data    string   `json:"data,omitempty"`    // hex: packed booleans, int96 / byte array / flba data
	Words   []uint64 `json:"words,omitempty"`   // i32 i64 f32 f64
	Offsets []uint32 `json:"offsets,omitempty"` // ba
}

func (col c07Col) tyTok() string {
	if col.Type == "flba" {
		return "flba:" + strconv.Itoa(col.Size)
	}
	return col.Type
}

func (col c07Col) coqType() string {
	switch col.Type {
	case "bool":
		return "TBoolean"
	case "i32":
		return "TInt32"
	case "i64":
		return "TInt64"
	case "i96":
		return "TInt96"
	case "f32":
		return "TFloat"
	case "f64":
		return "TDouble"
	case "ba":
		return "TByteArray"
	}
	return fmt.Sprintf("(TFixedLenByteArray %d)", col.Size)
}

func leUint(b []byte) uint64 {
	var v uint64
	for i := len(b) - 1; i >= 0; i-- {
		v = v<<8 | uint64(b[i])
	}
	return v
}

// valTok renders the PLAIN bytes of one value for the oracle.
func (col c07Col) valTok(b []byte) string {
	switch col.Type {
	case "bool":
		if b[0] != 0 {
			return "1"
		}
		return "0"
	case "i32", "f32", "i64", "f64":
		return core.Us(leUint(b))
	}
	return core.Hexs(b)
}

func (col c07Col) coqValue(b []byte) string {
	switch col.Type {
	case "bool":
		return "VBoolean " + core.CoqBool(b[0] != 0)
	case "i32":
		return "VInt32 " + core.CoqN(leUint(b))
	case "i64":
		return "VInt64 " + core.CoqN(leUint(b))
	case "f32":
		return "VFloat " + core.CoqN(leUint(b))
	case "f64":
		return "VDouble " + core.CoqN(leUint(b))
	case "i96":
		return "VInt96 " + core.CoqBytes(b)
	case "ba":
		return "VByteArray " + core.CoqBytes(b)
	}
	return "VFixedLenByteArray " + core.CoqBytes(b)
}

func (col c07Col) value(b []byte) parquet.Value {
	switch col.Type {
	case "bool":
		return parquet.BooleanValue(b[0] != 0)
	case "i32":
		return parquet.Int32Value(int32(binary.LittleEndian.Uint32(b)))
	case "i64":
		return parquet.Int64Value(int64(binary.LittleEndian.Uint64(b)))
	case "f32":
		return parquet.FloatValue(math.Float32frombits(binary.LittleEndian.Uint32(b)))
	case "f64":
		return parquet.DoubleValue(math.Float64frombits(binary.LittleEndian.Uint64(b)))
	case "i96":
		return parquet.Int96Value(deprecated.Int96{binary.LittleEndian.Uint32(b[0:4]), binary.LittleEndian.Uint32(b[4:8]), binary.LittleEndian.Uint32(b[8:12])})
	case "ba":
		return parquet.ByteArrayValue(b)
	}
	return parquet.FixedLenByteArrayValue(b)
}

// plainOf is the inverse of value for values read back from a file.
func (col c07Col) plainOf(v parquet.Value) []byte {
	switch col.Type {
	case "bool":
		if v.Boolean() {
			return []byte{1}
		}
		return []byte{0}
	case "i32":
		return binary.LittleEndian.AppendUint32(nil, uint32(v.Int32()))
	case "i64":
		return binary.LittleEndian.AppendUint64(nil, uint64(v.Int64()))
	case "f32":
		return binary.LittleEndian.AppendUint32(nil, math.Float32bits(v.Float()))
	case "f64":
		return binary.LittleEndian.AppendUint64(nil, math.Float64bits(v.Double()))
	case "i96":
		x := v.Int96()
		b := binary.LittleEndian.AppendUint32(nil, x[0])
		b = binary.LittleEndian.AppendUint32(b, x[1])
		return binary.LittleEndian.AppendUint32(b, x[2])
	}
	return append([]byte(nil), v.ByteArray()...)
}

func (col c07Col) node() parquet.Node {
	var n parquet.Node
	switch col.Type {
	case "bool":
		n = parquet.Leaf(parquet.BooleanType)
	case "i32":
		n = parquet.Leaf(parquet.Int32Type)
	case "i64":
		n = parquet.Leaf(parquet.Int64Type)
	case "i96":
		n = parquet.Leaf(parquet.Int96Type)
	case "f32":
		n = parquet.Leaf(parquet.FloatType)
	case "f64":
		n = parquet.Leaf(parquet.DoubleType)
	case "ba":
		if col.UUID {
			n = parquet.String()
		} else {
			n = parquet.Leaf(parquet.ByteArrayType)
		}
	default:
		if col.UUID && col.Size == 16 {
			n = parquet.UUID()
		} else {
			n = parquet.Leaf(parquet.FixedLenByteArrayType(col.Size))
		}
	}
	n = col.encoded(n)
	switch col.Rep {
	case "optional":
		n = parquet.Optional(n)
	case "repeated":
		n = parquet.Repeated(n)
	}
	return n
}

// encoded applies the column's encoding; an encoding the type does not
// support falls back to PLAIN.
func (col c07Col) encoded(n parquet.Node) (out parquet.Node) {
	defer func() {
		if r := recover(); r != nil {
			out = parquet.Encoded(n, &parquet.Plain)
		}
	}()
	switch col.Enc {
	case "dict":
		n = parquet.Encoded(n, &parquet.RLEDictionary)
	case "delta":
		n = parquet.Encoded(n, &parquet.DeltaBinaryPacked)
	case "split":
		n = parquet.Encoded(n, &parquet.ByteStreamSplit)
	case "dlba":
		n = parquet.Encoded(n, &parquet.DeltaLengthByteArray)
	case "dba":
		n = parquet.Encoded(n, &parquet.DeltaByteArray)
	default:
		n = parquet.Encoded(n, &parquet.Plain)
	}
	return n
}

func c07Name(i int) string { return fmt.Sprintf("c%02d", i) }

func c07Schema(cols []c07Col) *parquet.Schema {
	g := parquet.Group{}
	for i, col := range cols {
		g[c07Name(i)] = col.node()
	}
	return parquet.NewSchema("c07", g)
}

func unhex(s string) []byte {
	b, err := hex.DecodeString(s)
	if err != nil {
		panic("bad hex in case: " + s)
	}
	return b
}

func c07MakeRows(cs *c07File, lo, hi int) []parquet.Row {
	rows := make([]parquet.Row, 0, hi-lo)
	for r := lo; r < hi; r++ {
		var row parquet.Row
		for ci, col := range cs.Cols {
			vals := cs.Rows[r][ci]
			switch col.Rep {
			case "required":
				row = append(row, col.value(unhex(vals[0])).Level(0, 0, ci))
			case "optional":
				if len(vals) == 0 {
					row = append(row, parquet.NullValue().Level(0, 0, ci))
				} else {
					row = append(row, col.value(unhex(vals[0])).Level(0, 1, ci))
				}
			default:
				if len(vals) == 0 {
					row = append(row, parquet.NullValue().Level(0, 0, ci))
				}
				for k, v := range vals {
					rep := 0
					if k > 0 {
						rep = 1
					}
					row = append(row, col.value(unhex(v)).Level(rep, 1, ci))
				}
			}
		}
		rows = append(rows, row)
	}
	return rows
}

func c07Codec(name string) parquet.WriterOption {
	switch name {
	case "snappy":
		return parquet.Compression(&parquet.Snappy)
	case "zstd":
		return parquet.Compression(&parquet.Zstd)
	case "gzip":
		return parquet.Compression(&parquet.Gzip)
	}
	return parquet.Compression(&parquet.Uncompressed)
}

// dstOptions configures the writer of the file under test, srcOptions the
// writers of the files its row groups come from.
func (cs *c07File) dstOptions(codec string) []parquet.WriterOption {
	return cs.options(true, codec, cs.Enc.dst())
}

func (cs *c07File) srcOptions() []parquet.WriterOption {
	return cs.options(cs.SrcBits, cs.Codec, cs.Enc.src())
}

// openSource opens a source file (with its keys if it is encrypted).
func (cs *c07File) openSource(data []byte) (*parquet.File, error) {
	var fo []parquet.FileOption
	if cs.Enc.src() {
		fo = cs.Enc.fileOptions(len(cs.Cols))
	}
	sf, err := parquet.OpenFile(bytes.NewReader(data), int64(len(data)), fo...)
	if err != nil {
		return nil, fmt.Errorf("source file: %w", err)
	}
	return sf, nil
}

// readOptions are the options every reader of the file under test is given.
func (cs *c07File) readOptions() []parquet.FileOption {
	if cs.Enc.dst() {
		return cs.Enc.fileOptions(len(cs.Cols))
	}
	return nil
}

func (cs *c07File) options(filters bool, codec string, encrypted bool) []parquet.WriterOption {
	opts := []parquet.WriterOption{c07Schema(cs.Cols), c07Codec(codec)}
	if encrypted {
		opts = append(opts, cs.Enc.writerOption(len(cs.Cols)))
	}
	if cs.PageBuf > 0 {
		opts = append(opts, parquet.PageBufferSize(cs.PageBuf))
	}
	if cs.MaxRows > 0 {
		opts = append(opts, parquet.MaxRowsPerRowGroup(cs.MaxRows))
	}
	if cs.V1 {
		opts = append(opts, parquet.DataPageVersion(1))
	}
	if cs.DictMax > 0 {
		opts = append(opts, parquet.DictionaryMaxBytes(cs.DictMax))
	}
	if filters {
		var fs []parquet.BloomFilterColumn
		for i, col := range cs.Cols {
			if col.Bits > 0 {
				fs = append(fs, parquet.SplitBlockFilter(col.Bits, c07Name(i)))
			}
		}
		opts = append(opts, parquet.BloomFilters(fs...))
		if cs.Gzip {
			opts = append(opts, parquet.BloomFilterCompression(&parquet.Gzip))
		}
		if cs.Deferred {
			opts = append(opts, parquet.DeferBloomFiltersWithBuffers(parquet.NewBufferPool()))
		}
	}
	return opts
}

// writeRowsTo writes all rows through WriteRows in batches, flushing at the
// requested row indexes.
func (cs *c07File) writeRowsTo(w *parquet.Writer) error {
	flush := map[int]bool{}
	for _, f := range cs.Flush {
		flush[f] = true
	}
	batch := cs.Batch
	if batch <= 0 {
		batch = 17
	}
	for i := 0; i < len(cs.Rows); {
		j := i + batch
		if j > len(cs.Rows) {
			j = len(cs.Rows)
		}
		for f := i + 1; f < j; f++ {
			if flush[f] {
				j = f
				break
			}
		}
		if flush[i] && i > 0 {
			if err := w.Flush(); err != nil {
				return err
			}
		}
		if _, err := w.WriteRows(c07MakeRows(cs, i, j)); err != nil {
			return err
		}
		i = j
	}
	return w.Close()
}

// c07Write produces the file of the case; copied reports how many column
// chunks took the verbatim copy path.
func c07Write(cs *c07File) (out []byte, copied int64, err error) {
	defer func() {
		if r := recover(); r != nil {
			err = fmt.Errorf("panic: %v", r)
		}
	}()
	var buf bytes.Buffer
	switch cs.Path {
	case "rows":
		w := parquet.NewWriter(&buf, cs.dstOptions(cs.Codec)...)
		if err := cs.writeRowsTo(w); err != nil {
			return nil, 0, err
		}
		return buf.Bytes(), 0, nil
	case "buffer":
		w := parquet.NewWriter(&buf, cs.dstOptions(cs.Codec)...)
		bounds := append(append([]int{0}, cs.Flush...), len(cs.Rows))
		sort.Ints(bounds)
		for k := 0; k+1 < len(bounds); k++ {
			if bounds[k] == bounds[k+1] {
				continue
			}
			b := parquet.NewBuffer(c07Schema(cs.Cols))
			if _, err := b.WriteRows(c07MakeRows(cs, bounds[k], bounds[k+1])); err != nil {
				return nil, 0, err
			}
			if _, err := w.WriteRowGroup(b); err != nil {
				return nil, 0, err
			}
		}
		if err := w.Close(); err != nil {
			return nil, 0, err
		}
		return buf.Bytes(), 0, nil
	case "history":
		return cs.writeHistory()
	}
	// paths that start from another file
	var src bytes.Buffer
	sw := parquet.NewWriter(&src, cs.srcOptions()...)
	if err := cs.writeRowsTo(sw); err != nil {
		return nil, 0, fmt.Errorf("source file: %w", err)
	}
	sf, err := cs.openSource(src.Bytes())
	if err != nil {
		return nil, 0, err
	}
	dstCodec := cs.Codec
	if cs.Path == "reencode" {
		dstCodec = cs.DstCodec
	}
	w := parquet.NewWriter(&buf, cs.dstOptions(dstCodec)...)
	before := parquet.VerifCopyPathCount()
	switch cs.Path {
	case "copy", "reencode":
		for _, rg := range sf.RowGroups() {
			if _, err := w.WriteRowGroup(rg); err != nil {
				return nil, 0, err
			}
		}
	case "concat":
		m, err := parquet.MergeRowGroups(sf.RowGroups())
		if err != nil {
			return nil, 0, err
		}
		if _, err := w.WriteRowGroup(m); err != nil {
			return nil, 0, err
		}
	case "copyrows":
		for _, rg := range sf.RowGroups() {
			rows := rg.Rows()
			_, err := parquet.CopyRows(w, rows)
			rows.Close()
			if err != nil {
				return nil, 0, err
			}
			if err := w.Flush(); err != nil {
				return nil, 0, err
			}
		}
	default:
		return nil, 0, fmt.Errorf("unknown path %q", cs.Path)
	}
	if err := w.Close(); err != nil {
		return nil, 0, err
	}
	return buf.Bytes(), parquet.VerifCopyPathCount() - before, nil
}

// sourceFile writes rows lo..hi to a file of their own in `parts` row groups
// (Flush between them) and opens it.
//
// key >= 0: every row group is sorted on that column; mix 0: the row groups
// cover consecutive key ranges, 1: the rows next to each boundary go
// alternately to either side (ranges overlap at their ends), 2: the rows are
// dealt in their original order (ranges overlap entirely).
func (cs *c07File) sourceFile(lo, hi, parts, key, mix int) (*parquet.File, error) {
	var src bytes.Buffer
	sw := parquet.NewWriter(&src, cs.srcOptions()...)
	if parts < 1 {
		parts = 1
	}
	idx := make([]int, hi-lo)
	for i := range idx {
		idx[i] = lo + i
	}
	if key >= 0 && mix != 2 {
		sort.SliceStable(idx, func(a, b int) bool { return cs.keyLess(key, idx[a], idx[b]) })
		if mix == 1 {
			for k := 1; k < parts; k++ {
				m := len(idx) * k / parts
				for d := 1; d <= 3 && m-d >= 0 && m+d-1 < len(idx); d += 2 {
					idx[m-d], idx[m+d-1] = idx[m+d-1], idx[m-d]
				}
			}
		}
	}
	for k := 0; k < parts; k++ {
		a, b := len(idx)*k/parts, len(idx)*(k+1)/parts
		if a == b {
			continue
		}
		part := append([]int(nil), idx[a:b]...)
		if key >= 0 {
			sort.SliceStable(part, func(a, b int) bool { return cs.keyLess(key, part[a], part[b]) })
		}
		var rows []parquet.Row
		for _, r := range part {
			rows = append(rows, c07MakeRows(cs, r, r+1)...)
		}
		if _, err := sw.WriteRows(rows); err != nil {
			return nil, fmt.Errorf("source file: %w", err)
		}
		if err := sw.Flush(); err != nil {
			return nil, fmt.Errorf("source file: %w", err)
		}
	}
	if err := sw.Close(); err != nil {
		return nil, fmt.Errorf("source file: %w", err)
	}
	return cs.openSource(src.Bytes())
}

// writeHistory replays the steps of the case on one destination writer. Every
// step appends its rows after those of the steps before it, so the file holds
// the rows of the case in order whatever the steps are.
func (cs *c07File) writeHistory() ([]byte, int64, error) {
	var buf, scratch bytes.Buffer
	dstCodec := cs.Codec
	if cs.Reenc {
		dstCodec = cs.DstCodec
	}
	var w *parquet.Writer
	if cs.Reset > 0 {
		// a used writer: rows of the case went to another output first
		w = parquet.NewWriter(&scratch, cs.dstOptions(dstCodec)...)
		k := cs.Reset
		if k > len(cs.Rows) {
			k = len(cs.Rows)
		}
		if _, err := w.WriteRows(c07MakeRows(cs, 0, k)); err != nil {
			return nil, 0, fmt.Errorf("before Reset: %w", err)
		}
		switch cs.ResetMode {
		case "flushed":
			if err := w.Flush(); err != nil {
				return nil, 0, fmt.Errorf("before Reset: %w", err)
			}
		case "closed":
			if err := w.Close(); err != nil {
				return nil, 0, fmt.Errorf("before Reset: %w", err)
			}
		}
		w.Reset(&buf)
	} else {
		w = parquet.NewWriter(&buf, cs.dstOptions(dstCodec)...)
	}
	before := parquet.VerifCopyPathCount()
	writeRows := func(lo, hi int) error {
		batch := cs.Batch
		if batch <= 0 {
			batch = 17
		}
		for i := lo; i < hi; i += batch {
			j := i + batch
			if j > hi {
				j = hi
			}
			if _, err := w.WriteRows(c07MakeRows(cs, i, j)); err != nil {
				return err
			}
		}
		return nil
	}
	pos := 0
	for si, st := range cs.Steps {
		fail := func(err error) ([]byte, int64, error) {
			return nil, 0, fmt.Errorf("step %d (%s): %w", si, st.Op, err)
		}
		if st.Op == "flush" {
			if err := w.Flush(); err != nil {
				return fail(err)
			}
			continue
		}
		lo, hi := pos, pos+st.N
		if hi > len(cs.Rows) {
			hi = len(cs.Rows)
		}
		if hi <= lo {
			continue
		}
		pos = hi
		parts := st.Parts
		if parts < 1 {
			parts = 1
		}
		switch st.Op {
		case "rows":
			if err := writeRows(lo, hi); err != nil {
				return fail(err)
			}
		case "buffer":
			b := parquet.NewBuffer(c07Schema(cs.Cols))
			if _, err := b.WriteRows(c07MakeRows(cs, lo, hi)); err != nil {
				return fail(err)
			}
			if _, err := w.WriteRowGroup(b); err != nil {
				return fail(err)
			}
		case "multibuf":
			var rgs []parquet.RowGroup
			for k := 0; k < parts; k++ {
				a, z := lo+(hi-lo)*k/parts, lo+(hi-lo)*(k+1)/parts
				if a == z {
					continue
				}
				b := parquet.NewBuffer(c07Schema(cs.Cols))
				if _, err := b.WriteRows(c07MakeRows(cs, a, z)); err != nil {
					return fail(err)
				}
				rgs = append(rgs, b)
			}
			if _, err := w.WriteRowGroup(parquet.MultiRowGroup(rgs...)); err != nil {
				return fail(err)
			}
		case "concurrent":
			// `parts` row groups open at the same time (none larger than
			// MaxRowsPerRowGroup: a concurrent row group refuses more), filled,
			// then committed in order
			var bounds []int
			for k := 0; k <= parts; k++ {
				bounds = append(bounds, lo+(hi-lo)*k/parts)
			}
			if cs.MaxRows > 0 {
				bounds = bounds[:0]
				for a := lo; a < hi; a += int(cs.MaxRows) {
					bounds = append(bounds, a)
				}
				bounds = append(bounds, hi)
			}
			var rgs []*parquet.ConcurrentRowGroupWriter
			for k := 0; k+1 < len(bounds); k++ {
				rgs = append(rgs, w.BeginRowGroup())
			}
			for k := len(rgs) - 1; k >= 0; k-- {
				if bounds[k] == bounds[k+1] {
					continue
				}
				if _, err := rgs[k].WriteRows(c07MakeRows(cs, bounds[k], bounds[k+1])); err != nil {
					return fail(err)
				}
			}
			for k, rg := range rgs {
				if bounds[k] == bounds[k+1] {
					continue
				}
				if _, err := rg.Commit(); err != nil {
					return fail(err)
				}
			}
		case "file", "multi", "merge", "sortmerge", "copyrows", "readfrom":
			key := -1
			if st.Op == "sortmerge" {
				key = cs.sortKey()
			}
			sf, err := cs.sourceFile(lo, hi, parts, key, st.Mix)
			if err != nil {
				return fail(err)
			}
			switch st.Op {
			case "file":
				for _, rg := range sf.RowGroups() {
					if _, err := w.WriteRowGroup(rg); err != nil {
						return fail(err)
					}
				}
			case "multi":
				if _, err := w.WriteRowGroup(parquet.MultiRowGroup(sf.RowGroups()...)); err != nil {
					return fail(err)
				}
			case "merge", "sortmerge":
				var mo []parquet.RowGroupOption
				if key >= 0 {
					mo = append(mo, parquet.SortingRowGroupConfig(parquet.SortingColumns(parquet.Ascending(c07Name(key)))))
				}
				m, err := parquet.MergeRowGroups(sf.RowGroups(), mo...)
				if err != nil {
					return fail(err)
				}
				if _, err := w.WriteRowGroup(m); err != nil {
					return fail(err)
				}
			case "copyrows", "readfrom":
				for _, rg := range sf.RowGroups() {
					rows := rg.Rows()
					if st.Op == "copyrows" {
						_, err = parquet.CopyRows(w, rows)
					} else {
						_, err = w.ReadRowsFrom(rows)
					}
					rows.Close()
					if err != nil {
						return fail(err)
					}
				}
			}
		default:
			return fail(fmt.Errorf("unknown step"))
		}
	}
	if pos < len(cs.Rows) {
		if err := writeRows(pos, len(cs.Rows)); err != nil {
			return nil, 0, err
		}
	}
	if err := w.Close(); err != nil {
		return nil, 0, err
	}
	return buf.Bytes(), parquet.VerifCopyPathCount() - before, nil
}

// c07Absent makes a probe value of the column's type that is (most likely)
// not in the chunk.
func (col c07Col) absent(k int) []byte {
	switch col.Type {
	case "bool":
		return []byte{byte(k & 1)}
	case "i32", "f32":
		return binary.LittleEndian.AppendUint32(nil, 0x7a000000+uint32(k)*2654435761)
	case "i64", "f64":
		return binary.LittleEndian.AppendUint64(nil, 0x7a00000000000000+uint64(k)*0x9E3779B97F4A7C15)
	case "i96":
		b := make([]byte, 12)
		binary.LittleEndian.PutUint64(b, uint64(k)*0x9E3779B97F4A7C15)
		b[11] = 0x7a
		return b
	case "ba":
		return []byte(fmt.Sprintf("absent-%d-probe", k))
	}
	b := make([]byte, col.Size)
	for i := range b {
		b[i] = byte(k*31 + i*7 + 0x7a)
	}
	return b
}

// c07Rep reports to the context, or only collects what would be reported
// (first pass of a case and the shrinker's probes).
type c07Rep struct {
	c       *core.Ctx
	collect bool // do not report, remember
	record  bool // record coverage
	noModel bool // property predicate only (no oracle calls)
	failed  []string
}

func (r *c07Rep) violation(class, what string, replay any) {
	r.failed = append(r.failed, class)
	if !r.collect {
		c07Viol(r.c, class, what, replay)
	}
}

func (r *c07Rep) mismatch(corr, cs, impl, model string, replay any) {
	r.failed = append(r.failed, corr)
	if !r.collect {
		c07Mism(r.c, corr, cs, impl, model, replay)
	}
}

type c07Chunk struct {
	RowGroup  int
	Col       int
	Orig      [][]byte   // non-null values handed to the writer for this chunk
	Pages     [][][]byte // non-null values read back, per data page
	Filter    []byte     // stored filter bytes (decompressed), nil if no filter
	Stored    []byte     // filter bytes as exposed by ReadAt (compressed if the filter is)
	Distinct  [][]byte   // distinct values of Orig
	HasFilter bool
	NumVals   int64
	DictEnc   bool // some page is dictionary-encoded
	PlainEnc  bool // some page is not
}

// c07Verify opens the file and evaluates the property on every chunk that
// was configured with a filter. one restricts the check to one column (<0: all).
func c07Verify(rep *c07Rep, cs *c07File, data []byte, copied int64, one int) bool {
	c := rep.c
	ok := true
	fail := func(class, what string) {
		ok = false
		rep.violation(class, what, cs)
	}
	var chunks []*c07Chunk
	unordered := cs.unordered()
	f, _, err := c07Open{Prefetch: cs.Prefetch}.open(data, cs.readOptions()...)
	if err != nil {
		fail("file-open-error", "the written file cannot be opened: "+err.Error())
		return false
	}
	total := int64(0)
	for _, rg := range f.RowGroups() {
		total += rg.NumRows()
	}
	if total != int64(len(cs.Rows)) {
		fail("row-count", fmt.Sprintf("wrote %d rows, file has %d", len(cs.Rows), total))
		return false
	}
	off := 0
	for g, rg := range f.RowGroups() {
		n := int(rg.NumRows())
		for ci, col := range cs.Cols {
			if col.Bits == 0 || (one >= 0 && one != ci) {
				continue
			}
			ch := &c07Chunk{RowGroup: g, Col: ci}
			chunks = append(chunks, ch)
			for r := off; r < off+n; r++ {
				for _, v := range cs.Rows[r][ci] {
					ch.Orig = append(ch.Orig, unhex(v))
				}
			}
			cc := rg.ColumnChunks()[ci]
			ch.NumVals = cc.NumValues()
			// values stored in the chunk, page by page
			func() {
				defer func() {
					if r := recover(); r != nil {
						fail("read-panic", fmt.Sprint(r))
					}
				}()
				pages := cc.Pages()
				defer pages.Close()
				for {
					pg, err := pages.ReadPage()
					if err != nil {
						break
					}
					if pg.Dictionary() != nil {
						ch.DictEnc = true
					} else {
						ch.PlainEnc = true
					}
					vals := make([]parquet.Value, pg.NumValues())
					k, _ := pg.Values().ReadValues(vals)
					var pv [][]byte
					for _, v := range vals[:k] {
						if !v.IsNull() {
							pv = append(pv, col.plainOf(v))
						}
					}
					ch.Pages = append(ch.Pages, pv)
					parquet.Release(pg)
				}
			}()
			if unordered {
				// the rows of the chunk are not those of the same positions of the
				// case: the values of the chunk are those found in it (all the written
				// values are found in some chunk, see the end of the function)
				ch.Orig = nil
				for _, pv := range ch.Pages {
					ch.Orig = append(ch.Orig, pv...)
				}
			}
			bf := cc.BloomFilter()
			if bf == nil {
				if len(ch.Orig) > 0 && rep.record {
					c.Res.Buckets["file/no-filter-written"]++
				}
				continue
			}
			// the property: every written value checks true
			check := func(b []byte) (bool, bool) {
				var res bool
				var cerr error
				func() {
					defer func() {
						if r := recover(); r != nil {
							cerr = fmt.Errorf("panic: %v", r)
						}
					}()
					res, cerr = bf.Check(col.value(b))
				}()
				if cerr != nil {
					fail("check-error", fmt.Sprintf("row group %d column %d (%s): Check failed: %v", g, ci, col.Type, cerr))
					return false, false
				}
				return res, true
			}
			seen := map[string]bool{}
			for _, b := range ch.Orig {
				if seen[string(b)] {
					continue
				}
				seen[string(b)] = true
				ch.Distinct = append(ch.Distinct, b)
				if rep.record {
					c.Res.Evaluations++
				}
				if res, valid := check(b); valid && !res {
					fail("written-value-absent", fmt.Sprintf("path %s, row group %d, column %d (%s %s %s, %d bits/value): value %x was written but BloomFilter.Check answers false (filter of %d bytes, %d values)",
						cs.Path, g, ci, col.Type, col.Rep, col.Enc, col.Bits, b, bf.Size(), ch.NumVals))
					break
				}
			}
			stored := map[string]bool{}
			for _, pv := range ch.Pages {
				if !ok {
					break
				}
				for _, b := range pv {
					if stored[string(b)] {
						continue
					}
					stored[string(b)] = true
					if seen[string(b)] {
						continue
					}
					if res, valid := check(b); valid && !res {
						fail("stored-value-absent", fmt.Sprintf("path %s, row group %d, column %d (%s): value %x is stored in the chunk but Check answers false", cs.Path, g, ci, col.Type, b))
						break
					}
				}
			}
			if !ok {
				continue
			}
			// stored bytes
			raw := make([]byte, bf.Size())
			if _, err := bf.ReadAt(raw, 0); err != nil && len(raw) > 0 {
				fail("filter-read-error", err.Error())
				continue
			}
			ch.Stored, ch.HasFilter = append([]byte(nil), raw...), true
			// (the filter of an encrypted chunk is decrypted and decompressed when it
			// is loaded: it exposes the bits themselves, not the stored gzip stream)
			if (cs.Gzip && !cs.Enc.dst()) || (len(raw) >= 2 && raw[0] == 0x1f && raw[1] == 0x8b && len(raw)%32 != 0) {
				dec, err := parquet.Gzip.Decode(nil, raw)
				if err != nil {
					fail("filter-read-error", "gzip-compressed filter does not decompress: "+err.Error())
					continue
				}
				raw = dec
			}
			ch.Filter = raw
			if len(raw) == 0 || len(raw)%32 != 0 {
				fail("filter-size", fmt.Sprintf("filter of %d bytes is not a positive multiple of the block size", len(raw)))
				continue
			}
			c07Model(rep, cs, col, ch, copied, check)
			if rep.record {
				key := fmt.Sprintf("%s/%s/%s/%s", cs.Path, col.Type, col.Rep, col.Enc)
				c.Case("file/"+key, fmt.Sprintf("%s|%d|%d", cs.key(), g, ci), len(seen) >= 2)
				if cs.Enc.dst() {
					// encrypted chunks by footer mode and key of the column, crossed with
					// the write path, the page version, the column kind and deferred filters
					own := "footer-key"
					if cs.Enc.ownKey(ci) {
						own = "column-key"
					}
					kind := "plain-pages"
					if ch.DictEnc && ch.PlainEnc {
						kind = "dict-fallback"
					} else if ch.DictEnc {
						kind = "dict-pages"
					}
					ver := "v2"
					if cs.V1 {
						ver = "v1"
					}
					when := "inline"
					if cs.Deferred {
						when = "deferred"
					}
					c.Case(fmt.Sprintf("enc/%s-footer/%s/%s/%s", cs.Enc.Footer, own, cs.Path, ver), fmt.Sprintf("%s|%d|%d", cs.key(), g, ci), len(seen) >= 2)
					c.Res.Buckets["enc/pages/"+ver+"/"+kind]++
					c.Res.Buckets[fmt.Sprintf("enc/%s-footer/filters-%s", cs.Enc.Footer, when)]++
					c.Res.Buckets["enc/type/"+col.Type+"/"+col.Enc]++
				}
			}
		}
		off += n
	}
	if !ok {
		return false
	}
	if unordered {
		// every value handed to the writer is stored in some chunk of its column
		for ci, col := range cs.Cols {
			if col.Bits == 0 || (one >= 0 && one != ci) {
				continue
			}
			count := map[string]int{}
			for r := range cs.Rows {
				for _, v := range cs.Rows[r][ci] {
					count[string(unhex(v))]++
				}
			}
			for _, ch := range chunks {
				if ch.Col == ci {
					for _, b := range ch.Orig {
						count[string(b)]--
					}
				}
			}
			for v, k := range count {
				if k != 0 {
					fail("value-count", fmt.Sprintf("path %s, column %d (%s): value %x written %+d times more than it is stored in the file", cs.Path, ci, col.Type, v, k))
					return false
				}
			}
		}
	}
	// the same file under every other way of opening it and of obtaining the filters
	for _, o := range cs.Opens {
		if !c07VerifyOpen(rep, cs, data, o, chunks) {
			return false
		}
	}
	return ok
}

// c07VerifyOpen re-opens the file under one option set and evaluates the
// property on the filters obtained that way: every value handed to the writer
// for a chunk must be reported present; the filter must expose the bytes it
// exposed under the default options.
func c07VerifyOpen(rep *c07Rep, cs *c07File, data []byte, o c07Open, chunks []*c07Chunk) (ok bool) {
	c := rep.c
	defer func(t time.Time) { c07OpenTime += time.Since(t) }(time.Now())
	ok = true
	fail := func(class, what string) {
		ok = false
		rep.violation(class, what, cs)
	}
	defer func() {
		if r := recover(); r != nil {
			fail("read-panic", fmt.Sprintf("opened with %v: %v", o, r))
		}
	}()
	f, done, err := o.open(data, cs.readOptions()...)
	if err != nil {
		fail("file-open-error", fmt.Sprintf("the written file cannot be opened with %v: %v", o, err))
		return false
	}
	defer done()
	rgs := f.RowGroups()
	var multi parquet.RowGroup
	if o.Via == "multi" {
		if len(rgs) == 0 {
			return true
		}
		multi = parquet.MultiRowGroup(rgs...)
		// the filter of the concatenated column answers for the chunks that have
		// a filter: it is only comparable when every chunk with values has one
		for _, ch := range chunks {
			if len(ch.Distinct) > 0 && !ch.HasFilter {
				return true
			}
		}
	}
	other := bytes.NewReader(data)
	multiBytes := map[int][]byte{}
	for _, ch := range chunks {
		if !ch.HasFilter || ch.RowGroup >= len(rgs) {
			continue
		}
		col := cs.Cols[ch.Col]
		var bf parquet.BloomFilter
		switch o.Via {
		case "multi":
			bf = multi.ColumnChunks()[ch.Col].BloomFilter()
			if _, seen := multiBytes[ch.Col]; !seen {
				var all []byte
				for _, x := range chunks {
					if x.Col == ch.Col {
						all = append(all, x.Stored...)
					}
				}
				multiBytes[ch.Col] = all
			}
		case "from":
			fc, isFile := rgs[ch.RowGroup].ColumnChunks()[ch.Col].(*parquet.FileColumnChunk)
			if !isFile {
				continue
			}
			ff, ferr := fc.BloomFilterFrom(other)
			if ferr != nil {
				fail("filter-missing", fmt.Sprintf("opened with %v: row group %d column %d: BloomFilterFrom: %v", o, ch.RowGroup, ch.Col, ferr))
				return false
			}
			bf = ff
		default:
			bf = rgs[ch.RowGroup].ColumnChunks()[ch.Col].BloomFilter()
		}
		if bf == nil && o.Via == "multi" {
			// a concatenation has a filter only when every one of its chunks has one (a chunk
			// without filter may hold any value; repair b389733): no filter is then the right answer
			allHave := true
			for _, x := range chunks {
				if x.Col == ch.Col && !x.HasFilter {
					allHave = false
				}
			}
			if !allHave {
				c.Case("multi/no-filter-because-a-chunk-has-none", fmt.Sprintf("%d", ch.Col), true)
				continue
			}
		}
		if bf == nil {
			fail("filter-missing", fmt.Sprintf("opened with %v: row group %d column %d has no filter, although it has one under the default options", o, ch.RowGroup, ch.Col))
			return false
		}
		for _, b := range ch.Distinct {
			if rep.record {
				c.Res.Evaluations++
			}
			var res bool
			var cerr error
			func() {
				defer func() {
					if r := recover(); r != nil {
						cerr = fmt.Errorf("panic: %v", r)
					}
				}()
				res, cerr = bf.Check(col.value(b))
			}()
			if cerr != nil {
				fail("check-error", fmt.Sprintf("opened with %v: row group %d column %d (%s): Check failed: %v", o, ch.RowGroup, ch.Col, col.Type, cerr))
				return false
			}
			if !res {
				fail("written-value-absent", fmt.Sprintf("path %s, opened with %v: row group %d, column %d (%s %s %s, %d bits/value): value %x was written but BloomFilter.Check answers false (filter of %d bytes; present under the default options)",
					cs.Path, o, ch.RowGroup, ch.Col, col.Type, col.Rep, col.Enc, col.Bits, b, bf.Size()))
				return false
			}
		}
		// the bytes
		want := ch.Stored
		if o.Via == "multi" {
			want = multiBytes[ch.Col]
		}
		got := make([]byte, bf.Size())
		if _, err := bf.ReadAt(got, 0); err != nil && err != io.EOF && len(got) > 0 {
			fail("filter-read-error", fmt.Sprintf("opened with %v: %v", o, err))
			return false
		}
		if !bytes.Equal(got, want) {
			rep.mismatch("corr:C07.filter_by_open_mode", fmt.Sprintf("path %s rg %d col %d %s opened with %v", cs.Path, ch.RowGroup, ch.Col, col.tyTok(), o), core.Trunc(core.Hexs(got), 600), core.Trunc(core.Hexs(want), 600), cs)
			return false
		}
	}
	if rep.record {
		c.Case("open/"+o.load()+"/"+o.bufClass(), cs.key()+"|"+o.String(), true)
		for name, on := range map[string]bool{"optimistic": o.Optimistic, "async": o.Async, "no-page-index": o.NoIndex, "reader-" + o.Reader: o.Reader != "", "via-" + o.Via: o.Via != ""} {
			if on {
				c.Res.Buckets["open/"+name]++
			}
		}
	}
	return ok
}

func splitPages(vals [][]byte, n int) [][][]byte {
	var out [][][]byte
	for i := 0; i < len(vals); i += n {
		j := i + n
		if j > len(vals) {
			j = len(vals)
		}
		out = append(out, vals[i:j])
	}
	return out
}

func pagesTok(col c07Col, pages [][][]byte) string {
	var sb strings.Builder
	first := true
	for _, p := range pages {
		if len(p) == 0 {
			continue
		}
		if !first {
			sb.WriteByte(';')
		}
		first = false
		for i, b := range p {
			if i > 0 {
				sb.WriteByte(',')
			}
			sb.WriteString(col.valTok(b))
		}
	}
	if first {
		return "_"
	}
	return sb.String()
}

var c07VmFiles []string

// c07Model compares the stored filter with the model's filter of the chunk's
// values, the sizing with NumSplitBlocksOf where it is known, and Check with
// the model's file_check for present and absent probes.
var c07ModelTime, c07WriteTime, c07OpenTime time.Duration

func c07Model(rep *c07Rep, cs *c07File, col c07Col, ch *c07Chunk, copied int64, check func([]byte) (bool, bool)) {
	c := rep.c
	defer func(t time.Time) { c07ModelTime += time.Since(t) }(time.Now())
	if !c.HasOracle() || rep.noModel {
		return
	}
	nblocks := len(ch.Filter) / 32
	var all [][]byte
	for _, p := range ch.Pages {
		all = append(all, p...)
	}
	if len(all) == 0 {
		return
	}
	// distinct values, in order of first occurrence
	var distinct [][]byte
	seen := map[string]bool{}
	for _, b := range all {
		if !seen[string(b)] {
			seen[string(b)] = true
			distinct = append(distinct, b)
		}
	}
	limit := c.N(300, 1500)
	if cs.Path == "history" {
		// (the histories add many chunks; the quick tier compares the smaller ones
		// with the model, the property predicate is evaluated on all of them)
		limit = c.N(100, 1500)
	}
	if len(distinct) > limit {
		return
	}
	pages := splitPages(distinct, 200)
	if col.Type == "bool" {
		// the keys of a boolean page come from its packed bytes: a page of eight
		// equal values yields exactly that key; padding bits of a partial byte (or
		// bits of neighbouring rows of a sliced page) may add the key of false
		pages = nil
		for _, b := range distinct {
			pages = append(pages, [][]byte{b, b, b, b, b, b, b, b})
		}
	}
	want := c.Ask(fmt.Sprintf("c07.build %s %d %s", col.tyTok(), nblocks, pagesTok(col, pages)))
	got := core.Hexs(ch.Filter)
	if want != got {
		accept := false
		if col.Type == "bool" {
			both := c.Ask(fmt.Sprintf("c07.build bool %d 0,1", nblocks))
			accept = both == got
		}
		if !accept {
			rep.mismatch("corr:C07.file_filter", fmt.Sprintf("path %s rg %d col %d %s n=%d values=%s", cs.Path, ch.RowGroup, ch.Col, col.tyTok(), nblocks, core.Trunc(pagesTok(col, pages), 400)), got, want, cs)
			return
		}
	} else if rep.record && len(c07VmFiles) < 12 && len(distinct) <= 24 && nblocks <= 4 {
		var ps []string
		for _, p := range pages {
			var vs []string
			for _, b := range p {
				vs = append(vs, col.coqValue(b))
			}
			ps = append(ps, core.CoqList(vs))
		}
		c07VmFiles = append(c07VmFiles, fmt.Sprintf("(%s, %d%%nat, %s, %s)", col.coqType(), nblocks, core.CoqList(ps), core.CoqBytes(ch.Filter)))
	}
	// sizing, where the writer's rule is known
	if cs.Path == "rows" || cs.Path == "copyrows" {
		nv := ch.NumVals
		rule := "NumValues of the chunk"
		// a dictionary column sizes the filter for the dictionary, unless it fell
		// back to PLAIN (DictionaryMaxBytes): then for all the values
		if col.Enc == "dict" && ch.DictEnc && !ch.PlainEnc {
			if col.Type == "f32" || col.Type == "f64" || cs.DictMax > 0 {
				// (with a dictionary limit the fallback may have been decided at the last
				// page: the filter is then sized for all the values although no PLAIN page follows)
				nv = -1
			} else {
				nv, rule = int64(len(distinct)), "number of dictionary entries"
			}
		}
		if nv >= 0 {
			m := c.Ask(fmt.Sprintf("c07.nblocks %x %x", uint64(nv), col.Bits))
			if m != fmt.Sprintf("%x", nblocks) {
				rep.mismatch("corr:C07.file_filter_size", fmt.Sprintf("path %s col %s enc %s: %s = %d, %d bits/value", cs.Path, col.tyTok(), col.Enc, rule, nv, col.Bits), fmt.Sprintf("%x", nblocks), m, cs)
			}
		}
	}
	// Check == model check, present and absent probes
	var probes [][]byte
	for i, b := range distinct {
		if i < 6 {
			probes = append(probes, b)
		}
	}
	for k := 0; k < 10; k++ {
		probes = append(probes, col.absent(k+ch.Col*16+ch.RowGroup*256))
	}
	var toks, impl []string
	for _, p := range probes {
		res, valid := check(p)
		if !valid {
			return
		}
		toks = append(toks, col.valTok(p))
		impl = append(impl, b01(res))
	}
	model := c.Ask(fmt.Sprintf("c07.filecheck %s %s %s", col.tyTok(), got, strings.Join(toks, ",")))
	if model != strings.Join(impl, ",") {
		rep.mismatch("corr:C07.file_check", fmt.Sprintf("col %s filter %s probes %s", col.tyTok(), core.Trunc(got, 300), strings.Join(toks, ",")), strings.Join(impl, ","), model, cs)
	}
}

func b01(b bool) string {
	if b {
		return "1"
	}
	return "0"
}

// key identifies a file case (hash of its JSON is taken by core.Case).
func (cs *c07File) key() string {
	if cs.keyCache == "" {
		h, _ := json.Marshal(cs)
		cs.keyCache = string(h)
	}
	return cs.keyCache
}

func c07RunFile(rep *c07Rep, cs *c07File, one int) bool {
	t := time.Now()
	data, copied, err := c07Write(cs)
	c07WriteTime += time.Since(t)
	if err != nil {
		rep.violation("file-write-error", fmt.Sprintf("path %s: %v", cs.Path, err), cs)
		return false
	}
	if cs.Path == "history" && rep.record {
		pending := false
		for _, st := range cs.Steps {
			rep.c.Res.Buckets["history/step/"+st.Op]++
			if pending {
				rep.c.Res.Buckets["history/rows-pending-then/"+st.Op]++
			}
			pending = st.Op == "rows" || st.Op == "copyrows" || st.Op == "readfrom"
		}
		if pending {
			rep.c.Res.Buckets["history/rows-pending-then/close"]++
		}
		if cs.Reset > 0 {
			rep.c.Res.Buckets["history/after-reset"]++
		}
		if copied > 0 {
			rep.c.Res.Buckets["history/chunks-copied-verbatim"] += int(copied)
		}
	}
	if cs.Enc != nil && rep.record {
		rep.c.Res.Buckets["enc/where/"+cs.Enc.Where+"/"+cs.Path]++
		if cs.Enc.src() && !cs.Enc.dst() && copied > 0 {
			// (ciphertext must not be spliced into a plaintext file; if it were, the
			// predicate below fails on the copied filters and pages)
			rep.c.Res.Buckets["enc/chunks-copied-verbatim-from-encrypted-source"] += int(copied)
		}
	}
	if cs.Path == "copy" && copied > 0 && rep.record {
		rep.c.Res.Buckets["file/chunks-copied-verbatim"] += int(copied)
	}
	return c07Verify(rep, cs, data, copied, one)
}

// c07FileCase runs a file case once; a failing case is shrunk (keeping the
// class of its first failure) and the shrunk case is reported.
func c07FileCase(c *core.Ctx, cs *c07File) bool { return c07FileCaseOpt(c, cs, false) }

func c07FileCaseOpt(c *core.Ctx, cs *c07File, noModel bool) bool {
	first := &c07Rep{c: c, collect: true, record: true, noModel: noModel}
	c07RunFile(first, cs, -1)
	if len(first.failed) == 0 {
		return true
	}
	if c07Shrunk[first.failed[0]] {
		// one shrunk replay per class of failure; further cases are reported as they are
		c07RunFile(&c07Rep{c: c}, cs, -1)
		return false
	}
	c07Shrunk[first.failed[0]] = true
	min := c07Shrink(c, cs, first.failed[0])
	c07RunFile(&c07Rep{c: c}, min, -1)
	return false
}

var c07Shrunk = map[string]bool{}

func c07Shrink(c *core.Ctx, cs *c07File, class string) *c07File {
	deadline := time.Now().Add(25 * time.Second)
	fails := func(t *c07File) bool {
		if time.Now().After(deadline) {
			return false
		}
		t.keyCache = ""
		rep := &c07Rep{c: c, collect: true}
		c07RunFile(rep, t, -1)
		for _, f := range rep.failed {
			if f == class {
				return true
			}
		}
		return false
	}
	cur := *cs
	// one column
	if len(cur.Cols) > 1 {
		for ci := range cur.Cols {
			t := cur
			t.Cols = []c07Col{cur.Cols[ci]}
			t.Rows = make([][][]string, len(cur.Rows))
			for r := range cur.Rows {
				t.Rows[r] = [][]string{cur.Rows[r][ci]}
			}
			if fails(&t) {
				cur = t
				break
			}
		}
	}
	// one way of opening the file, then its plainest form
	if len(cur.Opens) > 0 {
		t := cur
		t.Opens = nil
		if fails(&t) {
			cur = t
		} else {
			for _, o := range cur.Opens {
				t := cur
				t.Opens = []c07Open{o}
				if fails(&t) {
					cur = t
					break
				}
			}
		}
	}
	if len(cur.Opens) == 1 {
		for _, f := range []func(o *c07Open){
			func(o *c07Open) { o.Via = "" },
			func(o *c07Open) { o.Reader = "" },
			func(o *c07Open) { o.Async = false },
			func(o *c07Open) { o.NoIndex = false },
			func(o *c07Open) { o.Optimistic = false },
			func(o *c07Open) { o.Skip = false },
			func(o *c07Open) { o.Prefetch = false },
			func(o *c07Open) { o.Buf = 0 },
		} {
			t := cur
			o := cur.Opens[0]
			f(&o)
			t.Opens = []c07Open{o}
			if fails(&t) {
				cur = t
			}
		}
	}
	// a shorter history: no Reset, steps dropped with their rows
	if cur.Path == "history" {
		for _, f := range []func(t *c07File){
			func(t *c07File) { t.Reset, t.ResetMode = 0, "" },
			func(t *c07File) { t.Reenc = false },
			func(t *c07File) { t.SrcBits = false },
		} {
			t := cur
			f(&t)
			if fails(&t) {
				cur = t
			}
		}
		for si := len(cur.Steps) - 1; si >= 0 && len(cur.Steps) > 1; si-- {
			lo := 0
			for _, st := range cur.Steps[:si] {
				if st.Op != "flush" {
					lo += st.N
				}
			}
			n := cur.Steps[si].N
			if cur.Steps[si].Op == "flush" {
				n = 0
			}
			if lo+n > len(cur.Rows) {
				n = len(cur.Rows) - lo
			}
			if n < 0 || len(cur.Rows)-n < 1 {
				continue
			}
			t := cur
			t.Steps = append(append([]c07Step(nil), cur.Steps[:si]...), cur.Steps[si+1:]...)
			t.Rows = append(append([][][]string(nil), cur.Rows[:lo]...), cur.Rows[lo+n:]...)
			if fails(&t) {
				cur = t
			}
		}
		for si := range cur.Steps {
			if cur.Steps[si].Parts > 2 {
				t := cur
				t.Steps = append([]c07Step(nil), cur.Steps...)
				t.Steps[si].Parts = 2
				if fails(&t) {
					cur = t
				}
			}
		}
	}
	// no encryption, or its plainest form
	if cur.Enc != nil {
		t := cur
		t.Enc = nil
		if fails(&t) {
			cur = t
		} else {
			for _, f := range []func(e *c07Enc){
				func(e *c07Enc) { e.Where = "dst" },
				func(e *c07Enc) { e.Keys = "footer" },
				func(e *c07Enc) { e.Footer = "encrypted" },
				func(e *c07Enc) { e.Prefix = false },
				func(e *c07Enc) { e.Ident = false },
				func(e *c07Enc) { e.KeyLen = 16 },
			} {
				t := cur
				e := *cur.Enc
				f(&e)
				t.Enc = &e
				if fails(&t) {
					cur = t
				}
			}
		}
	}
	// simpler configuration
	for _, f := range []func(t *c07File){
		func(t *c07File) { t.Flush = nil },
		func(t *c07File) { t.MaxRows = 0 },
		func(t *c07File) { t.Gzip = false },
		func(t *c07File) { t.Deferred = false },
		func(t *c07File) { t.Prefetch = false },
		func(t *c07File) { t.V1 = false },
		func(t *c07File) { t.Codec = "" },
		func(t *c07File) { t.DstCodec = "" },
		func(t *c07File) { t.SrcBits = false },
		func(t *c07File) { t.Path = "rows" },
		func(t *c07File) { t.PageBuf = 0 },
		func(t *c07File) { t.DictMax = 0 },
	} {
		t := cur
		f(&t)
		if fails(&t) {
			cur = t
		}
	}
	// fewer rows
	for chunk := len(cur.Rows) / 2; chunk >= 1; chunk /= 2 {
		for i := 0; i+chunk <= len(cur.Rows); {
			if len(cur.Rows)-chunk < 1 {
				break
			}
			t := cur
			t.Rows = append(append([][][]string(nil), cur.Rows[:i]...), cur.Rows[i+chunk:]...)
			t.Flush = nil
			for _, f := range cur.Flush {
				if f <= i {
					t.Flush = append(t.Flush, f)
				} else if f >= i+chunk {
					t.Flush = append(t.Flush, f-chunk)
				}
			}
			if len(cur.Steps) > 0 {
				// the steps keep the rows that are left of theirs
				t.Steps = append([]c07Step(nil), cur.Steps...)
				lo := 0
				for si := range t.Steps {
					if t.Steps[si].Op == "flush" {
						continue
					}
					hi := lo + t.Steps[si].N
					a, b := max(lo, i), min(hi, i+chunk)
					if b > a {
						t.Steps[si].N -= b - a
					}
					lo = hi
				}
			}
			if fails(&t) {
				cur = t
			} else {
				i += chunk
			}
		}
	}
	return &cur
}

// ---------------------------------------------------------------- generators

func c07GenValue(c *core.Ctx, col c07Col, domain int) []byte {
	r := c.Rng
	pick := r.Intn(domain)
	switch col.Type {
	case "bool":
		return []byte{byte(pick & 1)}
	case "i32":
		special := []uint32{0, 1, 0xFFFFFFFF, 0x80000000, 0x7FFFFFFF, 255, 256}
		if pick < len(special) {
			return binary.LittleEndian.AppendUint32(nil, special[pick])
		}
		return binary.LittleEndian.AppendUint32(nil, uint32(pick)*2654435761)
	case "i64":
		special := []uint64{0, 1, math.MaxUint64, 1 << 63, 1<<63 - 1, 1 << 32}
		if pick < len(special) {
			return binary.LittleEndian.AppendUint64(nil, special[pick])
		}
		return binary.LittleEndian.AppendUint64(nil, uint64(pick)*0x9E3779B97F4A7C15)
	case "f32":
		special := []uint32{0, 0x80000000, 0x7FC00000, 0x7F800000, 0xFF800000, 0x3F800000, 0x7FC00001}
		if pick < len(special) {
			return binary.LittleEndian.AppendUint32(nil, special[pick])
		}
		return binary.LittleEndian.AppendUint32(nil, math.Float32bits(float32(pick)*1.25))
	case "f64":
		special := []uint64{0, 1 << 63, 0x7FF8000000000000, 0x7FF0000000000000, 0xFFF0000000000000, 0x3FF0000000000000}
		if pick < len(special) {
			return binary.LittleEndian.AppendUint64(nil, special[pick])
		}
		return binary.LittleEndian.AppendUint64(nil, math.Float64bits(float64(pick)*1.25))
	case "i96":
		b := make([]byte, 12)
		binary.LittleEndian.PutUint64(b, uint64(pick)*0x9E3779B97F4A7C15)
		binary.LittleEndian.PutUint32(b[8:], uint32(pick)*40503)
		return b
	case "ba":
		lens := []int{0, 1, 3, 4, 7, 8, 9, 15, 16, 17, 31, 32, 33, 40, 64, 100}
		n := lens[pick%len(lens)]
		b := make([]byte, n)
		for i := range b {
			b[i] = byte(pick*131 + i*17 + pick/len(lens))
		}
		return b
	}
	b := make([]byte, col.Size)
	for i := range b {
		b[i] = byte(pick*29 + i*13)
	}
	if pick == 0 {
		for i := range b {
			b[i] = 0xFF
		}
	}
	return b
}

func c07GenCol(c *core.Ctx, typ string) c07Col {
	r := c.Rng
	col := c07Col{Type: typ, Rep: []string{"required", "optional", "optional", "repeated"}[r.Intn(4)]}
	bits := []uint{1, 2, 5, 8, 10, 10, 10, 16, 32}
	col.Bits = bits[r.Intn(len(bits))]
	encs := []string{"plain", "dict"}
	switch typ {
	case "i32", "i64":
		encs = append(encs, "delta", "split")
	case "f32", "f64":
		encs = append(encs, "split")
	case "ba":
		encs = append(encs, "dlba", "dba")
		col.UUID = r.Intn(2) == 0 // string logical type
	case "flba":
		sizes := []int{1, 3, 8, 12, 16, 16, 16, 20, 32, 33}
		col.Size = sizes[r.Intn(len(sizes))]
		col.UUID = col.Size == 16 && r.Intn(2) == 0
		encs = append(encs, "split", "dba")
	case "bool":
		encs = []string{"plain", "plain", "dict"}
	case "i96":
		encs = []string{"plain", "dict"}
	}
	col.Enc = encs[r.Intn(len(encs))]
	return col
}

var c07Types = []string{"bool", "i32", "i64", "i96", "f32", "f64", "ba", "flba"}

// c07GenRows generates n rows; domain > 0 fixes the size of the value domain
// of every column (otherwise it is drawn per column).
func c07GenRows(c *core.Ctx, cols []c07Col, n, domain int) [][][]string {
	r := c.Rng
	rows := make([][][]string, n)
	domains := make([]int, len(cols))
	for i := range cols {
		domains[i] = []int{2, 5, 20, 200, 5000}[r.Intn(5)]
		if domain > 0 {
			domains[i] = domain
		}
	}
	for i := range rows {
		rows[i] = make([][]string, len(cols))
		for ci, col := range cols {
			var vals []string
			switch col.Rep {
			case "required":
				vals = []string{hex.EncodeToString(c07GenValue(c, col, domains[ci]))}
			case "optional":
				if r.Intn(4) != 0 {
					vals = []string{hex.EncodeToString(c07GenValue(c, col, domains[ci]))}
				}
			default:
				for k := r.Intn(4); k > 0; k-- {
					vals = append(vals, hex.EncodeToString(c07GenValue(c, col, domains[ci])))
				}
			}
			if vals == nil {
				vals = []string{}
			}
			rows[i][ci] = vals
		}
	}
	return rows
}

func c07GenFile(c *core.Ctx, i int) *c07File {
	r := c.Rng
	cs := &c07File{Kind: "file"}
	// every type appears in every file in a random configuration
	for _, t := range c07Types {
		cs.Cols = append(cs.Cols, c07GenCol(c, t))
	}
	if r.Intn(3) == 0 {
		cs.Cols = append(cs.Cols, c07GenCol(c, c07Types[r.Intn(len(c07Types))]))
	}
	// a column without a filter next to columns with one
	if r.Intn(4) == 0 {
		cs.Cols[r.Intn(len(cs.Cols))].Bits = 0
	}
	n := []int{1, 8, 9, 40, 130, 300, 700}[r.Intn(7)]
	if !c.Quick() && r.Intn(6) == 0 {
		n = 2500
	}
	cs.Rows = c07GenRows(c, cs.Cols, n, 0)
	paths := []string{"rows", "rows", "buffer", "copy", "reencode", "concat", "copyrows"}
	cs.Path = paths[i%len(paths)]
	cs.Batch = []int{1, 7, 64, 1000}[r.Intn(4)]
	for k := r.Intn(4); k > 0 && n > 1; k-- {
		cs.Flush = append(cs.Flush, 1+r.Intn(n-1))
	}
	sort.Ints(cs.Flush)
	cs.PageBuf = []int{0, 64, 256, 4096}[r.Intn(4)]
	if r.Intn(3) == 0 {
		cs.MaxRows = int64(1 + r.Intn(n))
	}
	cs.V1 = r.Intn(3) == 0
	cs.Codec = []string{"", "snappy", "zstd", "gzip"}[r.Intn(4)]
	cs.DstCodec = []string{"", "snappy", "zstd"}[r.Intn(3)]
	if cs.DstCodec == cs.Codec {
		cs.DstCodec = "gzip"
	}
	cs.Gzip = r.Intn(4) == 0
	cs.Deferred = r.Intn(4) == 0
	cs.Prefetch = r.Intn(3) == 0
	cs.SrcBits = r.Intn(3) != 0
	if r.Intn(5) == 0 {
		// dictionary columns fall back to PLAIN once the dictionary outgrows the limit
		cs.DictMax = []int64{16, 64, 256, 2048}[r.Intn(4)]
	}
	if r.Intn(4) == 0 {
		cs.Enc = c07GenEnc(c)
	}
	cs.Opens = c07GenOpens(c, false)
	return cs
}

// c07GenOpens: every file is re-opened with its filters loaded in each of the
// three ways (header parsed at open and bits read by Check, bits prefetched at
// open, nothing at open and everything on the first BloomFilter call) plus one
// more draw; read buffer size (smaller than any filter .. larger than the
// file), optimistic reads, async mode, page index, reader kind and the way
// the filter is reached are drawn independently for each.
func c07GenOpens(c *core.Ctx, big bool) []c07Open {
	r := c.Rng
	var out []c07Open
	for k := 0; k < 4; k++ {
		o := c07Open{Prefetch: k == 1 || (k == 3 && r.Intn(2) == 0), Skip: k == 2 || (k == 3 && r.Intn(3) == 0)}
		o.Buf = []int{0, 0, 16, 64, 512, 1 << 20}[r.Intn(6)]
		if big {
			// filters of several KiB against the default 4 KiB buffer and its neighbours
			o.Buf = []int{0, 0, 0, 512, 8192, 1 << 20}[r.Intn(6)]
		}
		o.Optimistic = r.Intn(3) == 0
		o.Async = r.Intn(5) == 0
		o.NoIndex = r.Intn(5) == 0
		o.Reader = []string{"", "", "", "eof", "eof", "file"}[r.Intn(6)]
		o.Via = []string{"", "", "", "from", "multi"}[r.Intn(5)]
		out = append(out, o)
	}
	return out
}

// the operations that leave rows pending in the writer, and those that may follow
var c07PendingOps = []string{"rows", "copyrows", "readfrom"}
var c07NextOps = []string{"flush", "rows", "buffer", "concurrent", "file", "multi", "merge", "sortmerge", "multibuf", "close"}

// c07GenSteps draws a history over n rows. pair >= 0 fixes the first two
// steps to the pair-th combination (pending operation, following operation).
func c07GenSteps(c *core.Ctx, n, pair int) []c07Step {
	r := c.Rng
	var steps []c07Step
	left := n
	add := func(op string, last bool) {
		if op == "flush" {
			steps = append(steps, c07Step{Op: op})
			return
		}
		if left == 0 {
			return
		}
		m := left
		if !last && left > 1 {
			m = 1 + r.Intn(left)
			if r.Intn(2) == 0 {
				m = 1 + r.Intn(1+left/2)
			}
		}
		st := c07Step{Op: op, N: m, Parts: 1 + r.Intn(3)}
		if op == "sortmerge" {
			st.Parts, st.Mix = 2+r.Intn(3), r.Intn(3)
		}
		steps = append(steps, st)
		left -= m
	}
	if pair >= 0 {
		add(c07PendingOps[pair%len(c07PendingOps)], false)
		next := c07NextOps[(pair/len(c07PendingOps))%len(c07NextOps)]
		if next == "close" {
			steps[0].N, left = n, 0
			return steps
		}
		add(next, false)
	}
	ops := []string{"rows", "rows", "rows", "copyrows", "readfrom", "flush", "buffer", "concurrent", "file", "multi", "multi", "merge", "sortmerge", "multibuf"}
	for k := r.Intn(4); k > 0 && left > 0; k-- {
		add(ops[r.Intn(len(ops))], k == 1 && r.Intn(2) == 0)
	}
	return steps // rows left over are written with WriteRows before Close
}

// c07GenHistory: a file produced by a history of calls on one writer. The
// columns are a draw of three to five types so that many histories can run.
func c07GenHistory(c *core.Ctx, i int) *c07File {
	r := c.Rng
	cs := &c07File{Kind: "file", Path: "history"}
	perm := r.Perm(len(c07Types))
	for _, t := range perm[:3+r.Intn(3)] {
		cs.Cols = append(cs.Cols, c07GenCol(c, c07Types[t]))
	}
	if r.Intn(5) == 0 {
		cs.Cols[r.Intn(len(cs.Cols))].Bits = 0
	}
	n := []int{2, 9, 40, 130, 300, 700}[r.Intn(6)]
	cs.Rows = c07GenRows(c, cs.Cols, n, 0)
	cs.Steps = c07GenSteps(c, n, i)
	cs.Batch = []int{1, 7, 64, 1000}[r.Intn(4)]
	// small pages: rows left pending have already produced pages
	cs.PageBuf = []int{0, 64, 64, 256, 256, 4096}[r.Intn(6)]
	if r.Intn(4) == 0 {
		cs.MaxRows = int64(1 + r.Intn(n))
	}
	cs.V1 = r.Intn(3) == 0
	cs.Codec = []string{"", "snappy", "zstd", "gzip"}[r.Intn(4)]
	cs.DstCodec = []string{"", "snappy", "zstd"}[r.Intn(3)]
	if cs.DstCodec == cs.Codec {
		cs.DstCodec = "gzip"
	}
	cs.Reenc = r.Intn(3) == 0
	cs.Gzip = r.Intn(4) == 0
	cs.Deferred = r.Intn(4) == 0
	cs.Prefetch = r.Intn(3) == 0
	cs.SrcBits = r.Intn(3) != 0
	if r.Intn(6) == 0 {
		cs.DictMax = []int64{16, 64, 256, 2048}[r.Intn(4)]
	}
	if r.Intn(4) == 0 {
		cs.Reset = 1 + r.Intn(n)
		cs.ResetMode = []string{"pending", "flushed", "closed"}[r.Intn(3)]
	}
	if r.Intn(4) == 0 {
		cs.Enc = c07GenEnc(c)
		if cs.Enc.dst() {
			c07EncNoConcurrent(cs.Steps)
		}
	}
	cs.Opens = c07GenOpens(c, false)
	return cs
}

// c07GenBig: one or two columns with thousands of distinct values, so that the
// filters (several KiB, up to tens of KiB at 32 bits per value) are larger
// than the default read buffer and than several pages.
func c07GenBig(c *core.Ctx, i int) *c07File {
	r := c.Rng
	cs := &c07File{Kind: "file"}
	perm := r.Perm(len(c07Types))
	for _, t := range perm[:1+r.Intn(2)] {
		typ := c07Types[t]
		if typ == "bool" {
			typ = "i64"
		}
		col := c07GenCol(c, typ)
		col.Bits = []uint{10, 10, 16, 32}[r.Intn(4)]
		if col.Rep == "repeated" && r.Intn(2) == 0 {
			col.Rep = "required"
		}
		cs.Cols = append(cs.Cols, col)
	}
	n := 1500 + r.Intn(c.N(3000, 9000))
	cs.Rows = c07GenRows(c, cs.Cols, n, 4*n)
	cs.Path = []string{"rows", "history", "buffer", "copy", "reencode", "concat"}[i%6]
	if cs.Path == "history" {
		cs.Steps = c07GenSteps(c, n, -1)
	}
	cs.Batch = []int{64, 1000}[r.Intn(2)]
	for k := r.Intn(3); k > 0; k-- {
		cs.Flush = append(cs.Flush, 1+r.Intn(n-1))
	}
	sort.Ints(cs.Flush)
	cs.PageBuf = []int{0, 1024, 4096}[r.Intn(3)]
	cs.V1 = r.Intn(3) == 0
	cs.Codec = []string{"", "snappy"}[r.Intn(2)]
	cs.DstCodec = "zstd"
	cs.Gzip = r.Intn(3) == 0
	cs.Deferred = r.Intn(3) == 0
	cs.SrcBits = r.Intn(2) == 0
	if r.Intn(4) == 0 {
		cs.Enc = c07GenEnc(c)
		if cs.Enc.dst() {
			c07EncNoConcurrent(cs.Steps)
		}
	}
	cs.Opens = c07GenOpens(c, true)
	return cs
}

// ---------------------------------------------------------------- (a) hashes

func c07ParseHex(s string) (uint64, bool) {
	v, err := strconv.ParseUint(s, 16, 64)
	return v, err == nil
}

func c07HashCase(c *core.Ctx, hc *c07Hash) bool {
	var impl uint64
	var req string
	ok := true
	switch hc.Kind {
	case "xxh64":
		b := unhex(hc.Bytes)
		impl = xxhash.Sum64(b)
		req = "c07.xxh64 " + core.Hexs(b)
	case "sum8":
		impl = xxhash.Sum64Uint8(uint8(hc.Value))
		req = fmt.Sprintf("c07.sum 8 %x", uint8(hc.Value))
		if ref := xxhash.Sum64([]byte{uint8(hc.Value)}); ref != impl {
			c07Viol(c, "specialised-hash-differs", fmt.Sprintf("Sum64Uint8(%#x)=%#x but Sum64 of its byte = %#x: readers hash the plain bytes", hc.Value, impl, ref), hc)
			ok = false
		}
	case "sum16":
		impl = xxhash.Sum64Uint16(uint16(hc.Value))
		req = fmt.Sprintf("c07.sum 16 %x", uint16(hc.Value))
		if ref := xxhash.Sum64(binary.LittleEndian.AppendUint16(nil, uint16(hc.Value))); ref != impl {
			c07Viol(c, "specialised-hash-differs", fmt.Sprintf("Sum64Uint16(%#x)=%#x but Sum64 of its bytes = %#x", hc.Value, impl, ref), hc)
			ok = false
		}
	case "sum32":
		impl = xxhash.Sum64Uint32(uint32(hc.Value))
		req = fmt.Sprintf("c07.sum 32 %x", uint32(hc.Value))
		if ref := xxhash.Sum64(binary.LittleEndian.AppendUint32(nil, uint32(hc.Value))); ref != impl {
			c07Viol(c, "specialised-hash-differs", fmt.Sprintf("Sum64Uint32(%#x)=%#x but Sum64 of its little-endian bytes = %#x", hc.Value, impl, ref), hc)
			ok = false
		}
	case "sum64":
		impl = xxhash.Sum64Uint64(hc.Value)
		req = fmt.Sprintf("c07.sum 64 %x", hc.Value)
		if ref := xxhash.Sum64(binary.LittleEndian.AppendUint64(nil, hc.Value)); ref != impl {
			c07Viol(c, "specialised-hash-differs", fmt.Sprintf("Sum64Uint64(%#x)=%#x but Sum64 of its little-endian bytes = %#x", hc.Value, impl, ref), hc)
			ok = false
		}
	case "sum128":
		b := unhex(hc.Bytes)
		var a [16]byte
		copy(a[:], b)
		impl = xxhash.Sum64Uint128(a)
		req = "c07.sum128 " + core.Hexs(a[:])
		if ref := xxhash.Sum64(a[:]); ref != impl {
			c07Viol(c, "specialised-hash-differs", fmt.Sprintf("Sum64Uint128(%x)=%#x but Sum64 of the bytes = %#x", a, impl, ref), hc)
			ok = false
		}
	default:
		return true
	}
	if c.HasOracle() {
		ans := c.Ask(req)
		if m, good := c07ParseHex(ans); !good || m != impl {
			if ok {
				c07Mism(c, "corr:C07."+hc.Kind, req, fmt.Sprintf("%x", impl), ans, hc)
			}
			ok = false
		}
	}
	return ok
}

var c07VmHashes []string

func c07Hashes(c *core.Ctx) {
	r := c.Rng
	run := func(hc *c07Hash, bucket string) {
		c07HashCase(c, hc)
		c.Case(bucket, hc.Kind+hc.Bytes+fmt.Sprint(hc.Value), true)
	}
	// every length 0..100, two contents each; then random longer inputs
	var lens []int
	for n := 0; n <= 100; n++ {
		lens = append(lens, n, n)
	}
	for k := c.N(40, 400); k > 0; k-- {
		lens = append(lens, 101+r.Intn(4000))
	}
	for i, n := range lens {
		b := make([]byte, n)
		if i%2 == 0 {
			r.Read(b)
		} else {
			for j := range b {
				b[j] = byte(j*7 + n)
			}
		}
		hc := &c07Hash{Kind: "xxh64", Bytes: hex.EncodeToString(b)}
		run(hc, "hash/xxh64")
		if n <= 100 && i%2 == 0 && n%3 == 0 {
			c07VmHashes = append(c07VmHashes, fmt.Sprintf("(%s, %s)", core.CoqBytes(b), core.CoqN(xxhash.Sum64(b))))
		}
		if i < 2 {
			c.Sample(hc)
		}
	}
	for v := 0; v < 256; v++ {
		run(&c07Hash{Kind: "sum8", Value: uint64(v)}, "hash/sum8")
	}
	edge := []uint64{0, 1, 0xFF, 0x100, 0xFFFF, 0x10000, 0x7FFFFFFF, 0x80000000, 0xFFFFFFFF, 1 << 32, 1<<63 - 1, 1 << 63, math.MaxUint64}
	for i := 0; i < c.N(300, 3000); i++ {
		v := r.Uint64()
		if i < len(edge) {
			v = edge[i]
		}
		run(&c07Hash{Kind: "sum16", Value: v & 0xFFFF}, "hash/sum16")
		run(&c07Hash{Kind: "sum32", Value: v & 0xFFFFFFFF}, "hash/sum32")
		run(&c07Hash{Kind: "sum64", Value: v}, "hash/sum64")
		b := make([]byte, 16)
		r.Read(b)
		if i == 0 {
			b = make([]byte, 16)
		}
		if i == 1 {
			for j := range b {
				b[j] = 0xFF
			}
		}
		run(&c07Hash{Kind: "sum128", Bytes: hex.EncodeToString(b)}, "hash/sum128")
	}
	// the bulk kernels used on the write side (assembly on amd64) against the one-value functions
	for i := 0; i < c.N(200, 2000); i++ {
		n := r.Intn(300)
		if i < 70 {
			n = i
		}
		v8 := make([]uint8, n)
		v16 := make([]uint16, n)
		v32 := make([]uint32, n)
		v64 := make([]uint64, n)
		v128 := make([][16]byte, n)
		for j := 0; j < n; j++ {
			x := r.Uint64()
			v8[j], v16[j], v32[j], v64[j] = uint8(x), uint16(x>>8), uint32(x>>16), x
			r.Read(v128[j][:])
		}
		h := make([]uint64, n+r.Intn(3))
		bad := func(kind string, j int) {
			c07Viol(c, "multi-hash-differs", fmt.Sprintf("MultiSum64%s of %d values differs from Sum64%s at index %d", kind, n, kind, j), map[string]any{"kind": "multi", "width": kind, "n": n, "seed": c.Seed})
		}
		if k := xxhash.MultiSum64Uint8(h, v8); k != n {
			bad("Uint8", -1)
		}
		for j := 0; j < n; j++ {
			if h[j] != xxhash.Sum64Uint8(v8[j]) {
				bad("Uint8", j)
				break
			}
		}
		xxhash.MultiSum64Uint16(h, v16)
		for j := 0; j < n; j++ {
			if h[j] != xxhash.Sum64Uint16(v16[j]) {
				bad("Uint16", j)
				break
			}
		}
		xxhash.MultiSum64Uint32(h, v32)
		for j := 0; j < n; j++ {
			if h[j] != xxhash.Sum64Uint32(v32[j]) {
				bad("Uint32", j)
				break
			}
		}
		xxhash.MultiSum64Uint64(h, v64)
		for j := 0; j < n; j++ {
			if h[j] != xxhash.Sum64Uint64(v64[j]) {
				bad("Uint64", j)
				break
			}
		}
		xxhash.MultiSum64Uint128(h, v128)
		for j := 0; j < n; j++ {
			if h[j] != xxhash.Sum64Uint128(v128[j]) {
				bad("Uint128", j)
				break
			}
		}
		c.Case("hash/multi", fmt.Sprintf("multi %d %d", i, n), n > 0)
	}
}

// ---------------------------------------------------------------- (b) filters

func usTok(xs []uint64) string {
	if len(xs) == 0 {
		return "_"
	}
	ss := make([]string, len(xs))
	for i, x := range xs {
		ss[i] = core.Us(x)
	}
	return strings.Join(ss, ",")
}

func coqNs(xs []uint64) string {
	ss := make([]string, len(xs))
	for i, x := range xs {
		ss[i] = core.CoqN(x)
	}
	return core.CoqList(ss)
}

var c07VmFilters []string

// c07FilterShrink: the smallest case on which the inserted hash h is reported
// absent: h alone in a filter of one block, h alone in a filter of the same
// size, else all the hashes of the case.
func c07FilterShrink(fc *c07Filter, h uint64) c07Filter {
	for _, n := range []int{1, fc.N} {
		min := c07Filter{Kind: "filter", N: n, Bulk: fc.Bulk, Hashes: []uint64{h}, Probes: []uint64{h}}
		failed := false
		func() {
			defer func() {
				if recover() != nil {
					failed = true
				}
			}()
			f := make(bloom.SplitBlockFilter, n)
			if fc.Bulk {
				f.InsertBulk(min.Hashes)
			} else {
				f.Insert(h)
			}
			data := f.Bytes()
			res, err := bloom.CheckSplitBlock(bytes.NewReader(data), int64(len(data)), h)
			failed = !f.Check(h) || err != nil || !res
		}()
		if failed {
			return min
		}
	}
	one := *fc
	one.Probes = []uint64{h}
	return one
}

func c07FilterCase(c *core.Ctx, fc *c07Filter) bool {
	ok := true
	f := make(bloom.SplitBlockFilter, fc.N)
	var panicked string
	func() {
		defer func() {
			if r := recover(); r != nil {
				panicked = fmt.Sprint(r)
			}
		}()
		if fc.Bulk {
			f.InsertBulk(fc.Hashes)
		} else {
			for _, h := range fc.Hashes {
				f.Insert(h)
			}
		}
	}()
	if panicked != "" {
		c07Viol(c, "filter-panic", "insert panicked: "+panicked, fc)
		return false
	}
	data := append([]byte(nil), f.Bytes()...)
	// predicate: every inserted hash checks true, in memory and through the bytes
	for _, h := range fc.Hashes {
		one := c07FilterShrink(fc, h)
		if !f.Check(h) {
			c07Viol(c, "inserted-hash-absent", fmt.Sprintf("hash %#x was inserted in a filter of %d blocks but Check answers false (replay: %d hashes in %d blocks)", h, fc.N, len(one.Hashes), one.N), one)
			ok = false
			break
		}
		if res, err := bloom.CheckSplitBlock(bytes.NewReader(data), int64(len(data)), h); err != nil || !res {
			c07Viol(c, "inserted-hash-absent", fmt.Sprintf("hash %#x was inserted in a filter of %d blocks but CheckSplitBlock answers %v %v (replay: %d hashes in %d blocks)", h, fc.N, res, err, len(one.Hashes), one.N), one)
			ok = false
			break
		}
	}
	if !c.HasOracle() {
		return ok
	}
	want := c.Ask(fmt.Sprintf("c07.filter %d %s", fc.N, usTok(fc.Hashes)))
	if got := core.Hexs(data); got != want {
		if ok {
			c07Mism(c, "corr:C07.filter_bytes", fmt.Sprintf("n=%d bulk=%v hashes=%s", fc.N, fc.Bulk, core.Trunc(usTok(fc.Hashes), 500)), got, want, fc)
		}
		return false
	}
	probes := append(append([]uint64(nil), fc.Probes...), fc.Hashes...)
	if len(probes) > 0 {
		var impl, impl2 []string
		for _, p := range probes {
			impl = append(impl, b01(f.Check(p)))
			res, _ := bloom.CheckSplitBlock(bytes.NewReader(data), int64(len(data)), p)
			impl2 = append(impl2, b01(res))
		}
		m1 := c.Ask(fmt.Sprintf("c07.memcheck %d %s %s", fc.N, usTok(fc.Hashes), usTok(probes)))
		if m1 != strings.Join(impl, ",") {
			c07Mism(c, "corr:C07.filter_check", fmt.Sprintf("n=%d probes=%s", fc.N, core.Trunc(usTok(probes), 500)), strings.Join(impl, ","), m1, fc)
			ok = false
		}
		m2 := c.Ask(fmt.Sprintf("c07.check %s %s", core.Hexs(data), usTok(probes)))
		if m2 != strings.Join(impl2, ",") {
			c07Mism(c, "corr:C07.check_split_block", fmt.Sprintf("n=%d probes=%s", fc.N, core.Trunc(usTok(probes), 500)), strings.Join(impl2, ","), m2, fc)
			ok = false
		}
	}
	return ok
}

func c07Filters(c *core.Ctx) {
	r := c.Rng
	for i := 0; i < c.N(400, 2000); i++ {
		fc := &c07Filter{Kind: "filter", Bulk: i%2 == 0}
		fc.N = []int{1, 1, 2, 3, 7, 8, 16, 33, 100}[r.Intn(9)]
		if i%50 == 49 {
			fc.N = 1000 + r.Intn(3000)
		}
		k := r.Intn(40)
		if i%10 == 0 {
			k = 100 + r.Intn(300) // beyond the 128-entry bulk buffer
		}
		for j := 0; j < k; j++ {
			h := r.Uint64()
			switch r.Intn(12) {
			case 0:
				h |= 0xFFFFFFFF00000000 // last block
			case 1:
				h &= 0x00000000FFFFFFFF // first block
			case 2:
				h = 0
			case 3:
				h = math.MaxUint64
			}
			fc.Hashes = append(fc.Hashes, h)
		}
		for j := 0; j < 12; j++ {
			fc.Probes = append(fc.Probes, r.Uint64())
		}
		c07FilterCase(c, fc)
		key, _ := json.Marshal(fc)
		c.Case("filter/insert-check", string(key), len(fc.Hashes) >= 2)
		if i == 0 {
			c.Sample(fc)
		}
		if len(c07VmFilters) < 40 && fc.N <= 8 && len(fc.Hashes) <= 12 {
			f := make(bloom.SplitBlockFilter, fc.N)
			f.InsertBulk(fc.Hashes)
			var chk []string
			for _, p := range fc.Probes {
				chk = append(chk, core.CoqBool(f.Check(p)))
			}
			c07VmFilters = append(c07VmFilters, fmt.Sprintf("(%d%%nat, %s, %s, %s, %s)", fc.N, coqNs(fc.Hashes), core.CoqBytes(f.Bytes()), coqNs(fc.Probes), core.CoqList(chk)))
		}
	}
	// sizing
	for i := 0; i < c.N(300, 3000); i++ {
		nv := int64(r.Intn(100000))
		bits := uint(r.Intn(40))
		switch i % 7 {
		case 0:
			nv = int64(r.Intn(40))
		case 1:
			nv = r.Int63()
			bits = uint(r.Uint32())
		}
		impl := bloom.NumSplitBlocksOf(nv, bits)
		if c.HasOracle() {
			m := c.Ask(fmt.Sprintf("c07.nblocks %x %x", uint64(nv), bits))
			if m != fmt.Sprintf("%x", uint64(impl)) {
				c07Mism(c, "corr:C07.num_split_blocks", fmt.Sprintf("numValues=%d bits=%d", nv, bits), fmt.Sprintf("%x", uint64(impl)), m, map[string]any{"kind": "nblocks", "num_values": nv, "bits": bits})
			}
		}
		if nv > 0 && nv < 1<<40 && bits > 0 && bits < 64 && impl <= 0 {
			c07Viol(c, "empty-filter-size", fmt.Sprintf("NumSplitBlocksOf(%d, %d) = %d", nv, bits, impl), map[string]any{"kind": "nblocks", "num_values": nv, "bits": bits})
		}
		c.Case("filter/sizing", fmt.Sprintf("%d/%d", nv, bits), true)
	}
}

// splitBlockEncoding.Encode* on page data against the model's hashes_write
func c07EncodeCase(c *core.Ctx, ec *c07Encode) bool {
	enc := parquet.SplitBlockFilter(10, "x").Encoding()
	dst := make([]byte, 32*ec.N)
	data := unhex(ec.Data)
	var err error
	var req string
	var panicked string
	func() {
		defer func() {
			if r := recover(); r != nil {
				panicked = fmt.Sprint(r)
			}
		}()
		switch ec.Type {
		case "bool":
			_, err = enc.EncodeBoolean(dst, data)
			req = fmt.Sprintf("c07.encode bool %d %s", ec.N, core.Hexs(data))
		case "i32", "f32":
			ws := make([]int32, len(ec.Words))
			fs := make([]float32, len(ec.Words))
			for i, w := range ec.Words {
				ws[i] = int32(uint32(w))
				fs[i] = math.Float32frombits(uint32(w))
			}
			if ec.Type == "i32" {
				_, err = enc.EncodeInt32(dst, ws)
			} else {
				_, err = enc.EncodeFloat(dst, fs)
			}
			req = fmt.Sprintf("c07.encode %s %d %s", ec.Type, ec.N, usTok(ec.Words))
		case "i64", "f64":
			ws := make([]int64, len(ec.Words))
			fs := make([]float64, len(ec.Words))
			for i, w := range ec.Words {
				ws[i] = int64(w)
				fs[i] = math.Float64frombits(w)
			}
			if ec.Type == "i64" {
				_, err = enc.EncodeInt64(dst, ws)
			} else {
				_, err = enc.EncodeDouble(dst, fs)
			}
			req = fmt.Sprintf("c07.encode %s %d %s", ec.Type, ec.N, usTok(ec.Words))
		case "i96":
			vs := make([]deprecated.Int96, len(data)/12)
			for i := range vs {
				vs[i] = deprecated.Int96{binary.LittleEndian.Uint32(data[12*i:]), binary.LittleEndian.Uint32(data[12*i+4:]), binary.LittleEndian.Uint32(data[12*i+8:])}
			}
			_, err = enc.EncodeInt96(dst, vs)
			req = fmt.Sprintf("c07.encode i96 %d %s", ec.N, core.Hexs(data[:12*len(vs)]))
		case "ba":
			_, err = enc.EncodeByteArray(dst, data, ec.Offsets)
			offs := make([]string, len(ec.Offsets))
			for i, o := range ec.Offsets {
				offs[i] = strconv.Itoa(int(o))
			}
			req = fmt.Sprintf("c07.encode ba %d %s %s", ec.N, core.Hexs(data), strings.Join(offs, ","))
		case "flba":
			_, err = enc.EncodeFixedLenByteArray(dst, data, ec.Size)
			req = fmt.Sprintf("c07.encode flba %d %d %s", ec.N, ec.Size, core.Hexs(data))
		}
	}()
	if panicked != "" || err != nil {
		c07Viol(c, "encode-error", fmt.Sprintf("splitBlockEncoding.Encode(%s) failed: %v %s", ec.Type, err, panicked), ec)
		return false
	}
	if !c.HasOracle() {
		return true
	}
	want := c.Ask(req)
	if got := core.Hexs(dst); got != want {
		c07Mism(c, "corr:C07.encode_"+ec.Type, core.Trunc(req, 600), got, want, ec)
		return false
	}
	return true
}

var _ encoding.Encoding = parquet.SplitBlockFilter(10, "x").Encoding()

func c07Encodes(c *core.Ctx) {
	r := c.Rng
	types := []string{"bool", "i32", "i64", "i96", "f32", "f64", "ba", "flba"}
	for i := 0; i < c.N(400, 2000); i++ {
		ec := &c07Encode{Kind: "encode", Type: types[i%len(types)], N: []int{1, 2, 5, 16}[r.Intn(4)]}
		k := r.Intn(20)
		if i%9 == 0 {
			k = 120 + r.Intn(200) // crosses the 128-entry buffer
		}
		switch ec.Type {
		case "bool":
			b := make([]byte, r.Intn(6))
			for j := range b {
				b[j] = []byte{0, 0xFF, 0xFF, 0, byte(r.Intn(256)), 1, 0x7F}[r.Intn(7)]
			}
			ec.Data = hex.EncodeToString(b)
		case "i32", "f32":
			for j := 0; j < k; j++ {
				ec.Words = append(ec.Words, uint64(r.Uint32()))
			}
		case "i64", "f64":
			for j := 0; j < k; j++ {
				ec.Words = append(ec.Words, r.Uint64())
			}
		case "i96":
			b := make([]byte, 12*k)
			r.Read(b)
			ec.Data = hex.EncodeToString(b)
		case "ba":
			if k > 150 {
				k = 150
			}
			base := r.Intn(5)
			b := make([]byte, base)
			ec.Offsets = []uint32{uint32(base)}
			for j := 0; j < k; j++ {
				v := make([]byte, []int{0, 1, 4, 7, 8, 13, 32, 40}[r.Intn(8)])
				r.Read(v)
				b = append(b, v...)
				ec.Offsets = append(ec.Offsets, uint32(len(b)))
			}
			b = append(b, make([]byte, r.Intn(3))...)
			ec.Data = hex.EncodeToString(b)
		case "flba":
			ec.Size = []int{1, 3, 12, 16, 16, 20, 33}[r.Intn(7)]
			if k > 150 {
				k = 150
			}
			b := make([]byte, ec.Size*k)
			r.Read(b)
			ec.Data = hex.EncodeToString(b)
		}
		c07EncodeCase(c, ec)
		key, _ := json.Marshal(ec)
		c.Case("encode/"+ec.Type, string(key), true)
	}
}

// ---------------------------------------------------------------- run

func c07Corpus() []*c07File {
	t8 := make([][][]string, 8)
	for i := range t8 {
		t8[i] = [][]string{{"01"}}
	}
	f9 := make([][][]string, 9)
	for i := range f9 {
		f9[i] = [][]string{{"00"}}
	}
	mixed := make([][][]string, 20)
	for i := range mixed {
		mixed[i] = [][]string{{[]string{"00", "01"}[(i/3)%2]}, {fmt.Sprintf("%08x", i*3)}}
	}
	// dictionary column that falls back to PLAIN when the dictionary outgrows its limit
	var fb [][][]string
	for i := 0; i < 200; i++ {
		fb = append(fb, [][]string{{hex.EncodeToString([]byte(fmt.Sprintf("value-%04d", i)))}})
	}
	return []*c07File{
		// the defect repaired by e35cc49: BOOLEAN column, 8 x true
		{Kind: "file", Path: "rows", Cols: []c07Col{{Type: "bool", Rep: "required", Enc: "plain", Bits: 10}}, Rows: t8},
		{Kind: "file", Path: "rows", Cols: []c07Col{{Type: "bool", Rep: "required", Enc: "plain", Bits: 10}}, Rows: f9},
		{Kind: "file", Path: "buffer", Cols: []c07Col{{Type: "bool", Rep: "required", Enc: "plain", Bits: 10}}, Rows: t8},
		{Kind: "file", Path: "rows", Cols: []c07Col{{Type: "bool", Rep: "required", Enc: "dict", Bits: 10}}, Rows: t8},
		{Kind: "file", Path: "buffer", Flush: []int{7}, Cols: []c07Col{{Type: "bool", Rep: "required", Enc: "plain", Bits: 4}, {Type: "i32", Rep: "required", Enc: "plain", Bits: 10}}, Rows: mixed},
		{Kind: "file", Path: "copy", SrcBits: true, Cols: []c07Col{{Type: "bool", Rep: "required", Enc: "plain", Bits: 4}, {Type: "i32", Rep: "required", Enc: "plain", Bits: 10}}, Rows: mixed},
		{Kind: "file", Path: "rows", Batch: 10, PageBuf: 128, DictMax: 64, Cols: []c07Col{{Type: "ba", UUID: true, Rep: "required", Enc: "dict", Bits: 10}}, Rows: fb},
	}
}

func runC07(c *core.Ctx) {
	c.Res.Rule = "(a) xxhash.Sum64 on inputs of every length 0..100 (two contents each) and random lengths up to 4 KiB, Sum64Uint8 on all 256 bytes, Sum64Uint16/32/64/128 on edge and random values, MultiSum64UintK against the one-value functions; (b) SplitBlockFilter Insert/InsertBulk bytes, Check and CheckSplitBlock for present and absent probes, NumSplitBlocksOf, splitBlockEncoding.Encode* on generated page data of every physical type; (c) files with one column of every physical type in a random configuration (required/optional/repeated, plain/dictionary/delta/byte-stream-split encodings, 1..32 bits per value, flba sizes 1..33 and uuid), written through WriteRows, WriteRowGroup(buffer), WriteRowGroup(file row group) on the copy and re-encode paths, MergeRowGroups concatenation and CopyRows, with explicit flushes, MaxRowsPerRowGroup, page versions, codecs, deferred and gzip-compressed filters; files produced by a HISTORY of calls on one writer over 3-5 columns: the first two steps enumerate every pair (operation leaving rows pending: WriteRows, CopyRows, ReadRowsFrom) x (Flush, WriteRows, WriteRowGroup of a buffer, of file row groups one by one, of MultiRowGroup(file row groups), of MergeRowGroups(file row groups) unsorted and sorted on a key column (source row groups with disjoint, partly or entirely overlapping key ranges; the row order of such a file is not that of the case, so the values of a chunk are those read back from it and every written value must be stored in some chunk), of MultiRowGroup(buffers), concurrent row groups begun together and committed in order, Close), followed by up to three drawn steps (the first quarter of these files is also compared with the model, the others evaluate the predicate only), with page buffers of 64 B..4 KiB so that pending rows have produced pages, MaxRowsPerRowGroup, copy or re-encode destination codec, and in a quarter of the cases a writer that first wrote rows to another output (left pending, flushed or closed) and was Reset; files of one or two columns with 1500+ rows over a domain four times larger (filters of 2..40 KiB). ENCRYPTION is one more writer option: a quarter of the files of each of these three families is written with WithEncryption (footer encrypted or plaintext and signed; every column under the footer key, every column under its own key, or odd columns under their own key; keys of 16/24/32 bytes; with and without AAD prefix and given file identifier; the file under test, the source files of the copy / re-encode / merge / history steps, or both being encrypted) and read with WithDecryption, and a grid enumerates (write path: rows, buffer, copy, reencode, concat, copyrows, history) x (footer mode) x (key assignment) x (data page v1, v2) x (filters written with the row group, deferred to the end of the file) over 3-5 drawn columns of every encoding (one grid file in eight is also compared with the model); histories of encrypted files replace the concurrent row group (refused by Commit) by MultiRowGroup(buffers). Every file is verified under the default options (pages read back, model filter, probes) and then re-opened under four option sets: filters loaded from the header at open, prefetched, on demand (SkipBloomFilters), and a fourth draw; each with ReadBufferSize in {default, 16, 64, 512, 1 MiB} (large files: {default, 512, 8 KiB, 1 MiB}), OptimisticRead, ReadModeAsync, SkipPageIndex, reader kind (bytes.Reader, EOF-with-last-byte ReaderAt, *os.File) and access path (ColumnChunk.BloomFilter, BloomFilterFrom(another reader), MultiRowGroup column filter) drawn independently; each must report every written value present and expose the same filter bytes. The whole run is repeated, unchanged, once per version of the hashing and block kernels (bin/props.d/C07.json): default amd64 build with every CPU feature of the machine, -tags purego, GODEBUG=cpu.avx2=off,cpu.avx512*=off (scalar fallbacks of the assembly) in both tiers, AVX-512 off alone and GOEXPERIMENT=simd in the thorough tier; in the quick tier the non-default versions take 120 of the 360 history files and compare neither these nor the encrypted grid with the model (predicate only), everything else in full. A file case is non-trivial when the chunk has at least 2 distinct values; distinct by the JSON of the case."
	c07VariantNote(c)
	// corpus first
	for i, cs := range c07Corpus() {
		c07FileCase(c, cs)
		if i == 0 {
			c.Sample(map[string]any{"kind": "file", "path": cs.Path, "cols": cs.Cols, "rows": "8 x true"})
		}
	}
	t0 := time.Now()
	c07Hashes(c)
	t1 := time.Now()
	c07Filters(c)
	t2 := time.Now()
	c07Encodes(c)
	t3 := time.Now()
	defer func() {
		c.Note("time: hashes %.1fs, filters %.1fs, encodes %.1fs, files %.1fs", t1.Sub(t0).Seconds(), t2.Sub(t1).Seconds(), t3.Sub(t2).Seconds(), time.Since(t3).Seconds())
	}()
	nFiles := c.N(63, 280)
	for i := 0; i < nFiles; i++ {
		cs := c07GenFile(c, i)
		c07FileCase(c, cs)
		if i == 0 {
			c.Sample(map[string]any{"kind": "file", "path": cs.Path, "cols": cs.Cols, "rows": len(cs.Rows)})
		}
	}
	tHist := time.Now()
	// histories: every (pending operation, following operation) pair in turn, then free draws
	nHist := c.N(360, 1440)
	nHistModel := c.N(90, 360) // the further ones evaluate the property predicate only
	// The kernel version (variant.go) decides what is done with the values that
	// reach the filter, the history of calls decides which values reach it: in
	// the quick tier the runs of the non-default versions keep parts (a), (b),
	// the generated, large and encrypted files in full and take a third of the
	// histories (still every pair of first steps three times over), predicate only.
	kernelRun := c.Quick() && c.Res.Variant != "" && c.Res.Variant != "default"
	if kernelRun {
		nHist, nHistModel = 120, 0
	}
	for i := 0; i < nHist; i++ {
		cs := c07GenHistory(c, i)
		c07FileCaseOpt(c, cs, i >= nHistModel)
		if i == 5 {
			c.Sample(map[string]any{"kind": "file", "path": cs.Path, "cols": cs.Cols, "rows": len(cs.Rows), "steps": cs.Steps, "opens": cs.Opens})
		}
	}
	// encrypted files: the grid (write path) x (footer mode) x (keys) x (page version) x (deferred filters)
	tEnc := time.Now()
	nEnc := c.N(c07GridSize, 3*c07GridSize)
	for i := 0; i < nEnc; i++ {
		cs := c07GenEncGrid(c, i)
		c07FileCaseOpt(c, cs, kernelRun || i%8 != 0)
		if i == 8 {
			c.Sample(map[string]any{"kind": "file", "path": cs.Path, "cols": cs.Cols, "rows": len(cs.Rows), "v1": cs.V1, "deferred": cs.Deferred, "enc": cs.Enc, "opens": cs.Opens})
		}
	}
	c.Note("time: %d encrypted grid files %.1fs (one in eight also compared with the model; none in the quick run of a non-default kernel version: %v)", nEnc, time.Since(tEnc).Seconds(), kernelRun)
	t4 := time.Now()
	// filters larger than the read buffer
	nBig := c.N(30, 100)
	for i := 0; i < nBig; i++ {
		c07FileCase(c, c07GenBig(c, i))
	}
	c.Note("time within the file cases: writing %.1fs, model comparison %.1fs, re-opening under other options %.1fs", c07WriteTime.Seconds(), c07ModelTime.Seconds(), c07OpenTime.Seconds())
	c.Note("the first %d history files are also compared with the model, the others evaluate the property predicate only", nHistModel)
	c.Note("time: %d history files %.1fs, %d large-filter files %.1fs", nHist, t4.Sub(tHist).Seconds(), nBig, time.Since(t4).Seconds())
	c.Note("chunks whose configured filter was not written (no non-null value or not produced on that path): %d; chunks copied verbatim: %d", c.Res.Buckets["file/no-filter-written"], c.Res.Buckets["file/chunks-copied-verbatim"])

	c.Vm("From Coq Require Import List NArith Bool Arith.\nFrom PQ Require Import Bloom.XXHash Bloom.Filter Bloom.Hashing.\nImport ListNotations.\nOpen Scope N_scope.")
	c.Vm("Definition hcases : list (list N * N) := [\n  " + strings.Join(c07VmHashes, ";\n  ") + "].")
	c.Vm("Definition fcases : list (nat * list N * list N * list N * list bool) := [\n  " + strings.Join(c07VmFilters, ";\n  ") + "].")
	c.Vm("Definition ecases : list (ptype * nat * list (list value) * list N) := [\n  " + strings.Join(c07VmFiles, ";\n  ") + "].")
	c.Vm("Definition eqb_list (a b : list N) : bool := Nat.eqb (length a) (length b) && forallb (fun '(x, y) => N.eqb x y) (combine a b).")
	c.Vm("Definition eqb_bools (a b : list bool) : bool := Nat.eqb (length a) (length b) && forallb (fun '(x, y) => Bool.eqb x y) (combine a b).")
	c.Vm("Definition bad_h := List.filter (fun '(b, h) => negb (N.eqb (xxh64 b) h)) hcases.")
	c.Vm("Definition bad_f := List.filter (fun '(n, hs, bytes, probes, res) => let f := filter_insert_bulk (empty_filter n) hs in negb (eqb_list (filter_bytes f) bytes && eqb_bools (map (filter_check f) probes) res && eqb_bools (map (check_split_block bytes) probes) res)) fcases.")
	c.Vm("Definition bad_e := List.filter (fun '(t, n, pages, bytes) => negb (eqb_list (filter_bytes (chunk_filter n t pages)) bytes)) ecases.")
	c.Vm("Definition mismatches : list nat := map (fun _ => 1%nat) bad_h ++ map (fun _ => 2%nat) bad_f ++ map (fun _ => 3%nat) bad_e.")
	c.Vm("Definition M := Eval vm_compute in ((length hcases + length fcases + length ecases)%nat, mismatches).\nPrint M.")
	c.Res.VmCases = len(c07VmHashes) + len(c07VmFilters) + len(c07VmFiles)
}

func replayC07(c *core.Ctx, raw json.RawMessage) {
	var k struct {
		Kind string `json:"kind"`
	}
	if err := json.Unmarshal(raw, &k); err != nil {
		c.Note("unreadable replay")
		return
	}
	switch k.Kind {
	case "file":
		var cs c07File
		if json.Unmarshal(raw, &cs) == nil {
			c07RunFile(&c07Rep{c: c, record: true}, &cs, -1)
			c.Case("replay", string(raw), true)
		}
	case "filter":
		var fc c07Filter
		if json.Unmarshal(raw, &fc) == nil {
			c07FilterCase(c, &fc)
			c.Case("replay", string(raw), true)
		}
	case "encode":
		var ec c07Encode
		if json.Unmarshal(raw, &ec) == nil {
			c07EncodeCase(c, &ec)
			c.Case("replay", string(raw), true)
		}
	case "xxh64", "sum8", "sum16", "sum32", "sum64", "sum128":
		var hc c07Hash
		if json.Unmarshal(raw, &hc) == nil {
			c07HashCase(c, &hc)
			c.Case("replay", string(raw), true)
		}
	default:
		c.Note("replay kind %q is re-run by the recorded seed only", k.Kind)
	}
}
