// C17, family "logical": the geospatial statistics of every row group of a
// file are those the model (Reset/Geo.v: the accumulator of the column writer)
// computes from the values STORED in that row group alone: not from those of
// the row groups before it, nor of the previous lives of the writer.
package main

import (
	"bytes"
	"fmt"
	"io"
	"math"
	"strings"

	"github.com/parquet-go/parquet-go"
	"github.com/parquet-go/parquet-go/format"
	geom "github.com/twpayne/go-geom"
	"github.com/twpayne/go-geom/encoding/wkb"

	"verif/harness/core"
)

// fkey: the order preserving integer key of a float (both zeros: 0), in the
// hex notation of the oracle.
func fkey(x float64) string {
	b := math.Float64bits(x)
	if b>>63 != 0 {
		if m := b &^ (1 << 63); m != 0 {
			return fmt.Sprintf("-%x", m)
		}
		return "0"
	}
	return fmt.Sprintf("%x", b)
}

func boundTok(lo, hi float64) string {
	if math.IsNaN(lo) || math.IsNaN(hi) {
		return "N"
	}
	return fkey(lo) + "~" + fkey(hi)
}

// geoCode: the WKB type code of a parsed geometry (ISO: Z +1000, M +2000, ZM +3000).
func geoCode(g geom.T) int {
	base := 0
	switch g.(type) {
	case *geom.Point:
		base = 1
	case *geom.LineString:
		base = 2
	case *geom.Polygon:
		base = 3
	case *geom.MultiPoint:
		base = 4
	case *geom.MultiLineString:
		base = 5
	case *geom.MultiPolygon:
		base = 6
	case *geom.GeometryCollection:
		base = 7
	default:
		return 0
	}
	switch g.Layout() {
	case geom.XYZ:
		base += 1000
	case geom.XYM:
		base += 2000
	case geom.XYZM:
		base += 3000
	}
	return base
}

// geoValueTok: what the accumulator reads from one stored value.
func geoValueTok(b []byte) string {
	g, err := wkb.Unmarshal(b)
	if err != nil || g == nil {
		return "B"
	}
	bounds := g.Bounds()
	if bounds == nil || bounds.IsEmpty() {
		return fmt.Sprintf("%x:1:N:N:_:_", geoCode(g))
	}
	z, m := "_", "_"
	if i := g.Layout().ZIndex(); i >= 0 {
		z = boundTok(bounds.Min(i), bounds.Max(i))
	}
	if i := g.Layout().MIndex(); i >= 0 {
		m = boundTok(bounds.Min(i), bounds.Max(i))
	}
	return fmt.Sprintf("%x:0:%s:%s:%s:%s", geoCode(g), boundTok(bounds.Min(0), bounds.Max(0)), boundTok(bounds.Min(1), bounds.Max(1)), z, m)
}

// geoStatsTok: the statistics of a column chunk in the notation of the model's answer.
func geoStatsTok(s format.GeospatialStatistics) string {
	opt := func(lo, hi interface {
		Get() (float64, bool)
	}) string {
		a, oka := lo.Get()
		b, okb := hi.Get()
		if !oka && !okb {
			return "N"
		}
		if oka != okb {
			return fmt.Sprintf("half(%v,%v)", oka, okb)
		}
		return fkey(a) + "~" + fkey(b)
	}
	bb := s.BBox
	if len(s.GeoSpatialTypes) == 0 && bb == (format.BoundingBox{}) {
		return "none"
	}
	var ts []string
	for _, t := range s.GeoSpatialTypes {
		ts = append(ts, fmt.Sprintf("%x", t))
	}
	types := "_"
	if len(ts) > 0 {
		types = strings.Join(ts, ",")
	}
	return fmt.Sprintf("types=%s x=%s y=%s z=%s m=%s", types, fkey(bb.XMin)+"~"+fkey(bb.XMax), fkey(bb.YMin)+"~"+fkey(bb.YMax),
		opt(nullF{bb.ZMin.V, bb.ZMin.Valid}, nullF{bb.ZMax.V, bb.ZMax.Valid}), opt(nullF{bb.MMin.V, bb.MMin.Valid}, nullF{bb.MMax.V, bb.MMax.Valid}))
}

type nullF struct {
	v  float64
	ok bool
}

func (n nullF) Get() (float64, bool) { return n.v, n.ok }

// checkGeoModel compares the geospatial statistics of every chunk of every
// GEOMETRY / GEOGRAPHY column with the model's.  false = a mismatch was reported.
func (e *env) checkGeoModel(file []byte, sc scenario) bool {
	c := e.c
	if !c.HasOracle() {
		return true
	}
	fl, err := parquet.OpenFile(bytes.NewReader(file), int64(len(file)))
	if err != nil {
		return true
	}
	md := fl.Metadata()
	for i, rg := range fl.RowGroups() {
		for j, cc := range rg.ColumnChunks() {
			lt := cc.Type().LogicalType()
			if lt == nil {
				continue
			}
			switch lt.Value.(type) {
			case *format.GeometryType, *format.GeographyType:
			default:
				continue
			}
			var toks []string
			pages := cc.Pages()
			for {
				pg, err := pages.ReadPage()
				if err != nil {
					if err != io.EOF {
						pages.Close()
						return true
					}
					break
				}
				vr := pg.Values()
				buf := make([]parquet.Value, 64)
				for {
					k, err := vr.ReadValues(buf)
					for _, v := range buf[:k] {
						if !v.IsNull() {
							toks = append(toks, geoValueTok(v.ByteArray()))
						}
					}
					if err != nil {
						break
					}
				}
				parquet.Release(pg)
			}
			pages.Close()
			vals := "_"
			if len(toks) > 0 {
				vals = strings.Join(toks, ",")
			}
			impl := geoStatsTok(md.RowGroups[i].Columns[j].MetaData.GeospatialStatistics)
			req := "c17.geostats " + vals
			ans := c.Ask(req)
			// a bounding box of zeros is not told apart from an absent one once decoded
			if ans == "types=_ nobbox" {
				ans = "none"
			}
			ans = strings.Replace(ans, " nobbox", " x=0~0 y=0~0 z=N m=N", 1)
			if impl != ans {
				c.Mismatch("corr:C17.geostats", fmt.Sprintf("row group %d column %v: %s", i, md.RowGroups[i].Columns[j].MetaData.PathInSchema, core.Trunc(req, 400)), impl, ans, sc)
				return false
			}
			e.geoChunks++
		}
	}
	return true
}
