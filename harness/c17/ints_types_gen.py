kinds = [("int8",8,True),("int16",16,True),("int32",32,True),("int64",64,True),("int",64,True),
         ("uint8",8,False),("uint16",16,False),("uint32",32,False),("uint64",64,False),("uint",64,False)]
tags = [("none","",0)] + [("i%d"%w,"int(%d)"%w,w) for w in (8,16,32,64)] + [("u%d"%w,"uint(%d)"%w,w) for w in (8,16,32,64)]
out = []
out.append("""// Code generated once by hand-run script (see the header of ints.go); DO NOT EDIT.
//
// One struct type per (Go integer kind x column width tag): V required (first:
// the first user of the scratch pools of the typed writer), O optional
// non-pointer (zero = null), P pointer, and for the untagged kinds whose
// slices are lists (all but uint8) L, a list.
package main

""")
table = []
for kn,bits,signed in kinds:
    for tn,tag,w in tags:
        name = "n_%s_%s" % (kn, tn)
        sfx = "," + tag if tag else ""
        fields = ['V %s `parquet:"v%s"`' % (kn, sfx), 'O %s `parquet:"o,optional%s"`' % (kn, sfx), 'P *%s `parquet:"p%s"`' % (kn, sfx)]
        if not tag and kn != "uint8":
            fields.append('L []%s `parquet:"l"`' % kn)
        out.append("type %s struct {\n\t%s\n}\n" % (name, "\n\t".join(fields)))
        phys = (32 if w <= 32 else 64) if w else (32 if bits <= 32 else 64)
        table.append('\t{Name: "%s/%s", Kind: "%s", Bits: %d, Signed: %s, Tag: "%s", Phys: %d, mk: intsFactory[%s]},' % (kn, tag or "none", kn, bits, "true" if signed else "false", tag, phys, name))
out.append("\nvar intCombos = []intCombo{\n" + "\n".join(table) + "\n}\n")
open("ints_types.go","w").write("\n".join(out))
