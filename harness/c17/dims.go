package main

// Dimensions added in round 5:
//
//   - family bloomlen: bloom-filtered byte array columns (BYTE_ARRAY plain,
//     BYTE_ARRAY through a dictionary, FIXED_LEN_BYTE_ARRAY) whose values all
//     have one chosen length; the build-variant list holds every length
//     0..100 (the XXH64 kernels of the two builds branch on the length: tail
//     loops of 1, 4 and 8 bytes, four accumulators from 32 bytes on);
//   - life copyfile: the previous life receives the row groups of a FILE
//     written with the same configuration through WriteRowGroup (column chunks,
//     bloom filters and page indexes are copied verbatim, the column writers
//     build nothing themselves), optionally followed by rows written normally;
//     together with null_final (the optional columns of the file under test
//     hold only nulls, so that no dictionary page, filter ... is written for
//     them and nothing overwrites what the previous life left);
//   - mode process: the production of this process, made after the same Go type
//     was used with the OTHER set of schema options (parquet.StructTag
//     replacements or none), is compared with the production of a process that
//     has done nothing before (the same binary, started for this one spec).

import (
	"bytes"
	"encoding/json"
	"fmt"
	"io"
	"math"
	"math/rand"
	"os"
	"os/exec"
	"path/filepath"
	"strings"
	"time"

	"github.com/parquet-go/parquet-go"

	"verif/harness/core"
)

// ---- family bloomlen ----

func bloomLenFactory(sp spec) *factory {
	L := sp.Len
	fl := L
	if fl == 0 {
		fl = 1 // a FIXED_LEN_BYTE_ARRAY has at least one byte
	}
	schema := parquet.NewSchema("bloomlen", parquet.Group{
		"f": parquet.Leaf(parquet.FixedLenByteArrayType(fl)),
		"o": parquet.Optional(parquet.Encoded(parquet.String(), &parquet.RLEDictionary)),
		"v": parquet.Leaf(parquet.ByteArrayType),
	})
	n := sp.Case.NRows
	rng := rand.New(rand.NewSource(sp.Case.Seed ^ 0xb100))
	bytesOf := func(k int) []byte {
		b := make([]byte, k)
		for i := range b {
			b[i] = byte(rng.Intn(256))
		}
		return b
	}
	rows := make([]parquet.Row, n+sp.Extra)
	for i := range rows {
		l := L
		if i >= n {
			l = L + 1 + i%3 // the previous lives hold other lengths
		}
		row := parquet.Row{parquet.FixedLenByteArrayValue(bytesOf(fl)).Level(0, 0, 0)}
		if i%5 == 4 {
			row = append(row, parquet.NullValue().Level(0, 0, 1))
		} else {
			row = append(row, parquet.ByteArrayValue(bytesOf(l)).Level(0, 1, 1))
		}
		row = append(row, parquet.ByteArrayValue(bytesOf(l)).Level(0, 0, 2))
		rows[i] = row
	}
	f := &factory{sp: sp, n: n, extra: sp.Extra, hist: histOf(sp.Case.Seed, n), maxRows: math.MaxInt64, ncols: 3}
	opts := func() []parquet.WriterOption {
		o := []parquet.WriterOption{schema, parquet.DataPageVersion(1 + int(sp.Case.Seed&1)),
			parquet.BloomFilters(parquet.SplitBlockFilter(10, "f"), parquet.SplitBlockFilter(10, "o"), parquet.SplitBlockFilter(10, "v"))}
		return append(append(o, wbufOption(sp)...), kvOptions(sp.KV)...)
	}
	f.mk = func(sink io.Writer) pooled {
		if sp.API == "writer" {
			return &rowPool{w: parquet.NewWriter(sink, opts()...), rows: rows, schema: schema}
		}
		return &rowPool{w: parquet.NewGenericWriter[any](sink, opts()...), rows: rows, schema: schema}
	}
	f.mkPlain = f.mk
	f.mkBuffer = func(sorted bool) pooledBuffer {
		return &rowBufPool{b: parquet.NewGenericBuffer[any](schema), rows: rows}
	}
	f.blooms = []bloomCol{{"f", false}, {"o", true}, {"v", false}}
	return f
}

// ---- the bloom filter locations against Reset/BloomLoc.v ----

// bloomCol: a column with a configured SplitBlockFilter(10, name); Dict: the
// column is dictionary encoded (the filter is sized from the dictionary).
type bloomCol struct {
	Name string
	Dict bool
}

// checkBloomModel: for every column of f.blooms and every row group of the
// file, the recorded location (offset, size of the filter in bytes) must be
// what the model records for a row group built from n sizing values after any
// history: none when n = 0 (an optional dictionary column holding only nulls).
func (e *env) checkBloomModel(f *factory, b []byte, sc scenario) bool {
	c := e.c
	if len(f.blooms) == 0 || f.sp.DictMax > 0 || !c.HasOracle() {
		return true
	}
	file, err := openFile(b)
	if err != nil {
		return true
	}
	md := file.Metadata()
	for _, bc := range f.blooms {
		leaf, ok := file.Schema().Lookup(bc.Name)
		if !ok {
			continue
		}
		var req, impl []string
		for i, rg := range file.RowGroups() {
			cc := rg.ColumnChunks()[leaf.ColumnIndex]
			m := md.RowGroups[i].Columns[leaf.ColumnIndex].MetaData
			n := m.NumValues
			if bc.Dict {
				n = 0
				pages := cc.Pages()
				if p, _ := pages.ReadPage(); p != nil {
					if d := p.Dictionary(); d != nil {
						n = int64(d.Len())
					}
					parquet.Release(p)
				}
				_ = pages.Close()
			}
			off := m.BloomFilterOffset
			if off == 0 {
				off = 1 // where a filter would go: the model answers 0:0 when there is none
				e.bloomNone++
			}
			size := int64(0)
			if bf := cc.BloomFilter(); bf != nil {
				size = bf.Size()
			}
			req = append(req, fmt.Sprintf("%x:b%x", off, n))
			impl = append(impl, fmt.Sprintf("%x:%x", m.BloomFilterOffset, size))
			e.bloomChunks++
		}
		if len(req) == 0 {
			continue
		}
		// the history handed to the model: a copied chunk and a built one (it is irrelevant, as proved)
		q := "c17.bloomloc current a 4:c2f,64:b3 " + strings.Join(req, ",")
		if ans := c.Ask(q); ans != strings.Join(impl, ",") {
			c.Mismatch("corr:C17.bloom-location", "column "+bc.Name+": "+q, strings.Join(impl, ","), ans, sc)
			return false
		}
	}
	return true
}

// ---- life copyfile ----

// copiedChunks counts the column chunks the copyfile lives copied verbatim.
var copiedChunks int64

type rowGroupWriter interface {
	WriteRowGroup(parquet.RowGroup) (int64, error)
}

// copyFileLife: rows [lo, hi) are written to a file by a fresh writer of the
// same configuration; its row groups are handed to w with WriteRowGroup. ok is
// false when the source file cannot be made (the caller writes the rows
// normally instead).
func copyFileLife(w pooled, f *factory, lo, hi int, then bool) (ops []string, ok bool) {
	wr, isRG := w.(rowGroupWriter)
	if !isRG || f.sp.Family == "sorting" || hi <= lo {
		return nil, false
	}
	var src bytes.Buffer
	sw := f.mk(&src)
	if sw.WriteIdx(lo, hi) != nil || sw.Close() != nil {
		return nil, false
	}
	file, err := openFile(src.Bytes())
	if err != nil {
		return nil, false
	}
	before := parquet.VerifCopyPathCount()
	at := lo
	for _, rg := range file.RowGroups() {
		ops = append(ops, fmt.Sprintf("g%x+%x", at, rg.NumRows()))
		at += int(rg.NumRows())
		if _, err := wr.WriteRowGroup(rg); err != nil {
			copiedChunks += parquet.VerifCopyPathCount() - before
			return ops, true
		}
	}
	copiedChunks += parquet.VerifCopyPathCount() - before
	if then {
		// rows written normally after the copied row groups, in the same file
		ops = append(ops, fmt.Sprintf("w%x+%x", lo, min(lo+3, hi)-lo))
		if w.WriteIdx(lo, min(lo+3, hi)) != nil {
			return ops, true
		}
	}
	ops = append(ops, "c")
	_ = w.Close()
	return ops, true
}

// ---- mode process ----

// freshProcessDigest: the digest of the file a process that has done nothing
// else produces for sp (this binary, started for the one spec).
func freshProcessDigest(c *core.Ctx, sp spec) (caseDigest, bool) {
	bin, err := os.Executable()
	if err != nil {
		return caseDigest{}, false
	}
	return digestByProcess(c, bin, c.Res.Variant, os.Getenv("GODEBUG"), sp)
}

func digestByProcess(c *core.Ctx, bin, variant, godebug string, sp spec) (caseDigest, bool) {
	if _, err := os.Stat(bin); err != nil {
		return caseDigest{}, false
	}
	tmp, err := os.MkdirTemp(c.OutDir, "remote")
	if err != nil {
		return caseDigest{}, false
	}
	defer os.RemoveAll(tmp)
	req, _ := json.Marshal(map[string]any{"replay": map[string]any{"digest_request": []spec{sp}}})
	rf := filepath.Join(tmp, "req.json")
	if os.WriteFile(rf, req, 0o644) != nil {
		return caseDigest{}, false
	}
	cmd := exec.Command(bin, "-replay", rf, "-out", tmp, "-variant", variant, "-tier", c.Tier, "-seed", fmt.Sprint(c.Seed), "-replays", tmp)
	var envv []string
	for _, e := range os.Environ() {
		if !strings.HasPrefix(e, "GODEBUG=") {
			envv = append(envv, e)
		}
	}
	if godebug != "" {
		envv = append(envv, "GODEBUG="+godebug)
	}
	cmd.Env = envv
	done := make(chan error, 1)
	go func() { done <- cmd.Run() }()
	select {
	case err := <-done:
		if err != nil {
			return caseDigest{}, false
		}
	case <-time.After(60 * time.Second):
		_ = cmd.Process.Kill()
		return caseDigest{}, false
	}
	b, err := os.ReadFile(filepath.Join(tmp, "digest_reply.json"))
	if err != nil {
		return caseDigest{}, false
	}
	var reply []caseDigest
	if json.Unmarshal(b, &reply) != nil || len(reply) != 1 {
		return caseDigest{}, false
	}
	return reply[0], true
}

// sibling: the same Go type with the other set of schema options.
func sibling(sp spec) spec {
	s := sp
	if sp.Tags != 0 {
		s.Tags = 0
	} else {
		s.Tags = 1 + int(uint64(sp.Case.Seed)%uint64((1<<uint(len(tagSets[sp.Family])))-1))
	}
	return s
}
