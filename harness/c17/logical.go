// C17, family "logical": the logical types the generated schemas of gen.Case do
// not reach, written through the typed writer, the reflection path and buffers:
// GEOMETRY / GEOGRAPHY (geom.T values and raw WKB in both byte orders, layouts
// XY / XYZ / XYM / XYZM, points, line strings, polygons, multi points, empty
// geometries, NaN coordinates, malformed WKB), VARIANT, INTERVAL, DECIMAL over
// its three physical types, DATE, TIME, TIMESTAMP in all units and
// adjustments from integers, time.Time, time.Duration and pointers, JSON,
// ENUM, UUID strings.
//
// The per-row-group state of such columns (the geospatial bounding box with
// its optional Z and M ranges, the set of geometry types, the "unparseable"
// flag) depends on WHICH values a row group holds: the rows of the file under
// test (first half, second half) and the rows of the previous lives are drawn
// from independently chosen profiles (Z allowed, M allowed, dirty), so that a
// life that saw measures / a malformed value / Z is followed by one that does
// not, and the other way round.
package main

import (
	"encoding/json"
	"fmt"
	"math"
	"math/rand"
	"time"

	"github.com/parquet-go/parquet-go"
	geom "github.com/twpayne/go-geom"
	"github.com/twpayne/go-geom/encoding/wkb"
)

type lRow struct {
	ID   int64            `parquet:"id"`
	G    geom.T           `parquet:"g,geometry(OGC:CRS84)"`
	GG   geom.T           `parquet:"gg,geography(OGC:CRS84:karney)"`
	W    []byte           `parquet:"w,geometry(EPSG:3857)"`
	WO   []byte           `parquet:"wo,optional,geography(OGC:CRS84:vincenty)"`
	V    any              `parquet:"v,variant"`
	IV   parquet.Interval `parquet:"iv,interval"`
	I12  [12]byte         `parquet:"i12,interval"`
	OIV  parquet.Interval `parquet:"oiv,optional,interval"`
	D32  int32            `parquet:"d32,decimal(2:9)"`
	D64  int64            `parquet:"d64,optional,decimal(4:18)"`
	DF   [9]byte          `parquet:"df,decimal(3:20)"`
	Date int32            `parquet:"date,date"`
	DT   time.Time        `parquet:"dt,date"`
	PDT  *time.Time       `parquet:"pdt,date"`
	TM   int32            `parquet:"tm,time(millisecond)"`
	TU   int64            `parquet:"tu,time(microsecond:local)"`
	Dur  time.Duration    `parquet:"dur,time(nanosecond)"`
	PDur *time.Duration   `parquet:"pdur,time(millisecond)"`
	TS   int64            `parquet:"ts,timestamp(millisecond)"`
	TT   time.Time        `parquet:"tt,timestamp(microsecond)"`
	PTT  *time.Time       `parquet:"ptt,timestamp(nanosecond:local)"`
	J    string           `parquet:"j,json"`
	JR   json.RawMessage  `parquet:"jr,optional,json"`
	E    string           `parquet:"e,enum,dict"`
	US   string           `parquet:"us,uuid"`
}

// geoProfile: which geometries a range of rows may hold.
type geoProfile struct {
	Z, M  bool // layouts with a Z / an M coordinate occur
	Dirty bool // empty geometries, NaN coordinates; raw columns: malformed WKB
}

func geoProfileOf(k int64) geoProfile {
	return geoProfile{Z: k&1 != 0, M: k&2 != 0, Dirty: k&12 == 12}
}

func (p geoProfile) layout(rng *rand.Rand) geom.Layout {
	ls := []geom.Layout{geom.XY, geom.XY}
	if p.Z {
		ls = append(ls, geom.XYZ)
	}
	if p.M {
		ls = append(ls, geom.XYM)
	}
	if p.Z && p.M {
		ls = append(ls, geom.XYZM)
	}
	return ls[rng.Intn(len(ls))]
}

func genCoord(rng *rand.Rand, p geoProfile) float64 {
	switch rng.Intn(12) {
	case 0:
		return 0
	case 1:
		return math.Copysign(0, -1)
	case 2:
		if p.Dirty {
			return math.NaN()
		}
	case 3:
		return float64(rng.Intn(361) - 180)
	}
	return math.Round((rng.Float64()*360-180)*1000) / 1000
}

func genGeom(rng *rand.Rand, p geoProfile) geom.T {
	l := p.layout(rng)
	flat := func(points int) []float64 {
		v := make([]float64, points*l.Stride())
		for i := range v {
			v[i] = genCoord(rng, p)
		}
		return v
	}
	if p.Dirty && rng.Intn(4) == 0 {
		// (an empty point has no WKB encoding in go-geom: Write panics, as documented)
		switch rng.Intn(3) {
		case 0:
			return geom.NewMultiPoint(l)
		case 1:
			return geom.NewLineString(l)
		}
		return geom.NewPolygon(l)
	}
	switch rng.Intn(5) {
	case 0, 1:
		return geom.NewPointFlat(l, flat(1))
	case 2:
		return geom.NewLineStringFlat(l, flat(2+rng.Intn(3)))
	case 3:
		ring := flat(4)
		copy(ring[3*l.Stride():], ring[:l.Stride()]) // closed
		return geom.NewPolygonFlat(l, ring, []int{len(ring)})
	}
	return geom.NewMultiPointFlat(l, flat(1+rng.Intn(3)))
}

// genWKB: the WKB of a geometry in either byte order; dirty profiles also
// truncated values, bytes that are no WKB, and the empty value.
func genWKB(rng *rand.Rand, p geoProfile) []byte {
	g := genGeom(rng, p)
	var b []byte
	var err error
	if rng.Intn(2) == 0 {
		b, err = wkb.Marshal(g, wkb.NDR)
	} else {
		b, err = wkb.Marshal(g, wkb.XDR)
	}
	if err != nil {
		panic(err)
	}
	if p.Dirty {
		switch rng.Intn(10) {
		case 0:
			return b[:rng.Intn(len(b))]
		case 1:
			return []byte("no wkb")
		case 2:
			return []byte{}
		}
	}
	return b
}

var (
	lEnums = []string{"", "A", "B", "CLUBS", "DIAMONDS", "HEARTS", "SPADES"}
	lJSON  = []string{`null`, `{}`, `[]`, `0`, `{"a":1}`, `{"a":[1,2,{"b":null}]}`, `"text"`, `[1.5,-2,"x"]`, `{"k":"` + "long value long value long value long value" + `"}`}
)

func genVariant(rng *rand.Rand, depth int) any {
	switch rng.Intn(14) {
	case 0:
		return nil
	case 1:
		return rng.Intn(2) == 0
	case 2:
		return int8(boundaryInt(rng, 1))
	case 3:
		return int16(boundaryInt(rng, 2))
	case 4:
		return int32(boundaryInt(rng, 4))
	case 5:
		return int64(boundaryInt(rng, 8))
	case 6:
		return boundaryF[rng.Intn(len(boundaryF))]
	case 7:
		return boundaryG[rng.Intn(len(boundaryG))]
	case 8:
		return boundaryString(rng)
	case 9:
		return fmt.Sprintf("%070d", rng.Intn(1000)) // longer than a short string
	case 10:
		return boundaryBytes(rng)
	case 11:
		if depth < 2 {
			var l []any
			for k := rng.Intn(4); k > 0; k-- {
				l = append(l, genVariant(rng, depth+1))
			}
			return l
		}
	case 12:
		if depth < 2 { // one entry: no iteration order
			return map[string]any{"k" + fmt.Sprint(rng.Intn(5)): genVariant(rng, depth+1)}
		}
	}
	return int32(rng.Intn(100))
}

func genTime(rng *rand.Rand) time.Time {
	switch rng.Intn(5) {
	case 0:
		return time.Time{}
	case 1:
		return time.Unix(0, 0).UTC()
	case 2:
		return time.Unix(-int64(rng.Intn(1<<31)), int64(rng.Intn(1e9))).UTC()
	}
	return time.Unix(int64(rng.Intn(1<<31)), int64(rng.Intn(1e9))).UTC()
}

// genLRows: rows [0, n/2) follow the profile p1, rows [n/2, n) p2, the rows of
// previous lives [n, n+extra) pe.
func genLRows(seed int64, n, extra int) []lRow {
	rng := rand.New(rand.NewSource(seed))
	p1, p2, pe := geoProfileOf(rng.Int63n(16)), geoProfileOf(rng.Int63n(16)), geoProfileOf(rng.Int63n(16))
	rows := make([]lRow, n+extra)
	for i := range rows {
		p := pe
		switch {
		case i < n/2:
			p = p1
		case i < n:
			p = p2
		}
		r := &rows[i]
		r.ID = int64(i)
		if rng.Intn(5) != 0 {
			r.G = genGeom(rng, p)
		}
		if rng.Intn(5) != 0 {
			r.GG = genGeom(rng, p)
		}
		r.W = genWKB(rng, p)
		if rng.Intn(4) != 0 {
			r.WO = genWKB(rng, p)
		}
		r.V = genVariant(rng, 0)
		if rng.Intn(3) != 0 {
			r.IV = parquet.Interval{Months: uint32(boundaryInt(rng, 4)), Days: uint32(boundaryInt(rng, 4)), Milliseconds: uint32(boundaryInt(rng, 4))}
		}
		boundaryArray(rng, r.I12[:])
		if rng.Intn(2) == 0 {
			r.OIV = parquet.Interval{Months: uint32(rng.Intn(3)), Days: uint32(rng.Intn(2)), Milliseconds: uint32(oneByte(rng, 4))}
		}
		r.D32 = int32(boundaryInt(rng, 4)) % 1000000000
		r.D64 = int64(boundaryInt(rng, 8)) % 1000000000000000000
		boundaryArray(rng, r.DF[:])
		r.Date = int32(rng.Intn(40000)) - 10000
		r.DT = genTime(rng)
		if rng.Intn(3) != 0 {
			t := genTime(rng)
			r.PDT = &t
		}
		r.TM = int32(rng.Intn(86400000))
		r.TU = int64(rng.Intn(86400000)) * 1000
		r.Dur = time.Duration(rng.Int63n(int64(24 * time.Hour)))
		if rng.Intn(3) != 0 {
			d := time.Duration(rng.Int63n(int64(24 * time.Hour)))
			r.PDur = &d
		}
		r.TS = int64(boundaryInt(rng, 8)) >> 12
		r.TT = genTime(rng)
		if rng.Intn(3) != 0 {
			t := genTime(rng)
			r.PTT = &t
		}
		r.J = lJSON[rng.Intn(len(lJSON))]
		if rng.Intn(3) != 0 {
			r.JR = json.RawMessage(lJSON[rng.Intn(len(lJSON))])
		}
		r.E = lEnums[rng.Intn(len(lEnums))]
		var u [16]byte
		boundaryArray(rng, u[:])
		r.US = fmt.Sprintf("%x-%x-%x-%x-%x", u[0:4], u[4:6], u[6:8], u[8:10], u[10:16])
	}
	return rows
}

func logicalFactory(sp spec) *factory {
	n := sp.Case.NRows
	rows := genLRows(sp.Case.Seed, n, sp.Extra)
	return typedFactory(sp, rows, n, "id", 0, func() []parquet.WriterOption {
		return []parquet.WriterOption{parquet.DataPageVersion(1 + int(sp.Case.Seed&1)), parquet.PageBufferSize([]int{256, 1 << 12, 1 << 16}[uint64(sp.Case.Seed)%3])}
	})
}
