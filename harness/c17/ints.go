// C17, family "ints": every (Go integer kind x column width tag) combination.
//
// The typed writer converts integer fields whose Go size differs from the
// physical type of the column (int(8..64) / uint(8..64) tags; int8/int16/
// uint8/uint16 always) through scratch slices taken from process-wide pools;
// there is one conversion closure per (Go kind, physical width), each a switch
// over the kinds.  The types of ints_types.go hold one combination each, its
// required field first: the first user of the pools in a Write call sees what
// the previous call of ANYTHING in the process left there.
//
// Besides the digest comparisons shared with the other families, the stored
// values are compared with the model (Reset/Widen.v): the Go value, as an
// integer, modulo 2^(physical width).
package main

import (
	"bytes"
	"fmt"
	"io"
	"math/rand"
	"reflect"
	"strings"

	"github.com/parquet-go/parquet-go"

	"verif/harness/core"
)

type intCombo struct {
	Name   string // "<kind>/<tag>"
	Kind   string
	Bits   int // of the Go kind (int, uint: 64)
	Signed bool
	Tag    string
	Phys   int // physical width of the column: 32 or 64
	mk     func(sp spec, cb *intCombo) *factory
}

func intComboOf(name string) *intCombo {
	for i := range intCombos {
		if intCombos[i].Name == name {
			return &intCombos[i]
		}
	}
	return nil
}

// genInt: a boundary value (zero, one non-zero byte, extremes) or a random one,
// as a bit pattern of the given width.
func genInt(rng *rand.Rand, bits int) uint64 {
	var raw uint64
	if rng.Intn(3) == 0 {
		raw = rng.Uint64()
	} else {
		raw = boundaryInt(rng, bits/8)
	}
	if bits < 64 {
		raw &= 1<<uint(bits) - 1
	}
	return raw
}

func setInt(v reflect.Value, raw uint64) {
	bits := uint(v.Type().Bits())
	switch v.Kind() {
	case reflect.Int, reflect.Int8, reflect.Int16, reflect.Int32, reflect.Int64:
		v.SetInt(int64(raw<<(64-bits)) >> (64 - bits))
	default:
		v.SetUint(raw)
	}
}

func rawInt(v reflect.Value) uint64 {
	bits := uint(v.Type().Bits())
	var raw uint64
	switch v.Kind() {
	case reflect.Int, reflect.Int8, reflect.Int16, reflect.Int32, reflect.Int64:
		raw = uint64(v.Int())
	default:
		raw = v.Uint()
	}
	if bits < 64 {
		raw &= 1<<bits - 1
	}
	return raw
}

// genIntRows fills the fields V, O, P (and L) of the rows of one combination.
func genIntRows[T any](seed int64, n int) []T {
	rng := rand.New(rand.NewSource(seed))
	rows := make([]T, n)
	for i := range rows {
		rv := reflect.ValueOf(&rows[i]).Elem()
		bits := rv.Field(0).Type().Bits()
		setInt(rv.Field(0), genInt(rng, bits))
		setInt(rv.Field(1), genInt(rng, bits))
		if rng.Intn(3) != 0 {
			p := reflect.New(rv.Field(2).Type().Elem())
			setInt(p.Elem(), genInt(rng, bits))
			rv.Field(2).Set(p)
		}
		if rv.NumField() > 3 {
			switch rng.Intn(4) {
			case 0:
			case 1:
				rv.Field(3).Set(reflect.MakeSlice(rv.Field(3).Type(), 0, 2))
			default:
				k := 1 + rng.Intn(4)
				s := reflect.MakeSlice(rv.Field(3).Type(), k, k)
				for j := 0; j < k; j++ {
					setInt(s.Index(j), genInt(rng, bits))
				}
				rv.Field(3).Set(s)
			}
		}
	}
	return rows
}

// intColumnsOf: the bit patterns of the Go values each leaf column must hold,
// in row order: v = every row; o = the non-zero ones; p = the non-nil ones;
// l = every element.
func intColumnsOf[T any](rows []T) [][]uint64 {
	var cols [][]uint64
	for i := range rows {
		rv := reflect.ValueOf(&rows[i]).Elem()
		if cols == nil {
			cols = make([][]uint64, rv.NumField())
		}
		cols[0] = append(cols[0], rawInt(rv.Field(0)))
		if raw := rawInt(rv.Field(1)); raw != 0 {
			cols[1] = append(cols[1], raw)
		}
		if p := rv.Field(2); !p.IsNil() {
			cols[2] = append(cols[2], rawInt(p.Elem()))
		}
		if rv.NumField() > 3 {
			for j, l := 0, rv.Field(3); j < l.Len(); j++ {
				cols[3] = append(cols[3], rawInt(l.Index(j)))
			}
		}
	}
	return cols
}

func intsFactory[T any](sp spec, cb *intCombo) *factory {
	n := sp.Case.NRows
	rows := genIntRows[T](sp.Case.Seed, n+sp.Extra)
	f := typedFactory(sp, rows, n, "v", 0, func() []parquet.WriterOption {
		return []parquet.WriterOption{parquet.DataPageVersion(1 + int(sp.Case.Seed&1)), parquet.PageBufferSize([]int{64, 1 << 12, 1 << 16}[uint64(sp.Case.Seed)%3])}
	})
	f.intCols = func() [][]uint64 { return intColumnsOf(rows[:n]) }
	f.combo = cb
	return f
}

// storedInts reads the non-null values of every leaf column of a file as bit
// patterns of the physical width.
func storedInts(b []byte) ([][]uint64, []int, error) {
	fl, err := parquet.OpenFile(bytes.NewReader(b), int64(len(b)))
	if err != nil {
		return nil, nil, err
	}
	leaves := fl.Schema().Columns()
	cols := make([][]uint64, len(leaves))
	phys := make([]int, len(leaves))
	for _, rg := range fl.RowGroups() {
		for j, cc := range rg.ColumnChunks() {
			pages := cc.Pages()
			for {
				pg, err := pages.ReadPage()
				if err != nil {
					if err != io.EOF {
						pages.Close()
						return nil, nil, err
					}
					break
				}
				vr := pg.Values()
				buf := make([]parquet.Value, 64)
				for {
					k, err := vr.ReadValues(buf)
					for _, v := range buf[:k] {
						switch v.Kind() {
						case parquet.Int32:
							cols[j], phys[j] = append(cols[j], uint64(uint32(v.Int32()))), 32
						case parquet.Int64:
							cols[j], phys[j] = append(cols[j], uint64(v.Int64())), 64
						}
					}
					if err != nil {
						break
					}
				}
				parquet.Release(pg)
			}
			pages.Close()
		}
	}
	for j, leaf := range leaves {
		if phys[j] == 0 { // no value: the type of the schema
			if l, ok := fl.Schema().Lookup(leaf...); ok && l.Node.Type().Kind() == parquet.Int64 {
				phys[j] = 64
			} else {
				phys[j] = 32
			}
		}
	}
	return cols, phys, nil
}

func hexU64s(v []uint64) string {
	if len(v) == 0 {
		return "_"
	}
	p := make([]string, len(v))
	for i, x := range v {
		p[i] = fmt.Sprintf("%x", x)
	}
	return strings.Join(p, ",")
}

// checkIntsModel: the values stored in the file are the model's (the Go value
// modulo 2^width of the physical type).  false = a mismatch was reported.
func (e *env) checkIntsModel(f *factory, file []byte, sc scenario) bool {
	c := e.c
	if f.combo == nil || !c.HasOracle() {
		return true
	}
	cb := f.combo
	got, phys, err := storedInts(file)
	if err != nil {
		c.Violation("ints-unreadable", "the file of an integer combination cannot be read back: "+err.Error(), sc)
		return false
	}
	want := f.intCols()
	if want == nil {
		want = make([][]uint64, len(got))
	}
	if len(got) != len(want) {
		c.Mismatch("corr:C17.widen", cb.Name, fmt.Sprintf("%d leaf columns", len(got)), fmt.Sprintf("%d leaf columns", len(want)), sc)
		return false
	}
	sg := 0
	if cb.Signed {
		sg = 1
	}
	for j := range want {
		if phys[j] != cb.Phys {
			c.Mismatch("corr:C17.widen", fmt.Sprintf("%s column %d", cb.Name, j), fmt.Sprintf("physical width %d", phys[j]), fmt.Sprintf("physical width %d", cb.Phys), sc)
			return false
		}
		req := fmt.Sprintf("c17.widen %d %x %x %s", sg, cb.Bits, cb.Phys, hexU64s(want[j]))
		ans := c.Ask(req)
		if impl := hexU64s(got[j]); impl != ans {
			c.Mismatch("corr:C17.widen", fmt.Sprintf("%s column %d (%s): %s", cb.Name, j, []string{"v", "o", "p", "l"}[j], core.Trunc(req, 300)), core.Trunc(impl, 300), core.Trunc(ans, 300), sc)
			return false
		}
	}
	return true
}
