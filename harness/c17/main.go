// C17 — output bytes are a function of input and options only.
//
// The predicate is evaluated on the implementation itself: sha256 of the
// produced file for (schema, rows, options, final history) must be the same
//
//	(a) for a fresh writer and for a writer reused through Reset after
//	    previous lives (closed, flushed, abandoned, failed sink, failed buffer
//	    pool, dictionary fallback, WriteRowGroup, SetKeyValueMetadata of new
//	    and of configured keys), for GenericWriter[any],
//	    the deprecated Writer, typed GenericWriter[T], SortingWriter[T] and an
//	    encrypting writer (pinned file identifier, deterministic nonce source);
//	(b) for a fresh GenericBuffer and one reused through Reset;
//	(c) in another goroutine, after pool churn, with poisoned pools, with
//	    GOMAXPROCS 1 and many;
//	(d) for the 1st and the n-th production in one process, and for a
//	    production after unrelated writes of the same goroutine (other writers
//	    of the same configuration, other schemas, other integer combinations
//	    and logical types: what they leave in the process-wide pools);
//	(e) across build variants (default, purego, noavx2, simd): every variant
//	    writes the digests of a fixed case list to <work>/digests_<variant>.json
//	    and compares with the files of the variants that ran before it.
//
// Families: generated schemas (gen.Case), typed structs (optional kinds,
// dictionary index patterns, 16-byte values), every (Go integer kind x width
// tag) combination (ints.go, ints_types.go), the rare logical types
// (logical.go: GEOMETRY/GEOGRAPHY, VARIANT, INTERVAL, DECIMAL, DATE, TIME,
// TIMESTAMP, JSON, ENUM, UUID strings).
//
// Correspondence with the model (Reset/Ints.v): the integers stored by every
// combination; (Reset/Geo.v): the geospatial statistics of every column chunk
// from the values stored in its row group alone.
//
// Correspondence with the model (Reset/Model.v): the operation list of every
// Reset scenario is run on the extracted state machine with opaque rows; the
// row group structure of the file must be the model's.
package main

import (
	"bytes"
	crand "crypto/rand"
	"crypto/sha256"
	"encoding/hex"
	"encoding/json"
	"errors"
	"fmt"
	"io"
	"math"
	"math/rand"
	"os"
	"path/filepath"
	"reflect"
	"runtime"
	"sort"
	"strings"
	"sync"
	"time"

	"github.com/parquet-go/parquet-go"
	"github.com/parquet-go/parquet-go/deprecated"

	"verif/harness/core"
	"verif/harness/gen"
)

func main() { core.Main("C17", runC17, replayC17) }

var allCodecs = []string{"none", "snappy", "gzip", "brotli", "zstd", "lz4"}

// ---------------------------------------------------------------------------
// sinks
// ---------------------------------------------------------------------------

var errSink = errors.New("c17: sink failed")

// failSink accepts limit bytes, then fails every write.
type failSink struct {
	limit int
	n     int
}

func (s *failSink) Write(p []byte) (int, error) {
	if s.n+len(p) <= s.limit {
		s.n += len(p)
		return len(p), nil
	}
	k := s.limit - s.n
	if k < 0 {
		k = 0
	}
	s.n += k
	return k, errSink
}

// detRand replaces crypto/rand.Reader so that encrypted files are reproducible
// (the property excepts nonces: they are made equal on both sides).
type detRand struct{ n uint64 }

func (d *detRand) Read(p []byte) (int, error) {
	for i := range p {
		d.n = d.n*6364136223846793005 + 1442695040888963407
		p[i] = byte(d.n >> 56)
	}
	return len(p), nil
}

func digest(b []byte) string {
	h := sha256.Sum256(b)
	return hex.EncodeToString(h[:])
}

// ---------------------------------------------------------------------------
// typed rows
// ---------------------------------------------------------------------------

type tInner struct {
	X int32 `parquet:"x"`
	Y int32 `parquet:"y,optional"`
}

// tRow has optional non-pointer fields (zero value = null), floats with
// -0.0 / NaN, dictionary columns, a repeated column, a pointer, a group.
type tRow struct {
	ID  int64   `parquet:"id,delta"`
	F64 float64 `parquet:"f64,optional"`
	F32 float32 `parquet:"f32,optional"`
	I32 int32   `parquet:"i32,optional,dict"`
	S   string  `parquet:"s,optional,dict"`
	B   bool    `parquet:"b"`
	L   []int32 `parquet:"l"`
	P   *int64  `parquet:"p"`
	D   int32   `parquet:"d,dict"`
	G   tInner  `parquet:"g,optional"`
	Q   float64 `parquet:"q,split"`
}

// dRow: a dictionary-encoded column whose index stream is chosen.
type dRow struct {
	D int32 `parquet:"d,dict"`
	O int32 `parquet:"o,optional,dict"`
	B bool  `parquet:"b"`
}

// bRow: 16-byte values that often share their first 8 bytes (the AVX-512
// min/max kernels of big-endian 128-bit values compare the halves separately).
type bRow struct {
	U [16]byte  `parquet:"u,uuid"`
	F [16]byte  `parquet:"f"`
	O *[16]byte `parquet:"o"`
}

// oRow: one optional field of every Go kind that has a null index function
// (null.go: nullIndexFuncOf), written column by column by the typed writer
// with kernels chosen by the build, and row by row by the reflection path.
type oInner struct {
	A int32  `parquet:"a"`
	B string `parquet:"b"`
}

type oRow struct {
	ID   int64            `parquet:"id"`
	Bool bool             `parquet:"bool,optional"`
	I    int              `parquet:"i,optional"`
	I8   int8             `parquet:"i8,optional"`
	I16  int16            `parquet:"i16,optional"`
	I32  int32            `parquet:"i32,optional"`
	I64  int64            `parquet:"i64,optional"`
	U    uint             `parquet:"u,optional"`
	U8   uint8            `parquet:"u8,optional"`
	U16  uint16           `parquet:"u16,optional"`
	U32  uint32           `parquet:"u32,optional"`
	U64  uint64           `parquet:"u64,optional"`
	F32  float32          `parquet:"f32,optional"`
	F64  float64          `parquet:"f64,optional"`
	S    string           `parquet:"s,optional"`
	SD   string           `parquet:"sd,optional,dict"`
	Y    []byte           `parquet:"y,optional"`
	A16  [16]byte         `parquet:"a16,optional"`
	UU   [16]byte         `parquet:"uu,optional,uuid"`
	A5   [5]byte          `parquet:"a5,optional"`
	I96  deprecated.Int96 `parquet:"i96,optional"`
	T    time.Time        `parquet:"t,optional"`
	G    oInner           `parquet:"g,optional"`
	PI   *int64           `parquet:"pi,optional"`
	PS   *string          `parquet:"ps,optional"`
	PY   *[]byte          `parquet:"py,optional"`
	PF   *float64         `parquet:"pf,optional"`
	L    []int32          `parquet:"l,optional"`
	LS   []string         `parquet:"ls,optional,list"`
	M    map[string]int32 `parquet:"m,optional"`
}

// boundary values between null and non-null of every kind: the zero value,
// values with exactly one non-zero byte (a kernel that tests a narrower or a
// shifted word misses one of them), the extremes; -0.0 and NaN; nil, empty
// (also empty with a non-nil pointer: re-sliced) and non-empty slices, strings
// and maps; nil pointers and pointers to zero values.
func oneByte(rng *rand.Rand, width int) uint64 {
	return uint64(1+rng.Intn(255)) << (8 * uint(rng.Intn(width)))
}

func boundaryInt(rng *rand.Rand, width int) uint64 {
	switch rng.Intn(6) {
	case 0, 1:
		return 0
	case 2, 3:
		return oneByte(rng, width)
	case 4:
		return ^uint64(0)
	}
	return uint64(1) << (8*uint(width) - 1)
}

var (
	oBacking  = []byte("a backing array of the harness")
	oStrBack  = strings.Repeat("backing string ", 2)
	boundaryF = []float64{0, 0, math.Copysign(0, -1), math.NaN(), 1, -1, math.SmallestNonzeroFloat64, math.Float64frombits(1 << 32), math.Float64frombits(0x8000000000000001), math.Inf(1), 2.5}
	boundaryG = []float32{0, 0, float32(math.Copysign(0, -1)), float32(math.NaN()), 1, -1, math.SmallestNonzeroFloat32, math.Float32frombits(1 << 16), float32(math.Inf(-1)), 2.5}
)

func boundaryBytes(rng *rand.Rand) []byte {
	switch rng.Intn(7) {
	case 0, 1:
		return nil
	case 2:
		return []byte{}
	case 3:
		k := rng.Intn(len(oBacking))
		return oBacking[k:k] // empty, pointing into an array
	case 4:
		return make([]byte, 0, 1+rng.Intn(8))
	case 5:
		return []byte{0}
	}
	k := rng.Intn(len(oBacking) - 1)
	return oBacking[k : k+1+rng.Intn(len(oBacking)-k-1) : len(oBacking)]
}

func boundaryString(rng *rand.Rand) string {
	switch rng.Intn(6) {
	case 0, 1:
		return ""
	case 2:
		k := rng.Intn(len(oStrBack))
		return oStrBack[k:k] // empty, pointing into a string
	case 3:
		return "\x00"
	case 4:
		return "s" + fmt.Sprint(rng.Intn(6))
	}
	k := rng.Intn(len(oStrBack) - 1)
	return oStrBack[k : k+1+rng.Intn(len(oStrBack)-k-1)]
}

func boundaryArray(rng *rand.Rand, a []byte) {
	switch rng.Intn(5) {
	case 0, 1: // zero
	case 2, 3:
		a[rng.Intn(len(a))] = byte(1 + rng.Intn(255))
	default:
		for i := range a {
			a[i] = byte(rng.Intn(256))
		}
	}
}

func genORows(seed int64, n int) []oRow {
	rng := rand.New(rand.NewSource(seed))
	rows := make([]oRow, n)
	for i := range rows {
		r := &rows[i]
		r.ID = int64(i)
		r.Bool = rng.Intn(2) == 0
		r.I = int(boundaryInt(rng, 8))
		r.I8 = int8(boundaryInt(rng, 1))
		r.I16 = int16(boundaryInt(rng, 2))
		r.I32 = int32(boundaryInt(rng, 4))
		r.I64 = int64(boundaryInt(rng, 8))
		r.U = uint(boundaryInt(rng, 8))
		r.U8 = uint8(boundaryInt(rng, 1))
		r.U16 = uint16(boundaryInt(rng, 2))
		r.U32 = uint32(boundaryInt(rng, 4))
		r.U64 = boundaryInt(rng, 8)
		r.F32 = boundaryG[rng.Intn(len(boundaryG))]
		r.F64 = boundaryF[rng.Intn(len(boundaryF))]
		r.S = boundaryString(rng)
		r.SD = boundaryString(rng)
		r.Y = boundaryBytes(rng)
		boundaryArray(rng, r.A16[:])
		boundaryArray(rng, r.UU[:])
		boundaryArray(rng, r.A5[:])
		r.I96 = deprecated.Int96{uint32(boundaryInt(rng, 4)), uint32(boundaryInt(rng, 4)), uint32(boundaryInt(rng, 4))}
		switch rng.Intn(4) {
		case 0, 1: // zero time
		case 2:
			r.T = time.Unix(0, 0).UTC() // the epoch is not the zero time
		default:
			r.T = time.Unix(int64(rng.Intn(1<<31)), int64(rng.Intn(1000))*1000000).UTC()
		}
		switch rng.Intn(4) {
		case 0, 1:
		case 2:
			r.G = oInner{B: boundaryString(rng)}
		default:
			r.G = oInner{A: int32(oneByte(rng, 4))}
		}
		if rng.Intn(3) != 0 {
			v := int64(boundaryInt(rng, 8))
			r.PI = &v
		}
		if rng.Intn(3) != 0 {
			v := boundaryString(rng)
			r.PS = &v
		}
		if rng.Intn(3) != 0 {
			v := boundaryBytes(rng)
			r.PY = &v
		}
		if rng.Intn(3) != 0 {
			v := boundaryF[rng.Intn(len(boundaryF))]
			r.PF = &v
		}
		switch rng.Intn(5) {
		case 0, 1:
		case 2:
			r.L = []int32{}
		case 3:
			r.L = make([]int32, 0, 4)
		default:
			for k := 1 + rng.Intn(3); k > 0; k-- {
				r.L = append(r.L, int32(boundaryInt(rng, 4)))
			}
		}
		switch rng.Intn(4) {
		case 0:
		case 1:
			r.LS = []string{}
		default:
			for k := 1 + rng.Intn(3); k > 0; k-- {
				r.LS = append(r.LS, boundaryString(rng))
			}
		}
		switch rng.Intn(4) {
		case 0, 1:
		case 2:
			r.M = map[string]int32{}
		default: // one entry: no iteration order
			r.M = map[string]int32{boundaryString(rng): int32(boundaryInt(rng, 4))}
		}
	}
	return rows
}

func genBRows(seed int64, n int) []bRow {
	rng := rand.New(rand.NewSource(seed))
	gen16 := func() (v [16]byte) {
		for k := range v {
			v[k] = byte(rng.Intn(2)) * 0xFF
		}
		if rng.Intn(3) != 0 {
			copy(v[:8], []byte{255, 255, 255, 255, 255, 255, 255, 0})
			if rng.Intn(2) == 0 {
				v[8] = 0xFF
			}
		}
		return v
	}
	rows := make([]bRow, n)
	for i := range rows {
		rows[i].U = gen16()
		rows[i].F = gen16()
		if rng.Intn(4) != 0 {
			o := gen16()
			rows[i].O = &o
		}
	}
	return rows
}

func genTRows(seed int64, n int) []tRow {
	rng := rand.New(rand.NewSource(seed))
	f64 := []float64{0, math.Copysign(0, -1), math.NaN(), 1.5, -2.25, math.Inf(1), math.Float64frombits(0x7ff8000000000001), 1e-300}
	f32 := []float32{0, float32(math.Copysign(0, -1)), float32(math.NaN()), 0.5, -7, float32(math.Inf(-1))}
	rows := make([]tRow, n)
	for i := range rows {
		r := &rows[i]
		r.ID = int64(i)*3 + int64(rng.Intn(3))
		r.F64 = f64[rng.Intn(len(f64))]
		r.F32 = f32[rng.Intn(len(f32))]
		if rng.Intn(3) != 0 {
			r.I32 = int32(rng.Intn(9))
		}
		if rng.Intn(3) != 0 {
			r.S = fmt.Sprintf("s%03d", rng.Intn(40))
		}
		r.B = rng.Intn(5) < 3
		for k := rng.Intn(4); k > 0; k-- {
			r.L = append(r.L, int32(rng.Intn(5)))
		}
		if rng.Intn(2) == 0 {
			v := int64(rng.Intn(1000)) - 500
			r.P = &v
		}
		r.D = int32(rng.Intn(7))
		if rng.Intn(3) == 0 {
			r.G = tInner{X: int32(rng.Intn(3)), Y: int32(rng.Intn(2))}
		}
		r.Q = f64[rng.Intn(len(f64))]
	}
	return rows
}

// rlePattern is the regression of the AVX2 kernel: groups of eight indexes that
// are constant within each half (1,1,1,1,5,5,5,5).
var rlePattern = []int32{6, 6, 1, 1, 1, 1, 1, 1, 1, 1, 1, 1, 5, 5, 5, 5}

func genDRows(seed int64, groups int) []dRow {
	rng := rand.New(rand.NewSource(seed))
	var idx []int32
	for i := int32(0); i < 8; i++ { // dictionary 100..107 in insertion order: width 3, one full group of eight
		idx = append(idx, i)
	}
	idx = append(idx, rlePattern...)
	for g := 0; g < groups; g++ {
		a, b := int32(rng.Intn(8)), int32(rng.Intn(8))
		switch rng.Intn(5) {
		case 0: // constant group
			for k := 0; k < 8; k++ {
				idx = append(idx, a)
			}
		case 1, 2: // constant halves
			idx = append(idx, a, a, a, a, b, b, b, b)
		case 3: // alternating
			idx = append(idx, a, b, a, b, a, b, a, b)
		default:
			for k := 0; k < 8; k++ {
				idx = append(idx, int32(rng.Intn(8)))
			}
		}
	}
	rows := make([]dRow, len(idx))
	for i, x := range idx {
		rows[i].D = 100 + x
		if i >= 8 {
			rows[i].O = 1 + idx[(i*5+3)%len(idx)]%3
			if (i/8)%3 == 1 {
				rows[i].O = rows[i-1].O
			}
		}
		rows[i].B = (i/4)%2 == 0 || x == 1
	}
	return rows
}

// ---------------------------------------------------------------------------
// specification of one production: everything derives from it
// ---------------------------------------------------------------------------

type spec struct {
	Family  string   `json:"family"`               // gen | typed | rle | sorting | encrypted | be128 | opt | ints | logical
	Combo   string   `json:"combo,omitempty"`      // ints: the (Go integer kind / width tag) combination
	API     string   `json:"api,omitempty"`        // generic | writer
	Case    gen.Case `json:"case"`                 // gen family: the generated case; others: Seed and NRows
	DictMax int64    `json:"dict_max,omitempty"`   // DictionaryMaxBytes override (forces the fallback to PLAIN)
	KV      int      `json:"kv,omitempty"`         // number of key/value pairs in the configuration (a Go map)
	Extra   int      `json:"extra,omitempty"`      // rows available to previous lives
	FinalKV int      `json:"final_kv,omitempty"`   // SetKeyValueMetadata calls of the file under test: 1 overrides a configured key, 2 adds a key, 3 both
	WBuf    int      `json:"wbuf,omitempty"`       // WriteBufferSize: 0 = the default (32 KiB), -1 = unbuffered, n = n bytes
	Dedupe  bool     `json:"dedupe,omitempty"`     // sorting: DropDuplicatedRows
	Keys    int      `json:"keys,omitempty"`       // sorting: number of distinct sorting keys over ALL rows, previous lives included (0 = every row its own key, previous lives apart)
	Desc    bool     `json:"desc,omitempty"`       // sorting: descending
	Len     int      `json:"len,omitempty"`        // bloomlen: the length in bytes of every byte array value of the file
	Tags    int      `json:"tags,omitempty"`       // typed families: bit mask of the parquet.StructTag replacements among the writer options (tagSets)
	NullFin bool     `json:"null_final,omitempty"` // typed families: every optional column of the file under test holds only nulls (the previous lives hold values)
}

func (s spec) key() string { b, _ := json.Marshal(s); return string(b) }

// pooled is a writer over a pool of rows: rows [0, n) are the rows of the file
// under test, rows [n, n+extra) belong to previous lives.
type pooled interface {
	WriteIdx(lo, hi int) error
	WriteRowGroupIdx(lo, hi int) error
	Flush() error
	Close() error
	Reset(io.Writer)
	SetKV(k, v string)
}

// bufferFailer: writers whose buffer pools (SortingBuffers) can be made to fail.
type bufferFailer interface {
	// SetBufferFail: at >= 0 - the buffers of the pool accept at more bytes,
	// then every Write fails (read: every Read fails instead); at < 0 - the
	// pool works.
	SetBufferFail(at int, read bool)
}

// kvKey / kvVal: the key/value strings of the numbers the model uses.
func kvKey(k int) string { return fmt.Sprintf("key-%02d", k) }
func kvVal(v int) string { return fmt.Sprintf("value %d", v) }

type pooledBuffer interface {
	WriteIdx(lo, hi int) error
	Reset()
	Sort()
	RowGroup() parquet.RowGroup
}

type factory struct {
	sp       spec
	n, extra int
	hist     []int // final history: batch sizes, negative = Flush
	maxRows  int64
	ncols    int
	mk       func(sink io.Writer) pooled
	mkBuffer func(sorted bool) pooledBuffer // nil when not applicable
	mkPlain  func(sink io.Writer) pooled    // writer that receives a buffer as a row group
	prepare  func()                         // run before every production (deterministic nonce source)
	combo    *intCombo                      // ints family: the combination
	intCols  func() [][]uint64              // ints family: the bit patterns of the Go values of every leaf column of the file under test
	blooms   []bloomCol                     // the columns with a configured bloom filter whose encoding is known (bloom location model)
}

// ---- gen family: parquet.Row pool, GenericWriter[any] or Writer ----

type rowAPI interface {
	WriteRows([]parquet.Row) (int, error)
	WriteRowGroup(parquet.RowGroup) (int64, error)
	Flush() error
	Close() error
	Reset(io.Writer)
	SetKeyValueMetadata(string, string)
}

type rowPool struct {
	w      rowAPI
	rows   []parquet.Row
	schema *parquet.Schema
}

func cloneRows(rows []parquet.Row) []parquet.Row {
	out := make([]parquet.Row, len(rows))
	for i := range rows {
		out[i] = rows[i].Clone()
	}
	return out
}

func (p *rowPool) WriteIdx(lo, hi int) error {
	_, err := p.w.WriteRows(cloneRows(p.rows[lo:hi]))
	return err
}
func (p *rowPool) WriteRowGroupIdx(lo, hi int) error {
	buf := parquet.NewGenericBuffer[any](p.schema)
	if _, err := buf.WriteRows(cloneRows(p.rows[lo:hi])); err != nil {
		return err
	}
	_, err := p.w.WriteRowGroup(buf)
	return err
}
func (p *rowPool) Flush() error      { return p.w.Flush() }
func (p *rowPool) Close() error      { return p.w.Close() }
func (p *rowPool) Reset(s io.Writer) { p.w.Reset(s) }
func (p *rowPool) SetKV(k, v string) { p.w.SetKeyValueMetadata(k, v) }

type rowBufPool struct {
	b    *parquet.GenericBuffer[any]
	rows []parquet.Row
}

func (p *rowBufPool) WriteIdx(lo, hi int) error {
	_, err := p.b.WriteRows(cloneRows(p.rows[lo:hi]))
	return err
}
func (p *rowBufPool) Reset()                     { p.b.Reset() }
func (p *rowBufPool) Sort()                      { sort.Sort(p.b) }
func (p *rowBufPool) RowGroup() parquet.RowGroup { return p.b }

// ---- typed families ----

type typedPool[T any] struct {
	w    *parquet.GenericWriter[T]
	rows []T
}

func (p *typedPool[T]) WriteIdx(lo, hi int) error {
	_, err := p.w.Write(p.rows[lo:hi])
	return err
}
func (p *typedPool[T]) WriteRowGroupIdx(lo, hi int) error {
	buf := parquet.NewGenericBuffer[T]()
	if _, err := buf.Write(p.rows[lo:hi]); err != nil {
		return err
	}
	_, err := p.w.WriteRowGroup(buf)
	return err
}
func (p *typedPool[T]) Flush() error      { return p.w.Flush() }
func (p *typedPool[T]) Close() error      { return p.w.Close() }
func (p *typedPool[T]) Reset(s io.Writer) { p.w.Reset(s) }
func (p *typedPool[T]) SetKV(k, v string) { p.w.SetKeyValueMetadata(k, v) }

// the deprecated Writer fed one struct at a time
type anyPool[T any] struct {
	w    *parquet.Writer
	rows []T
}

func (p *anyPool[T]) WriteIdx(lo, hi int) error {
	for i := lo; i < hi; i++ {
		if err := p.w.Write(&p.rows[i]); err != nil {
			return err
		}
	}
	return nil
}
func (p *anyPool[T]) WriteRowGroupIdx(lo, hi int) error {
	buf := parquet.NewGenericBuffer[T]()
	if _, err := buf.Write(p.rows[lo:hi]); err != nil {
		return err
	}
	_, err := p.w.WriteRowGroup(buf)
	return err
}
func (p *anyPool[T]) Flush() error      { return p.w.Flush() }
func (p *anyPool[T]) Close() error      { return p.w.Close() }
func (p *anyPool[T]) Reset(s io.Writer) { p.w.Reset(s) }
func (p *anyPool[T]) SetKV(k, v string) { p.w.SetKeyValueMetadata(k, v) }

type sortingPool[T any] struct {
	w    *parquet.SortingWriter[T]
	rows []T
	pool *flakyPool
}

func (p *sortingPool[T]) SetBufferFail(at int, read bool) {
	p.pool.failAt, p.pool.failRead, p.pool.n = at, read, 0
}

// flakyPool is the SortingBuffers pool of the sorting family: in-memory
// buffers which, while failAt >= 0, accept failAt more bytes and then fail.
type flakyPool struct {
	failAt   int
	failRead bool
	n        int
}

var errPool = errors.New("c17: buffer of the pool failed")

type flakyBuffer struct {
	pool *flakyPool
	data []byte
	off  int64
}

func (p *flakyPool) GetBuffer() io.ReadWriteSeeker { return &flakyBuffer{pool: p} }
func (p *flakyPool) PutBuffer(io.ReadWriteSeeker)  {}

func (b *flakyBuffer) Write(p []byte) (int, error) {
	var err error
	if pl := b.pool; pl.failAt >= 0 && !pl.failRead {
		if pl.n+len(p) > pl.failAt {
			p, err = p[:max(0, pl.failAt-pl.n)], errPool
		}
		pl.n += len(p)
	}
	if n := int(b.off) + len(p); n > len(b.data) {
		b.data = append(b.data, make([]byte, n-len(b.data))...)
	}
	copy(b.data[b.off:], p)
	b.off += int64(len(p))
	return len(p), err
}

func (b *flakyBuffer) Read(p []byte) (int, error) {
	if pl := b.pool; pl.failAt >= 0 && pl.failRead {
		if pl.n+len(p) > pl.failAt {
			return 0, errPool
		}
		pl.n += len(p)
	}
	if b.off >= int64(len(b.data)) {
		return 0, io.EOF
	}
	n := copy(p, b.data[b.off:])
	b.off += int64(n)
	return n, nil
}

func (b *flakyBuffer) Seek(offset int64, whence int) (int64, error) {
	switch whence {
	case io.SeekCurrent:
		offset += b.off
	case io.SeekEnd:
		offset += int64(len(b.data))
	}
	if offset < 0 {
		return 0, errors.New("c17: seek before the start of the buffer")
	}
	b.off = offset
	return offset, nil
}

func (p *sortingPool[T]) WriteIdx(lo, hi int) error {
	_, err := p.w.Write(p.rows[lo:hi])
	return err
}
func (p *sortingPool[T]) WriteRowGroupIdx(lo, hi int) error { return p.WriteIdx(lo, hi) }
func (p *sortingPool[T]) Flush() error                      { return p.w.Flush() }
func (p *sortingPool[T]) Close() error                      { return p.w.Close() }
func (p *sortingPool[T]) Reset(s io.Writer)                 { p.w.Reset(s) }
func (p *sortingPool[T]) SetKV(k, v string)                 { p.w.SetKeyValueMetadata(k, v) }

type typedBufPool[T any] struct {
	b    *parquet.GenericBuffer[T]
	rows []T
}

func (p *typedBufPool[T]) WriteIdx(lo, hi int) error {
	_, err := p.b.Write(p.rows[lo:hi])
	return err
}
func (p *typedBufPool[T]) Reset()                     { p.b.Reset() }
func (p *typedBufPool[T]) Sort()                      { sort.Sort(p.b) }
func (p *typedBufPool[T]) RowGroup() parquet.RowGroup { return p.b }

func kvOptions(n int) []parquet.WriterOption {
	var o []parquet.WriterOption
	for i := 0; i < n; i++ {
		o = append(o, parquet.KeyValueMetadata(fmt.Sprintf("key-%02d", (i*7)%n), fmt.Sprintf("value %d", i)))
	}
	return o
}

// wbufOption: the WriteBufferSize of a spec (a failing sink is seen when the
// buffer in front of it overflows: with the default 32 KiB, small files fail at
// Close only).
func wbufOption(sp spec) []parquet.WriterOption {
	switch {
	case sp.WBuf < 0:
		return []parquet.WriterOption{parquet.WriteBufferSize(0)}
	case sp.WBuf > 0:
		return []parquet.WriterOption{parquet.WriteBufferSize(sp.WBuf)}
	}
	return nil
}

func histOf(seed int64, n int) []int { return gen.GenHistory(rand.New(rand.NewSource(seed^0x17)), n) }

var c17Key = []byte("0123456789abcdef")

type c17Keys struct{}

func (c17Keys) FooterKey([]byte) ([]byte, error)           { return c17Key, nil }
func (c17Keys) ColumnKey([]string, []byte) ([]byte, error) { return []byte("fedcba9876543210"), nil }

func typedFactory[T any](sp spec, rows []T, n int, sortCol string, maxRows int64, baseOpts func() []parquet.WriterOption) *factory {
	f := &factory{sp: sp, n: n, extra: len(rows) - n, hist: histOf(sp.Case.Seed, n), maxRows: math.MaxInt64}
	if maxRows > 0 {
		f.maxRows = maxRows
	}
	// (the schema is derived with the spec's own schema options: a production in a
	// fresh process must not touch the plain schema of the Go type first)
	f.ncols = len(parquet.SchemaOf(new(T), tagOptions(sp)...).Columns())
	opts := func() []parquet.WriterOption {
		o := baseOpts()
		for _, t := range tagOptions(sp) {
			o = append(o, t.(parquet.WriterOption))
		}
		if sp.DictMax > 0 {
			o = append(o, parquet.DictionaryMaxBytes(sp.DictMax))
		}
		if sp.Family != "sorting" && sp.Case.Seed%2 == 1 {
			// declared (not enforced) sorting columns of the writer configuration:
			// the last leaf, descending, nulls first (so that a zeroed entry differs)
			cols := parquet.SchemaOf(new(T), tagOptions(sp)...).Columns()
			o = append(o, parquet.SortingWriterConfig(parquet.SortingColumns(parquet.NullsFirst(parquet.Descending(cols[len(cols)-1]...)))))
		}
		return append(append(o, wbufOption(sp)...), kvOptions(sp.KV)...)
	}
	switch {
	case sp.Family == "sorting":
		f.mk = func(sink io.Writer) pooled {
			col := parquet.Ascending(sortCol)
			if sp.Desc {
				col = parquet.Descending(sortCol)
			}
			pool := &flakyPool{failAt: -1}
			o := append(opts(), parquet.SortingWriterConfig(parquet.SortingColumns(col), parquet.DropDuplicatedRows(sp.Dedupe), parquet.SortingBuffers(pool)))
			return &sortingPool[T]{w: parquet.NewSortingWriter[T](sink, 37, o...), rows: rows, pool: pool}
		}
	case sp.API == "writer":
		f.mk = func(sink io.Writer) pooled {
			return &anyPool[T]{w: parquet.NewWriter(sink, append(opts(), parquet.SchemaOf(new(T), tagOptions(sp)...))...), rows: rows}
		}
	default:
		f.mk = func(sink io.Writer) pooled {
			return &typedPool[T]{w: parquet.NewGenericWriter[T](sink, opts()...), rows: rows}
		}
	}
	f.mkPlain = func(sink io.Writer) pooled {
		return &typedPool[T]{w: parquet.NewGenericWriter[T](sink, opts()...), rows: rows}
	}
	f.mkBuffer = func(sorted bool) pooledBuffer {
		if sorted {
			return &typedBufPool[T]{b: parquet.NewGenericBuffer[T](parquet.SortingRowGroupConfig(parquet.SortingColumns(parquet.Ascending(sortCol)))), rows: rows}
		}
		return &typedBufPool[T]{b: parquet.NewGenericBuffer[T](), rows: rows}
	}
	if sp.Tags != 0 {
		f.mkBuffer = nil // the buffers are built from the plain Go type
	}
	return f
}

// tagSets: the parquet.StructTag replacements of each typed family, by Go field
// name. Bit k of spec.Tags selects entry k. No replacement renames a column or
// changes the number of leaves (bloom filters and sorting columns name them):
// they change the encoding, the compression and the optionality, as a writer
// option instead of a change of the Go type.
var tagSets = map[string][]struct{ Field, Tag string }{
	"typed": {{"S", `parquet:"s,optional,zstd"`}, {"ID", `parquet:"id"`}, {"D", `parquet:"d,optional,dict"`}, {"Q", `parquet:"q,optional,gzip"`}, {"F64", `parquet:"f64"`}, {"I32", `parquet:"i32,delta"`}},
	"rle":   {{"D", `parquet:"d,delta"`}, {"O", `parquet:"o"`}, {"B", `parquet:"b,optional,snappy"`}},
	"be128": {{"U", `parquet:"u"`}, {"F", `parquet:"f,optional,dict"`}, {"O", `parquet:"o,snappy"`}},
	"opt":   {{"S", `parquet:"s,optional,dict,zstd"`}, {"SD", `parquet:"sd"`}, {"I64", `parquet:"i64,delta"`}, {"Y", `parquet:"y,optional,dict"`}, {"I32", `parquet:"i32,optional,dict,snappy"`}},
}

func tagOptions(sp spec) []parquet.SchemaOption {
	set := tagSets[sp.Family]
	var out []parquet.SchemaOption
	for k, t := range set {
		if sp.Tags&(1<<uint(k)) != 0 {
			out = append(out, parquet.StructTag(reflect.StructTag(t.Tag), t.Field))
		}
	}
	return out
}

// buildPanics counts the specs that could not be built, by message (reported as a note).
var buildPanics = map[string]int{}

// panickedLives counts the previous lives that ended in a panic of the library, by message (a note).
var panickedLives = map[string]int{}

// build makes the factory of a spec. ok=false: the spec cannot be built.
func build(sp spec) (f *factory, ok bool) {
	defer func() {
		if r := recover(); r != nil {
			if sp.Family == "gen" {
				buildPanics["gen: "+fmt.Sprint(r)]++
			} else {
				buildPanics[fmt.Sprint(r)]++
			}
			f, ok = nil, false
		}
	}()
	switch sp.Family {
	case "gen":
		b := sp.Case.Build()
		if sp.DictMax > 0 {
			b.Opts.DictMaxBytes = sp.DictMax
		}
		rows := append([]parquet.Row(nil), b.Rows...)
		rrng := rand.New(rand.NewSource(sp.Case.Seed ^ 0x2545F491))
		for i := 0; i < sp.Extra; i++ {
			rows = append(rows, gen.Shred(b.Root, gen.Row(rrng, b.Root, (sp.Case.NullBias+3)%8)))
		}
		f = &factory{sp: sp, n: len(b.Rows), extra: sp.Extra, hist: b.History, maxRows: math.MaxInt64, ncols: len(b.Root.Leaves())}
		if b.Opts.MaxRows > 0 {
			f.maxRows = b.Opts.MaxRows
		}
		opts := func() []parquet.WriterOption {
			return append(append(append([]parquet.WriterOption{b.Schema}, b.Opts.WriterOptions(b.Root)...), wbufOption(sp)...), kvOptions(sp.KV)...)
		}
		f.mk = func(sink io.Writer) pooled {
			if sp.API == "writer" {
				return &rowPool{w: parquet.NewWriter(sink, opts()...), rows: rows, schema: b.Schema}
			}
			return &rowPool{w: parquet.NewGenericWriter[any](sink, opts()...), rows: rows, schema: b.Schema}
		}
		f.mkPlain = f.mk
		f.mkBuffer = func(sorted bool) pooledBuffer {
			return &rowBufPool{b: parquet.NewGenericBuffer[any](b.Schema), rows: rows}
		}
		return f, true
	case "typed", "sorting":
		n := sp.Case.NRows
		rows := genTRows(sp.Case.Seed, n+sp.Extra)
		// previous lives get a wider value range
		for i := n; i < len(rows); i++ {
			rows[i].ID += 1 << 40
			rows[i].D += 50
			rows[i].S = "zzzz-" + rows[i].S
			rows[i].Q = -1e9
		}
		if sp.NullFin {
			for i := 0; i < n && i < len(rows); i++ {
				r := &rows[i]
				r.F64, r.F32, r.I32, r.S, r.L, r.P, r.G = 0, 0, 0, "", nil, nil, tInner{}
			}
			for i := n; i < len(rows); i++ {
				if rows[i].S == "" {
					rows[i].S = "zzzz-"
				}
			}
		}
		if sp.Keys > 0 {
			// a chosen number of distinct sorting keys shared by the file and the previous lives
			krng := rand.New(rand.NewSource(sp.Case.Seed ^ 0x4b))
			for i := range rows {
				rows[i].ID = int64(krng.Intn(sp.Keys)) * 5
			}
		}
		mrng := rand.New(rand.NewSource(sp.Case.Seed ^ 0x77))
		maxRows := int64(0)
		if mrng.Intn(3) == 0 {
			maxRows = int64(10 + mrng.Intn(50))
		}
		orng := rand.New(rand.NewSource(sp.Case.Seed ^ 0x99))
		pageBuf, pageVer, codec, bloom := []int{128, 1024, 1 << 16}[orng.Intn(3)], 1+orng.Intn(2), allCodecs[orng.Intn(len(allCodecs))], orng.Intn(2) == 0
		f := typedFactory(sp, rows, n, "id", maxRows, func() []parquet.WriterOption {
			o := []parquet.WriterOption{parquet.PageBufferSize(pageBuf), parquet.DataPageVersion(pageVer), parquet.Compression(gen.Codecs[codec])}
			if bloom {
				o = append(o, parquet.BloomFilters(parquet.SplitBlockFilter(10, "s"), parquet.SplitBlockFilter(10, "d")))
			}
			if maxRows > 0 {
				o = append(o, parquet.MaxRowsPerRowGroup(maxRows))
			}
			return o
		})
		if bloom && sp.Family == "typed" && sp.Tags == 0 {
			f.blooms = []bloomCol{{"s", true}, {"d", true}}
		}
		return f, true
	case "rle":
		rows := genDRows(sp.Case.Seed, sp.Case.NRows)
		n := len(rows)
		extra := genDRows(sp.Case.Seed+1, sp.Extra/8)
		for i := range extra {
			extra[i].D += 1000
		}
		rows = append(rows, extra...)
		if sp.NullFin {
			for i := 0; i < n; i++ {
				rows[i].O = 0
			}
		}
		f := typedFactory(sp, rows, n, "d", 0, func() []parquet.WriterOption {
			o := []parquet.WriterOption{parquet.DataPageVersion(1 + int(sp.Case.Seed&1))}
			if sp.NullFin {
				o = append(o, parquet.BloomFilters(parquet.SplitBlockFilter(10, "o"), parquet.SplitBlockFilter(10, "d")))
			}
			return o
		})
		f.hist = []int{n}
		if sp.NullFin && sp.Tags == 0 {
			f.blooms = []bloomCol{{"o", true}, {"d", true}}
		}
		return f, true
	case "be128":
		n := sp.Case.NRows
		rows := genBRows(sp.Case.Seed, n+sp.Extra)
		return typedFactory(sp, rows, n, "u", 0, func() []parquet.WriterOption {
			return []parquet.WriterOption{parquet.DataPageVersion(1 + int(sp.Case.Seed&1)), parquet.PageBufferSize(1 << 12)}
		}), true
	case "opt":
		n := sp.Case.NRows
		rows := genORows(sp.Case.Seed, n+sp.Extra)
		if sp.NullFin {
			for i := 0; i < n && i < len(rows); i++ {
				rows[i] = oRow{ID: rows[i].ID}
			}
		}
		f := typedFactory(sp, rows, n, "id", 0, func() []parquet.WriterOption {
			o := []parquet.WriterOption{parquet.DataPageVersion(1 + int(sp.Case.Seed&1)), parquet.PageBufferSize([]int{96, 1 << 12, 1 << 16}[uint64(sp.Case.Seed)%3])}
			if sp.NullFin {
				o = append(o, parquet.BloomFilters(parquet.SplitBlockFilter(10, "sd"), parquet.SplitBlockFilter(10, "s"), parquet.SplitBlockFilter(10, "i32"), parquet.SplitBlockFilter(10, "uu")))
			}
			return o
		})
		if sp.NullFin && sp.Tags == 0 {
			f.blooms = []bloomCol{{"sd", true}, {"s", false}, {"i32", false}, {"uu", false}}
		}
		return f, true
	case "ints":
		cb := intComboOf(sp.Combo)
		if cb == nil {
			return nil, false
		}
		return cb.mk(sp, cb), true
	case "logical":
		return logicalFactory(sp), true
	case "bloomlen":
		return bloomLenFactory(sp), true
	case "encrypted":
		n := sp.Case.NRows
		rows := genTRows(sp.Case.Seed, n+sp.Extra)
		f := typedFactory(sp, rows, n, "id", 0, func() []parquet.WriterOption {
			cfg := &parquet.EncryptionConfig{FooterKey: c17Key, EncryptedFooter: sp.Case.Seed%2 == 0, FileIdentifier: []byte("c17-file"),
				AadPrefix: []byte("p")}
			if sp.Case.Seed%3 == 0 {
				cfg.ColumnKeys = map[string][]byte{"s": []byte("fedcba9876543210")}
			}
			return []parquet.WriterOption{parquet.WithEncryption(cfg), parquet.PageBufferSize(256),
				parquet.BloomFilters(parquet.SplitBlockFilter(10, "s"))}
		})
		f.prepare = func() { crand.Reader = &detRand{n: uint64(sp.Case.Seed)} }
		f.mkBuffer = nil
		return f, true
	}
	return nil, false
}

// ---------------------------------------------------------------------------
// lives
// ---------------------------------------------------------------------------

// life is one previous use of the writer.
type life struct {
	Kind   string `json:"kind"` // closed | flushes | abandon | sinkfail | bufferfail | rowgroup | copyfile | kv | empty
	Lo     int    `json:"lo"`   // rows [Lo, Hi) of the extra rows
	Hi     int    `json:"hi"`
	FailAt int    `json:"fail_at,omitempty"`
	Batch  int    `json:"batch,omitempty"`
	Read   bool   `json:"read,omitempty"`    // bufferfail: the buffers fail when read (the merge on Close) instead of when written
	KVMode int    `json:"kv_mode,omitempty"` // kv: 0 new key then override of a configured key | 1 override then new key | 2 override only | 3 every configured key overridden, new key, override again
}

func (l life) sink() io.Writer {
	if l.Kind == "sinkfail" {
		return &failSink{limit: l.FailAt}
	}
	return &bytes.Buffer{}
}

// runLife executes a previous life (errors of a failing sink are expected) and
// returns the operations for the model.
func runLife(w pooled, f *factory, l life) (ops []string) {
	lo, hi := f.n+l.Lo, f.n+l.Hi
	if hi > f.n+f.extra {
		hi = f.n + f.extra
	}
	if lo > hi {
		lo = hi
	}
	batch := l.Batch
	if batch <= 0 {
		batch = 17
	}
	w1 := func(a, b int) bool {
		ops = append(ops, fmt.Sprintf("w%x+%x", a, b-a))
		return w.WriteIdx(a, b) == nil
	}
	switch l.Kind {
	case "empty":
		ops = append(ops, "c")
		_ = w.Close()
	case "kv":
		set := func(k, v int) {
			w.SetKV(kvKey(k), kvVal(v))
			ops = append(ops, fmt.Sprintf("k%x=%x", k, v))
		}
		switch l.KVMode {
		case 1:
			set(0, 99)
			set(99, 1)
		case 2:
			set(0, 99)
		case 3:
			for k := f.sp.KV - 1; k >= 0; k-- {
				set(k, 90+k)
			}
			set(98, 2)
			set(0, 97)
		default:
			set(99, 1)
			set(0, 99)
		}
		if w1(lo, hi) {
			ops = append(ops, "c")
			_ = w.Close()
		}
	case "copyfile":
		cops, ok := copyFileLife(w, f, lo, hi, batch%2 == 0)
		if ok {
			return append(ops, cops...)
		}
		if w1(lo, hi) {
			ops = append(ops, "c")
			_ = w.Close()
		}
	case "rowgroup":
		ops = append(ops, fmt.Sprintf("g%x+%x", lo, hi-lo), "c")
		if w.WriteRowGroupIdx(lo, hi) == nil {
			_ = w.Close()
		}
	case "abandon":
		for a := lo; a < hi; a += batch {
			if !w1(a, min(a+batch, hi)) {
				return
			}
			if a == lo && hi-lo > 2*batch {
				ops = append(ops, "f")
				if w.Flush() != nil {
					return
				}
			}
		}
		ops = append(ops, "a")
	case "bufferfail":
		// a buffer pool of the writer fails (SortingWriter: the buffer holding the
		// sorted chunks); the file is given up at the first error.  Writers
		// without such a pool: an abandoned file.
		bf, _ := w.(bufferFailer)
		if bf != nil {
			bf.SetBufferFail(l.FailAt, l.Read)
			defer bf.SetBufferFail(-1, false)
		}
		for a := lo; a < hi; a += batch {
			if !w1(a, min(a+batch, hi)) {
				return
			}
			ops = append(ops, "f")
			if w.Flush() != nil {
				return
			}
		}
		if bf != nil {
			ops = append(ops, "c")
			_ = w.Close() // what the write buffer still holds reaches the failing buffer now
		} else {
			ops = append(ops, "a")
		}
	case "sinkfail":
		// the model's FailWrite fails the flush after some events; which bytes
		// the broken sink accepted is irrelevant after Reset
		ops = append(ops, fmt.Sprintf("x%x+%x+%x", lo, hi-lo, l.FailAt%5))
		for a := lo; a < hi; a += batch {
			if w.WriteIdx(a, min(a+batch, hi)) != nil {
				return
			}
			if w.Flush() != nil {
				return
			}
		}
		_ = w.Close()
	case "flushes":
		for a := lo; a < hi; a += batch {
			if !w1(a, min(a+batch, hi)) {
				return
			}
			ops = append(ops, "f")
			if w.Flush() != nil {
				return
			}
		}
		ops = append(ops, "c")
		_ = w.Close()
	default: // closed
		if w1(lo, hi) {
			ops = append(ops, "c")
			_ = w.Close()
		}
	}
	return ops
}

// finalLife writes the file under test: the final history over rows [0, n).
func finalLife(w pooled, f *factory) (ops []string, err error) {
	i := 0
	if f.sp.FinalKV&1 != 0 {
		w.SetKV(kvKey(0), kvVal(77))
		ops = append(ops, fmt.Sprintf("k%x=%x", 0, 77))
	}

	for _, h := range f.hist {
		if h < 0 {
			ops = append(ops, "f")
			if err := w.Flush(); err != nil {
				return ops, fmt.Errorf("flush: %w", err)
			}
			continue
		}
		ops = append(ops, fmt.Sprintf("w%x+%x", i, h))
		if err := w.WriteIdx(i, i+h); err != nil {
			return ops, fmt.Errorf("write: %w", err)
		}
		i += h
	}
	if f.sp.FinalKV&2 != 0 {
		w.SetKV(kvKey(88), kvVal(5))
		ops = append(ops, fmt.Sprintf("k%x=%x", 88, 5))
	}
	ops = append(ops, "c")
	if err := w.Close(); err != nil {
		return ops, fmt.Errorf("close: %w", err)
	}
	return ops, nil
}

type outcome struct {
	bytes []byte
	err   string
	ops   []string
}

func guard(f func()) (panicked string) {
	defer func() {
		if r := recover(); r != nil {
			panicked = fmt.Sprint(r)
		}
	}()
	f()
	return ""
}

// produceFresh: a new writer, the final history, Close.
func produceFresh(f *factory) outcome {
	var out outcome
	var buf bytes.Buffer
	if p := guard(func() {
		if f.prepare != nil {
			f.prepare()
		}
		w := f.mk(&buf)
		ops, err := finalLife(w, f)
		out.ops = ops
		if err != nil {
			out.err = err.Error()
		}
	}); p != "" {
		out.err = "panic: " + p
	}
	out.bytes = buf.Bytes()
	return out
}

// produceReused: previous lives on one writer, then Reset and the final history.
func produceReused(f *factory, lives []life) outcome {
	var out outcome
	var buf bytes.Buffer
	if p := guard(func() {
		if len(lives) == 0 {
			panic("no previous life")
		}
		w := f.mk(lives[0].sink())
		for i, l := range lives {
			if i > 0 {
				w.Reset(l.sink())
				out.ops = append(out.ops, "r")
			}
			// a life that ends in a panic of the library (a value the write path
			// refuses) is a failed life like any other: Reset must recover from it
			var lops []string
			if p := guard(func() { lops = runLife(w, f, l) }); p != "" {
				lops = []string{"a"}
				panickedLives[core.Trunc(p, 120)]++
			}
			out.ops = append(out.ops, lops...)
		}
		if f.prepare != nil {
			f.prepare()
		}
		w.Reset(&buf)
		out.ops = append(out.ops, "r")
		ops, err := finalLife(w, f)
		out.ops = append(out.ops, ops...)
		if err != nil {
			out.err = err.Error()
		}
	}); p != "" {
		out.err = "panic: " + p
	}
	out.bytes = buf.Bytes()
	return out
}

// produceFromBuffer: rows go to a GenericBuffer (reused through Reset when
// prev > 0), which a fresh writer receives with WriteRowGroup.
func produceFromBuffer(f *factory, prev int, sorted, sortBeforeReset bool) outcome {
	var out outcome
	var buf bytes.Buffer
	if p := guard(func() {
		b := f.mkBuffer(sorted)
		for k := 0; k < prev; k++ {
			lo := f.n + (k*31)%(f.extra+1)
			if err := b.WriteIdx(lo, f.n+f.extra); err != nil {
				panic(err)
			}
			if sortBeforeReset {
				b.Sort() // leaves the "reordered" flag set
			}
			b.Reset()
		}
		if err := b.WriteIdx(0, f.n); err != nil {
			out.err = err.Error()
			return
		}
		if sorted {
			b.Sort()
		}
		w := f.mkPlain(&buf)
		wr := w.(interface {
			WriteRowGroup(parquet.RowGroup) (int64, error)
		})
		if _, err := wr.WriteRowGroup(b.RowGroup()); err != nil {
			out.err = "write row group: " + err.Error()
			return
		}
		if err := w.Close(); err != nil {
			out.err = "close: " + err.Error()
		}
	}); p != "" {
		out.err = "panic: " + p
	}
	out.bytes = buf.Bytes()
	return out
}

func (p *rowPool) WriteRowGroup(rg parquet.RowGroup) (int64, error) { return p.w.WriteRowGroup(rg) }
func (p *typedPool[T]) WriteRowGroup(rg parquet.RowGroup) (int64, error) {
	return p.w.WriteRowGroup(rg)
}
func (p *anyPool[T]) WriteRowGroup(rg parquet.RowGroup) (int64, error) { return p.w.WriteRowGroup(rg) }

// ---------------------------------------------------------------------------
// comparison, description of a difference
// ---------------------------------------------------------------------------

func openFile(b []byte) (*parquet.File, error) {
	return parquet.OpenFile(bytes.NewReader(b), int64(len(b)), parquet.WithDecryption(c17Keys{}))
}

func rowGroupRows(b []byte) (rows []int64, kv []string, err error) {
	f, err := openFile(b)
	if err != nil {
		return nil, nil, err
	}
	md := f.Metadata()
	for _, rg := range md.RowGroups {
		rows = append(rows, rg.NumRows)
	}
	for _, e := range md.KeyValueMetadata {
		kv = append(kv, e.Key+"="+e.Value)
	}
	return rows, kv, nil
}

func describeDiff(a, b []byte) string {
	n := min(len(a), len(b))
	first := n
	for i := 0; i < n; i++ {
		if a[i] != b[i] {
			first = i
			break
		}
	}
	s := fmt.Sprintf("lengths %d and %d, first difference at byte %d", len(a), len(b), first)
	fa, ea := openFile(a)
	fb, eb := openFile(b)
	if ea != nil || eb != nil {
		return s + fmt.Sprintf("; open: %v / %v", ea, eb)
	}
	ja, erra := json.Marshal(fa.Metadata())
	jb, errb := json.Marshal(fb.Metadata())
	if erra != nil || errb != nil { // infinite or NaN bounds have no JSON
		ja, jb = []byte(fmt.Sprintf("%+v", *fa.Metadata())), []byte(fmt.Sprintf("%+v", *fb.Metadata()))
	}
	if !bytes.Equal(ja, jb) {
		k := 0
		for k < len(ja) && k < len(jb) && ja[k] == jb[k] {
			k++
		}
		lo := max(0, k-80)
		s += "; footers differ: ..." + core.Trunc(string(ja[lo:]), 200) + " <> ..." + core.Trunc(string(jb[lo:]), 200)
	} else {
		s += "; footers decode to the same metadata (the difference is in the pages or in the encoding of the footer)"
	}
	return s
}

// ---------------------------------------------------------------------------
// scenarios
// ---------------------------------------------------------------------------

type scenario struct {
	Spec  spec   `json:"spec"`
	Mode  string `json:"mode"` // reset | buffer | goroutine | churn | gomaxprocs | poison | repeat | history | process
	Lives []life `json:"lives,omitempty"`
	Prev  int    `json:"prev,omitempty"` // buffer mode: number of previous fills
	Sort  bool   `json:"sort,omitempty"`
	Count int    `json:"count,omitempty"`
}

type env struct {
	c    *core.Ctx
	refs map[string]outcome
	vm   []string

	geoChunks   int // column chunks whose geospatial statistics were compared with the model
	bloomChunks int // column chunks whose bloom filter location was compared with the model
	bloomNone   int // ... of which have no filter although one is configured
}

func (e *env) ref(f *factory) outcome {
	k := f.sp.key()
	if r, ok := e.refs[k]; ok {
		return r
	}
	r := produceFresh(f)
	if len(e.refs) > 4000 {
		e.refs = map[string]outcome{}
	}
	e.refs[k] = r
	return r
}

func modelCfg(f *factory) string {
	cols := make([]string, f.ncols)
	for i := range cols {
		cols[i] = fmt.Sprintf("0/0/0/%x", i+1)
	}
	return fmt.Sprintf("%x:7fffffff:0:0:%s", f.maxRows, strings.Join(cols, ";"))
}

func modelKV(n int) string {
	if n == 0 {
		return "_"
	}
	var p []string
	for i := 0; i < n; i++ {
		p = append(p, fmt.Sprintf("%x=%x", (i*7)%n, i))
	}
	return strings.Join(p, ",")
}

// checkScenario evaluates the predicate on one scenario. It returns false when
// a violation or mismatch was reported.
func (e *env) checkScenario(sc scenario) bool {
	c := e.c
	f, ok := build(sc.Spec)
	if !ok {
		return true
	}
	ref := e.ref(f)
	if ref.err != "" {
		return true // the reference itself cannot be produced: not a case
	}
	var got outcome
	class := "reset-differs"
	switch sc.Mode {
	case "reset":
		got = produceReused(f, sc.Lives)
	case "buffer":
		if f.mkBuffer == nil {
			return true
		}
		fresh := produceFromBuffer(f, 0, sc.Sort, false)
		if fresh.err != "" {
			return true
		}
		ref = fresh
		got = produceFromBuffer(f, sc.Prev, sc.Sort, sc.Count > 0)
		class = "buffer-reset-differs"
	case "goroutine":
		ch := make(chan outcome)
		go func() {
			runtime.LockOSThread()
			ch <- produceFresh(f)
		}()
		got = <-ch
		class = "goroutine-differs"
	case "churn":
		churn(sc.Spec.Case.Seed)
		ch := make(chan outcome)
		go func() { ch <- produceFresh(f) }()
		got = <-ch
		class = "pool-history-differs"
	case "gomaxprocs":
		old := runtime.GOMAXPROCS(1)
		a := produceFresh(f)
		runtime.GOMAXPROCS(max(old, 4))
		churn(sc.Spec.Case.Seed)
		got = produceFresh(f)
		runtime.GOMAXPROCS(old)
		if a.err == "" && !bytes.Equal(a.bytes, ref.bytes) {
			got = a
		}
		class = "gomaxprocs-differs"
	case "history":
		// unrelated writes between the reference production and this one, in the
		// same goroutine (the pools hand back what the last user on this P left):
		// other writers of the same configuration write and give up / finish the
		// rows of the previous lives, files of other schemas are written and read
		for _, l := range sc.Lives {
			_ = guard(func() { runLife(f.mk(l.sink()), f, l) })
		}
		_ = guard(func() { churnOne(sc.Spec.Case.Seed, 0) })
		got = produceFresh(f)
		class = "process-history-differs"
	case "poison":
		parquet.VerifSetPoison(true)
		churn(sc.Spec.Case.Seed)
		got = produceFresh(f)
		parquet.VerifSetPoison(false)
		class = "pool-poison-differs"
	case "process":
		// the other set of schema options on the same Go type first, then the spec,
		// in this process; the spec alone in a process that has done nothing before
		class = "process-history-differs"
		if sb, ok := build(sibling(sc.Spec)); ok {
			_ = produceFresh(sb)
		}
		got = produceFresh(f)
		if got.err != "" {
			break
		}
		rd, ok := freshProcessDigest(c, sc.Spec)
		if !ok {
			c.Res.Buckets["skipped/no-fresh-process"]++
			return true
		}
		if gd := digest(got.bytes); rd.Err != "" || rd.Digest != gd {
			c.Violation(class, fmt.Sprintf("digest %s (%d bytes, err %q: a process that did nothing before) <> %s (%d bytes: this process, after the same Go type was used with other schema options): %s",
				rd.Digest[:16], rd.Len, rd.Err, gd[:16], len(got.bytes), firstPartDiff(rd.Parts, parts(got.bytes))), sc)
			return false
		}
		ref = got
	case "repeat":
		class = "repeat-differs"
		got = ref
		for i := 0; i < sc.Count; i++ {
			o := produceFresh(f)
			if o.err != "" || !bytes.Equal(o.bytes, ref.bytes) {
				got = o
				sc.Count = i + 1
				break
			}
		}
	default:
		return true
	}
	if got.err != "" {
		c.Violation(class+"-error", fmt.Sprintf("the reference production succeeded, the %s scenario failed: %s", sc.Mode, got.err), sc)
		return false
	}
	if !bytes.Equal(got.bytes, ref.bytes) {
		c.Violation(class, fmt.Sprintf("digest %s (reference) <> %s (%s): %s", digest(ref.bytes)[:16], digest(got.bytes)[:16], sc.Mode, describeDiff(ref.bytes, got.bytes)), sc)
		return false
	}
	if sc.Spec.Family == "encrypted" {
		if fl, err := openFile(got.bytes); err != nil {
			c.Violation("reset-encrypted-unreadable", "open: "+err.Error(), sc)
			return false
		} else if n := fl.NumRows(); n != int64(f.n) {
			c.Violation("reset-encrypted-unreadable", fmt.Sprintf("%d rows instead of %d", n, f.n), sc)
			return false
		}
	}
	// correspondence with the model: the stored values of the integer combinations
	// (a sorted buffer holds the rows in another order)
	if sc.Spec.Family == "ints" && !(sc.Mode == "buffer" && sc.Sort) && !e.checkIntsModel(f, got.bytes, sc) {
		return false
	}
	// ... the bloom filter locations of the columns whose configuration is known
	if !e.checkBloomModel(f, got.bytes, sc) {
		return false
	}
	// ... and the geospatial statistics of every row group
	if sc.Spec.Family == "logical" && !e.checkGeoModel(got.bytes, sc) {
		return false
	}
	// correspondence with the model: row group structure of the file
	if sc.Mode == "reset" && c.HasOracle() && sc.Spec.Family != "sorting" {
		rows, kv, err := rowGroupRows(got.bytes)
		if err == nil {
			impl := "footers=" + hexList(rows)
			if len(rows) == 0 {
				impl = "footers=_"
			}
			req := fmt.Sprintf("c17.run %s %s %s", modelCfg(f), modelKV(sc.Spec.KV), strings.Join(got.ops, ","))
			ans := c.Ask(req)
			want := strings.SplitN(ans, " ", 2)[0]
			if want != impl {
				c.Mismatch("corr:C17.rowgroups", req, impl, ans, sc)
				return false
			}
			if mk := kvCount(ans); mk != len(kv) {
				c.Mismatch("corr:C17.kv", req, fmt.Sprintf("%d pairs %v", len(kv), kv), ans, sc)
				return false
			}
			// the pairs themselves (OpenFile sorts them: compared as sets)
			if ik, mk := implPairs(kv), modelPairs(ans); ik != mk {
				c.Mismatch("corr:C17.kv-pairs", req, ik, mk+" <- "+ans, sc)
				return false
			}
			if len(e.vm) < 40 && len(got.ops) < 40 {
				e.vm = append(e.vm, vmCase(f, sc.Spec.KV, got.ops, rows, len(kv)))
			}
		}
	}
	return true
}

// implPairs / modelPairs: the key/value pairs of a footer as sorted "k=v" lists
// of hex numbers (keys "key-NN", values "value N" on the Go side).
func implPairs(kv []string) string {
	var out []string
	for _, e := range kv {
		var k, v int
		if _, err := fmt.Sscanf(e, "key-%d=value %d", &k, &v); err != nil {
			out = append(out, e)
			continue
		}
		out = append(out, fmt.Sprintf("%04x=%x", k, v))
	}
	sort.Strings(out)
	return strings.Join(out, ",")
}

func modelPairs(ans string) string {
	i := strings.Index(ans, "kv=")
	if i < 0 {
		return "?"
	}
	s := ans[i+3:]
	if s == "_" || s == "N" {
		return ""
	}
	var out []string
	for _, e := range strings.Split(s, ",") {
		var k, v int
		if _, err := fmt.Sscanf(e, "%x=%x", &k, &v); err != nil {
			out = append(out, e)
			continue
		}
		out = append(out, fmt.Sprintf("%04x=%x", k, v))
	}
	sort.Strings(out)
	return strings.Join(out, ",")
}

func kvCount(ans string) int {
	i := strings.Index(ans, "kv=")
	if i < 0 {
		return -1
	}
	s := ans[i+3:]
	if s == "_" || s == "N" {
		return 0
	}
	return strings.Count(s, ",") + 1
}

func hexList(v []int64) string {
	p := make([]string, len(v))
	for i, x := range v {
		p[i] = fmt.Sprintf("%x", x)
	}
	return strings.Join(p, ",")
}

// vmCase renders one model run for cases.v.
func vmCase(f *factory, nkv int, ops []string, rows []int64, kv int) string {
	var cols []string
	for i := 0; i < f.ncols; i++ {
		cols = append(cols, fmt.Sprintf("mk_colcfg [%d%%N] false 0%%N false", i+1))
	}
	var kvs []string
	for i := 0; i < nkv; i++ {
		kvs = append(kvs, fmt.Sprintf("(%d%%N, %d%%N)", (i*7)%nkv, i))
	}
	var co []string
	hx := func(s string) uint64 { var v uint64; fmt.Sscanf(s, "%x", &v); return v }
	for _, o := range ops {
		body := o[1:]
		switch o[0] {
		case 'w', 'g':
			p := strings.Split(body, "+")
			name := map[byte]string{'w': "Write", 'g': "WriteRG"}[o[0]]
			co = append(co, fmt.Sprintf("%s (iota %d%%N %d)", name, hx(p[0]), hx(p[1])))
		case 'x':
			p := strings.Split(body, "+")
			co = append(co, fmt.Sprintf("FailWrite (iota %d%%N %d) %d", hx(p[0]), hx(p[1]), hx(p[2])))
		case 'k':
			p := strings.Split(body, "=")
			co = append(co, fmt.Sprintf("SetKV %d%%N %d%%N", hx(p[0]), hx(p[1])))
		case 'f':
			co = append(co, "Flush")
		case 'c':
			co = append(co, "Close")
		case 'r':
			co = append(co, "Reset")
		case 'a':
			co = append(co, "Abandon")
		}
	}
	var rs []string
	for _, r := range rows {
		rs = append(rs, fmt.Sprintf("%d%%N", r))
	}
	return fmt.Sprintf("(mk_config %s %d%%N 2147483647%%N false 0%%N, %s, %s, %s, %d%%nat)",
		core.CoqList(cols), uint64(f.maxRows), core.CoqList(kvs), core.CoqList(co), core.CoqList(rs), kv)
}

// churn runs unrelated writers and readers (other schemas, codecs, sizes) in
// several goroutines so that the pools hold buffers with foreign content.
func churn(seed int64) {
	var wg sync.WaitGroup
	for g := 0; g < 4; g++ {
		wg.Add(1)
		go func(g int) {
			defer wg.Done()
			defer func() { _ = recover() }()
			churnOne(seed, g)
		}(g)
	}
	wg.Wait()
}

func churnOne(seed int64, g int) {
	for k := 0; k < 3; k++ {
		cs := gen.Case{Seed: seed*31 + int64(g*7+k), NRows: 60 + 40*k, MaxDepth: 2, MaxFields: 4, Codecs: allCodecs, NullBias: 3}
		b := cs.Build()
		var buf bytes.Buffer
		if b.Write(&buf) != nil {
			continue
		}
		f, err := parquet.OpenFile(bytes.NewReader(buf.Bytes()), int64(buf.Len()))
		if err != nil {
			continue
		}
		r := parquet.NewReader(f)
		rows := make([]parquet.Row, 50)
		for {
			n, err := r.ReadRows(rows)
			if n == 0 || err != nil {
				break
			}
		}
		r.Close()
	}
	rows := genTRows(seed+int64(g), 300)
	var buf bytes.Buffer
	w := parquet.NewGenericWriter[tRow](&buf, parquet.Compression(&parquet.Zstd), parquet.PageBufferSize(512))
	w.Write(rows)
	w.Close()
	out := make([]tRow, 300)
	rd := parquet.NewGenericReader[tRow](bytes.NewReader(buf.Bytes()))
	rd.Read(out)
	rd.Close()
	// typed rows of OTHER integer combinations, in batches larger than any file
	// under test: one that is converted to a wider column, one that is converted
	// to a narrower or 32 bit column (the two scratch pools of the typed writer),
	// two arbitrary ones; then the rare logical types
	rng := rand.New(rand.NewSource(seed*131 + int64(g)))
	pick := func(pred func(cb *intCombo) bool) *intCombo {
		var c []*intCombo
		for i := range intCombos {
			if pred(&intCombos[i]) {
				c = append(c, &intCombos[i])
			}
		}
		return c[rng.Intn(len(c))]
	}
	for _, cb := range []*intCombo{
		pick(func(*intCombo) bool { return true }),
		pick(func(cb *intCombo) bool { return cb.Phys == 64 && cb.Bits < 64 }),
		pick(func(cb *intCombo) bool { return cb.Phys == 32 && cb.Bits != 32 }),
		pick(func(*intCombo) bool { return true }),
	} {
		f := cb.mk(spec{Family: "ints", Combo: cb.Name, Case: gen.Case{Seed: rng.Int63(), NRows: 300}}, cb)
		iw := f.mk(io.Discard)
		_ = iw.WriteIdx(0, 300)
		_ = iw.Close()
	}
	lf := logicalFactory(spec{Family: "logical", Case: gen.Case{Seed: rng.Int63(), NRows: 40}})
	lw := lf.mk(io.Discard)
	_ = lw.WriteIdx(0, 40)
	_ = lw.Close()
}

// ---------------------------------------------------------------------------
// shrinking
// ---------------------------------------------------------------------------

func (e *env) fails(sc scenario) bool {
	return e.c.Probe(func() { e.checkScenario(sc) })
}

func (e *env) shrink(sc scenario) scenario {
	cur := sc
	deadline := time.Now().Add(20 * time.Second)
	for changed := true; changed && time.Now().Before(deadline); {
		changed = false
		// fewer previous lives
		for i := range cur.Lives {
			if len(cur.Lives) == 1 {
				break
			}
			t := cur
			t.Lives = append(append([]life(nil), cur.Lives[:i]...), cur.Lives[i+1:]...)
			if e.fails(t) {
				cur, changed = t, true
				break
			}
		}
		if changed {
			continue
		}
		// simpler previous lives
		for i, l := range cur.Lives {
			var cands []life
			if l.Kind != "closed" {
				cands = append(cands, life{Kind: "closed", Lo: l.Lo, Hi: l.Hi})
			}
			if l.Hi-l.Lo > 1 {
				cands = append(cands, life{Kind: l.Kind, Lo: l.Lo, Hi: l.Lo + (l.Hi-l.Lo)/2, FailAt: l.FailAt, Batch: l.Batch})
				cands = append(cands, life{Kind: l.Kind, Lo: l.Lo, Hi: l.Lo + 1, FailAt: l.FailAt, Batch: l.Batch})
			}
			for _, cand := range cands {
				t := cur
				t.Lives = append([]life(nil), cur.Lives...)
				t.Lives[i] = cand
				if e.fails(t) {
					cur, changed = t, true
					break
				}
			}
			if changed {
				break
			}
		}
		if changed {
			continue
		}
		// fewer rows in the file under test
		for _, n := range []int{0, 1, cur.Spec.Case.NRows / 2, cur.Spec.Case.NRows - 1} {
			if n < 0 || n >= cur.Spec.Case.NRows {
				continue
			}
			t := cur
			t.Spec.Case.NRows = n
			if e.fails(t) {
				cur, changed = t, true
				break
			}
		}
		if changed {
			continue
		}
		if cur.Prev > 1 {
			t := cur
			t.Prev = 1
			if e.fails(t) {
				cur, changed = t, true
			}
		}
		if !changed && cur.Spec.KV > 2 {
			t := cur
			t.Spec.KV = 2
			if e.fails(t) {
				cur, changed = t, true
			}
		}
		if !changed && cur.Spec.Family == "gen" && cur.Spec.Case.MaxFields > 1 {
			// same seed with fewer fields is another schema; accept only if it still fails
			t := cur
			t.Spec.Case.MaxFields--
			if e.fails(t) {
				cur, changed = t, true
			}
		}
	}
	return cur
}

func (e *env) run(sc scenario, bucket string) bool {
	c := e.c
	ok := true
	if e.fails(sc) {
		ok = false
		e.checkScenario(e.shrink(sc))
	}
	c.Case(bucket, sc.Spec.key()+fmt.Sprint(sc.Mode, sc.Lives, sc.Prev, sc.Sort), sc.Spec.Case.NRows > 1 || sc.Spec.Family == "rle")
	return ok
}

// ---------------------------------------------------------------------------
// build variants
// ---------------------------------------------------------------------------

type partDigest struct {
	Name   string `json:"name"`
	Digest string `json:"digest"`
}

type caseDigest struct {
	Spec   spec         `json:"spec"`
	Digest string       `json:"digest"`
	Len    int          `json:"len"`
	Err    string       `json:"err,omitempty"`
	Parts  []partDigest `json:"parts,omitempty"`
}

type variantFile struct {
	Variant string       `json:"variant"`
	Seed    int64        `json:"seed"`
	Tier    string       `json:"tier"`
	GoDebug string       `json:"godebug"`
	GoVer   string       `json:"go"`
	Cases   []caseDigest `json:"cases"`
}

// parts digests the column chunks of a file separately (to name the first
// differing part in a replay).
func parts(b []byte) []partDigest {
	f, err := openFile(b)
	if err != nil {
		return nil
	}
	var out []partDigest
	end := int64(4)
	for i, rg := range f.Metadata().RowGroups {
		for j, cc := range rg.Columns {
			m := cc.MetaData
			start := m.DataPageOffset
			if m.DictionaryPageOffset > 0 && m.DictionaryPageOffset < start {
				start = m.DictionaryPageOffset
			}
			stop := start + m.TotalCompressedSize
			if start < 0 || stop > int64(len(b)) || start > stop {
				continue
			}
			out = append(out, partDigest{Name: fmt.Sprintf("row group %d column %d %v %v %v", i, j, m.PathInSchema, m.Type, m.Encoding), Digest: digest(b[start:stop])[:16]})
			if stop > end {
				end = stop
			}
		}
	}
	out = append(out, partDigest{Name: "bloom filters, page index and footer", Digest: digest(b[end:])[:16]})
	return out
}

func digestCase(sp spec) caseDigest {
	cd := caseDigest{Spec: sp}
	f, ok := build(sp)
	if !ok {
		cd.Err = "cannot build"
		return cd
	}
	o := produceFresh(f)
	cd.Err = o.err
	cd.Digest = digest(o.bytes)
	cd.Len = len(o.bytes)
	if o.err == "" {
		cd.Parts = parts(o.bytes)
	}
	return cd
}

// variantSpecs is the FIXED list every build variant produces (same seeds).
func variantSpecs(c *core.Ctx) []spec {
	var out []spec
	// regressions first
	for i := 0; i < 4; i++ {
		out = append(out, spec{Family: "rle", Case: gen.Case{Seed: int64(i), NRows: []int{0, 3, 40, 400}[i]}})
	}
	for i := 0; i < c.N(8, 40); i++ {
		out = append(out, spec{Family: "be128", Case: gen.Case{Seed: 300 + int64(i), NRows: []int{16, 17, 40, 100, 333}[i%5]}})
	}
	for i := 0; i < c.N(6, 40); i++ {
		out = append(out, spec{Family: "typed", Case: gen.Case{Seed: 1000 + int64(i), NRows: []int{1, 9, 70, 333}[i%4]}})
		out = append(out, spec{Family: "rle", Case: gen.Case{Seed: 77 + c.Seed*131 + int64(i), NRows: 20 + 30*i}})
	}
	// every optional Go kind at the boundary between null and non-null: the
	// typed (column-wise, kernels chosen by the build) and the reflection path
	for i := 0; i < c.N(10, 60); i++ {
		sp := spec{Family: "opt", Case: gen.Case{Seed: 500 + c.Seed*977 + int64(i), NRows: []int{1, 7, 64, 65, 200, 333}[i%6]}}
		if i%5 == 4 {
			sp.API = "writer"
		}
		out = append(out, sp)
	}
	// every (Go integer kind x width tag) combination; the rare logical types
	for i, cb := range intCombos {
		sp := spec{Family: "ints", Combo: cb.Name, Case: gen.Case{Seed: 700 + c.Seed*389 + int64(i), NRows: []int{7, 64, 65, 200}[i%4]}}
		if i%7 == 6 {
			sp.API = "writer"
		}
		out = append(out, sp)
	}
	for i := 0; i < c.N(6, 40); i++ {
		sp := spec{Family: "logical", Case: gen.Case{Seed: 900 + c.Seed*613 + int64(i), NRows: []int{1, 9, 70, 200}[i%4]}}
		if i%3 == 2 {
			sp.API = "writer"
		}
		out = append(out, sp)
	}
	// bloom-filtered byte array columns: every value length 0..100 (the hash kernels
	// of the builds branch on the length), and the struct tag replacements
	for l := 0; l <= 100; l++ {
		sp := spec{Family: "bloomlen", Len: l, Case: gen.Case{Seed: 3000 + c.Seed*211 + int64(l), NRows: 12}}
		if l%10 == 9 {
			sp.API = "writer"
		}
		out = append(out, sp)
	}
	for i, fam := range []string{"typed", "rle", "be128", "opt"} {
		for k := range tagSets[fam] {
			out = append(out, spec{Family: fam, Tags: 1 << uint(k), Case: gen.Case{Seed: 3200 + int64(10*i+k), NRows: 40}})
		}
	}
	out = append(out, spec{Family: "typed", API: "writer", Case: gen.Case{Seed: 2000, NRows: 120}})
	out = append(out, spec{Family: "sorting", Case: gen.Case{Seed: 2001, NRows: 150}})
	out = append(out, spec{Family: "sorting", Case: gen.Case{Seed: 2002, NRows: 150}, Dedupe: true, Keys: 40, Desc: true})
	n := c.N(220, 1500)
	for i := 0; i < n; i++ {
		cs := gen.Case{Seed: c.Seed*1000003 + 17*int64(i), NRows: []int{1, 5, 40, 130, 300, 700}[i%6], MaxDepth: 1 + i%3, MaxFields: 1 + (i/3)%5, Codecs: allCodecs, NullBias: i % 8}
		sp := spec{Family: "gen", Case: cs}
		if i%9 == 0 {
			sp.DictMax = 40
		}
		if i%11 == 0 {
			sp.API = "writer"
		}
		out = append(out, sp)
	}
	return out
}

func readVariantFiles(dir, self string) []variantFile {
	var out []variantFile
	names, _ := filepath.Glob(filepath.Join(dir, "digests_*.json"))
	sort.Strings(names)
	for _, n := range names {
		if filepath.Base(n) == "digests_"+self+".json" {
			continue
		}
		b, err := os.ReadFile(n)
		if err != nil {
			continue
		}
		var vf variantFile
		if json.Unmarshal(b, &vf) == nil {
			out = append(out, vf)
		}
	}
	return out
}

// remoteDigest asks the harness binary of another variant for the digest of a
// spec (used to shrink a difference between builds).
func remoteDigest(c *core.Ctx, dir string, other variantFile, sp spec) (caseDigest, bool) {
	return digestByProcess(c, filepath.Join(dir, "harness_"+other.Variant), other.Variant, other.GoDebug, sp)
}

func firstPartDiff(a, b []partDigest) string {
	for i := range a {
		if i >= len(b) {
			break
		}
		if a[i] != b[i] {
			return fmt.Sprintf("first differing part: %s (%s) / %s (%s)", a[i].Name, a[i].Digest, b[i].Name, b[i].Digest)
		}
	}
	if len(a) != len(b) {
		return fmt.Sprintf("%d parts / %d parts", len(a), len(b))
	}
	return ""
}

func buildVariants(c *core.Ctx) {
	specs := variantSpecs(c)
	self := variantFile{Variant: c.Res.Variant, Seed: c.Seed, Tier: c.Tier, GoDebug: os.Getenv("GODEBUG"), GoVer: runtime.Version()}
	for _, sp := range specs {
		cd := digestCase(sp)
		self.Cases = append(self.Cases, cd)
		c.Case("variant-digest/"+sp.Family, sp.key(), cd.Err == "" && cd.Len > 12)
	}
	dir := filepath.Join(c.OutDir, "..")
	if b, err := json.Marshal(self); err == nil {
		_ = os.WriteFile(filepath.Join(dir, "digests_"+c.Res.Variant+".json"), b, 0o644)
	}
	others := readVariantFiles(dir, c.Res.Variant)
	var names []string
	for _, o := range others {
		names = append(names, o.Variant)
		if o.Seed != self.Seed || o.Tier != self.Tier || len(o.Cases) != len(self.Cases) {
			c.Note("digests of variant %s are from another run (seed/tier/case list differ): not compared", o.Variant)
			continue
		}
		compared := 0
		for i, mine := range self.Cases {
			theirs := o.Cases[i]
			if mine.Spec.key() != theirs.Spec.key() {
				c.Note("case lists of %s and %s diverge at %d", self.Variant, o.Variant, i)
				break
			}
			compared++
			if mine.Digest == theirs.Digest && mine.Err == theirs.Err {
				continue
			}
			// shrink: fewer rows, as long as the two builds still differ
			m, t := mine, theirs
			for _, n := range []int{0, 1, 2, 4, 8, 16, 32, 64, 128} {
				if n >= m.Spec.Case.NRows {
					break
				}
				sp := m.Spec
				sp.Case.NRows = n
				t2, ok := remoteDigest(c, dir, o, sp)
				if !ok {
					break
				}
				m2 := digestCase(sp)
				if m2.Digest != t2.Digest || m2.Err != t2.Err {
					m, t = m2, t2
					break
				}
			}
			c.Violation("build-variants-differ",
				fmt.Sprintf("the %s and the %s build write different bytes for the same rows and options: %s (%d bytes, err %q) / %s (%d bytes, err %q); %s",
					self.Variant, o.Variant, m.Digest, m.Len, m.Err, t.Digest, t.Len, t.Err, firstPartDiff(m.Parts, t.Parts)),
				map[string]any{"spec": m.Spec, "variants": []string{self.Variant, o.Variant}, "digests": []string{m.Digest, t.Digest},
					"godebug": []string{self.GoDebug, o.GoDebug}, "go": []string{self.GoVer, o.GoVer}, "parts": [][]partDigest{m.Parts, t.Parts}})
			break
		}
		c.Res.Buckets["variant-compared/"+o.Variant] += compared
	}
	c.Note("variant %s (%s, GODEBUG=%q): %d digests written; compared with %v", self.Variant, self.GoVer, self.GoDebug, len(self.Cases), names)
}

// ---------------------------------------------------------------------------
// run
// ---------------------------------------------------------------------------

func livesFor(rng *rand.Rand, f *factory, refLen int, kinds []string) []life {
	n := 1 + rng.Intn(3)
	var ls []life
	for i := 0; i < n; i++ {
		k := kinds[rng.Intn(len(kinds))]
		lo := rng.Intn(f.extra/2 + 1)
		hi := lo + 1 + rng.Intn(f.extra-lo)
		l := life{Kind: k, Lo: lo, Hi: hi, Batch: 1 + rng.Intn(40)}
		if k == "sinkfail" || k == "bufferfail" {
			l.FailAt = rng.Intn(refLen + 1)
			if rng.Intn(4) == 0 {
				l.FailAt = rng.Intn(8)
			}
		}
		if k == "bufferfail" {
			l.Read = rng.Intn(4) == 0
			if rng.Intn(2) == 0 {
				l.Hi = l.Lo + 1 + rng.Intn(3) // few rows: one small chunk
				l.FailAt = rng.Intn(200)
			}
		}
		if k == "kv" {
			l.KVMode = rng.Intn(4)
		}
		ls = append(ls, l)
	}
	return ls
}

var allKinds = []string{"closed", "closed", "flushes", "abandon", "sinkfail", "rowgroup", "copyfile", "kv", "empty"}

func runC17(c *core.Ctx) {
	c.Res.Rule = "files are produced from (schema, rows, options, write/flush history) given by gen.Case (all codecs, encodings, page versions, nested schemas, dictionaries, bloom filters, statistics, key/value maps, write buffer sizes) and by typed structs: optional non-pointer fields holding -0.0/NaN/zero values, chosen dictionary index patterns, 16-byte values, and one optional field of EVERY Go kind that has a null index function (bool, all integer widths, floats, string, []byte, byte arrays, Int96, time.Time, struct, pointers, slices, map) holding the values at the boundary between null and non-null (zero; exactly one non-zero byte at each position; extremes; -0.0, NaN; nil / empty / empty-with-a-pointer / non-empty slices and strings; nil pointer / pointer to zero); each scenario compares sha256(reference: fresh writer) with sha256(writer reused through Reset after 1-3 previous lives of kinds closed/flushes/abandon/sinkfail/rowgroup/kv (new keys and overrides of CONFIGURED keys in four orders)/empty; SortingWriter: keeping or dropping duplicates, 1-40 distinct keys shared by the file and the previous lives, either direction, and the additional life bufferfail = the pool buffer of the sorted chunks fails after n bytes when written or when read back | buffer reused through Reset | other goroutine | after pool churn | poisoned pools | GOMAXPROCS 1 vs many | n-th repetition | second production after unrelated writes of the same goroutine: other writers of the same configuration running 1-3 lives, generated schemas, OTHER integer combinations in batches of 300 rows, the logical types); two further typed families, ints = all 90 combinations of a Go integer kind with no / an int(n) / a uint(n) tag (one struct type each: required, optional, pointer, list field; boundary and random values), every combination in every run through history, reset, and in rotation the reflection path and a reused buffer, the stored values compared with the model (Go value mod 2^physical width); logical = GEOMETRY/GEOGRAPHY (geom.T and raw WKB, both byte orders, XY/XYZ/XYM/XYZM, points, line strings, polygons, multi points, empty geometries, NaN, malformed WKB; the two halves of the file and the previous lives draw from independent profiles Z allowed / M allowed / dirty), VARIANT, INTERVAL, DECIMAL on INT32/INT64/FIXED, DATE, TIME, TIMESTAMP in every unit, JSON, ENUM, UUID strings, with the geospatial statistics of every column chunk compared with the accumulator model on the values stored in that row group; previous lives of kind copyfile (the row groups of a FILE written with the same configuration arrive through WriteRowGroup and are copied verbatim, bloom filters and page indexes included, optionally followed by rows written normally) in every family and in a dedicated group where the optional columns of the file under test hold only nulls (null_final / null bias 10: no dictionary page and no filter of their own), the bloom filter location of every chunk of the columns whose encoding is known compared with the model Reset/BloomLoc.v; parquet.StructTag replacements among the writer options (each single replacement of four typed families and random sets: encoding, compression, optionality), with reused writers, and mode process = the file this process writes after the same Go type was used with the OTHER set of schema options (plain after tagged, tagged after plain) against the file of a process that has done nothing before (the same binary started for the one spec); the file under test may itself override a configured key / add a key; the fixed list of the build variants holds bloom-filtered byte array columns (plain, dictionary, fixed length) for every value length 0..100 and every struct tag replacement; every build variant writes the digests of one fixed case list which the later variants compare with. Non-trivial = the file under test has at least 2 rows; distinct by the JSON of the scenario."
	e := &env{c: c, refs: map[string]outcome{}}
	savedRand := crand.Reader
	defer func() { crand.Reader = savedRand }()

	// ---- corpus: the regressions ----
	corpus := []scenario{
		// 120fe51: Reset after a finished row group emptied path_in_schema
		{Spec: spec{Family: "typed", Case: gen.Case{Seed: 1, NRows: 3}, Extra: 4}, Mode: "reset", Lives: []life{{Kind: "closed", Lo: 0, Hi: 2}}},
		{Spec: spec{Family: "gen", Case: gen.Case{Seed: 5, NRows: 5, MaxDepth: 1, MaxFields: 2}, Extra: 4}, Mode: "reset", Lives: []life{{Kind: "flushes", Lo: 0, Hi: 4, Batch: 2}}},
		{Spec: spec{Family: "gen", API: "writer", Case: gen.Case{Seed: 6, NRows: 40, MaxDepth: 2, MaxFields: 3, Codecs: allCodecs}, Extra: 30}, Mode: "reset", Lives: []life{{Kind: "closed", Lo: 0, Hi: 30}}},
		// cd20a46: SetKeyValueMetadata of the previous life
		{Spec: spec{Family: "typed", Case: gen.Case{Seed: 2, NRows: 3}, Extra: 3, KV: 2}, Mode: "reset", Lives: []life{{Kind: "kv", Lo: 0, Hi: 3}}},
		// 949139e: encrypting writer reused
		{Spec: spec{Family: "encrypted", Case: gen.Case{Seed: 2, NRows: 50}, Extra: 10}, Mode: "reset", Lives: []life{{Kind: "closed", Lo: 0, Hi: 1}}},
		{Spec: spec{Family: "encrypted", Case: gen.Case{Seed: 3, NRows: 50}, Extra: 60}, Mode: "reset", Lives: []life{{Kind: "flushes", Lo: 0, Hi: 60, Batch: 20}}},
		// dictionary fallback in the previous life
		{Spec: spec{Family: "typed", Case: gen.Case{Seed: 3, NRows: 200}, Extra: 300, DictMax: 24}, Mode: "reset", Lives: []life{{Kind: "abandon", Lo: 0, Hi: 300, Batch: 50}}},
		{Spec: spec{Family: "rle", Case: gen.Case{Seed: 0, NRows: 0}, Extra: 64}, Mode: "reset", Lives: []life{{Kind: "closed", Lo: 0, Hi: 20}}},
		// 2943698: rows left in the PLAIN fallback buffer of an abandoned file
		{Spec: spec{Family: "gen", Case: gen.Case{Seed: 10031, NRows: 9, MaxDepth: 2, MaxFields: 5, Codecs: allCodecs, NullBias: 5}, DictMax: 106, KV: 2, Extra: 164}, Mode: "reset",
			Lives: []life{{Kind: "abandon", Lo: 0, Hi: 100, Batch: 32}}},
		// 6ab6c3a: bloom filter length of the previous life when the next chunk has no filter
		{Spec: spec{Family: "gen", Case: gen.Case{Seed: 7965, NRows: 1, MaxDepth: 3, MaxFields: 1, Codecs: allCodecs, NullBias: 5}, Extra: 204}, Mode: "reset",
			Lives: []life{{Kind: "closed", Lo: 82, Hi: 83, Batch: 32}}},
		// key/value map order
		{Spec: spec{Family: "typed", Case: gen.Case{Seed: 4, NRows: 2}, KV: 7}, Mode: "repeat", Count: 30},
		// sorted buffer reset without a read
		{Spec: spec{Family: "typed", Case: gen.Case{Seed: 7, NRows: 40}, Extra: 60}, Mode: "buffer", Prev: 2, Sort: true, Count: 1},
		{Spec: spec{Family: "sorting", Case: gen.Case{Seed: 8, NRows: 100}, Extra: 90}, Mode: "reset", Lives: []life{{Kind: "abandon", Lo: 0, Hi: 90, Batch: 30}}},
		// one instance of each added dimension: a configured key overridden (only) in the
		// previous life and in the file; a sorting writer dropping duplicates whose chunk
		// buffer failed when written / when read back, all rows sharing one key; the
		// optional kinds after a previous life
		{Spec: spec{Family: "typed", Case: gen.Case{Seed: 9, NRows: 3}, Extra: 3, KV: 3}, Mode: "reset", Lives: []life{{Kind: "kv", Lo: 0, Hi: 3, KVMode: 2}}},
		{Spec: spec{Family: "gen", Case: gen.Case{Seed: 11, NRows: 5, MaxDepth: 1, MaxFields: 2}, Extra: 4, KV: 2, FinalKV: 3}, Mode: "reset", Lives: []life{{Kind: "kv", Lo: 0, Hi: 3, KVMode: 3}}},
		{Spec: spec{Family: "sorting", Case: gen.Case{Seed: 12, NRows: 50}, Extra: 40, Dedupe: true, Keys: 1, WBuf: 64}, Mode: "reset", Lives: []life{{Kind: "bufferfail", Lo: 0, Hi: 10, FailAt: 100, Batch: 5}}},
		{Spec: spec{Family: "sorting", Case: gen.Case{Seed: 13, NRows: 50}, Extra: 40, Dedupe: true, Keys: 3, Desc: true, WBuf: 1}, Mode: "reset", Lives: []life{{Kind: "bufferfail", Lo: 0, Hi: 40, FailAt: 50, Batch: 20, Read: true}}},
		{Spec: spec{Family: "opt", Case: gen.Case{Seed: 14, NRows: 70}, Extra: 50}, Mode: "reset", Lives: []life{{Kind: "flushes", Lo: 0, Hi: 50, Batch: 20}}},
	}
	for _, sc := range corpus {
		e.run(sc, "corpus/"+sc.Mode+"/"+sc.Spec.Family)
		c.Sample(sc)
	}

	// ---- (e) build variants: the fixed list ----
	buildVariants(c)

	// ---- (a) Reset scenarios ----
	nGen := c.N(260, 2500)
	for i := 0; i < nGen; i++ {
		cs := gen.Case{Seed: c.Seed*7919 + int64(i), NRows: []int{0, 1, 5, 40, 130, 300}[c.Rng.Intn(6)], MaxDepth: 1 + c.Rng.Intn(3), MaxFields: 1 + c.Rng.Intn(5), Codecs: allCodecs, NullBias: c.Rng.Intn(8)}
		sp := spec{Family: "gen", Case: cs, Extra: 20 + c.Rng.Intn(200)}
		if c.Rng.Intn(4) == 0 {
			sp.API = "writer"
		}
		if c.Rng.Intn(5) == 0 {
			sp.DictMax = int64(16 + c.Rng.Intn(100))
		}
		if c.Rng.Intn(3) == 0 {
			sp.KV = 1 + c.Rng.Intn(6)
		}
		if c.Rng.Intn(6) == 0 {
			sp.FinalKV = 1 + c.Rng.Intn(3)
		}
		if c.Rng.Intn(3) == 0 {
			sp.WBuf = []int{-1, 1, 64, 1000}[c.Rng.Intn(4)]
		}
		f, ok := build(sp)
		if !ok {
			continue
		}
		ref := e.ref(f)
		if ref.err != "" {
			c.Res.Buckets["skipped/reference-error"]++
			continue
		}
		sc := scenario{Spec: sp, Mode: "reset", Lives: livesFor(c.Rng, f, len(ref.bytes), allKinds)}
		e.run(sc, "reset/gen/"+sc.Lives[0].Kind)
		if i%8 == 0 {
			e.run(scenario{Spec: sp, Mode: "buffer", Prev: 1 + c.Rng.Intn(3), Count: c.Rng.Intn(2)}, "buffer/gen")
		}
	}
	nTyped := c.N(120, 1000)
	for i := 0; i < nTyped; i++ {
		fam := []string{"typed", "typed", "rle", "sorting", "encrypted", "be128", "opt", "sorting"}[i%8]
		sp := spec{Family: fam, Case: gen.Case{Seed: c.Seed*104729 + int64(i), NRows: []int{0, 1, 8, 60, 250}[c.Rng.Intn(5)]}, Extra: 16 + c.Rng.Intn(300)}
		if fam == "typed" && i%3 == 0 {
			sp.API = "writer"
		}
		if c.Rng.Intn(3) == 0 {
			sp.DictMax = int64(8 + c.Rng.Intn(60))
		}
		if c.Rng.Intn(3) == 0 && fam != "encrypted" {
			sp.KV = 1 + c.Rng.Intn(5)
		}
		if c.Rng.Intn(6) == 0 {
			sp.FinalKV = 1 + c.Rng.Intn(3)
		}
		if c.Rng.Intn(2) == 0 {
			sp.WBuf = []int{-1, 1, 64, 1000}[c.Rng.Intn(4)]
		}
		if fam == "sorting" {
			// duplicates among the sorting keys, within the file and between the file and
			// the previous lives; dropped or kept; either direction
			sp.Dedupe = c.Rng.Intn(3) != 0
			sp.Keys = []int{0, 1, 2, 3, 7, 40}[c.Rng.Intn(6)]
			sp.Desc = c.Rng.Intn(2) == 0
		}
		f, ok := build(sp)
		if !ok {
			continue
		}
		ref := e.ref(f)
		if ref.err != "" {
			c.Res.Buckets["skipped/reference-error"]++
			continue
		}
		kinds := allKinds
		if fam == "sorting" {
			kinds = []string{"closed", "flushes", "abandon", "sinkfail", "bufferfail", "bufferfail", "kv", "empty"}
		}
		sc := scenario{Spec: sp, Mode: "reset", Lives: livesFor(c.Rng, f, len(ref.bytes), kinds)}
		e.run(sc, "reset/"+fam+"/"+sc.Lives[0].Kind)
		if i < 3 {
			c.Sample(sc)
		}
		if i%8 == 0 && fam != "encrypted" && fam != "sorting" {
			e.run(scenario{Spec: sp, Mode: "buffer", Prev: 1 + c.Rng.Intn(3), Sort: c.Rng.Intn(2) == 0, Count: c.Rng.Intn(2)}, "buffer/"+fam)
		}
	}

	// ---- SortingWriter: duplicates among the keys and failing lives ----
	// the sorted chunks go through a buffer pool and a temporary writer, the merge
	// through the output writer: each of them can fail in a previous life
	nSort := c.N(400, 4000)
	for i := 0; i < nSort; i++ {
		sp := spec{Family: "sorting", Case: gen.Case{Seed: c.Seed*15485863 + int64(i), NRows: []int{1, 2, 8, 40, 60, 120}[c.Rng.Intn(6)]}, Extra: 8 + c.Rng.Intn(150),
			Dedupe: c.Rng.Intn(4) != 0, Keys: []int{0, 1, 1, 2, 2, 3, 7, 40}[c.Rng.Intn(8)], Desc: c.Rng.Intn(2) == 0}
		// the temporary writer of the sorted chunks takes the write buffer size of the
		// configuration (0 = the default there too): a failing chunk buffer is seen by
		// Flush only when the write buffer is smaller than the chunk
		sp.WBuf = []int{0, 1, 64, 1000}[c.Rng.Intn(4)]
		if c.Rng.Intn(4) == 0 {
			sp.KV = 1 + c.Rng.Intn(3)
		}
		f, ok := build(sp)
		if !ok {
			continue
		}
		ref := e.ref(f)
		if ref.err != "" {
			c.Res.Buckets["skipped/reference-error"]++
			continue
		}
		lives := livesFor(c.Rng, f, 2*len(ref.bytes), []string{"bufferfail", "bufferfail", "bufferfail", "bufferfail", "sinkfail", "sinkfail", "abandon", "flushes", "closed", "kv"})
		sc := scenario{Spec: sp, Mode: "reset", Lives: lives}
		e.run(sc, "reset/sorting-dup/"+lives[len(lives)-1].Kind)
	}

	// ---- every (Go integer kind x width tag) combination of the typed writer ----
	// exhaustive over the 90 combinations in every run: unrelated writes between two
	// productions (history), a reused writer, and on a rotating part the reflection
	// path and a reused buffer
	for i := range intCombos {
		cb := &intCombos[i]
		sp := spec{Family: "ints", Combo: cb.Name, Case: gen.Case{Seed: c.Seed*7561 + int64(i), NRows: []int{1, 8, 60, 250}[c.Rng.Intn(4)]}, Extra: 16 + c.Rng.Intn(200)}
		f, ok := build(sp)
		if !ok {
			continue
		}
		ref := e.ref(f)
		if ref.err != "" {
			c.Violation("ints-reference-error", fmt.Sprintf("%s: a fresh writer fails: %s", cb.Name, ref.err), scenario{Spec: sp, Mode: "repeat", Count: 1})
			continue
		}
		e.run(scenario{Spec: sp, Mode: "history", Lives: livesFor(c.Rng, f, len(ref.bytes), []string{"closed", "flushes", "abandon", "rowgroup"})}, "history/ints")
		sc := scenario{Spec: sp, Mode: "reset", Lives: livesFor(c.Rng, f, len(ref.bytes), allKinds)}
		e.run(sc, "reset/ints/"+sc.Lives[0].Kind)
		if i < 2 {
			c.Sample(sc)
		}
		if i%3 == int(c.Seed%3) {
			spw := sp
			spw.API = "writer"
			if fw, ok := build(spw); ok {
				if rw := e.ref(fw); rw.err == "" {
					e.run(scenario{Spec: spw, Mode: "reset", Lives: livesFor(c.Rng, fw, len(rw.bytes), allKinds)}, "reset/ints-writer")
				}
			}
		}
		if i%5 == int(c.Seed%5) {
			e.run(scenario{Spec: sp, Mode: "buffer", Prev: 1 + c.Rng.Intn(3), Sort: c.Rng.Intn(2) == 0, Count: c.Rng.Intn(2)}, "buffer/ints")
		}
	}

	// ---- the rare logical types ----
	nLog := c.N(48, 500)
	for i := 0; i < nLog; i++ {
		sp := spec{Family: "logical", Case: gen.Case{Seed: c.Seed*611953 + int64(i), NRows: []int{0, 1, 8, 60, 250}[c.Rng.Intn(5)]}, Extra: 16 + c.Rng.Intn(200)}
		if i%4 == 1 {
			sp.API = "writer"
		}
		if c.Rng.Intn(4) == 0 {
			sp.KV = 1 + c.Rng.Intn(4)
		}
		if c.Rng.Intn(3) == 0 {
			sp.WBuf = []int{-1, 1, 64, 1000}[c.Rng.Intn(4)]
		}
		f, ok := build(sp)
		if !ok {
			continue
		}
		ref := e.ref(f)
		if ref.err != "" {
			c.Res.Buckets["skipped/reference-error"]++
			continue
		}
		sc := scenario{Spec: sp, Mode: "reset", Lives: livesFor(c.Rng, f, len(ref.bytes), allKinds)}
		e.run(sc, "reset/logical/"+sc.Lives[0].Kind)
		if i < 2 {
			c.Sample(sc)
		}
		if i%4 == 0 {
			e.run(scenario{Spec: sp, Mode: "buffer", Prev: 1 + c.Rng.Intn(3), Sort: c.Rng.Intn(2) == 0, Count: c.Rng.Intn(2)}, "buffer/logical")
		}
		if i%4 == 2 {
			e.run(scenario{Spec: sp, Mode: "history", Lives: livesFor(c.Rng, f, len(ref.bytes), []string{"closed", "flushes", "abandon", "rowgroup"})}, "history/logical")
		}
	}

	// ---- verbatim copies in the previous lives, all-null columns in the file ----
	// a row group copied from a file of the same configuration goes through the
	// column writers without their building anything (pages, dictionary, bloom
	// filter, page index are streamed from the source); the file under test then
	// holds only nulls in its optional columns, so that it writes none of these
	// itself: whatever the copy left in the column writers shows
	nCopy := c.N(72, 700)
	for i := 0; i < nCopy; i++ {
		fam := []string{"typed", "gen", "opt", "typed", "gen", "rle", "bloomlen", "typed"}[i%8]
		sp := spec{Family: fam, Case: gen.Case{Seed: c.Seed*49157 + int64(i), NRows: []int{1, 8, 60, 250}[c.Rng.Intn(4)]}, Extra: 16 + c.Rng.Intn(200)}
		switch fam {
		case "gen":
			sp.Case.MaxDepth, sp.Case.MaxFields, sp.Case.Codecs = 1+c.Rng.Intn(3), 1+c.Rng.Intn(5), allCodecs
			sp.Case.NullBias = []int{10, 10, 3}[c.Rng.Intn(3)] // 10: every optional value of the file is null (the previous lives draw with bias 5)
		case "bloomlen":
			sp.Len = c.Rng.Intn(40)
		default:
			sp.NullFin = c.Rng.Intn(4) != 0
			if fam == "typed" && c.Rng.Intn(4) == 0 {
				sp.API = "writer"
			}
		}
		f, ok := build(sp)
		if !ok {
			continue
		}
		ref := e.ref(f)
		if ref.err != "" {
			c.Res.Buckets["skipped/reference-error"]++
			continue
		}
		lives := livesFor(c.Rng, f, len(ref.bytes), []string{"copyfile", "copyfile", "closed", "flushes", "rowgroup", "abandon"})
		lives[c.Rng.Intn(len(lives))].Kind = "copyfile"
		before := copiedChunks
		sc := scenario{Spec: sp, Mode: "reset", Lives: lives}
		e.run(sc, "reset/copyfile/"+fam)
		if copiedChunks > before {
			c.Res.Buckets["reset/copyfile/verbatim-copies"]++
		}
		if i < 2 {
			c.Sample(sc)
		}
		if i%6 == 5 {
			e.run(scenario{Spec: sp, Mode: "history", Lives: lives}, "history/copyfile")
		}
	}
	c.Note("%d column chunks were copied verbatim by the copyfile lives", copiedChunks)

	// ---- schema options: struct tag replacements, and the process-wide schema cache ----
	// every typed family with each single replacement and random sets of them:
	// reused writers; the same Go type used with and without replacements in this
	// process, in both orders, against a process that has done nothing else
	nTags := c.N(40, 400)
	tagFams := []string{"typed", "rle", "be128", "opt"}
	for i := 0; i < nTags; i++ {
		fam := tagFams[i%4]
		set := tagSets[fam]
		sp := spec{Family: fam, Case: gen.Case{Seed: c.Seed*86243 + int64(i), NRows: []int{1, 8, 60, 250}[c.Rng.Intn(4)]}, Extra: 16 + c.Rng.Intn(100)}
		if k := i / 4; k < len(set) {
			sp.Tags = 1 << uint(k)
		} else {
			sp.Tags = 1 + c.Rng.Intn(1<<uint(len(set))-1)
		}
		if fam == "typed" && i%8 == 4 {
			sp.API = "writer"
		}
		f, ok := build(sp)
		if !ok {
			continue
		}
		ref := e.ref(f)
		if ref.err != "" {
			c.Violation("tags-reference-error", fmt.Sprintf("%s with struct tag replacements %b: a fresh writer fails: %s", fam, sp.Tags, ref.err), scenario{Spec: sp, Mode: "repeat", Count: 1})
			continue
		}
		if plain, ok := build(sibling(sp)); ok && i < 4*len(set) {
			if pr := e.ref(plain); pr.err == "" && bytes.Equal(pr.bytes, ref.bytes) {
				c.Violation("tags-without-effect", fmt.Sprintf("%s: the struct tag replacement %v leaves the file unchanged", fam, set[i/4]), scenario{Spec: sp, Mode: "repeat", Count: 1})
			}
		}
		sc := scenario{Spec: sp, Mode: "reset", Lives: livesFor(c.Rng, f, len(ref.bytes), allKinds)}
		e.run(sc, "reset/tags/"+fam)
		if i < 2 {
			c.Sample(sc)
		}
		switch i % 5 {
		case 0, 1:
			e.run(scenario{Spec: sp, Mode: "process"}, "process/tags-after-plain/"+fam)
		case 2:
			e.run(scenario{Spec: sibling(sp), Mode: "process"}, "process/plain-after-tags/"+fam)
		}
	}

	// ---- (c), (d): goroutines, pools, GOMAXPROCS, repetition ----
	nEnv := c.N(24, 200)
	for i := 0; i < nEnv; i++ {
		var sp spec
		if i%3 == 0 {
			sp = spec{Family: "typed", Case: gen.Case{Seed: c.Seed*31 + int64(i), NRows: 50 + c.Rng.Intn(300)}, KV: c.Rng.Intn(4)}
		} else {
			sp = spec{Family: "gen", Case: gen.Case{Seed: c.Seed*613 + int64(i), NRows: []int{5, 40, 300, 700}[c.Rng.Intn(4)], MaxDepth: 1 + c.Rng.Intn(3), MaxFields: 1 + c.Rng.Intn(5), Codecs: allCodecs, NullBias: c.Rng.Intn(8)}, KV: c.Rng.Intn(4)}
		}
		mode := []string{"goroutine", "churn", "gomaxprocs", "poison", "repeat", "history"}[i%6]
		sc := scenario{Spec: sp, Mode: mode}
		if mode == "repeat" {
			sc.Count = 50
		}
		if mode == "history" {
			sc.Spec.Extra = 20 + c.Rng.Intn(100)
			f, ok := build(sc.Spec)
			if !ok {
				continue
			}
			sc.Lives = livesFor(c.Rng, f, 1000, []string{"closed", "flushes", "abandon", "rowgroup"})
		}
		e.run(sc, "environment/"+mode)
	}

	// ---- classification lookups answered by the extracted model ----
	if c.HasOracle() {
		// the classification of the regenerated field lists, evaluated by the
		// extracted model: names the field that stops C17_classification_total
		if got := c.Ask("c17.totality x"); got != "ok" {
			c.Mismatch("proof:C17_classification_total ("+got+": classify the field in coq/theories/Reset/Classification.v)", "field lists of Generated/StateFields.v", "every field classified", got, nil)
		}
		for _, q := range [][3]string{{"writer", "rowGroups", "reset"}, {"writer", "metadata", "reset"}, {"ColumnWriter", "filter", "scratch"},
			{"ColumnWriter", "columnPath", "config"}, {"ColumnWriter", "rowGroupOrdinal", "reset"}, {"writer", "no-such-field", "none"}} {
			if got := c.Ask("c17.classify " + q[0] + " " + q[1]); got != q[2] {
				c.Mismatch("corr:C17.classification", q[0]+"."+q[1], q[2], got, nil)
			}
		}
		// the bloom filter location after a verbatim copy: the reset that forgets it only with a
		// filter of its own is told apart
		for _, q := range [][3]string{{"current", "4:c2f", "0:0"}, {"pinned", "4:c2f", "4:2f"}, {"pinned", "4:b3", "0:0"}} {
			if got := c.Ask("c17.bloomloc " + q[0] + " a " + q[1] + " 4:b0"); got != q[2] {
				c.Mismatch("corr:C17.pinned-bloom-location", q[0]+" "+q[1], q[2], got, nil)
			}
		}
		// the pinned resets must be told apart by the model (sanity of the oracle wiring)
		cfg := "5:3:1:7:1/2/1/1.2;0/0/0/3"
		for _, q := range [][4]string{{"current", "w0+c,k9=9,x14+4+2,c", "w0+7,c", "1"}, {"pinned-aliasing", "w0+c,c", "w0+7,c", "0"},
			{"pinned-kv", "k9=9,w0+1,c", "w0+7,c", "0"}, {"pinned-ordinal", "w0+1,c", "w0+7,c", "0"}, {"pinned-plain", "w0+4,w7+1,a", "w0+4,w8+1,c", "0"}, {"current", "w0+4,w7+1,a", "w0+4,w8+1,c", "1"}} {
			if got := c.Ask(fmt.Sprintf("c17.equiv %s %s _ %s %s", q[0], cfg, q[1], q[2])); got != q[3] {
				c.Mismatch("corr:C17.pinned-"+q[0], q[1]+" | "+q[2], q[3], got, nil)
			}
		}
	}

	c.Note("geospatial statistics of %d column chunks compared with the model", e.geoChunks)
	c.Note("bloom filter locations of %d column chunks compared with the model (%d configured chunks without filter)", e.bloomChunks, e.bloomNone)
	for msg, n := range panickedLives {
		c.Note("%d previous lives ended in a panic of the library (treated as failed lives): %s", n, msg)
	}
	for msg, n := range buildPanics {
		// generated schemas may be refused by the library; the typed families must always build
		c.Note("%d specs could not be built: %s", n, core.Trunc(msg, 200))
		if !strings.Contains(msg, "gen:") {
			c.Violation("spec-unbuildable", fmt.Sprintf("%d typed specs could not be built: %s", n, core.Trunc(msg, 300)), nil)
		}
	}

	// ---- cases.v: the same model runs inside coqc ----
	if len(e.vm) > 0 {
		c.Vm("From Coq Require Import List NArith Bool Arith.\nFrom PQ Require Import Reset.Model.\nImport ListNotations.")
		c.Vm("Definition cases : list (config * list (N * N) * list op * list N * nat) := [\n  " + strings.Join(e.vm, ";\n  ") + "].")
		c.Vm("Definition eqNs (a b : list N) : bool := Nat.eqb (length a) (length b) && forallb (fun p => N.eqb (fst p) (snd p)) (combine a b).")
		c.Vm("Definition agrees (x : config * list (N * N) * list op * list N * nat) : bool :=\n  let '(cfg, kv, ops, rows, nkv) := x in\n  match last_footer (observe (run_ids cfg kv ops)) None with\n  | Some f => eqNs (map rg_rows (ft_rgs f)) rows && Nat.eqb (length (ft_kv f)) nkv\n  | None => false\n  end.")
		c.Vm("Definition mismatches := filter (fun x => negb (agrees x)) cases.")
		c.Vm("Definition M := Eval vm_compute in (length cases, map (fun x => snd (fst x)) mismatches).\nPrint M.")
		c.Res.VmCases = len(e.vm)
	}
}

// ---------------------------------------------------------------------------
// replay
// ---------------------------------------------------------------------------

func replayC17(c *core.Ctx, raw json.RawMessage) {
	var req struct {
		DigestRequest []spec `json:"digest_request"`
	}
	if json.Unmarshal(raw, &req) == nil && len(req.DigestRequest) > 0 {
		var reply []caseDigest
		for _, sp := range req.DigestRequest {
			reply = append(reply, digestCase(sp))
		}
		b, _ := json.Marshal(reply)
		_ = os.WriteFile(filepath.Join(c.OutDir, "digest_reply.json"), b, 0o644)
		return
	}
	var dump struct {
		Dump *scenario `json:"dump_request"`
	}
	if json.Unmarshal(raw, &dump) == nil && dump.Dump != nil {
		// debugging aid: writes the reference file and the scenario's file
		if f, ok := build(dump.Dump.Spec); ok {
			_ = os.WriteFile(filepath.Join(c.OutDir, "dump_reference.parquet"), produceFresh(f).bytes, 0o644)
			if dump.Dump.Mode == "reset" {
				_ = os.WriteFile(filepath.Join(c.OutDir, "dump_scenario.parquet"), produceReused(f, dump.Dump.Lives).bytes, 0o644)
			}
		}
		return
	}
	var bv struct {
		Spec     *spec    `json:"spec"`
		Variants []string `json:"variants"`
		Digests  []string `json:"digests"`
	}
	if json.Unmarshal(raw, &bv) == nil && bv.Spec != nil && len(bv.Digests) == 2 {
		cd := digestCase(*bv.Spec)
		c.Note("this build (%s) produces digest %s; recorded: %v = %v", c.Res.Variant, cd.Digest, bv.Variants, bv.Digests)
		c.Case("replay", bv.Spec.key(), true)
		if cd.Digest != bv.Digests[0] && cd.Digest != bv.Digests[1] {
			c.Violation("build-variants-differ", "this build produces a third digest "+cd.Digest, raw)
		} else if bv.Digests[0] != bv.Digests[1] {
			c.Violation("build-variants-differ", fmt.Sprintf("recorded digests of %v differ: %v (this build: %s)", bv.Variants, bv.Digests, cd.Digest), raw)
		}
		return
	}
	var sc scenario
	if err := json.Unmarshal(raw, &sc); err != nil || sc.Mode == "" {
		c.Note("replay is not a C17 scenario; rerun the check with the recorded seed")
		return
	}
	e := &env{c: c, refs: map[string]outcome{}}
	e.checkScenario(sc)
	c.Case("replay", sc.Spec.key(), true)
}
