// C09 — merging sorted row groups (or row readers) yields a sorted, complete,
// per-input-stable sequence; with duplicate dropping one row per distinct key.
//
// Three kinds of cases:
//
//	readers : parquet.MergeRowReaders over in-memory RowReaders whose ReadRows
//	          returns at most n rows per call (n from a script).  The emitted
//	          (input, seq) sequence, batch by batch, must be the model's.
//	dedupe  : parquet.DedupeRowReader over one scripted reader (exact
//	          correspondence with the model's kept rows, batch by batch).
//	groups  : parquet.MergeRowGroups over Buffers and file-backed row groups
//	          (small pages: several pages per column index, refinement), with
//	          and without DropDuplicatedRows, read through Rows() and written
//	          with Writer.WriteRowGroup and read back.
//
// The row schema holds, besides the sorting columns and the payload, extra
// non-key columns (optional, repeated, lists, groups, nested repetition) placed
// by name before, between and after the sorting columns: rows whose values do
// not sit at the index of their column.
//
// The sorting columns are of every orderable kind of column (types.go): a key
// is a tuple of integers, a column of kind K holds their image under a strictly
// increasing map into the values of K spread over the whole width of the type.
//
// A sorting column may be the leaf below one or two optional groups (c09Col.Nest):
// maximum definition level up to 3, a null key is a null at one of the levels
// below it (c09Col.NullDef, c09NullLevel).
//
// The inputs of MergeRowGroups are also row groups built from the inputs of the
// case (nested.go): merged, merged and deduplicated, MultiRowGroup,
// ConvertRowGroup wrappers, row groups of a wider schema, one to three levels.
//
// The property predicate (sorted by the comparator, multiset = union of the
// inputs with whole rows intact, each input's rows in their original order;
// with dedupe one row per distinct key, each a row of an input) is evaluated
// on Go's output in every kind, with a comparator written here (not the
// library's) on the Go values decoded from the output rows, in the order the
// parquet format gives their type.
package main

import (
	"bytes"
	"encoding/json"
	"fmt"
	"io"
	"reflect"
	"sort"
	"strconv"
	"strings"
	"unsafe"

	"github.com/parquet-go/parquet-go"

	"verif/harness/core"
)

func main() { core.Main("C09", runC09, replayC09) }

type c09Col struct {
	Desc       bool `json:"desc,omitempty"`
	NullsFirst bool `json:"nulls_first,omitempty"`
	Optional   bool `json:"optional,omitempty"`
	// the kind of the column (types.go); "" = INT(64) holding the ordinal itself.
	// A column of kind Type holds emb(ordinal - Bias).
	Type string `json:"type,omitempty"`
	Bias int64  `json:"bias,omitempty"`
	// Nest > 0: the sorting column is the leaf "v" below Nest optional groups (k<j>.v, k<j>.g.v): its
	// maximum definition level is Nest (+1 when the leaf itself is optional) and a null key is a null at
	// one of the levels below the maximum.  NullDef tells which: 0 = any level (a function of seed, input
	// and row), 1 = the outermost group is null (level 0), 2 = an intermediate level only (>= 1: some
	// group present, something below it null; needs a maximum level >= 2).
	Nest    int `json:"nest,omitempty"`
	NullDef int `json:"null_def,omitempty"`
}

func (col c09Col) maxDef() int {
	d := col.Nest
	if col.Optional {
		d++
	}
	return d
}

func (col c09Col) nullable() bool { return col.maxDef() > 0 }

// path of sorting column j in the row schema
func (col c09Col) path(j int) []string {
	p := []string{fmt.Sprintf("k%d", j)}
	if col.Nest > 0 {
		for i := 1; i < col.Nest; i++ {
			p = append(p, "g")
		}
		p = append(p, "v")
	}
	return p
}

// c09NullLevel: the definition level of the null key of row seq of input in, in sorting column j
func c09NullLevel(col c09Col, seed int64, in, seq, j int) int {
	m := col.maxDef()
	switch {
	case m <= 1 || col.NullDef == 1:
		return 0
	case col.NullDef == 2:
		return 1 + c09NewHash(seed, in, seq, 1000+j).intn(m-1)
	}
	return c09NewHash(seed, in, seq, 1000+j).intn(m)
}

// a key: one entry per sorting column, nil = null
type c09Key []*int64

// a non-key column of the row schema; its name decides where its leaf
// columns lie relative to the sorting columns (fields are ordered by name)
type c09Extra struct {
	Name  string `json:"name"`
	Shape string `json:"shape"`
}

type c09Case struct {
	Kind      string     `json:"kind"`
	Cols      []c09Col   `json:"cols"`
	Extras    []c09Extra `json:"extras,omitempty"`     // non-key columns besides the payload
	ExtraSeed int64      `json:"extra_seed,omitempty"` // their values are a function of (seed, input, seq)
	Inputs    [][]c09Key `json:"inputs"`
	Chunks    [][]int    `json:"chunks,omitempty"`   // per input: rows returned by successive ReadRows calls of the source
	EOFData   bool       `json:"eof_data,omitempty"` // the sources return io.EOF together with their last rows
	Batches   []int      `json:"batches"`            // lengths of the slices handed to ReadRows, cycled
	Backing   []string   `json:"backing,omitempty"`  // groups: per input "buffer" or "file"
	PageBuf   int        `json:"page_buf,omitempty"` // groups: PageBufferSize of the input files
	Dedupe    bool       `json:"dedupe,omitempty"`
	NoRefine  bool       `json:"no_refine,omitempty"` // groups: VerifSetDisableMergeRefinement(true)
	Tree      []c09Node  `json:"tree,omitempty"`      // groups: the inputs of the merge as a forest over Inputs (nested.go); nil = the inputs themselves
	Note      string     `json:"note,omitempty"`
}

func c09K(vs ...any) c09Key {
	k := make(c09Key, len(vs))
	for i, v := range vs {
		if v != nil {
			x := int64(v.(int))
			k[i] = &x
		}
	}
	return k
}

// ---- comparator of the harness (independent of the library) -------------

func c09CmpCol(col c09Col, a, b *int64) int {
	switch {
	case a == nil && b == nil:
		return 0
	case a == nil:
		if col.NullsFirst {
			return -1
		}
		return 1
	case b == nil:
		if col.NullsFirst {
			return 1
		}
		return -1
	}
	c := 0
	if *a < *b {
		c = -1
	} else if *a > *b {
		c = 1
	}
	if col.Desc {
		c = -c
	}
	return c
}

func c09Cmp(cols []c09Col, a, b c09Key) int {
	for j, col := range cols {
		if c := c09CmpCol(col, a[j], b[j]); c != 0 {
			return c
		}
	}
	return 0
}

// c09CmpOut compares two output rows: the columns of a kind other than the
// default by the values decoded from the rows, in the order of their type.
func c09CmpOut(cols []c09Col, a, b *c09Out) int {
	for j, col := range cols {
		x, y := a.Key[j], b.Key[j]
		if x != nil && y != nil && col.typed() && a.TV != nil && b.TV != nil {
			c := c09CmpTV(c09KindOf(col.Type).order, a.TV[j], b.TV[j])
			if col.Desc {
				c = -c
			}
			if c != 0 {
				return c
			}
			continue
		}
		if c := c09CmpCol(col, x, y); c != 0 {
			return c
		}
	}
	return 0
}

// c09OutKeyText: the key of an output row, with the decoded values of the columns of a kind other than the default
func c09OutKeyText(cols []c09Col, o *c09Out) string {
	t := c09KeyTok(o.Key)
	for j, col := range cols {
		if col.typed() && o.TV != nil && o.Key[j] != nil {
			t += fmt.Sprintf(" [column %d %s = %s]", j, col.Type, c09TVString(c09KindOf(col.Type).order, o.TV[j]))
		}
	}
	return t
}

func c09KeyEq(a, b c09Key) bool {
	if len(a) != len(b) {
		return false
	}
	for i := range a {
		if (a[i] == nil) != (b[i] == nil) || (a[i] != nil && *a[i] != *b[i]) {
			return false
		}
	}
	return true
}

func c09KeyTok(k c09Key) string {
	var sb strings.Builder
	for j, v := range k {
		if j > 0 {
			sb.WriteByte(':')
		}
		if v == nil {
			sb.WriteByte('N')
		} else {
			sb.WriteString(core.Zs(*v))
		}
	}
	return sb.String()
}

func c09KeysTok(ks []c09Key) string {
	if len(ks) == 0 {
		return "_"
	}
	parts := make([]string, len(ks))
	for i, k := range ks {
		parts[i] = c09KeyTok(k)
	}
	return strings.Join(parts, ",")
}

func c09InputsTok(ins [][]c09Key) string {
	if len(ins) == 0 {
		return "="
	}
	parts := make([]string, len(ins))
	for i, in := range ins {
		parts[i] = c09KeysTok(in)
	}
	return strings.Join(parts, "/")
}

func c09NatsTok(ns []int) string {
	if len(ns) == 0 {
		return "_"
	}
	parts := make([]string, len(ns))
	for i, n := range ns {
		parts[i] = strconv.FormatInt(int64(n), 16)
	}
	return strings.Join(parts, ",")
}

func c09CfgTok(cols []c09Col) string {
	parts := make([]string, len(cols))
	for i, c := range cols {
		parts[i] = b01(c.Desc) + b01(c.NullsFirst)
	}
	return strings.Join(parts, ",")
}

func b01(b bool) string {
	if b {
		return "1"
	}
	return "0"
}

// ---- schema and rows -----------------------------------------------------
//
// The row schema is a parquet.Group (fields ordered by name) with the sorting
// columns k0, k1, ..., the payload p_in, p_seq, p_tag and the extra columns of
// the case.  The names of the extras place their leaf columns before the first
// key ("a.."), between k0 and k1 ("k0x.."), between the keys and the payload
// ("m..") or after the payload ("z.."); their shapes cover required / optional
// leaves, repeated leaves, LIST-annotated groups, groups (required, optional,
// repeated) and a repeated column nested in a repeated group.  A row of a
// repeated column holds 0..3 values, so the position of the values of the
// later columns within the row differs from their column index.

// one value of a leaf column of a row, as the harness writes and expects it
type c09Val struct {
	Null     bool
	V        int64
	Rep, Def int
}

type c09LeafDef struct {
	path           []string
	maxRep, maxDef int
	str            bool // byte array leaf: the value is the decimal text of V prefixed with "s"
}

const (
	c09RoleKey = iota
	c09RoleIn
	c09RoleSeq
	c09RoleTag
	c09RoleExtra
)

type c09Field struct {
	name   string
	node   parquet.Node
	leaves []c09LeafDef
	role   int
	idx    int // key: index of the sorting column; extra: index in Extras
	shape  string
	first  int // column index of the first leaf
}

type c09Schema struct {
	cols      []c09Col
	extras    []c09Extra
	extraSeed int64
	fields    []c09Field // ordered by name = column order
	numLeaves int
	keyLeaf   []int // leaf column of sorting column j
	inLeaf    int
	seqLeaf   int
	tagLeaf   int
	bad       string // the schema the library built does not have the leaves the harness expects
	schema    *parquet.Schema
	sorting   []parquet.SortingColumn
	compare   func(parquet.Row, parquet.Row) int
}

var c09ExtraShapes = []string{"required", "optional", "string", "repeated", "list", "optlist", "group", "optgroup", "repgroup", "rep2"}

// positions of an extra field: prefix of its name
var c09ExtraPos = []string{"a", "k0x", "m", "z"}

func c09ExtraField(name, shape string) (node parquet.Node, leaves []c09LeafDef, ok bool) {
	i64 := func() parquet.Node { return parquet.Int(64) }
	switch shape {
	case "required":
		return i64(), []c09LeafDef{{path: []string{name}}}, true
	case "optional":
		return parquet.Optional(i64()), []c09LeafDef{{path: []string{name}, maxDef: 1}}, true
	case "string":
		return parquet.String(), []c09LeafDef{{path: []string{name}, str: true}}, true
	case "repeated":
		return parquet.Repeated(i64()), []c09LeafDef{{path: []string{name}, maxRep: 1, maxDef: 1}}, true
	case "list":
		return parquet.List(i64()), []c09LeafDef{{path: []string{name, "list", "element"}, maxRep: 1, maxDef: 1}}, true
	case "optlist":
		return parquet.Optional(parquet.List(i64())), []c09LeafDef{{path: []string{name, "list", "element"}, maxRep: 1, maxDef: 2}}, true
	case "group":
		return parquet.Group{"a": i64(), "b": parquet.Optional(parquet.String())},
			[]c09LeafDef{{path: []string{name, "a"}}, {path: []string{name, "b"}, maxDef: 1, str: true}}, true
	case "optgroup":
		return parquet.Optional(parquet.Group{"a": i64(), "b": parquet.Optional(i64())}),
			[]c09LeafDef{{path: []string{name, "a"}, maxDef: 1}, {path: []string{name, "b"}, maxDef: 2}}, true
	case "repgroup":
		return parquet.Repeated(parquet.Group{"a": i64(), "b": parquet.Optional(i64())}),
			[]c09LeafDef{{path: []string{name, "a"}, maxRep: 1, maxDef: 1}, {path: []string{name, "b"}, maxRep: 1, maxDef: 2}}, true
	case "rep2":
		return parquet.Repeated(parquet.Group{"x": parquet.Repeated(i64())}),
			[]c09LeafDef{{path: []string{name, "x"}, maxRep: 2, maxDef: 2}}, true
	}
	return nil, nil, false
}

// pseudo-random choices derived from (seed, input, seq, field): the values of
// the extra columns of a row can be recomputed from the identity of the row
type c09Hash struct{ x uint64 }

func c09NewHash(seed int64, in, seq, field int) *c09Hash {
	return &c09Hash{uint64(seed)*0x9E3779B97F4A7C15 ^ uint64(in+1)*0xBF58476D1CE4E5B9 ^ uint64(seq+1)*0x94D049BB133111EB ^ uint64(field+1)*0xD6E8FEB86659FD93}
}

func (h *c09Hash) next() uint64 {
	h.x += 0x9E3779B97F4A7C15
	z := h.x
	z = (z ^ (z >> 30)) * 0xBF58476D1CE4E5B9
	z = (z ^ (z >> 27)) * 0x94D049BB133111EB
	return z ^ (z >> 31)
}

func (h *c09Hash) intn(n int) int { return int(h.next() % uint64(n)) }

// values in the range of the keys the generators use (and beyond, both signs)
func (h *c09Hash) val() int64 { return int64(h.next()%20001) - 6000 }

// c09ExtraVals: the values of the leaves of one extra field in one row.
func c09ExtraVals(shape string, h *c09Hash) [][]c09Val {
	rep := func(e int) int {
		if e == 0 {
			return 0
		}
		return 1
	}
	switch shape {
	case "required", "string":
		return [][]c09Val{{{V: h.val()}}}
	case "optional":
		if h.intn(3) == 0 {
			return [][]c09Val{{{Null: true}}}
		}
		return [][]c09Val{{{V: h.val(), Def: 1}}}
	case "repeated", "list":
		n := h.intn(4)
		if n == 0 {
			return [][]c09Val{{{Null: true}}}
		}
		vs := make([]c09Val, n)
		for e := range vs {
			vs[e] = c09Val{V: h.val(), Rep: rep(e), Def: 1}
		}
		return [][]c09Val{vs}
	case "optlist":
		n := h.intn(5) - 1 // -1: null list, 0: empty list
		if n <= 0 {
			return [][]c09Val{{{Null: true, Def: n + 1}}}
		}
		vs := make([]c09Val, n)
		for e := range vs {
			vs[e] = c09Val{V: h.val(), Rep: rep(e), Def: 2}
		}
		return [][]c09Val{vs}
	case "group":
		a := c09Val{V: h.val()}
		if h.intn(3) == 0 {
			return [][]c09Val{{a}, {{Null: true}}}
		}
		return [][]c09Val{{a}, {{V: h.val(), Def: 1}}}
	case "optgroup":
		if h.intn(3) == 0 {
			return [][]c09Val{{{Null: true}}, {{Null: true}}}
		}
		a := c09Val{V: h.val(), Def: 1}
		if h.intn(3) == 0 {
			return [][]c09Val{{a}, {{Null: true, Def: 1}}}
		}
		return [][]c09Val{{a}, {{V: h.val(), Def: 2}}}
	case "repgroup":
		n := h.intn(4)
		if n == 0 {
			return [][]c09Val{{{Null: true}}, {{Null: true}}}
		}
		as, bs := make([]c09Val, n), make([]c09Val, n)
		for e := 0; e < n; e++ {
			as[e] = c09Val{V: h.val(), Rep: rep(e), Def: 1}
			if h.intn(3) == 0 {
				bs[e] = c09Val{Null: true, Rep: rep(e), Def: 1}
			} else {
				bs[e] = c09Val{V: h.val(), Rep: rep(e), Def: 2}
			}
		}
		return [][]c09Val{as, bs}
	case "rep2":
		n := h.intn(3)
		if n == 0 {
			return [][]c09Val{{{Null: true}}}
		}
		var vs []c09Val
		for o := 0; o < n; o++ {
			m := h.intn(3)
			if m == 0 {
				vs = append(vs, c09Val{Null: true, Rep: rep(o), Def: 1})
				continue
			}
			for i := 0; i < m; i++ {
				r := 2
				if i == 0 {
					r = rep(o)
				}
				vs = append(vs, c09Val{V: h.val(), Rep: r, Def: 2})
			}
		}
		return [][]c09Val{vs}
	}
	return nil
}

func c09SchemaOf(cs *c09Case) *c09Schema { return c09NewSchema(cs.Cols, cs.Extras, cs.ExtraSeed) }

func c09NewSchema(cols []c09Col, extras []c09Extra, extraSeed int64) *c09Schema {
	s := &c09Schema{cols: cols, extras: extras, extraSeed: extraSeed, keyLeaf: make([]int, len(cols))}
	for j, col := range cols {
		name := fmt.Sprintf("k%d", j)
		f := c09Field{name: name, role: c09RoleKey, idx: j, leaves: []c09LeafDef{{path: col.path(j), maxDef: col.maxDef()}}}
		f.node = parquet.Int(64)
		if col.typed() {
			if k := c09KindOf(col.Type); k != nil {
				f.node = k.node()
			} else {
				s.bad = fmt.Sprintf("unknown kind %q of sorting column %d", col.Type, j)
			}
		}
		if col.Optional {
			f.node = parquet.Optional(f.node)
		}
		for p := col.path(j); len(p) > 1; p = p[:len(p)-1] {
			f.node = parquet.Optional(parquet.Group{p[len(p)-1]: f.node})
		}
		s.fields = append(s.fields, f)
		var sc parquet.SortingColumn
		if col.Desc {
			sc = parquet.Descending(col.path(j)...)
		} else {
			sc = parquet.Ascending(col.path(j)...)
		}
		if col.NullsFirst {
			sc = parquet.NullsFirst(sc)
		}
		s.sorting = append(s.sorting, sc)
	}
	s.fields = append(s.fields,
		c09Field{name: "p_in", role: c09RoleIn, node: parquet.Int(64), leaves: []c09LeafDef{{path: []string{"p_in"}}}},
		c09Field{name: "p_seq", role: c09RoleSeq, node: parquet.Int(64), leaves: []c09LeafDef{{path: []string{"p_seq"}}}},
		// a byte array payload: "<input>:<seq>:<key>"
		c09Field{name: "p_tag", role: c09RoleTag, node: parquet.String(), leaves: []c09LeafDef{{path: []string{"p_tag"}, str: true}}})
	for e, x := range extras {
		node, leaves, ok := c09ExtraField(x.Name, x.Shape)
		if !ok {
			s.bad = fmt.Sprintf("unknown shape %q of the extra column %q", x.Shape, x.Name)
			continue
		}
		s.fields = append(s.fields, c09Field{name: x.Name, role: c09RoleExtra, idx: e, shape: x.Shape, node: node, leaves: leaves})
	}
	sort.SliceStable(s.fields, func(a, b int) bool { return s.fields[a].name < s.fields[b].name })
	g := parquet.Group{}
	for i := range s.fields {
		f := &s.fields[i]
		g[f.name] = f.node
		f.first = s.numLeaves
		switch f.role {
		case c09RoleKey:
			s.keyLeaf[f.idx] = f.first
		case c09RoleIn:
			s.inLeaf = f.first
		case c09RoleSeq:
			s.seqLeaf = f.first
		case c09RoleTag:
			s.tagLeaf = f.first
		}
		s.numLeaves += len(f.leaves)
	}
	s.schema = parquet.NewSchema("c09", g)
	// the leaves the library derives from the nodes are the ones rows are built for
	columns := s.schema.Columns()
	if len(columns) != s.numLeaves && s.bad == "" {
		s.bad = fmt.Sprintf("the schema has %d leaf columns %v, the harness expects %d", len(columns), columns, s.numLeaves)
	}
	for _, f := range s.fields {
		for l, def := range f.leaves {
			if s.bad != "" {
				break
			}
			ci := f.first + l
			if strings.Join(columns[ci], ".") != strings.Join(def.path, ".") {
				s.bad = fmt.Sprintf("leaf column %d of the schema is %v, the harness expects %v", ci, columns[ci], def.path)
				break
			}
			lc, ok := s.schema.Lookup(def.path...)
			if !ok || lc.ColumnIndex != ci || lc.MaxRepetitionLevel != def.maxRep || lc.MaxDefinitionLevel != def.maxDef {
				s.bad = fmt.Sprintf("leaf column %v: Lookup = (found %v, column %d, max repetition level %d, max definition level %d), the harness expects column %d, levels %d and %d",
					def.path, ok, lc.ColumnIndex, lc.MaxRepetitionLevel, lc.MaxDefinitionLevel, ci, def.maxRep, def.maxDef)
			}
		}
	}
	s.compare = s.schema.Comparator(s.sorting...)
	return s
}

func c09StrOf(v int64) []byte { return []byte("s" + strconv.FormatInt(v, 10)) }

func (s *c09Schema) row(key c09Key, in, seq int) parquet.Row {
	row := make(parquet.Row, 0, s.numLeaves+4)
	for _, f := range s.fields {
		ci := f.first
		switch f.role {
		case c09RoleKey:
			col, k := s.cols[f.idx], key[f.idx]
			def := col.maxDef()
			switch {
			case col.nullable() && k == nil:
				row = append(row, parquet.NullValue().Level(0, c09NullLevel(col, s.extraSeed, in, seq, f.idx), ci))
			case col.typed():
				kd := c09KindOf(col.Type)
				row = append(row, kd.val(c09KeyTV(col, kd, *k, in, seq)).Level(0, def, ci))
			default:
				row = append(row, parquet.Int64Value(*k).Level(0, def, ci))
			}
		case c09RoleIn:
			row = append(row, parquet.Int64Value(int64(in)).Level(0, 0, ci))
		case c09RoleSeq:
			row = append(row, parquet.Int64Value(int64(seq)).Level(0, 0, ci))
		case c09RoleTag:
			row = append(row, parquet.ByteArrayValue([]byte(c09Tag(in, seq, key))).Level(0, 0, ci))
		default:
			vals := c09ExtraVals(f.shape, c09NewHash(s.extraSeed, in, seq, f.idx))
			for l, def := range f.leaves {
				for _, x := range vals[l] {
					switch {
					case x.Null:
						row = append(row, parquet.NullValue().Level(x.Rep, x.Def, ci+l))
					case def.str:
						row = append(row, parquet.ByteArrayValue(c09StrOf(x.V)).Level(x.Rep, x.Def, ci+l))
					default:
						row = append(row, parquet.Int64Value(x.V).Level(x.Rep, x.Def, ci+l))
					}
				}
			}
		}
	}
	return row
}

func (s *c09Schema) rows(in int, keys []c09Key) []parquet.Row {
	rows := make([]parquet.Row, len(keys))
	for i, k := range keys {
		rows[i] = s.row(k, in, i)
	}
	return rows
}

func c09Tag(in, seq int, key c09Key) string { return fmt.Sprintf("%d:%d:%s", in, seq, c09KeyTok(key)) }

// an output row decoded: identity and key as found in the row
type c09Out struct {
	In, Seq int
	Key     c09Key  // the ordinals
	TV      []c09TV // the decoded values of the sorting columns of a kind other than the default (nil when there is none)
	Bad     string
}

func (s *c09Schema) decode(row parquet.Row) c09Out {
	o := c09Out{In: -1, Seq: -1, Key: make(c09Key, len(s.cols))}
	// the values of a row, per leaf column: columns ascending, the values of a column adjacent
	start := make([]int, s.numLeaves+1)
	at := 0
	for ci := 0; ci < s.numLeaves; ci++ {
		start[ci] = at
		for at < len(row) && row[at].Column() == ci {
			at++
		}
	}
	start[s.numLeaves] = at
	if at != len(row) {
		o.Bad = fmt.Sprintf("value %d of the row has column index %d (the values of a row are ordered by column, %d leaf columns): %v", at, row[at].Column(), s.numLeaves, row)
		return o
	}
	one := func(ci int, what string) (parquet.Value, bool) {
		if n := start[ci+1] - start[ci]; n != 1 {
			o.Bad = fmt.Sprintf("the row has %d values in leaf column %d (%s), want 1: %v", n, ci, what, row)
			return parquet.Value{}, false
		}
		return row[start[ci]], true
	}
	nullDef := make([]int, len(s.cols))
	for j := range s.cols {
		v, ok := one(s.keyLeaf[j], "sorting column")
		if !ok {
			return o
		}
		if v.IsNull() {
			nullDef[j] = v.DefinitionLevel()
			continue
		}
		if v.DefinitionLevel() != s.cols[j].maxDef() {
			o.Bad = fmt.Sprintf("sorting column %d holds a value at definition level %d (maximum %d): %v", j, v.DefinitionLevel(), s.cols[j].maxDef(), row)
			return o
		}
		if col := s.cols[j]; col.typed() {
			kd := c09KindOf(col.Type)
			if v.Kind() != kd.phys {
				o.Bad = fmt.Sprintf("sorting column %d (%s) holds a value of kind %v: %v", j, col.Type, v.Kind(), row)
				return o
			}
			if o.TV == nil {
				o.TV = make([]c09TV, len(s.cols))
			}
			o.TV[j] = kd.read(v)
			x, ok := c09Unembed(col, kd, o.TV[j])
			if !ok {
				o.Bad = fmt.Sprintf("sorting column %d (%s) holds %s, which no input row holds: %v", j, col.Type, c09TVString(kd.order, o.TV[j]), row)
				return o
			}
			o.Key[j] = &x
			continue
		}
		x := v.Int64()
		o.Key[j] = &x
	}
	vin, ok1 := one(s.inLeaf, "p_in")
	vseq, ok2 := one(s.seqLeaf, "p_seq")
	vtag, ok3 := one(s.tagLeaf, "p_tag")
	if !ok1 || !ok2 || !ok3 {
		return o
	}
	if vin.IsNull() || vseq.IsNull() || vtag.IsNull() {
		o.Bad = fmt.Sprintf("row with a null payload: %v", row)
		return o
	}
	o.In, o.Seq = int(vin.Int64()), int(vseq.Int64())
	tag := string(vtag.ByteArray())
	if want := c09Tag(o.In, o.Seq, o.Key); tag != want {
		o.Bad = fmt.Sprintf("the payload of the row is %q, the row written was %q", tag, want)
		return o
	}
	// a null key is null at the level it was written with
	for j, col := range s.cols {
		if o.Key[j] == nil {
			if want := c09NullLevel(col, s.extraSeed, o.In, o.Seq, j); nullDef[j] != want {
				o.Bad = fmt.Sprintf("sorting column %d of row %d of input %d is null at definition level %d, the row written held a null at level %d", j, o.Seq, o.In, nullDef[j], want)
				return o
			}
		}
	}
	// the key values are, bit for bit, the ones written in that row (the sign of a zero included)
	for j, col := range s.cols {
		if o.TV == nil || !col.typed() || o.Key[j] == nil {
			continue
		}
		kd := c09KindOf(col.Type)
		if want := c09KeyTV(col, kd, *o.Key[j], o.In, o.Seq); !c09SameTV(kd.order, want, o.TV[j]) {
			o.Bad = fmt.Sprintf("sorting column %d (%s) of row %d of input %d holds %s, the row written held %s", j, col.Type, o.Seq, o.In, c09TVString(kd.order, o.TV[j]), c09TVString(kd.order, want))
			return o
		}
	}
	for _, f := range s.fields {
		if f.role != c09RoleExtra {
			continue
		}
		want := c09ExtraVals(f.shape, c09NewHash(s.extraSeed, o.In, o.Seq, f.idx))
		for l, def := range f.leaves {
			ci := f.first + l
			got := row[start[ci]:start[ci+1]]
			same := len(got) == len(want[l])
			for e := 0; same && e < len(got); e++ {
				g, w := got[e], want[l][e]
				switch {
				case g.IsNull() != w.Null || g.RepetitionLevel() != w.Rep || g.DefinitionLevel() != w.Def:
					same = false
				case w.Null:
				case def.str:
					same = string(g.ByteArray()) == string(c09StrOf(w.V))
				default:
					same = g.Int64() == w.V
				}
			}
			if !same {
				o.Bad = fmt.Sprintf("column %s (%s) of row %d of input %d holds %v, the row written held %+v", strings.Join(def.path, "."), f.shape, o.Seq, o.In, got, want[l])
				return o
			}
		}
	}
	return o
}

// scripted source
type c09Reader struct {
	rows    []parquet.Row
	pos     int
	chunks  []int
	ci      int
	eofData bool
	calls   []int // rows returned by each call
}

func (r *c09Reader) ReadRows(dst []parquet.Row) (int, error) {
	if r.pos >= len(r.rows) {
		return 0, io.EOF
	}
	n := len(dst)
	if r.ci < len(r.chunks) {
		c := r.chunks[r.ci]
		r.ci++
		if c < 1 {
			c = 1
		}
		if c < n {
			n = c
		}
	}
	if rem := len(r.rows) - r.pos; rem < n {
		n = rem
	}
	for i := 0; i < n; i++ {
		dst[i] = append(dst[i][:0], r.rows[r.pos+i]...)
	}
	r.pos += n
	r.calls = append(r.calls, n)
	if r.pos == len(r.rows) && r.eofData {
		return n, io.EOF
	}
	return n, nil
}

// ---- reading a RowReader with scripted slice lengths ----------------------

const c09MaxCalls = 200000

// c09ReadAll reads r until io.EOF with slices of the scripted lengths (one
// slice reused across calls, as applications do).  Returns the non-final
// batches, decoded, and the lengths used.
func c09ReadAll(s *c09Schema, r parquet.RowReader, batches []int) (out [][]c09Out, used []int, fail string) {
	if len(batches) == 0 {
		batches = []int{64}
	}
	maxLen := 0
	for _, b := range batches {
		if b > maxLen {
			maxLen = b
		}
	}
	buf := make([]parquet.Row, maxLen)
	for call := 0; ; call++ {
		if call > c09MaxCalls {
			return out, used, "ReadRows never returned io.EOF"
		}
		n := batches[call%len(batches)]
		if n < 1 {
			n = 1
		}
		got, err := r.ReadRows(buf[:n])
		used = append(used, n)
		if got < 0 || got > n {
			return out, used, fmt.Sprintf("ReadRows returned n=%d for a slice of %d", got, n)
		}
		if got > 0 || err == nil {
			b := make([]c09Out, got)
			for i := 0; i < got; i++ {
				b[i] = s.decode(buf[i])
			}
			out = append(out, b)
		}
		if err == io.EOF {
			return out, used, ""
		}
		if err != nil {
			return out, used, "ReadRows: " + err.Error()
		}
		if got == 0 {
			return out, used, "ReadRows returned (0, nil)"
		}
	}
}

func c09Flat(bs [][]c09Out) []c09Out {
	var f []c09Out
	for _, b := range bs {
		f = append(f, b...)
	}
	return f
}

func c09BatchesTok(bs [][]c09Out) string {
	if len(bs) == 0 {
		return "="
	}
	parts := make([]string, len(bs))
	for i, b := range bs {
		if len(b) == 0 {
			parts[i] = "_"
			continue
		}
		items := make([]string, len(b))
		for j, o := range b {
			items[j] = fmt.Sprintf("%d.%d", o.In, o.Seq)
		}
		parts[i] = strings.Join(items, ",")
	}
	return strings.Join(parts, "/")
}

// ---- the property predicate ----------------------------------------------

// c09Predicate evaluates the statement of C09 on an output sequence.  Returns
// (class, what) of the first failure, or "".
func c09Predicate(cs *c09Case, out []c09Out, dedupe bool) (string, string) {
	return c09PredicateOn(cs, out, dedupe, nil, nil)
}

// c09PredicateOn: the same for a merge whose inputs are built from some of the inputs of the case
// (member, nil = all) and must deliver the keys `expected` (nil = the keys of the inputs; for nested
// inputs that drop duplicates themselves the keys their rows must carry, see c09NodeKeys).
func c09PredicateOn(cs *c09Case, out []c09Out, dedupe bool, member []bool, expected []c09Key) (string, string) {
	total := 0
	for _, in := range cs.Inputs {
		total += len(in)
	}
	seen := make([][]bool, len(cs.Inputs))
	for i, in := range cs.Inputs {
		seen[i] = make([]bool, len(in))
	}
	last := make([]int, len(cs.Inputs))
	for i := range last {
		last[i] = -1
	}
	for p, o := range out {
		if o.Bad != "" {
			return "row-mangled", fmt.Sprintf("output row %d: %s", p, o.Bad)
		}
		if o.In < 0 || o.In >= len(cs.Inputs) || o.Seq < 0 || o.Seq >= len(cs.Inputs[o.In]) {
			return "row-mangled", fmt.Sprintf("output row %d claims to be row %d of input %d, which does not exist", p, o.Seq, o.In)
		}
		if member != nil && !member[o.In] {
			return "row-mangled", fmt.Sprintf("output row %d is row %d of input %d, which is not an input of this merge", p, o.Seq, o.In)
		}
		if !c09KeyEq(o.Key, cs.Inputs[o.In][o.Seq]) {
			return "row-mangled", fmt.Sprintf("output row %d is row %d of input %d but its key is %s instead of %s", p, o.Seq, o.In, c09KeyTok(o.Key), c09KeyTok(cs.Inputs[o.In][o.Seq]))
		}
		if seen[o.In][o.Seq] {
			return "row-duplicated", fmt.Sprintf("row %d of input %d (key %s) is emitted twice (second time at output position %d)", o.Seq, o.In, c09KeyTok(o.Key), p)
		}
		seen[o.In][o.Seq] = true
		if p > 0 {
			c := c09CmpOut(cs.Cols, &out[p-1], &o)
			if c > 0 {
				return "not-sorted", fmt.Sprintf("output rows %d and %d are out of order: key %s (input %d row %d) before key %s (input %d row %d)", p-1, p, c09OutKeyText(cs.Cols, &out[p-1]), out[p-1].In, out[p-1].Seq, c09OutKeyText(cs.Cols, &o), o.In, o.Seq)
			}
			if dedupe && c == 0 {
				return "duplicate-key", fmt.Sprintf("DropDuplicatedRows: key %s is emitted twice (output rows %d and %d)", c09KeyTok(o.Key), p-1, p)
			}
		}
		if o.Seq < last[o.In] {
			return "input-order-broken", fmt.Sprintf("input %d: row %d is emitted after row %d (output position %d)", o.In, o.Seq, last[o.In], p)
		}
		last[o.In] = o.Seq
	}
	if expected != nil {
		// sorted on both sides: the keys agree position by position
		lost := "row-lost"
		if dedupe {
			lost = "key-lost"
		}
		for p := 0; p < len(out) || p < len(expected); p++ {
			c := 0
			switch {
			case p >= len(out):
				c = 1
			case p >= len(expected):
				c = -1
			default:
				c = c09Cmp(cs.Cols, out[p].Key, expected[p])
			}
			if c > 0 {
				return lost, fmt.Sprintf("no row with key %s at output position %d (%d rows out, %d expected: the keys of the rows of the inputs, one per distinct key where duplicates are dropped)", c09KeyTok(expected[p]), p, len(out), len(expected))
			}
			if c < 0 {
				return "row-extra", fmt.Sprintf("output row %d (row %d of input %d) has key %s, which the inputs do not deliver that often (%d rows out, %d expected)", p, out[p].Seq, out[p].In, c09KeyTok(out[p].Key), len(out), len(expected))
			}
		}
		return "", ""
	}
	if !dedupe {
		if len(out) != total {
			for i, in := range cs.Inputs {
				for j := range in {
					if !seen[i][j] {
						return "row-lost", fmt.Sprintf("row %d of input %d (key %s) is missing from the output (%d rows out, %d rows in)", j, i, c09KeyTok(in[j]), len(out), total)
					}
				}
			}
		}
		return "", ""
	}
	// dedupe: every distinct key of the inputs is represented
	var all []c09Key
	for _, in := range cs.Inputs {
		all = append(all, in...)
	}
	sort.SliceStable(all, func(i, j int) bool { return c09Cmp(cs.Cols, all[i], all[j]) < 0 })
	distinct := 0
	for i := range all {
		if i == 0 || c09Cmp(cs.Cols, all[i-1], all[i]) != 0 {
			distinct++
		}
	}
	if len(out) != distinct {
		// find a missing key
		j := 0
		for i := range all {
			if i > 0 && c09Cmp(cs.Cols, all[i-1], all[i]) == 0 {
				continue
			}
			for j < len(out) && c09Cmp(cs.Cols, out[j].Key, all[i]) < 0 {
				j++
			}
			if j >= len(out) || c09Cmp(cs.Cols, out[j].Key, all[i]) != 0 {
				return "key-lost", fmt.Sprintf("DropDuplicatedRows: no row with key %s in the output (%d rows out, %d distinct keys in)", c09KeyTok(all[i]), len(out), distinct)
			}
		}
		return "key-lost", fmt.Sprintf("DropDuplicatedRows: %d rows out, %d distinct keys in", len(out), distinct)
	}
	return "", ""
}

// ---- kind "readers" -------------------------------------------------------

func c09Guard(f func()) (msg string) {
	defer func() {
		if r := recover(); r != nil {
			msg = fmt.Sprint(r)
		}
	}()
	f()
	return ""
}

func (cs *c09Case) chunksOf(i int) []int {
	if i < len(cs.Chunks) {
		return cs.Chunks[i]
	}
	return nil
}

// c09Readers runs MergeRowReaders; returns the batches and slice lengths used.
func c09Readers(s *c09Schema, cs *c09Case) (out [][]c09Out, used []int, fail string) {
	readers := make([]parquet.RowReader, len(cs.Inputs))
	for i, in := range cs.Inputs {
		readers[i] = &c09Reader{rows: s.rows(i, in), chunks: cs.chunksOf(i), eofData: cs.EOFData}
	}
	if msg := c09Guard(func() {
		m := parquet.MergeRowReaders(readers, s.compare)
		out, used, fail = c09ReadAll(s, m, cs.Batches)
	}); msg != "" {
		fail = "panic: " + msg
	}
	return
}

func c09ReadersRequest(cs *c09Case, used []int) string {
	if len(cs.Inputs) == 2 {
		return fmt.Sprintf("c09.merge2 %s %s %s %s %s %s", c09CfgTok(cs.Cols), c09NatsTok(cs.chunksOf(0)), c09NatsTok(cs.chunksOf(1)),
			c09NatsTok(used), c09KeysTok(cs.Inputs[0]), c09KeysTok(cs.Inputs[1]))
	}
	chs := make([]string, len(cs.Inputs))
	for i := range cs.Inputs {
		chs[i] = c09NatsTok(cs.chunksOf(i))
	}
	return fmt.Sprintf("c09.mergek %s %s %s %s", c09CfgTok(cs.Cols), strings.Join(chs, "/"), c09NatsTok(used), c09InputsTok(cs.Inputs))
}

func c09CheckReaders(c *core.Ctx, cs *c09Case) bool {
	s := c09SchemaOf(cs)
	out, used, fail := c09Readers(s, cs)
	if fail != "" {
		c.Violation("merge-readers-failed", fmt.Sprintf("MergeRowReaders over %d sorted readers: %s", len(cs.Inputs), fail), cs)
		return false
	}
	if class, what := c09Predicate(cs, c09Flat(out), false); class != "" {
		c.Violation(class, fmt.Sprintf("MergeRowReaders over %d sorted readers: %s", len(cs.Inputs), what), cs)
		return false
	}
	if len(cs.Inputs) < 2 {
		return true // MergeRowReaders returns the reader itself / an empty reader: no model
	}
	req := c09ReadersRequest(cs, used)
	want := c.Ask(req)
	got := c09BatchesTok(out) + ";1"
	if want != got {
		name := "corr:C09.merge2"
		if len(cs.Inputs) > 2 {
			name = "corr:C09.mergek"
		}
		c.Mismatch(name, req, got, want, cs)
		return false
	}
	return true
}

// ---- kind "dedupe" --------------------------------------------------------

func c09CheckDedupe(c *core.Ctx, cs *c09Case) bool {
	s := c09SchemaOf(cs)
	if len(cs.Inputs) != 1 {
		return true
	}
	src := &c09Reader{rows: s.rows(0, cs.Inputs[0]), chunks: cs.chunksOf(0), eofData: cs.EOFData}
	var out [][]c09Out
	var fail string
	if msg := c09Guard(func() {
		d := parquet.DedupeRowReader(src, s.compare)
		out, _, fail = c09ReadAll(s, d, cs.Batches)
	}); msg != "" {
		fail = "panic: " + msg
	}
	if fail != "" {
		c.Violation("dedupe-reader-failed", "DedupeRowReader over a sorted reader: "+fail, cs)
		return false
	}
	if class, what := c09Predicate(cs, c09Flat(out), true); class != "" {
		c.Violation(class, "DedupeRowReader over a sorted reader: "+what, cs)
		return false
	}
	// model: the batches the source delivered
	var bs []string
	pos := 0
	for _, n := range src.calls {
		bs = append(bs, c09KeysTok(cs.Inputs[0][pos:pos+n]))
		pos += n
	}
	btok := "="
	if len(bs) > 0 {
		btok = strings.Join(bs, "/")
	}
	req := fmt.Sprintf("c09.dedupe %s %s", c09CfgTok(cs.Cols), btok)
	want := c.Ask(req)
	var parts []string
	for _, b := range out {
		if len(b) == 0 {
			continue
		}
		items := make([]string, len(b))
		for j, o := range b {
			items[j] = strconv.Itoa(o.Seq)
		}
		parts = append(parts, strings.Join(items, ","))
	}
	got := "="
	if len(parts) > 0 {
		got = strings.Join(parts, "/")
	}
	if want != got {
		c.Mismatch("corr:C09.dedupe", req, got, want, cs)
		return false
	}
	return true
}

// ---- kind "groups" --------------------------------------------------------

func (cs *c09Case) backingOf(i int) string {
	if i < len(cs.Backing) {
		return cs.Backing[i]
	}
	return "buffer"
}

func c09WriteFile(s *c09Schema, rows []parquet.Row, pageBuf int, extra ...parquet.WriterOption) (*parquet.File, error) {
	var out bytes.Buffer
	opts := []parquet.WriterOption{s.schema, parquet.SortingWriterConfig(parquet.SortingColumns(s.sorting...))}
	if pageBuf > 0 {
		opts = append(opts, parquet.PageBufferSize(pageBuf))
	}
	opts = append(opts, extra...)
	w := parquet.NewWriter(&out, opts...)
	for i := 0; i < len(rows); {
		k := 50
		if i+k > len(rows) {
			k = len(rows) - i
		}
		if _, err := w.WriteRows(rows[i : i+k]); err != nil {
			return nil, err
		}
		i += k
	}
	if err := w.Close(); err != nil {
		return nil, err
	}
	return parquet.OpenFile(bytes.NewReader(out.Bytes()), int64(out.Len()))
}

// one part of an element of the plan: rows [Off, Off+Len) of input In
type c09Part struct{ In, Off, Len int }

type c09GroupsInfo struct {
	typ      string
	segments int
	ranges   int
	pages    int
	read     []c09Out // the rows Rows() delivered
	// the refinement plan (only for !Dedupe && !NoRefine)
	refine    bool        // the plan was observed and the model's inputs were probed
	tooBig    bool        // not observed: too many rows for the oracle
	plan      [][]c09Part // the elements of rowGroupSegments as Go built them, parts sorted by input
	planBad   string      // a piece whose rows of one input are not an ascending contiguous range
	planErr   string      // the plan could not be observed
	layouts   [][][]int   // per input, per sorting column: rows of each page (offset index)
	cuts      []bool      // per input: newCutLookups returns lookups for the first sorting column
	converted int         // inputs that ConvertRowGroup wrapped (0 expected: same schema)
	indexOdd  string      // an input whose column index and offset index disagree on the number of pages
	// nested inputs (cs.Tree)
	opaque []bool       // per input of the root merge: its rows are computed (c09Opaque)
	inner  *c09NodeFail // a node below the root that does not deliver what it must
}

// c09Inspect reads the shape of the merged row group (unexported types, by reflection on type names only).
func c09Inspect(rg parquet.RowGroup) (info c09GroupsInfo) {
	defer func() { recover() }()
	info.typ = fmt.Sprintf("%T", rg)
	v := reflect.ValueOf(rg)
	if v.Kind() == reflect.Ptr {
		v = v.Elem()
	}
	if v.Kind() != reflect.Struct {
		return
	}
	f := v.FieldByName("segments")
	if !f.IsValid() {
		return
	}
	info.segments = f.Len()
	for i := 0; i < f.Len(); i++ {
		if strings.Contains(f.Index(i).Elem().Type().String(), "rowRangeRowGroup") {
			info.ranges++
		}
	}
	return
}

// ---- the refinement plan: what Go built, what the model is given ---------------

const (
	c09RefineMaxInput = 6000  // rows of one input
	c09RefineMaxTotal = 20000 // rows of all inputs
)

func c09RefineEligible(cs *c09Case) (eligible, tooBig bool) {
	if cs.Kind != "groups" || cs.Dedupe || cs.NoRefine {
		return false, false
	}
	total := 0
	for _, in := range cs.Inputs {
		if len(in) > c09RefineMaxInput {
			return false, true
		}
		total += len(in)
	}
	if total > c09RefineMaxTotal {
		return false, true
	}
	return true, false
}

// c09PlanSegments returns the field `segments` of a *sortedSegmentRowGroup
// (unexported: reflect + unsafe); ok = false when rg is not one.
func c09PlanSegments(rg parquet.RowGroup) (segs []parquet.RowGroup, ok bool, err string) {
	v := reflect.ValueOf(rg)
	if v.Kind() != reflect.Ptr || v.IsNil() {
		return nil, false, ""
	}
	e := v.Elem()
	if e.Kind() != reflect.Struct || e.Type().Name() != "sortedSegmentRowGroup" {
		return nil, false, ""
	}
	f := e.FieldByName("segments")
	if !f.IsValid() || !f.CanAddr() {
		return nil, true, "sortedSegmentRowGroup has no addressable field `segments`"
	}
	segs, isSlice := reflect.NewAt(f.Type(), unsafe.Pointer(f.UnsafeAddr())).Elem().Interface().([]parquet.RowGroup)
	if !isSlice {
		return nil, true, fmt.Sprintf("the field `segments` has type %s", f.Type())
	}
	return segs, true, ""
}

// c09PieceOf derives the parts of one element of the plan from the rows it
// delivers: for every input present (input, smallest seq, count); bad != ""
// when the rows of an input are not an ascending contiguous range.
func c09PieceOf(rows []c09Out) (parts []c09Part, bad string) {
	at := map[int]int{}
	for p, o := range rows {
		if o.Bad != "" {
			return nil, fmt.Sprintf("row %d: %s", p, o.Bad)
		}
		i, seen := at[o.In]
		if !seen {
			at[o.In] = len(parts)
			parts = append(parts, c09Part{In: o.In, Off: o.Seq, Len: 1})
			continue
		}
		if want := parts[i].Off + parts[i].Len; o.Seq != want {
			return nil, fmt.Sprintf("row %d of the piece is row %d of input %d, after rows %d..%d of that input", p, o.Seq, o.In, parts[i].Off, want-1)
		}
		parts[i].Len++
	}
	sort.Slice(parts, func(a, b int) bool { return parts[a].In < parts[b].In })
	return parts, ""
}

// c09GoPlan observes the plan of a merged row group: the rows of every
// element of rowGroupSegments, read through its own Rows().
func c09GoPlan(s *c09Schema, merged parquet.RowGroup) (plan [][]c09Part, bad, err string) {
	segs, isSeg, e := c09PlanSegments(merged)
	if e != "" {
		return nil, "", e
	}
	if !isSeg {
		segs = []parquet.RowGroup{merged}
	}
	for n, seg := range segs {
		rr := seg.Rows()
		out, _, f := c09ReadAll(s, rr, []int{97})
		rr.Close()
		if f != "" {
			return nil, "", fmt.Sprintf("reading element %d of the plan (%T): %s", n, seg, f)
		}
		rows := c09Flat(out)
		if int64(len(rows)) != seg.NumRows() {
			return nil, fmt.Sprintf("element %d of the plan (%T): NumRows() = %d but Rows() delivered %d rows", n, seg, seg.NumRows(), len(rows)), ""
		}
		parts, b := c09PieceOf(rows)
		if b != "" {
			return nil, fmt.Sprintf("element %d of the plan (%T): %s", n, seg, b), ""
		}
		if len(parts) > 0 {
			plan = append(plan, parts)
		}
	}
	return plan, "", ""
}

func c09PlanTok(plan [][]c09Part) string {
	if len(plan) == 0 {
		return "="
	}
	pcs := make([]string, len(plan))
	for i, pc := range plan {
		items := make([]string, len(pc))
		for j, p := range pc {
			items[j] = fmt.Sprintf("%d.%d.%d", p.In, p.Off, p.Len)
		}
		pcs[i] = strings.Join(items, ",")
	}
	return strings.Join(pcs, "/")
}

// c09CanonPlan sorts the parts of every piece of a model answer by input id
// (the model lists the participants of a merged region in min-key order).
func c09CanonPlan(ans string) string {
	if ans == "=" || ans == "" {
		return ans
	}
	var plan [][]c09Part
	for _, pc := range strings.Split(ans, "/") {
		var parts []c09Part
		for _, it := range strings.Split(pc, ",") {
			var p c09Part
			if n, err := fmt.Sscanf(it, "%d.%d.%d", &p.In, &p.Off, &p.Len); n != 3 || err != nil {
				return ans
			}
			parts = append(parts, p)
		}
		sort.SliceStable(parts, func(a, b int) bool { return parts[a].In < parts[b].In })
		plan = append(plan, parts)
	}
	return c09PlanTok(plan)
}

// sortingLeaf: index of the leaf column of sorting column j as the library
// reports it (the schema columns are sorted by name; extra columns may lie
// before and between the sorting columns).
func (s *c09Schema) sortingLeaf(j int) int {
	name := strings.Join(s.cols[j].path(j), ".")
	for i, path := range s.schema.Columns() {
		if strings.Join(path, ".") == name {
			return i
		}
	}
	return -1
}

// c09ProbeIndexes reads, on the row groups the planner sees (every input
// wrapped with ConvertRowGroup as MergeRowGroups does), the page layout of
// every sorting column (offset index) and evaluates the conditions under which
// newCutLookups returns lookups for the first sorting column.
func c09ProbeIndexes(s *c09Schema, groups []parquet.RowGroup, info *c09GroupsInfo) {
	info.layouts = make([][][]int, len(groups))
	info.cuts = make([]bool, len(groups))
	for i, rg := range groups {
		seen := rg
		if conv, err := parquet.Convert(s.schema, rg.Schema()); err == nil {
			seen = parquet.ConvertRowGroup(rg, conv)
		}
		if seen != rg {
			info.converted++
		}
		numRows := int(seen.NumRows())
		chunks := seen.ColumnChunks()
		info.layouts[i] = make([][]int, len(s.cols))
		for j := range s.cols {
			leaf := s.sortingLeaf(j)
			if leaf != s.keyLeaf[j] && info.indexOdd == "" {
				info.indexOdd = fmt.Sprintf("sorting column %d is leaf column %d, the harness writes it as leaf column %d", j, leaf, s.keyLeaf[j])
			}
			if numRows == 0 {
				continue
			}
			one := []int{numRows}
			if leaf < 0 || leaf >= len(chunks) {
				info.layouts[i][j] = one
				continue
			}
			chunk := chunks[leaf]
			ci, cerr := chunk.ColumnIndex()
			oi, oerr := chunk.OffsetIndex()
			ciOK := cerr == nil && ci != nil && ci.NumPages() != 0
			oiOK := oerr == nil && oi != nil && ciOK && oi.NumPages() == ci.NumPages()
			if j == 0 {
				// newCutLookups (merge_refine.go:116)
				ok := oiOK
				for p := 0; ok && p < ci.NumPages(); p++ {
					if ci.NullPage(p) {
						ok = false
					}
				}
				info.cuts[i] = ok
			}
			if oerr != nil || oi == nil || oi.NumPages() == 0 {
				info.layouts[i][j] = one
				continue
			}
			if ciOK && oi.NumPages() != ci.NumPages() && info.indexOdd == "" {
				info.indexOdd = fmt.Sprintf("input %d column %d: %d pages in the column index, %d in the offset index", i, j, ci.NumPages(), oi.NumPages())
			}
			var sizes []int
			for p := 0; p < oi.NumPages(); p++ {
				end := int64(numRows)
				if p+1 < oi.NumPages() {
					end = oi.FirstRowIndex(p + 1)
				}
				sizes = append(sizes, int(end-oi.FirstRowIndex(p)))
			}
			info.layouts[i][j] = sizes
		}
	}
}

func c09LayoutsTok(layouts [][][]int) string {
	if len(layouts) == 0 {
		return "="
	}
	ins := make([]string, len(layouts))
	for i, cols := range layouts {
		cs := make([]string, len(cols))
		for j, sizes := range cols {
			cs[j] = c09NatsTok(sizes)
		}
		ins[i] = strings.Join(cs, "|")
	}
	return strings.Join(ins, "/")
}

func c09CutsTok(cuts []bool) string {
	if len(cuts) == 0 {
		return "_"
	}
	var sb strings.Builder
	for _, b := range cuts {
		sb.WriteString(b01(b))
	}
	return sb.String()
}

func c09BuildGroups(s *c09Schema, cs *c09Case) ([]parquet.RowGroup, int, error) {
	var groups []parquet.RowGroup
	maxPages := 0
	for i := range cs.Inputs {
		rg, pages, err := c09BuildLeaf(s, cs, i)
		if err != nil {
			return nil, 0, err
		}
		if pages > maxPages {
			maxPages = pages
		}
		groups = append(groups, rg)
	}
	return groups, maxPages, nil
}

// c09Groups runs MergeRowGroups; returns the rows read through Rows() and the
// rows of the file written with WriteRowGroup.
func c09Groups(s *c09Schema, cs *c09Case) (read, written []c09Out, info c09GroupsInfo, fail string) {
	parquet.VerifSetDisableMergeRefinement(cs.NoRefine)
	defer parquet.VerifSetDisableMergeRefinement(false)
	var groups []parquet.RowGroup
	var pages int
	var err error
	var nested []*c09Built
	if cs.Tree != nil {
		fb := &c09ForestBuilder{cs: cs, narrow: s, batch: 97}
		if msg := c09Guard(func() {
			for i := range cs.Tree {
				b := fb.build(&cs.Tree[i], false, strconv.Itoa(i))
				if b == nil {
					return
				}
				nested = append(nested, b)
				groups = append(groups, b.rg)
				info.opaque = append(info.opaque, c09Opaque(b))
			}
		}); msg != "" && fb.fail == nil && fb.setup == nil {
			fb.fail = &c09NodeFail{"merge-groups-failed", "building the inputs of the merge: panic: " + msg}
		}
		if fb.setup != nil {
			return nil, nil, info, "setup: " + fb.setup.Error()
		}
		if fb.fail != nil {
			info.inner = fb.fail
			return nil, nil, info, ""
		}
	} else if groups, pages, err = c09BuildGroups(s, cs); err != nil {
		return nil, nil, info, "setup: " + err.Error()
	}
	opt := parquet.SortingRowGroupConfig(parquet.SortingColumns(s.sorting...), parquet.DropDuplicatedRows(cs.Dedupe))
	if msg := c09Guard(func() {
		merged, err := parquet.MergeRowGroups(groups, s.schema, opt)
		if err != nil {
			fail = "MergeRowGroups: " + err.Error()
			return
		}
		opaque := info.opaque
		info = c09Inspect(merged)
		info.pages, info.opaque = pages, opaque
		rows := merged.Rows()
		out, _, f := c09ReadAll(s, rows, cs.Batches)
		rows.Close()
		if f != "" {
			fail = "Rows(): " + f
			return
		}
		read = c09Flat(out)
		info.read = read
		innerDedupe := map[string]bool{}
		c09TreeOps(cs.Tree, innerDedupe)
		if !cs.Dedupe && !innerDedupe["dedupe"] && merged.NumRows() != int64(len(read)) {
			fail = fmt.Sprintf("NumRows() = %d but Rows() delivered %d rows", merged.NumRows(), len(read))
			return
		}
		// write the merged row group to a new file and read it back
		var buf bytes.Buffer
		w := parquet.NewWriter(&buf, s.schema, parquet.SortingWriterConfig(parquet.SortingColumns(s.sorting...)))
		if _, err := w.WriteRowGroup(merged); err != nil {
			fail = "WriteRowGroup: " + err.Error()
			return
		}
		if err := w.Close(); err != nil {
			fail = "Close: " + err.Error()
			return
		}
		f2, err := parquet.OpenFile(bytes.NewReader(buf.Bytes()), int64(buf.Len()))
		if err != nil {
			fail = "OpenFile of the merged file: " + err.Error()
			return
		}
		written = []c09Out{}
		for _, rg := range f2.RowGroups() {
			rr := rg.Rows()
			o, _, f := c09ReadAll(s, rr, []int{97})
			rr.Close()
			if f != "" {
				fail = "reading the merged file: " + f
				return
			}
			written = append(written, c09Flat(o)...)
		}
		// the plan Go built (the elements of rowGroupSegments) and what the planner saw of the inputs
		eligible, tooBig := c09RefineEligible(cs)
		info.tooBig = tooBig
		if eligible {
			if cs.Tree != nil {
				info.plan, info.planBad, info.planErr = c09GoPlanTop(s, merged, cs, nested)
			} else {
				info.plan, info.planBad, info.planErr = c09GoPlan(s, merged)
			}
			c09ProbeIndexes(s, groups, &info)
			info.refine = true
			// A concatenation (MultiRowGroup) with an empty member has a page of zero rows in its
			// concatenated index: Go cannot bound such an input from its first / last page and
			// merges it whole; the model bounds an input by its keys.  Plans of these cases are
			// not compared (the property predicate is evaluated as for every case).
			if cs.Tree != nil {
				for _, cols := range info.layouts {
					for _, pages := range cols {
						if len(pages) > 1 {
							for _, n := range pages {
								if n == 0 {
									info.refine = false
									c09Stats.emptyPageInputs++
								}
							}
						}
					}
				}
			}
		}
	}); msg != "" {
		fail = "panic: " + msg
	}
	return
}

func c09RefineRequest(cs *c09Case, info *c09GroupsInfo) string {
	if cs.Tree != nil {
		// the inputs of the root merge: the keys their rows carry, and whether their rows are computed
		ins := make([][]c09Key, len(cs.Tree))
		for i := range cs.Tree {
			ins[i], _ = c09NodeKeys(cs, &cs.Tree[i])
		}
		return fmt.Sprintf("c09.nrefine %s %s %s %s %s", c09CfgTok(cs.Cols), c09InputsTok(ins), c09LayoutsTok(info.layouts), c09CutsTok(info.cuts), c09CutsTok(info.opaque))
	}
	return fmt.Sprintf("c09.refine %s %s %s %s", c09CfgTok(cs.Cols), c09InputsTok(cs.Inputs), c09LayoutsTok(info.layouts), c09CutsTok(info.cuts))
}

func c09CheckGroups(c *core.Ctx, cs *c09Case, info *c09GroupsInfo) bool {
	s := c09SchemaOf(cs)
	read, written, inf, fail := c09Groups(s, cs)
	if info != nil {
		*info = inf
	}
	what := fmt.Sprintf("MergeRowGroups over %d sorted row groups (dedupe=%v, refinement disabled=%v)", len(cs.Inputs), cs.Dedupe, cs.NoRefine)
	if strings.HasPrefix(fail, "setup: ") {
		c.Note("C09 setup failed: %s", fail)
		return true
	}
	if fail != "" {
		c09Fail = "violation:merge-groups-failed"
		c.Violation("merge-groups-failed", what+": "+fail, cs)
		return false
	}
	predicate := func(out []c09Out) (string, string) { return c09Predicate(cs, out, cs.Dedupe) }
	if cs.Tree != nil {
		what = fmt.Sprintf("MergeRowGroups over the %d row groups %s (dedupe=%v, refinement disabled=%v)", len(cs.Tree), c09TreeTok(cs.Tree), cs.Dedupe, cs.NoRefine)
		if inf.inner != nil {
			c09Fail = "violation:inner:" + inf.inner.class
			c.Violation(inf.inner.class, "input of "+what+": "+inf.inner.what, cs)
			return false
		}
		predicate = func(out []c09Out) (string, string) { return c09TreePredicate(cs, cs.Tree, out, cs.Dedupe) }
	}
	if class, w := predicate(read); class != "" {
		c09Fail = "violation:" + class
		c.Violation(class, what+", rows of Rows(): "+w, cs)
		return false
	}
	if class, w := predicate(written); class != "" {
		c09Fail = "violation:written-" + class
		c.Violation("written-"+class, what+", rows of the file written with WriteRowGroup: "+w, cs)
		return false
	}
	// the unrefined plan over in-memory buffers (one page per column, sources
	// that fill the slices they are given), read with one slice length, is
	// modelled exactly: segments, 2-way / k-way dispatch and tie-breaks
	if c09PlanModelled(cs) {
		req := fmt.Sprintf("c09.plan 0 %s 0 %x %s %s", c09CfgTok(cs.Cols), cs.Batches[0], b01(cs.Dedupe), c09InputsTok(cs.Inputs))
		want := c.Ask(req)
		items := make([]string, len(read))
		for i, o := range read {
			items[i] = fmt.Sprintf("%d.%d", o.In, o.Seq)
		}
		got := "_"
		if len(items) > 0 {
			got = strings.Join(items, ",")
		}
		if want != got {
			c09Fail = "mismatch:corr:C09.plan"
			c.Mismatch("corr:C09.plan", req, got, want, cs)
			return false
		}
	}
	// the refined plan: the elements of rowGroupSegments as (input, offset, rows)
	// parts == the model's (Merge/Refine.v), given the page layouts and the
	// availability of the cut lookups as the planner saw them
	if inf.refine {
		if inf.planBad != "" {
			c09Fail = "violation:plan-piece-not-a-range"
			c.Violation("plan-piece-not-a-range", what+": "+inf.planBad, cs)
			return false
		}
		req := c09RefineRequest(cs, &inf)
		if inf.planErr != "" {
			c09Fail = "mismatch:corr:C09.refine"
			c.Mismatch("corr:C09.refine", req, "plan not observable: "+inf.planErr, "", cs)
			return false
		}
		want := c09CanonPlan(c.Ask(req))
		got := c09PlanTok(inf.plan)
		if want != got {
			c09Fail = "mismatch:corr:C09.refine"
			c.Mismatch("corr:C09.refine", req, got, want, cs)
			return false
		}
	}
	return true
}

// c09Fail: the kind of the last failure c09Check reported ("violation:<class>"
// or "mismatch:<corr>"); the shrinker keeps to the kind it started from.
var c09Fail string

func c09PlanModelled(cs *c09Case) bool {
	if cs.Tree != nil {
		return false
	}
	if len(cs.Batches) != 1 || len(cs.Inputs) == 0 || len(cs.Inputs) > 12 {
		return false
	}
	total := 0
	for i, in := range cs.Inputs {
		if cs.backingOf(i) != "buffer" {
			return false
		}
		total += len(in)
	}
	return total < 1000
}

// ---- dispatch, shrinking ---------------------------------------------------

func c09Valid(cs *c09Case) bool {
	if len(cs.Cols) == 0 {
		return false
	}
	names := map[string]bool{"p_in": true, "p_seq": true, "p_tag": true}
	for j, col := range cs.Cols {
		names[fmt.Sprintf("k%d", j)] = true
		if col.Nest < 0 || col.Nest > 2 || col.NullDef < 0 || col.NullDef > 2 {
			return false
		}
	}
	for _, x := range cs.Extras {
		if _, _, ok := c09ExtraField(x.Name, x.Shape); !ok || x.Name == "" || names[x.Name] {
			return false
		}
		names[x.Name] = true
	}
	if cs.Tree != nil && cs.Kind != "groups" {
		return false
	}
	for _, in := range cs.Inputs {
		for i, k := range in {
			if len(k) != len(cs.Cols) {
				return false
			}
			for j, v := range k {
				if v == nil && !cs.Cols[j].nullable() {
					return false
				}
				if col := cs.Cols[j]; v != nil && col.typed() {
					kd := c09KindOf(col.Type)
					if kd == nil || *v-col.Bias < kd.lo || *v-col.Bias > kd.hi {
						return false
					}
				}
			}
			if i > 0 && c09Cmp(cs.Cols, in[i-1], k) > 0 {
				return false
			}
		}
	}
	if cs.Tree != nil && !c09TreeValid(cs) {
		return false
	}
	return true
}

func c09Check(c *core.Ctx, cs *c09Case) bool { return c09CheckInfo(c, cs, nil) }

func c09CheckInfo(c *core.Ctx, cs *c09Case, info *c09GroupsInfo) bool {
	if !c09Valid(cs) {
		return true
	}
	if s := c09SchemaOf(cs); s.bad != "" {
		c09Fail = "violation:schema-layout"
		c.Violation("schema-layout", "parquet.NewSchema over a parquet.Group: "+s.bad, cs)
		return false
	}
	switch cs.Kind {
	case "readers":
		return c09CheckReaders(c, cs)
	case "dedupe":
		return c09CheckDedupe(c, cs)
	case "groups":
		return c09CheckGroups(c, cs, info)
	}
	return true
}

func c09Rows(cs *c09Case) int {
	total := 0
	for _, in := range cs.Inputs {
		total += len(in)
	}
	return total
}

func c09Clone(cs *c09Case) *c09Case {
	t := *cs
	t.Inputs = make([][]c09Key, len(cs.Inputs))
	for i := range cs.Inputs {
		t.Inputs[i] = append([]c09Key(nil), cs.Inputs[i]...)
	}
	t.Chunks = make([][]int, len(cs.Chunks))
	for i := range cs.Chunks {
		t.Chunks[i] = append([]int(nil), cs.Chunks[i]...)
	}
	t.Backing = append([]string(nil), cs.Backing...)
	t.Batches = append([]int(nil), cs.Batches...)
	t.Extras = append([]c09Extra(nil), cs.Extras...)
	t.Tree = c09CloneTree(cs.Tree)
	return &t
}

func c09DropInput(cs *c09Case, i int) *c09Case {
	t := c09Clone(cs)
	t.Inputs = append(t.Inputs[:i], t.Inputs[i+1:]...)
	if i < len(t.Chunks) {
		t.Chunks = append(t.Chunks[:i], t.Chunks[i+1:]...)
	}
	if i < len(t.Backing) {
		t.Backing = append(t.Backing[:i], t.Backing[i+1:]...)
	}
	if t.Tree != nil {
		t.Tree = c09TreeDropLeaf(t.Tree, i)
	}
	return t
}

// c09BigShrinks counts the large cases shrunk so far: each probe of a large
// case writes and merges files, so only the first few are minimised.
var c09BigShrinks int

// c09Shrink minimises a failing case: drop inputs, drop rows (halves, then
// single rows), simplify the scripts.  The failure kept is of the kind the
// case started with (a predicate violation is not traded for a mismatch).
// Large cases (> 2000 rows) get a small budget, and only the first three of a
// run are shrunk at all: the replay is then the case as generated.
func c09Shrink(c *core.Ctx, cs *c09Case) *c09Case {
	budget := 600
	if c09Rows(cs) > 2000 {
		budget = 120
		c09BigShrinks++
		if c09BigShrinks > 3 {
			return c09Clone(cs)
		}
	}
	c09Fail = ""
	c.Probe(func() { c09Check(c, cs) })
	kind := c09Fail
	fails := func(t *c09Case) bool {
		if budget <= 0 || !c09Valid(t) {
			return false
		}
		budget--
		c09Fail = ""
		return c.Probe(func() { c09Check(c, t) }) && c09Fail == kind
	}
	cur := c09Clone(cs)
	for changed := true; changed && budget > 0; {
		changed = false
		if cur.Kind != "dedupe" {
			for i := 0; i < len(cur.Inputs); i++ {
				if t := c09DropInput(cur, i); fails(t) {
					cur, changed = t, true
					i--
				}
			}
		}
		// nested inputs: replace an inner node by its children; a forest of the inputs themselves is no forest
		for again := cur.Tree != nil; again; {
			again = false
			for _, h := range c09TreeHoists(cur.Tree) {
				t := c09Clone(cur)
				t.Tree = h
				if fails(t) {
					cur, changed, again = t, true, true
					break
				}
			}
		}
		if cur.Tree != nil && c09TreeFlat(cur) {
			t := c09Clone(cur)
			t.Tree = nil
			if fails(t) {
				cur, changed = t, true
			}
		}
		// extra columns
		for i := 0; i < len(cur.Extras); i++ {
			t := c09Clone(cur)
			t.Extras = append(t.Extras[:i], t.Extras[i+1:]...)
			if fails(t) {
				cur, changed = t, true
				i--
			}
		}
		// scripts
		if len(cur.Chunks) > 0 {
			t := c09Clone(cur)
			t.Chunks = nil
			if fails(t) {
				cur, changed = t, true
			}
		}
		if cur.EOFData {
			t := c09Clone(cur)
			t.EOFData = false
			if fails(t) {
				cur, changed = t, true
			}
		}
		if len(cur.Batches) > 1 {
			for _, b := range cur.Batches {
				t := c09Clone(cur)
				t.Batches = []int{b}
				if fails(t) {
					cur, changed = t, true
					break
				}
			}
		}
		for i := range cur.Backing {
			if cur.Backing[i] == "file" {
				t := c09Clone(cur)
				t.Backing[i] = "buffer"
				if fails(t) {
					cur, changed = t, true
				}
			}
		}
		// rows: windows of decreasing size
		for i := range cur.Inputs {
			for w := (len(cur.Inputs[i]) + 1) / 2; w >= 1; w /= 2 {
				for at := 0; at+w <= len(cur.Inputs[i]); {
					t := c09Clone(cur)
					t.Inputs[i] = append(append([]c09Key(nil), cur.Inputs[i][:at]...), cur.Inputs[i][at+w:]...)
					if fails(t) {
						cur, changed = t, true
					} else {
						at += w
					}
					if budget <= 0 {
						break
					}
				}
			}
		}
	}
	// smaller key values do not matter; keep as is
	return cur
}

// c09Stats: the comparisons of the refined plan with the model
var c09Stats struct {
	compared, sliced, tooBig, converted     int
	bufferCuts, bufferOnePage, bufferInputs int
	indexOdd                                string
	top, opaqueTop                          int // inputs of the root merge of the nested cases, those whose rows are computed
	emptyPageInputs                         int // nested cases left out of the plan comparison: an input with a zero-row page
}

// c09RefineCase records the coverage of one plan comparison.
func c09RefineCase(c *core.Ctx, cs *c09Case, info *c09GroupsInfo, key string) {
	if info.tooBig {
		c09Stats.tooBig++
	}
	if !info.refine {
		return
	}
	if cs.Tree != nil {
		c09Stats.compared++
		bucket := "refine/nested(every input a buffer, a file or a conversion of one)"
		for _, o := range info.opaque {
			if o {
				bucket = "refine/nested(an input with computed rows)"
			}
		}
		c.Case(bucket, key, len(info.plan) > 0)
		return
	}
	c09Stats.compared++
	c09Stats.converted += info.converted
	if info.indexOdd != "" && c09Stats.indexOdd == "" {
		c09Stats.indexOdd = info.indexOdd
	}
	for i := range cs.Inputs {
		if cs.backingOf(i) == "file" || len(cs.Inputs[i]) == 0 || i >= len(info.cuts) {
			continue
		}
		c09Stats.bufferInputs++
		if info.cuts[i] {
			c09Stats.bufferCuts++
		}
		if len(info.layouts[i]) > 0 && len(info.layouts[i][0]) == 1 {
			c09Stats.bufferOnePage++
		}
	}
	sliced := false
	merged := false
	for _, pc := range info.plan {
		if len(pc) > 1 {
			merged = true
		}
		for _, p := range pc {
			if p.Off != 0 || p.Len != len(cs.Inputs[p.In]) {
				sliced = true
			}
		}
	}
	bucket := "refine/plan-unsliced"
	switch {
	case sliced:
		bucket = "refine/plan-sliced"
		c09Stats.sliced++
	case !merged:
		bucket = "refine/plan-unsliced(no overlap)"
	}
	if tie := c09TieKind(cs, info); tie != "" {
		bucket += "+" + tie
	}
	c.Case(bucket, key, merged || sliced)
}

// c09TieKind tells whether a page of the first sorting column of some input
// starts with the first-column value of the last row of another input
// ("tie-at-page-start": the boundary case of cutAbove) or ends with the
// first-column value of the first row of another input ("tie-at-page-end":
// the boundary case of cutBelow).
func c09TieKind(cs *c09Case, info *c09GroupsInfo) string {
	firsts := map[int64][]int{}
	lasts := map[int64][]int{}
	for i, in := range cs.Inputs {
		if len(in) == 0 {
			continue
		}
		if in[0][0] == nil || in[len(in)-1][0] == nil {
			return ""
		}
		firsts[*in[0][0]] = append(firsts[*in[0][0]], i)
		lasts[*in[len(in)-1][0]] = append(lasts[*in[len(in)-1][0]], i)
	}
	other := func(m map[int64][]int, v *int64, i int) bool {
		if v == nil {
			return false
		}
		for _, j := range m[*v] {
			if j != i {
				return true
			}
		}
		return false
	}
	start, end := false, false
	for i, in := range cs.Inputs {
		if len(in) == 0 || i >= len(info.layouts) || len(info.layouts[i]) == 0 || len(info.layouts[i][0]) < 2 {
			continue
		}
		at := 0
		for _, n := range info.layouts[i][0] {
			if n <= 0 || at+n > len(in) {
				break
			}
			if other(lasts, in[at][0], i) {
				start = true
			}
			if other(firsts, in[at+n-1][0], i) {
				end = true
			}
			at += n
		}
	}
	switch {
	case start && end:
		return "tie-at-page-start+end"
	case start:
		return "tie-at-page-start"
	case end:
		return "tie-at-page-end"
	}
	return ""
}

func c09Run(c *core.Ctx, cs *c09Case, bucket string) bool {
	ok := true
	var info c09GroupsInfo
	if c.Probe(func() { c09CheckInfo(c, cs, &info) }) {
		ok = false
		min := c09Shrink(c, cs)
		c09Check(c, min)
	}
	key, _ := json.Marshal(cs)
	nonEmpty := 0
	for _, in := range cs.Inputs {
		if len(in) > 0 {
			nonEmpty++
		}
	}
	c.Case(bucket, string(key), nonEmpty >= 2 || (cs.Kind == "dedupe" && nonEmpty == 1))
	if ok {
		c09RefineCase(c, cs, &info, string(key))
		for _, o := range info.opaque {
			c09Stats.top++
			if o {
				c09Stats.opaqueTop++
			}
		}
	}
	return ok
}

// ---- generators -----------------------------------------------------------

var c09BatchSizes = []int{1, 2, 3, 23, 24, 25, 64, 191, 192, 193}
var c09ChunkSizes = []int{1, 1, 2, 3, 5, 23, 24, 25, 47, 48, 49, 96, 100, 192, 1000}
var c09Lens = []int{0, 0, 1, 1, 2, 3, 4, 7, 12, 23, 24, 25, 26, 47, 48, 49, 50, 70, 97, 100, 191, 192, 193, 200, 300}

var c09ColConfigs = [][]c09Col{
	{{}},
	{{}},
	{{Desc: true}},
	{{Optional: true}},
	{{Optional: true, NullsFirst: true}},
	{{Optional: true, Desc: true}},
	{{Optional: true, Desc: true, NullsFirst: true}},
	{{}, {}},
	{{}, {Optional: true}},
	{{Desc: true}, {Optional: true, NullsFirst: true}},
	{{Optional: true}, {Desc: true}},
	{{}, {Desc: true}},
	{{Desc: true}, {Desc: true}},
	{{}, {}, {}},
	{{}, {Desc: true}, {}},
	{{Desc: true}, {}, {Optional: true, Desc: true}},
	{{Optional: true, NullsFirst: true}, {Desc: true}, {Optional: true}},
	// sorting columns below optional groups (maximum definition level 1..3, nulls at every level)
	{{Optional: true, Nest: 1}},
	{{Optional: true, Nest: 1, NullDef: 2, NullsFirst: true}},
	{{Optional: true, Nest: 2, Desc: true}},
	{{Nest: 2, NullDef: 2}, {Optional: true, Nest: 1}},
	{{Nest: 1}, {Optional: true, Nest: 2, NullDef: 2, Desc: true}},
}

// c09GenNestCols: one to three sorting columns, the first below nest optional groups with an optional or
// required leaf and the given placement of the nulls among the definition levels; the later columns of
// random nesting.
func c09GenNestCols(intn func(int) int, nest int, optional bool, nullDef int) []c09Col {
	rb := func() bool { return intn(2) == 0 }
	cols := []c09Col{{Nest: nest, Optional: optional, NullDef: nullDef, Desc: intn(3) == 0, NullsFirst: rb()}}
	for n := []int{0, 0, 1, 2}[intn(4)]; n > 0; n-- {
		cols = append(cols, c09Col{Nest: intn(3), Optional: rb(), NullDef: intn(3), Desc: intn(3) == 0, NullsFirst: rb()})
	}
	return cols
}

// c09GenExtras: 1..max extra columns of random shapes at random positions
// relative to the sorting columns (intn is the source of every choice).
func c09GenExtras(intn func(int) int, max int) ([]c09Extra, int64) {
	n := 1 + intn(max)
	xs := make([]c09Extra, n)
	for i := range xs {
		xs[i] = c09Extra{Name: fmt.Sprintf("%s%d", c09ExtraPos[intn(len(c09ExtraPos))], i), Shape: c09ExtraShapes[intn(len(c09ExtraShapes))]}
	}
	return xs, 1 + int64(intn(1<<30))
}

// c09MaybeExtras adds extra columns to one case in three.
func c09MaybeExtras(c *core.Ctx, cs *c09Case, max int) *c09Case {
	if c.Rng.Intn(3) == 0 {
		cs.Extras, cs.ExtraSeed = c09GenExtras(c.Rng.Intn, max)
	}
	return cs
}

// c09MaybeKinds gives, in one case in p, each sorting column a random kind with probability 1/2
// (at least one column).
func c09MaybeKinds(c *core.Ctx, cs *c09Case, p int) *c09Case {
	if c.Rng.Intn(p) != 0 || len(cs.Cols) == 0 {
		return cs
	}
	kinds := c09RandomKinds(c.Rng.Intn, len(cs.Cols), 2)
	if j := c.Rng.Intn(len(kinds)); kinds[j] == "" {
		kinds[j] = c09KindNames[c.Rng.Intn(len(c09KindNames))]
	}
	cs.Cols = c09ApplyKinds(c.Rng.Intn, cs.Cols, kinds, cs.Inputs)
	return cs
}

func c09GenKey(c *core.Ctx, cols []c09Col, lo, hi int64) c09Key {
	k := make(c09Key, len(cols))
	for j, col := range cols {
		if col.nullable() && c.Rng.Intn(6) == 0 {
			continue
		}
		var v int64
		if j == 0 {
			v = lo + c.Rng.Int63n(hi-lo+1)
		} else {
			v = c.Rng.Int63n(4)
		}
		k[j] = &v
	}
	return k
}

func c09SortKeys(cols []c09Col, ks []c09Key) {
	sort.SliceStable(ks, func(i, j int) bool { return c09Cmp(cols, ks[i], ks[j]) < 0 })
}

// c09GenInputs: k sorted inputs whose first-column ranges follow an overlap pattern.
func c09GenInputs(c *core.Ctx, cols []c09Col, k int, pattern string, lens []int) [][]c09Key {
	ins := make([][]c09Key, k)
	for i := 0; i < k; i++ {
		n := lens[c.Rng.Intn(len(lens))]
		var lo, hi int64
		switch pattern {
		case "disjoint":
			lo, hi = int64(i)*1000, int64(i)*1000+int64(c.Rng.Intn(300))
		case "touching":
			lo, hi = int64(i)*100, int64(i+1)*100
		case "nested":
			lo, hi = int64(i)*20, 400-int64(i)*20
		case "identical":
			lo, hi = 0, int64(c.Rng.Intn(3))*20+5
		case "dense":
			lo, hi = 0, 3
		case "chain":
			lo, hi = int64(i)*80, int64(i)*80+100
		default: // random
			lo = int64(c.Rng.Intn(200))
			hi = lo + int64(c.Rng.Intn(200))
		}
		ks := make([]c09Key, 0, n)
		for r := 0; r < n; r++ {
			ks = append(ks, c09GenKey(c, cols, lo, hi))
		}
		if pattern == "touching" && n >= 2 && !cols[0].nullable() {
			// make the bounds exact so that max of one = min of the next
			a, b := lo, hi
			ks[0][0], ks[1][0] = &a, &b
		}
		if pattern == "runs" || (pattern == "random" && c.Rng.Intn(3) == 0) {
			// long runs of equal or adjacent keys: one reader wins many games in a row
			for r := 1; r < len(ks); r++ {
				if c.Rng.Intn(8) != 0 {
					ks[r] = ks[r-1]
				}
			}
		}
		c09SortKeys(cols, ks)
		ins[i] = ks
	}
	c.Rng.Shuffle(len(ins), func(a, b int) { ins[a], ins[b] = ins[b], ins[a] })
	return ins
}

var c09Patterns = []string{"random", "random", "disjoint", "touching", "nested", "identical", "dense", "chain", "runs"}

func c09GenChunks(c *core.Ctx, k int) [][]int {
	if c.Rng.Intn(3) == 0 {
		return nil
	}
	chs := make([][]int, k)
	for i := range chs {
		if c.Rng.Intn(4) == 0 {
			continue
		}
		n := c.Rng.Intn(12)
		for j := 0; j < n; j++ {
			chs[i] = append(chs[i], c09ChunkSizes[c.Rng.Intn(len(c09ChunkSizes))])
		}
		if c.Rng.Intn(3) == 0 {
			// a long tail of small chunks
			for j := 0; j < 300; j++ {
				chs[i] = append(chs[i], 1+c.Rng.Intn(3))
			}
		}
	}
	return chs
}

func c09GenBatches(c *core.Ctx) []int {
	n := 1 + c.Rng.Intn(3)
	bs := make([]int, n)
	for i := range bs {
		if c.Rng.Intn(2) == 0 {
			bs[i] = 1 + c.Rng.Intn(64) // every length from 1 to 64
		} else {
			bs[i] = c09BatchSizes[c.Rng.Intn(len(c09BatchSizes))]
		}
	}
	return bs
}

// c09GenRunInputs: k inputs that take turns: the key space is cut into runs of
// 1..maxRun rows, each given to one input (never the one of the previous run),
// so that every input wins runs of every length up to maxRun in a row (run
// mode of the merge readers: runLength, emitRun) and every run ends inside the
// window of rows buffered for it.  A run starts at a key above the last key of
// the previous run or (one in three) ties with it.
func c09GenRunInputs(c *core.Ctx, cols []c09Col, k, total, maxRun int) [][]c09Key {
	ins := make([][]c09Key, k)
	v := int64(c.Rng.Intn(50))
	prev := -1
	dense := c.Rng.Intn(3) // 0: all keys of a run distinct, 1: mixed, 2: long equal stretches
	for rows := 0; rows < total; {
		i := c.Rng.Intn(k)
		if k > 1 && i == prev {
			i = (i + 1 + c.Rng.Intn(k-1)) % k
		}
		prev = i
		n := 1 + c.Rng.Intn(maxRun)
		if c.Rng.Intn(3) != 0 {
			v++
		}
		for r := 0; r < n; r++ {
			if r > 0 && (dense == 0 || (dense == 1 && c.Rng.Intn(2) == 0) || (dense == 2 && c.Rng.Intn(6) == 0)) {
				v++
			}
			key := make(c09Key, len(cols))
			x := v
			if cols[0].Desc {
				x = -v
			}
			key[0] = &x
			for j := 1; j < len(cols); j++ {
				if cols[j].nullable() && c.Rng.Intn(6) == 0 {
					continue
				}
				y := c.Rng.Int63n(3)
				key[j] = &y
			}
			ins[i] = append(ins[i], key)
		}
		rows += n
	}
	for i := range ins {
		c09SortKeys(cols, ins[i])
	}
	return ins
}

func c09GenReaders(c *core.Ctx, k int) *c09Case {
	cols := c09ColConfigs[c.Rng.Intn(len(c09ColConfigs))]
	pattern := c09Patterns[c.Rng.Intn(len(c09Patterns))]
	lens := c09Lens
	if k > 4 {
		lens = c09Lens[:len(c09Lens)-6]
	}
	return c09MaybeKinds(c, c09MaybeExtras(c, &c09Case{Kind: "readers", Cols: cols, Inputs: c09GenInputs(c, cols, k, pattern, lens), Chunks: c09GenChunks(c, k),
		EOFData: c.Rng.Intn(4) == 0, Batches: c09GenBatches(c), Note: pattern}, 3), 4)
}

// ---- large file-backed inputs with ties at the page boundaries ---------------
//
// The rows of an input are built in "logical" order: pairs (t0, t1) ascending;
// the first sorting column is t0, or -t0 when it is descending, the second is
// t1 (ascending).  Every input is sorted with the harness comparator at the end.

type c09Builder struct {
	intn func(n int) int // source of choices: c.Rng.Intn, or a fixed sequence for the corpus
	v    int64           // current value of the first column
	rows [][2]int64
	step int // rise: a new first-column value every ~step rows
}

// rise: n rows whose first column rises above the current value
func (b *c09Builder) rise(n int) *c09Builder {
	for r := 0; r < n; r++ {
		if r == 0 || b.step <= 1 || b.intn(b.step) == 0 {
			b.v++
		}
		b.rows = append(b.rows, [2]int64{b.v, int64(b.intn(100))})
	}
	return b
}

// run: n rows with the first column == a new value, second column in [lo, hi)
func (b *c09Builder) run(n int, lo, hi int64) *c09Builder {
	b.v++
	return b.runHere(n, lo, hi)
}

// runHere: n rows with the first column == the current value
func (b *c09Builder) runHere(n int, lo, hi int64) *c09Builder {
	for r := 0; r < n; r++ {
		b.rows = append(b.rows, [2]int64{b.v, lo + int64(b.intn(int(hi-lo)))})
	}
	return b
}

// below: n rows with the first column just below the current value
func (b *c09Builder) below(n int) *c09Builder {
	span := 1 + n/25
	for r := 0; r < n; r++ {
		b.rows = append(b.rows, [2]int64{b.v - 1 - int64(b.intn(span)), int64(b.intn(100))})
	}
	return b
}

func (b *c09Builder) keys(cols []c09Col) []c09Key {
	ks := make([]c09Key, len(b.rows))
	for i, r := range b.rows {
		t0, t1 := r[0], r[1]
		if cols[0].Desc {
			t0 = -t0
		}
		ks[i] = make(c09Key, len(cols))
		ks[i][0] = &t0
		if len(cols) > 1 {
			if cols[1].Desc {
				t1 = -t1
			}
			ks[i][1] = &t1
		}
		for j := 2; j < len(cols); j++ {
			x := int64(b.intn(3))
			ks[i][j] = &x
		}
	}
	c09SortKeys(cols, ks)
	return ks
}

// c09PageStarts: the first row of every page of the first sorting column of a
// file of n rows written by c09WriteFile with the given PageBufferSize (the
// column is a fixed-width one: the boundaries depend on the number of rows only).
var c09PageStartsCache = map[string][]int{}

func c09PageStarts(cols []c09Col, pageBuf, n int) []int {
	key := fmt.Sprintf("%d/%d/%d", len(cols), pageBuf, n)
	if st, ok := c09PageStartsCache[key]; ok {
		return st
	}
	s := c09NewSchema(cols, nil, 0)
	b := &c09Builder{intn: func(int) int { return 0 }, step: 1}
	b.rise(n)
	var st []int
	if f, err := c09WriteFile(s, s.rows(0, b.keys(cols)), pageBuf); err == nil && len(f.RowGroups()) == 1 {
		if oi, err := f.RowGroups()[0].ColumnChunks()[s.keyLeaf[0]].OffsetIndex(); err == nil && oi != nil {
			for p := 0; p < oi.NumPages(); p++ {
				st = append(st, int(oi.FirstRowIndex(p)))
			}
		}
	}
	c09PageStartsCache[key] = st
	return st
}

var c09TieShapes = []string{"tie-lower", "tie-lower-crafted", "tie-lower-at-min", "tie-upper", "tie-chain", "touching", "nested", "identical-first-column"}

// c09GenTie generates a large file-backed case around the boundary cases of
// the cut lookups.  intn is the source of every choice.
func c09GenTie(intn func(int) int, shape string, desc bool) *c09Case {
	// two or three required sorting columns, the directions of the later ones mixed
	cols := []c09Col{{Desc: desc}, {Desc: intn(3) == 0}}
	if intn(4) == 0 {
		cols = append(cols, c09Col{Desc: intn(2) == 0})
	}
	pageBuf := []int{256, 256, 512, 1024}[intn(4)]
	rowsPerPage := 50
	if st := c09PageStarts(cols, pageBuf, 400); len(st) > 1 {
		rowsPerPage = st[1]
	}
	nb := func() *c09Builder { return &c09Builder{intn: intn, step: 1 + intn(3), v: 1000} }
	long := func() int { return rowsPerPage + 1 + intn(5*rowsPerPage) } // a run that spans a page boundary
	lone := func() int { return 1100 + intn(1500) }                     // rows of a lone stretch worth slicing
	short := func() int { return 1 + intn(40) }                         // a run shorter than a page
	loneOrNot := func() int {
		if intn(5) == 0 {
			return 300 + intn(900) // around the threshold of 1024 rows
		}
		return lone()
	}
	var bs []*c09Builder
	switch shape {
	case "tie-lower", "tie-lower-crafted", "tie-lower-at-min":
		// A ends at (v, big); B has a long run of v spanning pages, then a lone stretch
		a := nb().rise(loneOrNot())
		if intn(2) == 0 {
			a.run(short(), 1000, 2000)
		} else {
			a.run(long(), 0, 100)
		}
		b := nb()
		b.v = a.v
		switch shape {
		case "tie-lower":
			b.below(intn(4 * rowsPerPage))
		case "tie-lower-crafted":
			// a page of B starts exactly at its first row with value v
			if st := c09PageStarts(cols, pageBuf, 400); len(st) > 2 {
				b.below(st[1+intn(len(st)-2)])
			}
		}
		b.runHere(long(), 0, 100).rise(loneOrNot())
		bs = []*c09Builder{a, b}
		if intn(2) == 0 {
			// C starts at B's last value: the symmetric tie
			b.run(long(), 0, 100)
			c := nb()
			c.v = b.v
			c.runHere(short(), 0, 5).rise(lone())
			bs = append(bs, c)
		}
	case "tie-upper":
		// B is alone before C starts at (w, small); B has a long run of w spanning pages
		b := nb().rise(lone()).run(long(), 0, 100)
		c := nb()
		c.v = b.v
		if intn(2) == 0 {
			c.runHere(short(), 0, 5)
		} else {
			c.runHere(long(), 0, 100)
		}
		c.rise(loneOrNot())
		if intn(2) == 0 {
			b.rise(intn(3 * rowsPerPage)) // B goes on a little above w
		}
		bs = []*c09Builder{b, c}
	case "tie-chain":
		// 3-4 inputs, each starting with a run of the last value of the previous one
		k := 3 + intn(2)
		v := int64(1000)
		for i := 0; i < k; i++ {
			b := nb()
			b.v = v
			if i > 0 {
				switch intn(3) {
				case 0:
					b.below(intn(3 * rowsPerPage))
				case 1:
					if st := c09PageStarts(cols, pageBuf, 400); len(st) > 2 {
						b.below(st[1+intn(len(st)-2)])
					}
				}
				if intn(3) == 0 {
					b.runHere(short(), 0, 5)
				} else {
					b.runHere(long(), 0, 100)
				}
			}
			b.rise(loneOrNot())
			switch intn(3) {
			case 0:
				b.run(short(), 1000, 2000)
			case 1:
				b.run(long(), 0, 100)
			default:
				b.run(1, 0, 100)
			}
			v = b.v
			bs = append(bs, b)
		}
	case "touching":
		// max of one == min of the next, single rows at the junctions or short runs
		k := 2 + intn(3)
		v := int64(1000)
		for i := 0; i < k; i++ {
			b := nb()
			b.v = v
			if i > 0 {
				b.runHere(1+intn(3), 0, 100)
			}
			b.rise(loneOrNot()).run(1+intn(3), 0, 100)
			v = b.v
			bs = append(bs, b)
		}
	case "nested":
		// a small row group nested inside a big one: lone stretches on both sides
		big := nb().rise(lone())
		small := nb()
		switch intn(3) {
		case 0: // the big one has a long run of the small one's first value
			big.run(long(), 0, 100)
			small.v = big.v
			small.runHere(short(), 0, 50)
		case 1: // ... of its last value
			small.v = big.v + 1
			small.runHere(short(), 0, 100)
		default:
			small.v = big.v
			small.rise(short())
		}
		small.step = 1
		small.rise(20 + intn(200))
		big.step = 1 + intn(2)
		big.rise(len(small.rows) / 2)
		if intn(2) == 0 {
			small.run(short(), 50, 100)
			big.v = small.v
			big.runHere(long(), 0, 100)
		}
		for big.v <= small.v {
			big.rise(rowsPerPage)
		}
		big.rise(lone())
		bs = []*c09Builder{big, small}
		if intn(3) == 0 {
			c := nb()
			c.v = big.v - int64(intn(20))
			c.runHere(short(), 0, 100).rise(lone())
			bs = append(bs, c)
		}
	default: // identical-first-column: only the second column tells the inputs apart
		k := 2 + intn(2)
		lo := int64(0)
		for i := 0; i < k; i++ {
			b := nb()
			b.v = 7
			n := 1100 + intn(1500)
			hi := lo + int64(n)
			for r := 0; r < n; r++ {
				b.rows = append(b.rows, [2]int64{7, lo + int64(intn(int(hi-lo)))})
			}
			switch intn(3) {
			case 0:
				lo = hi // touching or disjoint in the second column
			case 1:
				lo = hi - int64(intn(200)) - 1
			default:
				lo = lo + (hi-lo)/2
			}
			bs = append(bs, b)
		}
	}
	ins := make([][]c09Key, len(bs))
	backing := make([]string, len(bs))
	for i, b := range bs {
		ins[i] = b.keys(cols)
		backing[i] = "file"
	}
	// the order of the arguments is not the order of the keys
	for i := len(ins) - 1; i > 0; i-- {
		j := intn(i + 1)
		ins[i], ins[j] = ins[j], ins[i]
	}
	note := "big " + shape
	if desc {
		note += " (descending first column)"
	}
	cs := &c09Case{Kind: "groups", Cols: cols, Inputs: ins, Batches: []int{c09BatchSizes[intn(len(c09BatchSizes))]}, Backing: backing, PageBuf: pageBuf, Note: note}
	if intn(4) == 0 {
		cs.Extras, cs.ExtraSeed = c09GenExtras(intn, 2)
	}
	if intn(2) == 0 {
		// the first sorting column of another kind of 8 bytes per value (the same page layout)
		kinds := make([]string, len(cols))
		kinds[0] = c09Wide64Names[intn(len(c09Wide64Names))]
		if intn(3) == 0 {
			kinds[1] = c09Wide64Names[intn(len(c09Wide64Names))]
		}
		cs.Cols = c09ApplyKinds(intn, cs.Cols, kinds, cs.Inputs)
		cs.Note += " " + kinds[0]
	}
	return cs
}

// c09FixedSeq: a fixed sequence of choices for the corpus cases
func c09FixedSeq(seed uint64) func(int) int {
	x := seed*2862933555777941757 + 3037000493
	return func(n int) int {
		if n <= 0 {
			return 0
		}
		x = x*6364136223846793005 + 1442695040888963407
		return int((x >> 33) % uint64(n))
	}
}

// c09GenBig: 2-4 large file-backed inputs (1500-4000 rows) whose first-column
// ranges overlap at the boundaries, touch, contain the next one or are disjoint.
func c09GenBig(c *core.Ctx) *c09Case {
	k := 2 + c.Rng.Intn(3)
	cols := [][]c09Col{{{}}, {{}}, {{Desc: true}}, {{}, {}}, {{Optional: true}}, {{Desc: true}, {}}, {{}, {Desc: true}, {}}, {{Desc: true}, {Desc: true}}, {{Optional: true, Nest: 1, NullDef: 2}}, {{Nest: 2}, {}}}[c.Rng.Intn(10)]
	ins := make([][]c09Key, k)
	base := int64(0)
	for j := 0; j < k; j++ {
		n := 1500 + c.Rng.Intn(2500)
		step := 1 + c.Rng.Intn(2)
		ks := make([]c09Key, n)
		v := base
		for r := 0; r < n; r++ {
			if c.Rng.Intn(step+1) != 0 {
				v++
			}
			x := v
			ks[r] = make(c09Key, len(cols))
			ks[r][0] = &x
			for q := 1; q < len(cols); q++ {
				y := c.Rng.Int63n(3)
				ks[r][q] = &y
			}
		}
		c09SortKeys(cols, ks)
		ins[j] = ks
		switch c.Rng.Intn(4) {
		case 0: // boundary overlap
			base = v - int64(c.Rng.Intn(200))
		case 1: // touching
			base = v
		case 2: // containment: next starts inside
			base = base + (v-base)/3
		default: // gap
			base = v + 10
		}
	}
	if cols[0].Desc {
		for j := range ins {
			c09SortKeys(cols, ins[j])
		}
	}
	if cols[0].nullable() && c.Rng.Intn(2) == 0 {
		// some nulls at the end of one input
		j := c.Rng.Intn(k)
		for r := len(ins[j]) - 3; r < len(ins[j]); r++ {
			ins[j][r] = append(c09Key{nil}, ins[j][r][1:]...)
		}
		c09SortKeys(cols, ins[j])
	}
	c.Rng.Shuffle(len(ins), func(a, b int) { ins[a], ins[b] = ins[b], ins[a] })
	backing := make([]string, k)
	for j := range backing {
		backing[j] = "file"
	}
	pageBuf := []int{256, 512, 1024, 4096}[c.Rng.Intn(4)]
	cs := &c09Case{Kind: "groups", Cols: cols, Inputs: ins, Batches: c09GenBatches(c), Backing: backing, PageBuf: pageBuf, Note: "big"}
	if c.Rng.Intn(4) == 0 {
		cs.Extras, cs.ExtraSeed = c09GenExtras(c.Rng.Intn, 2)
	}
	return c09MaybeKinds(c, cs, 3)
}

// c09SplitIntoConcats turns inputs of a case (one chosen at random, each of the others one time in two)
// into concatenations (multi nodes) of two or three consecutive pieces cut at uniformly chosen rows - members
// of different row counts, each a file of its own with its own pages - one time in four with the last two
// pieces in a concatenation of their own.  The case gets a forest (Tree) over the pieces.
func c09SplitIntoConcats(intn func(int) int, cs *c09Case) {
	old := cs.Inputs
	backing := cs.Backing
	cs.Inputs, cs.Backing, cs.Tree = nil, nil, nil
	forced := intn(len(old))
	for i, keys := range old {
		leaf := func(ks []c09Key) c09Node {
			cs.Inputs = append(cs.Inputs, ks)
			b := "buffer"
			if i < len(backing) {
				b = backing[i]
			}
			cs.Backing = append(cs.Backing, b)
			return c09Node{Op: "leaf", Leaf: len(cs.Inputs) - 1}
		}
		if (i != forced && intn(2) == 0) || len(keys) < 4 {
			cs.Tree = append(cs.Tree, leaf(keys))
			continue
		}
		cuts := []int{1 + intn(len(keys)-1)}
		if intn(2) == 0 {
			cuts = append(cuts, 1+intn(len(keys)-1))
			sort.Ints(cuts)
		}
		cuts = append(cuts, len(keys))
		n := c09Node{Op: "multi"}
		at := 0
		for _, end := range cuts {
			n.Kids = append(n.Kids, leaf(keys[at:end]))
			at = end
		}
		if len(n.Kids) == 3 && intn(4) == 0 {
			n.Kids = []c09Node{n.Kids[0], {Op: "multi", Kids: n.Kids[1:]}}
		}
		cs.Tree = append(cs.Tree, n)
	}
	cs.Note += " concatenated"
}

// ---- cases.v ---------------------------------------------------------------

func c09CoqKey(k c09Key) string {
	parts := make([]string, len(k))
	for i, v := range k {
		if v == nil {
			parts[i] = "None"
		} else {
			parts[i] = "Some " + core.CoqZ(*v)
		}
	}
	return core.CoqList(parts)
}

func c09CoqNats(ns []int) string {
	parts := make([]string, len(ns))
	for i, n := range ns {
		parts[i] = strconv.Itoa(n) + "%nat"
	}
	return core.CoqList(parts)
}

func c09VmCase(cs *c09Case, out [][]c09Out, used []int) string {
	cfg := make([]string, len(cs.Cols))
	for i, col := range cs.Cols {
		cfg[i] = fmt.Sprintf("(%s, %s)", core.CoqBool(col.Desc), core.CoqBool(col.NullsFirst))
	}
	chs := make([]string, len(cs.Inputs))
	ins := make([]string, len(cs.Inputs))
	for i, in := range cs.Inputs {
		chs[i] = c09CoqNats(cs.chunksOf(i))
		ks := make([]string, len(in))
		for j, k := range in {
			ks[j] = c09CoqKey(k)
		}
		ins[i] = core.CoqList(ks)
	}
	bs := make([]string, len(out))
	for i, b := range out {
		items := make([]string, len(b))
		for j, o := range b {
			items[j] = fmt.Sprintf("(%d%%nat, %d%%nat)", o.In, o.Seq)
		}
		bs[i] = core.CoqList(items)
	}
	return fmt.Sprintf("(%s, %s, %s, %s, %s)", core.CoqList(cfg), core.CoqList(chs), c09CoqNats(used), core.CoqList(ins), core.CoqList(bs))
}

// ---- main ------------------------------------------------------------------

func runC09(c *core.Ctx) {
	c.Res.Rule = "k = 0..9 sorted inputs generated from overlap patterns (random, disjoint, touching: max of one = min of the next, nested, identical, dense duplicates, chains, long runs; empty inputs; duplicate keys within and across inputs) over key configurations (one to three sorting columns, ascending/descending and mixed directions, required/optional with nulls first/last), input lengths around the buffer sizes 24/48/96/192, ReadRows slice lengths uniform in 1..64 or from {1,2,3,23,24,25,64,191,192,193} (1-3 of them, cycled) and scripted source chunkings. Row schema: a parquet.Group (fields ordered by name) with the sorting columns k0.., the payload p_in/p_seq/p_tag and, in one case in three (one in four of the large cases, all of the extras/ buckets), 1-3 extra non-key columns whose names place their leaves before the first sorting column, between k0 and k1, between the keys and the payload or after the payload, of the shapes required / optional / string leaf, repeated leaf, LIST (required and optional), group (required, optional, repeated: two leaves each) and a repeated leaf inside a repeated group; a row holds 0..3 values per repeated leaf (rep2: up to 4), so the index of a value within the row differs from its column index; the values are a function of (seed, input, seq) and every output row is checked value by value, levels included (row-mangled). extras/<shape>@<position>: every shape at every position through MergeRowReaders (2 and 3-6 readers), MergeRowGroups over buffers, over files, with DropDuplicatedRows, and DedupeRowReader. readers/turns, groups/turns: 2 and 3-7 inputs that take turns in runs of 1..40 rows (every run ends inside the buffered window, ties at one run start in three) read with every slice length 1..64 (run mode: runLength / emitRun). readers: parquet.MergeRowReaders over scripted in-memory readers, emitted (input,seq) batches == model (2-way: c09.merge2, k>2: c09.mergek); dedupe: parquet.DedupeRowReader == model; groups: parquet.MergeRowGroups over Buffers and files with small pages (refinement on and off), with and without DropDuplicatedRows, read through Rows() and written with WriteRowGroup then read back; large file-backed cases (2-4 inputs of 1100-5000 rows, PageBufferSize 256..4096 = pages of 50..550 rows): random chains (overlapping, touching, containing, disjoint) and, every other case and 10 fixed corpus cases, shapes built around the boundary cases of the cut lookups of merge_refine.go over two or three required int64 sorting columns (first ascending or descending, the later ones ascending or descending independently): tie-lower (A ends at (v, big) or with a long run of v; B has a run of v spanning several pages of its first column - after a random prefix below v, after a prefix that ends exactly at a page boundary so that a page starts at the first row with value v, or from its first row - with small second-column values, then a lone stretch of >= 1100 rows (sometimes 300-1200, around minStreamedRegionRows = 1024), optionally a third input starting at a long run of B's last value), tie-upper (B alone before C starts at (w, small), B with a run of w spanning pages), tie-chain (3-4 inputs each starting with a run of the previous one's last value), touching (max of one = min of the next), nested (a small row group inside a big one that has lone stretches on both sides, with runs of the small one's first / last value in the big one), identical first-column values everywhere; the arguments are shuffled. For every groups case without DropDuplicatedRows and with refinement enabled the plan Go built is compared with the model (corr:C09.refine, Merge/Refine.v c09_refine): the elements of rowGroupSegments (field `segments` of the *sortedSegmentRowGroup read with reflect+unsafe, or the merged row group itself as the single element) are read one by one through their own Rows() and turned into parts (input, first seq, rows) - the rows of an input inside an element must be an ascending contiguous range (plan-piece-not-a-range) - and must equal the model's pieces (parts sorted by input on both sides, order of the pieces kept); the model is given the keys, the page layout of every sorting column (offset index of the row groups as wrapped by ConvertRowGroup; a Buffer is one page) and whether newCutLookups yields lookups for the first sorting column (its conditions evaluated on the column chunk); buckets refine/plan-sliced (the Go plan contains a row-range part) / plan-unsliced, +tie-at-page-start / -end when a page of the first sorting column of an input starts (ends) with the first-column value of the last (first) row of another input. Failing large cases are shrunk with a small budget (120 probes, the first three of a run only), keeping the kind of failure. Kinds of sorting columns (types/<kind>: every kind as the first column ascending / descending, required / optional with nulls first / last, followed by a column of another kind, and as the second column behind a default column with few values; through MergeRowReaders with Schema.Comparator (2 and 3-6 readers), MergeRowGroups over buffers, files with small pages, with DropDuplicatedRows, and DedupeRowReader; one case in four of the random readers / turns / dedupe / groups / nested cases and one in three of the large random cases give each column a random kind with probability 1/2; every other large tie case gives the first (one in three: also the second) column a kind of 8 bytes per value): boolean, int32 (plain), INT(8/16/32/64), UINT(8/16/32/64), int64 (plain), float, double, byte array, STRING, ENUM, FIXED_LEN_BYTE_ARRAY(5), FIXED_LEN_BYTE_ARRAY(16), UUID, DATE, TIME(MILLIS/MICROS/NANOS), TIMESTAMP(MILLIS/MICROS/NANOS), DECIMAL on int32 / int64 / FIXED_LEN_BYTE_ARRAY(9) / FIXED_LEN_BYTE_ARRAY(16) / byte array. A key stays a tuple of integers (the ordinals the model compares); a column of kind K holds emb_K(ordinal - bias), emb_K strictly increasing from at most [-32768, 32767] into the values of K in the order of the parquet format (signed; unsigned for UINT; IEEE numeric for float / double, no NaN, the zero written as -0 in every other row; unsigned lexicographic bytes, a proper prefix first; signed big-endian two's complement for DECIMAL on bytes, 3..8 bytes on byte arrays) and spread over the whole width: ordinal * 2^16 (2^48) plus hashed low bits for 32 (64) bit integers, negative ordinals to negative values / to the lower half of the unsigned range / to bytes below 0x80, float bit patterns from subnormals to 3e38 (1e308), times of day over the whole day (neighbouring TIME(NANOS) ordinals differ above bit 30), byte strings of 2..23 bytes (longer than the 16 bytes a column index keeps), the two halves of 16-byte values both significant; the bias is an ordinal present in the case (three times in four), the ordinals are clamped into the domain of the kind (boolean: two values). types.go checks at start, exhaustively over every domain, that emb_K is strictly increasing for the harness comparator and survives parquet.Value. Every output row is decoded to Go values (Value.Int32 / Int64 / Float / Double / Boolean / ByteArray), must be bit for bit the value written in that row (row-mangled), and the sortedness is decided by the harness comparator on those values (not Type.Compare). Nested inputs (nested/depth=N, corpus/nested): the inputs of MergeRowGroups given as a forest over the sorted inputs of the case - merge (MergeRowGroups of the children), dedupe (with DropDuplicatedRows), multi (MultiRowGroup of consecutive pieces of one sorted sequence), convert (ConvertRowGroup to the schema of the merge of a subtree built in a wider schema: two more columns, one before the sorting columns), wide (that subtree handed over as it is) - one to three levels, 2-4 roots, leaves buffers or files, with and without DropDuplicatedRows / refinement at the root; corpus: merge(merge(A[0..99],B[40..59]),C[70..79]) (4f9d711) in nine shapes over buffers and files. Every node is read through its own Rows() and checked: a leaf / multi node delivers the rows written in order, a merge / dedupe node and the root (Rows() and the file written with WriteRowGroup) satisfy the statement at the level of the leaves: sorted, whole rows of the leaves below, none twice, every leaf's rows in their order, keys = the keys the inputs must deliver (one per distinct key under a dedupe). The plan of the root (without DropDuplicatedRows, refinement enabled) is compared with the model (corr:C09.refine, c09.nrefine = Merge/Nested.v c09_refine_nested): the harness tells the model which inputs have computed rows (dynamic type not a Buffer / FileRowGroup / row-range view / conversion of one) - then one element holding every input whole - and otherwise the model is c09_refine. Sorting columns below optional groups (nestkey/groups=N,leaf=..,nulls=..; five of the key configurations of every random section; two of the ten of the large random cases): the sorting column is the leaf v below one or two optional groups (k<j>.v, k<j>.g.v; SortingColumn paths of two and three names), the leaf required or optional - maximum definition level 1, 2 or 3 - and a null key is a null at a definition level below the maximum: any level (a function of seed, input and row), level 0 only, or the intermediate levels only (some group present, something below it null); first column of that shape, 0-2 further columns of random nesting; through MergeRowReaders (2 and 3-6 readers), MergeRowGroups over buffers / files with small pages / both / with DropDuplicatedRows / refinement disabled, DedupeRowReader and forests of nested inputs, over the overlap patterns (disjoint non-null ranges twice as often: the inputs whose nulls must still be merged); every output row must hold its null at the level it was written with (row-mangled). The models see a null as a null (None) whatever its level. Concatenations (nested/concat, and the multi nodes of every forest): a multi node is cut into 2-3 consecutive pieces at uniform positions, one cut in three moved to the start / the end / another cut (empty members first, last, in the middle), and a piece - empty or not - is, one time in three and down to three levels, a concatenation of its own pieces: MultiRowGroup(A, MultiRowGroup(B, empty)) and the like, as they are or (one in four) handed over by a merge of their own / ConvertRowGroup / in the wider schema, merged with 1-3 other inputs of overlapping key ranges; the shapes reached are counted in a note. Every other large random case turns one input (each other input one time in two) into a MultiRowGroup of 2-3 files of different row counts cut at uniform rows (one in four with the last two in a concatenation of their own): the plan of the root is compared with c09_refine given the concatenated page layout Go reports, a concatenation of leaves having a fixed row sequence (offsets of its parts = position in the concatenation). The property predicate (sorted, multiset = union with whole rows intact, per-input order; dedupe: one row per distinct key, each an input row) is evaluated on every output with the harness's own comparator. A case is one (inputs, scripts, options); non-trivial = at least two non-empty inputs (dedupe: one); distinct by the JSON of the case."

	var vm []string
	vmRows := 0
	addVm := func(cs *c09Case) {
		if cs.Kind != "readers" || len(cs.Inputs) < 2 || len(vm) >= 120 {
			return
		}
		total := 0
		for _, in := range cs.Inputs {
			total += len(in)
		}
		if total > 80 {
			return
		}
		s := c09SchemaOf(cs)
		out, used, fail := c09Readers(s, cs)
		if fail != "" || len(used) > 200 {
			return
		}
		vm = append(vm, c09VmCase(cs, out, used))
		vmRows++
	}

	if msg := c09KindsSelfTest(); msg != "" {
		panic("C09 harness self-test (types.go): " + msg)
	}

	// ---- corpus first: the defect repaired by 77fc8c6 and hand-made shapes
	null := any(nil)
	opt := []c09Col{{Optional: true}}
	req := []c09Col{{}}
	corpus := []*c09Case{
		{Kind: "groups", Cols: opt, Inputs: [][]c09Key{{c09K(1), c09K(2), c09K(null)}, {c09K(3), c09K(4), c09K(null)}}, Batches: []int{64}, Backing: []string{"file", "file"}, Note: "regression 77fc8c6"},
		{Kind: "groups", Cols: opt, Inputs: [][]c09Key{{c09K(1), c09K(2), c09K(null)}, {c09K(3), c09K(4), c09K(null)}}, Batches: []int{64}, Note: "regression 77fc8c6 (buffers)"},
		{Kind: "groups", Cols: []c09Col{{Optional: true, NullsFirst: true}}, Inputs: [][]c09Key{{c09K(null), c09K(1), c09K(2)}, {c09K(null), c09K(3)}, {c09K(5), c09K(6)}}, Batches: []int{2}, Backing: []string{"file", "buffer", "file"}},
		{Kind: "groups", Cols: []c09Col{{Optional: true, Desc: true}}, Inputs: [][]c09Key{{c09K(9), c09K(8), c09K(null)}, {c09K(7), c09K(null), c09K(null)}}, Batches: []int{3}, Backing: []string{"file", "file"}, Dedupe: true},
		{Kind: "groups", Cols: req, Inputs: [][]c09Key{{c09K(1), c09K(2), c09K(3)}, {c09K(3), c09K(4)}, {c09K(10), c09K(11)}, {}}, Batches: []int{1}, Backing: []string{"file", "buffer", "file", "buffer"}},
		{Kind: "groups", Cols: req, Inputs: [][]c09Key{{c09K(1), c09K(1), c09K(2)}, {c09K(1), c09K(2), c09K(2)}, {c09K(2), c09K(3)}}, Batches: []int{2}, Dedupe: true},
		{Kind: "groups", Cols: req, Inputs: [][]c09Key{}, Batches: []int{4}},
		{Kind: "readers", Cols: req, Inputs: [][]c09Key{{c09K(5), c09K(5)}, {c09K(5), c09K(5)}}, Batches: []int{1}},
		{Kind: "readers", Cols: req, Inputs: [][]c09Key{{c09K(5), c09K(5)}, {c09K(5), c09K(5)}}, Batches: []int{3}},
		{Kind: "readers", Cols: req, Inputs: [][]c09Key{{c09K(1), c09K(2), c09K(3), c09K(4), c09K(5), c09K(6), c09K(9)}, {c09K(7), c09K(8)}}, Batches: []int{64}},
		{Kind: "readers", Cols: req, Inputs: [][]c09Key{{c09K(1), c09K(5)}, {c09K(5), c09K(9)}, {c09K(5), c09K(5)}, {}}, Batches: []int{2}},
		{Kind: "dedupe", Cols: req, Inputs: [][]c09Key{{c09K(1), c09K(1), c09K(2), c09K(2), c09K(2), c09K(3)}}, Chunks: [][]int{{2, 1, 2}}, Batches: []int{2}},
	}
	for _, cs := range corpus {
		c09Run(c, cs, "corpus/"+cs.Kind)
		c.Sample(cs)
		addVm(cs)
	}
	// large file-backed cases with ties at the page boundaries of the first sorting column (fixed choices)
	for n, fx := range []struct {
		shape string
		desc  bool
	}{{"tie-lower", false}, {"tie-lower-crafted", false}, {"tie-lower-crafted", true}, {"tie-lower-at-min", false}, {"tie-upper", false},
		{"tie-upper", true}, {"tie-chain", false}, {"touching", false}, {"nested", false}, {"identical-first-column", false}} {
		cs := c09GenTie(c09FixedSeq(uint64(n+1)), fx.shape, fx.desc)
		cs.Note = "corpus " + cs.Note
		c09Run(c, cs, "corpus/groups-big")
	}

	// ---- exhaustive small scope: two and three readers, keys in {0,1}, length <= 3
	{
		var lists [][]c09Key
		var rec func(cur []c09Key, min int)
		rec = func(cur []c09Key, min int) {
			lists = append(lists, append([]c09Key(nil), cur...))
			if len(cur) == c.N(3, 4) {
				return
			}
			for v := min; v <= 1; v++ {
				rec(append(cur, c09K(v)), v)
			}
		}
		rec(nil, 0)
		n := 0
		for _, a := range lists {
			for _, b := range lists {
				for _, bs := range []int{1, 2, 64} {
					cs := &c09Case{Kind: "readers", Cols: req, Inputs: [][]c09Key{a, b}, Batches: []int{bs}}
					c09Run(c, cs, "readers/exhaustive-k=2")
					if n%37 == 0 {
						addVm(cs)
					}
					n++
				}
				for _, d := range lists {
					if len(a)+len(b)+len(d) > c.N(5, 7) {
						continue
					}
					cs := &c09Case{Kind: "readers", Cols: req, Inputs: [][]c09Key{a, b, d}, Batches: []int{1 + n%3}}
					c09Run(c, cs, "readers/exhaustive-k=3")
					if n%53 == 0 {
						addVm(cs)
					}
					n++
				}
			}
		}
		c.Note("exhaustive: every pair (triple) of sorted readers with keys in {0,1} and at most %d rows each (triples: at most %d rows in total), slice lengths 1, 2, 64 (1..3)", c.N(3, 4), c.N(5, 7))
	}

	// ---- every shape of extra column at every position relative to the sorting columns,
	// through every kind of merge (two and more readers, buffers, files, dedupe)
	for _, shape := range c09ExtraShapes {
		for _, pos := range c09ExtraPos {
			for v := 0; v < c.N(6, 12); v++ {
				cols := [][]c09Col{{{}}, {{}, {}}, {{Desc: true}, {}}, {{}, {Desc: true}, {}}, {{Optional: true}, {}}}[c.Rng.Intn(5)]
				cs := &c09Case{Cols: cols, Extras: []c09Extra{{Name: pos + "0", Shape: shape}}, ExtraSeed: 1 + int64(c.Rng.Intn(1<<30)), Batches: c09GenBatches(c)}
				if c.Rng.Intn(3) == 0 {
					// a second extra column somewhere else
					more, _ := c09GenExtras(c.Rng.Intn, 1)
					more[0].Name += "b"
					cs.Extras = append(cs.Extras, more[0])
				}
				pattern := []string{"random", "nested", "chain", "dense", "runs"}[c.Rng.Intn(5)]
				lens := c09Lens[4 : len(c09Lens)-6]
				switch v % 6 {
				case 0:
					cs.Kind, cs.Inputs = "readers", c09GenInputs(c, cols, 2, pattern, lens)
				case 1:
					cs.Kind, cs.Inputs, cs.Chunks = "readers", c09GenInputs(c, cols, 3+c.Rng.Intn(4), pattern, lens), c09GenChunks(c, 6)
				case 2:
					cs.Kind, cs.Inputs = "groups", c09GenInputs(c, cols, 2+c.Rng.Intn(3), pattern, lens)
				case 3:
					cs.Kind, cs.Inputs, cs.PageBuf = "groups", c09GenInputs(c, cols, 2+c.Rng.Intn(3), pattern, lens), []int{64, 128, 300}[c.Rng.Intn(3)]
					for range cs.Inputs {
						cs.Backing = append(cs.Backing, "file")
					}
				case 4:
					cs.Kind, cs.Inputs, cs.Dedupe, cs.PageBuf = "groups", c09GenInputs(c, cols, 2+c.Rng.Intn(3), pattern, lens), true, 128
					for range cs.Inputs {
						cs.Backing = append(cs.Backing, []string{"buffer", "file"}[c.Rng.Intn(2)])
					}
				default:
					cs.Kind, cs.Inputs, cs.Chunks = "dedupe", c09GenInputs(c, cols, 1, "dense", lens), c09GenChunks(c, 1)
				}
				cs.Note = pattern
				c09Run(c, cs, "extras/"+shape+"@"+pos)
				if shape == "repeated" && pos == "a" && v < 2 {
					c.Sample(cs)
				}
			}
		}
	}

	// ---- every kind of sorting column (types.go): first column ascending / descending, required / optional,
	// followed by a column of another kind, or second behind a default column, through every kind of merge
	for ki, name := range c09KindNames {
		for v := 0; v < c.N(10, 60); v++ {
			rb := func() bool { return c.Rng.Intn(2) == 0 }
			var cols []c09Col
			kinds := []string{name}
			swap := false
			switch v % 5 {
			case 0:
				cols = []c09Col{{}}
			case 1:
				cols = []c09Col{{Desc: true}}
			case 2:
				cols = []c09Col{{Optional: true, Desc: rb(), NullsFirst: rb()}}
			case 3:
				cols = []c09Col{{Desc: rb()}, {Desc: rb(), Optional: c.Rng.Intn(3) == 0}}
				kinds = append(kinds, c09KindNames[c.Rng.Intn(len(c09KindNames))])
			default:
				// generated as (kind, default), then the two columns change places: the first column has few values
				cols = []c09Col{{Desc: rb()}, {Desc: rb()}}
				swap = true
			}
			pattern := []string{"random", "nested", "chain", "touching", "runs", "disjoint", "identical"}[c.Rng.Intn(7)]
			lens := c09Lens[4 : len(c09Lens)-6]
			cs := &c09Case{Cols: cols, Batches: c09GenBatches(c), Note: pattern}
			gen := func(k int) {
				cs.Inputs = c09GenInputs(c, cols, k, pattern, lens)
				if swap {
					cs.Cols = []c09Col{cols[1], cols[0]}
					kinds = []string{"", name}
					for _, in := range cs.Inputs {
						for r, key := range in {
							in[r] = c09Key{key[1], key[0]}
						}
						c09SortKeys(cs.Cols, in)
					}
				}
				cs.Cols = c09ApplyKinds(c.Rng.Intn, cs.Cols, kinds, cs.Inputs)
			}
			switch (v%5 + 3*(v/5) + ki) % 6 {
			case 0:
				cs.Kind = "readers"
				gen(2)
			case 1:
				cs.Kind = "readers"
				gen(3 + c.Rng.Intn(4))
				cs.Chunks = c09GenChunks(c, 6)
			case 2:
				cs.Kind = "groups"
				gen(2 + c.Rng.Intn(3))
			case 3:
				cs.Kind, cs.PageBuf = "groups", []int{64, 128, 300}[c.Rng.Intn(3)]
				gen(2 + c.Rng.Intn(3))
				for range cs.Inputs {
					cs.Backing = append(cs.Backing, "file")
				}
			case 4:
				cs.Kind, cs.Dedupe, cs.PageBuf = "groups", true, 128
				gen(2 + c.Rng.Intn(3))
				for range cs.Inputs {
					cs.Backing = append(cs.Backing, []string{"buffer", "file"}[c.Rng.Intn(2)])
				}
			default:
				cs.Kind = "dedupe"
				pattern = "dense"
				gen(1)
				cs.Chunks = c09GenChunks(c, 1)
			}
			if cs.Kind == "groups" {
				cs.Batches = cs.Batches[:1]
				cs.NoRefine = c.Rng.Intn(4) == 0
			}
			if c.Rng.Intn(5) == 0 {
				cs.Extras, cs.ExtraSeed = c09GenExtras(c.Rng.Intn, 2)
			}
			c09Run(c, cs, "types/"+name)
			if name == "time(ns)" && v == 0 {
				c.Sample(cs)
			}
		}
	}

	// ---- run mode: inputs that take turns in runs of 1..40 rows, slice lengths 1..64
	nRuns := c.N(1500, 15000)
	for i := 0; i < nRuns; i++ {
		cols := c09ColConfigs[c.Rng.Intn(len(c09ColConfigs))]
		k := 2
		if i%2 == 1 {
			k = 3 + c.Rng.Intn(5)
		}
		cs := &c09Case{Kind: "readers", Cols: cols, Inputs: c09GenRunInputs(c, cols, k, 60+c.Rng.Intn(60*k), 40), Batches: []int{1 + i%64}, Note: "turns"}
		switch c.Rng.Intn(4) {
		case 0:
			cs.Chunks = c09GenChunks(c, k)
		case 1:
			cs.Batches = append(cs.Batches, 1+c.Rng.Intn(64))
		}
		bucket := "readers/turns-k=2"
		if k > 2 {
			bucket = "readers/turns-k>2"
		}
		if i%5 == 4 {
			// the same through MergeRowGroups (buffers: the exact row sequence is modelled; files)
			cs.Kind, cs.Chunks, cs.Batches = "groups", nil, cs.Batches[:1]
			bucket = "groups/turns"
			if c.Rng.Intn(2) == 0 {
				cs.PageBuf = []int{64, 128, 300}[c.Rng.Intn(3)]
				for range cs.Inputs {
					cs.Backing = append(cs.Backing, "file")
				}
			}
			cs.NoRefine = c.Rng.Intn(3) == 0
		}
		if c.Rng.Intn(6) == 0 {
			cs.Extras, cs.ExtraSeed = c09GenExtras(c.Rng.Intn, 2)
		}
		c09MaybeKinds(c, cs, 4)
		c09Run(c, cs, bucket)
		if i%97 == 0 {
			addVm(cs)
		}
	}

	// ---- random readers
	nReaders := c.N(10000, 100000)
	for i := 0; i < nReaders; i++ {
		k := 2
		switch r := c.Rng.Intn(10); {
		case r < 4:
			k = 2
		case r < 9:
			k = 3 + c.Rng.Intn(7)
		default:
			k = c.Rng.Intn(2)
		}
		cs := c09GenReaders(c, k)
		c09Run(c, cs, fmt.Sprintf("readers/k=%d", k))
		if i < 2 {
			c.Sample(cs)
		}
		if i%9 == 0 {
			addVm(cs)
		}
	}

	// ---- dedupe reader
	nDedupe := c.N(2000, 20000)
	for i := 0; i < nDedupe; i++ {
		cols := c09ColConfigs[c.Rng.Intn(len(c09ColConfigs))]
		pattern := []string{"dense", "runs", "identical", "random"}[c.Rng.Intn(4)]
		cs := c09MaybeExtras(c, &c09Case{Kind: "dedupe", Cols: cols, Inputs: c09GenInputs(c, cols, 1, pattern, c09Lens), Chunks: c09GenChunks(c, 1),
			EOFData: c.Rng.Intn(4) == 0, Batches: c09GenBatches(c), Note: pattern}, 3)
		c09MaybeKinds(c, cs, 4)
		c09Run(c, cs, "dedupe")
	}

	// ---- row groups: small inputs
	nGroups := c.N(2400, 30000)
	fired := 0
	for i := 0; i < nGroups; i++ {
		k := c.Rng.Intn(10)
		cols := c09ColConfigs[c.Rng.Intn(len(c09ColConfigs))]
		pattern := c09Patterns[c.Rng.Intn(len(c09Patterns))]
		lens := c09Lens[:len(c09Lens)-4]
		cs := &c09Case{Kind: "groups", Cols: cols, Inputs: c09GenInputs(c, cols, k, pattern, lens), Batches: c09GenBatches(c),
			PageBuf: []int{0, 64, 128, 300, 1024}[c.Rng.Intn(5)], Dedupe: c.Rng.Intn(3) == 0, NoRefine: c.Rng.Intn(4) == 0, Note: pattern}
		if c.Rng.Intn(2) == 0 {
			cs.Batches = cs.Batches[:1]
		}
		c09MaybeExtras(c, cs, 3)
		c09MaybeKinds(c, cs, 4)
		mode := c.Rng.Intn(3)
		for j := 0; j < k; j++ {
			b := "buffer"
			if mode == 1 || (mode == 2 && c.Rng.Intn(2) == 0) {
				b = "file"
			}
			cs.Backing = append(cs.Backing, b)
		}
		bucket := "groups/" + []string{"buffers", "files", "mixed"}[mode]
		if cs.Dedupe {
			bucket += "+dedupe"
		}
		c09Run(c, cs, bucket)
		if i < 2 {
			c.Sample(cs)
		}
	}

	// ---- nested inputs (nested.go): merged, merged + deduplicated, MultiRowGroup, ConvertRowGroup wrappers and
	// row groups of a wider schema as inputs of MergeRowGroups, one to three levels.
	// Corpus: the defect repaired by 4f9d711, merge(merge(A[0..99], B[40..59]), C[70..79])
	{
		span := func(lo, hi int) []c09Key {
			var ks []c09Key
			for v := lo; v <= hi; v++ {
				ks = append(ks, c09K(v))
			}
			return ks
		}
		lf := func(i int) c09Node { return c09Node{Op: "leaf", Leaf: i} }
		op := func(o string, kids ...c09Node) c09Node { return c09Node{Op: o, Kids: kids} }
		abc := [][]c09Key{span(0, 99), span(40, 59), span(70, 79)}
		for n, tree := range [][]c09Node{
			{op("merge", lf(0), lf(1)), lf(2)},
			{lf(2), op("merge", lf(1), lf(0))},
			{op("dedupe", lf(0), lf(1)), lf(2)},
			{op("merge", op("merge", lf(0), lf(1))), lf(2)},
			{op("merge", op("merge", op("merge", lf(0), lf(1)), lf(2)))},
			{op("convert", op("merge", lf(0), lf(1))), lf(2)},
			{op("wide", op("merge", lf(0), lf(1))), lf(2)},
			{op("multi", lf(1), lf(2)), lf(0)},
			{op("merge", op("multi", lf(1), lf(2)), lf(0))},
		} {
			for _, backing := range []string{"buffer", "file"} {
				cs := &c09Case{Kind: "groups", Cols: req, Inputs: abc, Tree: tree, Batches: []int{64}, Backing: []string{backing, backing, backing}, PageBuf: 128, Note: "regression 4f9d711"}
				c09Run(c, cs, "corpus/nested")
				if n == 0 && backing == "buffer" {
					c.Sample(cs)
				}
			}
		}
	}
	// the defect repaired by cc06321: DropDuplicatedRows over a single input that is a merged row group of an earlier call
	{
		dup := [][]c09Key{{c09K(1), c09K(2), c09K(2), c09K(3)}, {c09K(2), c09K(3), c09K(3), c09K(4)}, {}}
		lf := func(i int) c09Node { return c09Node{Op: "leaf", Leaf: i} }
		m01 := c09Node{Op: "merge", Kids: []c09Node{lf(0), lf(1)}}
		for _, cs := range []*c09Case{
			{Tree: []c09Node{m01, lf(2)}, Dedupe: true},
			{Tree: []c09Node{lf(2), {Op: "dedupe", Kids: []c09Node{m01}}}},
			{Tree: []c09Node{{Op: "dedupe", Kids: []c09Node{{Op: "convert", Kids: []c09Node{m01}}, lf(2)}}}},
			{Tree: []c09Node{{Op: "merge", Kids: []c09Node{m01}}, lf(2)}, Dedupe: true},
		} {
			cs.Kind, cs.Cols, cs.Inputs, cs.Batches, cs.Note = "groups", req, dup, []int{3}, "regression cc06321"
			c09Run(c, cs, "corpus/nested")
		}
	}
	// ---- sorting columns below optional groups: maximum definition level 1..3 (one or two optional groups
	// around a required or optional leaf), the nulls at any level / at level 0 only / at the intermediate
	// levels only, through every kind of merge
	for _, sh := range []struct {
		nest     int
		optional bool
	}{{1, false}, {1, true}, {2, false}, {2, true}} {
		for nullDef := 0; nullDef < 3; nullDef++ {
			for v := 0; v < c.N(32, 160); v++ {
				cols := c09GenNestCols(c.Rng.Intn, sh.nest, sh.optional, nullDef)
				pattern := []string{"random", "disjoint", "disjoint", "touching", "nested", "chain", "identical", "dense", "runs"}[c.Rng.Intn(9)]
				lens := c09Lens[:len(c09Lens)-6]
				cs := &c09Case{Cols: cols, ExtraSeed: 1 + int64(c.Rng.Intn(1<<30)), Batches: c09GenBatches(c), Note: pattern}
				way := v % 8
				switch way {
				case 0:
					cs.Kind, cs.Inputs = "readers", c09GenInputs(c, cols, 2, pattern, lens)
				case 1:
					cs.Kind, cs.Inputs, cs.Chunks = "readers", c09GenInputs(c, cols, 3+c.Rng.Intn(4), pattern, lens), c09GenChunks(c, 6)
				case 2, 3, 4, 5:
					cs.Kind, cs.Inputs, cs.PageBuf = "groups", c09GenInputs(c, cols, 2+c.Rng.Intn(3), pattern, lens), []int{64, 128, 300}[c.Rng.Intn(3)]
					for range cs.Inputs {
						cs.Backing = append(cs.Backing, []string{"buffer", "file", []string{"buffer", "file"}[c.Rng.Intn(2)], "buffer"}[way-2])
					}
					cs.Dedupe, cs.NoRefine, cs.Batches = way == 5 && c.Rng.Intn(2) == 0, c.Rng.Intn(5) == 0, cs.Batches[:1]
				case 6:
					cs.Kind, cs.Inputs, cs.Chunks = "dedupe", c09GenInputs(c, cols, 1, "dense", lens), c09GenChunks(c, 1)
				default:
					cs.Kind, cs.Batches, cs.PageBuf = "groups", cs.Batches[:1], 128
					var stock [][]c09Key
					cs.Tree = c09GenForest(c.Rng.Intn, func() []c09Key {
						if len(stock) == 0 {
							stock = c09GenInputs(c, cols, 8, pattern, lens)
						}
						ks := stock[0]
						stock = stock[1:]
						return ks
					}, &cs.Inputs, 1+c.Rng.Intn(2))
					for range cs.Inputs {
						cs.Backing = append(cs.Backing, []string{"buffer", "file"}[c.Rng.Intn(2)])
					}
				}
				if c.Rng.Intn(5) == 0 {
					cs.Extras, _ = c09GenExtras(c.Rng.Intn, 2)
				}
				c09MaybeKinds(c, cs, 5)
				opt := "required"
				if sh.optional {
					opt = "optional"
				}
				c09Run(c, cs, fmt.Sprintf("nestkey/groups=%d,leaf=%s,nulls=%s", sh.nest, opt, []string{"any-level", "level-0", "intermediate"}[nullDef]))
				if v == 2 && nullDef == 2 && sh.nest == 1 && sh.optional {
					c.Sample(cs)
				}
			}
		}
	}

	// ---- concatenations nested in concatenations with empty members at every position, as inputs of a merge
	// with one to three other inputs whose keys overlap theirs
	concatShapes := map[string]int{}
	for i := 0; i < c.N(400, 4000); i++ {
		cols := c09ColConfigs[c.Rng.Intn(len(c09ColConfigs))]
		pattern := []string{"random", "random", "chain", "nested", "identical", "touching"}[c.Rng.Intn(6)]
		stock := c09GenInputs(c, cols, 5, pattern, c09Lens[4:len(c09Lens)-6])
		cs := &c09Case{Kind: "groups", Cols: cols, Batches: c09GenBatches(c)[:1], PageBuf: []int{0, 64, 128, 300}[c.Rng.Intn(4)],
			Dedupe: c.Rng.Intn(6) == 0, NoRefine: c.Rng.Intn(6) == 0, Note: pattern + " concat"}
		leaf := func(keys []c09Key) c09Node {
			cs.Inputs = append(cs.Inputs, keys)
			return c09Node{Op: "leaf", Leaf: len(cs.Inputs) - 1}
		}
		nc := 1 + c.Rng.Intn(2)
		others := 1 + c.Rng.Intn(3-nc+1)
		for j := 0; j < nc+others; j++ {
			switch {
			case j < nc && c.Rng.Intn(4) == 0:
				// the concatenation handed over by a merge of its own, or converted from the wider schema
				op := []string{"merge", "convert", "wide"}[c.Rng.Intn(3)]
				cs.Tree = append(cs.Tree, c09Node{Op: op, Kids: []c09Node{c09GenConcat(c.Rng.Intn, stock[j], leaf, 0)}})
			case j < nc:
				cs.Tree = append(cs.Tree, c09GenConcat(c.Rng.Intn, stock[j], leaf, 0))
			default:
				cs.Tree = append(cs.Tree, leaf(stock[j]))
			}
		}
		c.Rng.Shuffle(len(cs.Tree), func(a, b int) { cs.Tree[a], cs.Tree[b] = cs.Tree[b], cs.Tree[a] })
		mode := c.Rng.Intn(3)
		for range cs.Inputs {
			b := "buffer"
			if mode == 1 || (mode == 2 && c.Rng.Intn(2) == 0) {
				b = "file"
			}
			cs.Backing = append(cs.Backing, b)
		}
		c09MaybeExtras(c, cs, 2)
		c09MaybeKinds(c, cs, 5)
		shape := map[string]bool{}
		c09ConcatShape(cs.Tree, 0, cs, shape)
		for k := range shape {
			concatShapes[k]++
		}
		bucket := "nested/concat"
		if shape["multi-in-multi"] {
			bucket = "nested/concat(multi in multi)"
		}
		c09Run(c, cs, bucket)
		if i == 0 {
			c.Sample(cs)
		}
	}
	c.Note("concatenation cases by shape (a case counts once per shape it has): %v", concatShapes)

	nNested := c.N(500, 8000)
	nestedOps := map[string]int{}
	for i := 0; i < nNested; i++ {
		cols := c09ColConfigs[c.Rng.Intn(len(c09ColConfigs))]
		pattern := c09Patterns[c.Rng.Intn(len(c09Patterns))]
		lens := c09Lens[:len(c09Lens)-6]
		var stock [][]c09Key
		pool := func() []c09Key {
			if len(stock) == 0 {
				stock = c09GenInputs(c, cols, 8, pattern, lens)
			}
			ks := stock[0]
			stock = stock[1:]
			return ks
		}
		cs := &c09Case{Kind: "groups", Cols: cols, Batches: c09GenBatches(c)[:1], PageBuf: []int{0, 64, 128, 300}[c.Rng.Intn(4)],
			Dedupe: c.Rng.Intn(4) == 0, NoRefine: c.Rng.Intn(4) == 0, Note: pattern}
		cs.Tree = c09GenForest(c.Rng.Intn, pool, &cs.Inputs, 1+c.Rng.Intn(3))
		mode := c.Rng.Intn(3)
		for range cs.Inputs {
			b := "buffer"
			if mode == 1 || (mode == 2 && c.Rng.Intn(2) == 0) {
				b = "file"
			}
			cs.Backing = append(cs.Backing, b)
		}
		c09MaybeExtras(c, cs, 2)
		c09MaybeKinds(c, cs, 4)
		ops := map[string]bool{}
		c09TreeOps(cs.Tree, ops)
		for o := range ops {
			nestedOps[o]++
		}
		c09Run(c, cs, c09ForestBucket(cs))
		if i < 2 {
			c.Sample(cs)
		}
	}
	c.Note("nested inputs: %d cases; cases with a node of each operator: %v; inputs of the root merge whose rows are computed (not those of their column chunks): %d of %d", nNested, nestedOps, c09Stats.opaqueTop, c09Stats.top)

	// ---- row groups: large file-backed inputs with small pages (refinement path), refined and unrefined plans.
	// Every other case is built around the boundary cases of the cut lookups (c09GenTie).
	nBig := c.N(60, 700)
	bigFailed := map[string]int{}
	for i := 0; i < nBig; i++ {
		var proto *c09Case
		if i%2 == 1 {
			shape := c09TieShapes[c.Rng.Intn(len(c09TieShapes))]
			proto = c09GenTie(c.Rng.Intn, shape, c.Rng.Intn(3) == 0)
			if c.Rng.Intn(2) == 0 {
				proto.Batches = c09GenBatches(c)
			}
		} else {
			proto = c09GenBig(c)
			if i%4 == 2 {
				c09SplitIntoConcats(c.Rng.Intn, proto)
			}
		}
		var keysRefined []c09Out
		for _, noRefine := range []bool{false, true} {
			cs := c09Clone(proto)
			cs.NoRefine = noRefine
			var info c09GroupsInfo
			ok := true
			c09Fail = ""
			if c.Probe(func() { c09CheckGroups(c, cs, &info) }) {
				ok = false
				bigFailed[proto.Note+": "+c09Fail]++
				min := c09Shrink(c, cs)
				c09Check(c, min)
			}
			bucket := "groups/big-unrefined"
			if !noRefine {
				bucket = "groups/big-refined"
				if info.ranges > 0 {
					bucket = "groups/big-refined(sliced)"
					fired++
				}
			}
			key := fmt.Sprintf("big %d %v", i, noRefine)
			c.Case(bucket, key, true)
			if !ok {
				continue
			}
			c09RefineCase(c, cs, &info, key)
			// refined and unrefined plans deliver the same keys in the same positions
			read := info.read
			if !noRefine {
				keysRefined = read
			} else if keysRefined != nil {
				same := len(keysRefined) == len(read)
				for p := 0; same && p < len(read); p++ {
					same = c09KeyEq(read[p].Key, keysRefined[p].Key)
				}
				if !same {
					c.Violation("refined-differs", "the refined and the unrefined plan of MergeRowGroups deliver different key sequences", cs)
				}
			}
		}
		// dedupe on the same inputs (refinement is not applied)
		if i%3 == 0 {
			cs := c09Clone(proto)
			cs.Dedupe = true
			c09Run(c, cs, "groups/big+dedupe")
		}
	}
	c.Note("large file-backed cases in which refinement sliced at least one row-range view: %d of %d", fired, nBig)
	c.Note("refined plans compared with the model (corr:C09.refine): %d, of which %d contain a row-range part; not compared because of the size limit (%d rows per input, %d in total): %d", c09Stats.compared, c09Stats.sliced, c09RefineMaxInput, c09RefineMaxTotal, c09Stats.tooBig)
	c.Note("nested cases whose plan was not compared because a concatenated input has a zero-row page (an empty member of a MultiRowGroup; Go merges such an input whole, the model bounds it by its keys): %d", c09Stats.emptyPageInputs)
	c.Note("what the planner sees of the inputs: MergeRowGroups wraps every input with ConvertRowGroup, which returns the row group itself when the schemas are equal (EqualNodes) and otherwise keeps the source column chunk (same position) or forwards ColumnIndex()/OffsetIndex() to it (convertedColumnChunk); the harness probes the wrapped row groups: %d inputs were wrapped in this run. A parquet.Buffer's column chunk returns a one-page column index (min/max of all values, NullPage only when every value is null) and a one-page offset index, so newCutLookups returns lookups for it (cutAbove/cutBelow are 0 or NumRows): non-empty Buffer inputs %d, with lookups %d, with a one-page layout %d", c09Stats.converted, c09Stats.bufferInputs, c09Stats.bufferCuts, c09Stats.bufferOnePage)
	if len(bigFailed) > 0 {
		var fs []string
		for k, n := range bigFailed {
			fs = append(fs, fmt.Sprintf("%s x%d", k, n))
		}
		sort.Strings(fs)
		c.Note("large file-backed cases that failed, by shape and kind of failure: %s", strings.Join(fs, "; "))
	}
	if c09Stats.indexOdd != "" {
		c.Note("unexpected page index shape: %s", c09Stats.indexOdd)
	}

	// ---- cases.v: the model evaluated inside coqc on a sample of the reader cases
	c.Vm("From Coq Require Import List ZArith Bool Arith.\nFrom PQ Require Import Merge.Model Merge.Instance.\nImport ListNotations.")
	c.Vm("Definition case := (list colcfg * list (list nat) * list nat * list (list keyL) * list (list (nat * nat)))%type.")
	c.Vm("Definition cases : list case := [\n  " + strings.Join(vm, ";\n  ") + "].")
	c.Vm("Definition eq_item (a b : nat * nat) := Nat.eqb (fst a) (fst b) && Nat.eqb (snd a) (snd b).")
	c.Vm("Fixpoint eq_list {A} (f : A -> A -> bool) (x y : list A) : bool := match x, y with [] , [] => true | a :: x', b :: y' => f a b && eq_list f x' y' | _, _ => false end.")
	c.Vm("Definition model (cs : case) : list (list (nat * nat)) * bool := let '(cfg, chs, bs, ins, _) := cs in match ins with [a; b] => c09_merge2 cfg (nth 0 chs []) (nth 1 chs []) bs a b | _ => c09_mergek cfg chs bs ins end.")
	c.Vm("Definition agrees (cs : case) : bool := let '(_, _, _, _, want) := cs in let '(got, eof) := model cs in eof && eq_list (eq_list eq_item) got want.")
	c.Vm("Definition mismatches := filter (fun cs => negb (agrees cs)) cases.")
	c.Vm("Definition M := Eval vm_compute in (length cases, mismatches).\nPrint M.")
	c.Res.VmCases = vmRows
}

func replayC09(c *core.Ctx, raw json.RawMessage) {
	var cs c09Case
	if err := json.Unmarshal(raw, &cs); err != nil || cs.Kind == "" {
		c.Note("replay is not a C09 case; rerun the check with the recorded seed")
		return
	}
	c09Run(c, &cs, "replay")
}
