// C09 — inputs of MergeRowGroups that are not plain buffers or file row groups.
//
// A case may give the inputs of the merge as a forest (c09Case.Tree): the
// leaves are the sorted inputs of the case (Inputs[Leaf], a Buffer or the row
// group of a file), the other nodes are row groups built from their children:
//
//	merge   : parquet.MergeRowGroups(children, sorting)              (rows computed by merging)
//	dedupe  : parquet.MergeRowGroups(children, sorting, DropDuplicatedRows(true))
//	multi   : parquet.MultiRowGroup(children...), the children being consecutive
//	          pieces of one sorted sequence (concatenation = sorted): leaves, empty
//	          ones at every position, or concatenations of their own (c09GenConcat)
//	convert : parquet.ConvertRowGroup(child, Convert(schema, wide schema)): the
//	          subtree below is built in a wider schema (two more columns, one
//	          of them before the sorting columns: the column indexes differ)
//	wide    : the child, built in the wider schema, handed over as it is (the
//	          enclosing MergeRowGroups converts it)
//
// The statement of C09 is evaluated at every merge / dedupe node and at the
// root at the level of the leaves (c09SpecCheck): sorted, whole rows of the
// leaves below, none twice, the rows of every leaf in their order, and the
// keys those the inputs must deliver.  Leaves and multi nodes must deliver
// exactly the rows written, in order.
package main

import (
	"fmt"
	"sort"
	"strings"

	"github.com/parquet-go/parquet-go"
)

type c09Node struct {
	Op   string    `json:"op"`
	Leaf int       `json:"leaf"`
	Kids []c09Node `json:"kids,omitempty"`
}

// the two columns the wide schema has in addition
var c09WideExtras = []c09Extra{{Name: "a_w", Shape: "required"}, {Name: "zz_w", Shape: "optional"}}

func c09WideSchemaOf(cs *c09Case) *c09Schema {
	return c09NewSchema(cs.Cols, append(append([]c09Extra(nil), cs.Extras...), c09WideExtras...), cs.ExtraSeed)
}

func c09CloneTree(t []c09Node) []c09Node {
	if t == nil {
		return nil
	}
	out := make([]c09Node, len(t))
	for i, n := range t {
		out[i] = c09Node{Op: n.Op, Leaf: n.Leaf, Kids: c09CloneTree(n.Kids)}
	}
	return out
}

func c09TreeTok(t []c09Node) string {
	parts := make([]string, len(t))
	for i, n := range t {
		if n.Op == "leaf" {
			parts[i] = fmt.Sprint(n.Leaf)
		} else {
			parts[i] = n.Op + "(" + c09TreeTok(n.Kids) + ")"
		}
	}
	return strings.Join(parts, ",")
}

func c09TreeDepth(t []c09Node) int {
	d := 0
	for _, n := range t {
		if n.Op != "leaf" {
			if k := 1 + c09TreeDepth(n.Kids); k > d {
				d = k
			}
		}
	}
	return d
}

func c09TreeOps(t []c09Node, ops map[string]bool) {
	for _, n := range t {
		if n.Op != "leaf" {
			ops[n.Op] = true
			c09TreeOps(n.Kids, ops)
		}
	}
}

// c09NodeKeys: the keys the rows of a node must carry, in order (the statement of C09 for the
// merge nodes); ok = false when the children of a multi node are not consecutive pieces.
func c09NodeKeys(cs *c09Case, n *c09Node) (keys []c09Key, ok bool) {
	switch n.Op {
	case "leaf":
		return cs.Inputs[n.Leaf], true
	case "convert", "wide":
		return c09NodeKeys(cs, &n.Kids[0])
	}
	for i := range n.Kids {
		ks, ok := c09NodeKeys(cs, &n.Kids[i])
		if !ok {
			return nil, false
		}
		keys = append(keys, ks...)
	}
	keys = append([]c09Key(nil), keys...)
	switch n.Op {
	case "multi":
		for i := 1; i < len(keys); i++ {
			if c09Cmp(cs.Cols, keys[i-1], keys[i]) > 0 {
				return nil, false
			}
		}
	case "merge", "dedupe":
		c09SortKeys(cs.Cols, keys)
		if n.Op == "dedupe" {
			w := 0
			for i := range keys {
				if i == 0 || c09Cmp(cs.Cols, keys[i-1], keys[i]) != 0 {
					keys[w] = keys[i]
					w++
				}
			}
			keys = keys[:w]
		}
	}
	return keys, true
}

// c09TreeValid: every input is the leaf of exactly one node, the operators have the children they need,
// the wide schema is entered at most once on a path, a multi node concatenates to a sorted sequence.
func c09TreeValid(cs *c09Case) bool {
	seen := make([]bool, len(cs.Inputs))
	var walk func(t []c09Node, wide bool, depth int) bool
	walk = func(t []c09Node, wide bool, depth int) bool {
		if depth > 5 {
			return false
		}
		for i := range t {
			n := &t[i]
			switch n.Op {
			case "leaf":
				if n.Leaf < 0 || n.Leaf >= len(cs.Inputs) || seen[n.Leaf] || len(n.Kids) != 0 {
					return false
				}
				seen[n.Leaf] = true
				continue
			case "merge", "dedupe":
				if len(n.Kids) == 0 {
					return false
				}
			case "multi":
				if len(n.Kids) == 0 {
					return false
				}
				for _, k := range n.Kids {
					if k.Op == "convert" || k.Op == "wide" {
						return false // the children of a multi row group have one schema
					}
				}
			case "convert", "wide":
				if wide || len(n.Kids) != 1 {
					return false
				}
			default:
				return false
			}
			if !walk(n.Kids, wide || n.Op == "convert" || n.Op == "wide", depth+1) {
				return false
			}
			if _, ok := c09NodeKeys(cs, n); !ok {
				return false
			}
		}
		return true
	}
	if !walk(cs.Tree, false, 0) {
		return false
	}
	for _, s := range seen {
		if !s {
			return false
		}
	}
	return true
}

// c09TreeDropLeaf removes the leaf of input i and renumbers the others; nodes left without children go.
func c09TreeDropLeaf(t []c09Node, i int) []c09Node {
	var out []c09Node
	for _, n := range t {
		if n.Op == "leaf" {
			switch {
			case n.Leaf == i:
				continue
			case n.Leaf > i:
				n.Leaf--
			}
			out = append(out, n)
			continue
		}
		n.Kids = c09TreeDropLeaf(n.Kids, i)
		if len(n.Kids) > 0 {
			out = append(out, n)
		}
	}
	return out
}

// c09TreeHoists: the forests obtained by replacing one inner node by its children.
func c09TreeHoists(t []c09Node) [][]c09Node {
	var res [][]c09Node
	for i, n := range t {
		if n.Op == "leaf" {
			continue
		}
		h := append(append(c09CloneTree(t[:i]), c09CloneTree(n.Kids)...), c09CloneTree(t[i+1:])...)
		res = append(res, h)
		for _, sub := range c09TreeHoists(n.Kids) {
			c := c09CloneTree(t)
			c[i].Kids = sub
			res = append(res, c)
		}
	}
	return res
}

// c09TreeFlat: the forest is the list of the inputs, in order
func c09TreeFlat(cs *c09Case) bool {
	if len(cs.Tree) != len(cs.Inputs) {
		return false
	}
	for i, n := range cs.Tree {
		if n.Op != "leaf" || n.Leaf != i {
			return false
		}
	}
	return true
}

// ---- building and checking the nodes ------------------------------------------------------

type c09Built struct {
	node   *c09Node
	path   string
	rg     parquet.RowGroup
	schema *c09Schema // the schema of the rows of rg
	kids   []*c09Built
	rows   []c09Out // what rg.Rows() delivers
	typ    string
}

type c09NodeFail struct{ class, what string }

func c09BuildLeaf(s *c09Schema, cs *c09Case, i int) (parquet.RowGroup, int, error) {
	rows := s.rows(i, cs.Inputs[i])
	if cs.backingOf(i) == "file" && len(rows) > 0 {
		f, err := c09WriteFile(s, rows, cs.PageBuf)
		if err != nil {
			return nil, 0, fmt.Errorf("writing input %d: %w", i, err)
		}
		rgs := f.RowGroups()
		if len(rgs) != 1 {
			return nil, 0, fmt.Errorf("input file %d has %d row groups", i, len(rgs))
		}
		pages := 0
		if ci, err := rgs[0].ColumnChunks()[s.keyLeaf[0]].ColumnIndex(); err == nil && ci != nil {
			pages = ci.NumPages()
		}
		return rgs[0], pages, nil
	}
	b := parquet.NewBuffer(s.schema, parquet.SortingRowGroupConfig(parquet.SortingColumns(s.sorting...)))
	if len(rows) > 0 {
		if _, err := b.WriteRows(rows); err != nil {
			return nil, 0, fmt.Errorf("buffering input %d: %w", i, err)
		}
	}
	return b, 0, nil
}

type c09ForestBuilder struct {
	cs     *c09Case
	narrow *c09Schema
	wide   *c09Schema
	batch  int
	fail   *c09NodeFail // the first node that does not deliver what it must
	setup  error
}

func (b *c09ForestBuilder) schemaOf(wide bool) *c09Schema {
	if wide {
		if b.wide == nil {
			b.wide = c09WideSchemaOf(b.cs)
		}
		return b.wide
	}
	return b.narrow
}

// build constructs the row group of a node (children first), reads it through Rows() and checks it.
func (b *c09ForestBuilder) build(n *c09Node, wide bool, path string) *c09Built {
	s := b.schemaOf(wide)
	out := &c09Built{node: n, path: path, schema: s}
	for i := range n.Kids {
		k := b.build(&n.Kids[i], wide || n.Op == "convert" || n.Op == "wide", fmt.Sprintf("%s.%d", path, i))
		if k == nil {
			return nil
		}
		out.kids = append(out.kids, k)
	}
	kidGroups := func() []parquet.RowGroup {
		gs := make([]parquet.RowGroup, len(out.kids))
		for i, k := range out.kids {
			gs[i] = k.rg
		}
		return gs
	}
	what := fmt.Sprintf("node %s = %s", path, c09TreeTok([]c09Node{*n}))
	switch n.Op {
	case "leaf":
		rg, _, err := c09BuildLeaf(s, b.cs, n.Leaf)
		if err != nil {
			b.setup = err
			return nil
		}
		out.rg = rg
	case "merge", "dedupe":
		rg, err := parquet.MergeRowGroups(kidGroups(), s.schema, parquet.SortingRowGroupConfig(parquet.SortingColumns(s.sorting...), parquet.DropDuplicatedRows(n.Op == "dedupe")))
		if err != nil {
			b.fail = &c09NodeFail{"merge-groups-failed", what + ": MergeRowGroups: " + err.Error()}
			return nil
		}
		out.rg = rg
	case "multi":
		out.rg = parquet.MultiRowGroup(kidGroups()...)
	case "convert":
		conv, err := parquet.Convert(b.narrow.schema, out.kids[0].rg.Schema())
		if err != nil {
			b.setup = fmt.Errorf("%s: Convert: %w", what, err)
			return nil
		}
		out.rg = parquet.ConvertRowGroup(out.kids[0].rg, conv)
		out.schema = b.narrow
	case "wide":
		out.rg = out.kids[0].rg
		out.schema = b.schemaOf(true)
	}
	out.typ = fmt.Sprintf("%T", out.rg)
	rr := out.rg.Rows()
	got, _, f := c09ReadAll(out.schema, rr, []int{b.batch})
	rr.Close()
	if f != "" {
		b.fail = &c09NodeFail{"merge-groups-failed", fmt.Sprintf("%s (%s): Rows(): %s", what, out.typ, f)}
		return nil
	}
	out.rows = c09Flat(got)
	if class, w := c09SpecCheck(b.cs, n, out.rows); class != "" {
		b.fail = &c09NodeFail{class, fmt.Sprintf("%s (%s), rows of Rows(): %s", what, out.typ, w)}
		return nil
	}
	return out
}

// c09SpecCheck: the rows a node delivers against what it must deliver.  A leaf: the rows written, in
// order.  A multi node over leaves: their concatenation.  convert / wide: what the child must deliver.
// merge / dedupe (and the root of a case): the statement of C09 at the level of the leaves - sorted,
// whole rows of the leaves below, none twice, the rows of every leaf in their order, and the keys
// those the inputs must deliver (one per distinct key when duplicates are dropped).  The order of
// rows with equal keys that come from different leaves is free (it depends on the slices the
// readers are given), so a merged input has no fixed row sequence to compare with.
func c09SpecCheck(cs *c09Case, n *c09Node, rows []c09Out) (string, string) {
	switch n.Op {
	case "convert", "wide":
		return c09SpecCheck(cs, &n.Kids[0], rows)
	case "leaf", "multi":
		var want [][2]int
		exact := true
		var add func(m *c09Node)
		add = func(m *c09Node) {
			switch m.Op {
			case "leaf":
				for p := range cs.Inputs[m.Leaf] {
					want = append(want, [2]int{m.Leaf, p})
				}
			case "multi":
				for i := range m.Kids {
					add(&m.Kids[i])
				}
			default:
				exact = false
			}
		}
		add(n)
		if !exact {
			return c09TreePredicate(cs, n.Kids, rows, false)
		}
		if len(rows) != len(want) {
			return "nested-input-differs", fmt.Sprintf("%d rows, %d written", len(rows), len(want))
		}
		for p, o := range rows {
			switch {
			case o.Bad != "":
				return "row-mangled", fmt.Sprintf("row %d: %s", p, o.Bad)
			case o.In != want[p][0] || o.Seq != want[p][1] || !c09KeyEq(o.Key, cs.Inputs[o.In][o.Seq]):
				return "nested-input-differs", fmt.Sprintf("row %d is row %d of input %d with key %s, the row written there is row %d of input %d", p, o.Seq, o.In, c09KeyTok(o.Key), want[p][1], want[p][0])
			}
		}
		return "", ""
	}
	return c09TreePredicate(cs, n.Kids, rows, n.Op == "dedupe")
}

// c09TreePredicate: the statement of C09 for a merge (dropping duplicates or not) of the forest f.
func c09TreePredicate(cs *c09Case, f []c09Node, out []c09Out, dedupe bool) (string, string) {
	member := make([]bool, len(cs.Inputs))
	var mark func(t []c09Node)
	mark = func(t []c09Node) {
		for i := range t {
			if t[i].Op == "leaf" {
				member[t[i].Leaf] = true
			}
			mark(t[i].Kids)
		}
	}
	mark(f)
	op := "merge"
	if dedupe {
		op = "dedupe"
	}
	expected, _ := c09NodeKeys(cs, &c09Node{Op: op, Kids: f})
	if expected == nil {
		expected = []c09Key{}
	}
	return c09PredicateOn(cs, out, dedupe, member, expected)
}

// c09Opaque: the rows of a row group of this dynamic type are computed (merged, deduplicated,
// concatenated from several row groups): they are not the rows of its column chunks read page by page.
// Buffers, file row groups, row-range views and conversions of those are not opaque.
func c09Opaque(b *c09Built) bool {
	switch b.node.Op {
	case "leaf":
		return false
	case "convert", "wide":
		return c09Opaque(b.kids[0])
	}
	t := b.typ
	if strings.HasSuffix(t, ".multiRowGroup") {
		if b.node.Op == "multi" {
			// a plain concatenation is read through its concatenated column chunks when the rows
			// of every member are their column chunks (parquet.MultiRowGroup otherwise returns a
			// row-reading wrapper of another dynamic type)
			for _, k := range b.kids {
				if c09Opaque(k) {
					return true
				}
			}
			return false
		}
		// a merge that handed its only non-empty input through
		for _, k := range b.kids {
			if strings.HasSuffix(k.typ, ".multiRowGroup") {
				return c09Opaque(k)
			}
		}
		return true
	}
	if strings.HasSuffix(t, ".convertedRowGroup") {
		// a merge with a single non-empty input in another schema hands the conversion of that
		// input through
		var only *c09Built
		n := 0
		for _, k := range b.kids {
			if k.rg != nil && k.rg.NumRows() > 0 {
				only = k
				n++
			}
		}
		if n == 1 {
			return c09Opaque(only)
		}
	}
	return !(strings.HasSuffix(t, ".Buffer") || strings.HasSuffix(t, ".FileRowGroup") || strings.HasSuffix(t, ".rowRangeRowGroup") || strings.HasSuffix(t, ".rowGroup"))
}

// ---- generation ------------------------------------------------------------------------------

// c09GenForest builds a random forest over freshly generated sorted inputs.  pool returns the next
// sorted key sequence.  Returns the top-level nodes; the inputs are appended to *inputs.
func c09GenForest(intn func(int) int, pool func() []c09Key, inputs *[][]c09Key, maxDepth int) []c09Node {
	leaf := func(keys []c09Key) c09Node {
		*inputs = append(*inputs, keys)
		return c09Node{Op: "leaf", Leaf: len(*inputs) - 1}
	}
	var gen func(depth int, wide bool) c09Node
	gen = func(depth int, wide bool) c09Node {
		r := intn(12)
		if depth >= maxDepth || (depth > 0 && r < 5) || (depth == 0 && r < 2) {
			return leaf(pool())
		}
		switch {
		case r < 8: // merge of 1..3 nodes
			n := c09Node{Op: "merge"}
			for k := 1 + intn(3); k > 0; k-- {
				n.Kids = append(n.Kids, gen(depth+1, wide))
			}
			return n
		case r < 9:
			n := c09Node{Op: "dedupe"}
			for k := 1 + intn(3); k > 0; k-- {
				n.Kids = append(n.Kids, gen(depth+1, wide))
			}
			return n
		case r < 10: // consecutive pieces of one sorted sequence
			return c09GenConcat(intn, pool(), leaf, 0)
		default:
			if wide {
				return leaf(pool())
			}
			op := "convert"
			if r == 11 {
				op = "wide"
			}
			return c09Node{Op: op, Kids: []c09Node{gen(depth+1, true)}}
		}
	}
	var top []c09Node
	for k := 2 + intn(3); k > 0; k-- {
		top = append(top, gen(0, false))
	}
	return top
}

// c09GenConcat: a concatenation (multi node) of 2-3 consecutive pieces of the sorted sequence keys.  The
// cut points are uniform over the positions, one in three moved to the start, the end or onto another
// cut, so that empty pieces occur first, last and in the middle; a piece (empty or not) is a leaf or, one
// time in three and down to three levels, a concatenation of its own pieces: empty leaves occur at every
// position of concatenations nested in concatenations.
func c09GenConcat(intn func(int) int, keys []c09Key, leaf func([]c09Key) c09Node, level int) c09Node {
	n := c09Node{Op: "multi"}
	pieces := 2 + intn(2)
	cuts := make([]int, pieces-1)
	for i := range cuts {
		switch intn(6) {
		case 0:
			cuts[i] = 0
		case 1:
			cuts[i] = len(keys)
		default:
			cuts[i] = intn(len(keys) + 1)
		}
	}
	sort.Ints(cuts)
	cuts = append(cuts, len(keys))
	at := 0
	for _, end := range cuts {
		if level < 2 && intn(3) == 0 {
			n.Kids = append(n.Kids, c09GenConcat(intn, keys[at:end], leaf, level+1))
		} else {
			n.Kids = append(n.Kids, leaf(keys[at:end]))
		}
		at = end
	}
	return n
}

// c09ConcatShape: how the concatenations of a forest are nested and where their empty leaves lie
// ("multi-in-multi", "empty-leaf-in-inner-multi"): coverage buckets.
func c09ConcatShape(t []c09Node, inMulti int, cs *c09Case, shape map[string]bool) {
	for i := range t {
		n := &t[i]
		switch {
		case n.Op == "multi":
			if inMulti > 0 {
				shape["multi-in-multi"] = true
			}
			c09ConcatShape(n.Kids, inMulti+1, cs, shape)
		case n.Op == "leaf":
			if len(cs.Inputs[n.Leaf]) == 0 && inMulti > 0 {
				pos := "middle"
				if i == 0 {
					pos = "first"
				} else if i == len(t)-1 {
					pos = "last"
				}
				if inMulti > 1 {
					shape["empty-"+pos+"-in-inner-multi"] = true
				} else {
					shape["empty-"+pos+"-in-multi"] = true
				}
			}
		default:
			c09ConcatShape(n.Kids, 0, cs, shape)
		}
	}
}

func c09ForestBucket(cs *c09Case) string {
	b := fmt.Sprintf("nested/depth=%d", c09TreeDepth(cs.Tree))
	if cs.Dedupe {
		b += "+dedupe"
	}
	return b
}

// c09GoPlanTop observes the plan of the root merge of a nested case in terms of its inputs: every
// element of rowGroupSegments as parts (input, offset, rows).  An input that is a single non-empty
// leaf (as it is, converted, or handed back by an inner merge) or a concatenation of leaves (multi nodes
// only, nested or not, converted or not) has a fixed row sequence, the concatenation of its leaves: its
// rows in an element must be an ascending contiguous range of it.  For the other inputs (computed rows; the order of
// their rows with equal keys is not fixed) the rows are counted, the offset is 0.
func c09GoPlanTop(s *c09Schema, merged parquet.RowGroup, cs *c09Case, top []*c09Built) (plan [][]c09Part, bad, err string) {
	topOf := make([]int, len(cs.Inputs))
	base := make([]int, len(cs.Inputs)) // rows of the leaves of the same input of the root that come before this leaf
	fixed := make([]bool, len(top))
	for i, b := range top {
		nonEmpty := 0
		rowsBefore := 0
		var mark func(n *c09Node)
		mark = func(n *c09Node) {
			if n.Op == "leaf" {
				topOf[n.Leaf] = i
				base[n.Leaf] = rowsBefore
				rowsBefore += len(cs.Inputs[n.Leaf])
				if len(cs.Inputs[n.Leaf]) > 0 {
					nonEmpty++
				}
			}
			for k := range n.Kids {
				mark(&n.Kids[k])
			}
		}
		mark(b.node)
		ops := map[string]bool{}
		c09TreeOps([]c09Node{*b.node}, ops)
		// a single non-empty leaf, or concatenations (and conversions) of leaves only: the row sequence
		// of the input is the concatenation of its leaves
		fixed[i] = !ops["dedupe"] && (nonEmpty <= 1 || !ops["merge"])
	}
	segs, isSeg, e := c09PlanSegments(merged)
	if e != "" {
		return nil, "", e
	}
	if !isSeg {
		segs = []parquet.RowGroup{merged}
	}
	for n, seg := range segs {
		rr := seg.Rows()
		out, _, f := c09ReadAll(s, rr, []int{97})
		rr.Close()
		if f != "" {
			return nil, "", fmt.Sprintf("reading element %d of the plan (%T): %s", n, seg, f)
		}
		at := map[int]int{}
		var parts []c09Part
		for p, o := range c09Flat(out) {
			if o.Bad != "" || o.In < 0 || o.In >= len(topOf) {
				return nil, fmt.Sprintf("element %d of the plan (%T): row %d: %s", n, seg, p, o.Bad), ""
			}
			t := topOf[o.In]
			i, seen := at[t]
			if !seen {
				at[t] = len(parts)
				off := 0
				if fixed[t] {
					off = base[o.In] + o.Seq
				}
				parts = append(parts, c09Part{In: t, Off: off, Len: 1})
				continue
			}
			if want := parts[i].Off + parts[i].Len; fixed[t] && base[o.In]+o.Seq != want {
				return nil, fmt.Sprintf("element %d of the plan (%T): row %d is row %d of input %d (leaf %d), after rows %d..%d of it", n, seg, p, o.Seq, t, o.In, parts[i].Off, want-1), ""
			}
			parts[i].Len++
		}
		sort.Slice(parts, func(a, b int) bool { return parts[a].In < parts[b].In })
		if len(parts) > 0 {
			plan = append(plan, parts)
		}
	}
	return plan, "", ""
}
