// C13, consumers: the corruption error of a page loader has to survive every
// public routine that consumes the pages or the rows of the file on behalf of
// the caller — copies (CopyPages, CopyRows, CopyValues), the writers fed from
// a file row group (Writer.WriteRowGroup on each of its three paths,
// ReadRowsFrom, SortingWriter, Buffer.WriteRowGroup), the views
// (MultiRowGroup, MergeRowGroups, ConvertRowGroup, AsyncRowGroup, the row
// reader wrappers), the readers (Reader row at a time and in batches,
// GenericReader over a row group, Read, ReadFile) and the printers.
//
// A consumer is run on the unmodified file (its clean result) and on the file
// with one fault in one page body.  Predicate: the consuming call returns an
// error for which errors.Is(err, ErrCorrupted) holds (AES-GCM authentication
// error for encrypted files) and whatever it handed to its destination before
// is a prefix of the clean result; a consumer that splices the stored bytes
// without decoding them (the verbatim path of WriteRowGroup) may return nil,
// then a reader of ITS OUTPUT has to meet the same corruption error: the
// stored checksum travelled with the body.  A consumer that projects columns
// away returns identical data when the page belongs to a column it does not
// read.  The verdict is compared with the model (c13.consumer), and the path
// WriteRowGroup takes (observed through the verif hooks) with c13.wrgpath.
//
// After a writer's consuming call failed, the writer is used further (more
// rows, Close): when every later call returns nil the output must hold
// exactly the rows the failed call reported as written followed by the later
// rows.
package main

import (
	"bytes"
	"errors"
	"fmt"
	"io"
	"os"
	"path/filepath"
	"sort"
	"strings"
	"time"

	"github.com/parquet-go/parquet-go"

	"verif/harness/core"
)

// c13Use is one application of a consumer.
type c13Use struct {
	h     *c13File
	f     *parquet.File
	pg    *c13Page
	limit int
	clean *c13Read // nil while the clean result is being computed
}

func (x *c13Use) rowGroup() parquet.RowGroup    { return x.f.RowGroups()[x.pg.RG] }
func (x *c13Use) chunk() parquet.ColumnChunk    { return x.rowGroup().ColumnChunks()[x.pg.Col] }
func (x *c13Use) rowGroups() []parquet.RowGroup { return x.f.RowGroups() }

// at least two row groups: those of the file, or the row group of the page twice
func (x *c13Use) several() []parquet.RowGroup {
	if rgs := x.f.RowGroups(); len(rgs) > 1 {
		return rgs
	}
	return []parquet.RowGroup{x.rowGroup(), x.rowGroup()}
}

type c13Consumer struct {
	Name string
	// Unit: what is consumed: "chunk" the column chunk of the page, "rg" its row group, "file" every row group,
	// "page" the row group in a way that depends on the page
	Unit string
	// Kind: consumer kind of the model: decode | verbatim (as configured; the observed WriteRowGroup path decides)
	Kind  string
	NoEnc bool  // takes no file options: encrypted files are out of its reach
	Other bool  // reads another column chunk of the row group, not the one of the page
	Proj  []int // leaf columns read (nil: all of them)
	// Wrg: the consumer is a Writer.WriteRowGroup; same configuration / chunk-transparent source
	Wrg         bool
	Same, Plain bool
	Sorted      int // needs a file with declared sorting columns (1: any, 2: non-overlapping row groups)
	Groups      int // needs a file of at least so many row groups
	Run         func(x *c13Use) c13Read
}

var errC13TooMany = errors.New("c13: more data than the source holds")

// ---- destinations

type c13PageSink struct {
	out   *c13Read
	limit int
}

func (s c13PageSink) WritePage(p parquet.Page) (int64, error) {
	before := len(s.out.vals)
	err := c13ReadPageValues(s.out, p, s.limit)
	return int64(len(s.out.vals) - before), err
}

type c13RowSink struct {
	out   *c13Read
	limit int
}

func (s c13RowSink) WriteRows(rows []parquet.Row) (int, error) {
	for _, r := range rows {
		for _, v := range r {
			s.out.vals = append(s.out.vals, v.Clone())
		}
		s.out.vals = append(s.out.vals, parquet.Value{})
	}
	if len(s.out.vals) > s.limit {
		return 0, errC13TooMany
	}
	return len(rows), nil
}

type c13RowSinkSchema struct {
	c13RowSink
	schema *parquet.Schema
}

func (s c13RowSinkSchema) Schema() *parquet.Schema { return s.schema }

type c13ValueSink struct {
	out   *c13Read
	limit int
}

func (s c13ValueSink) WriteValues(vs []parquet.Value) (int, error) {
	for _, v := range vs {
		s.out.vals = append(s.out.vals, v.Clone())
	}
	if len(s.out.vals) > s.limit {
		return 0, errC13TooMany
	}
	return len(vs), nil
}

// c13DrainRows reads a row reader to its end, batch rows per call.
func c13DrainRows(out *c13Read, rr parquet.RowReader, limit, batch int) error {
	buf := make([]parquet.Row, batch)
	sink := c13RowSink{out, limit}
	for {
		n, err := rr.ReadRows(buf)
		if n > 0 {
			if _, werr := sink.WriteRows(buf[:n]); werr != nil {
				return werr
			}
		}
		if err == io.EOF {
			return nil
		}
		if err != nil {
			return err
		}
		if n == 0 {
			return errors.New("c13: ReadRows returned 0, nil")
		}
	}
}

func c13DrainPages(out *c13Read, pages parquet.PageReader, limit int) error {
	for {
		page, err := pages.ReadPage()
		if err == io.EOF {
			return nil
		}
		if err != nil {
			return err
		}
		err = c13ReadPageValues(out, page, limit)
		parquet.Release(page)
		if err != nil {
			return err
		}
	}
}

func c13DrainGeneric(out *c13Read, r *parquet.GenericReader[c13Row], limit, batch int) error {
	for {
		buf := make([]c13Row, batch)
		n, err := r.Read(buf)
		out.rows = append(out.rows, buf[:n]...)
		if len(out.rows) > limit {
			return errC13TooMany
		}
		if err == io.EOF {
			return nil
		}
		if err != nil {
			return err
		}
		if n == 0 {
			return errors.New("c13: Read returned 0, nil")
		}
	}
}

// c13ReadBack reads a file the consumer produced.
func c13ReadBack(data []byte, limit int) ([]c13Row, error) {
	f, err := parquet.OpenFile(bytes.NewReader(data), int64(len(data)))
	if err != nil {
		return nil, fmt.Errorf("OpenFile of the output: %w", err)
	}
	r := parquet.NewGenericReader[c13Row](f)
	defer r.Close()
	var out c13Read
	err = c13DrainGeneric(&out, r, limit, 64)
	return out.rows, err
}

// ---- writers

var c13Extra = func() []c13Row {
	s := "later"
	return []c13Row{{A: -101, D: "extra", H: "after the failure", K: 7}, {A: -102, E: &s, C: []int64{1, 2}, G: 5}, {A: -103, J: true, I: 2.5}}
}()

func (x *c13Use) writerOptions(same bool) []parquet.WriterOption {
	cfg := x.h.cfg
	codec := cfg.Codec
	if !same {
		codec = "snappy"
		if cfg.Codec == "snappy" {
			codec = "none"
		}
	}
	return []parquet.WriterOption{
		parquet.DataPageVersion(cfg.Version),
		parquet.Compression(c13Codec(codec)),
		parquet.PageBufferSize(cfg.PageBuf),
	}
}

// writer runs a consumer whose destination is a writer of a new file.
func (x *c13Use) writer(opts []parquet.WriterOption, feed func(w *parquet.GenericWriter[c13Row]) (int64, error)) (out c13Read) {
	var buf bytes.Buffer
	w := parquet.NewGenericWriter[c13Row](&buf, opts...)
	c0, r0 := parquet.VerifCopyPathCount(), parquet.VerifReencodePathCount()
	n, err := feed(w)
	out.count = n
	switch {
	case parquet.VerifCopyPathCount() > c0:
		out.wpath = "verbatim"
	case parquet.VerifReencodePathCount() > r0:
		out.wpath = "reencode"
	default:
		out.wpath = "rows"
	}
	if err != nil {
		out.err = err
		if x.clean != nil {
			out.after = x.afterFailure(w, &buf, n)
		}
		return
	}
	if err := w.Close(); err != nil {
		out.err = fmt.Errorf("Close: %w", err)
		return
	}
	out.rows, out.err = c13ReadBack(buf.Bytes(), x.limit)
	out.via = "output"
	return
}

// afterFailure uses the writer after its consuming call failed.
func (x *c13Use) afterFailure(w *parquet.GenericWriter[c13Row], buf *bytes.Buffer, n int64) string {
	if n < 0 || n > int64(len(x.clean.rows)) {
		return fmt.Sprintf("the failed call reported %d rows written, the source holds %d", n, len(x.clean.rows))
	}
	if _, err := w.Write(c13Extra); err != nil {
		return ""
	}
	if err := w.Close(); err != nil {
		return ""
	}
	got, err := c13ReadBack(buf.Bytes(), len(x.clean.rows)+len(c13Extra)+c13MaxExtra)
	want := append(append([]c13Row(nil), x.clean.rows[:n]...), c13Extra...)
	if err != nil {
		return fmt.Sprintf("the failed call reported %d rows written; Write of %d more rows and Close returned nil; reading the output: %d rows, then %v", n, len(c13Extra), len(got), err)
	}
	if !c13RowsEqual(got, want) {
		return fmt.Sprintf("the failed call reported %d rows written; Write of %d more rows and Close returned nil; the output holds %d rows which are not those %d followed by the later ones (first difference at row %d)",
			n, len(c13Extra), len(got), n, c13FirstDiff(got, want))
	}
	return ""
}

func c13FirstDiff(a, b []c13Row) int {
	for i := range a {
		if i >= len(b) || !c13RowsEqual(a[i:i+1], b[i:i+1]) {
			return i
		}
	}
	return len(a)
}

// c13Opaque hides the concrete type of a row group: a row group implementation
// of the application, whose rows the library can only obtain through Rows().
type c13Opaque struct{ base parquet.RowGroup }

func (o c13Opaque) NumRows() int64                          { return o.base.NumRows() }
func (o c13Opaque) ColumnChunks() []parquet.ColumnChunk     { return o.base.ColumnChunks() }
func (o c13Opaque) Schema() *parquet.Schema                 { return o.base.Schema() }
func (o c13Opaque) SortingColumns() []parquet.SortingColumn { return o.base.SortingColumns() }
func (o c13Opaque) Rows() parquet.Rows                      { return o.base.Rows() }

// ---- the consumers

type c13Sub struct {
	A int64   `parquet:"a"`
	D string  `parquet:"d,dict"`
	C []int64 `parquet:"c"`
}

// leaf columns of c13Row read by c13Sub
var c13SubCols = []int{0, 2, 3}

func c13WiderSchema() *parquet.Schema {
	type wider struct {
		c13Row
		Z *int64 `parquet:"z,optional"`
	}
	return parquet.SchemaOf(wider{})
}

func c13RowsToVals(out *c13Read, rows []c13Sub) {
	for _, r := range rows {
		out.vals = append(out.vals, parquet.Int64Value(r.A), parquet.ByteArrayValue([]byte(r.D)))
		for _, v := range r.C {
			out.vals = append(out.vals, parquet.Int64Value(v))
		}
		out.vals = append(out.vals, parquet.Value{})
	}
}

var c13TmpDir string

func c13Consumers() []c13Consumer {
	rowsOf := func(name, unit string, view func(x *c13Use) (parquet.RowReader, func(), error)) c13Consumer {
		return c13Consumer{Name: name, Unit: unit, Kind: "decode", Run: func(x *c13Use) (out c13Read) {
			rr, done, err := view(x)
			if err != nil {
				out.err = err
				return
			}
			if done != nil {
				defer done()
			}
			out.err = c13DrainRows(&out, rr, x.limit, 29)
			return
		}}
	}
	closer := func(r io.Closer) func() { return func() { r.Close() } }
	cs := []c13Consumer{
		{Name: "CopyPages", Unit: "chunk", Kind: "decode", Run: func(x *c13Use) (out c13Read) {
			pages := x.chunk().Pages()
			defer pages.Close()
			out.count, out.err = parquet.CopyPages(c13PageSink{&out, x.limit}, pages)
			if out.err == nil && out.count != int64(len(out.vals)) {
				out.err = fmt.Errorf("c13: CopyPages reports %d values, the destination took %d", out.count, len(out.vals))
			}
			return
		}},
		{Name: "CopyPages(another column)", Unit: "chunk", Kind: "decode", Other: true, Run: func(x *c13Use) (out c13Read) {
			chunks := x.rowGroup().ColumnChunks()
			pages := chunks[(x.pg.Col+1)%len(chunks)].Pages()
			defer pages.Close()
			out.count, out.err = parquet.CopyPages(c13PageSink{&out, x.limit}, pages)
			return
		}},
		{Name: "CopyPages(AsyncPages)", Unit: "chunk", Kind: "decode", Run: func(x *c13Use) (out c13Read) {
			pages := parquet.AsyncPages(x.chunk().Pages())
			defer pages.Close()
			out.count, out.err = parquet.CopyPages(c13PageSink{&out, x.limit}, pages)
			return
		}},
		{Name: "CopyValues", Unit: "chunk", Kind: "decode", Run: func(x *c13Use) (out c13Read) {
			vr := parquet.NewColumnChunkValueReader(x.chunk())
			defer vr.Close()
			out.count, out.err = parquet.CopyValues(c13ValueSink{&out, x.limit}, vr)
			if out.err == nil && out.count != int64(len(out.vals)) {
				out.err = fmt.Errorf("c13: CopyValues reports %d values, the destination took %d", out.count, len(out.vals))
			}
			return
		}},
		{Name: "PrintColumnChunk", Unit: "chunk", Kind: "decode", Run: func(x *c13Use) (out c13Read) {
			var sb strings.Builder
			out.err = parquet.PrintColumnChunk(&sb, x.chunk())
			if out.err == nil {
				out.vals = []parquet.Value{parquet.ByteArrayValue([]byte(sb.String()))}
			}
			return
		}},
		{Name: "CopyRows", Unit: "rg", Kind: "decode", Run: func(x *c13Use) (out c13Read) {
			rows := x.rowGroup().Rows()
			defer rows.Close()
			out.count, out.err = parquet.CopyRows(c13RowSink{&out, x.limit}, rows)
			return
		}},
		{Name: "CopyRows(converting)", Unit: "rg", Kind: "decode", Run: func(x *c13Use) (out c13Read) {
			rows := x.rowGroup().Rows()
			defer rows.Close()
			out.count, out.err = parquet.CopyRows(c13RowSinkSchema{c13RowSink{&out, x.limit}, c13WiderSchema()}, rows)
			return
		}},
		{Name: "CopyRows(Buffer)", Unit: "rg", Kind: "decode", Run: func(x *c13Use) (out c13Read) {
			b := parquet.NewBuffer(x.f.Schema())
			rows := x.rowGroup().Rows()
			defer rows.Close()
			out.count, out.err = parquet.CopyRows(b, rows)
			br := b.Rows()
			defer br.Close()
			if err := c13DrainRows(&out, br, x.limit, 31); err != nil && out.err == nil {
				out.err = fmt.Errorf("c13: reading the buffer: %w", err)
			}
			return
		}},
		{Name: "Buffer.WriteRowGroup", Unit: "rg", Kind: "decode", Run: func(x *c13Use) (out c13Read) {
			b := parquet.NewBuffer(x.f.Schema())
			out.count, out.err = b.WriteRowGroup(x.rowGroup())
			br := b.Rows()
			defer br.Close()
			if err := c13DrainRows(&out, br, x.limit, 31); err != nil && out.err == nil {
				out.err = fmt.Errorf("c13: reading the buffer: %w", err)
			}
			return
		}},
		{Name: "WriteRowGroup(same configuration)", Unit: "rg", Kind: "verbatim", Wrg: true, Same: true, Plain: true, Run: func(x *c13Use) c13Read {
			return x.writer(x.writerOptions(true), func(w *parquet.GenericWriter[c13Row]) (int64, error) { return w.WriteRowGroup(x.rowGroup()) })
		}},
		{Name: "WriteRowGroup(other codec)", Unit: "rg", Kind: "decode", Wrg: true, Plain: true, Run: func(x *c13Use) c13Read {
			return x.writer(x.writerOptions(false), func(w *parquet.GenericWriter[c13Row]) (int64, error) { return w.WriteRowGroup(x.rowGroup()) })
		}},
		{Name: "WriteRowGroup(application row group)", Unit: "rg", Kind: "decode", Wrg: true, Same: true, Run: func(x *c13Use) c13Read {
			return x.writer(x.writerOptions(true), func(w *parquet.GenericWriter[c13Row]) (int64, error) {
				return w.WriteRowGroup(c13Opaque{x.rowGroup()})
			})
		}},
		{Name: "WriteRowGroup(smaller row groups)", Unit: "rg", Kind: "decode", Wrg: true, Same: true, Plain: true, Run: func(x *c13Use) c13Read {
			opts := append(x.writerOptions(true), parquet.MaxRowsPerRowGroup(37))
			return x.writer(opts, func(w *parquet.GenericWriter[c13Row]) (int64, error) { return w.WriteRowGroup(x.rowGroup()) })
		}},
		{Name: "WriteRowGroup(MultiRowGroup)", Unit: "file", Kind: "decode", Run: func(x *c13Use) c13Read {
			return x.writer(x.writerOptions(false), func(w *parquet.GenericWriter[c13Row]) (int64, error) {
				return w.WriteRowGroup(parquet.MultiRowGroup(x.several()...))
			})
		}},
		{Name: "WriteRowGroup(MergeRowGroups sorted)", Unit: "file", Kind: "decode", Sorted: 1, Run: func(x *c13Use) c13Read {
			return x.writer(x.writerOptions(false), func(w *parquet.GenericWriter[c13Row]) (int64, error) {
				m, err := parquet.MergeRowGroups(x.rowGroups(), parquet.SortingRowGroupConfig(parquet.SortingColumns(parquet.Ascending("a"))))
				if err != nil {
					return 0, fmt.Errorf("c13: MergeRowGroups: %v", err)
				}
				return w.WriteRowGroup(m)
			})
		}},
		{Name: "ReadRowsFrom", Unit: "rg", Kind: "decode", Run: func(x *c13Use) c13Read {
			return x.writer(x.writerOptions(true), func(w *parquet.GenericWriter[c13Row]) (int64, error) {
				rows := x.rowGroup().Rows()
				defer rows.Close()
				return w.ReadRowsFrom(rows)
			})
		}},
		{Name: "CopyRows(Writer)", Unit: "file", Kind: "decode", Run: func(x *c13Use) (out c13Read) {
			var buf bytes.Buffer
			w := parquet.NewWriter(&buf, append(x.writerOptions(false), x.f.Schema())...)
			r := parquet.NewReader(x.f)
			defer r.Close()
			out.count, out.err = parquet.CopyRows(w, r)
			if out.err != nil {
				return
			}
			if err := w.Close(); err != nil {
				out.err = fmt.Errorf("Close: %w", err)
				return
			}
			out.rows, out.err = c13ReadBack(buf.Bytes(), x.limit)
			out.via = "output"
			return
		}},
		{Name: "SortingWriter", Unit: "rg", Kind: "decode", Run: func(x *c13Use) (out c13Read) {
			var buf bytes.Buffer
			opts := append(x.writerOptions(true), parquet.SortingWriterConfig(parquet.SortingColumns(parquet.Ascending("a"))))
			w := parquet.NewSortingWriter[c13Row](&buf, 64, opts...)
			rows := x.rowGroup().Rows()
			defer rows.Close()
			out.count, out.err = parquet.CopyRows(w, rows)
			if out.err != nil {
				return
			}
			if err := w.Close(); err != nil {
				out.err = fmt.Errorf("Close: %w", err)
				return
			}
			out.rows, out.err = c13ReadBack(buf.Bytes(), x.limit)
			out.via = "output"
			return
		}},
		rowsOf("MultiRowGroup.Rows", "file", func(x *c13Use) (parquet.RowReader, func(), error) {
			rows := parquet.MultiRowGroup(x.several()...).Rows()
			return rows, closer(rows), nil
		}),
		rowsOf("MergeRowGroups.Rows", "file", func(x *c13Use) (parquet.RowReader, func(), error) {
			m, err := parquet.MergeRowGroups(x.several())
			if err != nil {
				return nil, nil, fmt.Errorf("c13: MergeRowGroups: %v", err)
			}
			rows := m.Rows()
			return rows, closer(rows), nil
		}),
		rowsOf("ConvertRowGroup.Rows", "rg", func(x *c13Use) (parquet.RowReader, func(), error) {
			conv, err := parquet.Convert(c13WiderSchema(), x.f.Schema())
			if err != nil {
				return nil, nil, fmt.Errorf("c13: Convert: %v", err)
			}
			rows := parquet.ConvertRowGroup(x.rowGroup(), conv).Rows()
			return rows, closer(rows), nil
		}),
		rowsOf("AsyncRowGroup.Rows", "rg", func(x *c13Use) (parquet.RowReader, func(), error) {
			rows := parquet.AsyncRowGroup(x.rowGroup()).Rows()
			return rows, closer(rows), nil
		}),
		rowsOf("NewRowGroupRowReader", "rg", func(x *c13Use) (parquet.RowReader, func(), error) {
			rows := parquet.NewRowGroupRowReader(x.rowGroup())
			return rows, closer(rows), nil
		}),
		rowsOf("NewColumnChunkRowReader", "rg", func(x *c13Use) (parquet.RowReader, func(), error) {
			rows := parquet.NewColumnChunkRowReader(x.rowGroup().ColumnChunks())
			return rows, closer(rows), nil
		}),
		rowsOf("FilterRowReader", "rg", func(x *c13Use) (parquet.RowReader, func(), error) {
			rows := x.rowGroup().Rows()
			return parquet.FilterRowReader(rows, func(parquet.Row) bool { return true }), closer(rows), nil
		}),
		rowsOf("TransformRowReader", "rg", func(x *c13Use) (parquet.RowReader, func(), error) {
			rows := x.rowGroup().Rows()
			return parquet.TransformRowReader(rows, func(dst, src parquet.Row) (parquet.Row, error) { return append(dst, src...), nil }), closer(rows), nil
		}),
		rowsOf("DedupeRowReader", "rg", func(x *c13Use) (parquet.RowReader, func(), error) {
			rows := x.rowGroup().Rows()
			return parquet.DedupeRowReader(rows, func(a, b parquet.Row) int { return 1 }), closer(rows), nil
		}),
		rowsOf("ScanRowReader", "rg", func(x *c13Use) (parquet.RowReader, func(), error) {
			rows := x.rowGroup().Rows()
			return parquet.ScanRowReader(rows, func(parquet.Row, int64) bool { return true }), closer(rows), nil
		}),
		rowsOf("MergeRowReaders", "file", func(x *c13Use) (parquet.RowReader, func(), error) {
			var rrs []parquet.RowReader
			var all []parquet.Rows
			for _, rg := range x.several() {
				r := rg.Rows()
				all = append(all, r)
				rrs = append(rrs, r)
			}
			cmp := x.f.Schema().Comparator(parquet.Ascending("a"))
			return parquet.MergeRowReaders(rrs, cmp), func() {
				for _, r := range all {
					r.Close()
				}
			}, nil
		}),
		rowsOf("Reader.ReadRows", "file", func(x *c13Use) (parquet.RowReader, func(), error) {
			r := parquet.NewReader(x.f)
			return r, closer(r), nil
		}),
		{Name: "MergeRowGroups(sorted).Rows", Unit: "file", Kind: "decode", Sorted: 1, Run: func(x *c13Use) (out c13Read) {
			m, err := parquet.MergeRowGroups(x.rowGroups(), parquet.SortingRowGroupConfig(parquet.SortingColumns(parquet.Ascending("a"))))
			if err != nil {
				out.err = fmt.Errorf("c13: MergeRowGroups: %v", err)
				return
			}
			rows := m.Rows()
			defer rows.Close()
			out.err = c13DrainRows(&out, rows, x.limit, 29)
			return
		}},
		{Name: "Reader.Read", Unit: "file", Kind: "decode", Run: func(x *c13Use) (out c13Read) {
			r := parquet.NewReader(x.f)
			defer r.Close()
			for {
				var row c13Row
				err := r.Read(&row)
				if err == io.EOF {
					return
				}
				if err != nil {
					out.err = err
					return
				}
				out.rows = append(out.rows, row)
				if len(out.rows) > x.limit {
					out.err = errC13TooMany
					return
				}
			}
		}},
		{Name: "Reader.Read(row group)", Unit: "rg", Kind: "decode", Run: func(x *c13Use) (out c13Read) {
			r := parquet.NewRowGroupReader(x.rowGroup())
			defer r.Close()
			for {
				var row c13Row
				err := r.Read(&row)
				if err == io.EOF {
					return
				}
				if err != nil {
					out.err = err
					return
				}
				out.rows = append(out.rows, row)
				if len(out.rows) > x.limit {
					out.err = errC13TooMany
					return
				}
			}
		}},
		{Name: "Reader.Read(projection)", Unit: "file", Kind: "decode", Proj: c13SubCols, Run: func(x *c13Use) (out c13Read) {
			r := parquet.NewReader(x.f)
			defer r.Close()
			for {
				var row c13Sub
				err := r.Read(&row)
				if err == io.EOF {
					return
				}
				if err != nil {
					out.err = err
					return
				}
				c13RowsToVals(&out, []c13Sub{row})
				if len(out.vals) > x.limit {
					out.err = errC13TooMany
					return
				}
			}
		}},
		{Name: "GenericReader(projection)", Unit: "file", Kind: "decode", Proj: c13SubCols, Run: func(x *c13Use) (out c13Read) {
			r := parquet.NewGenericReader[c13Sub](x.f)
			defer r.Close()
			for {
				buf := make([]c13Sub, 40)
				n, err := r.Read(buf)
				c13RowsToVals(&out, buf[:n])
				if len(out.vals) > x.limit {
					out.err = errC13TooMany
					return
				}
				if err == io.EOF {
					return
				}
				if err != nil {
					out.err = err
					return
				}
				if n == 0 {
					out.err = errors.New("c13: Read returned 0, nil")
					return
				}
			}
		}},
		{Name: "GenericReader(row group)", Unit: "rg", Kind: "decode", Run: func(x *c13Use) (out c13Read) {
			r := parquet.NewGenericRowGroupReader[c13Row](x.rowGroup())
			defer r.Close()
			out.err = c13DrainGeneric(&out, r, x.limit, 1)
			return
		}},
		{Name: "Read", Unit: "file", Kind: "decode", NoEnc: true, Run: func(x *c13Use) (out c13Read) {
			out.rows, out.err = parquet.Read[c13Row](bytes.NewReader(x.h.data), int64(len(x.h.data)))
			return
		}},
		{Name: "ReadFile", Unit: "file", Kind: "decode", NoEnc: true, Run: func(x *c13Use) (out c13Read) {
			if c13TmpDir == "" {
				d, err := os.MkdirTemp("", "c13-")
				if err != nil {
					out.err = err
					return
				}
				c13TmpDir = d
			}
			path := filepath.Join(c13TmpDir, "file.parquet")
			if err := os.WriteFile(path, x.h.data, 0o600); err != nil {
				out.err = err
				return
			}
			out.rows, out.err = parquet.ReadFile[c13Row](path)
			return
		}},
		{Name: "PrintRowGroup", Unit: "rg", Kind: "decode", Run: func(x *c13Use) (out c13Read) {
			var sb strings.Builder
			out.err = parquet.PrintRowGroup(&sb, x.rowGroup())
			if out.err == nil {
				out.vals = []parquet.Value{parquet.ByteArrayValue([]byte(sb.String()))}
			}
			return
		}},
	}
	// merges of k inputs, the row group of the page being input number p: every
	// input of a 2-, 3- and 4-way merge holds the fault in turn (the merge of two
	// readers is a routine of its own, merge.go mergedRowReader2; three and more go
	// through the loser tree), the other inputs are the following row groups of the
	// file.  Pages behind the first rows of the input are met when the merge refills
	// the buffer of that input, not when it is set up.
	for k := 2; k <= 4; k++ {
		for p := 0; p < k; p++ {
			k, p := k, p
			cs = append(cs, c13Consumer{Name: fmt.Sprintf("MergeRowGroups(%d inputs, page in input %d).Rows", k, p), Unit: "rg", Kind: "decode", Sorted: 1, Groups: k,
				Run: func(x *c13Use) (out c13Read) {
					m, err := parquet.MergeRowGroups(x.inputs(k, p), parquet.SortingRowGroupConfig(parquet.SortingColumns(parquet.Ascending("a"))))
					if err != nil {
						out.err = fmt.Errorf("c13: MergeRowGroups: %v", err)
						return
					}
					rows := m.Rows()
					defer rows.Close()
					out.err = c13DrainRows(&out, rows, x.limit, 29)
					return
				}})
			cs = append(cs, c13Consumer{Name: fmt.Sprintf("MergeRowReaders(%d inputs, page in input %d)", k, p), Unit: "rg", Kind: "decode", Groups: k,
				Run: func(x *c13Use) (out c13Read) {
					var rrs []parquet.RowReader
					for _, rg := range x.inputs(k, p) {
						r := rg.Rows()
						defer r.Close()
						rrs = append(rrs, r)
					}
					cmp := x.f.Schema().Comparator(parquet.Ascending("a"))
					out.err = c13DrainRows(&out, parquet.MergeRowReaders(rrs, cmp), x.limit, 29)
					return
				}})
		}
	}
	return cs
}

// inputs: k distinct row groups of the file, the row group of the page at position p.
func (x *c13Use) inputs(k, p int) []parquet.RowGroup {
	rgs := x.f.RowGroups()
	out := make([]parquet.RowGroup, 0, k)
	for j := 1; len(out) < k; {
		if len(out) == p {
			out = append(out, x.rowGroup())
			continue
		}
		out = append(out, rgs[(x.pg.RG+j)%len(rgs)])
		j++
	}
	return out
}

var c13ConsumerList = c13Consumers()

// c13Times: time spent per consumer / reader (printed with C13_TIMES=1)
var c13Times = map[string]time.Duration{}

func c13ConsumerByName(n string) *c13Consumer {
	for i := range c13ConsumerList {
		if c13ConsumerList[i].Name == n {
			return &c13ConsumerList[i]
		}
	}
	for i := range c13VariantConsumerList {
		if c13VariantConsumerList[i].Name == n {
			return &c13VariantConsumerList[i]
		}
	}
	return nil
}

func (k *c13Consumer) applicable(h *c13File) bool {
	if k.NoEnc && h.cfg.Encrypted {
		return false
	}
	if k.Sorted > 0 && h.cfg.Sorted < k.Sorted {
		return false
	}
	if k.Groups > 0 && len(h.base)-1 < k.Groups {
		return false
	}
	return true
}

func (k *c13Consumer) reads(col int) bool {
	if k.Other {
		return false
	}
	if k.Proj == nil {
		return true
	}
	for _, c := range k.Proj {
		if c == col {
			return true
		}
	}
	return false
}

// c13GuardFn runs f with panics recovered and under the deadline.
func c13GuardFn(f func() c13Read) c13Read {
	done := make(chan c13Read, 1)
	go func() {
		var out c13Read
		defer func() {
			if r := recover(); r != nil {
				out = c13Read{panic: fmt.Sprint(r)}
			}
			done <- out
		}()
		out = f()
	}()
	t := time.NewTimer(c13Deadline)
	defer t.Stop()
	select {
	case out := <-done:
		return out
	case <-t.C:
		return c13Read{hang: true}
	}
}

func (h *c13File) consumerClean(k *c13Consumer, pg *c13Page) *c13Read {
	key := "consumer/" + k.Name
	switch k.Unit {
	case "chunk":
		key += fmt.Sprintf("/%d/%d", pg.RG, pg.Col)
	case "rg":
		key += fmt.Sprintf("/%d", pg.RG)
	case "page": // what is read depends on the page (windows laid along the pages of its column chunk)
		key += fmt.Sprintf("/%d/%d/%d", pg.RG, pg.Col, pg.Index)
	}
	if r, ok := h.clean[key]; ok {
		return r
	}
	r := c13GuardFn(func() c13Read {
		return k.Run(&c13Use{h: h, f: h.files["sync"], pg: pg, limit: 1 << 22})
	})
	h.clean[key] = &r
	return &r
}

// c13WrgPath: the path of Writer.WriteRowGroup according to the model.
func (h *c13File) c13WrgPath(c *core.Ctx, k *c13Consumer, rows int64) string {
	b := func(v bool) string {
		if v {
			return "1"
		}
		return "0"
	}
	fits := true
	if strings.Contains(k.Name, "smaller") {
		fits = rows <= 37
	}
	return c.Ask(fmt.Sprintf("c13.wrgpath %s %s %s %s", b(k.Same), b(h.cfg.Encrypted), b(k.Plain), b(fits)))
}

// c13CheckConsumer runs one consumer over one fault and evaluates the predicate.
func (h *c13File) c13CheckConsumer(c *core.Ctx, pg *c13Page, ft c13Fault, k *c13Consumer) string {
	rep := c13Replay{Config: h.cfg, Page: *pg, Fault: ft, Path: "consumer:" + k.Name}
	clean := h.consumerClean(k, pg)
	if clean.err != nil || clean.panic != "" || clean.hang {
		c.Violation("clean-file-rejected", fmt.Sprintf("consumer %s on the unmodified file: err=%v panic=%q hang=%v", k.Name, clean.err, clean.panic, clean.hang), rep)
		return "clean-file-rejected"
	}
	if k.Wrg && c.HasOracle() {
		if want := h.c13WrgPath(c, k, h.files["sync"].RowGroups()[pg.RG].NumRows()); want != clean.wpath {
			c.Mismatch("corr:C13.wrgpath", fmt.Sprintf("%s, file %+v", k.Name, h.cfg), clean.wpath, want, rep)
		}
	}
	body := h.data[pg.BodyOff : pg.BodyOff+int64(pg.BodyLen)]
	c13Apply(body, ft)
	limit := len(clean.vals) + len(clean.rows) + c13MaxExtra
	got := c13GuardFn(func() c13Read {
		return k.Run(&c13Use{h: h, f: h.files["sync"], pg: pg, limit: limit, clean: clean})
	})
	if got.hang {
		fresh := append([]byte(nil), h.data...)
		h.data = fresh
		body = h.data[pg.BodyOff : pg.BodyOff+int64(pg.BodyLen)]
		c13Apply(body, ft)
		if nh, err := c13Open(h.cfg, h.data); err == nil {
			h.files = nh.files
		}
	} else {
		c13Apply(body, ft)
	}
	class, detail := c13Classify(&got, clean)
	if got.via != "" && class == oCorrupted && clean.wpath != "verbatim" {
		// the consuming calls all returned nil and the file they produced is damaged
		class, detail = "corrupted-output", "every call of the consumer returned nil; reading its output: "+detail
	}
	enc := "0"
	if h.cfg.Encrypted {
		enc = "1"
	}
	dict := "0"
	if pg.HasDict {
		dict = "1"
	}
	// the path of a WriteRowGroup is the one it took on the unmodified file (the
	// counters of the hooks only move when the call succeeds)
	got.wpath = clean.wpath
	kind := "decode"
	if got.wpath == "verbatim" {
		kind = "verbatim"
	}
	if !k.reads(pg.Col) {
		kind = "projected-away"
	}
	want := c.Ask(fmt.Sprintf("c13.consumer 0 %s %s %s v%d %s", enc, dict, kind, h.cfg.Version, pg.Kind))
	what := fmt.Sprintf("%s page (row group %d, column %d, page %d, %s, v%d) body bit %d xor %s (%d bits), consumer %s",
		pg.Kind, pg.RG, pg.Col, pg.Index, h.cfg.Codec, h.cfg.Version, ft.Bit, ft.Mask, ft.Width, k.Name)
	if got.wpath != "" {
		what += " [" + got.wpath + " path]"
	}
	what += ": " + class + " " + core.Trunc(detail, 300)
	ok := true
	obs := "none"
	switch {
	case !k.reads(pg.Col) && !k.Other:
		// a projection: whether the columns left out are read all the same is the
		// library's choice (a file of several row groups is converted row by row);
		// the page is either not met or reported
		obs = want
		aead := h.cfg.Encrypted && class == oOther && strings.Contains(detail, "authentication failed")
		if class != oIdentical && class != oCorrupted && !aead {
			c.Violation(k.Name+":unprojected-page-"+class, what, rep)
			ok = false
		}
		if aead {
			class = "AES-GCM-authentication-error"
		}
	case !k.reads(pg.Col):
		obs = "skip"
		if class != oIdentical {
			c.Violation(k.Name+":untouched-page-"+class, what, rep)
			ok = false
		}
	case h.cfg.Encrypted:
		if class == oCorrupted || (class == oOther && strings.Contains(detail, "authentication failed")) {
			obs = "aead"
			class = "AES-GCM-authentication-error"
		} else {
			c.Violation(k.Name+":encrypted-"+class, what, rep)
			ok = false
		}
	default:
		if class == oCorrupted {
			obs = "crc"
			if got.via != "" {
				obs = "crc-in-output"
			}
		} else {
			c.Violation(k.Name+":"+class, what, rep)
			ok = false
		}
	}
	if ok && got.after != "" {
		c.Violation(k.Name+":writer-state-after-error", what+"; then "+got.after, rep)
		ok = false
	}
	if !ok {
		c13Bad++
	} else if c.HasOracle() && obs != want {
		c.Mismatch("corr:C13.consumer", fmt.Sprintf("consumer=%s kind=%s page=%s", k.Name, kind, pg.Kind), obs, want, rep)
	}
	return class
}

// c13PickPages: the pages the consumers are run on: of every column chunk the
// dictionary page, the first, one inner and the last data page.
func (h *c13File) c13PickPages(salt int) []*c13Page {
	var out []*c13Page
	i := 0
	for i < len(h.pages) {
		j := i
		for j < len(h.pages) && h.pages[j].RG == h.pages[i].RG && h.pages[j].Col == h.pages[i].Col {
			j++
		}
		chunk := h.pages[i:j]
		pick := map[int]bool{0: true, len(chunk) - 1: true}
		if chunk[0].Index < 0 && len(chunk) > 1 {
			pick[1] = true
		}
		if len(chunk) > 3 {
			pick[2+(salt+i)%(len(chunk)-3)] = true
		}
		var idx []int
		for k := range pick {
			idx = append(idx, k)
		}
		sort.Ints(idx)
		for _, k := range idx {
			if chunk[k].Stored != 0 {
				out = append(out, &chunk[k])
			}
		}
		i = j
	}
	return out
}

// c13ConsumerFault: one fault for a page, its position and width vary with n.
func c13ConsumerFault(c *core.Ctx, pg *c13Page, n int) (c13Fault, bool) {
	nbits := pg.BodyLen * 8
	if nbits == 0 {
		return c13Fault{}, false
	}
	switch n % 4 {
	case 0:
		return c13MakeFault(c.Rng.Intn(nbits), 1, c.Rng), true
	case 1:
		return c13MakeFault(nbits-1-c.Rng.Intn(min(nbits, 16)), 1, c.Rng), true
	case 2:
		return c13MakeFault(c.Rng.Intn(min(nbits, 16)), 1, c.Rng), true
	}
	w := 2 + c.Rng.Intn(31)
	if w > nbits {
		w = nbits
	}
	if w < 2 {
		return c13MakeFault(0, 1, c.Rng), true
	}
	return c13MakeFault(c.Rng.Intn(nbits-w+1), w, c.Rng), true
}

// c13RunConsumers: consumers and retry histories over the picked pages of one file.
func c13RunConsumers(c *core.Ctx, h *c13File, counts map[string]int) {
	cd := h.cfg.Codec
	if h.cfg.Encrypted {
		cd += "+aesgcm"
	}
	for n, pg := range h.c13PickPages(int(h.cfg.Seed)) {
		if c13Bad >= c13MaxBad {
			return
		}
		if c.Quick() && (n+int(h.cfg.Seed))%2 != 0 {
			continue // quick tier: every other picked page (the parity changes with the file)
		}
		ft, ok := c13ConsumerFault(c, pg, n)
		if !ok {
			continue
		}
		for ki := range c13ConsumerList {
			k := &c13ConsumerList[ki]
			if !k.applicable(h) {
				continue
			}
			if k.Name == "ReadFile" && c.Quick() && n%8 != 0 {
				continue // writes the file to a temporary directory: on fewer pages
			}
			t0 := time.Now()
			class := h.c13CheckConsumer(c, pg, ft, k)
			c13Times["consumer "+k.Name] += time.Since(t0)
			counts["consumer "+k.Name+":"+class]++
			c.Case(fmt.Sprintf("consumer/%s/%s", pg.Kind, cd), fmt.Sprintf("%+v|%d|%d|%d|%+v|%s", h.cfg, pg.RG, pg.Col, pg.Index, ft, k.Name), true)
		}
		for si := range c13Sessions {
			s := &c13Sessions[si]
			if s.NoEnc && h.cfg.Encrypted {
				continue
			}
			for hi, hist := range c13Histories {
				if c.Quick() && hi > 0 && (hi+n/2+si)%3 != 0 {
					continue // quick tier: the retry and two of the six seek histories, rotating
				}
				t0 := time.Now()
				class := h.c13CheckHistory(c, pg, ft, s, hist)
				c13Times["history "+s.Name] += time.Since(t0)
				if class == "" {
					continue
				}
				counts["history "+s.Name+"/"+hist+":"+class]++
				c.Case(fmt.Sprintf("history/%s/%s/%s", hist, pg.Kind, cd), fmt.Sprintf("%+v|%d|%d|%d|%+v|%s", h.cfg, pg.RG, pg.Col, pg.Index, ft, s.Name), true)
			}
		}
	}
}
