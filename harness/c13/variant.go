// C13, files with VARIANT columns and their readers.  A variant column is a
// group of leaf columns (metadata, value, typed_value...) that is read
//
//   - through the columnar reader (parquet.NewVariantReader): one page reader
//     per leaf column of the group, all advanced by Next(n) over a shared window
//     of rows.  A leaf reader learns that the last row of a window is complete
//     only from the slot that follows it, so a window that ends where a page of
//     the leaf ends makes it load the NEXT page while the rows it returns are
//     those of the page before: whether the corruption error of that load is
//     kept depends on where the windows end relative to the pages of each leaf
//     column.  The window plans therefore are: fixed sizes (1024, 7), one
//     window per page of the column chunk of the faulted page (the boundaries
//     of its offset index), one window that ends at the first row of the faulted
//     page followed by windows of 1024, and SeekToRow(first row of the page
//     before) followed by one window per page;
//   - through the row readers, which rebuild one value per row (the rows of the
//     row group, GenericReader into a struct with an `any` field).
//
// The file holds a shredded column "var" (object with an int64, a string, a
// boolean and a double field, a nested object and a list) whose rows leave the
// shredding schema in places (residual values), an unshredded column "raw" and
// a plain int32 column "id".  Predicate and model verdict are those of every
// other consumer (c13CheckConsumer): the corruption error, and before it a
// prefix of what the same calls deliver on the intact file; a reader of one
// variant column does not read the leaves of the other one (projected away).
package main

import (
	"bytes"
	"fmt"
	"io"
	"math/rand"
	"strings"
	"time"

	"github.com/parquet-go/parquet-go"
	"github.com/parquet-go/parquet-go/variant"

	"verif/harness/core"
)

type c13RawVariant struct {
	Metadata []byte `parquet:"metadata"`
	Value    []byte `parquet:"value"`
}

type c13VarRow struct {
	ID  int32 `parquet:"id"`
	Raw any   `parquet:"raw,variant"`
	Var any   `parquet:"var,variant"`
}

func c13VariantSchema() (*parquet.Schema, error) {
	shredded, err := parquet.ShreddedVariant(parquet.Group{
		"a": parquet.Int(64),
		"s": parquet.String(),
		"t": parquet.Leaf(parquet.BooleanType),
		"d": parquet.Leaf(parquet.DoubleType),
		"o": parquet.Group{"x": parquet.Int(64)},
		"l": parquet.List(parquet.Int(64)),
	})
	if err != nil {
		return nil, err
	}
	return parquet.NewSchema("table", parquet.Group{
		"id":  parquet.Int(32),
		"raw": parquet.Optional(parquet.Variant()),
		"var": parquet.Optional(shredded),
	}), nil
}

// c13VariantValue: the value of one row; fields mostly match the shredding
// schema, sometimes not (residual), sometimes are absent.
func c13VariantValue(rng *rand.Rand, i int) *variant.Value {
	if rng.Intn(9) == 0 {
		return nil
	}
	if rng.Intn(17) == 0 {
		v := variant.Int64(int64(i)) // not an object at all
		return &v
	}
	fields := []variant.Field{{Name: "a", Value: variant.Int64(int64(i)*7919 + int64(rng.Intn(5)))}}
	switch rng.Intn(4) {
	case 0:
		fields = append(fields, variant.Field{Name: "s", Value: variant.Int64(int64(rng.Intn(1000)))})
	case 1, 2:
		fields = append(fields, variant.Field{Name: "s", Value: variant.String(c13Vocab[rng.Intn(len(c13Vocab))] + fmt.Sprint(rng.Intn(50)))})
	}
	if rng.Intn(3) != 0 {
		fields = append(fields, variant.Field{Name: "t", Value: variant.Bool(rng.Intn(2) == 0)})
	}
	if rng.Intn(3) != 0 {
		fields = append(fields, variant.Field{Name: "d", Value: variant.Double(float64(rng.Intn(1<<16)) / 4)})
	}
	if rng.Intn(4) == 0 {
		fields = append(fields, variant.Field{Name: "o", Value: variant.Int64(-int64(i))})
	} else {
		fields = append(fields, variant.Field{Name: "o", Value: variant.MakeObject([]variant.Field{
			{Name: "x", Value: variant.Int64(int64(rng.Intn(1 << 30)))},
			{Name: "y", Value: variant.String(fmt.Sprintf("y%d", i))},
		})})
	}
	var elems []variant.Value
	for j := rng.Intn(4); j > 0; j-- {
		elems = append(elems, variant.Int64(int64(rng.Intn(100000))))
	}
	if len(elems) > 0 && rng.Intn(5) == 0 {
		elems[len(elems)-1] = variant.String(fmt.Sprintf("e%d", i))
	}
	fields = append(fields, variant.Field{Name: "l", Value: variant.MakeArray(elems)})
	fields = append(fields, variant.Field{Name: "u", Value: variant.String(fmt.Sprintf("u%d", rng.Intn(1000)))})
	v := variant.MakeObject(fields)
	return &v
}

func c13GenerateVariant(cfg c13Config) ([]byte, error) {
	schema, err := c13VariantSchema()
	if err != nil {
		return nil, err
	}
	rng := rand.New(rand.NewSource(cfg.Seed))
	enc := func(v *variant.Value) any {
		if v == nil {
			return nil
		}
		var mb variant.MetadataBuilder
		value := variant.Encode(&mb, *v)
		_, metadata := mb.Build()
		return c13RawVariant{Metadata: metadata, Value: value}
	}
	rows := make([]c13VarRow, cfg.Rows)
	for i := range rows {
		rows[i] = c13VarRow{ID: int32(i), Var: enc(c13VariantValue(rng, i)), Raw: enc(c13VariantValue(rng, i))}
	}
	var buf bytes.Buffer
	opts := []parquet.WriterOption{schema,
		parquet.DataPageVersion(cfg.Version),
		parquet.Compression(c13Codec(cfg.Codec)),
		parquet.PageBufferSize(cfg.PageBuf),
	}
	if cfg.GroupRows > 0 {
		opts = append(opts, parquet.MaxRowsPerRowGroup(cfg.GroupRows))
	}
	w := parquet.NewGenericWriter[c13VarRow](&buf, opts...)
	for i := 0; i < len(rows); {
		k := min(1+rng.Intn(40), len(rows)-i)
		if _, err := w.Write(rows[i : i+k]); err != nil {
			return nil, err
		}
		i += k
	}
	if err := w.Close(); err != nil {
		return nil, err
	}
	return buf.Bytes(), nil
}

// the cursors a columnar read holds: every position of the shredding schema
// and some below / beside it (navigated in the residual values)
var c13VarCursors = []struct {
	name string
	path []string
	elem bool
}{
	{"root", nil, false}, {"a", []string{"a"}, false}, {"s", []string{"s"}, false}, {"t", []string{"t"}, false}, {"d", []string{"d"}, false},
	{"o", []string{"o"}, false}, {"o.x", []string{"o", "x"}, false}, {"o.y", []string{"o", "y"}, false},
	{"l", []string{"l"}, false}, {"l[]", []string{"l"}, true}, {"u", []string{"u"}, false}, {"zz", []string{"zz"}, false},
}

// c13CursorState: the window state of a cursor as text.
func c13CursorState(sb *strings.Builder, cur *parquet.VariantCursor) {
	locs := cur.Locs()
	fmt.Fprintf(sb, "kind=%v locs=%v rows=%v typedrows=%v residuals=%d offsets=%v", cur.Kind(), locs, cur.Rows(), cur.TypedRows(), cur.ResidualCount(), cur.ListOffsets())
	if t := cur.LeafType(); t != nil {
		switch t.Kind() {
		case parquet.Boolean:
			fmt.Fprintf(sb, " bools=%v", cur.Booleans())
		case parquet.Int64:
			fmt.Fprintf(sb, " int64s=%v", cur.Int64s())
		case parquet.Int32:
			fmt.Fprintf(sb, " int32s=%v", cur.Int32s())
		case parquet.Double:
			fmt.Fprintf(sb, " doubles=%v", cur.Doubles())
		case parquet.ByteArray:
			slab, offs := cur.ByteArrays()
			for i := 0; i+1 < len(offs); i++ {
				fmt.Fprintf(sb, " %q", slab[offs[i]:offs[i+1]])
			}
		}
	}
	for i := range locs {
		v, ok, err := cur.Residual(i)
		switch {
		case err != nil:
			fmt.Fprintf(sb, " r%d=error(%v)", i, err)
		case ok:
			fmt.Fprintf(sb, " r%d=%v", i, v.GoValue())
		}
	}
}

// c13VarPlan: where the reader is positioned first (-1: nowhere) and the
// sizes of its windows (the last size is repeated to the end of the rows).
type c13VarPlan struct {
	seek    int64
	windows []int
}

// pageRows: the row counts of the data pages of the column chunk of pg, from page number `from` on.
func (h *c13File) pageRows(pg *c13Page, from int) []int {
	var out []int
	for i := range h.pages {
		q := &h.pages[i]
		if q.RG == pg.RG && q.Col == pg.Col && q.Index >= from && q.NumRows > 0 {
			out = append(out, int(q.NumRows))
		}
	}
	return out
}

func (h *c13File) varPlan(name string, pg *c13Page) c13VarPlan {
	switch name {
	case "7":
		return c13VarPlan{seek: -1, windows: []int{7}}
	case "one window per page of the column":
		return c13VarPlan{seek: -1, windows: append(h.pageRows(pg, 0), 1024)}
	case "a window up to the page":
		if pg.Index > 0 && pg.FirstRow > 0 {
			return c13VarPlan{seek: -1, windows: []int{int(pg.FirstRow), 1024}}
		}
	case "seek to the page before, one window per page":
		from := max(pg.Index-1, 0)
		first := int64(0)
		for i := range h.pages {
			if q := &h.pages[i]; q.RG == pg.RG && q.Col == pg.Col && q.Index == from {
				first = q.FirstRow
			}
		}
		return c13VarPlan{seek: first, windows: append(h.pageRows(pg, from), 1024)}
	}
	return c13VarPlan{seek: -1, windows: []int{1024}}
}

var c13VarPlans = []string{"1024", "7", "one window per page of the column", "a window up to the page", "seek to the page before, one window per page"}

// c13ReadVariant reads the variant column at path through the columnar reader.
func c13ReadVariant(x *c13Use, path string, plan c13VarPlan, late bool) (out c13Read) {
	r, err := parquet.NewVariantReader(x.rowGroup(), path)
	if err != nil {
		out.err = fmt.Errorf("c13: NewVariantReader: %v", err)
		return
	}
	defer r.Close()
	curs := make([]*parquet.VariantCursor, len(c13VarCursors))
	for i, cd := range c13VarCursors {
		cur := r.Path(cd.path...)
		if cd.elem {
			cur = cur.Elements()
		}
		curs[i] = cur
	}
	if plan.seek >= 0 {
		if err := r.SeekToRow(plan.seek); err != nil {
			out.err = err
			return
		}
	}
	var sb strings.Builder
	for w := 0; ; w++ {
		size := plan.windows[min(w, len(plan.windows)-1)]
		n, err := r.Next(size)
		if n > 0 {
			sb.Reset()
			fmt.Fprintf(&sb, "%d rows", n)
			for i, cur := range curs {
				fmt.Fprintf(&sb, "\n%s: ", c13VarCursors[i].name)
				c13CursorState(&sb, cur)
			}
			out.vals = append(out.vals, parquet.ByteArrayValue([]byte(sb.String())))
			if len(out.vals) > x.limit {
				out.err = errC13TooMany
				return
			}
		}
		if err == io.EOF {
			return
		}
		if err != nil {
			out.err = err
			return
		}
		if n == 0 {
			out.err = fmt.Errorf("c13: Next(%d) returned 0, nil", size)
			return
		}
	}
}

// c13VariantConsumers: the readers of the variant columns of one file.  Proj
// lists the leaf columns each of them reads.
func c13VariantConsumers(f *parquet.File) []c13Consumer {
	cols := map[string][]int{}
	var all []int
	for i, path := range f.Schema().Columns() {
		cols[path[0]] = append(cols[path[0]], i)
		all = append(all, i)
	}
	var cs []c13Consumer
	for _, col := range []string{"var", "raw"} {
		col := col
		for _, plan := range c13VarPlans {
			plan := plan
			cs = append(cs, c13Consumer{Name: fmt.Sprintf("VariantReader(%s).Next(%s)", col, plan), Unit: "page", Kind: "decode", Proj: cols[col],
				Run: func(x *c13Use) c13Read { return c13ReadVariant(x, col, x.h.varPlan(plan, x.pg), false) }})
		}
	}
	cs = append(cs,
		c13Consumer{Name: "RowGroup.Rows(variant columns)", Unit: "rg", Kind: "decode", Proj: all, Run: func(x *c13Use) (out c13Read) {
			rows := x.rowGroup().Rows()
			defer rows.Close()
			out.err = c13DrainRows(&out, rows, x.limit, 29)
			return
		}},
		c13Consumer{Name: "GenericReader(variant columns)", Unit: "file", Kind: "decode", Proj: all, Run: func(x *c13Use) (out c13Read) {
			r := parquet.NewGenericReader[c13VarRow](x.f)
			defer r.Close()
			for {
				buf := make([]c13VarRow, 40)
				n, err := r.Read(buf)
				for _, row := range buf[:n] {
					out.vals = append(out.vals, parquet.ByteArrayValue([]byte(fmt.Sprintf("%d %v %v", row.ID, c13GoValue(row.Raw), c13GoValue(row.Var)))))
				}
				if len(out.vals) > x.limit {
					out.err = errC13TooMany
					return
				}
				if err == io.EOF {
					return
				}
				if err != nil {
					out.err = err
					return
				}
				if n == 0 {
					out.err = fmt.Errorf("c13: Read returned 0, nil")
					return
				}
			}
		}})
	return cs
}

func c13GoValue(v any) any {
	switch x := v.(type) {
	case variant.Value:
		return x.GoValue()
	case *variant.Value:
		if x == nil {
			return nil
		}
		return x.GoValue()
	}
	return v
}

var c13VariantConsumerList []c13Consumer

// c13OpenVariant generates and opens a variant file and registers its readers.
func c13OpenVariant(cfg c13Config) (*c13File, error) {
	data, err := c13GenerateVariant(cfg)
	if err != nil {
		return nil, fmt.Errorf("writing the file: %w", err)
	}
	h, err := c13Open(cfg, data)
	if err != nil {
		return nil, err
	}
	if c13VariantConsumerList == nil {
		c13VariantConsumerList = c13VariantConsumers(h.files["sync"])
	}
	return h, nil
}

// c13RunVariant: one fault in the picked pages of the file through the readers
// of the variant columns.
func c13RunVariant(c *core.Ctx, cfg c13Config, counts map[string]int) {
	h, err := c13OpenVariant(cfg)
	if err != nil {
		c.Violation("file-layout", err.Error(), cfg)
		return
	}
	if !c13StoredCRCs(c, h) {
		return
	}
	kinds := map[string]int{}
	for n, pg := range h.c13PickPages(int(cfg.Seed)) {
		if c13Bad >= c13MaxBad {
			return
		}
		ft, ok := c13ConsumerFault(c, pg, n)
		if !ok {
			continue
		}
		kinds[pg.Kind]++
		for ki := range c13VariantConsumerList {
			k := &c13VariantConsumerList[ki]
			if !k.reads(pg.Col) && !strings.HasSuffix(k.Name, "Next(1024)") {
				continue // a column of the other variant group: untouched, checked with one plan
			}
			t0 := time.Now()
			class := h.c13CheckConsumer(c, pg, ft, k)
			c13Times["consumer "+k.Name] += time.Since(t0)
			counts["consumer "+k.Name+":"+class]++
			c.Case(fmt.Sprintf("variant/%s/%s", pg.Kind, cfg.Codec), fmt.Sprintf("%+v|%d|%d|%d|%+v|%s", cfg, pg.RG, pg.Col, pg.Index, ft, k.Name), true)
		}
	}
	c.Sample(map[string]any{"file": cfg, "bytes": len(h.data), "pages": len(h.pages), "page_kinds": kinds, "columns": len(h.files["sync"].Schema().Columns())})
}
