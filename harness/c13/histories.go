// C13, histories after a failed read.  A reader that met the corrupted page
// and returned the error is used further, the way a caller retries:
//
//	retry              read again
//	reseek-first/-mid  SeekToRow(first row of the page / a row inside it), read
//	reseek-zero        SeekToRow(0), read
//	seek-reseek-first/-mid   SeekToRow(r), read (fails), SeekToRow(the same r), read
//	reseek-next        SeekToRow(first row after the page), read
//
// The corruption is still there: a read that touches the page again has to
// end with the corruption error again, after delivering a prefix of what the
// same seek and read deliver on the unmodified file; a read that starts after
// the page either delivers exactly what it delivers on the unmodified file or
// reports the corruption (readers without offset index walk through the
// page).  Never other data, never a clean end in front of the page.
package main

import (
	"bytes"
	"errors"
	"fmt"
	"io"
	"strings"

	"github.com/parquet-go/parquet-go"

	"verif/harness/core"
)

type c13Sess struct {
	seek  func(row int64) error
	drain func(out *c13Read, limit int) error // nil: clean end
	close func()
}

type c13Session struct {
	Name   string
	Unit   string // chunk | rg : one column chunk / a row group, rows of the row group; column | file : one column / every column, rows of the file
	Mode   string // how the file is opened
	NoEnc  bool
	NoSeek bool
	Open   func(h *c13File, f *parquet.File, pg *c13Page) (*c13Sess, error)
}

func c13PagesSess(pages parquet.Pages) *c13Sess {
	return &c13Sess{
		seek:  pages.SeekToRow,
		drain: func(out *c13Read, limit int) error { return c13DrainPages(out, pages, limit) },
		close: func() { pages.Close() },
	}
}

func c13RowsSess(rows parquet.Rows, batch int) *c13Sess {
	return &c13Sess{
		seek:  rows.SeekToRow,
		drain: func(out *c13Read, limit int) error { return c13DrainRows(out, rows, limit, batch) },
		close: func() { rows.Close() },
	}
}

func c13Several(f *parquet.File, pg *c13Page) []parquet.RowGroup {
	if rgs := f.RowGroups(); len(rgs) > 1 {
		return rgs
	}
	rg := f.RowGroups()[pg.RG]
	return []parquet.RowGroup{rg, rg}
}

var c13Sessions = []c13Session{
	{Name: "FilePages", Unit: "chunk", Mode: "sync", Open: func(h *c13File, f *parquet.File, pg *c13Page) (*c13Sess, error) {
		return c13PagesSess(f.RowGroups()[pg.RG].ColumnChunks()[pg.Col].Pages()), nil
	}},
	{Name: "FilePages(no offset index)", Unit: "chunk", Mode: "noindex", Open: func(h *c13File, f *parquet.File, pg *c13Page) (*c13Sess, error) {
		return c13PagesSess(f.RowGroups()[pg.RG].ColumnChunks()[pg.Col].Pages()), nil
	}},
	{Name: "FilePages(async)", Unit: "chunk", Mode: "async", Open: func(h *c13File, f *parquet.File, pg *c13Page) (*c13Sess, error) {
		return c13PagesSess(f.RowGroups()[pg.RG].ColumnChunks()[pg.Col].Pages()), nil
	}},
	{Name: "AsyncPages", Unit: "chunk", Mode: "sync", Open: func(h *c13File, f *parquet.File, pg *c13Page) (*c13Sess, error) {
		return c13PagesSess(parquet.AsyncPages(f.RowGroups()[pg.RG].ColumnChunks()[pg.Col].Pages())), nil
	}},
	{Name: "Column.Pages", Unit: "column", Mode: "sync", Open: func(h *c13File, f *parquet.File, pg *c13Page) (*c13Sess, error) {
		col := f.Root()
		for _, name := range f.Schema().Columns()[pg.Col] {
			if col = col.Column(name); col == nil {
				return nil, fmt.Errorf("c13: no column %v", f.Schema().Columns()[pg.Col])
			}
		}
		return c13PagesSess(col.Pages()), nil
	}},
	{Name: "ColumnChunkValueReader", Unit: "chunk", Mode: "sync", Open: func(h *c13File, f *parquet.File, pg *c13Page) (*c13Sess, error) {
		vr := parquet.NewColumnChunkValueReader(f.RowGroups()[pg.RG].ColumnChunks()[pg.Col])
		return &c13Sess{
			seek: vr.SeekToRow,
			drain: func(out *c13Read, limit int) error {
				var buf [100]parquet.Value
				for {
					n, err := vr.ReadValues(buf[:])
					for i := 0; i < n; i++ {
						out.vals = append(out.vals, buf[i].Clone())
					}
					if len(out.vals) > limit {
						return errC13TooMany
					}
					if err == io.EOF {
						return nil
					}
					if err != nil {
						return err
					}
					if n == 0 {
						return errors.New("c13: ReadValues returned 0, nil")
					}
				}
			},
			close: func() { vr.Close() },
		}, nil
	}},
	{Name: "RowGroup.Rows", Unit: "rg", Mode: "sync", Open: func(h *c13File, f *parquet.File, pg *c13Page) (*c13Sess, error) {
		return c13RowsSess(f.RowGroups()[pg.RG].Rows(), 32), nil
	}},
	{Name: "RowGroup.Rows(no offset index)", Unit: "rg", Mode: "noindex", Open: func(h *c13File, f *parquet.File, pg *c13Page) (*c13Sess, error) {
		return c13RowsSess(f.RowGroups()[pg.RG].Rows(), 7), nil
	}},
	{Name: "AsyncRowGroup.Rows", Unit: "rg", Mode: "sync", Open: func(h *c13File, f *parquet.File, pg *c13Page) (*c13Sess, error) {
		return c13RowsSess(parquet.AsyncRowGroup(f.RowGroups()[pg.RG]).Rows(), 32), nil
	}},
	{Name: "ConvertRowGroup.Rows", Unit: "rg", Mode: "sync", Open: func(h *c13File, f *parquet.File, pg *c13Page) (*c13Sess, error) {
		conv, err := parquet.Convert(c13WiderSchema(), f.Schema())
		if err != nil {
			return nil, err
		}
		return c13RowsSess(parquet.ConvertRowGroup(f.RowGroups()[pg.RG], conv).Rows(), 32), nil
	}},
	{Name: "MultiRowGroup.Rows", Unit: "file", Mode: "sync", Open: func(h *c13File, f *parquet.File, pg *c13Page) (*c13Sess, error) {
		return c13RowsSess(parquet.MultiRowGroup(c13Several(f, pg)...).Rows(), 32), nil
	}},
	{Name: "MergeRowGroups.Rows", Unit: "file", Mode: "sync", Open: func(h *c13File, f *parquet.File, pg *c13Page) (*c13Sess, error) {
		m, err := parquet.MergeRowGroups(c13Several(f, pg))
		if err != nil {
			return nil, err
		}
		return c13RowsSess(m.Rows(), 32), nil
	}},
	{Name: "MergeRowReaders", Unit: "file", Mode: "sync", NoSeek: true, Open: func(h *c13File, f *parquet.File, pg *c13Page) (*c13Sess, error) {
		var rrs []parquet.RowReader
		var all []parquet.Rows
		for _, rg := range c13Several(f, pg) {
			r := rg.Rows()
			all = append(all, r)
			rrs = append(rrs, r)
		}
		m := parquet.MergeRowReaders(rrs, f.Schema().Comparator(parquet.Ascending("a")))
		return &c13Sess{
			seek:  func(int64) error { return errors.New("c13: no SeekToRow") },
			drain: func(out *c13Read, limit int) error { return c13DrainRows(out, m, limit, 32) },
			close: func() {
				for _, r := range all {
					r.Close()
				}
			},
		}, nil
	}},
	{Name: "Reader.ReadRows", Unit: "file", Mode: "sync", Open: func(h *c13File, f *parquet.File, pg *c13Page) (*c13Sess, error) {
		r := parquet.NewReader(f)
		return &c13Sess{
			seek:  r.SeekToRow,
			drain: func(out *c13Read, limit int) error { return c13DrainRows(out, r, limit, 16) },
			close: func() { r.Close() },
		}, nil
	}},
	{Name: "Reader.Read", Unit: "file", Mode: "sync", Open: func(h *c13File, f *parquet.File, pg *c13Page) (*c13Sess, error) {
		r := parquet.NewReader(f)
		return &c13Sess{
			seek: r.SeekToRow,
			drain: func(out *c13Read, limit int) error {
				for {
					var row c13Row
					err := r.Read(&row)
					if err == io.EOF {
						return nil
					}
					if err != nil {
						return err
					}
					out.rows = append(out.rows, row)
					if len(out.rows) > limit {
						return errC13TooMany
					}
				}
			},
			close: func() { r.Close() },
		}, nil
	}},
	{Name: "GenericReader", Unit: "file", Mode: "sync", Open: func(h *c13File, f *parquet.File, pg *c13Page) (*c13Sess, error) {
		r := parquet.NewGenericReader[c13Row](f)
		return &c13Sess{
			seek:  r.SeekToRow,
			drain: func(out *c13Read, limit int) error { return c13DrainGeneric(out, r, limit, 23) },
			close: func() { r.Close() },
		}, nil
	}},
	{Name: "GenericReader(row group)", Unit: "rg", Mode: "sync", Open: func(h *c13File, f *parquet.File, pg *c13Page) (*c13Sess, error) {
		r := parquet.NewGenericRowGroupReader[c13Row](f.RowGroups()[pg.RG])
		return &c13Sess{
			seek:  r.SeekToRow,
			drain: func(out *c13Read, limit int) error { return c13DrainGeneric(out, r, limit, 23) },
			close: func() { r.Close() },
		}, nil
	}},
}

func c13SessionByName(n string) *c13Session {
	for i := range c13Sessions {
		if c13Sessions[i].Name == n {
			return &c13Sessions[i]
		}
	}
	return nil
}

var c13Histories = []string{"retry", "reseek-first", "reseek-mid", "reseek-zero", "seek-reseek-first", "seek-reseek-mid", "reseek-next"}

// c13HistoryRows: the rows of the seeks of a history, in the numbering of the
// row group of the page; ok is false when the history does not apply.
func c13HistoryRows(pg *c13Page, rgRows int64, hist string) (first, second int64, ok bool) {
	t0 := pg.FirstRow
	if pg.Index < 0 {
		t0 = 0
	}
	tm := c13Target(pg)
	switch hist {
	case "retry":
		return -1, -1, true
	case "reseek-first":
		return -1, t0, true
	case "reseek-mid":
		return -1, tm, tm != t0
	case "reseek-zero":
		return -1, 0, t0 != 0
	case "seek-reseek-first":
		return t0, t0, true
	case "seek-reseek-mid":
		return tm, tm, tm != t0
	case "reseek-next":
		next := pg.FirstRow + pg.NumRows
		return -1, next, pg.Index >= 0 && next < rgRows
	}
	return 0, 0, false
}

type c13HistoryResult struct {
	first  error // the error of the first read (nil: it did not fail)
	second c13Read
}

func (h *c13File) c13RunHistory(f *parquet.File, s *c13Session, pg *c13Page, base, r1, r2 int64, second bool, limit int) (res c13HistoryResult) {
	sess, err := s.Open(h, f, pg)
	if err != nil {
		res.first = err
		res.second.err = err
		return
	}
	defer sess.close()
	var scratch c13Read
	if second {
		if r1 >= 0 {
			if err := sess.seek(base + r1); err != nil {
				res.first = err
				res.second.err = fmt.Errorf("c13: first SeekToRow(%d): %w", base+r1, err)
				return
			}
		}
		res.first = sess.drain(&scratch, limit)
		if res.first == nil {
			return
		}
	}
	if r2 >= 0 {
		if err := sess.seek(base + r2); err != nil {
			res.second.err = fmt.Errorf("SeekToRow(%d): %w", base+r2, err)
			res.second.via = "seek"
			return
		}
	}
	res.second.err = sess.drain(&res.second, limit)
	return
}

// c13CheckHistory runs one history of one reader over one fault.  Returns ""
// when the history does not apply.
func (h *c13File) c13CheckHistory(c *core.Ctx, pg *c13Page, ft c13Fault, s *c13Session, hist string) string {
	rgRows := h.base[pg.RG+1] - h.base[pg.RG]
	r1, r2, ok := c13HistoryRows(pg, rgRows, hist)
	if !ok || (s.NoSeek && hist != "retry") {
		return ""
	}
	base := int64(0)
	if s.Unit == "file" || s.Unit == "column" {
		base = h.base[pg.RG]
	}
	f := h.files[s.Mode]
	rep := c13Replay{Config: h.cfg, Page: *pg, Fault: ft, Path: "history:" + s.Name + ":" + hist, Target: base + r2}
	// what the last seek and read deliver on the unmodified file: the rows from
	// that row on, taken from ONE complete read of the unmodified file by the same
	// kind of reader (that seeks position readers correctly on intact files is
	// the matter of another property)
	key := fmt.Sprintf("history/%s/%d/%d", s.Name, pg.RG, pg.Col)
	switch s.Unit {
	case "rg":
		key = fmt.Sprintf("history/%s/%d", s.Name, pg.RG)
	case "file":
		key = "history/" + s.Name
	case "column":
		key = fmt.Sprintf("history/%s/column/%d", s.Name, pg.Col)
	}
	full, have := h.clean[key]
	if !have {
		r := c13GuardFn(func() c13Read { return h.c13RunHistory(f, s, pg, base, -1, -1, false, 1<<22).second })
		full = &r
		h.clean[key] = full
	}
	clean := full
	if r2 >= 0 && full.err == nil && full.panic == "" && !full.hang {
		clean = c13From(full, base+r2, s.Unit == "chunk" || s.Unit == "column")
	}
	if clean.err != nil || clean.panic != "" || clean.hang {
		c.Violation("clean-file-rejected", fmt.Sprintf("reader %s, SeekToRow(%d) and read on the unmodified file: err=%v panic=%q hang=%v", s.Name, base+r2, clean.err, clean.panic, clean.hang), rep)
		return "clean-file-rejected"
	}
	body := h.data[pg.BodyOff : pg.BodyOff+int64(pg.BodyLen)]
	c13Apply(body, ft)
	limit := len(clean.vals) + len(clean.rows) + c13MaxExtra
	var firstErr error
	got := c13GuardFn(func() c13Read {
		res := h.c13RunHistory(f, s, pg, base, r1, r2, true, limit)
		firstErr = res.first
		return res.second
	})
	if got.hang {
		fresh := append([]byte(nil), h.data...)
		h.data = fresh
		body = h.data[pg.BodyOff : pg.BodyOff+int64(pg.BodyLen)]
		c13Apply(body, ft)
		if nh, err := c13Open(h.cfg, h.data); err == nil {
			h.files = nh.files
		}
	} else {
		c13Apply(body, ft)
	}
	if firstErr == nil && got.panic == "" && !got.hang {
		return "" // the first read did not fail: reported by the access paths
	}
	class, detail := c13Classify(&got, clean)
	if class == oOther && h.cfg.Encrypted && strings.Contains(detail, "authentication failed") {
		class = oCorrupted
	}
	good := class == oCorrupted
	if got.via == "seek" && got.err != nil && got.panic == "" && !got.hang {
		// the reader refuses to be repositioned (forward-only merges) or meets
		// the page while seeking: an error, and nothing delivered
		good, class = true, "seek-refused"
	}
	if hist == "reseek-next" {
		good = good || class == oIdentical
	}
	if hist == "retry" && !good && (s.Unit == "chunk" || s.Unit == "column") {
		// a reader of the pages or values of ONE column that is read again after it
		// failed, without being repositioned, may also go on behind the page it could
		// not deliver: what it then delivers has to be the tail of the clean data, to
		// the clean end.  A reader of rows may not: its columns would no longer be
		// aligned on a row
		if got.err == nil && got.panic == "" && !got.hang && c13IsTail(&got, clean) {
			good, class = true, "continues-behind-the-page"
		}
	}
	if !good {
		detail += c13DiffAt(&got, clean)
		what := fmt.Sprintf("%s page (row group %d, column %d, page %d, %s, v%d) body bit %d xor %s (%d bits), reader %s, history %s (first read: %v; then SeekToRow %d): %s %s",
			pg.Kind, pg.RG, pg.Col, pg.Index, h.cfg.Codec, h.cfg.Version, ft.Bit, ft.Mask, ft.Width, s.Name, hist, firstErr, base+r2, class, core.Trunc(detail, 300))
		c.Violation(s.Name+"/"+hist+":"+class, what, rep)
		c13Bad++
	}
	return class
}

// c13IsTail: got is a suffix of clean.
func c13IsTail(got, clean *c13Read) bool {
	if len(got.vals) > len(clean.vals) || len(got.rows) > len(clean.rows) {
		return false
	}
	return c13SameValues(got.vals, clean.vals[len(clean.vals)-len(got.vals):]) &&
		c13RowsEqual(got.rows, clean.rows[len(clean.rows)-len(got.rows):])
}

var _ = bytes.NewReader

func c13DiffAt(got, clean *c13Read) string {
	for i := range got.vals {
		if i >= len(clean.vals) {
			return fmt.Sprintf("; value %d is beyond the clean data", i)
		}
		if !parquet.DeepEqual(got.vals[i], clean.vals[i]) {
			return fmt.Sprintf("; first difference at value %d: %+v, clean %+v", i, got.vals[i], clean.vals[i])
		}
	}
	for i := range got.rows {
		if i >= len(clean.rows) {
			return fmt.Sprintf("; row %d is beyond the clean data", i)
		}
		if !c13RowsEqual(got.rows[i:i+1], clean.rows[i:i+1]) {
			return fmt.Sprintf("; first difference at row %d", i)
		}
	}
	return ""
}

// c13From: what a complete read delivered from row r on.  Readers of one
// column deliver values (a row starts at repetition level 0), readers of rows
// deliver rows, or values with an empty Value after each row.
func c13From(full *c13Read, r int64, column bool) *c13Read {
	out := &c13Read{}
	if full.rows != nil {
		if r < int64(len(full.rows)) {
			out.rows = full.rows[r:]
		}
		return out
	}
	row := int64(-1)
	if !column {
		row = 0
	}
	for i, v := range full.vals {
		if column {
			if v.RepetitionLevel() == 0 {
				row++
			}
		}
		if row == r {
			out.vals = full.vals[i:]
			return out
		}
		if !column && parquet.DeepEqual(v, parquet.Value{}) {
			row++
		}
	}
	return out
}
