// Correspondence harness: runs the implementation (/repo, built from the
// current working tree with -tags verif) and the extracted Coq model (the
// oracle subprocess) on the same cases, evaluates the property predicates
// directly on the implementation's outputs, and records what was covered.
package core

import (
	"bufio"
	"crypto/sha256"
	"encoding/hex"
	"encoding/json"
	"flag"
	"fmt"
	"io"
	"math/rand"
	"os"
	"os/exec"
	"path/filepath"
	"strings"
	"time"
)

type Finding struct {
	Property string `json:"property"`
	ID       string `json:"id"`
	What     string `json:"what"`
}

type Violation struct {
	Class  string `json:"class"` // stable identifier of the kind of failure (matched against known findings)
	What   string `json:"what"`
	Replay any    `json:"replay"`
	File   string `json:"file,omitempty"`
}

type Mismatch struct {
	Corr   string `json:"corr"` // name of the correspondence that no longer checks
	Case   string `json:"case"`
	Impl   string `json:"impl"`
	Model  string `json:"model"`
	Replay any    `json:"replay,omitempty"`
}

type Result struct {
	Property    string         `json:"property"`
	Tier        string         `json:"tier"`
	Seed        int64          `json:"seed"`
	Evaluations int            `json:"evaluations"`
	Distinct    int            `json:"distinct_nontrivial"`
	Rule        string         `json:"rule"`
	Buckets     map[string]int `json:"buckets"`
	Samples     []any          `json:"samples"`
	Violations  []Violation    `json:"violations"`
	Known       []Violation    `json:"known_findings_reproduced"`
	Mismatches  []Mismatch     `json:"mismatches"`
	OracleCalls int            `json:"oracle_calls"`
	Variant     string         `json:"variant"`
	Exhaustive  bool           `json:"exhaustive"`
	Notes       []string       `json:"notes,omitempty"`
	VmCases     int            `json:"vm_cases"`
	WallS       float64        `json:"wall_s"`
}

type Ctx struct {
	Prop      string
	Tier      string
	Seed      int64
	Rng       *rand.Rand
	OutDir    string
	ReplayDir string
	Res       *Result
	oracle    *Oracle
	seen      map[[16]byte]struct{}
	known     map[string]bool
	vm        *strings.Builder // body of cases.v (optional)
	maxViol   int
	silent    bool
	failed    bool
}

// Probe runs f with reporting switched off and tells whether f would have
// reported a violation or a mismatch (used by shrinkers).
func (c *Ctx) Probe(f func()) bool {
	old, oldf := c.silent, c.failed
	c.silent, c.failed = true, false
	f()
	r := c.failed
	c.silent, c.failed = old, oldf
	return r
}

func (c *Ctx) Quick() bool { return c.Tier != "thorough" }

// N returns quick or thorough count.
func (c *Ctx) N(quick, thorough int) int {
	if c.Quick() {
		return quick
	}
	return thorough
}

// Case records one executed case. key identifies the case for distinctness.
func (c *Ctx) Case(bucket, key string, nontrivial bool) {
	if c.silent {
		return
	}
	c.Res.Evaluations++
	c.Res.Buckets[bucket]++
	if nontrivial {
		h := sha256.Sum256([]byte(key))
		var k [16]byte
		copy(k[:], h[:16])
		if _, ok := c.seen[k]; !ok {
			c.seen[k] = struct{}{}
			c.Res.Distinct++
		}
	}
}

func (c *Ctx) Sample(s any) {
	if len(c.Res.Samples) < 6 {
		c.Res.Samples = append(c.Res.Samples, s)
	}
}

func (c *Ctx) Note(format string, a ...any) {
	c.Res.Notes = append(c.Res.Notes, fmt.Sprintf(format, a...))
}

// Violation reports that the property predicate failed on the implementation.
func (c *Ctx) Violation(class, what string, replay any) {
	if c.silent {
		c.failed = true
		return
	}
	v := Violation{Class: class, What: what, Replay: replay}
	if c.known[class] {
		for _, k := range c.Res.Known {
			if k.Class == class {
				return
			}
		}
		c.Res.Known = append(c.Res.Known, v)
		return
	}
	if len(c.Res.Violations) >= c.maxViol {
		return
	}
	for _, o := range c.Res.Violations {
		if o.Class == class {
			return // one replay per class is enough
		}
	}
	name := fmt.Sprintf("%s-%s-%d.json", c.Prop, Sanitize(class), c.Seed)
	path := filepath.Join(c.ReplayDir, name)
	b, _ := json.MarshalIndent(map[string]any{"property": c.Prop, "class": class, "what": what, "seed": c.Seed, "tier": c.Tier, "replay": replay}, "", " ")
	_ = os.WriteFile(path, b, 0o644)
	v.File = "replays/" + name
	c.Res.Violations = append(c.Res.Violations, v)
}

// Mismatch reports model != implementation on a case where the property
// predicate itself was not seen to fail.
func (c *Ctx) Mismatch(corr, cs, impl, model string, replay any) {
	if c.oracle == nil {
		return
	}
	if c.silent {
		c.failed = true
		return
	}
	for _, m := range c.Res.Mismatches {
		if m.Corr == corr {
			return
		}
	}
	c.Res.Mismatches = append(c.Res.Mismatches, Mismatch{Corr: corr, Case: Trunc(cs, 2000), Impl: Trunc(impl, 2000), Model: Trunc(model, 2000), Replay: replay})
}

func Trunc(s string, n int) string {
	if len(s) > n {
		return s[:n] + "..."
	}
	return s
}

func Sanitize(s string) string {
	var b strings.Builder
	for _, r := range s {
		if r >= 'a' && r <= 'z' || r >= 'A' && r <= 'Z' || r >= '0' && r <= '9' || r == '-' || r == '_' {
			b.WriteRune(r)
		} else {
			b.WriteByte('_')
		}
	}
	return b.String()
}

// Ask sends one request line to the oracle and returns its one-line answer.
func (c *Ctx) Ask(line string) string {
	if c.oracle == nil {
		return "NO-ORACLE"
	}
	c.Res.OracleCalls++
	return c.oracle.Ask(line)
}

// Vm appends a line to the body of cases.v, evaluated inside coqc by bin/check.
func (c *Ctx) Vm(line string) {
	c.vm.WriteString(line)
	c.vm.WriteByte('\n')
}

type Oracle struct {
	cmd *exec.Cmd
	in  *bufio.Writer
	out *bufio.Reader
}

func StartOracle(path string) (*Oracle, error) {
	cmd := exec.Command(path)
	cmd.Env = append(os.Environ(), "OCAMLRUNPARAM=s=32M,o=300")
	stdin, err := cmd.StdinPipe()
	if err != nil {
		return nil, err
	}
	stdout, err := cmd.StdoutPipe()
	if err != nil {
		return nil, err
	}
	cmd.Stderr = os.Stderr
	if err := cmd.Start(); err != nil {
		return nil, err
	}
	return &Oracle{cmd: cmd, in: bufio.NewWriterSize(stdin, 1<<20), out: bufio.NewReaderSize(stdout, 1<<20)}, nil
}

func (o *Oracle) Ask(line string) string {
	if strings.ContainsAny(line, "\n\r") {
		panic("oracle request contains a newline")
	}
	o.in.WriteString(line)
	o.in.WriteByte('\n')
	if err := o.in.Flush(); err != nil {
		panic(fmt.Sprintf("oracle write: %v", err))
	}
	s, err := o.out.ReadString('\n')
	if err != nil && err != io.EOF {
		panic(fmt.Sprintf("oracle read: %v", err))
	}
	if err == io.EOF && s == "" {
		panic("oracle died on request: " + Trunc(line, 300))
	}
	return strings.TrimRight(s, "\n")
}

func (o *Oracle) Close() {
	o.in.Flush()
	o.cmd.Process.Kill()
	o.cmd.Wait()
}

// Main is the entry point of a property harness binary.
func Main(propID string, f func(c *Ctx), rf func(c *Ctx, replay json.RawMessage)) {
	prop := &propID
	tier := flag.String("tier", "quick", "quick|thorough")
	seed := flag.Int64("seed", 1, "PRNG seed")
	oraclePath := flag.String("oracle", "", "path of the extracted oracle binary")
	out := flag.String("out", "", "output directory")
	variant := flag.String("variant", "default", "build variant label")
	known := flag.String("known", "", "known_findings.json")
	replay := flag.String("replay", "", "replay file")
	replays := flag.String("replays", "/verif/replays", "directory for replay files")
	flag.Parse()
	start := time.Now()
	c := &Ctx{Prop: *prop, Tier: *tier, Seed: *seed, Rng: rand.New(rand.NewSource(*seed)), OutDir: *out, ReplayDir: *replays,
		seen: map[[16]byte]struct{}{}, known: map[string]bool{}, vm: &strings.Builder{}, maxViol: 5,
		Res: &Result{Property: *prop, Tier: *tier, Seed: *seed, Buckets: map[string]int{}, Variant: *variant,
			Violations: []Violation{}, Known: []Violation{}, Mismatches: []Mismatch{}, Samples: []any{}}}
	if *known != "" {
		if b, err := os.ReadFile(*known); err == nil {
			var kf struct {
				Findings []Finding `json:"findings"`
			}
			if err := json.Unmarshal(b, &kf); err != nil {
				fmt.Fprintln(os.Stderr, "known findings:", err)
				os.Exit(2)
			}
			for _, k := range kf.Findings {
				if k.Property == *prop {
					c.known[k.ID] = true
				}
			}
		}
	}
	if *oraclePath != "" {
		o, err := StartOracle(*oraclePath)
		if err != nil {
			fmt.Fprintln(os.Stderr, "oracle:", err)
			os.Exit(2)
		}
		c.oracle = o
		defer o.Close()
	}
	if *replay != "" {
		b, err := os.ReadFile(*replay)
		if err != nil {
			fmt.Fprintln(os.Stderr, err)
			os.Exit(2)
		}
		var r struct {
			Replay json.RawMessage `json:"replay"`
		}
		_ = json.Unmarshal(b, &r)
		if rf != nil {
			rf(c, r.Replay)
		} else {
			fmt.Fprintln(os.Stderr, "no replay function for", *prop)
			os.Exit(2)
		}
	} else {
		f(c)
	}
	c.Res.WallS = time.Since(start).Seconds()
	b, _ := json.MarshalIndent(c.Res, "", " ")
	if err := os.WriteFile(filepath.Join(*out, "result.json"), b, 0o644); err != nil {
		fmt.Fprintln(os.Stderr, err)
		os.Exit(2)
	}
	if c.vm.Len() > 0 {
		_ = os.WriteFile(filepath.Join(*out, "cases.v"), []byte(c.vm.String()), 0o644)
	}
}

// HasOracle tells whether the extracted model is available (it is not when
// the model no longer builds; the direct predicates still run then).
func (c *Ctx) HasOracle() bool { return c.oracle != nil }

func Hexs(b []byte) string { return "x" + hex.EncodeToString(b) }

// zs renders a signed integer for the oracle protocol (hex with sign).
func Zs(v int64) string {
	if v < 0 {
		return fmt.Sprintf("-%x", uint64(-v)) // note: -MinInt64 wraps to itself as uint64: correct magnitude
	}
	return fmt.Sprintf("%x", v)
}

func Us(v uint64) string { return fmt.Sprintf("%x", v) }

// Coq syntax helpers for cases.v
func CoqZ(v int64) string {
	if v < 0 {
		return fmt.Sprintf("(%d)%%Z", v)
	}
	return fmt.Sprintf("%d%%Z", v)
}
func CoqN(v uint64) string { return fmt.Sprintf("%d%%N", v) }
func CoqBool(b bool) string {
	if b {
		return "true"
	}
	return "false"
}
func CoqBytes(b []byte) string {
	var sb strings.Builder
	sb.WriteString("[")
	for i, x := range b {
		if i > 0 {
			sb.WriteString(";")
		}
		fmt.Fprintf(&sb, "%d%%N", x)
	}
	sb.WriteString("]")
	return sb.String()
}
func CoqList(xs []string) string { return "[" + strings.Join(xs, "; ") + "]" }
