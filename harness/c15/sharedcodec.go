// C15, scenario M: writers (and direct Encode/Decode callers) SHARING one
// Codec value.
//
// compress.Codec: "instances must be safe to use concurrently from multiple
// goroutines", and the property names shared Codec values among the documented
// concurrent uses.  The scenarios A-H share the package-level Codec values
// (one level each); scenario I gives every writer a Codec value of its own.
// Here one Codec VALUE is made per configuration the compress/* packages
// offer - uncompressed, snappy, gzip levels -2..9, brotli qualities 0..9 (a
// window per value), zstd levels 1..4 (a concurrency per value), lz4 Fastest,
// Fast and Level1..Level9 - and handed to 3-4 (thorough: 3-5) independent writers through
// parquet.Compression: whatever a Codec value keeps between calls (a
// compressor, a hash table, a pool, a buffer) is then shared by all of them.
// Every writer has rows of its own (compressible text and blobs, pages from a
// few KiB to more than 64 KiB, several pages per column, so that Encode calls
// of different writers overlap and work on different input).  Per value:
//
//	alone     each writer on its own, one after the other
//	together  all writers of the value at once, started together (1-6 times:
//	          a fast configuration is left again within microseconds, its
//	          writers meet more often so that every configuration spends
//	          about the same time together)
//	direct    the same goroutines call Encode and Decode of the value
//	          themselves on page-sized buffers of their own (1-64 times)
//
// Predicate: the bytes a writer writes together with the others are the bytes
// it writes alone (a panic or an error in a writer is a result that differs);
// a direct Encode gives the bytes of the serial Encode, a direct Decode the
// source.  Failures are shrunk to two writers and fewer rows.
package main

import (
	"bytes"
	"crypto/sha256"
	"fmt"
	"io"
	"math/rand"
	"strings"
	"time"

	"github.com/parquet-go/parquet-go"
	"github.com/parquet-go/parquet-go/compress"
	"github.com/parquet-go/parquet-go/compress/brotli"
	"github.com/parquet-go/parquet-go/compress/gzip"
	"github.com/parquet-go/parquet-go/compress/lz4"
	"github.com/parquet-go/parquet-go/compress/snappy"
	"github.com/parquet-go/parquet-go/compress/uncompressed"
	"github.com/parquet-go/parquet-go/compress/zstd"
)

// mCodec names one configuration of a codec.
type mCodec struct {
	Kind  string `json:"codec"`
	Level int    `json:"level"`         // gzip: level, brotli: quality, zstd: level, lz4: index of mLz4Levels
	Aux   int    `json:"aux,omitempty"` // brotli: LGWin, zstd: Concurrency
	Name  string `json:"name"`
}

var mLz4Levels = []lz4.Level{lz4.Fastest, lz4.Fast, lz4.Level1, lz4.Level2, lz4.Level3, lz4.Level4, lz4.Level5, lz4.Level6, lz4.Level7, lz4.Level8, lz4.Level9}
var mLz4Names = []string{"Fastest", "Fast", "Level1", "Level2", "Level3", "Level4", "Level5", "Level6", "Level7", "Level8", "Level9"}

// make returns a new Codec value of the configuration.
func (m mCodec) make() compress.Codec {
	switch m.Kind {
	case "zstd":
		return &zstd.Codec{Level: zstd.Level(m.Level), Concurrency: uint(m.Aux)}
	case "gzip":
		return &gzip.Codec{Level: m.Level}
	case "brotli":
		return &brotli.Codec{Quality: m.Level, LGWin: m.Aux}
	case "lz4":
		return &lz4.Codec{Level: mLz4Levels[m.Level]}
	case "snappy":
		return &snappy.Codec{}
	}
	return &uncompressed.Codec{}
}

// mCatalogue lists every configuration; the parameters a configuration has
// besides its level are drawn per instance.
func mCatalogue(rng *rand.Rand) []mCodec {
	cat := []mCodec{{Kind: "none", Name: "uncompressed"}, {Kind: "snappy", Name: "snappy"}}
	for l := gzip.HuffmanOnly; l <= gzip.BestCompression; l++ {
		cat = append(cat, mCodec{Kind: "gzip", Level: l, Name: fmt.Sprintf("gzip level %d", l)})
	}
	for q := 0; q <= 9; q++ {
		w := []int{0, 0, 10, 16, 22}[rng.Intn(5)]
		cat = append(cat, mCodec{Kind: "brotli", Level: q, Aux: w, Name: fmt.Sprintf("brotli quality %d lgwin %d", q, w)})
	}
	for l := 1; l <= 4; l++ {
		cc := []int{0, 0, 1, 2}[rng.Intn(4)]
		cat = append(cat, mCodec{Kind: "zstd", Level: l, Aux: cc, Name: fmt.Sprintf("zstd level %d concurrency %d", l, cc)})
	}
	for i := range mLz4Levels {
		cat = append(cat, mCodec{Kind: "lz4", Level: i, Name: "lz4 " + mLz4Names[i]})
	}
	return cat
}

type mRow struct {
	ID   int64  `parquet:"id"`
	Text string `parquet:"text"`
	Blob []byte `parquet:"blob"`
	Word string `parquet:"word,dict"`
}

func makeMRows(seed int64, n int) []mRow {
	rng := rand.New(rand.NewSource(seed))
	rows := make([]mRow, n)
	var sb strings.Builder
	for i := range rows {
		r := &rows[i]
		r.ID = int64(i)*3 + int64(rng.Intn(3))
		sb.Reset()
		for k := 8 + rng.Intn(40); k > 0; k-- {
			fmt.Fprintf(&sb, "%s-%d ", iWords[rng.Intn(len(iWords))], rng.Intn(1000))
		}
		r.Text = sb.String()
		sb.Reset()
		for k := 20 + rng.Intn(160); k > 0; k-- {
			if rng.Intn(8) == 0 {
				fmt.Fprintf(&sb, "%016x", rng.Uint64())
			} else {
				sb.WriteString(iWords[rng.Intn(len(iWords))])
			}
		}
		r.Blob = []byte(sb.String())
		r.Word = iWords[rng.Intn(len(iWords))]
	}
	return rows
}

// mCfg is what the writers sharing a Codec value have in common.
type mCfg struct {
	Codec   mCodec  `json:"codec"`
	PageBuf int     `json:"page_buffer_size"`
	Version int     `json:"data_page_version"`
	RGRows  int64   `json:"max_rows_per_row_group"`
	Rows    int     `json:"rows"`
	Seeds   []int64 `json:"data_seeds"` // one writer per seed
}

type mResult struct {
	File string
	Size int
	Err  string
	data []byte
}

func (r mResult) same(o mResult) bool { return r.File == o.File && r.Size == o.Size && r.Err == o.Err }

// mWrite is the work of one writer configured with the shared Codec value.
func mWrite(codec compress.Codec, c *mCfg, rows []mRow) (res mResult) {
	defer func() {
		if r := recover(); r != nil {
			res = mResult{Err: fmt.Sprintf("panic: %v", r)}
		}
	}()
	var buf bytes.Buffer
	w := parquet.NewGenericWriter[mRow](&buf,
		parquet.Compression(codec),
		parquet.PageBufferSize(c.PageBuf),
		parquet.DataPageVersion(c.Version),
		parquet.MaxRowsPerRowGroup(c.RGRows),
	)
	for i := 0; i < len(rows); {
		k := 64
		if i+k > len(rows) {
			k = len(rows) - i
		}
		if _, err := w.Write(rows[i : i+k]); err != nil {
			res.Err = "write: " + err.Error()
			return res
		}
		i += k
	}
	if err := w.Close(); err != nil {
		res.Err = "close: " + err.Error()
		return res
	}
	data := buf.Bytes()
	return mResult{File: sha(data), Size: len(data), data: data}
}

// mReadBack renders the rows of a file (only used to describe a failure).
func mReadBack(data []byte) (text string) {
	defer func() {
		if r := recover(); r != nil {
			text = fmt.Sprintf("panic: %v", r)
		}
	}()
	if data == nil {
		return "no file"
	}
	gr := parquet.NewGenericReader[mRow](bytes.NewReader(data))
	defer gr.Close()
	h := sha256.New()
	got := make([]mRow, 64)
	n := 0
	for {
		k, err := gr.Read(got)
		for i := 0; i < k; i++ {
			hashJSON(h, &got[i])
			got[i] = mRow{}
		}
		n += k
		if err != nil {
			if err != io.EOF {
				return fmt.Sprintf("%d rows then %v", n, err)
			}
			break
		}
		if k == 0 {
			return fmt.Sprintf("%d rows then no progress", n)
		}
	}
	return fmt.Sprintf("%d:%s", n, sum(h))
}

type mFail struct {
	where  string // "writer" or "encode" or "decode"
	worker int
	alone  mResult
	got    mResult
	what   string
}

// mRun runs the phases for one Codec value and returns the disagreements.
func mRun(c *mCfg, p int, direct bool, out *scenOut) (fails []mFail) {
	codec := c.Codec.make()
	W := len(c.Seeds)
	rows := make([][]mRow, W)
	alone := make([]mResult, W)
	for i, seed := range c.Seeds {
		rows[i] = makeMRows(seed, c.Rows)
	}
	t0 := time.Now()
	for i := range rows {
		alone[i] = mWrite(codec, c, rows[i])
	}
	// Calls overlap only while the writers are inside the codec, and a fast
	// configuration is left again within microseconds: the writers of a fast
	// configuration meet several times, so that every configuration spends
	// about the same time together (what is compared does not depend on it).
	perWriter := time.Since(t0) / time.Duration(W)
	rounds := mReps(mTogether, perWriter, 1, 6)
	if p == 1 {
		// one processor: calls only interleave where a goroutine is preempted
		// or yields inside the codec; one meeting
		rounds = 1
	}
	grp := &group{}
	for round := 0; round < rounds && len(fails) == 0; round++ {
		together := make([]mResult, W)
		start := make(chan struct{})
		for i := 0; i < W; i++ {
			i := i
			grp.Go(func(s *slot) {
				<-start
				together[i] = mWrite(codec, c, rows[i])
				s.out = together[i].Size
			})
		}
		close(start)
		scratch := &scenOut{}
		grp.Wait(scratch)
		out.fails = append(out.fails, scratch.fails...)
		if round == 0 {
			out.goroutines += scratch.goroutines
			out.outSize += scratch.outSize
		}
		for i := range together {
			if !together[i].same(alone[i]) {
				fails = append(fails, mFail{where: "writer", worker: i, alone: alone[i], got: together[i]})
			}
		}
	}
	if !direct || len(fails) > 0 {
		return fails
	}
	// direct: page-sized buffers of their own through the same value (3 KiB and
	// 70 KiB; 24 KiB for a configuration that takes long)
	bigSize := 70 << 10
	if perWriter > mTogether/2 {
		bigSize = 24 << 10
	}
	srcs := make([][][]byte, W)
	encs := make([][][]byte, W)
	t0 = time.Now()
	for i := range srcs {
		var small, big bytes.Buffer
		for k := range rows[i] {
			if small.Len() < 3<<10 {
				small.WriteString(rows[i][k].Text)
			}
			if big.Len() < bigSize {
				big.Write(rows[i][k].Blob)
			}
		}
		srcs[i] = [][]byte{small.Bytes(), big.Bytes()}
		for _, src := range srcs[i] {
			e, err := codec.Encode(nil, src)
			if err != nil {
				out.notes = append(out.notes, fmt.Sprintf("%s: serial Encode of %d bytes fails with %v", c.Codec.Name, len(src), err))
				return fails
			}
			encs[i] = append(encs[i], e)
		}
	}
	reps := mReps(mTogether/2, time.Since(t0)/time.Duration(W), 1, 64)
	if p == 1 {
		reps = 1
	}
	results := make([]string, W)
	start := make(chan struct{})
	for i := 0; i < W; i++ {
		i := i
		grp.Go(func(s *slot) {
			<-start
			var dst, dec []byte
			for rep := 0; rep < reps && results[i] == ""; rep++ {
				for k, src := range srcs[i] {
					e, err := codec.Encode(dst[:0], src)
					if err != nil || !bytes.Equal(e, encs[i][k]) {
						results[i] = fmt.Sprintf("encode: Encode of %d bytes = %d bytes %s, error %v; the serial Encode gave %d bytes %s", len(src), len(e), sha(e), err, len(encs[i][k]), sha(encs[i][k]))
						break
					}
					dst = e
					j := (i + 1 + rep) % W
					d, err := codec.Decode(dec[:0], encs[j][k])
					if err != nil || !bytes.Equal(d, srcs[j][k]) {
						results[i] = fmt.Sprintf("decode: Decode of %d bytes = %d bytes %s, error %v; the source had %d bytes %s", len(encs[j][k]), len(d), sha(d), err, len(srcs[j][k]), sha(srcs[j][k]))
						break
					}
					dec = d
					if rep == 0 {
						s.out += len(e) + len(d)
					}
				}
			}
		})
	}
	close(start)
	scratch := &scenOut{}
	grp.Wait(scratch)
	out.goroutines += scratch.goroutines
	out.outSize += scratch.outSize
	for _, f := range scratch.fails {
		// a panic inside Encode/Decode
		fails = append(fails, mFail{where: "direct", what: f.What})
	}
	for i, r := range results {
		if r != "" {
			where, what, _ := strings.Cut(r, ": ")
			fails = append(fails, mFail{where: where, worker: i, what: what})
		}
	}
	return fails
}

// mTogether is about how long the callers of one Codec value run together.
const mTogether = 8 * time.Millisecond

// mReps: how often work that takes `one` is repeated to fill `total`.
func mReps(total, one time.Duration, lo, hi int) int {
	if one <= 0 {
		return hi
	}
	n := int(total / one)
	if n < lo {
		return lo
	}
	if n > hi {
		return hi
	}
	return n
}

func mFailsAgain(c *mCfg, p int, direct bool) bool {
	for try := 0; try < 4; try++ {
		scratch := &scenOut{}
		if len(mRun(c, p, direct, scratch)) > 0 || len(scratch.fails) > 0 {
			return true
		}
	}
	return false
}

func scenSharedCodec(rng *rand.Rand, p, scale int) *scenOut {
	out := &scenOut{}
	cat := mCatalogue(rng)
	rng.Shuffle(len(cat), func(i, j int) { cat[i], cat[j] = cat[j], cat[i] })
	spent := map[string]time.Duration{}
	for _, mc := range cat {
		c := &mCfg{
			Codec:   mc,
			PageBuf: []int{8 << 10, 32 << 10, 80 << 10, 200 << 10}[rng.Intn(4)],
			Version: 1 + rng.Intn(2),
			Rows:    []int{40, 80, 400}[scale] + rng.Intn([]int{40, 60, 400}[scale]),
		}
		c.RGRows = int64(c.Rows/(1+rng.Intn(2)) + 1)
		W := 3 + rng.Intn([]int{2, 2, 3}[scale])
		for i := 0; i < W; i++ {
			c.Seeds = append(c.Seeds, rng.Int63())
		}
		t0 := time.Now()
		fails := mRun(c, p, true, out)
		spent[mc.Kind] += time.Since(t0)
		if len(out.fails) > 0 {
			return out
		}
		if len(fails) == 0 {
			continue
		}
		f := fails[0]
		direct := f.where != "writer"
		// shrink: two writers, then fewer rows
		small := *c
		for i := 0; i < W && len(small.Seeds) != 2; i++ {
			for j := i + 1; j < W; j++ {
				two := *c
				two.Seeds = []int64{c.Seeds[i], c.Seeds[j]}
				if mFailsAgain(&two, p, direct) {
					small = two
					break
				}
			}
		}
		for small.Rows > 8 {
			half := small
			half.Rows = small.Rows / 2
			half.RGRows = (small.RGRows + 1) / 2
			if !mFailsAgain(&half, p, direct) {
				break
			}
			small = half
		}
		detail := map[string]any{"shared_codec": c, "disagreeing": len(fails), "where": f.where,
			"shrunk": map[string]any{"shared_codec": small,
				"what": "make ONE Codec value of this configuration, give it to one writer per data seed (parquet.Compression), write the rows of each seed alone, then all writers at once"}}
		var what, cls string
		if f.where == "writer" {
			cls = "bytes-differ"
			if strings.HasPrefix(f.got.Err, "panic:") {
				cls = "panic"
			}
			back := ""
			if f.got.Err == "" {
				back = fmt.Sprintf(" (read back: %s; the file written alone: %s)", mReadBack(f.got.data), mReadBack(f.alone.data))
			}
			what = fmt.Sprintf("writer %d of %d wrote %d bytes %s err %q together with the others%s; alone it writes %d bytes %s err %q",
				f.worker, W, f.got.Size, f.got.File, f.got.Err, back, f.alone.Size, f.alone.File, f.alone.Err)
		} else {
			cls = "codec-output-differs"
			if f.where == "direct" {
				cls = "panic"
			}
			what = fmt.Sprintf("%d goroutines calling Encode/Decode of the value on buffers of their own: %s %s", W, f.where, f.what)
		}
		out.fails = append(out.fails, fail{Class: cls,
			What: fmt.Sprintf("%d independent writers sharing ONE Codec value (%s; page buffer %d, v%d pages, %d rows each), %d disagreements: %s",
				W, mc.Name, c.PageBuf, c.Version, c.Rows, len(fails), what),
			Detail: detail})
		return out
	}
	out.notes = append(out.notes, fmt.Sprintf("%d Codec values, each shared by 3-4 writers and direct Encode/Decode callers (time spent per codec: %v)", len(cat), spent))
	return out
}

func init() {
	scenarios["M-shared-codec"] = scenSharedCodec
}
