// C15, scenario K: histories with REDUNDANT Close calls, followed by further
// independent use.
//
// Everything that reads pages borrows from process-wide pools (bufio readers
// per read buffer size, page buffers, value slices, decompressors) and gives
// the borrowed things back in Close.  `defer x.Close()` plus an explicit,
// error-checked `x.Close()` is the common way to write that in Go, so objects
// are closed twice all the time; every Close of the read side of the library
// forgets what it gave back (so the second call is a no-op), and the
// documentation of Rows defines what a closed reader does ("after calling
// Close, all attempts to read more rows will return io.EOF").  What a second
// Close must never do is to give the same thing back twice: from then on two
// unrelated readers anywhere in the process - two columns of one Rows, or
// readers of different files in different goroutines - own the same buffer.
// Nothing goes wrong in the history that closed twice; the independent readers
// that come later, serial or concurrent, read each other's data.
//
// The scenario is quantified over a catalogue of closers (every kind of
// object of the read side that has a Close), over how far the object was used
// before (not at all, a little, to the end), over the number of Close calls
// (1..3) and over who runs the histories (one goroutine, or several at once).
// After the histories of one kind, independent readers and a writer - each
// with a File of its own - do their work serially, concurrently and serially
// again; the predicate is the property itself: every one of them reads the
// rows, pages and typed values of its file (the serial answer computed before
// anything was closed twice) and writes the same bytes.
//
// Not in the catalogue: a second Release of a page (each owner releases once:
// assumption P1) and a second Close of a Writer/GenericWriter (its
// documentation says the writer can only be reused after Reset).
package main

import (
	"bytes"
	"fmt"
	"io"
	"math/rand"
	"runtime"
	"strings"

	"github.com/parquet-go/parquet-go"
)

// kEnv is what the histories of one instance work on.
type kEnv struct {
	refs  []*fileRef
	rbuf  int // 0: default read buffer size
	sync  []*parquet.File
	async []*parquet.File
}

// buffer makes a Buffer of the history's own (a Buffer is not among the things
// the property lets goroutines share: reading one writes to it) with the first
// rows of a file.
func (e *kEnv) buffer(i int) (*parquet.GenericBuffer[c15Row], error) {
	spec := e.refs[i].spec
	gb := parquet.NewGenericBuffer[c15Row]()
	rows := make([]c15Row, 90)
	for j := range rows {
		rows[j] = makeRow(&spec, int64(j))
	}
	_, err := gb.Write(rows)
	return gb, err
}

func (e *kEnv) fileOpts(async bool) []parquet.FileOption {
	var opts []parquet.FileOption
	if e.rbuf > 0 {
		opts = append(opts, parquet.ReadBufferSize(e.rbuf))
	}
	if async {
		opts = append(opts, parquet.FileReadMode(parquet.ReadModeAsync))
	}
	return opts
}

func (e *kEnv) open(i int, async bool) (*parquet.File, error) {
	data := e.refs[i].data
	return parquet.OpenFile(bytes.NewReader(data), int64(len(data)), e.fileOpts(async)...)
}

// kHistory is one history "make the object, use it, Close it Closes times".
type kHistory struct {
	Kind   string `json:"closer"`
	File   int    `json:"file"`
	RG     int    `json:"row_group"`
	Col    int    `json:"column"`
	Use    int    `json:"use"` // 0 not used, 1 a little, 2 to the end
	Closes int    `json:"closes"`
}

func (h kHistory) String() string {
	return fmt.Sprintf("%s of file %d (row group %d, column %d), %s, Close x%d", h.Kind, h.File, h.RG, h.Col, [...]string{"not used", "used a little", "read to the end"}[h.Use], h.Closes)
}

// usePages reads pages of a page reader: none, two, or all.
func usePages(pages parquet.Pages, use int) error {
	if use == 0 {
		return nil
	}
	for n := 0; use == 2 || n < 2; n++ {
		pg, err := pages.ReadPage()
		if err != nil {
			if err == io.EOF {
				return nil
			}
			return err
		}
		_, err = pageValues(pg)
		parquet.Release(pg)
		if err != nil {
			return err
		}
	}
	return nil
}

func useRows(rows parquet.RowReader, use int) error {
	if use == 0 {
		return nil
	}
	buf := make([]parquet.Row, 37)
	for n := 0; use == 2 || n < 2; n++ {
		k, err := rows.ReadRows(buf)
		if err != nil {
			if err == io.EOF {
				return nil
			}
			return err
		}
		if k == 0 && n > 10000 {
			return fmt.Errorf("no progress")
		}
	}
	return nil
}

// kSubset is the destination of the converted row group: some columns of
// c15Row and one the files do not have.
type kSubset struct {
	ID    int64  `parquet:"id"`
	S     string `parquet:"s"`
	Extra *int64 `parquet:"extra,optional"`
}

// closers is the catalogue: each entry makes the object, uses it and returns
// its Close.
var closers = []struct {
	name string
	open func(e *kEnv, h kHistory) (closeFn func() error, err error)
}{
	{"FileColumnChunk.Pages", func(e *kEnv, h kHistory) (func() error, error) {
		pages := e.sync[h.File].RowGroups()[h.RG].ColumnChunks()[h.Col].Pages()
		return pages.Close, usePages(pages, h.Use)
	}},
	{"FileColumnChunk.Pages (async read mode)", func(e *kEnv, h kHistory) (func() error, error) {
		pages := e.async[h.File].RowGroups()[h.RG].ColumnChunks()[h.Col].Pages()
		return pages.Close, usePages(pages, h.Use)
	}},
	{"AsyncPages(FileColumnChunk.Pages)", func(e *kEnv, h kHistory) (func() error, error) {
		pages := parquet.AsyncPages(e.sync[h.File].RowGroups()[h.RG].ColumnChunks()[h.Col].Pages())
		return pages.Close, usePages(pages, h.Use)
	}},
	{"Column.Pages", func(e *kEnv, h kHistory) (func() error, error) {
		pages := e.sync[h.File].Root().Column(e.refs[h.File].colNames[h.Col]).Pages()
		return pages.Close, usePages(pages, h.Use)
	}},
	{"RowGroup.Rows", func(e *kEnv, h kHistory) (func() error, error) {
		rows := e.sync[h.File].RowGroups()[h.RG].Rows()
		return rows.Close, useRows(rows, h.Use)
	}},
	{"RowGroup.Rows (async read mode)", func(e *kEnv, h kHistory) (func() error, error) {
		rows := e.async[h.File].RowGroups()[h.RG].Rows()
		return rows.Close, useRows(rows, h.Use)
	}},
	{"Reader", func(e *kEnv, h kHistory) (func() error, error) {
		r := parquet.NewReader(e.sync[h.File])
		return r.Close, useRows(r, h.Use)
	}},
	{"GenericReader[T]", func(e *kEnv, h kHistory) (func() error, error) {
		r := parquet.NewGenericReader[c15Row](e.sync[h.File])
		var err error
		if h.Use > 0 {
			rows := make([]c15Row, 41)
			for n := 0; h.Use == 2 || n < 2; n++ {
				if _, err = r.Read(rows); err != nil {
					if err == io.EOF {
						err = nil
					}
					break
				}
			}
		}
		return r.Close, err
	}},
	{"MultiRowGroup.Rows", func(e *kEnv, h kHistory) (func() error, error) {
		rows := parquet.MultiRowGroup(e.sync[h.File].RowGroups()...).Rows()
		return rows.Close, useRows(rows, h.Use)
	}},
	{"MultiRowGroup column chunk Pages", func(e *kEnv, h kHistory) (func() error, error) {
		pages := parquet.MultiRowGroup(e.sync[h.File].RowGroups()...).ColumnChunks()[h.Col].Pages()
		return pages.Close, usePages(pages, h.Use)
	}},
	{"ConvertRowGroup.Rows", func(e *kEnv, h kHistory) (func() error, error) {
		rg := e.sync[h.File].RowGroups()[h.RG]
		conv, err := parquet.Convert(parquet.SchemaOf(kSubset{}), rg.Schema())
		if err != nil {
			return nil, err
		}
		rows := parquet.ConvertRowGroup(rg, conv).Rows()
		return rows.Close, useRows(rows, h.Use)
	}},
	{"Buffer.Rows", func(e *kEnv, h kHistory) (func() error, error) {
		gb, err := e.buffer(h.File)
		if err != nil {
			return nil, err
		}
		rows := gb.Rows()
		return rows.Close, useRows(rows, h.Use)
	}},
	{"Buffer column chunk Pages", func(e *kEnv, h kHistory) (func() error, error) {
		gb, err := e.buffer(h.File)
		if err != nil {
			return nil, err
		}
		pages := gb.ColumnChunks()[h.Col].Pages()
		return pages.Close, usePages(pages, h.Use)
	}},
}

func closerNames() string {
	var names []string
	for _, c := range closers {
		names = append(names, c.name)
	}
	return strings.Join(names, "; ")
}

// runHistory runs one history; what it returns is a failure of the history
// itself (a panic, an error of the use before the first Close).
func runHistory(e *kEnv, h kHistory) (bad string) {
	defer func() {
		if r := recover(); r != nil {
			stack := make([]byte, 3<<10)
			stack = stack[:runtime.Stack(stack, false)]
			bad = fmt.Sprintf("panic: %v\n%s", r, stack)
		}
	}()
	for _, c := range closers {
		if c.name != h.Kind {
			continue
		}
		closeFn, err := c.open(e, h)
		if closeFn != nil {
			// the idiom: a deferred Close and an explicit one
			defer closeFn()
			for k := 1; k < h.Closes; k++ {
				closeFn()
			}
		}
		if err != nil {
			return "use before Close: " + err.Error()
		}
	}
	return ""
}

// kCheck is the further independent use: one reader of a file of its own.
func kCheck(e *kEnv, s *slot, i int, seed int64, what string) {
	rng := rand.New(rand.NewSource(seed))
	ref := e.refs[i]
	f, err := e.open(i, false)
	if err != nil {
		s.failf("open-failed", "%s: %v", what, err)
		return
	}
	g := rng.Intn(len(ref.rgRows))
	switch rng.Intn(4) {
	case 0:
		readRowsCheck(s, fmt.Sprintf("%s: file %d RowGroup(%d).Rows()", what, i, g), f.RowGroups()[g].Rows(), ref.rows[g], rng, "rows-differ")
	case 1:
		for col := 0; col < ref.ncols && len(s.fails) == 0; col++ {
			readPagesCheck(s, fmt.Sprintf("%s: file %d row group %d column %s Pages()", what, i, g, ref.colNames[col]), f.RowGroups()[g].ColumnChunks()[col], ref, g, col, "rows-differ")
		}
	case 2:
		t := &typedRows{r: parquet.NewGenericReader[c15Row](f), want: ref.typed}
		defer t.close()
		for pos := 0; pos < len(ref.typed); {
			n, err, bad := t.read(1+rng.Intn(90), pos)
			if bad != "" {
				s.failf("rows-differ", "%s: file %d GenericReader[T]: %s", what, i, bad)
				return
			}
			pos += n
			s.out += n
			if err != nil {
				if err != io.EOF || pos != len(ref.typed) {
					s.failf("rows-differ", "%s: file %d GenericReader[T]: %v at row %d of %d", what, i, err, pos, len(ref.typed))
				}
				return
			}
			if n == 0 {
				s.failf("rows-differ", "%s: file %d GenericReader[T]: no progress at row %d", what, i, pos)
				return
			}
		}
	default:
		fa, err := e.open(i, true)
		if err != nil {
			s.failf("open-failed", "%s: %v", what, err)
			return
		}
		readRowsCheck(s, fmt.Sprintf("%s: file %d (async read mode) RowGroup(%d).Rows()", what, i, g), fa.RowGroups()[g].Rows(), ref.rows[g], rng, "rows-differ")
	}
}

// kWrite: an independent writer of the rows of file i writes the same bytes.
func kWrite(e *kEnv, s *slot, i int, what string) {
	spec := e.refs[i].spec
	data, err := buildFile(&spec)
	if err != nil {
		s.failf("bytes-differ", "%s: writing the rows of file %d again: %v", what, i, err)
		return
	}
	s.out += len(data)
	if !bytes.Equal(data, e.refs[i].data) {
		s.failf("bytes-differ", "%s: a writer of the rows of file %d wrote %d bytes (sha %s), the serial run before %d bytes (sha %s)", what, i, len(data), sha(data), len(e.refs[i].data), sha(e.refs[i].data))
	}
}

// kAfter runs the independent readers and the writer serially, concurrently
// and serially again.
func kAfter(e *kEnv, rng *rand.Rand, G int, out *scenOut) {
	seeds := make([]int64, G)
	for i := range seeds {
		seeds[i] = rng.Int63()
	}
	serial := func(what string) {
		grp := &group{}
		grp.Go(func(s *slot) {
			for w := 0; w < G && len(s.fails) == 0; w++ {
				kCheck(e, s, w%len(e.refs), seeds[w], what)
			}
			if len(s.fails) == 0 {
				kWrite(e, s, 0, what)
			}
		})
		grp.Wait(out)
		out.goroutines-- // not a concurrent worker
	}
	serial("serial readers")
	if len(out.fails) > 0 {
		return
	}
	start := make(chan struct{})
	grp := &group{}
	for w := 0; w <= G; w++ {
		w := w
		grp.Go(func(s *slot) {
			<-start
			if w == G {
				kWrite(e, s, G%len(e.refs), "concurrent readers and a writer")
				return
			}
			kCheck(e, s, w%len(e.refs), seeds[w], "concurrent readers")
		})
	}
	close(start)
	grp.Wait(out)
	if len(out.fails) > 0 {
		return
	}
	serial("serial readers after the concurrent ones")
}

func scenCloses(rng *rand.Rand, p, scale int) *scenOut {
	out := &scenOut{}
	e := &kEnv{}
	if rng.Intn(3) == 0 {
		e.rbuf = 256 + rng.Intn(4096)
	}
	nFiles := 2 + rng.Intn(2)
	for i := 0; i < nFiles; i++ {
		spec := randomSpec(rng, 0)
		spec.Rows = []int{260, 420, 900}[scale] + rng.Intn(120)
		spec.RGRows = int64(spec.Rows/2 + 1)
		ref, err := buildRef(spec)
		if err != nil {
			out.failf("serial-run-failed", "scenario K: %v (spec %+v)", err, spec)
			return out
		}
		e.refs = append(e.refs, ref)
		fs, err := e.open(i, false)
		var fa *parquet.File
		if err == nil {
			fa, err = e.open(i, true)
		}
		if err != nil {
			out.failf("open-failed", "scenario K: %v", err)
			return out
		}
		e.sync, e.async = append(e.sync, fs), append(e.async, fa)
	}
	G := []int{4, 5, 8}[scale]
	// the independent use passes before anything is closed twice
	kAfter(e, rng, G, out)
	if len(out.fails) > 0 {
		for i := range out.fails {
			out.fails[i].What = "before any redundant Close: " + out.fails[i].What
		}
		return out
	}
	order := rng.Perm(len(closers))
	for _, ci := range order {
		kind := closers[ci].name
		n := []int{6, 8, 16}[scale] + rng.Intn(6)
		hs := make([]kHistory, n)
		redundant := 0
		for i := range hs {
			f := rng.Intn(nFiles)
			hs[i] = kHistory{Kind: kind, File: f, RG: rng.Intn(len(e.refs[f].rgRows)), Col: rng.Intn(e.refs[f].ncols), Use: rng.Intn(3), Closes: 2 + rng.Intn(4)/3}
			if rng.Intn(5) == 0 {
				hs[i].Closes = 1
			}
			if hs[i].Closes > 1 {
				redundant++
			}
		}
		workers := 1
		if rng.Intn(2) == 0 {
			workers = 2 + rng.Intn(3)
		}
		bads := make([]string, n)
		grp := &group{}
		for w := 0; w < workers; w++ {
			w := w
			grp.Go(func(s *slot) {
				for i := w; i < n; i += workers {
					bads[i] = runHistory(e, hs[i])
					s.out++
				}
			})
		}
		scratch := &scenOut{}
		grp.Wait(scratch)
		out.fails = append(out.fails, scratch.fails...)
		how := "one goroutine"
		if workers > 1 {
			how = fmt.Sprintf("%d goroutines", workers)
		}
		for i, bad := range bads {
			if bad == "" {
				continue
			}
			cls := "rows-differ"
			if strings.HasPrefix(bad, "panic:") {
				cls = "panic"
			}
			out.fails = append(out.fails, fail{Class: cls, What: fmt.Sprintf("history with redundant Close calls (%d histories of this closer run by %s): %v: %s", n, how, hs[i], core1(bad)), Detail: map[string]any{"history": hs[i], "file": e.refs[hs[i].File].spec, "read_buffer_size": e.rbuf, "what": bad}})
			return out
		}
		if len(out.fails) > 0 {
			return out
		}
		after := &scenOut{}
		kAfter(e, rng, G, after)
		out.goroutines += after.goroutines
		out.outSize += after.outSize
		if len(after.fails) > 0 {
			// the smallest history that is enough is not searched for in this
			// process (what was given back twice stays in the pools): the closer,
			// the histories of this block and the files are the failing input
			specs := make([]fileSpec, len(e.refs))
			for i, r := range e.refs {
				specs[i] = r.spec
			}
			f := after.fails[0]
			f.What = fmt.Sprintf("independent use after %d histories 'open, use, Close, Close again' of %s (%d with a redundant Close, run by %s; read buffer size %d, 0 = default; %d independent readers with a File each): %s", n, kind, redundant, how, e.rbuf, G, f.What)
			f.Detail = map[string]any{"closer": kind, "histories": hs, "files": specs, "read_buffer_size": e.rbuf, "readers": G, "stack": f.Detail}
			out.fails = append(out.fails, f)
			return out
		}
	}
	return out
}

// core1 is the first line of a text.
func core1(s string) string {
	if i := strings.IndexByte(s, '\n'); i >= 0 {
		return s[:i]
	}
	return s
}

func init() {
	scenarios["K-redundant-close"] = scenCloses
	isolated["K-redundant-close"] = true
}
