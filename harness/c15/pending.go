// C15, scenario D-parent-pending: concurrently filled row groups committed to
// a writer that is itself being filled.
//
// ConcurrentRowGroupWriter.Commit documents: "If the parent writer has any
// pending rows buffered, they will be flushed before this row group is
// written."  The serial meaning of a program of calls
//
//	rows/cols/typed N   the parent writer receives the next N rows through
//	                    WriteRows / ColumnWriters()[i].WriteRowValues (one
//	                    goroutine per ColumnWriter in the concurrent run) /
//	                    the typed Write
//	fill RG N           row group RG (BeginRowGroup at its first use, reused
//	                    after Commit) receives the next N rows from a goroutine
//	                    of its own, through WriteRows or its ColumnWriters
//	flush               Flush of the parent writer
//	commit RG           join of the goroutines of RG, then RG.Commit()
//
// is a list of row groups (pSpec): the rows pending in the parent become a
// row group at every flush, before every commit and at Close; a committed row
// group follows.  The scenario runs the program serially and concurrently,
// compares the two files byte for byte, and compares the row groups and rows
// read back with the specification and with the file a single writer produces
// from WriteRows/Flush alone.  The specification is also computed by the
// extracted model (Conc/RowGroups.v commit_all, oracle command c15.commit:
// every pending segment of the parent is a writer of its own, committed where
// it is flushed) and compared with the row groups of the file.
//
// A failure of the specification does not depend on the schedule: the failing
// program is shrunk on the serial run.
package main

import (
	"bytes"
	"encoding/json"
	"fmt"
	"io"
	"math/rand"
	"runtime"
	"strings"

	"github.com/parquet-go/parquet-go"

	"verif/harness/core"
	"verif/harness/gen"
)

type pStep struct {
	Op     string `json:"op"` // rows | cols | typed | flush | fill | commit
	N      int    `json:"n,omitempty"`
	RG     int    `json:"rg,omitempty"`
	ByCols bool   `json:"by_cols,omitempty"`
}

func (s pStep) String() string {
	switch s.Op {
	case "flush":
		return "flush"
	case "commit":
		return fmt.Sprintf("commit(rg%d)", s.RG)
	case "fill":
		if s.ByCols {
			return fmt.Sprintf("fill(rg%d,%d,cols)", s.RG, s.N)
		}
		return fmt.Sprintf("fill(rg%d,%d)", s.RG, s.N)
	}
	return fmt.Sprintf("%s(%d)", s.Op, s.N)
}

// pPlan is a reproducible program; it is the replay of its violations.
type pPlan struct {
	Flavour string   `json:"flavour"` // "gen": gen.Case schema and rows; "struct": c15Row
	API     string   `json:"api"`     // "generic": NewGenericWriter; "writer": NewWriter
	Case    gen.Case `json:"case"`
	Salt    int64    `json:"salt,omitempty"`
	PageBuf int      `json:"page_buffer_size,omitempty"`
	Codec   string   `json:"codec,omitempty"`
	Version int      `json:"data_page_version,omitempty"`
	Steps   []pStep  `json:"steps"`
}

func (p *pPlan) total() int {
	n := 0
	for _, s := range p.Steps {
		n += s.N
	}
	return n
}

func (p *pPlan) text() string {
	parts := make([]string, len(p.Steps))
	for i, s := range p.Steps {
		parts[i] = s.String()
	}
	return strings.Join(parts, " ")
}

func isParentWrite(op string) bool { return op == "rows" || op == "cols" || op == "typed" }

// pSpec is the serial specification: the row groups of the file, as indexes
// into the input rows.
func pSpec(steps []pStep) (groups [][]int) {
	var pend []int
	held := map[int][]int{}
	next := 0
	take := func(n int) []int {
		r := make([]int, n)
		for i := range r {
			r[i] = next + i
		}
		next += n
		return r
	}
	flush := func() {
		if len(pend) > 0 {
			groups = append(groups, pend)
			pend = nil
		}
	}
	for _, s := range steps {
		switch {
		case isParentWrite(s.Op):
			pend = append(pend, take(s.N)...)
		case s.Op == "fill":
			held[s.RG] = append(held[s.RG], take(s.N)...)
		case s.Op == "flush":
			flush()
		case s.Op == "commit":
			flush()
			if len(held[s.RG]) > 0 {
				groups = append(groups, held[s.RG])
				held[s.RG] = nil
			}
		}
	}
	flush()
	return groups
}

// pModelQuery renders the program for the extracted commit_all: every pending
// segment of the parent writer and every filling of a row group between two
// commits is one writer with its batches; order lists the writers as they are
// committed.  The answer is the file as offset,count,rows... per row group.
func pModelQuery(steps []pStep) (query string, nwriters int) {
	var batches [][]string // per writer: its batches "a-b" (row index range)
	var order []int
	parent := -1
	held := map[int]int{}
	next := 0
	rng := func(n int) string {
		s := fmt.Sprintf("%x-%x", next, next+n)
		next += n
		return s
	}
	flush := func() {
		if parent >= 0 {
			order = append(order, parent)
			parent = -1
		}
	}
	for _, s := range steps {
		switch {
		case isParentWrite(s.Op):
			if s.N == 0 {
				continue
			}
			if parent < 0 {
				parent = len(batches)
				batches = append(batches, nil)
			}
			batches[parent] = append(batches[parent], rng(s.N))
		case s.Op == "fill":
			if s.N == 0 {
				continue
			}
			w, ok := held[s.RG]
			if !ok {
				w = len(batches)
				batches = append(batches, nil)
				held[s.RG] = w
			}
			batches[w] = append(batches[w], rng(s.N))
		case s.Op == "flush":
			flush()
		case s.Op == "commit":
			flush()
			if w, ok := held[s.RG]; ok {
				order = append(order, w)
				delete(held, s.RG)
			}
		}
	}
	flush()
	if len(batches) == 0 {
		return "", 0
	}
	ws := make([]string, len(batches))
	for i, b := range batches {
		ws[i] = strings.Join(b, ",")
	}
	os := make([]string, len(order))
	for i, o := range order {
		os[i] = fmt.Sprintf("%x", o)
	}
	ord := strings.Join(os, ",")
	if ord == "" {
		ord = "_"
	}
	return "c15.commit " + ord + " " + strings.Join(ws, ";"), len(batches)
}

// pModelText is the implementation's file in the format of the model's
// answer: for every row group its offset in the flat file, its row count and
// its rows (indexes of the input rows).
func pModelText(groups [][]int) string {
	var parts []string
	off := 0
	for _, g := range groups {
		parts = append(parts, fmt.Sprintf("%x", off), fmt.Sprintf("%x", len(g)))
		for _, r := range g {
			parts = append(parts, fmt.Sprintf("%x", r))
		}
		off += 2 + len(g)
	}
	if len(parts) == 0 {
		return "_"
	}
	return strings.Join(parts, ",")
}

// ---- input ----------------------------------------------------------------

type pInput struct {
	opts  []parquet.WriterOption
	rows  []parquet.Row
	typed []c15Row
	ncols int
	err   error
}

func pBuild(p *pPlan) *pInput {
	in := &pInput{}
	n := p.total()
	switch p.Flavour {
	case "struct":
		schema := parquet.SchemaOf(c15Row{})
		in.opts = []parquet.WriterOption{schema, parquet.PageBufferSize(p.PageBuf), parquet.Compression(gen.Codecs[p.Codec]), parquet.DataPageVersion(p.Version)}
		spec := &fileSpec{Salt: p.Salt}
		in.typed = make([]c15Row, n)
		in.rows = make([]parquet.Row, n)
		for i := range in.typed {
			in.typed[i] = makeRow(spec, int64(i))
			in.rows[i] = schema.Deconstruct(nil, &in.typed[i])
		}
		in.ncols = len(schema.Columns())
	default:
		cs := p.Case
		cs.NRows = n
		b := cs.Build()
		b.Opts.MaxRows = 0 // a ConcurrentRowGroupWriter refuses rows beyond MaxRowsPerRowGroup
		in.opts = append([]parquet.WriterOption{b.Schema}, b.Opts.WriterOptions(b.Root)...)
		in.rows = b.Rows
		in.ncols = len(b.Root.Leaves())
	}
	return in
}

// pWriter is what parquet.Writer and parquet.GenericWriter[T] have in common.
type pWriter interface {
	WriteRows([]parquet.Row) (int, error)
	ColumnWriters() []*parquet.ColumnWriter
	BeginRowGroup() *parquet.ConcurrentRowGroupWriter
	Flush() error
	Close() error
}

func pNewWriter(p *pPlan, in *pInput, out io.Writer) (w pWriter, typed func([]c15Row) error) {
	switch {
	case p.API == "writer":
		pw := parquet.NewWriter(out, in.opts...)
		return pw, func(rows []c15Row) error {
			for i := range rows {
				if err := pw.Write(&rows[i]); err != nil {
					return err
				}
			}
			return nil
		}
	case p.Flavour == "struct":
		gw := parquet.NewGenericWriter[c15Row](out, in.opts...)
		return gw, func(rows []c15Row) error {
			n, err := gw.Write(rows)
			if err == nil && n != len(rows) {
				err = fmt.Errorf("Write of %d rows returned %d", len(rows), n)
			}
			return err
		}
	default:
		return parquet.NewGenericWriter[any](out, in.opts...), nil
	}
}

func cloneRows(rows []parquet.Row) []parquet.Row {
	out := make([]parquet.Row, len(rows))
	for i := range rows {
		out[i] = rows[i].Clone()
	}
	return out
}

// writeRowsBatched makes WriteRows calls of random sizes.
func writeRowsBatched(w interface {
	WriteRows([]parquet.Row) (int, error)
}, rows []parquet.Row, r *rand.Rand, yield bool) error {
	for j := 0; j < len(rows); {
		m := 1 + r.Intn(90)
		if j+m > len(rows) {
			m = len(rows) - j
		}
		n, err := w.WriteRows(cloneRows(rows[j : j+m]))
		if err != nil {
			return err
		}
		if n != m {
			return fmt.Errorf("WriteRows of %d rows returned %d", m, n)
		}
		j += m
		if r.Intn(3) == 0 && yield { // the draw is made in both runs: same batches
			runtime.Gosched()
		}
	}
	return nil
}

// pExec runs the program on a fresh writer.  In the concurrent run every fill
// has a goroutine of its own (fills of one row group are chained: a row group
// is written sequentially), the main goroutine goes on with the following
// steps and joins the goroutines of a row group before its Commit; a "cols"
// step of the parent uses one goroutine per ColumnWriter.
func pExec(p *pPlan, in *pInput, concurrent bool, out *scenOut) (data []byte, err error) {
	var buf bytes.Buffer
	w, typed := pNewWriter(p, in, &buf)
	type rgState struct {
		rg   *parquet.ConcurrentRowGroupWriter
		last chan struct{}
		errs []*error
	}
	rgs := map[int]*rgState{}
	grp := &group{}
	defer func() {
		if concurrent {
			grp.Wait(out)
		}
	}()
	next := 0
	for si, s := range p.Steps {
		lo, hi := next, next+s.N
		next = hi
		switch s.Op {
		case "rows":
			if err := writeRowsBatched(w, in.rows[lo:hi], rand.New(rand.NewSource(int64(si))), false); err != nil {
				return nil, fmt.Errorf("step %d %v: %w", si, s, err)
			}
		case "typed":
			if typed == nil {
				return nil, fmt.Errorf("step %d %v: no typed Write in this flavour", si, s)
			}
			if err := typed(in.typed[lo:hi]); err != nil {
				return nil, fmt.Errorf("step %d %v: %w", si, s, err)
			}
		case "cols":
			cols := w.ColumnWriters()
			if len(cols) != in.ncols {
				return nil, fmt.Errorf("step %d %v: %d column writers for %d leaf columns", si, s, len(cols), in.ncols)
			}
			vals := columnValues(in.rows[lo:hi], in.ncols)
			errs := make([]error, len(cols))
			if concurrent {
				g2 := &group{}
				for c := range cols {
					c := c
					g2.Go(func(sl *slot) { _, errs[c] = cols[c].WriteRowValues(vals[c]); sl.out = hi - lo })
				}
				g2.Wait(out)
			} else {
				for c := range cols {
					_, errs[c] = cols[c].WriteRowValues(vals[c])
				}
			}
			for c, e := range errs {
				if e != nil {
					return nil, fmt.Errorf("step %d %v: column %d: %w", si, s, c, e)
				}
			}
		case "flush":
			if err := w.Flush(); err != nil {
				return nil, fmt.Errorf("step %d flush: %w", si, err)
			}
		case "fill":
			st := rgs[s.RG]
			if st == nil {
				st = &rgState{rg: w.BeginRowGroup()}
				rgs[s.RG] = st
			}
			part := in.rows[lo:hi]
			ferr := new(error)
			st.errs = append(st.errs, ferr)
			rg, byCols, seed := st.rg, s.ByCols, int64(si)
			fill := func(yield bool) error {
				if byCols {
					cols := rg.ColumnWriters()
					vals := columnValues(part, in.ncols)
					for c := range cols {
						if _, e := cols[c].WriteRowValues(vals[c]); e != nil {
							return e
						}
					}
					return nil
				}
				return writeRowsBatched(rg, part, rand.New(rand.NewSource(seed)), yield)
			}
			if concurrent {
				prev, done := st.last, make(chan struct{})
				st.last = done
				grp.Go(func(sl *slot) {
					defer close(done)
					if prev != nil {
						<-prev
					}
					*ferr = fill(true)
					sl.out = len(part)
				})
			} else {
				*ferr = fill(false)
			}
		case "commit":
			st := rgs[s.RG]
			if st == nil {
				st = &rgState{rg: w.BeginRowGroup()}
				rgs[s.RG] = st
			}
			if st.last != nil {
				<-st.last
			}
			for _, e := range st.errs {
				if *e != nil {
					return nil, fmt.Errorf("step %d %v: filling the row group: %w", si, s, *e)
				}
			}
			st.errs = nil
			if _, err := st.rg.Commit(); err != nil {
				return nil, fmt.Errorf("step %d %v: %w", si, s, err)
			}
		default:
			return nil, fmt.Errorf("step %d: unknown op %q", si, s.Op)
		}
	}
	for _, st := range rgs {
		if st.last != nil {
			<-st.last
		}
	}
	if err := w.Close(); err != nil {
		return nil, fmt.Errorf("close: %w", err)
	}
	return buf.Bytes(), nil
}

// pReference writes the row groups of the specification with one writer and
// nothing but WriteRows and Flush.
func pReference(p *pPlan, in *pInput, groups [][]int) ([]byte, error) {
	var buf bytes.Buffer
	w, _ := pNewWriter(p, in, &buf)
	for gi, g := range groups {
		if len(g) == 0 {
			continue
		}
		rows := make([]parquet.Row, len(g))
		for i, r := range g {
			rows[i] = in.rows[r].Clone()
		}
		if n, err := w.WriteRows(rows); err != nil || n != len(rows) {
			return nil, fmt.Errorf("reference writer: row group %d: WriteRows = %d, %v", gi, n, err)
		}
		if err := w.Flush(); err != nil {
			return nil, fmt.Errorf("reference writer: flush %d: %w", gi, err)
		}
	}
	if err := w.Close(); err != nil {
		return nil, fmt.Errorf("reference writer: close: %w", err)
	}
	return buf.Bytes(), nil
}

// pLayout reads a file back: canonical rows per row group.
func pLayout(data []byte) (groups [][]string, err error) {
	f, err := parquet.OpenFile(bytes.NewReader(data), int64(len(data)))
	if err != nil {
		return nil, err
	}
	buf := make([]parquet.Row, 50)
	for _, rg := range f.RowGroups() {
		var g []string
		rows := rg.Rows()
		idle := 0
		for {
			n, err := rows.ReadRows(buf)
			for _, r := range buf[:n] {
				g = append(g, canonRow(r))
			}
			if err == io.EOF {
				break
			}
			if err != nil {
				rows.Close()
				return groups, err
			}
			if n == 0 {
				if idle++; idle > 3 {
					rows.Close()
					return groups, fmt.Errorf("no progress")
				}
			}
		}
		rows.Close()
		if int64(len(g)) != rg.NumRows() {
			return groups, fmt.Errorf("row group %d: NumRows = %d, %d rows read", len(groups), rg.NumRows(), len(g))
		}
		groups = append(groups, g)
	}
	return groups, nil
}

func sizes[T any](groups [][]T) []int {
	s := make([]int, len(groups))
	for i, g := range groups {
		s[i] = len(g)
	}
	return s
}

// pIdentify maps the row groups read back onto indexes of the input rows (by
// the canonical rows of the reference file, in order of the specification);
// rows that are not where the specification puts them are looked up by
// content (first unused equal row), -1 when the file holds a foreign row.
func pIdentify(got [][]string, refFlat []string) [][]int {
	byText := map[string][]int{}
	for i, t := range refFlat {
		byText[t] = append(byText[t], i)
	}
	out := make([][]int, len(got))
	pos := 0
	used := make([]bool, len(refFlat))
	var later []([2]int)
	for gi, g := range got {
		out[gi] = make([]int, len(g))
		for ri, t := range g {
			if pos < len(refFlat) && refFlat[pos] == t && !used[pos] {
				out[gi][ri] = pos
				used[pos] = true
			} else {
				out[gi][ri] = -1
				later = append(later, [2]int{gi, ri})
			}
			pos++
		}
	}
	for _, l := range later {
		t := got[l[0]][l[1]]
		for _, i := range byText[t] {
			if !used[i] {
				used[i] = true
				out[l[0]][l[1]] = i
				break
			}
		}
	}
	return out
}

// pVerdict is the property predicate on one file of the program: the row
// groups and rows read back are those of the serial specification.
type pVerdict struct {
	bad    string // "" when the predicate holds
	ids    [][]int
	nrows  int
	refErr error
}

func pJudge(p *pPlan, in *pInput, data []byte) (v pVerdict) {
	spec := pSpec(p.Steps)
	ref, err := pReference(p, in, spec)
	if err != nil {
		v.refErr = err
		return v
	}
	refGroups, err := pLayout(ref)
	if err != nil {
		v.refErr = fmt.Errorf("reference file cannot be read back: %w", err)
		return v
	}
	var refFlat []string
	for _, g := range refGroups {
		refFlat = append(refFlat, g...)
	}
	if fmt.Sprint(sizes(refGroups)) != fmt.Sprint(sizes(spec)) {
		v.refErr = fmt.Errorf("a single writer given WriteRows/Flush per row group produced row groups of %v rows for %v", sizes(refGroups), sizes(spec))
		return v
	}
	got, err := pLayout(data)
	if err != nil {
		v.bad = fmt.Sprintf("the file cannot be read back: %v", err)
		return v
	}
	// positions in the reference file (written in the order of the
	// specification) -> indexes of the input rows
	var specFlat []int
	for _, g := range spec {
		specFlat = append(specFlat, g...)
	}
	v.ids = pIdentify(got, refFlat)
	for _, g := range v.ids {
		for i, pos := range g {
			if pos >= 0 && pos < len(specFlat) {
				g[i] = specFlat[pos]
			}
		}
	}
	for _, g := range got {
		v.nrows += len(g)
	}
	var flat []string
	for _, g := range got {
		flat = append(flat, g...)
	}
	if len(flat) != len(refFlat) {
		v.bad = fmt.Sprintf("%d rows written, %d rows in the file", len(refFlat), len(flat))
		return v
	}
	for i := range flat {
		if flat[i] != refFlat[i] {
			var flatIDs []int
			for _, g := range v.ids {
				flatIDs = append(flatIDs, g...)
			}
			v.bad = fmt.Sprintf("rows are not in the order of the serial execution: row groups of the file hold %v rows, the specification (pending rows of the writer are flushed before a committed row group) has %v; row %d of the file is input row %d", sizes(got), sizes(spec), i, flatIDs[i])
			return v
		}
	}
	if fmt.Sprint(sizes(got)) != fmt.Sprint(sizes(spec)) {
		v.bad = fmt.Sprintf("the rows are in order but the row groups of the file hold %v rows, the specification has %v", sizes(got), sizes(spec))
	}
	return v
}

// pSerialFails: the serial run of the program violates the specification.
func pSerialFails(p *pPlan) (failed bool) {
	defer func() {
		if r := recover(); r != nil {
			failed = false // a panic is another failure than the one being shrunk
		}
	}()
	in := pBuild(p)
	data, err := pExec(p, in, false, &scenOut{})
	if err != nil {
		return false
	}
	v := pJudge(p, in, data)
	return v.refErr == nil && v.bad != ""
}

func pShrink(p pPlan) pPlan {
	budget := 400
	try := func(q pPlan) bool {
		if budget <= 0 {
			return false
		}
		budget--
		return pSerialFails(&q)
	}
	with := func(steps []pStep) pPlan { q := p; q.Steps = steps; return q }
	for changed := true; changed && budget > 0; {
		changed = false
		for i := 0; i < len(p.Steps); i++ {
			steps := append(append([]pStep(nil), p.Steps[:i]...), p.Steps[i+1:]...)
			if q := with(steps); try(q) {
				p, changed = q, true
				i--
			}
		}
		for i := range p.Steps {
			for _, n := range []int{1, p.Steps[i].N / 2, p.Steps[i].N - 1} {
				if n < 1 || n >= p.Steps[i].N {
					continue
				}
				steps := append([]pStep(nil), p.Steps...)
				steps[i].N = n
				if q := with(steps); try(q) {
					p, changed = q, true
					break
				}
			}
			if p.Steps[i].ByCols {
				steps := append([]pStep(nil), p.Steps...)
				steps[i].ByCols = false
				if q := with(steps); try(q) {
					p, changed = q, true
				}
			}
		}
		if p.Flavour == "gen" {
			for mf := 1; mf < p.Case.MaxFields; mf++ {
				q := p
				q.Case.MaxFields = mf
				if try(q) {
					p, changed = q, true
					break
				}
			}
			if p.Case.MaxDepth > 0 {
				q := p
				q.Case.MaxDepth--
				if try(q) {
					p, changed = q, true
				}
			}
		}
	}
	return p
}

// ---- generation -----------------------------------------------------------

func genPlan(rng *rand.Rand, scale int) pPlan {
	p := pPlan{Flavour: "gen", API: []string{"generic", "writer"}[rng.Intn(2)]}
	if rng.Intn(2) == 0 {
		p.Flavour = "struct"
		p.Salt = rng.Int63()
		p.PageBuf = 64 + rng.Intn(400)
		p.Codec = allCodecs[rng.Intn(len(allCodecs))]
		p.Version = 1 + rng.Intn(2)
	} else {
		p.Case = genCase(rng, scale)
		p.Case.NRows = 0
	}
	big := []int{40, 80, 160}[scale]
	var ops []string
	switch {
	case p.Flavour == "struct":
		ops = []string{"rows", "cols", "typed", "typed"}
	default:
		ops = []string{"rows", "cols"}
	}
	// every program favours one way of filling the parent writer, so that
	// row groups pending through one path only are as frequent as mixtures
	switch rng.Intn(3) {
	case 0:
		ops = []string{ops[rng.Intn(len(ops))]}
	}
	parent := func(max int) {
		for k := rng.Intn(max + 1); k > 0; k-- {
			p.Steps = append(p.Steps, pStep{Op: ops[rng.Intn(len(ops))], N: 1 + rng.Intn(big/2)})
		}
	}
	k := 1 + rng.Intn(4)
	rounds := 1 + rng.Intn(2)
	for r := 0; r < rounds; r++ {
		parent(2)
		if rng.Intn(4) == 0 {
			p.Steps = append(p.Steps, pStep{Op: "flush"})
			parent(1)
		}
		// the row groups of this round
		var use []int
		for g := 0; g < k; g++ {
			if rng.Intn(3) != 0 {
				use = append(use, g)
			}
		}
		if len(use) == 0 {
			use = []int{rng.Intn(k)}
		}
		rng.Shuffle(len(use), func(i, j int) { use[i], use[j] = use[j], use[i] })
		for _, g := range use {
			for f := 1 + rng.Intn(2); f > 0; f-- {
				p.Steps = append(p.Steps, pStep{Op: "fill", RG: g, N: 1 + rng.Intn(big), ByCols: rng.Intn(3) == 0})
			}
			if rng.Intn(3) == 0 {
				parent(1)
			}
		}
		rng.Shuffle(len(use), func(i, j int) { use[i], use[j] = use[j], use[i] })
		for _, g := range use {
			if rng.Intn(3) == 0 {
				parent(1)
			}
			if rng.Intn(8) == 0 {
				p.Steps = append(p.Steps, pStep{Op: "flush"})
			}
			p.Steps = append(p.Steps, pStep{Op: "commit", RG: g})
		}
	}
	parent(2)
	return p
}

// ---- the scenario ---------------------------------------------------------

// pAsk is a model request to be made by the main goroutine (the oracle is
// only used from there).
type pAsk struct {
	Query string
	Impl  string
	Plan  pPlan
}

func pRun(p *pPlan, out *scenOut, shrink bool) {
	in := pBuild(p)
	what := fmt.Sprintf("%s/%s writer, %d rows: %s", p.Flavour, p.API, len(in.rows), core.Trunc(p.text(), 400))
	detail := func(q *pPlan, extra map[string]any) map[string]any {
		m := map[string]any{"plan": q, "program": q.text(), "spec_row_groups": sizes(pSpec(q.Steps))}
		for k, v := range extra {
			m[k] = v
		}
		return m
	}
	sd, serr := pExec(p, in, false, out)
	cd, cerr := pExec(p, in, true, out)
	if len(out.fails) > 0 {
		for i := range out.fails {
			if out.fails[i].Detail == nil {
				out.fails[i].Detail = detail(p, nil)
			}
		}
		return
	}
	if (serr == nil) != (cerr == nil) || (serr != nil && serr.Error() != cerr.Error()) {
		out.fails = append(out.fails, fail{Class: "bytes-differ", What: fmt.Sprintf("row groups committed to a writer with pending rows (%s): serial run ended with %v, concurrent run with %v", what, serr, cerr), Detail: detail(p, nil)})
		return
	}
	if serr != nil {
		out.fails = append(out.fails, fail{Class: "rows-differ", What: fmt.Sprintf("row groups committed to a writer with pending rows (%s): both runs fail with %v", what, serr), Detail: detail(p, nil)})
		return
	}
	if !bytes.Equal(sd, cd) {
		out.fails = append(out.fails, fail{Class: "bytes-differ", What: fmt.Sprintf("%s: the file written concurrently (%d bytes, %s) differs from the file written by the same calls made serially (%d bytes, %s)", what, len(cd), sha(cd), len(sd), sha(sd)), Detail: detail(p, nil)})
	}
	for _, run := range []struct {
		name string
		data []byte
	}{{"concurrent", cd}, {"serial", sd}} {
		v := pJudge(p, in, run.data)
		if v.refErr != nil {
			out.notes = append(out.notes, fmt.Sprintf("pending rows: %v (not a concurrency failure)", v.refErr))
			return
		}
		out.outSize += v.nrows
		if run.name == "concurrent" {
			if q, _ := pModelQuery(p.Steps); q != "" {
				out.asks = append(out.asks, pAsk{Query: q, Impl: pModelText(v.ids), Plan: *p})
			}
		}
		if v.bad != "" {
			q := *p
			if shrink {
				q = pShrink(*p)
			}
			extra := map[string]any{"run": run.name}
			what2 := what
			if shrink && pSerialFails(&q) {
				qin := pBuild(&q)
				if d, err := pExec(&q, qin, false, &scenOut{}); err == nil {
					if v2 := pJudge(&q, qin, d); v2.bad != "" {
						extra["file_row_groups"] = v2.ids
						what2 = fmt.Sprintf("%s/%s writer, shrunk program: %s", q.Flavour, q.API, q.text())
						v.bad = v2.bad
					}
				}
			} else {
				q = *p
				extra["file_row_groups"] = sizes(v.ids)
			}
			out.fails = append(out.fails, fail{Class: "row-order", What: fmt.Sprintf("%s run of [%s]: %s", run.name, what2, v.bad), Detail: detail(&q, extra)})
			return
		}
		if bytes.Equal(sd, cd) {
			break // one verdict for both
		}
	}
}

// pCorpus enumerates the small programs "[A(3)] [B(2)] fill(rg0,4) commit(rg0)
// [C(2)]" for every choice of A and B among the ways of filling the parent
// writer (and none), with and without a further write C after the Commit, on
// both writer APIs of both flavours: every ordered mixture of two write paths
// pending before a Commit.
func pCorpus(rng *rand.Rand) (plans []pPlan) {
	cheap := []string{"none", "snappy", "lz4"} // the corpus is about the order of calls, not about codecs
	cs := gen.Case{Seed: rng.Int63(), MaxDepth: 1, MaxFields: 3, Codecs: cheap, NullBias: 2}
	salt := rng.Int63()
	k := 0
	for _, flavour := range []string{"struct", "gen"} {
		ops := []string{"", "rows", "cols", "typed"}
		if flavour == "gen" {
			ops = ops[:3]
		}
		for _, api := range []string{"generic", "writer"} {
			for _, a := range ops {
				for _, b := range ops {
					for _, c := range []string{"", ops[1+k%(len(ops)-1)]} {
						p := pPlan{Flavour: flavour, API: api}
						if flavour == "struct" {
							p.Salt, p.PageBuf, p.Codec, p.Version = salt, []int{64, 4096}[k%2], cheap[k%len(cheap)], 1+k/2%2
						} else {
							p.Case = cs
						}
						if a != "" {
							p.Steps = append(p.Steps, pStep{Op: a, N: 3})
						}
						if b != "" {
							p.Steps = append(p.Steps, pStep{Op: b, N: 2})
						}
						p.Steps = append(p.Steps, pStep{Op: "fill", N: 4, ByCols: k%3 == 0}, pStep{Op: "commit"})
						if c != "" {
							p.Steps = append(p.Steps, pStep{Op: c, N: 2})
						}
						plans = append(plans, p)
						k++
					}
				}
			}
		}
	}
	return plans
}

func scenPending(rng *rand.Rand, p, scale int) *scenOut {
	out := &scenOut{}
	corpus := pCorpus(rng)
	if scale == 0 { // race child: a sample
		rng.Shuffle(len(corpus), func(i, j int) { corpus[i], corpus[j] = corpus[j], corpus[i] })
		corpus = corpus[:24]
	}
	for i := range corpus {
		pRun(&corpus[i], out, true)
		if len(out.fails) > 0 {
			return out
		}
	}
	if len(out.asks) > 12 { // the model is asked about a sample of the corpus
		out.asks = out.asks[:12]
	}
	n := []int{3, 6, 12}[scale]
	for it := 0; it < n; it++ {
		plan := genPlan(rng, scale)
		pRun(&plan, out, true)
		if len(out.fails) > 0 {
			return out
		}
	}
	return out
}

func init() { scenarios["D-parent-pending"] = scenPending }

// pAnswer checks the model's answer against the row groups of the file.
func pAnswer(c *core.Ctx, in inst, a pAsk) {
	if !c.HasOracle() {
		return
	}
	ans := c.Ask(a.Query)
	pendingStats.asked++
	if ans != a.Impl {
		c.Mismatch("corr:C15.commit_all", core.Trunc(a.Plan.text(), 300), core.Trunc(a.Impl, 300), core.Trunc(ans, 300), replayOf(in, map[string]any{"plan": a.Plan, "program": a.Plan.text()}))
	} else {
		pendingStats.agreed++
	}
}

var pendingStats struct{ asked, agreed int }

// pReplay re-runs the plan of a recorded violation; it reports whether the
// replay held one.
func pReplay(c *core.Ctx, in inst, raw json.RawMessage) bool {
	var r struct {
		Detail struct {
			Plan *pPlan `json:"plan"`
		} `json:"detail"`
	}
	if err := json.Unmarshal(raw, &r); err != nil || r.Detail.Plan == nil || len(r.Detail.Plan.Steps) == 0 {
		return false
	}
	old := runtime.GOMAXPROCS(in.P)
	defer runtime.GOMAXPROCS(old)
	out := &scenOut{}
	func() {
		defer func() {
			if rec := recover(); rec != nil {
				out.fails = append(out.fails, fail{Class: "panic", What: fmt.Sprintf("panic while running the program: %v", rec)})
			}
		}()
		pRun(r.Detail.Plan, out, false)
	}()
	for _, f := range out.fails {
		c.Violation(f.Class, fmt.Sprintf("%s [P=%d]: %s", in.Scenario, in.P, f.What), replayOf(in, f.Detail))
	}
	for _, a := range out.asks {
		pAnswer(c, in, a)
	}
	key, _ := json.Marshal(r.Detail.Plan)
	c.Case(in.Scenario+"/replayed-plan", string(key), out.outSize > 0)
	return true
}
