// C15, scenario J: the FIRST use of fresh Go types, under concurrency.
//
// Whatever the library derives from a Go type is computed the first time the
// type is seen and published in a process-wide cache (the Schema SchemaOf keeps
// per type, the field indexes the reflection based value writer keeps per
// struct type, the functions a Schema keeps per type it was asked to write).
// The window in which such a cache can be observed half filled exists once per
// type and process.  Scenario H works on a fixed catalogue of row types whose
// serial reference run comes first, so it never looks through that window.
// Here every instance makes struct types no cache has seen (reflect.StructOf;
// a field with a process-unique name makes each of them new, at every nesting
// level), and independent workers - own writers, readers, buffers, sharing
// nothing but the type and, where the path has one, a *Schema - meet behind a
// barrier in front of every access path, so that the first use of the type by
// each path is raced:
//
//	GenericWriter[any].Write with an explicit Schema that is NOT the schema of
//	the type (columns left out, columns the type does not have), with the
//	Schema SchemaOf derives; Writer.Write(any) with and without a Schema;
//	Buffer.Write; a struct value inside a map[string]any; Schema.Deconstruct /
//	Reconstruct with both kinds of Schema; Reader.Read into a new value.
//
// The predicate is the property itself: what each worker produced (file bytes,
// canonical rows read back, Go values read back) equals what the same worker
// produces serially AFTERWARDS with the same type, and the rows and values
// equal those of a serial worker that used a twin of the type (same fields,
// another unique name) for the first time on a single goroutine BEFORE.
package main

import (
	"bytes"
	"crypto/sha256"
	"fmt"
	"io"
	"math/rand"
	"reflect"
	"runtime"
	"strconv"
	"strings"
	"sync/atomic"
	"time"

	"github.com/parquet-go/parquet-go"

	"verif/harness/core"
)

type jKind int

const (
	jI64 jKind = iota
	jI32
	jF64
	jStr
	jBool
	jBytes
	jOptI64
	jListI64
	jGroup
	jOptGroup
	jListGroup
	jKinds
)

var jKindNames = [...]string{"int64", "int32", "float64", "string", "bool", "[]byte", "*int64", "[]int64", "struct", "*struct", "[]struct"}

// jField describes one field; jDesc a struct type without its unique field.
type jField struct {
	Name string `json:"go_name"`
	Col  string `json:"column"`
	Tag  bool   `json:"tagged,omitempty"`
	Kind jKind  `json:"-"`
	Type string `json:"type"`
	Sub  *jDesc `json:"fields,omitempty"`
}

type jDesc struct {
	Fields []jField `json:"fields"`
}

func genDesc(rng *rand.Rand, depth, n int) *jDesc {
	d := &jDesc{}
	for i := 0; i < n; i++ {
		f := jField{Name: fmt.Sprintf("F%03d", i)}
		f.Col = f.Name
		if rng.Intn(3) == 0 {
			f.Tag = true
			f.Col = fmt.Sprintf("c%03d", i)
		}
		f.Kind = jKind(rng.Intn(int(jGroup)))
		if depth > 0 && rng.Intn(5) == 0 {
			f.Kind = jGroup + jKind(rng.Intn(3))
			f.Sub = genDesc(rng, depth-1, 1+rng.Intn(min(1+n/3, 40)))
		}
		if f.Kind == jOptI64 || f.Kind == jOptGroup {
			f.Tag = true // the optional tag needs a name
			f.Col = fmt.Sprintf("c%03d", i)
		}
		f.Type = jKindNames[f.Kind]
		d.Fields = append(d.Fields, f)
	}
	return d
}

func (d *jDesc) size() int {
	n := len(d.Fields)
	for _, f := range d.Fields {
		if f.Sub != nil {
			n += f.Sub.size()
		}
	}
	return n
}

// jUnique numbers the unique fields: no two struct types made in this process
// are the same type.
var jUnique atomic.Int64

// build makes a new Go struct type: the fields of the description and, last,
// an int64 field with a unique name (a column of its own in the Schema that
// SchemaOf derives, absent from the explicit schemas).
func (d *jDesc) build() reflect.Type {
	fields := make([]reflect.StructField, 0, len(d.Fields)+1)
	for _, f := range d.Fields {
		sf := reflect.StructField{Name: f.Name}
		switch f.Kind {
		case jI64:
			sf.Type = reflect.TypeFor[int64]()
		case jI32:
			sf.Type = reflect.TypeFor[int32]()
		case jF64:
			sf.Type = reflect.TypeFor[float64]()
		case jStr:
			sf.Type = reflect.TypeFor[string]()
		case jBool:
			sf.Type = reflect.TypeFor[bool]()
		case jBytes:
			sf.Type = reflect.TypeFor[[]byte]()
		case jOptI64:
			sf.Type = reflect.TypeFor[*int64]()
		case jListI64:
			sf.Type = reflect.TypeFor[[]int64]()
		case jGroup:
			sf.Type = f.Sub.build()
		case jOptGroup:
			sf.Type = reflect.PointerTo(f.Sub.build())
		case jListGroup:
			sf.Type = reflect.SliceOf(f.Sub.build())
		}
		if f.Tag {
			tag := f.Col
			if f.Kind == jOptI64 || f.Kind == jOptGroup {
				tag += ",optional"
			}
			sf.Tag = reflect.StructTag(`parquet:"` + tag + `"`)
		}
		fields = append(fields, sf)
	}
	fields = append(fields, reflect.StructField{Name: "Z" + strconv.FormatInt(jUnique.Add(1), 10), Type: reflect.TypeFor[int64]()})
	return reflect.StructOf(fields)
}

// explicit builds a Schema by hand (nothing is derived from a Go type): some
// columns of the description are left out (never the first and the last of a
// group; of a wide struct about eight are kept: the Schema of a writer is
// often a narrow view of a wide Go type) and every group has an optional column
// the Go type does not have.
func (d *jDesc) explicit(rng *rand.Rand) parquet.Group {
	g := parquet.Group{}
	for i, f := range d.Fields {
		if n := len(d.Fields); i > 0 && i < n-1 && (rng.Intn(5) == 0 || (n > 8 && rng.Intn(n) >= 8)) {
			continue
		}
		var n parquet.Node
		switch f.Kind {
		case jI64:
			n = parquet.Leaf(parquet.Int64Type)
		case jI32:
			n = parquet.Leaf(parquet.Int32Type)
		case jF64:
			n = parquet.Leaf(parquet.DoubleType)
		case jStr:
			n = parquet.String()
		case jBool:
			n = parquet.Leaf(parquet.BooleanType)
		case jBytes:
			n = parquet.Leaf(parquet.ByteArrayType)
		case jOptI64:
			n = parquet.Optional(parquet.Leaf(parquet.Int64Type))
		case jListI64:
			n = parquet.Repeated(parquet.Leaf(parquet.Int64Type))
		case jGroup:
			n = f.Sub.explicit(rng)
		case jOptGroup:
			n = parquet.Optional(f.Sub.explicit(rng))
		case jListGroup:
			n = parquet.Repeated(f.Sub.explicit(rng))
		}
		g[f.Col] = n
	}
	g["absent"] = parquet.Optional(parquet.String())
	return g
}

// fill sets the fields of a value of a type built from the description.
func (d *jDesc) fill(v reflect.Value, rng *rand.Rand) {
	for i, f := range d.Fields {
		fv := v.Field(i)
		switch f.Kind {
		case jI64:
			fv.SetInt(rng.Int63() - 1<<62)
		case jI32:
			fv.SetInt(int64(rng.Int31()) - 1<<30)
		case jF64:
			fv.SetFloat(float64(rng.Intn(1<<20)) / 16)
		case jStr:
			fv.SetString(fmt.Sprintf("s%d-%s", rng.Intn(1000), f.Name))
		case jBool:
			fv.SetBool(rng.Intn(2) == 0)
		case jBytes:
			fv.SetBytes([]byte(fmt.Sprintf("b%x", rng.Intn(1<<24))))
		case jOptI64:
			if rng.Intn(3) != 0 {
				x := rng.Int63()
				fv.Set(reflect.ValueOf(&x))
			}
		case jListI64:
			n := rng.Intn(4)
			if n > 0 {
				l := make([]int64, n)
				for j := range l {
					l[j] = rng.Int63()
				}
				fv.Set(reflect.ValueOf(l))
			}
		case jGroup:
			f.Sub.fill(fv, rng)
		case jOptGroup:
			if rng.Intn(3) != 0 {
				p := reflect.New(fv.Type().Elem())
				f.Sub.fill(p.Elem(), rng)
				fv.Set(p)
			}
		case jListGroup:
			n := rng.Intn(3)
			if n > 0 {
				l := reflect.MakeSlice(fv.Type(), n, n)
				for j := 0; j < n; j++ {
					f.Sub.fill(l.Index(j), rng)
				}
				fv.Set(l)
			}
		}
	}
	v.Field(len(d.Fields)).SetInt(7)
}

// render writes a value by the description (the unique field is left out, so
// values of twin types render the same).
func (d *jDesc) render(b *strings.Builder, v reflect.Value) {
	b.WriteByte('{')
	for i, f := range d.Fields {
		fv := v.Field(i)
		b.WriteString(f.Col)
		b.WriteByte(':')
		switch f.Kind {
		case jOptI64:
			if fv.IsNil() {
				b.WriteString("nil")
			} else {
				fmt.Fprint(b, fv.Elem().Int())
			}
		case jBytes:
			fmt.Fprintf(b, "%x", fv.Bytes())
		case jGroup:
			f.Sub.render(b, fv)
		case jOptGroup:
			if fv.IsNil() {
				b.WriteString("nil")
			} else {
				f.Sub.render(b, fv.Elem())
			}
		case jListGroup:
			b.WriteByte('[')
			for j := 0; j < fv.Len(); j++ {
				f.Sub.render(b, fv.Index(j))
			}
			b.WriteByte(']')
		default:
			fmt.Fprint(b, fv.Interface())
		}
		b.WriteByte(' ')
	}
	b.WriteByte('}')
}

// jPaths are the access paths from a Go value to rows and back.
var jPaths = []string{
	"GenericWriter[any].Write, explicit Schema",
	"GenericWriter[any].Write, SchemaOf",
	"Writer.Write(any), explicit Schema",
	"Writer.Write(any), no Schema",
	"Buffer.Write, explicit Schema",
	"GenericWriter[any].Write of map[string]any holding the struct",
	"Schema.Deconstruct, explicit Schema (Reconstruct panics, as documented, when the Schema has columns the value has no field for)",
	"Schema.Deconstruct/Reconstruct, SchemaOf",
	"Reader.Read(&value)",
}

// jDerives marks the paths that derive a Schema from the Go type.
var jDerives = map[int]bool{1: true, 3: true, 7: true}

// jType is one fresh type with what its workers share.
type jType struct {
	desc     *jDesc
	rt       reflect.Type
	explicit *parquet.Schema // shared by the workers (documented as safe)
	wrap     *parquet.Schema // {n, a: explicit group}
	file     []byte          // written from the twin with its explicit schema: input of Reader.Read
}

// jOut is the result of one path of one worker.
type jOut struct {
	Bytes string // sha of the file, where the path writes one
	Rows  string // canonical rows / rendered values
	stack string // of a panic (not compared)
	data  []byte // the file
}

func (o jOut) same(p jOut) bool { return o.Bytes == p.Bytes && o.Rows == p.Rows }

// readBack fills in the canonical rows of a file (done only where the rows are
// looked at: for the comparison with the twin, and for the message).
func (o *jOut) readBack() {
	if o.data == nil || o.Rows != "" {
		return
	}
	rows, err := canonFile(o.data)
	if err != nil {
		rows = "error: read back: " + err.Error()
	}
	o.Rows = rows
}

func canonFile(data []byte) (string, error) {
	rows, err := readBack(data)
	if err != nil {
		return "", err
	}
	h := sha256.New()
	for _, r := range rows {
		io.WriteString(h, r)
		h.Write([]byte{'\n'})
	}
	return fmt.Sprintf("%d:%s", len(rows), sum(h)), nil
}

// values makes the rows of one worker (the same for a type and its twin).
func (t *jType) values(seed int64, n int) []reflect.Value {
	rng := rand.New(rand.NewSource(seed))
	vals := make([]reflect.Value, n)
	for i := range vals {
		vals[i] = reflect.New(t.rt).Elem()
		t.desc.fill(vals[i], rng)
	}
	return vals
}

// run does one path for one worker; a panic of the library is its result.
// meet is called right before the first call of the library that depends on
// the Go type (the workers of the concurrent run wait for each other there).
func (t *jType) run(path int, vals []reflect.Value, meet func()) (out jOut) {
	met := false
	defer func() {
		if !met {
			meet() // nobody waits for a worker that failed early
		}
	}()
	arrive := func() { met = true; meet() }
	defer func() {
		if r := recover(); r != nil {
			stack := make([]byte, 3<<10)
			stack = stack[:runtime.Stack(stack, false)]
			out = jOut{Rows: fmt.Sprintf("panic: %v", r), stack: string(stack)}
		}
	}()
	fail := func(what string, err error) jOut { return jOut{Rows: "error: " + what + ": " + err.Error()} }
	anys := make([]any, len(vals))
	for i, v := range vals {
		anys[i] = v.Interface()
	}
	file := func(buf *bytes.Buffer) jOut {
		return jOut{Bytes: sha(buf.Bytes()), data: buf.Bytes()}
	}
	values := func(ptrs []reflect.Value) string {
		var b strings.Builder
		for _, p := range ptrs {
			t.desc.render(&b, p.Elem())
			b.WriteByte('\n')
		}
		return b.String()
	}
	switch path {
	case 0, 1, 5:
		var buf bytes.Buffer
		schema := t.explicit
		switch path {
		case 1:
			arrive()
			schema = parquet.SchemaOf(anys[0])
		case 5:
			schema = t.wrap
			for i := range anys {
				anys[i] = map[string]any{"n": int64(i), "a": anys[i]}
			}
		}
		w := parquet.NewGenericWriter[any](&buf, schema)
		if path != 1 {
			arrive()
		}
		if _, err := w.Write(anys); err != nil {
			return fail("write", err)
		}
		if err := w.Close(); err != nil {
			return fail("close", err)
		}
		return file(&buf)
	case 2, 3:
		var buf bytes.Buffer
		var w *parquet.Writer
		if path == 2 {
			w = parquet.NewWriter(&buf, t.explicit)
		} else {
			w = parquet.NewWriter(&buf)
		}
		arrive()
		for i, v := range anys {
			if i%2 == 1 {
				// a pointer to the value is a row as well
				p := reflect.New(t.rt)
				p.Elem().Set(vals[i])
				v = p.Interface()
			}
			if err := w.Write(v); err != nil {
				return fail("write", err)
			}
		}
		if err := w.Close(); err != nil {
			return fail("close", err)
		}
		return file(&buf)
	case 4:
		b := parquet.NewBuffer(t.explicit)
		arrive()
		for _, v := range anys {
			if err := b.Write(v); err != nil {
				return fail("buffer write", err)
			}
		}
		rows := b.Rows()
		defer rows.Close()
		h, n, err := hashRows(rows)
		if err != nil {
			return fail("buffer rows", err)
		}
		return jOut{Rows: fmt.Sprintf("%d:%s", n, h)}
	case 6, 7:
		arrive()
		schema := t.explicit
		if path == 7 {
			schema = parquet.SchemaOf(anys[0])
		}
		var sb strings.Builder
		ptrs := make([]reflect.Value, len(vals))
		for i, v := range anys {
			row := schema.Deconstruct(nil, v)
			sb.WriteString(canonRow(row))
			sb.WriteByte('\n')
			if path == 7 {
				ptrs[i] = reflect.New(t.rt)
				if err := schema.Reconstruct(ptrs[i].Interface(), row); err != nil {
					return fail("reconstruct", err)
				}
			}
		}
		if path == 6 {
			return jOut{Rows: sb.String()}
		}
		return jOut{Rows: sb.String() + values(ptrs)}
	default:
		r := parquet.NewReader(bytes.NewReader(t.file))
		defer r.Close()
		var ptrs []reflect.Value
		arrive()
		for {
			p := reflect.New(t.rt)
			if err := r.Read(p.Interface()); err != nil {
				if err != io.EOF {
					return fail("read", err)
				}
				break
			}
			ptrs = append(ptrs, p)
			if len(ptrs) > 1000 {
				return jOut{Rows: "error: the reader does not end"}
			}
		}
		return jOut{Rows: strconv.Itoa(len(ptrs)) + "\n" + values(ptrs)}
	}
}

// jPlan is the failing input of the scenario: a type, workers, paths.
type jPlan struct {
	Desc    *jDesc         `json:"struct_type"`
	Workers int            `json:"workers"`
	Rows    int            `json:"rows_per_worker"`
	Paths   []int          `json:"-"`
	Names   []string       `json:"paths_in_order"`
	Seed    int64          `json:"seed"`
	errs    map[string]int // paths whose serial run ends in an error (coverage note)
}

type jDiff struct {
	worker, path int
	what         string
	conc, ref    jOut
}

// where names the first row in which two files differ.
func (d *jDiff) where() string {
	if d.conc.data == nil || d.ref.data == nil {
		return ""
	}
	a, err1 := readBack(d.conc.data)
	b, err2 := readBack(d.ref.data)
	if err1 != nil || err2 != nil {
		return ""
	}
	for i := range a {
		if i >= len(b) || a[i] != b[i] {
			if i >= len(b) {
				return fmt.Sprintf(" (%d rows, serial %d)", len(a), len(b))
			}
			return fmt.Sprintf(" (row %d, as column/repetition:definition:value: %s)", i, firstDiff(a[i], b[i]))
		}
	}
	return ""
}

// tryFresh makes a new pair of twin types from the plan and runs it: the
// twin serially (first use on one goroutine), the type by all workers at once
// (a barrier in front of every path), the type serially afterwards.
func tryFresh(pl *jPlan, out *scenOut) *jDiff {
	rng := rand.New(rand.NewSource(pl.Seed))
	group0 := pl.Desc.explicit(rng)
	mk := func() *jType {
		t := &jType{desc: pl.Desc, rt: pl.Desc.build()}
		t.explicit = parquet.NewSchema("fresh", group0)
		t.wrap = parquet.NewSchema("wrap", parquet.Group{"n": parquet.Leaf(parquet.Int64Type), "a": group0})
		return t
	}
	twin, typ := mk(), mk()
	seeds := make([]int64, pl.Workers)
	for i := range seeds {
		seeds[i] = rng.Int63()
	}
	// the input of Reader.Read, written with the twin
	{
		var buf bytes.Buffer
		w := parquet.NewGenericWriter[any](&buf, twin.explicit)
		var anys []any
		for _, v := range twin.values(seeds[0]^0x5bd1e995, pl.Rows) {
			anys = append(anys, v.Interface())
		}
		_, err := w.Write(anys)
		if err == nil {
			err = w.Close()
		}
		if err != nil {
			out.failf("serial-run-failed", "scenario J: writing the input of the readers: %v", err)
			return nil
		}
		twin.file, typ.file = buf.Bytes(), buf.Bytes()
	}
	np := len(pl.Paths)
	// the twin: worker 0 only (it is the specification of what worker 0 writes)
	before := make([][]jOut, 1)
	for k := range before {
		before[k] = make([]jOut, np)
		vals := twin.values(seeds[k], pl.Rows)
		for i, p := range pl.Paths {
			before[k][i] = twin.run(p, vals, func() {})
			before[k][i].readBack()
			if r := before[k][i].Rows; pl.errs != nil && (strings.HasPrefix(r, "error:") || strings.HasPrefix(r, "panic:")) {
				pl.errs[jPaths[p]+": "+core.Trunc(core1(r), 160)]++
			}
		}
	}
	conc := make([][]jOut, pl.Workers)
	bar := &barrier{n: int32(pl.Workers)}
	grp := &group{onPanic: func() { bar.broken.Store(true) }}
	for k := 0; k < pl.Workers; k++ {
		k := k
		conc[k] = make([]jOut, np)
		grp.Go(func(s *slot) {
			vals := typ.values(seeds[k], pl.Rows)
			for i, p := range pl.Paths {
				conc[k][i] = typ.run(p, vals, func() { bar.wait() })
				s.out += len(vals)
			}
		})
	}
	grp.Wait(out)
	if len(out.fails) > 0 {
		return nil
	}
	for k := 0; k < pl.Workers; k++ {
		vals := typ.values(seeds[k], pl.Rows)
		for i, p := range pl.Paths {
			after := typ.run(p, vals, func() {})
			c := conc[k][i]
			if k == 0 || !c.same(after) {
				c.readBack()
				after.readBack()
			}
			switch {
			case !c.same(after):
				return &jDiff{worker: k, path: p, what: "differs from the same worker run serially afterwards", conc: c, ref: after}
			case k == 0 && c.Rows != before[k][i].Rows:
				return &jDiff{worker: k, path: p, what: "differs from a serial worker that used a twin of the type (same fields, same values) for the first time on one goroutine", conc: c, ref: before[k][i]}
			}
		}
	}
	return nil
}

func scenFresh(rng *rand.Rand, p, scale int) *scenOut {
	out := &scenOut{}
	nTypes := []int{20, 60, 160}[scale]
	if p == 1 {
		// one P: the workers interleave at preemption points only
		nTypes /= 3
	}
	errs := map[string]int{}
	defer func() {
		for k, n := range errs {
			if len(out.notes) < 6 {
				out.notes = append(out.notes, fmt.Sprintf("%d serial runs of a path end in an error (compared all the same): %s", n, k))
			}
		}
	}()
	for ti := 0; ti < nTypes; ti++ {
		// mostly small structs, one in four wide (the walk over the fields of a
		// type seen for the first time is as long as the type is wide)
		width := 1 + rng.Intn(24)
		paths := rng.Perm(len(jPaths))
		switch rng.Intn(4) {
		case 0:
			width = 24 + rng.Intn(41)
		case 1:
			// the Go type of a wide table, written through narrow explicit
			// Schemas (the paths that derive a Schema from the type are left to
			// the narrower types: they would write hundreds of columns)
			width = 100 + rng.Intn(300)
			paths = paths[:0]
			for _, pi := range rng.Perm(len(jPaths)) {
				if !jDerives[pi] {
					paths = append(paths, pi)
				}
			}
		}
		depth := 2
		if width >= 100 {
			depth = 0 // flat
		}
		pl := &jPlan{errs: errs, Desc: genDesc(rng, depth, width), Workers: 2 + rng.Intn(7), Rows: 1 + rng.Intn(4), Seed: rng.Int63()}
		if width >= 100 {
			pl.Workers, pl.Rows = 2+rng.Intn(3), 1
		}
		// three paths per type: the first one meets the type for the first time
		pl.Paths = paths[:3]
		d := tryFresh(pl, out)
		if len(out.fails) > 0 {
			return out
		}
		if d == nil {
			continue
		}
		// shrink: each candidate is tried with new types again and again (the
		// window is open once per type, the schedule is not ours)
		deadline := time.Now().Add(12 * time.Second)
		fails := func(c *jPlan, tries int) *jDiff {
			for i := 0; i < tries && time.Now().Before(deadline); i++ {
				scratch := &scenOut{}
				if dd := tryFresh(c, scratch); dd != nil {
					return dd
				}
				if len(scratch.fails) > 0 {
					return nil
				}
			}
			return nil
		}
		best, bd := *pl, d
		tries := []int{150, 300, 300}[scale]
		if c := best; true {
			c.Paths = []int{d.path}
			if dd := fails(&c, tries); dd != nil {
				best, bd = c, dd
			}
		}
		if c := best; c.Workers > 2 {
			c.Workers = 2
			if dd := fails(&c, tries); dd != nil {
				best, bd = c, dd
			}
		}
		if c := best; c.Rows > 1 {
			c.Rows = 1
			if dd := fails(&c, tries); dd != nil {
				best, bd = c, dd
			}
		}
		for len(best.Desc.Fields) > 1 {
			c := best
			c.Desc = &jDesc{Fields: best.Desc.Fields[:(len(best.Desc.Fields)+1)/2]}
			dd := fails(&c, tries)
			if dd == nil {
				break
			}
			best, bd = c, dd
		}
		for _, pi := range best.Paths {
			best.Names = append(best.Names, jPaths[pi])
		}
		cls := "rows-differ"
		if strings.HasPrefix(bd.conc.Rows, "panic:") {
			cls = "panic"
		} else if bd.conc.Rows == bd.ref.Rows {
			cls = "bytes-differ"
		}
		out.fails = append(out.fails, fail{Class: cls,
			What: fmt.Sprintf("first use of a fresh struct type (%d fields; type %d of the instance) by %d independent workers at once, path %q: worker %d %s: concurrent %s, serial %s",
				best.Desc.size(), ti, best.Workers, jPaths[bd.path], bd.worker, bd.what+bd.where(), core.Trunc(jText(bd.conc), 300), core.Trunc(jText(bd.ref), 300)),
			Detail: map[string]any{"shrunk": best, "concurrent": jText(bd.conc), "serial": jText(bd.ref), "stack": bd.conc.stack,
				"what": "a NEW struct type with these fields (reflect.StructOf plus one int64 field with a unique name), written/read for the first time by this many workers at once"}})
		return out
	}
	return out
}

func jText(o jOut) string {
	if o.Bytes == "" {
		return o.Rows
	}
	return "file " + o.Bytes + " rows " + o.Rows
}

func init() {
	scenarios["J-fresh-types"] = scenFresh
	isolated["J-fresh-types"] = true
}
