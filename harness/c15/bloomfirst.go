// C15, scenario L: the FIRST Check of a bloom filter of a freshly opened,
// shared File, issued by many goroutines at once.
//
// The files of the scenarios A-K carry bloom filters written with the default
// (no) bloom filter compression: their bits are probed in place, a Check has
// no state.  A filter written with BloomFilterCompression is different: its
// bits are read and decompressed by the first Check and kept, so a
// FileBloomFilter has a lazily initialised state of its own below the lazily
// published per-chunk pointer of file.go.  The window "somebody is loading the
// filter right now" exists once per (opened File, column chunk): the scenario
// therefore opens many fresh Files over files with several row groups and
// several filtered columns, written with every bloom filter compression the
// writer offers (option not given, Uncompressed, Gzip at several levels) and
// with filters from a few hundred bytes to some hundred KiB (the window is as
// long as the filter takes to read and decompress), opened with the default
// options, SkipBloomFilters (lazy headers), PrefetchBloomFilters or
// OptimisticRead over a plain, yielding or sleeping io.ReaderAt; the
// goroutines meet behind a barrier in front of every fresh chunk and each
// issues its first Check of that filter right away, with probes of its own
// (values present in the row group and absent ones).
//
// Predicate: every answer (found, error) equals the answer the same Check
// gives on a File used by one goroutine - in particular values present in
// the row group are (true, nil): a bloom filter has no false negatives.
package main

import (
	"bytes"
	"fmt"
	"math/rand"

	"github.com/parquet-go/parquet-go"
	"github.com/parquet-go/parquet-go/compress"
	"github.com/parquet-go/parquet-go/compress/gzip"

	"verif/harness/gen"
)

type lRow struct {
	ID int64  `parquet:"id"`
	S  string `parquet:"s"`
	D  string `parquet:"d,dict"`
	B  []byte `parquet:"b"`
}

type lSpec struct {
	Rows      int    `json:"rows"`
	RGRows    int64  `json:"max_rows_per_row_group"`
	BloomComp string `json:"bloom_filter_compression"` // "", "uncompressed", "gzip", "gzip:<level>"
	Bits      uint   `json:"bits_per_value"`
	Codec     string `json:"codec"`
	Salt      int64  `json:"salt"`
}

var lBloomComps = []string{"", "uncompressed", "gzip", "gzip", "gzip:1", "gzip:9", "gzip:-2", "gzip:0"}

var lCols = []string{"id", "s", "d", "b"}

func lBloomCodec(name string) compress.Codec {
	switch name {
	case "":
		return nil
	case "uncompressed":
		return &parquet.Uncompressed
	case "gzip":
		return &parquet.Gzip
	}
	var level int
	fmt.Sscanf(name, "gzip:%d", &level)
	return &gzip.Codec{Level: level}
}

func lMakeRow(spec *lSpec, i int64) lRow {
	h := mix(i, spec.Salt)
	return lRow{
		ID: i*7 + int64(h%7),
		S:  fmt.Sprintf("s%07d-%x", i, h&0xfffff),
		D:  fmt.Sprintf("d%03d", (h>>24)%211),
		B:  []byte(fmt.Sprintf("b%d/%x", i, h>>40)),
	}
}

func lBuild(spec *lSpec) ([]byte, error) {
	var buf bytes.Buffer
	opts := []parquet.WriterOption{
		parquet.MaxRowsPerRowGroup(spec.RGRows),
		parquet.Compression(gen.Codecs[spec.Codec]),
		parquet.BloomFilters(
			parquet.SplitBlockFilter(spec.Bits, "id"),
			parquet.SplitBlockFilter(spec.Bits, "s"),
			parquet.SplitBlockFilter(spec.Bits, "d"),
			parquet.SplitBlockFilter(spec.Bits, "b"),
		),
	}
	if bc := lBloomCodec(spec.BloomComp); bc != nil {
		opts = append(opts, parquet.BloomFilterCompression(bc))
	}
	w := parquet.NewGenericWriter[lRow](&buf, opts...)
	rows := make([]lRow, 0, 1000)
	for i := 0; i < spec.Rows; {
		rows = rows[:0]
		for k := 0; k < 1000 && i < spec.Rows; k++ {
			rows = append(rows, lMakeRow(spec, int64(i)))
			i++
		}
		if _, err := w.Write(rows); err != nil {
			return nil, err
		}
	}
	if err := w.Close(); err != nil {
		return nil, err
	}
	return buf.Bytes(), nil
}

// lProbe is one Check: a value and the answer of the serial run.
type lProbe struct {
	v    parquet.Value
	what string
	want string
}

func lValue(spec *lSpec, col int, i int64, absent bool) (parquet.Value, string) {
	r := lMakeRow(spec, i)
	switch lCols[col] {
	case "id":
		if absent {
			return parquet.Int64Value(-r.ID - 1), fmt.Sprintf("int64 %d (absent)", -r.ID-1)
		}
		return parquet.Int64Value(r.ID), fmt.Sprintf("int64 %d (present: row %d)", r.ID, i)
	case "s":
		if absent {
			return parquet.ByteArrayValue([]byte("absent-" + r.S)), fmt.Sprintf("%q (absent)", "absent-"+r.S)
		}
		return parquet.ByteArrayValue([]byte(r.S)), fmt.Sprintf("%q (present: row %d)", r.S, i)
	case "d":
		if absent {
			return parquet.ByteArrayValue([]byte("zz" + r.D)), fmt.Sprintf("%q (absent)", "zz"+r.D)
		}
		return parquet.ByteArrayValue([]byte(r.D)), fmt.Sprintf("%q (present: row %d)", r.D, i)
	}
	if absent {
		return parquet.ByteArrayValue(append([]byte("no"), r.B...)), fmt.Sprintf("%q (absent)", "no"+string(r.B))
	}
	return parquet.ByteArrayValue(r.B), fmt.Sprintf("%q (present: row %d)", r.B, i)
}

func lAnswer(bf parquet.BloomFilter, v parquet.Value) string {
	if bf == nil {
		return "no filter"
	}
	ok, err := bf.Check(v)
	if err != nil {
		return fmt.Sprintf("(%v, error %v)", ok, err)
	}
	return fmt.Sprintf("(%v, <nil>)", ok)
}

var lVariants = []string{"default", "SkipBloomFilters", "PrefetchBloomFilters", "OptimisticRead", "SkipPageIndex+SkipBloomFilters"}

func lOpen(data []byte, variant, mode int) (*parquet.File, error) {
	var opts []parquet.FileOption
	switch lVariants[variant] {
	case "SkipBloomFilters":
		opts = append(opts, parquet.SkipBloomFilters(true))
	case "PrefetchBloomFilters":
		opts = append(opts, parquet.PrefetchBloomFilters(true))
	case "OptimisticRead":
		opts = append(opts, parquet.OptimisticRead(true))
	case "SkipPageIndex+SkipBloomFilters":
		opts = append(opts, parquet.SkipPageIndex(true), parquet.SkipBloomFilters(true))
	}
	return parquet.OpenFile(readerFor(data, mode), int64(len(data)), opts...)
}

// lFile is a file with the row ranges of its row groups.
type lFile struct {
	spec   lSpec
	data   []byte
	rgOff  []int64
	rgRows []int64
	serial *parquet.File // used by the driver goroutine only
}

func lNewFile(spec lSpec) (*lFile, error) {
	data, err := lBuild(&spec)
	if err != nil {
		return nil, fmt.Errorf("writing the file: %w", err)
	}
	f, err := parquet.OpenFile(bytes.NewReader(data), int64(len(data)))
	if err != nil {
		return nil, fmt.Errorf("opening the file: %w", err)
	}
	lf := &lFile{spec: spec, data: data, serial: f}
	off := int64(0)
	for _, rg := range f.RowGroups() {
		lf.rgOff = append(lf.rgOff, off)
		lf.rgRows = append(lf.rgRows, rg.NumRows())
		off += rg.NumRows()
	}
	return lf, nil
}

// probes of goroutine w for the chunk (g, col) in one round, with the serial answers.
func (lf *lFile) probes(g, col int, seed int64, out *scenOut) []lProbe {
	r := rand.New(rand.NewSource(seed))
	bf := lf.serial.RowGroups()[g].ColumnChunks()[col].BloomFilter()
	var ps []lProbe
	for k := 0; k < 3; k++ {
		i := lf.rgOff[g] + r.Int63n(lf.rgRows[g])
		absent := k == 2
		v, what := lValue(&lf.spec, col, i, absent)
		want := lAnswer(bf, v)
		if !absent && want != "(true, <nil>)" {
			out.failf("serial-run-failed", "scenario L: serial Check of %s in the bloom filter of row group %d column %s = %s (file %+v)", what, g, lCols[col], want, lf.spec)
		}
		ps = append(ps, lProbe{v: v, what: what, want: want})
	}
	return ps
}

type lFailDetail struct {
	File       lSpec  `json:"file"`
	Open       string `json:"open"`
	ReaderMode int    `json:"reader_mode"`
	RowGroup   int    `json:"row_group"`
	Column     string `json:"column"`
	Goroutines int    `json:"goroutines"`
	Value      string `json:"value"`
	Got        string `json:"got"`
	Serial     string `json:"serial"`
	Shrunk     any    `json:"shrunk,omitempty"`
}

// lRound opens one fresh File and lets G goroutines issue their first Checks
// on each of the given chunks at once.
func lRound(lf *lFile, variant, mode, G int, chunks [][2]int, rng *rand.Rand, out *scenOut) (ok bool) {
	plan := make([][][]lProbe, G) // [w][chunk]
	for w := range plan {
		plan[w] = make([][]lProbe, len(chunks))
		for ci, ch := range chunks {
			plan[w][ci] = lf.probes(ch[0], ch[1], rng.Int63(), out)
		}
	}
	if len(out.fails) > 0 {
		return false
	}
	f, err := lOpen(lf.data, variant, mode)
	if err != nil {
		out.failf("open-failed", "scenario L: OpenFile (%s): %v", lVariants[variant], err)
		return false
	}
	rgs := f.RowGroups()
	bar := &barrier{n: int32(G)}
	grp := &group{onPanic: func() { bar.broken.Store(true) }}
	for w := 0; w < G; w++ {
		w := w
		grp.Go(func(s *slot) {
			for ci, ch := range chunks {
				g, col := ch[0], ch[1]
				cc := rgs[g].ColumnChunks()[col]
				if !bar.wait() {
					return
				}
				bf := cc.BloomFilter()
				for _, p := range plan[w][ci] {
					got := lAnswer(bf, p.v)
					s.out++
					if got != p.want {
						s.fails = append(s.fails, fail{Class: "bloom-first-check",
							What: fmt.Sprintf("%d goroutines issue their first Check on the bloom filter of a fresh chunk of a shared File (bloom filter compression %q, %d bits per value, %d rows in the group; opened with %s, reader mode %d): Check of %s in row group %d column %s = %s; the same Check on a File used by one goroutine = %s",
								G, lf.spec.BloomComp, lf.spec.Bits, lf.rgRows[g], lVariants[variant], mode, p.what, g, lCols[col], got, p.want),
							Detail: &lFailDetail{File: lf.spec, Open: lVariants[variant], ReaderMode: mode, RowGroup: g, Column: lCols[col], Goroutines: G, Value: p.what, Got: got, Serial: p.want}})
						bar.broken.Store(true)
						return
					}
				}
			}
		})
	}
	before := len(out.fails)
	grp.Wait(out)
	return len(out.fails) == before
}

func scenBloomFirst(rng *rand.Rand, p, scale int) *scenOut {
	out := &scenOut{}
	nFiles := []int{2, 3, 5}[scale]
	for fi := 0; fi < nFiles; fi++ {
		spec := lSpec{
			Rows:      []int{6000, 12000, 40000}[scale] + rng.Intn([]int{6000, 24000, 80000}[scale]),
			BloomComp: lBloomComps[rng.Intn(len(lBloomComps))],
			Bits:      uint([]int{8, 10, 16, 24}[rng.Intn(4)]),
			Codec:     allCodecs[rng.Intn(len(allCodecs))],
			Salt:      rng.Int63(),
		}
		spec.RGRows = int64(spec.Rows/(1+rng.Intn(3)) + 1)
		lf, err := lNewFile(spec)
		if err != nil {
			out.failf("serial-run-failed", "scenario L: %v (file %+v)", err, spec)
			return out
		}
		var chunks [][2]int
		for g := range lf.rgRows {
			for col := range lCols {
				chunks = append(chunks, [2]int{g, col})
			}
		}
		rounds := []int{3, 6, 10}[scale]
		for round := 0; round < rounds; round++ {
			G := 2 + rng.Intn([]int{7, 15, 31}[scale])
			variant := rng.Intn(len(lVariants))
			if round == 0 {
				variant = 0
			}
			mode := rng.Intn(3)
			rng.Shuffle(len(chunks), func(i, j int) { chunks[i], chunks[j] = chunks[j], chunks[i] })
			if lRound(lf, variant, mode, G, chunks, rng, out) {
				continue
			}
			// shrink: two goroutines, the one chunk, fresh Files until it shows again
			for i := range out.fails {
				d, _ := out.fails[i].Detail.(*lFailDetail)
				if d == nil {
					continue
				}
				col := 0
				for k, n := range lCols {
					if n == d.Column {
						col = k
					}
				}
				for try := 0; try < 40 && d.Shrunk == nil; try++ {
					scratch := &scenOut{}
					if !lRound(lf, variant, mode, 2, [][2]int{{d.RowGroup, col}}, rng, scratch) && len(scratch.fails) > 0 {
						if sd, _ := scratch.fails[0].Detail.(*lFailDetail); sd != nil {
							d.Shrunk = map[string]any{"goroutines": 2, "fresh_files_tried": try + 1, "value": sd.Value, "got": sd.Got, "serial": sd.Serial,
								"what": "open the file, let two goroutines call Check on this one filter at once"}
						}
					}
				}
				break
			}
			return out
		}
	}
	return out
}

func init() {
	scenarios["L-bloom-first-check"] = scenBloomFirst
}
