// C15, scenario I: independent writers with DIFFERENT configurations.
//
// The scenarios A-H use one configuration of every codec (the package-level
// Codec values of parquet-go).  What a writer owns and what the process owns
// only shows when writers that differ in their configuration run together:
// compressors, decompressors, encoders and buffers are pooled, and a pooled
// object that carries configuration (the level of a zstd encoder, of a gzip
// or brotli writer) must never reach a writer with another configuration.
//
// Every worker has its own configuration: a Codec VALUE of its own (codec
// kind and level: zstd levels and concurrency, gzip levels, brotli quality and
// window, lz4 levels, snappy, none), page buffer size, data page version, row
// group size, default encodings, dictionary limit, statistics and bloom
// filters; workers write rows drawn from a couple of data seeds, so that
// workers differing only in their configuration write the same rows.  Three
// phases:
//
//	alone    each worker on its own, one after the other, after the process-wide
//	         pools were emptied (two garbage collections: sync.Pool keeps a
//	         victim cache) - the worker as if it were the only one in the process
//	together all workers at once
//	after    each worker on its own again, in another order, pools left as
//	         the others left them
//
// The predicate is the property itself: the bytes a worker writes (and the
// rows read back from them) when it runs together with the others are those of
// the worker run alone; and since the workers are independent, every serial
// execution must give each of them the same bytes too - so the third phase
// must agree as well (a result that depends on which worker ran before is not
// the result of "the same work run serially").
package main

import (
	"bytes"
	"crypto/sha256"
	"fmt"
	"io"
	"math/rand"
	"runtime"
	"strings"

	"github.com/parquet-go/parquet-go"
	"github.com/parquet-go/parquet-go/compress"
	"github.com/parquet-go/parquet-go/compress/brotli"
	"github.com/parquet-go/parquet-go/compress/gzip"
	"github.com/parquet-go/parquet-go/compress/lz4"
	"github.com/parquet-go/parquet-go/compress/snappy"
	"github.com/parquet-go/parquet-go/compress/uncompressed"
	"github.com/parquet-go/parquet-go/compress/zstd"
)

// wcfg is the configuration of one independent writer.
type wcfg struct {
	Codec    string `json:"codec"`
	Level    int    `json:"level"`         // zstd: 1..4, gzip: -2..9, brotli: quality, lz4: index of lz4Levels
	Aux      int    `json:"aux,omitempty"` // zstd: Concurrency, brotli: LGWin
	PageBuf  int    `json:"page_buffer_size"`
	Version  int    `json:"data_page_version"`
	RGRows   int64  `json:"max_rows_per_row_group"`
	Enc      string `json:"default_encodings"` // "", "delta", "plain", "dict"
	DictMax  int64  `json:"dictionary_max_bytes,omitempty"`
	Stats    bool   `json:"page_statistics"`
	Bloom    bool   `json:"bloom_filters"`
	Rows     int    `json:"rows"`
	DataSeed int64  `json:"data_seed"`
}

var lz4Levels = []lz4.Level{lz4.Fastest, lz4.Fast, lz4.Level1, lz4.Level3, lz4.Level6, lz4.Level9}

// newCodec makes a Codec value that belongs to the caller alone.
func (c *wcfg) newCodec() compress.Codec {
	switch c.Codec {
	case "zstd":
		return &zstd.Codec{Level: zstd.Level(c.Level), Concurrency: uint(c.Aux)}
	case "gzip":
		return &gzip.Codec{Level: c.Level}
	case "brotli":
		return &brotli.Codec{Quality: c.Level, LGWin: c.Aux}
	case "lz4":
		return &lz4.Codec{Level: lz4Levels[c.Level]}
	case "snappy":
		return &snappy.Codec{}
	}
	return &uncompressed.Codec{}
}

// sameButLevel tells whether two configurations differ in the codec level only.
func (c wcfg) sameButLevel(d wcfg) bool {
	if c.Level == d.Level && c.Aux == d.Aux {
		return false
	}
	c.Level, c.Aux = d.Level, d.Aux
	return c == d
}

func randomCodecLevel(rng *rand.Rand, c *wcfg) {
	c.Aux = 0
	switch c.Codec {
	case "zstd":
		c.Level = 1 + rng.Intn(4)
		c.Aux = []int{0, 0, 1, 2}[rng.Intn(4)]
	case "gzip":
		c.Level = []int{gzip.HuffmanOnly, gzip.DefaultCompression, gzip.NoCompression, gzip.BestSpeed, 4, 6, gzip.BestCompression}[rng.Intn(7)]
	case "brotli":
		c.Level = []int{0, 1, 2, 4, 5, 7, 9}[rng.Intn(7)]
		c.Aux = []int{0, 0, 10, 16, 22}[rng.Intn(5)]
	case "lz4":
		c.Level = rng.Intn(len(lz4Levels))
	default:
		c.Level = 0
	}
}

func randomCfg(rng *rand.Rand, scale int, dataSeeds []int64) wcfg {
	c := wcfg{
		Codec:    allCodecs[rng.Intn(len(allCodecs))],
		PageBuf:  []int{1024, 4096, 16384, 65536}[rng.Intn(4)],
		Version:  1 + rng.Intn(2),
		Enc:      []string{"", "", "delta", "plain", "dict"}[rng.Intn(5)],
		Stats:    rng.Intn(2) == 0,
		Bloom:    rng.Intn(3) == 0,
		Rows:     []int{100, 400, 1500}[scale] + rng.Intn([]int{50, 200, 500}[scale]),
		DataSeed: dataSeeds[rng.Intn(len(dataSeeds))],
	}
	c.RGRows = int64(c.Rows/(1+rng.Intn(3)) + 1)
	if rng.Intn(4) == 0 {
		c.DictMax = int64(256 << rng.Intn(6))
	}
	randomCodecLevel(rng, &c)
	return c
}

type iRow struct {
	ID    int64    `parquet:"id"`
	Text  string   `parquet:"text"`
	Word  string   `parquet:"word,dict"`
	Opt   *int64   `parquet:"opt,optional"`
	Vals  []int64  `parquet:"vals"`
	F     float64  `parquet:"f"`
	Blob  []byte   `parquet:"blob"`
	Tags  []string `parquet:"tags"`
	Small int32    `parquet:"small"`
}

var iWords = strings.Fields("alpha beta gamma delta epsilon zeta eta theta iota kappa lambda mu nu xi omicron pi rho sigma tau upsilon phi chi psi omega")

func makeIRows(seed int64, n int) []iRow {
	rng := rand.New(rand.NewSource(seed))
	rows := make([]iRow, n)
	var sb strings.Builder
	for i := range rows {
		r := &rows[i]
		r.ID = int64(i)
		sb.Reset()
		for k := 3 + rng.Intn(12); k > 0; k-- {
			fmt.Fprintf(&sb, "%s-%d ", iWords[rng.Intn(len(iWords))], rng.Intn(100))
		}
		r.Text = sb.String()
		r.Word = iWords[rng.Intn(len(iWords))]
		if rng.Intn(4) != 0 {
			v := int64(rng.Intn(1000))
			r.Opt = &v
		}
		for k := rng.Intn(5); k > 0; k-- {
			r.Vals = append(r.Vals, int64(i*10+rng.Intn(10)))
		}
		r.F = float64(rng.Intn(500)) / 4
		r.Blob = []byte(strings.Repeat(iWords[rng.Intn(len(iWords))], 1+rng.Intn(6)))
		for k := rng.Intn(3); k > 0; k-- {
			r.Tags = append(r.Tags, iWords[rng.Intn(8)])
		}
		r.Small = int32(rng.Intn(16))
	}
	return rows
}

type cfgResult struct {
	File string // sha of the file
	Size int
	Rows string // rows read back
	Err  string
}

// workCfg is the work of one independent writer: its own Codec value, its own
// options, its own rows; the file is read back by a reader of its own.
func workCfg(c wcfg) (res cfgResult) {
	defer func() {
		if r := recover(); r != nil {
			res = cfgResult{Err: fmt.Sprintf("panic: %v", r)}
		}
	}()
	rows := makeIRows(c.DataSeed, c.Rows)
	opts := []parquet.WriterOption{
		parquet.Compression(c.newCodec()),
		parquet.PageBufferSize(c.PageBuf),
		parquet.DataPageVersion(c.Version),
		parquet.MaxRowsPerRowGroup(c.RGRows),
		parquet.DataPageStatistics(c.Stats),
	}
	switch c.Enc {
	case "delta":
		opts = append(opts,
			parquet.DefaultEncodingFor(parquet.Int32, &parquet.DeltaBinaryPacked),
			parquet.DefaultEncodingFor(parquet.Int64, &parquet.DeltaBinaryPacked),
			parquet.DefaultEncodingFor(parquet.ByteArray, &parquet.DeltaByteArray))
	case "plain":
		opts = append(opts, parquet.DefaultEncoding(&parquet.Plain))
	case "dict":
		opts = append(opts,
			parquet.DefaultEncodingFor(parquet.Int32, &parquet.RLEDictionary),
			parquet.DefaultEncodingFor(parquet.ByteArray, &parquet.RLEDictionary))
	}
	if c.DictMax > 0 {
		opts = append(opts, parquet.DictionaryMaxBytes(c.DictMax))
	}
	if c.Bloom {
		opts = append(opts, parquet.BloomFilters(parquet.SplitBlockFilter(10, "id"), parquet.SplitBlockFilter(10, "word")))
	}
	var buf bytes.Buffer
	w := parquet.NewGenericWriter[iRow](&buf, opts...)
	for i := 0; i < len(rows); {
		k := 100
		if i+k > len(rows) {
			k = len(rows) - i
		}
		if _, err := w.Write(rows[i : i+k]); err != nil {
			res.Err = "write: " + err.Error()
			return res
		}
		i += k
	}
	if err := w.Close(); err != nil {
		res.Err = "close: " + err.Error()
		return res
	}
	data := buf.Bytes()
	res.File, res.Size = sha(data), len(data)
	gr := parquet.NewGenericReader[iRow](bytes.NewReader(data))
	defer gr.Close()
	h := sha256.New()
	got := make([]iRow, 64)
	n := 0
	for {
		k, err := gr.Read(got)
		for i := 0; i < k; i++ {
			hashJSON(h, &got[i])
			got[i] = iRow{}
		}
		n += k
		if err != nil {
			if err != io.EOF {
				res.Err = "read: " + err.Error()
			}
			break
		}
		if k == 0 {
			res.Err = "read: no progress"
			break
		}
	}
	res.Rows = fmt.Sprintf("%d:%s", n, sum(h))
	return res
}

// emptyPools lets go of everything the process-wide sync.Pools hold.
func emptyPools() {
	runtime.GC()
	runtime.GC()
}

type cfgFail struct {
	phase  string // "together" or "after"
	worker int
	alone  cfgResult
	got    cfgResult
}

// runCfgs runs the three phases over the workers and returns the first
// disagreement of each worker with its run alone.
func runCfgs(cfgs []wcfg, order []int, out *scenOut) (fails []cfgFail, alone []cfgResult) {
	alone = make([]cfgResult, len(cfgs))
	for i, c := range cfgs {
		emptyPools()
		alone[i] = workCfg(c)
	}
	together := make([]cfgResult, len(cfgs))
	start := make(chan struct{})
	grp := &group{}
	for i := range cfgs {
		i := i
		grp.Go(func(s *slot) {
			<-start
			together[i] = workCfg(cfgs[i])
			s.out = together[i].Size
		})
	}
	close(start)
	grp.Wait(out)
	after := make([]cfgResult, len(cfgs))
	for _, i := range order {
		after[i] = workCfg(cfgs[i])
	}
	for i := range cfgs {
		if together[i] != alone[i] {
			fails = append(fails, cfgFail{"together", i, alone[i], together[i]})
		} else if after[i] != alone[i] {
			fails = append(fails, cfgFail{"after", i, alone[i], after[i]})
		}
	}
	return fails, alone
}

func scenConfigs(rng *rand.Rand, p, scale int) *scenOut {
	out := &scenOut{}
	W := []int{5, 10, 20}[scale] + rng.Intn(1+3*scale)
	dataSeeds := []int64{rng.Int63(), rng.Int63()}
	cfgs := make([]wcfg, 0, W)
	for len(cfgs) < W {
		c := randomCfg(rng, scale, dataSeeds)
		cfgs = append(cfgs, c)
		// most workers have a sibling: the same rows and options, another level
		// of the same codec (the configurations a shared object would confuse)
		if c.Codec != "none" && c.Codec != "snappy" && rng.Intn(4) != 0 {
			for k := 1 + rng.Intn(2); k > 0 && len(cfgs) < W; k-- {
				d := c
				for try := 0; try < 8 && d.Level == c.Level && d.Aux == c.Aux; try++ {
					randomCodecLevel(rng, &d)
				}
				cfgs = append(cfgs, d)
			}
		}
	}
	rng.Shuffle(len(cfgs), func(i, j int) { cfgs[i], cfgs[j] = cfgs[j], cfgs[i] })
	order := rng.Perm(len(cfgs))
	fails, alone := runCfgs(cfgs, order, out)
	if len(out.fails) > 0 {
		return out
	}
	// how well the outputs tell the configurations apart (not a predicate: a
	// measure of what the comparison can see)
	pairs, told := 0, 0
	for i := range cfgs {
		if alone[i].Err != "" {
			out.notes = append(out.notes, fmt.Sprintf("writer %+v alone fails with %s", cfgs[i], alone[i].Err))
		}
		for j := i + 1; j < len(cfgs); j++ {
			if cfgs[i].sameButLevel(cfgs[j]) {
				pairs++
				if alone[i].File != alone[j].File {
					told++
				}
			}
		}
	}
	out.notes = append(out.notes, fmt.Sprintf("%d writers: %d of the %d pairs of writers differing only in the level of their codec wrote different bytes alone", len(cfgs), told, pairs))
	if len(fails) == 0 {
		return out
	}
	f := fails[0]
	c := cfgs[f.worker]
	detail := map[string]any{"writer": c, "phase": f.phase, "writers": len(cfgs), "disagreeing": len(fails)}
	// shrink: the writer with one other writer; then fewer rows
	pairFails := func(a, b wcfg) bool {
		for try := 0; try < 3; try++ {
			scratch := &scenOut{}
			fs, _ := runCfgs([]wcfg{a, b}, []int{1, 0}, scratch)
			if len(fs) > 0 || len(scratch.fails) > 0 {
				return true
			}
		}
		return false
	}
	for j := range cfgs {
		if j == f.worker || !pairFails(c, cfgs[j]) {
			continue
		}
		a, b := c, cfgs[j]
		for a.Rows > 20 {
			a2, b2 := a, b
			a2.Rows, b2.Rows = a.Rows/2, (b.Rows+1)/2
			a2.RGRows, b2.RGRows = (a.RGRows+1)/2, (b.RGRows+1)/2
			if !pairFails(a2, b2) {
				break
			}
			a, b = a2, b2
		}
		detail["shrunk"] = map[string]any{"writer": a, "other_writer": b,
			"what": "these two independent writers alone (each after the pools were emptied), then together, then alone again in the other order: one of them does not write what it writes alone"}
		break
	}
	what := map[string]string{
		"together": "run together with the other writers",
		"after":    "run on its own again after the other writers (pools as they left them)",
	}[f.phase]
	cls := "bytes-differ"
	if f.got.File == f.alone.File {
		cls = "rows-differ"
	}
	if strings.HasPrefix(f.got.Err, "panic:") {
		cls = "panic"
	}
	out.fails = append(out.fails, fail{Class: cls,
		What: fmt.Sprintf("independent writers with configurations of their own (%d writers, %d disagree): the writer with codec %s level %d/%d (page buffer %d, v%d pages, encodings %q) %s wrote %d bytes %s rows %s err %q; alone in the process it writes %d bytes %s rows %s err %q",
			len(cfgs), len(fails), c.Codec, c.Level, c.Aux, c.PageBuf, c.Version, c.Enc, what, f.got.Size, f.got.File, f.got.Rows, f.got.Err, f.alone.Size, f.alone.File, f.alone.Rows, f.alone.Err),
		Detail: detail})
	return out
}

func init() {
	scenarios["I-writer-configs"] = scenConfigs
}
