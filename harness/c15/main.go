// C15: documented concurrent use behaves like some serial execution.
//
// Stress harness.  For GOMAXPROCS in {1,2,4,16} it runs the documented
// concurrent usage patterns of the library (many goroutines reading one opened
// File, independent writers/readers/buffers sharing the process-wide pools,
// one goroutine per ColumnWriter, concurrently filled row groups committed in
// order, the asynchronous read mode with seeks, shared Schema/Encoding/Codec
// values, independent typed writers/readers of the same Go row types over a
// catalogue of row shapes - shapes.go -, independent writers with codec values
// and options of their own - configs.go -, writers and direct callers sharing
// one Codec value per codec configuration - sharedcodec.go -, the first Check
// of (compressed) bloom filters on freshly opened shared Files -
// bloomfirst.go).  Every scenario first computes the serial result of the same work
// (file bytes, canonical rows, index contents) and then runs it concurrently
// and compares.  Goroutine bodies recover panics, every scenario instance runs
// under a deadline, the events of the reference counted page buffers are
// recorded in dedicated runs and validated against the per-buffer automaton
// (in Go and, when the oracle is present, by the extracted Coq model), and a
// -race build of this same harness is executed once with a reduced workload.
//
// Stress runs explore schedules; they prove nothing about the schedules that
// were not observed.
package main

import (
	"bytes"
	"crypto/sha256"
	"encoding/hex"
	"encoding/json"
	"fmt"
	"io"
	"math/rand"
	"os"
	"os/exec"
	"path/filepath"
	"runtime"
	"runtime/debug"
	"sort"
	"strconv"
	"strings"
	"sync"
	"sync/atomic"
	"time"
	"unsafe"

	"github.com/parquet-go/parquet-go"

	"verif/harness/core"
	"verif/harness/gen"
)

func main() { core.Main("C15", run, replay) }

// ---------------------------------------------------------------------------
// infrastructure
// ---------------------------------------------------------------------------

// fail is one failed predicate, collected away from the core.Ctx (which is
// only used from the main goroutine).
type fail struct {
	Class  string `json:"class"`
	What   string `json:"what"`
	Detail any    `json:"detail,omitempty"`
}

// slot collects what one worker goroutine found.
type slot struct {
	fails []fail
	ran   bool
	out   int // size of the compared output (rows, values, bytes)
}

func (s *slot) failf(class, format string, a ...any) {
	if len(s.fails) < 4 {
		s.fails = append(s.fails, fail{Class: class, What: fmt.Sprintf(format, a...)})
	}
}

// scenOut is the result of one scenario instance.
type scenOut struct {
	fails      []fail
	goroutines int // worker goroutines that really ran
	outSize    int // size of the compared outputs
	notes      []string
	asks       []pAsk // model requests, made by the main goroutine afterwards
}

func (o *scenOut) failf(class, format string, a ...any) {
	if len(o.fails) < 8 {
		o.fails = append(o.fails, fail{Class: class, What: fmt.Sprintf(format, a...)})
	}
}

func (o *scenOut) absorb(p *scenOut) {
	o.fails = append(o.fails, p.fails...)
	o.goroutines += p.goroutines
	o.outSize += p.outSize
	o.notes = append(o.notes, p.notes...)
	o.asks = append(o.asks, p.asks...)
}

// group runs worker goroutines, each with its own slot and a recover.
type group struct {
	wg      sync.WaitGroup
	slots   []*slot
	onPanic func()
}

func (g *group) Go(f func(s *slot)) *slot {
	s := &slot{}
	g.slots = append(g.slots, s)
	g.wg.Add(1)
	go func() {
		defer g.wg.Done()
		defer func() {
			if r := recover(); r != nil {
				buf := make([]byte, 6<<10)
				buf = buf[:runtime.Stack(buf, false)]
				s.fails = append(s.fails, fail{Class: "panic", What: fmt.Sprintf("panic in a worker goroutine: %v", r), Detail: string(buf)})
				if g.onPanic != nil {
					g.onPanic()
				}
			}
		}()
		s.ran = true
		f(s)
	}()
	return s
}

func (g *group) Wait(o *scenOut) {
	g.wg.Wait()
	for _, s := range g.slots {
		o.fails = append(o.fails, s.fails...)
		if s.ran {
			o.goroutines++
		}
		o.outSize += s.out
	}
	g.slots = nil
}

// barrier is a reusable spinning barrier (spins with Gosched so that it also
// works with GOMAXPROCS=1); it can be broken when a participant dies.
type barrier struct {
	n      int32
	count  atomic.Int32
	gen    atomic.Int32
	broken atomic.Bool
}

func (b *barrier) wait() bool {
	g := b.gen.Load()
	if b.count.Add(1) == b.n {
		b.count.Store(0)
		b.gen.Add(1)
		return !b.broken.Load()
	}
	for b.gen.Load() == g {
		if b.broken.Load() {
			return false
		}
		runtime.Gosched()
	}
	return !b.broken.Load()
}

func sha(b []byte) string {
	h := sha256.Sum256(b)
	return hex.EncodeToString(h[:12])
}

// inst names one scenario instance; it is the replay of every violation.
type inst struct {
	Scenario string `json:"scenario"`
	P        int    `json:"gomaxprocs"`
	Seed     int64  `json:"seed"`
	Scale    int    `json:"scale"` // 0: race child, 1: quick, 2: thorough
	Traced   bool   `json:"traced,omitempty"`
}

type scenFn func(rng *rand.Rand, p int, scale int) *scenOut

var scenarios = map[string]scenFn{}

func init() {
	scenarios["A-lazy"] = func(rng *rand.Rand, p, scale int) *scenOut { return scenA(rng, p, scale, true) }
	scenarios["A-eager"] = func(rng *rand.Rand, p, scale int) *scenOut { return scenA(rng, p, scale, false) }
	scenarios["B-independent"] = scenB
	scenarios["C-column-writers"] = scenC
	scenarios["D-row-groups"] = scenD
	scenarios["E-async"] = scenE
	scenarios["F-shared-schema"] = scenF
	scenarios["G-retain-release"] = scenShare
	scenarios["mixed"] = scenMixed
}

var (
	aborted     bool                // the reference counting protocol was violated: the pools cannot be trusted any more
	leaked      bool                // a scenario missed its deadline: goroutines of it may still run
	missed      = map[string]bool{} // scenarios that missed their deadline once are not run again
	traceStats  struct{ traces, events, buffers, rejected, oracle, longest int }
	isRaceChild = os.Getenv("VERIF_C15_RACE") != ""
)

func replayOf(in inst, detail any) map[string]any {
	m := map[string]any{"scenario": in.Scenario, "gomaxprocs": in.P, "seed": in.Seed, "scale": in.Scale}
	if in.Traced {
		m["traced"] = true
	}
	if detail != nil {
		m["detail"] = detail
	}
	return m
}

// runInst runs one scenario instance under a deadline with GOMAXPROCS set,
// optionally recording the buffer events, and reports from this goroutine.
func runInst(c *core.Ctx, in inst) {
	fn := scenarios[in.Scenario]
	if fn == nil {
		c.Note("unknown scenario %q", in.Scenario)
		return
	}
	if in.Traced && leaked {
		c.Note("traced run of %s skipped: goroutines of a scenario that missed its deadline may still be running", in.Scenario)
		return
	}
	bucket := in.Scenario
	if in.Traced {
		bucket += "/traced"
	}
	bucket += fmt.Sprintf("/P=%d", in.P)
	key, _ := json.Marshal(in)

	if aborted {
		return
	}
	if isolated[in.Scenario] && !isChild && !in.Traced {
		runIsolated(c, in, bucket, string(key))
		return
	}
	if missed[in.Scenario] {
		c.Note("%s skipped: the scenario missed its deadline before", bucket)
		return
	}
	old := runtime.GOMAXPROCS(in.P)
	var rec *recorder
	gcOld := 100
	if in.Traced {
		runtime.GC() // let garbage of earlier runs go before recording starts
		// no collection during the recorded run: finalizers (which close readers
		// and release their pages) would add events of objects of earlier runs,
		// and a protocol violation makes them panic outside any recover
		gcOld = debug.SetGCPercent(-1)
		debug.SetMemoryLimit(6 << 30)
		rec = newRecorder()
		parquet.VerifSetTrace(rec.hook)
	}
	done := make(chan *scenOut, 1)
	go func() {
		o := &scenOut{}
		defer func() {
			if r := recover(); r != nil {
				buf := make([]byte, 6<<10)
				buf = buf[:runtime.Stack(buf, false)]
				o.fails = append(o.fails, fail{Class: "panic", What: fmt.Sprintf("panic in the scenario driver: %v", r), Detail: string(buf)})
				done <- o
			}
		}()
		o = fn(rand.New(rand.NewSource(in.Seed)), in.P, in.Scale)
		done <- o
	}()
	deadline := 60 * time.Second
	if in.Scale >= 2 {
		deadline = 150 * time.Second
	}
	var out *scenOut
	select {
	case out = <-done:
	case <-time.After(deadline):
		buf := make([]byte, 1<<20)
		buf = buf[:runtime.Stack(buf, true)]
		if len(buf) > 8<<10 {
			buf = buf[:8<<10]
		}
		leaked = true
		missed[in.Scenario] = true
		c.Violation("deadlock", fmt.Sprintf("scenario %s with GOMAXPROCS=%d did not finish within %v", in.Scenario, in.P, deadline), replayOf(in, string(buf)))
	}
	if in.Traced {
		parquet.VerifSetTrace(nil)
	}
	runtime.GOMAXPROCS(old)
	if out != nil {
		for _, f := range out.fails {
			c.Violation(f.Class, fmt.Sprintf("%s [P=%d]: %s", in.Scenario, in.P, f.What), replayOf(in, f.Detail))
		}
		for _, n := range out.notes {
			if len(c.Res.Notes) < 40 {
				c.Note("%s: %s", bucket, n)
			}
		}
		for _, a := range out.asks {
			pAnswer(c, in, a)
		}
		c.Case(bucket, string(key), out.goroutines >= 2 && out.outSize > 0)
	} else {
		c.Case(bucket, string(key), false)
	}
	if in.Traced {
		if out != nil && validateTrace(c, in, rec) {
			aborted = true
			c.Note("the reference counting protocol was violated in %s: buffers are shared by unrelated pages from here on, the remaining scenarios are skipped (garbage collection stays off so that finalizers do not crash the process)", bucket)
			return
		}
		debug.SetGCPercent(gcOld)
	}
}

// isolated scenarios run in a process of their own (this binary, replaying the
// instance): the defects they look for - state shared by the closures cached
// per type - end in "fatal error: concurrent map writes" as easily as in wrong
// rows, and a fatal error of the Go runtime cannot be recovered; in a child it
// is a finding about one instance instead of the end of the whole check.
var isolated = map[string]bool{"H-row-shapes": true}

var isChild = os.Getenv("VERIF_C15_CHILD") != ""

var childSeq int

// childResult is what is read of the result.json of a child process; replays
// stay raw JSON (decoded into an any their 63-bit seeds would be rounded to
// float64).
type childResult struct {
	Evaluations int     `json:"evaluations"`
	Distinct    int     `json:"distinct_nontrivial"`
	WallS       float64 `json:"wall_s"`
	Violations  []struct {
		Class  string          `json:"class"`
		What   string          `json:"what"`
		Replay json.RawMessage `json:"replay"`
	} `json:"violations"`
	Notes []string `json:"notes"`
}

func runIsolated(c *core.Ctx, in inst, bucket, key string) {
	runIsolatedN(c, in, bucket, key, 2)
}

func runIsolatedN(c *core.Ctx, in inst, bucket, key string, retry int) {
	childSeq++
	dir := filepath.Join(c.OutDir, fmt.Sprintf("child-%d", childSeq))
	if c.OutDir == "" {
		dir = filepath.Join(os.TempDir(), fmt.Sprintf("c15-child-%d-%d", os.Getpid(), childSeq))
	}
	_ = os.RemoveAll(dir)
	if err := os.MkdirAll(dir, 0o755); err != nil {
		c.Note("%s: cannot run in a child process: %v", bucket, err)
		return
	}
	defer os.RemoveAll(dir)
	req, _ := json.Marshal(map[string]any{"replay": in})
	file := filepath.Join(dir, "instance.json")
	if err := os.WriteFile(file, req, 0o644); err != nil {
		c.Note("%s: cannot run in a child process: %v", bucket, err)
		return
	}
	cmd := exec.Command(os.Args[0], "-tier", c.Tier, "-replay", file, "-out", dir, "-replays", dir)
	cmd.Env = append(os.Environ(), "VERIF_C15_CHILD=1", "VERIF_C15_NORACE=1")
	var stderr bytes.Buffer
	cmd.Stdout, cmd.Stderr = io.Discard, &stderr
	runErr := runWithDeadline(cmd, 3*time.Minute)
	text := stderr.String()
	if isRaceChild {
		// the data race reports of the child belong to the reports of this process
		os.Stderr.WriteString(text)
	}
	b, err := os.ReadFile(filepath.Join(dir, "result.json"))
	var cr childResult
	if err == nil {
		err = json.Unmarshal(b, &cr)
	}
	if err != nil {
		what := "ended abnormally: " + fmt.Sprint(runErr)
		if i := strings.Index(text, "fatal error:"); i >= 0 {
			what = strings.SplitN(text[i:], "\n", 2)[0]
			text = text[i:]
		} else if i := strings.Index(text, "panic:"); i >= 0 {
			what = strings.SplitN(text[i:], "\n", 2)[0]
			text = text[i:]
		} else {
			text = tail(text, 6<<10)
		}
		c.Violation("fatal-error", fmt.Sprintf("%s [P=%d]: the process running the scenario died: %s", in.Scenario, in.P, what), replayOf(in, core.Trunc(text, 6<<10)))
		c.Case(bucket, key, false)
		if retry > 0 && !isRaceChild {
			// the same instance again: on another schedule it may live long
			// enough to name (and shrink) the input it fails on
			runIsolatedN(c, in, bucket, key, retry-1)
		}
		return
	}
	for _, v := range cr.Violations {
		c.Violation(v.Class, v.What, v.Replay)
	}
	for _, n := range cr.Notes {
		if len(c.Res.Notes) < 40 {
			c.Note("%s", n)
		}
	}
	c.Case(bucket, key, cr.Distinct > 0)
}

// ---------------------------------------------------------------------------
// buffer event traces
// ---------------------------------------------------------------------------

const maxTraceEvents = 400000

type recorder struct {
	mu   sync.Mutex
	ev   []uint8
	ids  []uintptr
	keep map[uintptr]unsafe.Pointer // keeps every buffer alive: no address is reused during the run
	over int
}

func newRecorder() *recorder {
	return &recorder{keep: map[uintptr]unsafe.Pointer{}}
}

func (r *recorder) hook(e uint8, id uintptr) {
	r.mu.Lock()
	if _, ok := r.keep[id]; !ok {
		r.keep[id] = unsafe.Pointer(id) // the buffer is live during the callback
	}
	if len(r.ev) < maxTraceEvents {
		r.ev = append(r.ev, e)
		r.ids = append(r.ids, id)
	} else {
		r.over++
	}
	r.mu.Unlock()
}

// bufState is the state of one buffer in the protocol automaton.
type bufState struct {
	kind   uint8 // 0 new, 1 pooled, 2 live, 3 zero, 4 dead
	pooled bool
	n      int
}

var stateNames = []string{"new", "pooled", "live", "zero", "dead"}

// bufStep is the per-buffer automaton: get=1 ref=2 unref=3 put=4.
func bufStep(s bufState, e uint8) (bufState, bool) {
	switch s.kind {
	case 0: // never seen
		switch e {
		case 1:
			return bufState{kind: 2, pooled: true, n: 1}, true
		case 2:
			return bufState{kind: 2, pooled: false, n: 2}, true
		case 3:
			return bufState{kind: 4}, true // unpooled buffer created with count 1
		}
	case 1: // in the pool
		if e == 1 {
			return bufState{kind: 2, pooled: true, n: 1}, true
		}
	case 2: // live
		switch e {
		case 2:
			return bufState{kind: 2, pooled: s.pooled, n: s.n + 1}, true
		case 3:
			if s.n > 1 {
				return bufState{kind: 2, pooled: s.pooled, n: s.n - 1}, true
			}
			if s.pooled {
				return bufState{kind: 3, pooled: true}, true
			}
			return bufState{kind: 4}, true
		}
	case 3: // count zero, about to enter the pool
		if e == 4 {
			return bufState{kind: 1, pooled: true}, true
		}
	}
	return s, false
}

// checkTrace runs the automaton over an interleaved trace; returns the index
// of the first rejected event (-1: accepted) and the state the buffer was in.
func checkTrace(ev []uint8, ids []int) (int, string, int) {
	states := map[int]bufState{}
	for i, e := range ev {
		s := states[ids[i]]
		t, ok := bufStep(s, e)
		if !ok {
			return i, stateNames[s.kind], len(states)
		}
		states[ids[i]] = t
	}
	return -1, "", len(states)
}

// vmCases: per-buffer event sequences of the recorded traces with the verdict
// of the Go automaton, re-evaluated inside coqc with vm_compute (cases.v).
var vmCases []string

func vmAdd(evs []uint8, accepted bool) {
	if len(vmCases) >= 160 {
		return
	}
	if len(evs) > 120 {
		if !accepted {
			return
		}
		evs = evs[:120] // a prefix of an accepted sequence is accepted
	}
	names := []string{"", "EGet", "ERef", "EUnref", "EPut"}
	parts := make([]string, len(evs))
	for i, e := range evs {
		parts[i] = names[e]
	}
	vmCases = append(vmCases, "(["+strings.Join(parts, ";")+"], "+core.CoqBool(accepted)+")")
}

func vmWrite(c *core.Ctx) {
	// two hand-made rejected sequences keep the comparison two-sided
	vmCases = append(vmCases, "([EGet;ERef;EUnref;EPut], false)", "([EGet;EUnref;EPut;EUnref], false)")
	c.Vm("From Coq Require Import List Bool Arith.\nFrom PQ Require Import Conc.Refcount.\nImport ListNotations.")
	c.Vm("Definition cases : list (list event * bool) := [\n  " + strings.Join(vmCases, ";\n  ") + "].")
	c.Vm("Definition accepted (es : list event) : bool := match check_buf BNew es with Some _ => true | None => false end.")
	c.Vm("Definition mismatches := filter (fun p => negb (Bool.eqb (accepted (fst p)) (snd p))) cases.")
	c.Vm("Definition M := Eval vm_compute in (length cases, mismatches).\nPrint M.")
	c.Res.VmCases = len(vmCases)
}

func verdict(line string) string {
	f := strings.Fields(line)
	if len(f) >= 2 && (f[0] == "ok" || f[0] == "reject") {
		return f[0] + " " + f[1]
	}
	return line
}

func validateTrace(c *core.Ctx, in inst, rec *recorder) (rejected bool) {
	rec.mu.Lock()
	ev := rec.ev
	raw := rec.ids
	over := rec.over
	rec.mu.Unlock()
	if over > 0 {
		c.Note("traced run %s P=%d produced more than %d events: only the prefix is validated (%d dropped)", in.Scenario, in.P, maxTraceEvents, over)
	}
	// renumber in first-seen order
	num := map[uintptr]int{}
	ids := make([]int, len(raw))
	for i, p := range raw {
		n, ok := num[p]
		if !ok {
			n = len(num)
			num[p] = n
		}
		ids[i] = n
	}
	idx, state, nbuf := checkTrace(ev, ids)
	traceStats.traces++
	traceStats.events += len(ev)
	traceStats.buffers += len(num)
	if len(ev) > traceStats.longest {
		traceStats.longest = len(ev)
	}
	implLine := fmt.Sprintf("ok %d %d", len(ev), nbuf)
	if idx >= 0 {
		traceStats.rejected++
		implLine = fmt.Sprintf("reject %d %s", idx, state)
		var own []int
		for i := 0; i <= idx; i++ {
			if ids[i] == ids[idx] {
				own = append(own, int(ev[i]))
			}
		}
		if len(own) > 400 {
			own = own[len(own)-400:]
		}
		names := []string{"?", "get", "ref", "unref", "put"}
		c.Violation("refcount-protocol",
			fmt.Sprintf("%s [P=%d]: event %d (%s of buffer %d) is not allowed in state %s of the reference counting protocol (trace of %d events, %d buffers)",
				in.Scenario, in.P, idx, names[ev[idx]], ids[idx], state, len(ev), len(num)),
			replayOf(in, map[string]any{"buffer": ids[idx], "rejected_event_index": idx, "events_of_the_buffer_1get_2ref_3unref_4put": own}))
	}
	rejected = idx >= 0
	if !c.HasOracle() {
		return
	}
	var sb strings.Builder
	sb.Grow(len(ev)*7 + 16)
	sb.WriteString("c15.trace ")
	if len(ev) == 0 {
		sb.WriteString("_")
	}
	for i, e := range ev {
		if i > 0 {
			sb.WriteByte(',')
		}
		sb.WriteByte('0' + e)
		sb.WriteByte(':')
		sb.WriteString(strconv.FormatInt(int64(ids[i]), 16))
	}
	model := c.Ask(sb.String())
	traceStats.oracle++
	cmpImpl, cmpModel := implLine, model
	if idx >= 0 || !strings.HasPrefix(model, "ok ") {
		cmpImpl, cmpModel = verdict(implLine), verdict(model)
	}
	if cmpImpl != cmpModel {
		c.Mismatch("corr:C15.trace", fmt.Sprintf("%s P=%d seed=%d: trace of %d events", in.Scenario, in.P, in.Seed, len(ev)), implLine, model, replayOf(in, nil))
	}
	// projections of a sample of buffers
	per := map[int][]uint8{}
	limit := len(ev)
	if idx >= 0 {
		limit = idx + 1
	}
	for i := 0; i < limit; i++ {
		per[ids[i]] = append(per[ids[i]], ev[i])
	}
	var sample []int
	for b := 0; b < len(num) && len(sample) < 12; b++ {
		sample = append(sample, b)
	}
	if idx >= 0 {
		sample = append(sample, ids[idx])
	}
	longest, ll := -1, 0
	for b, s := range per {
		if len(s) > ll || (len(s) == ll && b < longest) {
			longest, ll = b, len(s)
		}
	}
	if longest >= 0 {
		sample = append(sample, longest)
	}
	step := len(num)/20 + 1
	for b := 12; b < len(num); b += step {
		sample = append(sample, b)
	}
	for _, b := range sample {
		s := per[b]
		var evs []uint8
		var one []int
		for _, e := range s {
			evs = append(evs, e)
			one = append(one, 0)
		}
		ri, rs, _ := checkTrace(evs, one)
		impl := fmt.Sprintf("ok %d", len(evs))
		if ri >= 0 {
			impl = fmt.Sprintf("reject %d %s", ri, rs)
		}
		var tb strings.Builder
		tb.WriteString("c15.buf ")
		if len(evs) == 0 {
			tb.WriteString("_")
		}
		for i, e := range evs {
			if i > 0 {
				tb.WriteByte(',')
			}
			tb.WriteByte('0' + e)
		}
		m := c.Ask(tb.String())
		traceStats.oracle++
		vmAdd(evs, ri < 0)
		if verdict(impl) != verdict(m) {
			c.Mismatch("corr:C15.buf", core.Trunc(tb.String(), 1500), impl, m, replayOf(in, map[string]any{"buffer": b}))
		}
	}
	return
}

// ---------------------------------------------------------------------------
// the file shared by the readers of scenarios A, E and G
// ---------------------------------------------------------------------------

type c15Row struct {
	ID  int64   `parquet:"id"`
	Opt *int64  `parquet:"opt,optional"`
	S   string  `parquet:"s"`
	D   string  `parquet:"d,dict"`
	B   []byte  `parquet:"b"`
	L   []int64 `parquet:"l,list"`
	F   float64 `parquet:"f"`
}

type fileSpec struct {
	Rows    int    `json:"rows"`
	PageBuf int    `json:"page_buffer_size"`
	RGRows  int64  `json:"max_rows_per_row_group"`
	Codec   string `json:"codec"`
	Version int    `json:"data_page_version"`
	Salt    int64  `json:"salt"`
}

var allCodecs = []string{"none", "snappy", "gzip", "brotli", "zstd", "lz4"}

func mix(i int64, salt int64) uint64 {
	h := uint64(i)*0x9E3779B97F4A7C15 ^ uint64(salt)
	h ^= h >> 29
	h *= 0xBF58476D1CE4E5B9
	h ^= h >> 32
	return h
}

func makeRow(spec *fileSpec, i int64) c15Row {
	h := mix(i, spec.Salt)
	r := c15Row{ID: i}
	if h%5 != 0 {
		v := int64(h>>8) % 1000
		r.Opt = &v
	}
	r.S = fmt.Sprintf("s%06d-%s", i, strings.Repeat("x", int(h>>16)%9))
	r.D = fmt.Sprintf("d%02d", (h>>24)%17)
	r.B = []byte(fmt.Sprintf("b%d/%x", i, h&0xffff))
	n := int(h>>40) % 4
	for j := 0; j < n; j++ {
		r.L = append(r.L, i*10+int64(j))
	}
	r.F = float64(int64(h>>44)%2000) / 8
	return r
}

func randomSpec(rng *rand.Rand, scale int) fileSpec {
	rows := []int{500, 1200, 2400}[scale]
	rows += rng.Intn(rows / 4)
	spec := fileSpec{Rows: rows, PageBuf: 64 + rng.Intn(193), Codec: allCodecs[rng.Intn(len(allCodecs))], Version: 1 + rng.Intn(2), Salt: rng.Int63()}
	spec.RGRows = int64(rows/(2+rng.Intn(3)) + 1)
	return spec
}

func buildFile(spec *fileSpec) ([]byte, error) {
	var buf bytes.Buffer
	w := parquet.NewGenericWriter[c15Row](&buf,
		parquet.PageBufferSize(spec.PageBuf),
		parquet.MaxRowsPerRowGroup(spec.RGRows),
		parquet.Compression(gen.Codecs[spec.Codec]),
		parquet.DataPageVersion(spec.Version),
		parquet.DataPageStatistics(true),
		parquet.BloomFilters(
			parquet.SplitBlockFilter(10, "id"),
			parquet.SplitBlockFilter(10, "s"),
			parquet.SplitBlockFilter(10, "d"),
			parquet.SplitBlockFilter(10, "b"),
		),
	)
	for i := 0; i < spec.Rows; {
		k := 50
		if i+k > spec.Rows {
			k = spec.Rows - i
		}
		rows := make([]c15Row, k)
		for j := range rows {
			rows[j] = makeRow(spec, int64(i+j))
		}
		if _, err := w.Write(rows); err != nil {
			return nil, err
		}
		i += k
	}
	if err := w.Close(); err != nil {
		return nil, err
	}
	return buf.Bytes(), nil
}

// appendVal renders levels and the PLAIN bytes of a value (no column index).
func appendVal(dst []byte, v parquet.Value) []byte {
	dst = strconv.AppendInt(dst, int64(v.RepetitionLevel()), 10)
	dst = append(dst, ':')
	dst = strconv.AppendInt(dst, int64(v.DefinitionLevel()), 10)
	dst = append(dst, ':')
	if v.IsNull() {
		return append(dst, 'n')
	}
	return hex.AppendEncode(dst, v.Bytes())
}

func canonVals(vs []parquet.Value) string {
	var b []byte
	for i, v := range vs {
		if i > 0 {
			b = append(b, ' ')
		}
		b = appendVal(b, v)
	}
	return string(b)
}

func canonRow(r parquet.Row) string {
	var b []byte
	for i, v := range r {
		if i > 0 {
			b = append(b, ' ')
		}
		b = strconv.AppendInt(b, int64(v.Column()), 10)
		b = append(b, '/')
		b = appendVal(b, v)
	}
	return string(b)
}

func pageValues(pg parquet.Page) ([]parquet.Value, error) {
	vals := make([]parquet.Value, pg.NumValues())
	vr := pg.Values()
	n := 0
	for n < len(vals) {
		k, err := vr.ReadValues(vals[n:])
		n += k
		if err != nil {
			if err == io.EOF {
				break
			}
			return nil, err
		}
		if k == 0 {
			break
		}
	}
	return vals[:n], nil
}

// pageRowsCanon splits the values of a page into rows and renders each.
func pageRowsCanon(pg parquet.Page) ([]string, error) {
	vals, err := pageValues(pg)
	if err != nil {
		return nil, err
	}
	var out []string
	start := 0
	for i := 1; i <= len(vals); i++ {
		if i == len(vals) || vals[i].RepetitionLevel() == 0 {
			out = append(out, canonVals(vals[start:i]))
			start = i
		}
	}
	return out, nil
}

// fileRef is the serial answer about a file: everything a reader can observe.
type fileRef struct {
	spec     fileSpec
	data     []byte
	ncols    int
	colNames []string
	rgRows   []int64
	rgOff    []int64
	rows     [][]string   // [rg][row]
	all      []string     // all rows of the file
	colRows  [][][]string // [rg][col][row]: the values of the row in the column
	pageRows [][][]int64  // [rg][col]: rows per page of a sequential read
	index    [][]string   // [rg][col]: canonical index / bloom filter contents
	typed    []c15Row     // rows read through GenericReader[c15Row]
}

func buildRef(spec fileSpec) (*fileRef, error) {
	data, err := buildFile(&spec)
	if err != nil {
		return nil, fmt.Errorf("writing the file: %w", err)
	}
	ref := &fileRef{spec: spec, data: data}
	f, err := parquet.OpenFile(bytes.NewReader(data), int64(len(data)))
	if err != nil {
		return nil, fmt.Errorf("opening the file: %w", err)
	}
	for _, p := range f.Schema().Columns() {
		ref.colNames = append(ref.colNames, p[0])
	}
	ref.ncols = len(ref.colNames)
	off := int64(0)
	buf := make([]parquet.Row, 64)
	for g, rg := range f.RowGroups() {
		ref.rgRows = append(ref.rgRows, rg.NumRows())
		ref.rgOff = append(ref.rgOff, off)
		off += rg.NumRows()
		var rs []string
		cr := make([][]string, ref.ncols)
		rows := rg.Rows()
		for {
			n, err := rows.ReadRows(buf)
			for _, r := range buf[:n] {
				rs = append(rs, canonRow(r))
				start := 0
				for i := 1; i <= len(r); i++ {
					if i == len(r) || r[i].Column() != r[start].Column() {
						col := r[start].Column()
						if col < 0 || col >= ref.ncols {
							rows.Close()
							return nil, fmt.Errorf("row value with column index %d", col)
						}
						cr[col] = append(cr[col], canonVals(r[start:i]))
						start = i
					}
				}
			}
			if err == io.EOF {
				break
			}
			if err != nil {
				rows.Close()
				return nil, fmt.Errorf("serial read of row group %d: %w", g, err)
			}
			if n == 0 {
				rows.Close()
				return nil, fmt.Errorf("serial read of row group %d: no progress", g)
			}
		}
		rows.Close()
		if int64(len(rs)) != rg.NumRows() {
			return nil, fmt.Errorf("serial read of row group %d returned %d of %d rows", g, len(rs), rg.NumRows())
		}
		ref.rows = append(ref.rows, rs)
		ref.all = append(ref.all, rs...)
		ref.colRows = append(ref.colRows, cr)
		var lay [][]int64
		var idx []string
		for ci, cc := range rg.ColumnChunks() {
			var counts []int64
			pages := cc.Pages()
			pos := 0
			for {
				pg, err := pages.ReadPage()
				if err != nil {
					if err != io.EOF {
						pages.Close()
						return nil, fmt.Errorf("serial page read of row group %d column %d: %w", g, ci, err)
					}
					break
				}
				prs, err := pageRowsCanon(pg)
				parquet.Release(pg)
				if err != nil {
					pages.Close()
					return nil, err
				}
				for j, s := range prs {
					if pos+j >= len(cr[ci]) || cr[ci][pos+j] != s {
						pages.Close()
						return nil, fmt.Errorf("serial run inconsistent: row group %d column %d row %d read through pages differs from the row reader", g, ci, pos+j)
					}
				}
				pos += len(prs)
				counts = append(counts, int64(len(prs)))
			}
			pages.Close()
			if pos != len(cr[ci]) {
				return nil, fmt.Errorf("serial page read of row group %d column %d returned %d of %d rows", g, ci, pos, len(cr[ci]))
			}
			lay = append(lay, counts)
			got := canonIndex(cc, ref, g, ci, 0)
			idx = append(idx, got.text)
		}
		ref.pageRows = append(ref.pageRows, lay)
		ref.index = append(ref.index, idx)
	}
	gr := parquet.NewGenericReader[c15Row](f)
	ref.typed = make([]c15Row, f.NumRows())
	n := 0
	for n < len(ref.typed) {
		k, err := gr.Read(ref.typed[n:])
		n += k
		if err != nil {
			break
		}
	}
	gr.Close()
	if n != len(ref.typed) {
		return nil, fmt.Errorf("serial typed read returned %d of %d rows", n, len(ref.typed))
	}
	return ref, nil
}

// bloomProbes: values present in the row group and values absent from the file.
func bloomProbes(ref *fileRef, g, col int) []parquet.Value {
	first, n := ref.rgOff[g], ref.rgRows[g]
	var out []parquet.Value
	ids := []int64{first, first + 1, first + n/3, first + n/2, first + n - 1}
	for k, i := range ids {
		r := makeRow(&ref.spec, i)
		switch ref.colNames[col] {
		case "id":
			out = append(out, parquet.Int64Value(r.ID), parquet.Int64Value(-r.ID-1-int64(k)), parquet.Int64Value(r.ID+1000000))
		case "s":
			out = append(out, parquet.ByteArrayValue([]byte(r.S)), parquet.ByteArrayValue([]byte("absent-"+r.S)))
		case "d":
			out = append(out, parquet.ByteArrayValue([]byte(r.D)), parquet.ByteArrayValue([]byte("zz"+r.D)))
		case "b":
			out = append(out, parquet.ByteArrayValue(r.B), parquet.ByteArrayValue(append([]byte("no"), r.B...)))
		default:
			out = append(out, parquet.Int64Value(r.ID))
		}
	}
	return out
}

type idxGot struct {
	text       string
	ci, oi, bf any
}

func valText(v parquet.Value) string {
	if v.IsNull() {
		return "null"
	}
	return hex.EncodeToString(v.Bytes())
}

// canonIndex loads the column index, the offset index and the bloom filter of
// a chunk in the order selected by `order` and renders their contents.
func canonIndex(cc parquet.ColumnChunk, ref *fileRef, g, col, order int) (got idxGot) {
	var parts [3]string
	defer func() {
		if r := recover(); r != nil {
			got.text = fmt.Sprintf("PANIC while reading the index of row group %d column %d: %v | %s", g, col, r, strings.Join(parts[:], " | "))
		}
	}()
	perm := [][3]int{{0, 1, 2}, {0, 2, 1}, {1, 0, 2}, {1, 2, 0}, {2, 0, 1}, {2, 1, 0}}[order%6]
	for _, what := range perm {
		var sb strings.Builder
		switch what {
		case 0:
			ci, err := cc.ColumnIndex()
			if err != nil {
				fmt.Fprintf(&sb, "ci-error %v", err)
				break
			}
			got.ci = ci
			n := ci.NumPages()
			fmt.Fprintf(&sb, "ci pages=%d asc=%v desc=%v", n, ci.IsAscending(), ci.IsDescending())
			for i := 0; i < n; i++ {
				fmt.Fprintf(&sb, " [%v %d %s %s]", ci.NullPage(i), ci.NullCount(i), valText(ci.MinValue(i)), valText(ci.MaxValue(i)))
			}
		case 1:
			oi, err := cc.OffsetIndex()
			if err != nil {
				fmt.Fprintf(&sb, "oi-error %v", err)
				break
			}
			got.oi = oi
			n := oi.NumPages()
			fmt.Fprintf(&sb, "oi pages=%d", n)
			for i := 0; i < n; i++ {
				fmt.Fprintf(&sb, " [%d %d %d]", oi.Offset(i), oi.CompressedPageSize(i), oi.FirstRowIndex(i))
			}
		case 2:
			bf := cc.BloomFilter()
			if bf == nil {
				sb.WriteString("bf none")
				break
			}
			got.bf = bf
			fmt.Fprintf(&sb, "bf size=%d", bf.Size())
			for _, v := range bloomProbes(ref, g, col) {
				ok, err := bf.Check(v)
				if err != nil {
					fmt.Fprintf(&sb, " err(%v)", err)
				} else if ok {
					sb.WriteString(" 1")
				} else {
					sb.WriteString(" 0")
				}
			}
		}
		parts[what] = sb.String()
	}
	got.text = strings.Join(parts[:], " | ")
	return got
}

// slowReader is an io.ReaderAt with latency: it yields the processor (mode 1)
// or sleeps a little (mode 2) before every read.
type slowReader struct {
	r    *bytes.Reader
	mode int
}

func (s *slowReader) ReadAt(p []byte, off int64) (int, error) {
	switch s.mode {
	case 1:
		runtime.Gosched()
	case 2:
		time.Sleep(30 * time.Microsecond)
	}
	return s.r.ReadAt(p, off)
}

func readerFor(data []byte, mode int) io.ReaderAt {
	if mode == 0 {
		return bytes.NewReader(data)
	}
	return &slowReader{r: bytes.NewReader(data), mode: mode}
}

func firstDiff(a, b string) string {
	n := 0
	for n < len(a) && n < len(b) && a[n] == b[n] {
		n++
	}
	lo := n - 40
	if lo < 0 {
		lo = 0
	}
	cut := func(s string) string {
		hi := n + 80
		if hi > len(s) {
			hi = len(s)
		}
		if lo > len(s) {
			return ""
		}
		return s[lo:hi]
	}
	return fmt.Sprintf("at byte %d: got ...%q want ...%q", n, cut(a), cut(b))
}

// readRowsCheck reads rows [from the start, with some seeks] to the end of the
// reader and compares them with the serial answer.
func readRowsCheck(s *slot, what string, rows parquet.Rows, want []string, rng *rand.Rand, class string) {
	defer rows.Close()
	pos := 0
	buf := make([]parquet.Row, 96)
	seeks, idle := 0, 0
	for {
		if seeks < 3 && rng.Intn(6) == 0 {
			k := rng.Intn(len(want) + 1)
			if err := rows.SeekToRow(int64(k)); err != nil {
				s.failf(class, "%s: SeekToRow(%d) of %d rows: %v", what, k, len(want), err)
				return
			}
			pos = k
			seeks++
		}
		n := 1 + rng.Intn(len(buf))
		got, err := rows.ReadRows(buf[:n])
		if got < 0 || got > n || pos+got > len(want) {
			s.failf(class, "%s: ReadRows(%d) at row %d of %d returned %d rows (%v)", what, n, pos, len(want), got, err)
			return
		}
		for i := 0; i < got; i++ {
			if cr := canonRow(buf[i]); cr != want[pos+i] {
				s.failf(class, "%s: row %d differs from the serial read: %s", what, pos+i, firstDiff(cr, want[pos+i]))
				return
			}
		}
		pos += got
		s.out += got
		if err == io.EOF {
			break
		}
		if err != nil {
			s.failf(class, "%s: ReadRows at row %d: %v", what, pos, err)
			return
		}
		if got == 0 {
			if idle++; idle > 3 {
				s.failf(class, "%s: ReadRows makes no progress at row %d of %d", what, pos, len(want))
				return
			}
		}
	}
	if pos != len(want) {
		s.failf(class, "%s: io.EOF at row %d of %d", what, pos, len(want))
	}
}

// readPagesCheck reads all pages of a chunk and compares rows and layout.
func readPagesCheck(s *slot, what string, cc parquet.ColumnChunk, ref *fileRef, g, col int, class string) {
	pages := cc.Pages()
	defer pages.Close()
	want := ref.colRows[g][col]
	pos, pi := 0, 0
	for {
		pg, err := pages.ReadPage()
		if err != nil {
			if err != io.EOF {
				s.failf(class, "%s: ReadPage %d: %v", what, pi, err)
				return
			}
			break
		}
		prs, err := pageRowsCanon(pg)
		nr := pg.NumRows()
		parquet.Release(pg)
		if err != nil {
			s.failf(class, "%s: values of page %d: %v", what, pi, err)
			return
		}
		if pi >= len(ref.pageRows[g][col]) || int64(len(prs)) != ref.pageRows[g][col][pi] || nr != int64(len(prs)) {
			s.failf(class, "%s: page %d has %d rows (NumRows %d), the serial read had another layout", what, pi, len(prs), nr)
			return
		}
		for j, r := range prs {
			if pos+j >= len(want) || r != want[pos+j] {
				s.failf(class, "%s: page %d row %d differs from the serial read", what, pi, pos+j)
				return
			}
		}
		pos += len(prs)
		s.out += len(prs)
		pi++
	}
	if pos != len(want) {
		s.failf(class, "%s: pages end at row %d of %d", what, pos, len(want))
	}
}

// ---------------------------------------------------------------------------
// (A) many goroutines reading one opened File
// ---------------------------------------------------------------------------

func scenA(rng *rand.Rand, p, scale int, lazy bool) *scenOut {
	out := &scenOut{}
	nFiles := []int{1, 3, 5}[scale]
	for fi := 0; fi < nFiles; fi++ {
		spec := randomSpec(rng, scale)
		ref, err := buildRef(spec)
		if err != nil {
			out.failf("serial-run-failed", "scenario A: %v (spec %+v)", err, spec)
			return out
		}
		G := 4 + rng.Intn([]int{5, 29, 29}[scale])
		mode := rng.Intn(3)
		if mode == 2 && rng.Intn(2) == 0 {
			mode = 1
		}
		var opts []parquet.FileOption
		if lazy {
			opts = append(opts, parquet.SkipPageIndex(true), parquet.SkipBloomFilters(true))
		}
		f, err := parquet.OpenFile(readerFor(ref.data, mode), int64(len(ref.data)), opts...)
		if err != nil {
			out.failf("open-failed", "scenario A: %v", err)
			return out
		}
		rgs := f.RowGroups()
		if len(rgs) != len(ref.rgRows) {
			out.failf("rows-differ", "scenario A: %d row groups, serial open saw %d", len(rgs), len(ref.rgRows))
			return out
		}
		K := G / 2
		if K < 3 {
			K = 3
		}
		nchunks := len(rgs) * ref.ncols
		ptrs := make([][]idxGot, K)
		bar := &barrier{n: int32(K)}
		start := make(chan struct{})
		grp := &group{onPanic: func() { bar.broken.Store(true) }}
		seeds := make([]int64, G)
		for i := range seeds {
			seeds[i] = rng.Int63()
		}
		for w := 0; w < G; w++ {
			w := w
			grp.Go(func(s *slot) {
				r := rand.New(rand.NewSource(seeds[w]))
				<-start
				if w < K {
					// index racers: all of them hit the same fresh chunk at once
					mine := make([]idxGot, nchunks)
					ptrs[w] = mine
					for g := range rgs {
						chunks := rgs[g].ColumnChunks()
						for col := 0; col < ref.ncols; col++ {
							if !bar.wait() {
								return
							}
							got := canonIndex(chunks[col], ref, g, col, r.Intn(6))
							mine[g*ref.ncols+col] = got
							s.out += len(got.text)
							if got.text != ref.index[g][col] {
								s.failf("lazy-index-mismatch", "row group %d column %s (lazy=%v, reader mode %d): index read concurrently differs from the serial answer: %s", g, ref.colNames[col], lazy, mode, firstDiff(got.text, ref.index[g][col]))
								bar.broken.Store(true)
								return
							}
						}
					}
				}
				// then (or instead) read rows and pages
				for round := 0; round < 2; round++ {
					g := r.Intn(len(rgs))
					if (w+round)%2 == 0 {
						readRowsCheck(s, fmt.Sprintf("RowGroup(%d).Rows()", g), rgs[g].Rows(), ref.rows[g], r, "rows-differ")
					} else {
						col := r.Intn(ref.ncols)
						readPagesCheck(s, fmt.Sprintf("row group %d column %s Pages()", g, ref.colNames[col]), rgs[g].ColumnChunks()[col], ref, g, col, "rows-differ")
						got := canonIndex(rgs[g].ColumnChunks()[col], ref, g, col, r.Intn(6))
						if got.text != ref.index[g][col] {
							s.failf("lazy-index-mismatch", "row group %d column %s (lazy=%v): index differs from the serial answer: %s", g, ref.colNames[col], lazy, firstDiff(got.text, ref.index[g][col]))
						}
					}
					if len(s.fails) > 0 {
						return
					}
				}
			})
		}
		close(start)
		grp.Wait(out)
		// a single published pointer per chunk
		for ch := 0; ch < nchunks && len(out.fails) == 0; ch++ {
			var first *idxGot
			for w := 0; w < K; w++ {
				if ptrs[w] == nil || ptrs[w][ch].text == "" {
					continue
				}
				if first == nil {
					first = &ptrs[w][ch]
					continue
				}
				o := &ptrs[w][ch]
				if first.ci != o.ci || first.oi != o.oi || first.bf != o.bf {
					out.failf("lazy-index-mismatch", "row group %d column %s (lazy=%v): goroutines obtained different index objects for the same chunk (column index same=%v, offset index same=%v, bloom filter same=%v)",
						ch/ref.ncols, ref.colNames[ch%ref.ncols], lazy, first.ci == o.ci, first.oi == o.oi, first.bf == o.bf)
					break
				}
			}
		}
		if len(out.fails) > 0 {
			return out
		}
	}
	return out
}

// ---------------------------------------------------------------------------
// (B) independent writers / readers / buffers sharing the process-wide pools
// ---------------------------------------------------------------------------

type bResult struct {
	file, rows, rows2, rows3, buf string
	nrows                         int
	err                           string
}

func (r bResult) String() string {
	return fmt.Sprintf("file=%s rows=%s reader=%s generic=%s buffer=%s nrows=%d err=%q", r.file, r.rows, r.rows2, r.rows3, r.buf, r.nrows, r.err)
}

func hashRows(rows parquet.Rows) (string, int, error) {
	defer rows.Close()
	h := sha256.New()
	buf := make([]parquet.Row, 37)
	n, idle := 0, 0
	for {
		k, err := rows.ReadRows(buf)
		for _, r := range buf[:k] {
			io.WriteString(h, canonRow(r))
			h.Write([]byte{'\n'})
		}
		n += k
		if err == io.EOF {
			break
		}
		if err != nil {
			return "", n, err
		}
		if k == 0 {
			if idle++; idle > 3 {
				return "", n, fmt.Errorf("no progress at row %d", n)
			}
		}
	}
	return hex.EncodeToString(h.Sum(nil)[:12]), n, nil
}

func genCase(rng *rand.Rand, scale int) gen.Case {
	return gen.Case{Seed: rng.Int63(), NRows: []int{40, 120, 260}[scale] + rng.Intn(60), MaxDepth: 2, MaxFields: 5, Codecs: allCodecs, NullBias: rng.Intn(5)}
}

// firstSortable returns the path of the first leaf that is not below a
// repeated node (nil if there is none).
func firstSortable(n *gen.Node, prefix []string) []string {
	for _, f := range n.Fields {
		if f.Rep == gen.Rpt || f.Logical == "list" {
			continue
		}
		p := append(append([]string(nil), prefix...), f.Name)
		if f.Leaf != "" {
			return p
		}
		if q := firstSortable(f, p); q != nil {
			return q
		}
	}
	return nil
}

func workB(cs gen.Case, withBuffer int) (res bResult) {
	b := cs.Build()
	var buf bytes.Buffer
	if err := b.Write(&buf); err != nil {
		res.err = "write: " + err.Error()
		return res
	}
	data := buf.Bytes()
	res.file = sha(data)
	f, err := parquet.OpenFile(bytes.NewReader(data), int64(len(data)))
	if err != nil {
		res.err = "open: " + err.Error()
		return res
	}
	h := sha256.New()
	for _, rg := range f.RowGroups() {
		s, n, err := hashRows(rg.Rows())
		if err != nil {
			res.err = "rows: " + err.Error()
			return res
		}
		io.WriteString(h, s)
		res.nrows += n
	}
	res.rows = hex.EncodeToString(h.Sum(nil)[:12])
	if res.rows2, _, err = hashRows(parquet.NewReader(f)); err != nil {
		res.err = "reader: " + err.Error()
		return res
	}
	if res.rows3, _, err = hashRows(parquet.NewGenericReader[any](f)); err != nil {
		res.err = "generic reader: " + err.Error()
		return res
	}
	if withBuffer > 0 {
		var opts []parquet.RowGroupOption
		opts = append(opts, b.Schema)
		if p := firstSortable(b.Root, nil); p != nil {
			opts = append(opts, parquet.SortingRowGroupConfig(parquet.SortingColumns(parquet.Ascending(p...))))
		}
		rows := make([]parquet.Row, len(b.Rows))
		for i := range rows {
			rows[i] = b.Rows[i].Clone()
		}
		var rg parquet.RowGroup
		if withBuffer == 1 {
			pb := parquet.NewBuffer(opts...)
			if _, err := pb.WriteRows(rows); err != nil {
				res.err = "buffer write: " + err.Error()
				return res
			}
			sort.Sort(pb)
			rg = pb
		} else {
			gb := parquet.NewGenericBuffer[any](opts...)
			if _, err := gb.WriteRows(rows); err != nil {
				res.err = "generic buffer write: " + err.Error()
				return res
			}
			sort.Sort(gb)
			rg = gb
		}
		if res.buf, _, err = hashRows(rg.Rows()); err != nil {
			res.err = "buffer read: " + err.Error()
			return res
		}
	}
	return res
}

func scenB(rng *rand.Rand, p, scale int) *scenOut {
	out := &scenOut{}
	W := []int{4, 10, 16}[scale] + rng.Intn(4)
	cases := make([]gen.Case, W)
	for i := range cases {
		cases[i] = genCase(rng, scale)
	}
	serial := make([]bResult, W)
	for i := range cases {
		func() {
			defer func() {
				if r := recover(); r != nil {
					serial[i].err = fmt.Sprintf("panic: %v", r)
				}
			}()
			serial[i] = workB(cases[i], i%3)
		}()
	}
	conc := make([]bResult, W)
	start := make(chan struct{})
	grp := &group{}
	for i := 0; i < W; i++ {
		i := i
		grp.Go(func(s *slot) {
			<-start
			conc[i] = workB(cases[i], i%3)
			s.out = conc[i].nrows
		})
	}
	close(start)
	grp.Wait(out)
	if len(out.fails) > 0 {
		return out
	}
	for i := range cases {
		a, b := serial[i], conc[i]
		if a == b {
			continue
		}
		cls := "rows-differ"
		if a.file != b.file {
			cls = "bytes-differ"
		}
		out.fails = append(out.fails, fail{Class: cls, What: fmt.Sprintf("independent writer/reader %d of %d running in parallel differs from its serial run: serial {%v} concurrent {%v}", i, W, a, b), Detail: cases[i]})
	}
	return out
}

// ---------------------------------------------------------------------------
// (C) one goroutine per ColumnWriter
// ---------------------------------------------------------------------------

// columnBatches transposes rows [lo,hi) into per-column value slices.
func columnValues(rows []parquet.Row, ncols int) [][]parquet.Value {
	cols := make([][]parquet.Value, ncols)
	for _, r := range rows {
		for _, v := range r {
			cols[v.Column()] = append(cols[v.Column()], v.Clone())
		}
	}
	return cols
}

func readBack(data []byte) ([]string, error) {
	f, err := parquet.OpenFile(bytes.NewReader(data), int64(len(data)))
	if err != nil {
		return nil, err
	}
	var out []string
	buf := make([]parquet.Row, 50)
	for _, rg := range f.RowGroups() {
		rows := rg.Rows()
		idle := 0
		for {
			n, err := rows.ReadRows(buf)
			for _, r := range buf[:n] {
				out = append(out, canonRow(r))
			}
			if err == io.EOF {
				break
			}
			if err != nil {
				rows.Close()
				return out, err
			}
			if n == 0 {
				if idle++; idle > 3 {
					rows.Close()
					return out, fmt.Errorf("no progress")
				}
			}
		}
		rows.Close()
	}
	return out, nil
}

func compareReadBack(out *scenOut, what string, detail any, serialData, concData []byte, want []parquet.Row) {
	if !bytes.Equal(serialData, concData) {
		out.fails = append(out.fails, fail{Class: "bytes-differ", What: fmt.Sprintf("%s: the file written concurrently (%d bytes, %s) differs from the file written by the same calls made serially (%d bytes, %s)", what, len(concData), sha(concData), len(serialData), sha(serialData)), Detail: detail})
	}
	got, err := readBack(concData)
	if err != nil {
		out.fails = append(out.fails, fail{Class: "rows-differ", What: fmt.Sprintf("%s: the file written concurrently cannot be read back: %v", what, err), Detail: detail})
		return
	}
	sgot, serr := readBack(serialData)
	if serr != nil {
		out.notes = append(out.notes, fmt.Sprintf("%s: the serially written file cannot be read back: %v (not a concurrency failure)", what, serr))
		return
	}
	if len(got) != len(sgot) {
		out.fails = append(out.fails, fail{Class: "rows-differ", What: fmt.Sprintf("%s: %d rows read back from the concurrent file, %d from the serial one", what, len(got), len(sgot)), Detail: detail})
		return
	}
	for i := range got {
		if got[i] != sgot[i] {
			out.fails = append(out.fails, fail{Class: "rows-differ", What: fmt.Sprintf("%s: row %d read back from the concurrent file differs from the serial one", what, i), Detail: detail})
			return
		}
	}
	out.outSize += len(got)
	if len(got) != len(want) {
		out.fails = append(out.fails, fail{Class: "rows-differ", What: fmt.Sprintf("%s: wrote %d rows, read back %d (serial and concurrent agree)", what, len(want), len(got)), Detail: detail})
		return
	}
	for i := range got {
		if w := canonRow(want[i]); w != got[i] {
			out.notes = append(out.notes, fmt.Sprintf("%s: row %d read back differs from the row written in the serial run too (round trip, not a concurrency failure)", what, i))
			return
		}
	}
}

func scenC(rng *rand.Rand, p, scale int) *scenOut {
	out := &scenOut{}
	n := []int{2, 5, 10}[scale]
	for it := 0; it < n; it++ {
		var cs gen.Case
		var b *gen.Built
		ncols := 0
		for try := 0; try < 20 && ncols < 2; try++ {
			cs = genCase(rng, scale)
			cs.MaxFields = 6
			b = cs.Build()
			ncols = len(b.Root.Leaves())
		}
		// batch plan: the same WriteRowValues calls in both runs
		var bounds []int
		for i := 0; i < len(b.Rows); {
			k := 1 + rng.Intn(50)
			if i+k > len(b.Rows) {
				k = len(b.Rows) - i
			}
			i += k
			bounds = append(bounds, i)
		}
		closeCols := rng.Intn(2) == 0
		yield := make([]int64, ncols)
		for i := range yield {
			yield[i] = rng.Int63()
		}
		write := func(concurrent bool) (data []byte, err error) {
			var buf bytes.Buffer
			w := parquet.NewGenericWriter[any](&buf, append([]parquet.WriterOption{b.Schema}, b.Opts.WriterOptions(b.Root)...)...)
			cols := w.ColumnWriters()
			if len(cols) != ncols {
				return nil, fmt.Errorf("%d column writers for %d leaf columns", len(cols), ncols)
			}
			batches := make([][][]parquet.Value, len(bounds))
			lo := 0
			for j, hi := range bounds {
				batches[j] = columnValues(b.Rows[lo:hi], ncols)
				lo = hi
			}
			errs := make([]error, ncols)
			one := func(i int) {
				r := rand.New(rand.NewSource(yield[i]))
				for j := range batches {
					if _, e := cols[i].WriteRowValues(batches[j][i]); e != nil {
						errs[i] = e
						return
					}
					if r.Intn(3) == 0 && concurrent {
						runtime.Gosched()
					}
				}
				if closeCols {
					errs[i] = cols[i].Close()
				}
			}
			if concurrent {
				start := make(chan struct{})
				grp := &group{}
				for i := 0; i < ncols; i++ {
					i := i
					grp.Go(func(s *slot) { <-start; one(i); s.out = len(b.Rows) })
				}
				close(start)
				grp.Wait(out)
			} else {
				for i := 0; i < ncols; i++ {
					one(i)
				}
			}
			for i, e := range errs {
				if e != nil {
					return nil, fmt.Errorf("column %d: %w", i, e)
				}
			}
			if err := w.Close(); err != nil {
				return nil, fmt.Errorf("close: %w", err)
			}
			return buf.Bytes(), nil
		}
		sd, serr := write(false)
		cd, cerr := write(true)
		if len(out.fails) > 0 {
			return out
		}
		if (serr == nil) != (cerr == nil) || (serr != nil && serr.Error() != cerr.Error()) {
			out.fails = append(out.fails, fail{Class: "bytes-differ", What: fmt.Sprintf("one goroutine per ColumnWriter: serial run ended with %v, concurrent run with %v", serr, cerr), Detail: cs})
			return out
		}
		if serr != nil {
			out.notes = append(out.notes, fmt.Sprintf("column writers: both runs fail with %v", serr))
			continue
		}
		compareReadBack(out, fmt.Sprintf("one goroutine per ColumnWriter (%d columns, %d rows, %d batches)", ncols, len(b.Rows), len(bounds)), cs, sd, cd, b.Rows)
		if len(out.fails) > 0 {
			return out
		}
	}
	return out
}

// ---------------------------------------------------------------------------
// (D) concurrently filled row groups committed in order
// ---------------------------------------------------------------------------

func scenD(rng *rand.Rand, p, scale int) *scenOut {
	out := &scenOut{}
	n := []int{2, 4, 8}[scale]
	for it := 0; it < n; it++ {
		cs := genCase(rng, scale)
		b := cs.Build()
		b.Opts.MaxRows = 0 // a ConcurrentRowGroupWriter refuses rows beyond MaxRowsPerRowGroup
		k := 2 + rng.Intn(5)
		if k > len(b.Rows) {
			k = len(b.Rows)
		}
		// contiguous parts, each with at least one row
		cuts := map[int]bool{}
		for len(cuts) < k-1 {
			cuts[1+rng.Intn(len(b.Rows)-1)] = true
		}
		var bounds []int
		for c := range cuts {
			bounds = append(bounds, c)
		}
		sort.Ints(bounds)
		bounds = append(bounds, len(b.Rows))
		byCols := make([]bool, k)
		seeds := make([]int64, k)
		for i := range byCols {
			byCols[i] = rng.Intn(3) == 0
			seeds[i] = rng.Int63()
		}
		ncols := len(b.Root.Leaves())
		write := func(concurrent bool) ([]byte, error) {
			var buf bytes.Buffer
			w := parquet.NewGenericWriter[any](&buf, append([]parquet.WriterOption{b.Schema}, b.Opts.WriterOptions(b.Root)...)...)
			rgs := make([]*parquet.ConcurrentRowGroupWriter, k)
			for i := range rgs {
				rgs[i] = w.BeginRowGroup()
			}
			errs := make([]error, k)
			fill := func(i int) {
				lo := 0
				if i > 0 {
					lo = bounds[i-1]
				}
				part := b.Rows[lo:bounds[i]]
				r := rand.New(rand.NewSource(seeds[i]))
				if byCols[i] {
					cols := rgs[i].ColumnWriters()
					vals := columnValues(part, ncols)
					for c := range cols {
						if _, e := cols[c].WriteRowValues(vals[c]); e != nil {
							errs[i] = e
							return
						}
					}
					return
				}
				for j := 0; j < len(part); {
					m := 1 + r.Intn(90)
					if j+m > len(part) {
						m = len(part) - j
					}
					rows := make([]parquet.Row, m)
					for x := range rows {
						rows[x] = part[j+x].Clone()
					}
					if _, e := rgs[i].WriteRows(rows); e != nil {
						errs[i] = e
						return
					}
					j += m
					if r.Intn(3) == 0 && concurrent {
						runtime.Gosched()
					}
				}
			}
			if concurrent {
				start := make(chan struct{})
				grp := &group{}
				for i := 0; i < k; i++ {
					i := i
					grp.Go(func(s *slot) { <-start; fill(i); s.out = 1 })
				}
				close(start)
				grp.Wait(out)
			} else {
				for i := 0; i < k; i++ {
					fill(i)
				}
			}
			for i, e := range errs {
				if e != nil {
					return nil, fmt.Errorf("row group %d: %w", i, e)
				}
			}
			for i, rg := range rgs {
				if _, err := rg.Commit(); err != nil {
					return nil, fmt.Errorf("commit %d: %w", i, err)
				}
			}
			if err := w.Close(); err != nil {
				return nil, fmt.Errorf("close: %w", err)
			}
			return buf.Bytes(), nil
		}
		sd, serr := write(false)
		cd, cerr := write(true)
		if len(out.fails) > 0 {
			return out
		}
		if (serr == nil) != (cerr == nil) || (serr != nil && serr.Error() != cerr.Error()) {
			out.fails = append(out.fails, fail{Class: "bytes-differ", What: fmt.Sprintf("concurrently filled row groups: serial run ended with %v, concurrent run with %v", serr, cerr), Detail: cs})
			return out
		}
		if serr != nil {
			out.notes = append(out.notes, fmt.Sprintf("row groups: both runs fail with %v", serr))
			continue
		}
		compareReadBack(out, fmt.Sprintf("%d concurrently filled row groups committed in order (%d rows)", k, len(b.Rows)), cs, sd, cd, b.Rows)
		if len(out.fails) > 0 {
			return out
		}
	}
	return out
}

// ---------------------------------------------------------------------------
// (E) asynchronous read mode with seeks
// ---------------------------------------------------------------------------

// hop is one operation of a history: 'r' ReadPage / ReadRows(N), 's'
// SeekToRow(N), 'w' sleep 2ms and yield (lets the background page reader block
// on its channel), 'g' yield.
type hop struct {
	K byte
	N int64
}

func opsText(ops []hop) []string {
	out := make([]string, len(ops))
	for i, o := range ops {
		switch o.K {
		case 'r':
			if o.N > 0 {
				out[i] = fmt.Sprintf("r%d", o.N)
			} else {
				out[i] = "r"
			}
		case 's':
			out[i] = fmt.Sprintf("s%d", o.N)
		default:
			out[i] = string(o.K)
		}
	}
	return out
}

type eTask struct {
	Target  string   `json:"target"` // pages | rows | reader | generic
	RG      int      `json:"row_group"`
	Col     int      `json:"column"`
	Variant int      `json:"open_variant"`
	Kind    string   `json:"kind"`
	Ops     []hop    `json:"-"`
	Text    []string `json:"ops"`
}

func pageEnd(layout []int64, pos int64) int64 {
	end := int64(0)
	for _, n := range layout {
		end += n
		if pos < end {
			return end
		}
	}
	return end
}

func pageOf(layout []int64, pos int64) int {
	end := int64(0)
	for i, n := range layout {
		end += n
		if pos < end {
			return i
		}
	}
	return len(layout)
}

// genPageOps generates a history for a page reader of a chunk with the layout.
func genPageOps(rng *rand.Rand, layout []int64, kind string, T int) []hop {
	N := int64(0)
	for _, n := range layout {
		N += n
	}
	var ops []hop
	pos := int64(0)
	far := func() int64 {
		for try := 0; try < 30; try++ {
			k := rng.Int63n(N)
			d := pageOf(layout, k) - pageOf(layout, pos)
			if d < -1 || d > 2 {
				return k
			}
		}
		return rng.Int63n(N)
	}
	if kind == "random" {
		for i := 0; i < T*3; i++ {
			switch x := rng.Intn(10); {
			case x < 5:
				ops = append(ops, hop{K: 'r'})
			case x < 8:
				ops = append(ops, hop{K: 's', N: rng.Int63n(N)})
			case x < 9:
				ops = append(ops, hop{K: 'g'})
			default:
				ops = append(ops, hop{K: 's', N: 0})
			}
		}
		return ops
	}
	for t := 0; t < T; t++ {
		if pos >= N {
			ops = append(ops, hop{K: 's', N: 0})
			pos = 0
		}
		ops = append(ops, hop{K: 'r'})
		pos = pageEnd(layout, pos)
		switch kind {
		case "storm-sleep":
			ops = append(ops, hop{K: 'w'})
		case "storm-yield":
			ops = append(ops, hop{K: 'g'})
		case "storm-mixed":
			switch rng.Intn(3) {
			case 0:
				ops = append(ops, hop{K: 'w'})
			case 1:
				ops = append(ops, hop{K: 'g'})
			}
		}
		k := far()
		ops = append(ops, hop{K: 's', N: k})
		pos = k
		if rng.Intn(3) == 0 {
			k = far()
			ops = append(ops, hop{K: 's', N: k})
			pos = k
		}
		ops = append(ops, hop{K: 'r'})
		pos = pageEnd(layout, pos)
	}
	return ops
}

func genRowOps(rng *rand.Rand, N int64, T int) []hop {
	var ops []hop
	for i := 0; i < T; i++ {
		switch x := rng.Intn(10); {
		case x < 5:
			ops = append(ops, hop{K: 'r', N: []int64{1, 3, 17, 64, 200}[rng.Intn(5)]})
		case x < 8:
			ops = append(ops, hop{K: 's', N: rng.Int63n(N)})
		case x < 9:
			ops = append(ops, hop{K: 'g'})
		default:
			ops = append(ops, hop{K: 'w'})
		}
	}
	return ops
}

func findRow(col []string, s string) int {
	for i, x := range col {
		if x == s {
			return i
		}
	}
	return -1
}

func pause(k byte, waits bool) {
	if k == 'w' && waits {
		time.Sleep(2 * time.Millisecond)
	}
	runtime.Gosched()
}

// runPageOps runs a history on a page reader; outs are the canonical outputs,
// bad is the first failure of the position predicate.
func runPageOps(pages parquet.Pages, ref *fileRef, g, col int, ops []hop, waits bool) (outs []string, bad string) {
	defer pages.Close()
	want := ref.colRows[g][col]
	N := int64(len(want))
	pos := int64(0)
	for i, o := range ops {
		switch o.K {
		case 'r':
			pg, err := pages.ReadPage()
			if err != nil {
				if err == io.EOF {
					outs = append(outs, "e")
					if pos < N && bad == "" {
						bad = fmt.Sprintf("op %d ReadPage at row %d of %d returned io.EOF", i, pos, N)
					}
				} else {
					outs = append(outs, "E")
					if bad == "" {
						bad = fmt.Sprintf("op %d ReadPage at row %d of %d: %v", i, pos, N, err)
					}
				}
				continue
			}
			prs, err := pageRowsCanon(pg)
			parquet.Release(pg)
			n := int64(len(prs))
			good := err == nil && n > 0 && pos+n <= N
			for j := 0; good && j < len(prs); j++ {
				good = prs[j] == want[pos+int64(j)]
			}
			if good {
				outs = append(outs, fmt.Sprintf("p%d.%d", pos, n))
			} else {
				first := -1
				if len(prs) > 0 {
					first = findRow(want, prs[0])
				}
				outs = append(outs, fmt.Sprintf("p?%d.%d", first, n))
				if bad == "" {
					bad = fmt.Sprintf("op %d ReadPage: the page must start at row %d, got a page of %d rows whose first row is row %d of the chunk (column %s, %d rows; err=%v)", i, pos, n, first, ref.colNames[col], N, err)
				}
			}
			pos += n
		case 's':
			if err := pages.SeekToRow(o.N); err != nil {
				outs = append(outs, "E")
				if bad == "" {
					bad = fmt.Sprintf("op %d SeekToRow(%d) of %d rows: %v", i, o.N, N, err)
				}
			} else {
				outs = append(outs, "k")
				pos = o.N
			}
		default:
			pause(o.K, waits)
		}
	}
	return outs, bad
}

type rowsTarget interface {
	read(n int, pos int) (cnt int, err error, bad string)
	seek(k int64) error
	close()
}

type rawRows struct {
	r    parquet.Rows
	want []string
	buf  []parquet.Row
}

func (t *rawRows) read(n, pos int) (int, error, string) {
	if cap(t.buf) < n {
		t.buf = make([]parquet.Row, n)
	}
	cnt, err := t.r.ReadRows(t.buf[:n])
	if cnt < 0 || cnt > n || pos+cnt > len(t.want) {
		return cnt, err, fmt.Sprintf("ReadRows(%d) at row %d of %d returned %d rows", n, pos, len(t.want), cnt)
	}
	for j := 0; j < cnt; j++ {
		if cr := canonRow(t.buf[j]); cr != t.want[pos+j] {
			return cnt, err, fmt.Sprintf("row %d of the batch must be row %d but is row %d of the reader's rows", j, pos+j, findRow(t.want, cr))
		}
	}
	return cnt, err, ""
}
func (t *rawRows) seek(k int64) error { return t.r.SeekToRow(k) }
func (t *rawRows) close()             { t.r.Close() }

type typedRows struct {
	r    *parquet.GenericReader[c15Row]
	want []c15Row
	buf  []c15Row
}

func sameRow(a, b *c15Row) bool {
	if a.ID != b.ID || a.S != b.S || a.D != b.D || a.F != b.F || !bytes.Equal(a.B, b.B) || (a.Opt == nil) != (b.Opt == nil) || len(a.L) != len(b.L) {
		return false
	}
	if a.Opt != nil && *a.Opt != *b.Opt {
		return false
	}
	for i := range a.L {
		if a.L[i] != b.L[i] {
			return false
		}
	}
	return true
}

func (t *typedRows) read(n, pos int) (int, error, string) {
	if cap(t.buf) < n {
		t.buf = make([]c15Row, n)
	}
	rows := t.buf[:n]
	for i := range rows {
		rows[i] = c15Row{}
	}
	cnt, err := t.r.Read(rows)
	if cnt < 0 || cnt > n || pos+cnt > len(t.want) {
		return cnt, err, fmt.Sprintf("Read(%d) at row %d of %d returned %d rows", n, pos, len(t.want), cnt)
	}
	for j := 0; j < cnt; j++ {
		if !sameRow(&rows[j], &t.want[pos+j]) {
			return cnt, err, fmt.Sprintf("row %d of the batch must be row %d but has id %d, s %q", j, pos+j, rows[j].ID, rows[j].S)
		}
	}
	return cnt, err, ""
}
func (t *typedRows) seek(k int64) error { return t.r.SeekToRow(k) }
func (t *typedRows) close()             { t.r.Close() }

func runRowOps(t rowsTarget, N int, ops []hop, waits bool) (outs []string, bad string) {
	defer t.close()
	pos := 0
	for i, o := range ops {
		switch o.K {
		case 'r':
			cnt, err, b := t.read(int(o.N), pos)
			eof := 0
			if err == io.EOF {
				eof = 1
			}
			if b != "" {
				outs = append(outs, fmt.Sprintf("i?%d/%d", cnt, eof))
				if bad == "" {
					bad = fmt.Sprintf("op %d read of %d rows at row %d: %s", i, o.N, pos, b)
				}
				if cnt > 0 {
					pos += cnt
				}
				continue
			}
			outs = append(outs, fmt.Sprintf("i%d.%d/%d", pos, cnt, eof))
			if bad == "" {
				switch {
				case err != nil && err != io.EOF:
					bad = fmt.Sprintf("op %d read of %d rows at row %d of %d: %v", i, o.N, pos, N, err)
				case err == io.EOF && pos+cnt < N:
					bad = fmt.Sprintf("op %d read of %d rows at row %d of %d returned %d rows and io.EOF", i, o.N, pos, N, cnt)
				case cnt == 0 && err == nil:
					bad = fmt.Sprintf("op %d read of %d rows at row %d of %d returned 0 rows and no error", i, o.N, pos, N)
				}
			}
			pos += cnt
		case 's':
			if err := t.seek(o.N); err != nil {
				outs = append(outs, "E")
				if bad == "" {
					bad = fmt.Sprintf("op %d SeekToRow(%d) of %d rows: %v", i, o.N, N, err)
				}
			} else {
				outs = append(outs, "k")
				pos = int(o.N)
			}
		default:
			pause(o.K, waits)
		}
	}
	return outs, bad
}

func runTask(f *parquet.File, ref *fileRef, t *eTask, waits bool) (outs []string, bad string) {
	switch t.Target {
	case "pages":
		return runPageOps(f.RowGroups()[t.RG].ColumnChunks()[t.Col].Pages(), ref, t.RG, t.Col, t.Ops, waits)
	case "rows":
		return runRowOps(&rawRows{r: f.RowGroups()[t.RG].Rows(), want: ref.rows[t.RG]}, len(ref.rows[t.RG]), t.Ops, waits)
	case "reader":
		return runRowOps(&rawRows{r: parquet.NewReader(f), want: ref.all}, len(ref.all), t.Ops, waits)
	default:
		return runRowOps(&typedRows{r: parquet.NewGenericReader[c15Row](f), want: ref.typed}, len(ref.typed), t.Ops, waits)
	}
}

const eVariants = 4

func openVariant(ref *fileRef, v int, async bool, rbuf int) (*parquet.File, error) {
	var opts []parquet.FileOption
	mode := 0
	switch v {
	case 1:
		opts = append(opts, parquet.SkipPageIndex(true))
	case 2:
		opts = append(opts, parquet.ReadBufferSize(rbuf))
		mode = 2
	case 3:
		opts = append(opts, parquet.ReadBufferSize(rbuf), parquet.SkipPageIndex(true))
		mode = 1
	}
	if async {
		opts = append(opts, parquet.FileReadMode(parquet.ReadModeAsync))
	} else {
		mode = 0
	}
	return parquet.OpenFile(readerFor(ref.data, mode), int64(len(ref.data)), opts...)
}

func scenE(rng *rand.Rand, p, scale int) *scenOut {
	out := &scenOut{}
	spec := randomSpec(rng, scale)
	spec.Rows = []int{700, 1600, 3200}[scale] + rng.Intn(200)
	spec.RGRows = int64(spec.Rows/(2+rng.Intn(2)) + 1)
	spec.PageBuf = 64 + rng.Intn(130)
	ref, err := buildRef(spec)
	if err != nil {
		out.failf("serial-run-failed", "scenario E: %v (spec %+v)", err, spec)
		return out
	}
	rbuf := 96 + rng.Intn(400)
	G := []int{6, 14, 28}[scale] + rng.Intn(5)
	T := []int{8, 18, 30}[scale]
	tasks := make([]*eTask, G)
	kinds := []string{"storm-sleep", "storm-none", "storm-yield", "storm-mixed", "random"}
	for i := range tasks {
		t := &eTask{Variant: rng.Intn(eVariants), RG: rng.Intn(len(ref.rgRows))}
		switch x := i % 8; {
		case x < 5:
			t.Target = "pages"
			t.Kind = kinds[x]
			if rng.Intn(3) != 0 {
				t.Col = 0 // the id column: dozens of small pages
			} else {
				t.Col = rng.Intn(ref.ncols)
			}
			if len(ref.pageRows[t.RG][t.Col]) < 4 {
				t.Col = 0
			}
			if t.Kind != "storm-sleep" && t.Kind != "random" {
				// without a sleep the producer is still decoding the next page when
				// the seek arrives: a high latency reader makes that window wide
				t.Variant = 2 + rng.Intn(2)*(-2) // 2 or 0
			}
			t.Ops = genPageOps(rng, ref.pageRows[t.RG][t.Col], t.Kind, T)
		case x == 5:
			t.Target, t.Kind = "rows", "random"
			t.Ops = genRowOps(rng, ref.rgRows[t.RG], T)
		case x == 6:
			t.Target, t.Kind = "reader", "random"
			t.Ops = genRowOps(rng, int64(len(ref.all)), T)
		default:
			t.Target, t.Kind = "generic", "random"
			t.Ops = genRowOps(rng, int64(len(ref.all)), T)
		}
		t.Text = opsText(t.Ops)
		tasks[i] = t
	}
	// serial, synchronous runs of the same histories
	var syncFiles, asyncFiles [eVariants]*parquet.File
	for v := 0; v < eVariants; v++ {
		if syncFiles[v], err = openVariant(ref, v, false, rbuf); err == nil {
			asyncFiles[v], err = openVariant(ref, v, true, rbuf)
		}
		if err != nil {
			out.failf("open-failed", "scenario E: %v", err)
			return out
		}
	}
	serial := make([][]string, G)
	for i, t := range tasks {
		var bad string
		serial[i], bad = runTask(syncFiles[t.Variant], ref, t, false)
		if bad != "" {
			out.notes = append(out.notes, fmt.Sprintf("the synchronous run of a history already fails (C08, not C15): %s; history %v", bad, t.Text))
			serial[i] = nil
		}
	}
	start := make(chan struct{})
	grp := &group{}
	for i := range tasks {
		i := i
		grp.Go(func(s *slot) {
			t := tasks[i]
			<-start
			outs, bad := runTask(asyncFiles[t.Variant], ref, t, true)
			s.out = len(outs)
			if serial[i] == nil {
				return
			}
			if bad != "" {
				s.fails = append(s.fails, fail{Class: "async-stale-page", What: fmt.Sprintf("async read mode, %s history (%s) on %s: %s", t.Kind, variantName(t.Variant), t.Target, bad), Detail: map[string]any{"file": spec, "task": t}})
				return
			}
			if a, b := strings.Join(outs, ","), strings.Join(serial[i], ","); a != b {
				s.fails = append(s.fails, fail{Class: "async-stale-page", What: fmt.Sprintf("async read mode, %s history (%s) on %s: outputs differ from the synchronous run of the same history: %s", t.Kind, variantName(t.Variant), t.Target, firstDiff(a, b)), Detail: map[string]any{"file": spec, "task": t}})
			}
		})
	}
	close(start)
	grp.Wait(out)
	return out
}

func variantName(v int) string {
	return []string{"page index loaded", "SkipPageIndex", "slow reader, small read buffer", "yielding reader, small read buffer, SkipPageIndex"}[v]
}

// ---------------------------------------------------------------------------
// (F) shared Schema / Encoding / Codec values
// ---------------------------------------------------------------------------

type c15Item struct {
	K string `parquet:"k"`
	V *int64 `parquet:"v,optional"`
}

type c15Inner struct {
	X int32     `parquet:"x"`
	Y *float64  `parquet:"y,optional"`
	Z []c15Item `parquet:"z"`
}

type c15F struct {
	Name  string   `parquet:"name"`
	Opt   *string  `parquet:"opt,optional"`
	N     int64    `parquet:"n,delta"`
	Tags  []string `parquet:"tags,list"`
	Inner c15Inner `parquet:"inner"`
	D     string   `parquet:"d,dict,snappy"`
	G     string   `parquet:"g,zstd"`
	H     []byte   `parquet:"h,gzip"`
	I     float64  `parquet:"i,split"`
}

func makeF(rng *rand.Rand, i int) c15F {
	r := c15F{Name: fmt.Sprintf("name-%d-%d", i, rng.Intn(1000)), N: int64(i)*7 + int64(rng.Intn(5)), D: fmt.Sprintf("d%d", rng.Intn(9)),
		G: strings.Repeat("g", rng.Intn(20)) + strconv.Itoa(i), H: []byte(fmt.Sprintf("h%x", rng.Int63())), I: float64(rng.Intn(1000)) / 16}
	if rng.Intn(3) != 0 {
		s := fmt.Sprintf("opt%d", rng.Intn(100))
		r.Opt = &s
	}
	for j := rng.Intn(4); j > 0; j-- {
		r.Tags = append(r.Tags, fmt.Sprintf("t%d", rng.Intn(50)))
	}
	r.Inner.X = int32(rng.Intn(1 << 20))
	if rng.Intn(2) == 0 {
		y := float64(rng.Intn(100)) / 4
		r.Inner.Y = &y
	}
	for j := rng.Intn(3); j > 0; j-- {
		it := c15Item{K: fmt.Sprintf("k%d", rng.Intn(30))}
		if rng.Intn(2) == 0 {
			v := int64(rng.Intn(1000))
			it.V = &v
		}
		r.Inner.Z = append(r.Inner.Z, it)
	}
	return r
}

func freshSchema() *parquet.Schema {
	// a tag replacement (identical to the tag in the source) makes SchemaOf
	// build a new, uncached Schema whose lazily initialised parts are untouched
	return parquet.SchemaOf(c15F{}, parquet.StructTag(`parquet:"name"`, "Name"))
}

type fResult struct {
	file, decon, recon, read string
	n                        int
	err                      string
}

func workF(schema *parquet.Schema, seed int64, nrows int, codec string) (res fResult) {
	rng := rand.New(rand.NewSource(seed))
	rows := make([]c15F, nrows)
	for i := range rows {
		rows[i] = makeF(rng, i)
	}
	var buf bytes.Buffer
	w := parquet.NewGenericWriter[c15F](&buf, schema, parquet.Compression(gen.Codecs[codec]), parquet.PageBufferSize(300))
	for i := 0; i < len(rows); {
		k := 1 + rng.Intn(20)
		if i+k > len(rows) {
			k = len(rows) - i
		}
		if _, err := w.Write(rows[i : i+k]); err != nil {
			res.err = "write: " + err.Error()
			return res
		}
		i += k
	}
	if err := w.Close(); err != nil {
		res.err = "close: " + err.Error()
		return res
	}
	res.file = sha(buf.Bytes())
	hd, hr := sha256.New(), sha256.New()
	for i := range rows {
		row := schema.Deconstruct(nil, &rows[i])
		io.WriteString(hd, canonRow(row))
		hd.Write([]byte{'\n'})
		var back c15F
		if err := schema.Reconstruct(&back, row); err != nil {
			res.err = "reconstruct: " + err.Error()
			return res
		}
		j, _ := json.Marshal(back)
		hr.Write(j)
	}
	res.decon = hex.EncodeToString(hd.Sum(nil)[:12])
	res.recon = hex.EncodeToString(hr.Sum(nil)[:12])
	f, err := parquet.OpenFile(bytes.NewReader(buf.Bytes()), int64(buf.Len()))
	if err != nil {
		res.err = "open: " + err.Error()
		return res
	}
	gr := parquet.NewGenericReader[c15F](f, schema)
	defer gr.Close()
	got := make([]c15F, nrows+1)
	n := 0
	for n < len(got) {
		k, err := gr.Read(got[n:])
		n += k
		if err != nil {
			if err != io.EOF {
				res.err = "read: " + err.Error()
				return res
			}
			break
		}
		if k == 0 {
			break
		}
	}
	res.n = n
	hg := sha256.New()
	for i := 0; i < n; i++ {
		j, _ := json.Marshal(got[i])
		hg.Write(j)
	}
	res.read = hex.EncodeToString(hg.Sum(nil)[:12])
	return res
}

func scenF(rng *rand.Rand, p, scale int) *scenOut {
	out := &scenOut{}
	rounds := []int{1, 3, 6}[scale]
	for round := 0; round < rounds; round++ {
		G := []int{4, 12, 24}[scale] + rng.Intn(5)
		seeds := make([]int64, G)
		codecs := make([]string, G)
		nrows := make([]int, G)
		for i := range seeds {
			seeds[i] = rng.Int63()
			codecs[i] = allCodecs[rng.Intn(len(allCodecs))]
			nrows[i] = 20 + rng.Intn([]int{30, 100, 200}[scale])
		}
		s1 := freshSchema()
		serial := make([]fResult, G)
		for i := range serial {
			serial[i] = workF(s1, seeds[i], nrows[i], codecs[i])
		}
		s2 := freshSchema() // first used inside the race
		if s1 == s2 {
			out.notes = append(out.notes, "SchemaOf returned a cached schema: first use is not raced")
		}
		conc := make([]fResult, G)
		start := make(chan struct{})
		grp := &group{}
		for i := 0; i < G; i++ {
			i := i
			grp.Go(func(s *slot) {
				<-start
				conc[i] = workF(s2, seeds[i], nrows[i], codecs[i])
				s.out = conc[i].n
			})
		}
		close(start)
		grp.Wait(out)
		if len(out.fails) > 0 {
			return out
		}
		for i := range serial {
			if serial[i] == conc[i] {
				if serial[i].err != "" {
					out.notes = append(out.notes, "shared schema: both runs fail with "+serial[i].err)
				}
				continue
			}
			cls := "rows-differ"
			if serial[i].file != conc[i].file {
				cls = "bytes-differ"
			}
			out.fails = append(out.fails, fail{Class: cls, What: fmt.Sprintf("one *Schema shared by %d goroutines (writer, Deconstruct/Reconstruct, reader; codec %s): goroutine %d got %+v, its serial run on a schema of its own %+v", G, codecs[i], i, conc[i], serial[i]),
				Detail: map[string]any{"worker_seed": seeds[i], "rows": nrows[i], "codec": codecs[i]}})
			return out
		}
	}
	return out
}

// ---------------------------------------------------------------------------
// (G) pages retained and handed to other goroutines
// ---------------------------------------------------------------------------

type pageMsg struct {
	pg     parquet.Page
	g, col int
	pos    int
	done   *sync.WaitGroup
}

func scenShare(rng *rand.Rand, p, scale int) *scenOut {
	out := &scenOut{}
	spec := randomSpec(rng, scale)
	ref, err := buildRef(spec)
	if err != nil {
		out.failf("serial-run-failed", "scenario G: %v (spec %+v)", err, spec)
		return out
	}
	var opts []parquet.FileOption
	if rng.Intn(2) == 0 {
		opts = append(opts, parquet.FileReadMode(parquet.ReadModeAsync))
	}
	f, err := parquet.OpenFile(bytes.NewReader(ref.data), int64(len(ref.data)), opts...)
	if err != nil {
		out.failf("open-failed", "scenario G: %v", err)
		return out
	}
	nprod := 2 + rng.Intn([]int{2, 4, 6}[scale])
	ncons := 2 + rng.Intn([]int{3, 6, 10}[scale])
	ch := make(chan pageMsg, 8)
	type chunkID struct{ g, col int }
	work := make([][]chunkID, nprod)
	seeds := make([]int64, nprod)
	for i := range work {
		seeds[i] = rng.Int63()
		for j := []int{2, 4, 8}[scale]; j > 0; j-- {
			work[i] = append(work[i], chunkID{rng.Intn(len(ref.rgRows)), rng.Intn(ref.ncols)})
		}
	}
	prod, cons := &group{}, &group{}
	for i := 0; i < ncons; i++ {
		cons.Go(func(s *slot) {
			for m := range ch {
				func() {
					defer m.done.Done()
					defer func() {
						if r := recover(); r != nil {
							s.fails = append(s.fails, fail{Class: "panic", What: fmt.Sprintf("panic while reading a retained page: %v", r)})
						}
					}()
					prs, err := pageRowsCanon(m.pg)
					parquet.Release(m.pg)
					want := ref.colRows[m.g][m.col]
					if err != nil || m.pos+len(prs) > len(want) {
						s.failf("rows-differ", "retained page of row group %d column %s at row %d: %d rows, err %v", m.g, ref.colNames[m.col], m.pos, len(prs), err)
						return
					}
					for j, r := range prs {
						if r != want[m.pos+j] {
							s.failf("rows-differ", "retained page of row group %d column %s: row %d read by another goroutine differs from the serial read", m.g, ref.colNames[m.col], m.pos+j)
							return
						}
					}
					s.out += len(prs)
				}()
			}
		})
	}
	for i := 0; i < nprod; i++ {
		i := i
		prod.Go(func(s *slot) {
			r := rand.New(rand.NewSource(seeds[i]))
			for _, id := range work[i] {
				pages := f.RowGroups()[id.g].ColumnChunks()[id.col].Pages()
				var wg sync.WaitGroup
				pos := 0
				for {
					pg, err := pages.ReadPage()
					if err != nil {
						if err != io.EOF {
							s.failf("rows-differ", "ReadPage of row group %d column %s: %v", id.g, ref.colNames[id.col], err)
						}
						break
					}
					n := int(pg.NumRows())
					for k := 1 + r.Intn(3); k > 0; k-- {
						parquet.Retain(pg)
						wg.Add(1)
						ch <- pageMsg{pg: pg, g: id.g, col: id.col, pos: pos, done: &wg}
					}
					parquet.Release(pg)
					pos += n
					s.out += n
				}
				wg.Wait() // the dictionary of the chunk belongs to the page reader
				pages.Close()
				if pos != len(ref.colRows[id.g][id.col]) && len(s.fails) == 0 {
					s.failf("rows-differ", "pages of row group %d column %s end at row %d of %d", id.g, ref.colNames[id.col], pos, len(ref.colRows[id.g][id.col]))
				}
			}
		})
	}
	prod.Wait(out)
	close(ch)
	cons.Wait(out)
	return out
}

// ---------------------------------------------------------------------------
// mixed: A + B + D + E at once
// ---------------------------------------------------------------------------

func scenMixed(rng *rand.Rand, p, scale int) *scenOut {
	out := &scenOut{}
	names := []string{"A-lazy", "B-independent", "D-row-groups", "E-async", "A-eager", "G-retain-release"}
	seeds := make([]int64, len(names))
	for i := range seeds {
		seeds[i] = rng.Int63()
	}
	parts := make([]*scenOut, len(names))
	grp := &group{}
	for i := range names {
		i := i
		grp.Go(func(s *slot) {
			parts[i] = scenarios[names[i]](rand.New(rand.NewSource(seeds[i])), p, scale)
		})
	}
	top := &scenOut{}
	grp.Wait(top)
	out.fails = append(out.fails, top.fails...)
	for i, part := range parts {
		if part == nil {
			continue
		}
		for j := range part.fails {
			part.fails[j].What = "[in the mix, part " + names[i] + "] " + part.fails[j].What
		}
		out.absorb(part)
	}
	return out
}

// ---------------------------------------------------------------------------
// race detector: a -race build of this harness with a reduced workload
// ---------------------------------------------------------------------------

type raceOutcome struct {
	note       string
	report     string // first data race report
	nraces     int
	violations []core.Violation
	wall       time.Duration
}

func harnessDir() string {
	if wd, err := os.Getwd(); err == nil {
		if _, err := os.Stat(filepath.Join(wd, "c15", "main.go")); err == nil {
			if _, err := os.Stat(filepath.Join(wd, "go.mod")); err == nil {
				return wd
			}
		}
	}
	return "/verif/harness"
}

func raceRun(outDir string, seed int64) (res raceOutcome) {
	t0 := time.Now()
	defer func() {
		res.wall = time.Since(t0)
		if r := recover(); r != nil {
			res.note = fmt.Sprintf("race detector run failed: %v", r)
		}
	}()
	dir := harnessDir()
	bin := filepath.Join(outDir, "race_bin")
	args := []string{"build", "-race", "-tags", "verif"}
	if repo := os.Getenv("VERIF_REPO"); repo != "" && filepath.Clean(repo) != "/repo" {
		gm, err := os.ReadFile(filepath.Join(dir, "go.mod"))
		if err != nil {
			res.note = "race detector unavailable: " + err.Error()
			return
		}
		alt := filepath.Join(outDir, "alt.mod")
		if err := os.WriteFile(alt, []byte(strings.ReplaceAll(string(gm), "=> /repo", "=> "+repo)), 0o644); err != nil {
			res.note = "race detector unavailable: " + err.Error()
			return
		}
		if gs, err := os.ReadFile(filepath.Join(dir, "go.sum")); err == nil {
			_ = os.WriteFile(filepath.Join(outDir, "alt.sum"), gs, 0o644)
		}
		args = append(args, "-modfile", alt)
	}
	args = append(args, "-o", bin, "./c15")
	build := exec.Command("go", args...)
	build.Dir = dir
	build.Env = append(os.Environ(), "GOFLAGS=-mod=mod", "GOPROXY=off", "CGO_ENABLED=1")
	var bout bytes.Buffer
	build.Stdout, build.Stderr = &bout, &bout
	if err := runWithDeadline(build, 15*time.Minute); err != nil {
		res.note = fmt.Sprintf("race detector unavailable: go build -race failed: %v: %s", err, core.Trunc(strings.TrimSpace(bout.String()), 600))
		return
	}
	childOut := filepath.Join(outDir, "race_out")
	_ = os.RemoveAll(childOut)
	if err := os.MkdirAll(childOut, 0o755); err != nil {
		res.note = "race detector run: " + err.Error()
		return
	}
	child := exec.Command(bin, "-tier", "quick", "-seed", strconv.FormatInt(seed, 10), "-out", childOut, "-replays", childOut)
	child.Dir = dir
	child.Env = append(os.Environ(), "VERIF_C15_RACE=1", "GORACE=halt_on_error=0")
	var stderr bytes.Buffer
	child.Stdout, child.Stderr = io.Discard, &stderr
	runErr := runWithDeadline(child, 6*time.Minute)
	text := stderr.String()
	res.nraces = strings.Count(text, "WARNING: DATA RACE")
	if i := strings.Index(text, "WARNING: DATA RACE"); i >= 0 {
		rep := text[i:]
		if j := strings.Index(rep[1:], "=================="); j >= 0 {
			rep = rep[:j+1]
		}
		res.report = core.Trunc(rep, 6<<10)
	}
	b, err := os.ReadFile(filepath.Join(childOut, "result.json"))
	if err != nil {
		res.note = fmt.Sprintf("race build ran but left no result.json (%v; exit: %v; stderr tail: %s)", err, runErr, core.Trunc(tail(text, 1500), 1500))
		if res.nraces == 0 {
			res.violations = append(res.violations, core.Violation{Class: "race-child-crash", What: "the -race build of the harness ended abnormally: " + fmt.Sprint(runErr), Replay: tail(text, 3000)})
		}
		return
	}
	var cr childResult
	if err := json.Unmarshal(b, &cr); err == nil {
		for _, v := range cr.Violations {
			res.violations = append(res.violations, core.Violation{Class: v.Class, What: v.What, Replay: v.Replay})
		}
		res.note = fmt.Sprintf("race build: %d scenario instances in %.0fs, %d data race reports, %d violations", cr.Evaluations, cr.WallS, res.nraces, len(cr.Violations))
	}
	return
}

func tail(s string, n int) string {
	if len(s) > n {
		return s[len(s)-n:]
	}
	return s
}

func runWithDeadline(cmd *exec.Cmd, d time.Duration) error {
	if err := cmd.Start(); err != nil {
		return err
	}
	done := make(chan error, 1)
	go func() { done <- cmd.Wait() }()
	select {
	case err := <-done:
		return err
	case <-time.After(d):
		_ = cmd.Process.Kill()
		<-done
		return fmt.Errorf("killed after %v", d)
	}
}

// ---------------------------------------------------------------------------
// driver
// ---------------------------------------------------------------------------

func run(c *core.Ctx) {
	c.Res.Exhaustive = false
	c.Res.Rule = "stress exploration, not enumeration: for GOMAXPROCS in {1,2,4,16} every scenario instance draws a seed from the harness PRNG and derives everything from it (files of 500..3000 rows with a unique row id, optional, string, dictionary, byte array, list and double columns, pages of 64..256 bytes, 2-4 row groups, bloom filters, all six codecs, data pages v1/v2; gen.Case schemas for the writers; 4..36 goroutines with seeds of their own). Scenarios: A many goroutines on one File opened lazily (SkipPageIndex+SkipBloomFilters; index racers meet behind a barrier at every fresh chunk; plain, yielding and sleeping io.ReaderAt) or eagerly; B independent writers/readers/buffers; C one goroutine per ColumnWriter; D concurrently filled row groups committed in order; D-parent-pending programs of 1-2 rounds over 1-4 row groups (reused after Commit) in which the parent writer itself receives rows before, while and after the row groups are filled - through WriteRows, through its ColumnWriters (WriteRowValues, one goroutine per column) or through the typed Write, alone or mixed, with Flush calls - on NewGenericWriter[any]/NewWriter with gen.Case schemas and NewGenericWriter[T]/NewWriter with a struct type: besides serial = concurrent bytes, the row groups and rows read back must be those of the serial specification (pending rows are flushed before a committed row group; equal to what one writer produces from WriteRows/Flush alone and to commit_all of the extracted model), failing programs are shrunk on the serial run; E async read mode histories with seeks (storms ReadPage, [sleep|yield], SeekToRow far away [twice], ReadPage); F one fresh *Schema first used inside the race; G pages retained and handed to other goroutines; H independent writers/readers/buffers of the same Go row TYPES at once, over a catalogue of row shapes (" + shapeNames() + "): 2-6 workers per shape, all shapes at once, each worker with rows of its own through every path from Go values to a file and back (GenericWriter[T].Write, Writer.Write(any), GenericBuffer[T].Write, GenericReader[T].Read, Reader.Read(&row), Schema.Deconstruct/Reconstruct, Reconstruct into a destination with interface fields), with the implicit Schema (the one SchemaOf caches per type for the whole process) or an explicit fresh *Schema first used inside the race - file bytes and the Go values read back (canonical JSON) equal the worker's serial run, failures shrunk to the shape alone / 2 workers / fewer rows; I independent writers with configurations OF THEIR OWN (a Codec value per writer: zstd level 1-4 and concurrency, gzip levels -2..9, brotli quality 0-9 and window, lz4 levels, snappy, none; page buffer 1-64 KiB, data pages v1/v2, 1-3 row groups, default encodings plain/delta/dictionary, dictionary limit, statistics, bloom filters; most writers have a sibling with the same rows and options and another level of the same codec) in three phases - each alone after the process-wide pools were emptied (two GCs), all together, each alone again in another order with the pools as the others left them - the bytes and rows of a writer in phases 2 and 3 equal those of the writer alone, failures shrunk to a pair of writers and fewer rows (a note counts the sibling pairs whose bytes differ alone: the comparison can tell the levels apart); J the FIRST use of Go types no cache of the process has seen: every instance makes 20-160 new struct types with reflect.StructOf (1-64 fields of int64/int32/float64/string/bool/[]byte/*int64/[]int64 and nested struct/*struct/[]struct of new types as well, tagged or not, one field with a process-unique name at every level; one type in four is the flat Go type of a wide table, 100-400 fields, written through explicit Schemas of about eight of its columns), 2-8 independent workers per type with values of their own meet behind a barrier right in front of the first call that depends on the type, three of these paths per type: " + strings.Join(jPaths, "; ") + " (explicit Schema = built by hand, columns left out and a column the type does not have) - bytes, canonical rows and values of each worker equal those of the same worker run serially afterwards and (worker 0) of a serial worker that met a twin of the type first, failures shrunk by trying again with new types (one path, 2 workers, 1 row, half the fields); K histories with REDUNDANT Close calls followed by further independent use: for each closer of the read side (" + closerNames() + ") 6-21 histories 'make it, use it not at all / a little / to the end, Close 1-3 times' run by one goroutine or 2-4 at once on 2-3 files (default or one custom read buffer size), then 4-8 independent readers with a File of their own (Rows with seeks, Pages of every column, GenericReader[T], async read mode) and a writer of the same rows, serially, concurrently and serially again, must read the rows and write the bytes of the serial answer computed before anything was closed twice - the closer whose histories were followed by the first failure is reported; L the FIRST Check of a bloom filter on a freshly opened shared File: files of 12000..36000 rows (thorough 40000..120000) in 1-3 row groups with filters of 8-24 bits per value on four columns, written with every bloom filter compression the writer offers (option not given, Uncompressed, Gzip default and levels 1/9/-2/0), 6 (10) fresh Files per file opened with default options / SkipBloomFilters / PrefetchBloomFilters / OptimisticRead / SkipPageIndex+SkipBloomFilters over a plain, yielding or sleeping io.ReaderAt, 2-16 (32) goroutines meet behind a barrier in front of every fresh chunk and issue their first Checks (two values present in the row group, one absent, of their own) at once - every answer (found, error) equals the answer of a File used by one goroutine, present values are (true, nil); failures shrunk to two goroutines on the one filter; M writers SHARING one Codec value: one value per configuration the compress packages offer (uncompressed, snappy, gzip levels -2..9, brotli qualities 0-9 with a window, zstd levels 1-4 with a concurrency, lz4 Fastest/Fast/Level1..Level9 - all of them in every instance), given through parquet.Compression to 3-4 (thorough 3-5) independent writers with rows of their own (compressible text and blobs, page buffers 8-200 KiB so that page bodies run from a few KiB to more than 64 KiB, several pages per column), run alone one after the other and then all at once (1-6 times, so that a fast configuration spends as long together as a slow one), then the same goroutines call Encode and Decode of the value directly on buffers of 3 and 70 (slow configurations 24) KiB of their own (1-64 times) - bytes written together equal the bytes written alone (a panic or error in a writer differs), direct Encode equals the serial Encode, direct Decode gives the source (GOMAXPROCS 2/4/16 only: on one processor calls do not meet inside a codec); failures shrunk to two writers and fewer rows; H, J, K run in a process of their own (a torn cache or a buffer owned twice ends in a fatal error of the runtime as easily as in wrong rows); mixed = A+B+D+E+G at once. Each instance first computes the serial answer of the same work and compares bytes (sha256), canonical rows, page layout, index and bloom filter contents and pointer identity. A, E, G are also run alone with the buffer event sink installed; the traces are checked against the per-buffer reference counting automaton (and the extracted model). A case = one scenario instance; non-trivial = at least 2 worker goroutines ran and the compared output is non-empty; distinct by (scenario, GOMAXPROCS, seed, scale)."
	scale := c.N(1, 2)
	procs := []int{1, 2, 4, 16}
	rounds := c.N(1, 5)
	if isRaceChild {
		scale, procs, rounds = 0, []int{2, 4}, 2
	}
	var raceCh chan raceOutcome
	if !isRaceChild && os.Getenv("VERIF_C15_NORACE") == "" {
		// the race build and its run are independent of this process: they are
		// started now and joined at the end
		raceCh = make(chan raceOutcome, 1)
		seed := c.Seed
		outDir := c.OutDir
		go func() { raceCh <- raceRun(outDir, seed) }()
	}
	seedOf := func() int64 { return c.Rng.Int63() }

	// traced runs first: the process is quiescent, no earlier reader exists
	if !isRaceChild {
		for _, p := range procs {
			for _, name := range []string{"A-lazy", "E-async", "G-retain-release"} {
				runInst(c, inst{Scenario: name, P: p, Seed: seedOf(), Scale: 1, Traced: true})
			}
		}
		if c.Tier == "thorough" {
			for _, p := range procs {
				for _, name := range []string{"A-eager", "E-async", "G-retain-release", "A-lazy"} {
					runInst(c, inst{Scenario: name, P: p, Seed: seedOf(), Scale: 1, Traced: true})
				}
			}
		}
		c.Note("traces_validated_against_impl: %d traces, %d events, %d buffers, %d rejected (longest trace %d events)", traceStats.traces, traceStats.events, traceStats.buffers, traceStats.rejected, traceStats.longest)
		if c.HasOracle() {
			c.Note("traces_validated_against_model: %d oracle requests (whole traces and per-buffer projections)", traceStats.oracle)
			vmWrite(c)
		}
	}
	order := []string{"A-lazy", "A-eager", "B-independent", "C-column-writers", "D-row-groups", "D-parent-pending", "E-async", "F-shared-schema", "G-retain-release", "H-row-shapes", "I-writer-configs", "J-fresh-types", "K-redundant-close", "L-bloom-first-check", "M-shared-codec", "mixed"}
	sampled := 0
	for round := 0; round < rounds; round++ {
		for _, p := range procs {
			for _, name := range order {
				in := inst{Scenario: name, P: p, Seed: seedOf(), Scale: scale}
				if isRaceChild && ((name == "H-row-shapes" && round > 0) || ((name == "I-writer-configs" || name == "J-fresh-types" || name == "K-redundant-close" || name == "M-shared-codec") && (round > 0 || p != 4))) {
					// under the race detector one instance shows what there is to
					// see (a report does not need the accesses to collide in time)
					continue
				}
				if name == "M-shared-codec" && p == 1 {
					// calls of a shared Codec value only collide while two goroutines
					// are inside the codec: nothing to see on one processor
					continue
				}
				if name == "A-lazy" || name == "E-async" {
					// the two scenarios that depend most on the schedule run twice
					runInst(c, inst{Scenario: name, P: p, Seed: seedOf(), Scale: scale})
				}
				runInst(c, in)
				if sampled < 5 && p == 4 {
					c.Sample(in)
					sampled++
				}
			}
		}
	}
	if pendingStats.asked > 0 {
		c.Note("row_groups_compared_with_model: %d programs of D-parent-pending, the row groups of the file equal commit_all of the extracted model in %d", pendingStats.asked, pendingStats.agreed)
	}
	c.Note("stress runs explore schedules (GOMAXPROCS %v, barriers, yielding readers); they are exploration, not proof: schedules that were not observed are not covered", procs)
	if raceCh != nil {
		select {
		case r := <-raceCh:
			if r.note != "" {
				c.Note("%s (race build + run took %.0fs)", r.note, r.wall.Seconds())
			}
			if r.nraces > 0 {
				c.Violation("data-race", fmt.Sprintf("the race detector reported %d data race(s) in the -race build of this harness (reduced workload, GOMAXPROCS 2 and 4)", r.nraces), r.report)
			}
			for _, v := range r.violations {
				c.Violation(v.Class, "[-race build] "+v.What, v.Replay)
			}
		case <-time.After(20 * time.Minute):
			c.Note("race detector run did not finish within its deadline")
		}
	}
}

func replay(c *core.Ctx, raw json.RawMessage) {
	var in inst
	if err := json.Unmarshal(raw, &in); err != nil || scenarios[in.Scenario] == nil {
		c.Note("the replay does not name a scenario instance (a data race report is text): rerun the check with the recorded seed")
		return
	}
	if in.P <= 0 {
		in.P = 4
	}
	if in.Scenario == "D-parent-pending" && pReplay(c, in, raw) {
		return
	}
	if isChild {
		runInst(c, in)
		return
	}
	// schedules differ from run to run: repeat the instance a few times
	for i := 0; i < 5; i++ {
		runInst(c, in)
		if len(c.Res.Violations) > 0 {
			break
		}
	}
	if in.Traced {
		c.Note("traces_validated_against_impl: %d traces, %d events, %d buffers, %d rejected", traceStats.traces, traceStats.events, traceStats.buffers, traceStats.rejected)
	}
}
