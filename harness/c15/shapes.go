// C15, scenario H: independent writers, readers and buffers of the same Go row
// types at the same time, over a catalogue of row SHAPES.
//
// Everything the library derives from a Go type or a Schema is computed once
// and cached: parquet.SchemaOf keeps one *Schema per Go type for the whole
// process, a *Schema keeps its deconstruct/reconstruct closures, the typed
// writers, readers and buffers keep their writeRows/readRows functions per
// type.  "Independent" GenericWriter[T] / GenericReader[T] / Reader / Buffer
// values of different goroutines therefore share these closures, and whatever
// scratch state a closure captures is shared state of all of them.  Which
// closures exist depends on the shape of the row type (MAP with Go-native key
// and value types, lists of maps, maps of lists, maps of groups, nested
// groups, pointers, interface destinations, logical types), so the scenario
// is quantified over a catalogue of shapes and over every access path from a
// Go value to a file and back:
//
//	GenericWriter[T].Write, Writer.Write(any), GenericBuffer[T].Write,
//	GenericReader[T].Read, Reader.Read(&row), Schema.Deconstruct/Reconstruct,
//	Reconstruct into a destination with interface fields (where one exists).
//
// Every worker has rows, files, writers and readers of its own; several
// workers have the same shape.  The Schema is either the implicit one (what
// SchemaOf caches for the type: shared by everybody in the process without
// anybody having said so) or an explicit fresh *Schema shared by the workers
// of the shape and used for the first time inside the race.  The predicate is
// the property itself: each worker's results (file bytes where they are a
// function of the rows, and the Go values read back through every path) equal
// those of the same worker run serially.
package main

import (
	"bytes"
	"crypto/sha256"
	"encoding/hex"
	"encoding/json"
	"fmt"
	"hash"
	"io"
	"math/rand"
	"runtime"
	"sort"
	"strings"
	"time"

	"github.com/parquet-go/parquet-go"
)

// ---------------------------------------------------------------------------
// the catalogue of row types
// ---------------------------------------------------------------------------

type hPoint struct {
	X int32   `parquet:"x"`
	Y float64 `parquet:"y"`
	N *string `parquet:"n,optional"`
}

// MAP with the key/value types of the schema.
type hMapSS struct {
	ID    int64             `parquet:"id"`
	Attrs map[string]string `parquet:"attrs"`
}

// the same rows reconstructed into an interface field
type hMapSSAny struct {
	ID    int64 `parquet:"id"`
	Attrs any   `parquet:"attrs"`
}

// two maps with integer and float keys in one row
type hMapNum struct {
	ID int64             `parquet:"id"`
	A  map[int64]float64 `parquet:"a"`
	B  map[int32]string  `parquet:"b"`
	C  map[string]int64  `parquet:"c,optional"`
}

// map values are groups
type hMapGroup struct {
	ID int64             `parquet:"id"`
	M  map[string]hPoint `parquet:"m"`
}

// map values are pointers (optional values)
type hMapPtr struct {
	ID int64             `parquet:"id"`
	M  map[string]*int64 `parquet:"m"`
	G  map[int64]*hPoint `parquet:"g"`
}

// map values are repeated
type hMapList struct {
	ID int64               `parquet:"id"`
	M  map[string][]string `parquet:"m"`
}

// maps of maps
type hMapMap struct {
	ID int64                       `parquet:"id"`
	M  map[string]map[int32]string `parquet:"m"`
}

// lists of maps
type hListMap struct {
	ID int64              `parquet:"id"`
	L  []map[string]int64 `parquet:"l"`
}

type hEntry struct {
	Name string            `parquet:"name"`
	Tags map[string]string `parquet:"tags"`
	P    *hPoint           `parquet:"p,optional"`
}

// maps below nested and repeated groups
type hNested struct {
	ID    int64    `parquet:"id"`
	Inner hEntry   `parquet:"inner"`
	Items []hEntry `parquet:"items"`
	Ptr   *hEntry  `parquet:"ptr,optional"`
}

type hLeaf struct {
	V *int64  `parquet:"v,optional"`
	S *string `parquet:"s,optional"`
}

type hMid struct {
	Leaf *hLeaf   `parquet:"leaf,optional"`
	L    []*hLeaf `parquet:"l"`
	F    *float64 `parquet:"f,optional"`
}

// pointers all the way down
type hPtrs struct {
	ID  int64   `parquet:"id"`
	A   *int32  `parquet:"a,optional"`
	B   *string `parquet:"b,optional"`
	Mid *hMid   `parquet:"mid,optional"`
	Ms  []hMid  `parquet:"ms"`
	Ps  []*hMid `parquet:"ps"`
}

// logical types and tagged encodings
type hLogical struct {
	ID   int64             `parquet:"id"`
	T    time.Time         `parquet:"t,timestamp(microsecond)"`
	D    int32             `parquet:"d,date"`
	U    [16]byte          `parquet:"u,uuid"`
	Dec  int64             `parquet:"dec,decimal(2:12)"`
	E    string            `parquet:"e,enum"`
	J    map[string]string `parquet:"j,json"`
	L    []string          `parquet:"l,list"`
	OL   []int32           `parquet:"ol,list,optional"`
	Dict string            `parquet:"dict,dict"`
	Dl   int64             `parquet:"dl,delta"`
	Sp   float32           `parquet:"sp,split"`
	Z    string            `parquet:"z,zstd"`
	B    bool              `parquet:"b"`
}

type shapeResult struct {
	File    string // sha of the GenericWriter[T] file ("" when the bytes depend on map iteration order)
	Typed   string // rows of GenericReader[T].Read
	Reader  string // rows of Reader.Read(&row)
	Recon   string // Schema.Deconstruct then Schema.Reconstruct
	Alt     string // Reconstruct into the destination with interface fields
	Written string // Writer.Write(any), read back
	Buffer  string // GenericBuffer[T].Write, Rows, Reconstruct
	N       int
	Err     string
	stack   string
}

// shape is one entry of the catalogue, with the type erased.
type shape interface {
	name() string
	schema(fresh bool) *parquet.Schema
	work(schema *parquet.Schema, explicit bool, seed int64, nrows int, repeat int) (finish func() shapeResult)
}

type shapeOf[T any] struct {
	nm string
	// gen makes row i; n bounds the sizes of its maps and lists
	gen func(rng *rand.Rand, i int) T
	// alt reconstructs a row into a destination with interface fields
	alt func(s *parquet.Schema, row parquet.Row) (any, error)
	// ordered: every map key type is one whose entries are written in key
	// order, so the bytes written by GenericWriter[T] are a function of the rows
	ordered bool
}

func (sh *shapeOf[T]) name() string { return sh.nm }

// schema returns the Schema of the type: the one SchemaOf caches, or a new
// one (a tag replacement identical to the tag in the source makes SchemaOf
// build an uncached Schema whose lazily initialised parts are untouched).
func (sh *shapeOf[T]) schema(fresh bool) *parquet.Schema {
	var zero T
	if fresh {
		return parquet.SchemaOf(zero, parquet.StructTag(`parquet:"id"`, "ID"))
	}
	return parquet.SchemaOf(zero)
}

func hashJSON(h hash.Hash, v any) (err error) {
	// a value torn by a data race (a string header with a length and no data)
	// makes the encoder panic: that is a result, not a crash of the harness
	defer func() {
		if r := recover(); r != nil {
			err = fmt.Errorf("the value cannot be rendered: %v", r)
			io.WriteString(h, err.Error())
		}
	}()
	b, err := json.Marshal(v)
	if err != nil {
		return err
	}
	h.Write(b)
	h.Write([]byte{'\n'})
	return nil
}

func sum(h hash.Hash) string { return hex.EncodeToString(h.Sum(nil)[:12]) }

// work does the work of one worker and returns the function that renders its
// results.  The values read back are only LOOKED AT by that function, which
// the scenario calls when every worker is done: a value that (by a defect)
// shares a map with a row another goroutine is still reconstructing would
// otherwise make the rendering itself die of "concurrent map iteration and map
// write", which no recover catches.
func (sh *shapeOf[T]) work(schema *parquet.Schema, explicit bool, seed int64, nrows int, repeat int) (finish func() shapeResult) {
	var res shapeResult
	var fin []func()
	finish = func() shapeResult {
		for _, f := range fin {
			f()
		}
		return res
	}
	// render hashes the values of one access path
	render := func(what string, vals []T, set func(string)) {
		fin = append(fin, func() {
			h := sha256.New()
			for i := range vals {
				if err := hashJSON(h, &vals[i]); err != nil && res.Err == "" {
					res.Err = what + ": " + err.Error()
				}
			}
			set(fmt.Sprintf("%d:%s", len(vals), sum(h)))
		})
	}
	rng := rand.New(rand.NewSource(seed))
	rows := make([]T, nrows)
	for i := range rows {
		rows[i] = sh.gen(rng, i)
	}
	var wopts []parquet.WriterOption
	var ropts []parquet.ReaderOption
	var bopts []parquet.RowGroupOption
	if explicit {
		wopts = append(wopts, schema)
		ropts = append(ropts, schema)
		bopts = append(bopts, schema)
	}
	wopts = append(wopts, parquet.PageBufferSize(256+rng.Intn(2048)), parquet.MaxRowsPerRowGroup(int64(nrows/2+1)))

	// GenericWriter[T].Write
	var buf bytes.Buffer
	w := parquet.NewGenericWriter[T](&buf, wopts...)
	for i := 0; i < len(rows); {
		k := 1 + rng.Intn(24)
		if i+k > len(rows) {
			k = len(rows) - i
		}
		if _, err := w.Write(rows[i : i+k]); err != nil {
			res.Err = "typed write: " + err.Error()
			return finish
		}
		i += k
	}
	if err := w.Close(); err != nil {
		res.Err = "typed close: " + err.Error()
		return finish
	}
	data := buf.Bytes()
	if sh.ordered {
		res.File = sha(data)
	}

	// GenericReader[T].Read (repeated: reading is the cheap side)
	for rep := 0; rep < repeat; rep++ {
		gr := parquet.NewGenericReader[T](bytes.NewReader(data), ropts...)
		got := make([]T, 1+rng.Intn(40))
		var vals []T
		for {
			clear(got)
			k, err := gr.Read(got)
			vals = append(vals, got[:k]...)
			if err != nil {
				if err != io.EOF {
					res.Err = "typed read: " + err.Error()
				}
				break
			}
			if k == 0 || len(vals) > nrows {
				res.Err = "typed read: no progress or too many rows"
				break
			}
		}
		gr.Close()
		if res.Err != "" {
			return finish
		}
		rep := rep
		res.N = len(vals)
		render("typed read", vals, func(s string) {
			if rep == 0 {
				res.Typed = s
			} else if s != res.Typed {
				res.Typed += " then " + s
			}
		})
	}

	// Reader.Read(&row)
	{
		r := parquet.NewReader(bytes.NewReader(data), ropts...)
		var vals []T
		for len(vals) <= nrows {
			var row T
			err := r.Read(&row)
			if err != nil {
				if err != io.EOF {
					res.Err = "reader read: " + err.Error()
				}
				break
			}
			vals = append(vals, row)
		}
		r.Close()
		if res.Err != "" {
			return finish
		}
		render("reader read", vals, func(s string) { res.Reader = s })
	}

	// Schema.Deconstruct / Schema.Reconstruct (and the interface destination)
	{
		vals := make([]T, len(rows))
		var alts []any
		var row parquet.Row
		for i := range rows {
			row = schema.Deconstruct(row[:0], &rows[i])
			if err := schema.Reconstruct(&vals[i], row); err != nil {
				res.Err = "reconstruct: " + err.Error()
				return finish
			}
			if sh.alt != nil {
				v, err := sh.alt(schema, row)
				if err != nil {
					res.Err = "reconstruct into interface fields: " + err.Error()
					return finish
				}
				alts = append(alts, v)
			}
		}
		render("reconstruct", vals, func(s string) { res.Recon = s })
		if sh.alt != nil {
			fin = append(fin, func() {
				h := sha256.New()
				for _, v := range alts {
					if err := hashJSON(h, v); err != nil && res.Err == "" {
						res.Err = "reconstruct into interface fields: " + err.Error()
					}
				}
				res.Alt = fmt.Sprintf("%d:%s", len(alts), sum(h))
			})
		}
	}

	// Writer.Write(any), read back
	{
		var buf2 bytes.Buffer
		var w2 *parquet.Writer
		if explicit {
			w2 = parquet.NewWriter(&buf2, schema, parquet.PageBufferSize(512))
		} else {
			w2 = parquet.NewWriter(&buf2, parquet.PageBufferSize(512))
		}
		for i := range rows {
			if err := w2.Write(&rows[i]); err != nil {
				res.Err = "writer write: " + err.Error()
				return finish
			}
		}
		if err := w2.Close(); err != nil {
			res.Err = "writer close: " + err.Error()
			return finish
		}
		got, err := parquet.Read[T](bytes.NewReader(buf2.Bytes()), int64(buf2.Len()), ropts...)
		if err != nil {
			res.Err = "writer read back: " + err.Error()
			return finish
		}
		render("writer read back", got, func(s string) { res.Written = s })
	}

	// GenericBuffer[T].Write, Rows, Reconstruct
	{
		gb := parquet.NewGenericBuffer[T](bopts...)
		for i := 0; i < len(rows); {
			k := 1 + rng.Intn(24)
			if i+k > len(rows) {
				k = len(rows) - i
			}
			if _, err := gb.Write(rows[i : i+k]); err != nil {
				res.Err = "buffer write: " + err.Error()
				return finish
			}
			i += k
		}
		rr := gb.Rows()
		rbuf := make([]parquet.Row, 17)
		var vals []T
		idle := 0
		for {
			k, err := rr.ReadRows(rbuf)
			for _, row := range rbuf[:k] {
				var back T
				if e := schema.Reconstruct(&back, row); e != nil {
					res.Err = "buffer reconstruct: " + e.Error()
					break
				}
				vals = append(vals, back)
			}
			if err != nil || res.Err != "" {
				if err != nil && err != io.EOF {
					res.Err = "buffer rows: " + err.Error()
				}
				break
			}
			if k == 0 {
				if idle++; idle > 3 {
					res.Err = "buffer rows: no progress"
					break
				}
			}
		}
		rr.Close()
		if res.Err != "" {
			return finish
		}
		render("buffer", vals, func(s string) { res.Buffer = s })
	}
	return finish
}

// generators of the parts

func hStr(rng *rand.Rand, prefix string, i int) string {
	return fmt.Sprintf("%s-%d-%s", prefix, i, strings.Repeat("v", rng.Intn(6)))
}

func hPtr[V any](v V) *V { return &v }

func hPointOf(rng *rand.Rand, i int) hPoint {
	p := hPoint{X: int32(i*3 + rng.Intn(3)), Y: float64(rng.Intn(4000)) / 8}
	if rng.Intn(3) != 0 {
		p.N = hPtr(hStr(rng, "n", i))
	}
	return p
}

// hLen draws the number of entries of a map or list: empty, nil and single
// entries are frequent enough to occur in every run.
func hLen(rng *rand.Rand) int {
	switch rng.Intn(8) {
	case 0:
		return -1 // nil
	case 1:
		return 0
	case 2:
		return 1
	}
	return 2 + rng.Intn(6)
}

func hMap[K comparable, V any](rng *rand.Rand, key func(j int) K, val func(j int) V) map[K]V {
	n := hLen(rng)
	if n < 0 {
		return nil
	}
	m := make(map[K]V, n)
	for j := 0; j < n; j++ {
		m[key(j)] = val(j)
	}
	return m
}

func hList[V any](rng *rand.Rand, val func(j int) V) []V {
	n := hLen(rng)
	if n < 0 {
		return nil
	}
	l := make([]V, n)
	for j := range l {
		l[j] = val(j)
	}
	return l
}

func hEntryOf(rng *rand.Rand, i int) hEntry {
	e := hEntry{Name: hStr(rng, "name", i)}
	e.Tags = hMap(rng, func(j int) string { return fmt.Sprintf("tag-%d-%d", i, j) }, func(j int) string { return hStr(rng, "tv", i*10+j) })
	if rng.Intn(2) == 0 {
		p := hPointOf(rng, i)
		e.P = &p
	}
	return e
}

func hLeafOf(rng *rand.Rand, i int) *hLeaf {
	l := &hLeaf{}
	if rng.Intn(3) != 0 {
		l.V = hPtr(int64(i*7 + rng.Intn(7)))
	}
	if rng.Intn(3) != 0 {
		l.S = hPtr(hStr(rng, "leaf", i))
	}
	return l
}

func hMidOf(rng *rand.Rand, i int) hMid {
	m := hMid{}
	if rng.Intn(3) != 0 {
		m.Leaf = hLeafOf(rng, i)
	}
	m.L = hList(rng, func(j int) *hLeaf { return hLeafOf(rng, i*10+j) })
	if rng.Intn(2) == 0 {
		m.F = hPtr(float64(rng.Intn(1000)) / 4)
	}
	return m
}

var hEpoch = time.Date(2021, 3, 4, 5, 6, 7, 0, time.UTC)

var catalogue = []shape{
	&shapeOf[hMapSS]{nm: "map[string]string", ordered: true,
		gen: func(rng *rand.Rand, i int) hMapSS {
			return hMapSS{ID: int64(i), Attrs: hMap(rng, func(j int) string { return fmt.Sprintf("key-%d-%d", i, j) }, func(j int) string { return fmt.Sprintf("value-%d-%d", i, j) })}
		},
		alt: func(s *parquet.Schema, row parquet.Row) (any, error) {
			var dst hMapSSAny
			err := s.Reconstruct(&dst, row)
			return &dst, err
		}},
	&shapeOf[hMapNum]{nm: "map[int64]float64+map[int32]string+optional map", ordered: true,
		gen: func(rng *rand.Rand, i int) hMapNum {
			return hMapNum{ID: int64(i),
				A: hMap(rng, func(j int) int64 { return int64(i)*100 + int64(j) }, func(j int) float64 { return float64(i) + float64(j)/8 }),
				B: hMap(rng, func(j int) int32 { return int32(j*1000 + i) }, func(j int) string { return hStr(rng, "b", i*10+j) }),
				C: hMap(rng, func(j int) string { return fmt.Sprintf("c%d.%d", i, j) }, func(j int) int64 { return int64(i ^ j<<20) }),
			}
		}},
	&shapeOf[hMapGroup]{nm: "map[string]group", ordered: true,
		gen: func(rng *rand.Rand, i int) hMapGroup {
			return hMapGroup{ID: int64(i), M: hMap(rng, func(j int) string { return fmt.Sprintf("g-%d-%d", i, j) }, func(j int) hPoint { return hPointOf(rng, i*10+j) })}
		}},
	&shapeOf[hMapPtr]{nm: "map[string]*int64+map[int64]*group", ordered: true,
		gen: func(rng *rand.Rand, i int) hMapPtr {
			return hMapPtr{ID: int64(i),
				M: hMap(rng, func(j int) string { return fmt.Sprintf("p-%d-%d", i, j) }, func(j int) *int64 {
					if rng.Intn(4) == 0 {
						return nil
					}
					return hPtr(int64(i*10 + j))
				}),
				G: hMap(rng, func(j int) int64 { return int64(j)<<32 | int64(i) }, func(j int) *hPoint {
					if rng.Intn(4) == 0 {
						return nil
					}
					p := hPointOf(rng, i*10+j)
					return &p
				}),
			}
		}},
	&shapeOf[hMapList]{nm: "map[string][]string", ordered: true,
		gen: func(rng *rand.Rand, i int) hMapList {
			return hMapList{ID: int64(i), M: hMap(rng, func(j int) string { return fmt.Sprintf("l-%d-%d", i, j) }, func(j int) []string {
				return hList(rng, func(k int) string { return fmt.Sprintf("e-%d-%d-%d", i, j, k) })
			})}
		}},
	&shapeOf[hMapMap]{nm: "map[string]map[int32]string", ordered: true,
		gen: func(rng *rand.Rand, i int) hMapMap {
			return hMapMap{ID: int64(i), M: hMap(rng, func(j int) string { return fmt.Sprintf("o-%d-%d", i, j) }, func(j int) map[int32]string {
				return hMap(rng, func(k int) int32 { return int32(i*100 + j*10 + k) }, func(k int) string { return fmt.Sprintf("in-%d-%d-%d", i, j, k) })
			})}
		}},
	&shapeOf[hListMap]{nm: "[]map[string]int64", ordered: true,
		gen: func(rng *rand.Rand, i int) hListMap {
			return hListMap{ID: int64(i), L: hList(rng, func(j int) map[string]int64 {
				return hMap(rng, func(k int) string { return fmt.Sprintf("lm-%d-%d-%d", i, j, k) }, func(k int) int64 { return int64(i*100 + j*10 + k) })
			})}
		}},
	&shapeOf[hNested]{nm: "groups, repeated groups and pointers to groups with maps", ordered: true,
		gen: func(rng *rand.Rand, i int) hNested {
			r := hNested{ID: int64(i), Inner: hEntryOf(rng, i)}
			r.Items = hList(rng, func(j int) hEntry { return hEntryOf(rng, i*10+j) })
			if rng.Intn(2) == 0 {
				e := hEntryOf(rng, -i)
				r.Ptr = &e
			}
			return r
		}},
	&shapeOf[hPtrs]{nm: "pointers to leaves, groups and lists", ordered: true,
		gen: func(rng *rand.Rand, i int) hPtrs {
			r := hPtrs{ID: int64(i)}
			if rng.Intn(3) != 0 {
				r.A = hPtr(int32(i))
			}
			if rng.Intn(3) != 0 {
				r.B = hPtr(hStr(rng, "b", i))
			}
			if rng.Intn(3) != 0 {
				m := hMidOf(rng, i)
				r.Mid = &m
			}
			r.Ms = hList(rng, func(j int) hMid { return hMidOf(rng, i*10+j) })
			r.Ps = hList(rng, func(j int) *hMid { m := hMidOf(rng, i*10+j); return &m })
			return r
		}},
	&shapeOf[hLogical]{nm: "logical types, json map, tagged encodings", ordered: true,
		gen: func(rng *rand.Rand, i int) hLogical {
			r := hLogical{ID: int64(i), T: hEpoch.Add(time.Duration(i)*time.Hour + time.Duration(rng.Intn(1e6))*time.Microsecond), D: int32(18000 + i),
				Dec: int64(rng.Intn(1e9)), E: []string{"RED", "GREEN", "BLUE"}[rng.Intn(3)], Dict: fmt.Sprintf("d%d", rng.Intn(7)), Dl: int64(i) * 1000,
				Sp: float32(rng.Intn(1000)) / 4, Z: strings.Repeat("z", rng.Intn(30)) + fmt.Sprint(i), B: rng.Intn(2) == 0}
			rng.Read(r.U[:])
			r.J = hMap(rng, func(j int) string { return fmt.Sprintf("j%d", j) }, func(j int) string { return hStr(rng, "jv", i) })
			r.L = hList(rng, func(j int) string { return hStr(rng, "l", i*10+j) })
			r.OL = hList(rng, func(j int) int32 { return int32(i*10 + j) })
			return r
		}},
}

// shapeWorker is one worker of scenario H.
type shapeWorker struct {
	Shape string `json:"shape"`
	Fresh bool   `json:"fresh_schema"`
	Seed  int64  `json:"worker_seed"`
	Rows  int    `json:"rows"`
}

type shapeTask struct {
	sh             shape
	w              shapeWorker
	serialS, concS *parquet.Schema
}

// shapeDiff names the access paths whose results differ.
func shapeDiff(a, b shapeResult) string {
	var d []string
	add := func(name, x, y string) {
		if x != y {
			d = append(d, name)
		}
	}
	add("bytes of GenericWriter[T]", a.File, b.File)
	add("GenericReader[T].Read", a.Typed, b.Typed)
	add("Reader.Read", a.Reader, b.Reader)
	add("Schema.Deconstruct/Reconstruct", a.Recon, b.Recon)
	add("Reconstruct into interface fields", a.Alt, b.Alt)
	add("Writer.Write(any) read back", a.Written, b.Written)
	add("GenericBuffer[T]", a.Buffer, b.Buffer)
	add("error", a.Err, b.Err)
	return strings.Join(d, ", ")
}

// runShapeTasks runs every task serially, then all of them at once, and
// returns the tasks whose concurrent result differs (with the two results).
func runShapeTasks(tasks []*shapeTask, repeat int, out *scenOut) (bad []int, serial, conc []shapeResult) {
	// a panic of the library is part of the result of a worker (the same way
	// in the serial and in the concurrent run)
	caught := func(res *shapeResult) {
		if r := recover(); r != nil {
			stack := make([]byte, 4<<10)
			stack = stack[:runtime.Stack(stack, false)]
			*res = shapeResult{Err: fmt.Sprintf("panic: %v", r), stack: string(stack)}
		}
	}
	guarded := func(t *shapeTask, schema *parquet.Schema) (finish func() shapeResult) {
		var res shapeResult
		defer func() {
			if res.Err != "" {
				finish = func() shapeResult { return res }
			}
		}()
		defer caught(&res)
		return t.sh.work(schema, t.w.Fresh, t.w.Seed, t.w.Rows, repeat)
	}
	finished := func(finish func() shapeResult) (res shapeResult) {
		defer caught(&res)
		return finish()
	}
	serial = make([]shapeResult, len(tasks))
	for i, t := range tasks {
		serial[i] = finished(guarded(t, t.serialS))
	}
	conc = make([]shapeResult, len(tasks))
	pending := make([]func() shapeResult, len(tasks))
	start := make(chan struct{})
	grp := &group{}
	for i, t := range tasks {
		i, t := i, t
		grp.Go(func(s *slot) {
			<-start
			pending[i] = guarded(t, t.concS)
			s.out = t.w.Rows
		})
	}
	close(start)
	grp.Wait(out)
	// the values are rendered when nobody writes any more
	for i := range tasks {
		if pending[i] != nil {
			conc[i] = finished(pending[i])
		}
	}
	for i := range tasks {
		a, b := serial[i], conc[i]
		a.stack, b.stack = "", ""
		if a != b {
			bad = append(bad, i)
		}
	}
	return bad, serial, conc
}

// shapeTasksOf makes n workers of one shape.
func shapeTasksOf(sh shape, fresh bool, seeds []int64, rows int, out *scenOut) []*shapeTask {
	// serial run and concurrent run use different Schema values when the
	// Schema is explicit: the first use of the second one is raced
	s1, s2 := sh.schema(fresh), sh.schema(fresh)
	if fresh && s1 == s2 && out != nil {
		out.notes = append(out.notes, "SchemaOf returned a cached schema for "+sh.name()+": first use is not raced")
	}
	var tasks []*shapeTask
	for _, seed := range seeds {
		tasks = append(tasks, &shapeTask{sh: sh, serialS: s1, concS: s2, w: shapeWorker{Shape: sh.name(), Fresh: fresh, Seed: seed, Rows: rows}})
	}
	return tasks
}

func scenShapes(rng *rand.Rand, p, scale int) *scenOut {
	out := &scenOut{}
	// every shape of the catalogue in every instance; 2..5 workers per shape
	// (they share what is cached for the type), all shapes at once (they share
	// the process-wide pools)
	perShape := []int{2, 2, 4}[scale]
	repeat := []int{1, 3, 4}[scale]
	var tasks []*shapeTask
	for _, sh := range catalogue {
		fresh := rng.Intn(2) == 0
		seeds := make([]int64, perShape+rng.Intn(2)*scale)
		for k := range seeds {
			seeds[k] = rng.Int63()
		}
		ts := shapeTasksOf(sh, fresh, seeds, 0, out)
		for _, t := range ts {
			t.w.Rows = []int{25, 90, 200}[scale] + rng.Intn(40)
		}
		tasks = append(tasks, ts...)
	}
	rng.Shuffle(len(tasks), func(i, j int) { tasks[i], tasks[j] = tasks[j], tasks[i] })
	bad, serial, conc := runShapeTasks(tasks, repeat, out)
	if len(out.fails) > 0 {
		return out
	}
	seenErr := map[string]bool{}
	for i, t := range tasks {
		if a := serial[i]; a.Err != "" && a.Err == conc[i].Err && !seenErr[t.w.Shape+a.Err] {
			seenErr[t.w.Shape+a.Err] = true
			out.notes = append(out.notes, fmt.Sprintf("shape %s: serial and concurrent runs both fail with %s", t.w.Shape, a.Err))
		}
	}
	if len(bad) == 0 {
		return out
	}
	i := bad[0]
	t := tasks[i]
	a, b := serial[i], conc[i]
	detail := map[string]any{"worker": t.w, "differing": shapeDiff(a, b)}
	cls := "rows-differ"
	if strings.HasPrefix(b.Err, "panic:") {
		cls = "panic"
		detail["stack"] = b.stack
	} else if a.File != b.File {
		cls = "bytes-differ"
	}
	a.stack, b.stack = "", ""
	// shrink: the shape alone, two workers, fewer rows - kept when it still
	// fails (three attempts each: the schedule is not ours)
	alone := func(n, rows int) bool {
		for try := 0; try < 3; try++ {
			seeds := make([]int64, n)
			for k := range seeds {
				seeds[k] = t.w.Seed + int64(k)
			}
			scratch := &scenOut{}
			bad, _, _ := runShapeTasks(shapeTasksOf(t.sh, t.w.Fresh, seeds, rows, nil), repeat, scratch)
			if len(bad) > 0 || len(scratch.fails) > 0 {
				return true
			}
		}
		return false
	}
	if n, rows := 4, t.w.Rows; alone(n, rows) {
		if alone(2, rows) {
			n = 2
		}
		for rows > 4 && alone(n, rows/2) {
			rows /= 2
		}
		detail["shrunk"] = map[string]any{"shape": t.w.Shape, "fresh_schema": t.w.Fresh, "workers": n, "rows": rows, "worker_seeds_from": t.w.Seed,
			"what": "this many independent workers of this row type alone (writer, readers, buffer, Deconstruct/Reconstruct each) differ from their serial runs"}
	}
	out.fails = append(out.fails, fail{Class: cls,
		What: fmt.Sprintf("independent writers/readers of row type %q (%d workers of %d row types at once, %s Schema; %d workers differ): worker %d differs from its serial run in: %s; concurrent %+v, serial %+v",
			t.w.Shape, len(tasks), len(catalogue), map[bool]string{false: "implicit (SchemaOf cache)", true: "explicit fresh"}[t.w.Fresh], len(bad), i, shapeDiff(a, b), b, a),
		Detail: detail})
	return out
}

// shapeNames is used by the coverage rule.
func shapeNames() string {
	var names []string
	for _, sh := range catalogue {
		names = append(names, sh.name())
	}
	sort.Strings(names)
	return strings.Join(names, "; ")
}

func init() {
	scenarios["H-row-shapes"] = scenShapes
}
