package main

import (
	"bytes"
	"encoding/json"
	"fmt"

	"github.com/parquet-go/parquet-go"

	"verif/harness/core"
)

// Files whose pages have the sizes of real files. The page bounds the writer
// records come from other routines when a page is large (page_bounds_amd64.go:
// the separate min and max kernels below the default page size, a combined
// kernel for INT64 pages from the default page size on, combined kernels for
// every numeric type from 1 MiB of values on; vector loops over 32 or 64
// values and scalar tails), and the files of c06Files (pages of some dozen
// values) reach none of them. A c06Large file has one required column and
// pages of a chosen number of values; every page has one smallest and one
// largest value, each at a chosen position, and the value ranges of the pages
// are disjoint, so that a bound that misses its extreme makes Search miss the
// page. Every value of every page is searched for.

// c06LargePage: the page holds Len values; the values at MinAt and MaxAt are
// the only ones outside the band of the page.
type c06LargePage struct {
	Len   int `json:"values"`
	MinAt int `json:"min_at"`
	MaxAt int `json:"max_at"`
}

type c06Large struct {
	Col string `json:"column"`
	// PageBuf: the PageBufferSize option; the writer ends a page after the
	// batch of <= 64 rows that fills 98% of it, PerPage values of this column
	PageBuf int `json:"large_page_buffer_size"`
	PerPage int `json:"values_per_page"`
	// Layout of the page bands over the value domain: "asc", "desc", "mixed"
	Layout string         `json:"layout"`
	NaN    bool           `json:"nan,omitempty"` // FLOAT / DOUBLE: NaN values inside the pages
	Seed   uint64         `json:"noise_seed"`
	Pages  []c06LargePage `json:"pages"`
}

// c06Width: bytes of a value in a page buffer; 0 = not a fixed width column.
func c06Width(col string) int {
	switch col {
	case "int32", "uint32", "float":
		return 4
	case "int64", "uint64", "double":
		return 8
	case "int96":
		return 12
	case "flba6":
		return 6
	case "decflba":
		return 7
	case "uuid":
		return 16
	}
	return 0
}

// c06PageBufFor: the smallest PageBufferSize for which pages of this column
// are ended once they hold n values (and not before).
func c06PageBufFor(width, n int) int {
	target := n * width
	for pb := target; ; pb++ {
		t := int(int32(float64(pb) * 0.98)) // writer.go: bufferSize
		if t > (n-1)*width {
			if t > target {
				return 0
			}
			return pb
		}
	}
}

// c06PagesOff counts the pages the writer cut elsewhere than intended.
var c06PagesOff int

func c06Mix(x uint64) uint64 {
	x ^= x >> 33
	x *= 0xff51afd7ed558ccd
	x ^= x >> 33
	x *= 0xc4ceb9fe1a85ec53
	x ^= x >> 33
	return x
}

// level of page p: the bands [level-3, level+11] of the pages are disjoint.
func (lc *c06Large) level(p int) int64 {
	n := len(lc.Pages)
	q := p
	switch lc.Layout {
	case "desc":
		q = n - 1 - p
	case "mixed":
		// even pages ascend from the bottom, odd pages descend from the top
		if p%2 == 0 {
			q = p / 2
		} else {
			q = n - 1 - p/2
		}
	}
	return -3 + 15*int64(q)
}

func (lc *c06Large) write() (data []byte, err string) {
	defer func() {
		if r := recover(); r != nil {
			err = fmt.Sprintf("panic while writing: %v", r)
		}
	}()
	col := c06ColByName(lc.Col)
	if col == nil {
		return nil, "unknown column " + lc.Col
	}
	node := parquet.Required(col.node())
	kind := node.Type().Kind()
	var buf bytes.Buffer
	w := parquet.NewWriter(&buf, parquet.NewSchema("t", parquet.Group{"c": node}), parquet.PageBufferSize(lc.PageBuf))
	var vals []parquet.Value
	var rows []parquet.Row
	images := map[[2]int64]parquet.Value{}
	for p, pg := range lc.Pages {
		if pg.Len <= 0 {
			continue
		}
		vals, rows = vals[:0], rows[:0]
		level := lc.level(p)
		for i := 0; i < pg.Len; i++ {
			h := c06Mix(lc.Seed ^ uint64(p)<<40 ^ uint64(i))
			v := level + int64(h%8)
			switch {
			case i == pg.MinAt:
				v = level - 1 - int64(h%3)
			case i == pg.MaxAt:
				v = level + 8 + int64(h%4)
			case lc.NaN && col.nan != nil && h>>8%53 == 0:
				vals = append(vals, kind.Value(col.nan(h>>16)))
				continue
			}
			// the noise takes 12 values (the columns use it modulo 2, 3 or 4)
			key := [2]int64{v, int64(h >> 16 % 12)}
			val, have := images[key]
			if !have {
				val = kind.Value(col.enc(v, uint64(key[1])))
				images[key] = val
			}
			vals = append(vals, val)
		}
		for i := range vals {
			rows = append(rows, vals[i:i+1:i+1])
		}
		// one call per page: the batch that reaches PerPage values ends the page
		if _, e := w.WriteRows(rows); e != nil {
			return nil, "WriteRows: " + e.Error()
		}
	}
	if e := w.Close(); e != nil {
		return nil, "Close: " + e.Error()
	}
	return buf.Bytes(), ""
}

// c06LargeCheck writes the file and searches the column index of its column
// chunk for every value of every page.
func c06LargeCheck(c *core.Ctx, lc *c06Large, record bool) (ok bool) {
	data, werr := lc.write()
	if werr != "" {
		c.Violation("file-write-error", werr, lc)
		return false
	}
	ok = true
	defer func() {
		if r := recover(); r != nil {
			c.Violation("file-search-panic", fmt.Sprint(r), lc)
			ok = false
		}
	}()
	pf, err := parquet.OpenFile(bytes.NewReader(data), int64(len(data)))
	if err != nil {
		c.Violation("file-open-error", err.Error(), lc)
		return false
	}
	total, rowsSeen := 0, 0
	for _, pg := range lc.Pages {
		total += max(pg.Len, 0)
	}
	width := c06Width(lc.Col)
	for rgi, rg := range pf.RowGroups() {
		cc := rg.ColumnChunks()[0]
		ix, err := cc.ColumnIndex()
		if err != nil || ix == nil {
			c.Violation("file-no-column-index", fmt.Sprintf("row group %d: %v", rgi, err), lc)
			return false
		}
		where := fmt.Sprintf("%s column, pages of %d values and more (%d bytes), row group %d", lc.Col, lc.PerPage, lc.PerPage*width, rgi)
		rows, good := c06ChunkSearch(c, lc, cc, ix, "file", where, record)
		rowsSeen += rows
		if !good {
			return false
		}
		if record {
			// what the pages came out as: the size class decides which routines computed the bounds
			oi, _ := cc.OffsetIndex()
			for p := 0; oi != nil && p < oi.NumPages(); p++ {
				n := rg.NumRows() - oi.FirstRowIndex(p)
				if p+1 < oi.NumPages() {
					n = oi.FirstRowIndex(p+1) - oi.FirstRowIndex(p)
				}
				if p >= len(lc.Pages) || int(n) != lc.Pages[p].Len {
					c06PagesOff++
				}
				class := "below the default page size"
				switch b := n * int64(width); {
				case b >= 1<<20:
					class = ">=1MiB"
				case b >= int64(parquet.DefaultPageBufferSize)*98/100:
					class = ">=default page size"
				}
				c.Case(fmt.Sprintf("file-large/%s/page %s/asc=%v", lc.Col, class, ix.IsAscending()),
					fmt.Sprintf("%s|%d|%d|%d|%s|%d", lc.Col, n, lc.Pages[min(p, len(lc.Pages)-1)].MinAt, lc.Pages[min(p, len(lc.Pages)-1)].MaxAt, lc.Layout, lc.Seed), n >= 2)
			}
		}
	}
	if rowsSeen != total {
		c.Violation("file-row-count", fmt.Sprintf("%d rows written, %d values read back", total, rowsSeen), lc)
		return false
	}
	return ok
}

// c06LargeShrink: fewer pages, no NaN, the plain layout (a failing case costs
// a file of megabytes per attempt: a few dozen attempts only).
func c06LargeShrink(c *core.Ctx, lc *c06Large) *c06Large {
	cur := *lc
	fails := func(t *c06Large) bool { return c.Probe(func() { c06LargeCheck(c, t, false) }) }
	for i := 0; i < len(cur.Pages) && len(cur.Pages) > 1; {
		t := cur
		t.Pages = append(append([]c06LargePage(nil), cur.Pages[:i]...), cur.Pages[i+1:]...)
		if fails(&t) {
			cur = t
		} else {
			i++
		}
	}
	for _, f := range []func(t *c06Large){
		func(t *c06Large) { t.NaN = false },
		func(t *c06Large) { t.Layout = "asc" },
		func(t *c06Large) { t.Seed = 0 },
	} {
		t := cur
		f(&t)
		if fails(&t) {
			cur = t
		}
	}
	// the extremes as early in the page as they still fail
	for i := range cur.Pages {
		for _, f := range []func(pg *c06LargePage) bool{
			func(pg *c06LargePage) bool { pg.Len = cur.PerPage; return pg.MinAt < pg.Len && pg.MaxAt < pg.Len },
			func(pg *c06LargePage) bool { pg.MinAt %= 64; return pg.MinAt != pg.MaxAt },
			func(pg *c06LargePage) bool { pg.MaxAt %= 64; return pg.MinAt != pg.MaxAt },
		} {
			t := cur
			t.Pages = append([]c06LargePage(nil), cur.Pages...)
			if f(&t.Pages[i]) && fails(&t) {
				cur = t
			}
		}
	}
	return &cur
}

func c06LargeRun(c *core.Ctx, lc *c06Large) bool {
	if c.Probe(func() { c06LargeCheck(c, lc, false) }) {
		c06LargeCheck(c, c06LargeShrink(c, lc), false)
		return false
	}
	return c06LargeCheck(c, lc, true)
}

// c06LargeFiles: for every fixed-width column kind, files whose pages have the
// default page size and files whose pages hold 1 MiB of values. The number of
// values that ends a page is 1 above a multiple of 64 and the pages hold 0..63
// values more (every length of the scalar tail of a vector loop over 2^k
// values); the smallest and the largest value of a page sit at random
// positions of its first 64 values, of its last 64 values, or anywhere between
// (all residues modulo the widths of the vector loops come up); the page
// bands ascend (the index claims the ascending order and Find bisects),
// descend, or alternate (Find scans).
func c06LargeFiles(c *core.Ctx) {
	cols := []string{"int32", "int64", "uint32", "uint64", "float", "double", "uuid"}
	if !c.Quick() {
		cols = append(cols, "int96", "flba6", "decflba")
	}
	sizes := []int{parquet.DefaultPageBufferSize * 98 / 100, 1 << 20}
	fi := 0
	for round := c.N(1, 4); round > 0; round-- {
		for _, name := range cols {
			width := c06Width(name)
			for si, bytesPerPage := range sizes {
				n := (bytesPerPage + width - 1) / width
				n += (65 - n%64) % 64 // 1 above a multiple of 64
				lc := &c06Large{Col: name, PerPage: n, PageBuf: c06PageBufFor(width, n), Seed: c.Rng.Uint64(),
					Layout: []string{"asc", "desc", "mixed"}[c.Rng.Intn(3)], NaN: fi%2 == 0 && (name == "float" || name == "double")}
				if lc.PageBuf == 0 {
					c.Note("no page buffer size ends the pages of %s at %d values", name, n)
					continue
				}
				// the 1 MiB pages: 6 of them for the kinds that have a kernel of their own at that size
				pages := 6
				if si == 0 || width > 8 {
					pages = 4
				}
				if !c.Quick() {
					pages += 4
				}
				for p := 0; p < pages; p++ {
					pg := c06LargePage{Len: n + c.Rng.Intn(64)}
					at := func(region int) int {
						switch region % 3 {
						case 0:
							return c.Rng.Intn(64)
						case 1:
							return pg.Len - 1 - c.Rng.Intn(64)
						}
						return 64 + c.Rng.Intn(pg.Len-128)
					}
					pg.MinAt, pg.MaxAt = at(p+fi), at(p+fi+1+p/3)
					for pg.MaxAt == pg.MinAt {
						pg.MaxAt = at(p + fi + 1)
					}
					lc.Pages = append(lc.Pages, pg)
				}
				if c06LargeRun(c, lc) && fi < 2 {
					js, _ := json.Marshal(lc)
					c.Sample(json.RawMessage(js))
				}
				fi++
			}
		}
	}
	c06BatchFiles(c)
}

// c06BatchFiles: pages of 65..192 values, for every fixed-width column kind
// (the kinds without a kernel of their own included: INT96, FIXED_LEN_BYTE_ARRAY,
// DECIMAL on FIXED_LEN_BYTE_ARRAY). The page code that is not a kernel takes
// the values of a page in batches of 64 (decimalPage.Bounds, the generic value
// readers), and the files above put the extremes of a page at a few random
// positions only. Here every position 0..n+62 of pages that end at n = 65 and
// n = 129 values holds the only smallest value of one page and the only
// largest value of another (16 pages a file: the disjoint bands of the pages
// must fit the 10 significant bits of the narrow encodings).
func c06BatchFiles(c *core.Ctx) {
	const perFile = 16
	off := c06PagesOff
	defer func() {
		if c06PagesOff != off {
			c.Note("pages of 65..192 values: %d pages did not come out with the intended number of values", c06PagesOff-off)
		}
	}()
	fi := 0
	for ci := range c06Cols {
		name := c06Cols[ci].name
		width := c06Width(name)
		if width == 0 {
			continue
		}
		for _, n := range []int{65, 129} {
			pb := c06PageBufFor(width, n)
			if pb == 0 {
				c.Note("no page buffer size ends the pages of %s at %d values", name, n)
				continue
			}
			for start := 0; start < n+63; start += perFile {
				lc := &c06Large{Col: name, PerPage: n, PageBuf: pb, Seed: c.Rng.Uint64(), Layout: []string{"asc", "desc", "mixed"}[fi%3]}
				for j := start; j < start+perFile && j < n+63; j++ {
					pg := c06LargePage{Len: max(n+c.Rng.Intn(64), j+1), MinAt: j}
					pg.MaxAt = (j + pg.Len/2) % pg.Len
					lc.Pages = append(lc.Pages, pg)
				}
				c06LargeRun(c, lc)
				fi++
			}
		}
	}
}
