package main

import (
	"bytes"
	"encoding/binary"
	"encoding/hex"
	"encoding/json"
	"fmt"
	"math"
	"strconv"
	"strings"

	"github.com/parquet-go/parquet-go"
	"github.com/parquet-go/parquet-go/format"

	"verif/harness/core"
)

func main() { core.Main("C06", runC06, replayC06) }

// c06Page is one page of a column index: Null or [Min,Max].
type c06Page struct {
	Null bool  `json:"null"`
	Min  int64 `json:"min"`
	Max  int64 `json:"max"`
}

type c06Case struct {
	// Kind: "int64", "bytes" (values are mapped to byte strings), "float" or
	// "double" (values are mapped to floating point numbers: 0 is a zero of
	// either sign, its neighbours are denormals, the ends of the domain are the
	// largest finite numbers and the infinities)
	Kind       string `json:"kind"`
	NullsFirst bool   `json:"nulls_first"`
	Ascending  bool   `json:"ascending"`
	// Descending: the index claims the DESCENDING boundary order (Find then
	// scans: only the chunks of a multi index are built with it)
	Descending bool      `json:"descending,omitempty"`
	Pages      []c06Page `json:"pages"`
	Probes     []int64   `json:"probes"`
	// Zeros (float, double): bit 0: a zero page minimum is -0, bit 1: a zero
	// page maximum is -0, bit 2: a zero probe is -0 (else +0). The two zeros are
	// one value of the column order, whichever of them a page recorded.
	Zeros int `json:"zeros,omitempty"`
}

// c06Double maps the integer domain [-8, 1001] to doubles, strictly increasing
// apart from the two representations of zero.
func c06Double(v int64, negZero bool, single bool) float64 {
	tiny, denorm, least, most := 1e-300, math.Ldexp(1, -1040), math.SmallestNonzeroFloat64, math.MaxFloat64
	if single {
		tiny, denorm, least, most = 1e-30, math.Ldexp(1, -140), math.SmallestNonzeroFloat32, math.MaxFloat32
	}
	neg := v < 0
	a := v
	if neg {
		a = -v
	}
	var f float64
	switch {
	case a == 0:
		if negZero {
			return math.Copysign(0, -1)
		}
		return 0
	case a == 1:
		f = least
	case a == 2:
		f = denorm
	case a == 3:
		f = tiny
	case neg && a == 7 || !neg && a == 1000:
		f = most
	case neg && a >= 8 || !neg && a > 1000:
		f = math.Inf(1)
	default:
		f = float64(a) * 1.5
	}
	if neg {
		f = -f
	}
	return f
}

func (cs *c06Case) isFloat() bool { return cs.Kind == "float" || cs.Kind == "double" }

// floatBytes is the PLAIN encoding of the floating point image of v.
func (cs *c06Case) floatBytes(v int64, negZero bool) []byte {
	if cs.Kind == "float" {
		return binary.LittleEndian.AppendUint32(nil, math.Float32bits(float32(c06Double(v, negZero, true))))
	}
	return binary.LittleEndian.AppendUint64(nil, math.Float64bits(c06Double(v, negZero, false)))
}

// c06Bytes maps the small integer domain to byte strings whose lexicographic
// order is the integer order, with shared 0xFF prefixes and varying lengths.
func c06Bytes(v int64) []byte {
	// v in [-8, 40): order-preserving, variable length
	u := v + 8
	b := []byte{0xFF, 0xFF}
	for i := int64(0); i < u/4; i++ {
		b = append(b, 0xFF)
	}
	b = append(b, byte(u%4))
	return b
}

func c06Build(cs *c06Case) (parquet.ColumnIndex, parquet.Type) {
	idx := &format.ColumnIndex{}
	hasNull := false
	for _, p := range cs.Pages {
		if p.Null {
			hasNull = true
		}
	}
	for _, p := range cs.Pages {
		idx.NullPages = append(idx.NullPages, p.Null)
		var mn, mx []byte
		switch {
		case cs.Kind == "int64":
			mn = binary.LittleEndian.AppendUint64(nil, uint64(p.Min))
			mx = binary.LittleEndian.AppendUint64(nil, uint64(p.Max))
		case cs.isFloat():
			mn, mx = cs.floatBytes(p.Min, cs.Zeros&1 != 0), cs.floatBytes(p.Max, cs.Zeros&2 != 0)
		default:
			mn, mx = c06Bytes(p.Min), c06Bytes(p.Max)
		}
		if p.Null {
			// the writer stores the zero value for null pages
			switch cs.Kind {
			case "int64", "double":
				mn, mx = make([]byte, 8), make([]byte, 8)
			case "float":
				mn, mx = make([]byte, 4), make([]byte, 4)
			default:
				mn, mx = []byte{}, []byte{}
			}
		}
		idx.MinValues = append(idx.MinValues, mn)
		idx.MaxValues = append(idx.MaxValues, mx)
	}
	_ = hasNull
	if cs.Ascending {
		idx.BoundaryOrder = format.Ascending
	} else if cs.Descending {
		idx.BoundaryOrder = format.Descending
	} else {
		idx.BoundaryOrder = format.Unordered
	}
	switch cs.Kind {
	case "int64":
		return parquet.NewColumnIndex(parquet.Int64, idx), parquet.Int64Type
	case "float":
		return parquet.NewColumnIndex(parquet.Float, idx), parquet.FloatType
	case "double":
		return parquet.NewColumnIndex(parquet.Double, idx), parquet.DoubleType
	}
	return parquet.NewColumnIndex(parquet.ByteArray, idx), parquet.ByteArrayType
}

func c06Value(cs *c06Case, v int64) parquet.Value {
	switch cs.Kind {
	case "int64":
		return parquet.Int64Value(v)
	case "float":
		return parquet.FloatValue(float32(c06Double(v, cs.Zeros&4 != 0, true)))
	case "double":
		return parquet.DoubleValue(c06Double(v, cs.Zeros&4 != 0, false))
	}
	return parquet.ByteArrayValue(c06Bytes(v))
}

func c06Contains(p c06Page, v int64) bool { return !p.Null && p.Min <= v && v <= p.Max }

// c06WellFormed: a claimed ascending order is true of the non-null pages.
func c06WellFormed(cs *c06Case) bool {
	if !cs.Ascending {
		return true
	}
	first := true
	var pm, px int64
	for _, p := range cs.Pages {
		if p.Null {
			continue
		}
		if !first && (p.Min < pm || p.Max < px) {
			return false
		}
		first, pm, px = false, p.Min, p.Max
	}
	return true
}

func c06Request(cs *c06Case) string {
	var sb strings.Builder
	// the floating point kinds are asked as integers: the map to floats is
	// monotone and the column order identifies the two zeros, so the model's
	// answer over the integer domain is the answer for the images
	asZ := cs.Kind == "int64" || cs.isFloat()
	if asZ {
		sb.WriteString("c06.find_z ")
	} else {
		sb.WriteString("c06.find_bytes ")
	}
	sb.WriteString(b01(cs.NullsFirst) + " " + b01(cs.Ascending) + " ")
	if len(cs.Pages) == 0 {
		sb.WriteString("_")
	}
	for i, p := range cs.Pages {
		if i > 0 {
			sb.WriteByte(',')
		}
		if p.Null {
			sb.WriteString("N")
		} else if asZ {
			sb.WriteString(core.Zs(p.Min) + ":" + core.Zs(p.Max))
		} else {
			sb.WriteString(core.Hexs(c06Bytes(p.Min)) + ":" + core.Hexs(c06Bytes(p.Max)))
		}
	}
	sb.WriteByte(' ')
	for i, v := range cs.Probes {
		if i > 0 {
			sb.WriteByte(',')
		}
		if asZ {
			sb.WriteString(core.Zs(v))
		} else {
			sb.WriteString(core.Hexs(c06Bytes(v)))
		}
	}
	return sb.String()
}

func b01(b bool) string {
	if b {
		return "1"
	}
	return "0"
}

// c06Run executes one case on the implementation and on the model, evaluates
// the three statements of the property on the implementation's answers.
// Returns false if a violation or mismatch was recorded.
func c06Check(c *core.Ctx, cs *c06Case) bool {
	index, typ := c06Build(cs)
	cmp := parquet.CompareNullsLast(typ.Compare)
	if cs.NullsFirst {
		cmp = parquet.CompareNullsFirst(typ.Compare)
	}
	n := len(cs.Pages)
	impl := make([]int, len(cs.Probes))
	panicked := ""
	func() {
		defer func() {
			if r := recover(); r != nil {
				panicked = fmt.Sprint(r)
			}
		}()
		for i, v := range cs.Probes {
			impl[i] = parquet.Find(index, c06Value(cs, v), cmp)
			if !cs.NullsFirst {
				if s := parquet.Search(index, c06Value(cs, v), typ); s != impl[i] {
					panicked = fmt.Sprintf("Search=%d differs from Find(CompareNullsLast)=%d", s, impl[i])
				}
			}
		}
	}()
	ok := true
	if panicked != "" {
		c.Violation("panic", "Find panicked or Search/Find disagree: "+panicked, cs)
		return false
	}
	// property predicate on the implementation's answers
	for i, v := range cs.Probes {
		r := impl[i]
		one := *cs
		one.Probes = []int64{v}
		if r < 0 || r > n {
			c.Violation("out-of-range", fmt.Sprintf("Find returned %d with %d pages", r, n), one)
			ok = false
			continue
		}
		first := n
		for p, pg := range cs.Pages {
			if c06Contains(pg, v) {
				first = p
				break
			}
		}
		switch {
		case first < n && r > first:
			c.Violation("missed-page", fmt.Sprintf("value %d lies in page %d but Find returned %d (NumPages=%d)", v, first, r, n), one)
			ok = false
		case r < n && !c06Contains(cs.Pages[r], v):
			c.Violation("result-does-not-contain", fmt.Sprintf("Find returned page %d whose bounds do not contain %d", r, v), one)
			ok = false
		}
	}
	// correspondence with the model
	want := c.Ask(c06Request(cs))
	var got strings.Builder
	for i, r := range impl {
		if i > 0 {
			got.WriteByte(',')
		}
		got.WriteString(strconv.Itoa(r))
	}
	if want != got.String() {
		if ok {
			c.Mismatch("corr:C06.find", c06Request(cs), got.String(), want, cs)
		}
		ok = false
	}
	return ok
}

// c06Run checks a case; a failing case is shrunk before it is reported.
func c06Run(c *core.Ctx, cs *c06Case, bucket string, record bool) bool {
	ok := true
	if c.Probe(func() { c06Check(c, cs) }) {
		ok = false
		min := c06Shrink(c, cs)
		c06Check(c, min)
	}
	if record {
		key, _ := json.Marshal(cs)
		c.Case(bucket, string(key), len(cs.Pages) >= 2)
	}
	return ok
}

func c06VmCase(cs *c06Case, impl []int) string {
	var pages []string
	for _, p := range cs.Pages {
		if p.Null {
			pages = append(pages, "None")
		} else {
			pages = append(pages, fmt.Sprintf("Some (%s, %s)", core.CoqZ(p.Min), core.CoqZ(p.Max)))
		}
	}
	var out []string
	for i, v := range cs.Probes {
		out = append(out, fmt.Sprintf("(%s, %s, %s, %s, %d%%nat)", core.CoqBool(cs.NullsFirst), core.CoqBool(cs.Ascending), core.CoqList(pages), core.CoqZ(v), impl[i]))
	}
	return strings.Join(out, ";\n  ")
}

func runC06(c *core.Ctx) {
	c.Res.Rule = "column indexes enumerated exhaustively over a small value domain (every null-page placement, every bounds combination, ascending claimed only when true of the non-null pages, and unordered) for INT64, byte arrays, FLOAT and DOUBLE (the domain value 0 is a floating point zero whose sign is chosen independently for page minima, page maxima and probes; its neighbours are denormals, the ends are the largest finite numbers and the infinities) plus random larger indexes, each probed with every domain value through Find with CompareNullsLast and CompareNullsFirst (and Search); plus the column indexes of files produced by the writer (one column of every physical/logical kind with its own indexer: BOOLEAN, INT32, INT64, UINT_32, UINT_64, FLOAT, DOUBLE with both zeros / denormals / infinities / NaN runs, INT96, strings with 0xFF prefixes, FIXED_LEN_BYTE_ARRAY, UUID with values that tie in their high half, DECIMAL on BYTE_ARRAY (shortest and sign-extended encodings of both signs) and on FIXED_LEN_BYTE_ARRAY; required and optional with null runs; several row groups cut by MaxRowsPerRowGroup and by Flush, the column index of every one of them read from the finished file; writers reused through Writer.Reset), searched for every value present in a page; files whose pages have the sizes of real files (for every fixed-width numeric kind and UUID: pages of the default page size and pages of 1 MiB of values, where the writer takes the page bounds from other routines; page lengths 1..64 above a multiple of 64; the only smallest and the only largest value of a page at random positions of its first 64, its last 64 or its other values; disjoint page bands that ascend, descend or alternate; NaN inside FLOAT / DOUBLE pages; and for every fixed-width kind, INT96, FIXED_LEN_BYTE_ARRAY and DECIMAL on FIXED_LEN_BYTE_ARRAY included, pages of 65..192 values in which every position in turn holds the only smallest value of one page and the only largest of another: the generic page code takes values in batches of 64), every distinct value of every page searched for; single-row-group files whose first and last page are filled by one value (equal first and last bounds, anything between); every written file once more with the column index of every chunk re-encoded the way other writers encode it (thrift compact protocol: list<bool> element type 1 or 2, false elements 0x00 or 0x02, short or long field headers per field, null_counts and the level histograms present or absent, an unknown trailing field of type bool / i32 / binary / list<bool> / struct), appended to the file behind a footer that points at it, read through OpenFile (whole page index) or SkipPageIndex (per chunk), every value present in a page searched for and the index compared with what it read as in parquet-go's own encoding; plus the ColumnIndex implementations Find is handed besides the index of one column chunk: the column index of a column chunk of parquet.MultiRowGroup and of the row groups MergeRowGroups builds on it (pages of the chunks concatenated, IsAscending computed from the chunks' flags and the bounds at every chunk boundary): exhaustively over 2 chunks of <= 2 pages and 3 chunks of <= 1 page (bounds in {0..2}, null pages, chunks without pages, every order an index may truthfully claim: ascending / descending / unordered), random row groups of 1..6 chunks that follow, overlap, reach into the last page of, or precede one another, with null-only chunks, put together flat, nested, through MergeRowGroups and nested in it; the flag and Find's answers are compared with the model (multi_ascending / multi_find) and the predicate is evaluated on the pages the index reports; and the row groups of the written files (data sorted per row group with row groups that follow / overlap / run ahead at their end / precede one another) seen through MultiRowGroup in file order, reversed, rotated, nested and through MergeRowGroups with and without a sorting column, every value of every page searched for. A case is one (index, comparator, flag) with all probes, one multi row group with all probes, or one column chunk of a file or of a view of it; non-trivial = at least 2 pages (2 chunks for a multi row group); distinct by the JSON of the case."
	var vm []string
	addVm := func(cs *c06Case) {
		if cs.Kind != "int64" || len(vm) >= 300 {
			return
		}
		index, typ := c06Build(cs)
		cmp := parquet.CompareNullsLast(typ.Compare)
		if cs.NullsFirst {
			cmp = parquet.CompareNullsFirst(typ.Compare)
		}
		impl := make([]int, len(cs.Probes))
		for i, v := range cs.Probes {
			impl[i] = parquet.Find(index, c06Value(cs, v), cmp)
		}
		vm = append(vm, c06VmCase(cs, impl))
	}

	// corpus first: the defect of the pinned tree
	corpus := []c06Case{
		{Kind: "int64", Ascending: true, Pages: []c06Page{{Min: -5, Max: -1}, {Null: true}, {Min: 6, Max: 10}}, Probes: []int64{6, -5, -1, 0, 10, 11, -6}},
		{Kind: "int64", Ascending: true, Pages: []c06Page{{Null: true}, {Null: true}, {Min: 1, Max: 2}}, Probes: []int64{1, 2, 0, 3}},
		{Kind: "bytes", Ascending: true, Pages: []c06Page{{Min: 0, Max: 3}, {Null: true}, {Null: true}, {Min: 3, Max: 9}}, Probes: []int64{3, 9, 4, 0}},
	}
	for i := range corpus {
		c06Run(c, &corpus[i], "corpus", true)
		c.Sample(corpus[i])
		addVm(&corpus[i])
	}

	// exhaustive small scope
	dom := []int64{0, 1, 2, 3}
	maxPages := c.N(3, 4)
	var opts []c06Page
	opts = append(opts, c06Page{Null: true})
	for _, a := range dom {
		for _, b := range dom {
			if a <= b {
				opts = append(opts, c06Page{Min: a, Max: b})
			}
		}
	}
	probes := []int64{-1, 0, 1, 2, 3, 4}
	var rec func(pages []c06Page, depth int)
	count := 0
	rec = func(pages []c06Page, depth int) {
		if depth > 0 || true {
			for _, asc := range []bool{true, false} {
				for _, nf := range []bool{false, true} {
					for ki, kind := range []string{"int64", "bytes", "double", "float"} {
						if kind == "bytes" && (count%7 != 0) || kind == "double" && (count%3 != 0) || kind == "float" && (count%5 != 0) {
							continue
						}
						cs := &c06Case{Kind: kind, NullsFirst: nf, Ascending: asc, Pages: append([]c06Page(nil), pages...), Probes: probes}
						if cs.isFloat() {
							cs.Zeros = (count/3 + ki) % 8
						}
						if !c06WellFormed(cs) {
							continue
						}
						c06Run(c, cs, fmt.Sprintf("exhaustive/pages=%d", len(pages)), true)
						if count%97 == 0 {
							addVm(cs)
						}
					}
				}
			}
			count++
		}
		if depth == maxPages {
			return
		}
		for _, o := range opts {
			rec(append(pages, o), depth+1)
		}
	}
	rec(nil, 0)
	c.Res.Exhaustive = true
	c.Note("exhaustive over indexes with <= %d pages, bounds in {0..3}, probes {-1..4}", maxPages)

	// random larger indexes
	nRand := c.N(3000, 60000)
	for i := 0; i < nRand; i++ {
		n := 1 + c.Rng.Intn(24)
		asc := c.Rng.Intn(3) != 0
		cs := &c06Case{Kind: []string{"int64", "bytes", "double", "float"}[c.Rng.Intn(4)], NullsFirst: c.Rng.Intn(4) == 0, Ascending: asc}
		if cs.isFloat() {
			cs.Zeros = c.Rng.Intn(8)
		}
		lo, hi := int64(-4), int64(-4)
		for p := 0; p < n; p++ {
			if c.Rng.Intn(4) == 0 {
				cs.Pages = append(cs.Pages, c06Page{Null: true})
				continue
			}
			if asc {
				lo += int64(c.Rng.Intn(3))
				if hi < lo {
					hi = lo
				}
				hi += int64(c.Rng.Intn(3))
				mn := lo
				// overlapping / duplicate bounds: min may stay, max may stay
				cs.Pages = append(cs.Pages, c06Page{Min: mn, Max: hi})
			} else {
				a := int64(c.Rng.Intn(30)) - 4
				b := a + int64(c.Rng.Intn(6))
				cs.Pages = append(cs.Pages, c06Page{Min: a, Max: b})
			}
		}
		for v := int64(-6); v < 34; v++ {
			cs.Probes = append(cs.Probes, v)
		}
		if cs.isFloat() {
			// the ends of the floating point domain: -Inf, -Max in the first
			// non-null page, +Max, +Inf in the last one (an ascending index stays so)
			first, last := -1, -1
			for p, pg := range cs.Pages {
				if !pg.Null {
					if first < 0 {
						first = p
					}
					last = p
				}
			}
			if first >= 0 && c.Rng.Intn(3) == 0 {
				cs.Pages[first].Min = -8 + int64(c.Rng.Intn(2))
			}
			if last >= 0 && c.Rng.Intn(3) == 0 {
				cs.Pages[last].Max = 1000 + int64(c.Rng.Intn(2))
			}
			cs.Probes = append(cs.Probes, -8, -7, 1000, 1001)
		}
		if cs.Kind == "bytes" {
			// keep inside the order-preserving byte domain
			var pr []int64
			for _, v := range cs.Probes {
				if v >= -8 {
					pr = append(pr, v)
				}
			}
			cs.Probes = pr
		}
		if !c06WellFormed(cs) {
			panic("generator produced an ill-formed ascending index")
		}
		c06Run(c, cs, "random", true)
		if i < 2 {
			c.Sample(cs)
		}
		if i%40 == 0 {
			addVm(cs)
		}
	}

	// the column indexes of MultiRowGroup / merged row groups
	var mvm []string
	c06Multis(c, func(mc *c06Multi, asc bool, impl []int) {
		if len(mvm) >= 200 {
			return
		}
		var chunks []string
		for _, ch := range mc.Chunks {
			var pages []string
			for _, p := range ch.Pages {
				if p.Null {
					pages = append(pages, "None")
				} else {
					pages = append(pages, fmt.Sprintf("Some (%s, %s)", core.CoqZ(p.Min), core.CoqZ(p.Max)))
				}
			}
			chunks = append(chunks, fmt.Sprintf("(%s, %s)", core.CoqBool(ch.Order == "asc"), core.CoqList(pages)))
		}
		var out []string
		for i, v := range mc.Probes {
			out = append(out, fmt.Sprintf("(%s, %s, %s, %s, %d%%nat)", core.CoqBool(mc.NullsFirst), core.CoqList(chunks), core.CoqZ(v), core.CoqBool(asc), impl[i]))
		}
		mvm = append(mvm, strings.Join(out, ";\n  "))
	})

	c06Files(c)
	c06LargeFiles(c)

	c.Vm("From Coq Require Import List ZArith Bool Arith.\nFrom PQ Require Import Search.Model Search.MultiFind.\nImport ListNotations.")
	c.Vm("Definition cases : list (bool * bool * list (option (Z * Z)) * Z * nat) := [\n  " + strings.Join(vm, ";\n  ") + "].")
	c.Vm("Definition mismatches := filter (fun '(nf, asc, idx, v, r) => negb (Nat.eqb (find_Z nf asc idx v) r)) cases.")
	c.Vm("Definition mcases : list (bool * list (bool * list (option (Z * Z))) * Z * bool * nat) := [\n  " + strings.Join(mvm, ";\n  ") + "].")
	c.Vm("Definition mmismatches := filter (fun '(nf, chunks, v, asc, r) => negb (Nat.eqb (multi_find_Z nf chunks v) r && Bool.eqb (multi_ascending_Z chunks) asc)) mcases.")
	c.Vm("Definition M := Eval vm_compute in ((length cases + length mcases)%nat, (map (fun x => (x, @nil (bool * list (option (Z * Z))))) mismatches ++ map (fun '(nf, chunks, v, asc, r) => ((nf, asc, @nil (option (Z * Z)), v, r), chunks)) mmismatches)).\nPrint M.")
	total := 0
	for _, s := range vm {
		total += strings.Count(s, "%nat")
	}
	for _, s := range mvm {
		total += strings.Count(s, "%nat")
	}
	c.Res.VmCases = total
}

// c06Shrink minimises a failing case (pages, then probes).
func c06Shrink(c *core.Ctx, cs *c06Case) *c06Case {
	fails := func(t *c06Case) bool {
		if !c06WellFormed(t) {
			return false
		}
		return c.Probe(func() { c06Check(c, t) })
	}
	cur := *cs
	for changed := true; changed; {
		changed = false
		for i := range cur.Pages {
			t := cur
			t.Pages = append(append([]c06Page(nil), cur.Pages[:i]...), cur.Pages[i+1:]...)
			if fails(&t) {
				cur, changed = t, true
				break
			}
		}
		if changed {
			continue
		}
		for i := range cur.Probes {
			if len(cur.Probes) == 1 {
				break
			}
			t := cur
			t.Probes = append(append([]int64(nil), cur.Probes[:i]...), cur.Probes[i+1:]...)
			if fails(&t) {
				cur, changed = t, true
				break
			}
		}
	}
	return &cur
}

// ---------------------------------------------------------------- files

// c06File: one column written by the library's writer; the column index of
// every row group is searched for every value that is present in a page.
type c06File struct {
	Col     string   `json:"column"`
	Opt     bool     `json:"optional,omitempty"`
	Vals    []string `json:"vals"` // per row the PLAIN bytes of the value in hex, "N" = null
	PageBuf int      `json:"page_buffer_size"`
	Limit   int      `json:"column_index_size_limit"`
	Batch   int      `json:"write_batch"`
	MaxRows int64    `json:"max_rows_per_row_group,omitempty"`
	Flush   int      `json:"flush_every,omitempty"` // Writer.Flush after every Flush rows
	// Reuse: the Writer first wrote the same rows (second half first) to another
	// output, was closed, and was Reset to the output of this file
	Reuse bool `json:"writer_reuse,omitempty"`
}

// c06Col is a kind of column (one per ColumnIndexer implementation and per
// comparison): enc maps the integers monotonically into the column order, r
// supplies low-order noise.
type c06Col struct {
	name string
	node func() parquet.Node
	enc  func(v int64, r uint64) []byte
	nan  func(r uint64) []byte
}

func c06FileDouble(v int64, r uint64, single bool) float64 {
	// ... -Inf, -Max, ..., -denormals, a plateau of zeros of both signs,
	// denormals, ..., +Max, +Inf
	switch {
	case v >= -4 && v <= 4:
		v = 0
	case v > 4:
		v -= 4
	default:
		v += 4
	}
	if v > 300 {
		v += 700
	}
	if v < -8 {
		v = -8
	}
	if v > 1001 {
		v = 1001
	}
	return c06Double(v, r&1 != 0, single)
}

// c06Cross: the unsigned images (10 significant bits) reach their top bit at
// v = 512 - c06Cross = 28, inside the domain of the unsorted files ([-50,50))
// and early in the sorted ones, so that neighbouring values differ in the bit a
// signed comparison would read as the sign.
const c06Cross = 484

var c06Cols = []c06Col{
	{name: "int64", node: func() parquet.Node { return parquet.Leaf(parquet.Int64Type) },
		enc: func(v int64, r uint64) []byte { return binary.LittleEndian.AppendUint64(nil, uint64(v)) }},
	{name: "int32", node: func() parquet.Node { return parquet.Leaf(parquet.Int32Type) },
		enc: func(v int64, r uint64) []byte { return binary.LittleEndian.AppendUint32(nil, uint32(int32(v))) }},
	// unsigned: the images cross the sign bit
	{name: "uint32", node: func() parquet.Node { return parquet.Uint(32) },
		enc: func(v int64, r uint64) []byte {
			return binary.LittleEndian.AppendUint32(nil, uint32(v+c06Cross)<<22|uint32(r%4))
		}},
	{name: "uint64", node: func() parquet.Node { return parquet.Uint(64) },
		enc: func(v int64, r uint64) []byte {
			return binary.LittleEndian.AppendUint64(nil, uint64(v+c06Cross)<<54|r%4)
		}},
	{name: "float", node: func() parquet.Node { return parquet.Leaf(parquet.FloatType) },
		enc: func(v int64, r uint64) []byte {
			return binary.LittleEndian.AppendUint32(nil, math.Float32bits(float32(c06FileDouble(v, r, true))))
		},
		nan: func(r uint64) []byte {
			return binary.LittleEndian.AppendUint32(nil, []uint32{0x7fc00000, 0xffc00001, 0x7f800001}[r%3])
		}},
	{name: "double", node: func() parquet.Node { return parquet.Leaf(parquet.DoubleType) },
		enc: func(v int64, r uint64) []byte {
			return binary.LittleEndian.AppendUint64(nil, math.Float64bits(c06FileDouble(v, r, false)))
		},
		nan: func(r uint64) []byte {
			return binary.LittleEndian.AppendUint64(nil, []uint64{0x7ff8000000000000, 0xfff8000000000001, 0x7ff0000000000001}[r%3])
		}},
	// INT96: little-endian words, the most significant one is signed
	{name: "int96", node: func() parquet.Node { return parquet.Leaf(parquet.Int96Type) },
		enc: func(v int64, r uint64) []byte {
			b := binary.LittleEndian.AppendUint32(nil, uint32(r%4)<<30)
			b = binary.LittleEndian.AppendUint32(b, uint32(v+c06Cross)<<22)
			return binary.LittleEndian.AppendUint32(b, uint32(int32(v/8)-3))
		}},
	// long 0xFF prefixes: the truncated maximum cannot be incremented
	{name: "string", node: func() parquet.Node { return parquet.String() },
		enc: func(v int64, r uint64) []byte {
			return []byte(fmt.Sprintf("%s%04d", strings.Repeat("\xff", int(v+100)/90), v+100))
		}},
	{name: "flba6", node: func() parquet.Node { return parquet.Leaf(parquet.FixedLenByteArrayType(6)) },
		enc: func(v int64, r uint64) []byte {
			return binary.BigEndian.AppendUint32([]byte{0xff, 0xff}, uint32(v+c06Cross)<<22|uint32(r%4))
		}},
	// 16 bytes, unsigned order of both halves: four neighbouring values share
	// their high half (its top byte crosses 0x80 inside the domain) and differ in
	// the top bits of the low half, so that the pages hold values whose high
	// halves tie with the running minimum / maximum and values that replace it
	{name: "uuid", node: func() parquet.Node { return parquet.UUID() },
		enc: func(v int64, r uint64) []byte {
			var u [16]byte
			x := uint64(v + c06Cross)
			binary.BigEndian.PutUint64(u[:8], (x>>2)<<56|0x0000010000000000)
			binary.BigEndian.PutUint64(u[8:], (x&3)<<62|r%4)
			return u[:]
		}},
	// BOOLEAN: false below the zero of the domain
	{name: "bool", node: func() parquet.Node { return parquet.Leaf(parquet.BooleanType) },
		enc: func(v int64, r uint64) []byte {
			if v >= 0 {
				return []byte{1}
			}
			return []byte{0}
		}},
	// DECIMAL on byte arrays (the indexer of type_decimal.go): big-endian two's
	// complement numbers compared by value. BYTE_ARRAY: the shortest encoding
	// of 37*v (1 or 2 bytes, both signs), sometimes with one more sign byte (equal
	// numbers of different lengths)
	{name: "decbytes", node: func() parquet.Node { return parquet.Decimal(2, 20, parquet.ByteArrayType) },
		enc: func(v int64, r uint64) []byte {
			b := binary.BigEndian.AppendUint64(nil, uint64(37*v))
			for len(b) > 1 && (b[0] == 0x00 && b[1] < 0x80 || b[0] == 0xff && b[1] >= 0x80) {
				b = b[1:]
			}
			if r%3 == 0 {
				b = append([]byte{byte(int8(b[0]) >> 7)}, b...)
			}
			return b
		}},
	// FIXED_LEN_BYTE_ARRAY(7): v in the top bytes, noise in the lowest one
	{name: "decflba", node: func() parquet.Node { return parquet.Decimal(2, 16, parquet.FixedLenByteArrayType(7)) },
		enc: func(v int64, r uint64) []byte {
			return binary.BigEndian.AppendUint64(nil, uint64(v<<46)|r%4)[1:]
		}},
}

func c06ColByName(name string) *c06Col {
	for i := range c06Cols {
		if c06Cols[i].name == name {
			return &c06Cols[i]
		}
	}
	return nil
}

func (fc *c06File) write() (data []byte, err string) {
	defer func() {
		if r := recover(); r != nil {
			err = fmt.Sprintf("panic while writing: %v", r)
		}
	}()
	col := c06ColByName(fc.Col)
	node := col.node()
	kind := node.Type().Kind()
	if fc.Opt {
		node = parquet.Optional(node)
	} else {
		node = parquet.Required(node)
	}
	rows := make([]parquet.Row, len(fc.Vals))
	for i, t := range fc.Vals {
		if t == "N" {
			rows[i] = parquet.Row{parquet.Value{}.Level(0, 0, 0)}
			continue
		}
		b, e := hex.DecodeString(t)
		if e != nil {
			return nil, e.Error()
		}
		def := 0
		if fc.Opt {
			def = 1
		}
		rows[i] = parquet.Row{kind.Value(b).Level(0, def, 0)}
	}
	lim := fc.Limit
	opts := []parquet.WriterOption{parquet.NewSchema("t", parquet.Group{"c": node}), parquet.PageBufferSize(fc.PageBuf), parquet.ColumnIndexSizeLimit(func([]string) int { return lim })}
	if fc.MaxRows > 0 {
		opts = append(opts, parquet.MaxRowsPerRowGroup(fc.MaxRows))
	}
	batch := fc.Batch
	if batch <= 0 {
		batch = 7
	}
	writeAll := func(w *parquet.Writer, rows []parquet.Row) string {
		sinceFlush := 0
		for i := 0; i < len(rows); {
			j := i + batch
			if fc.Flush > 0 && j-i > fc.Flush-sinceFlush {
				j = i + fc.Flush - sinceFlush
			}
			if j > len(rows) {
				j = len(rows)
			}
			if _, e := w.WriteRows(rows[i:j]); e != nil {
				return "WriteRows: " + e.Error()
			}
			sinceFlush += j - i
			i = j
			if fc.Flush > 0 && sinceFlush >= fc.Flush && i < len(rows) {
				if e := w.Flush(); e != nil {
					return "Flush: " + e.Error()
				}
				sinceFlush = 0
			}
		}
		return ""
	}
	var buf, scratch bytes.Buffer
	var w *parquet.Writer
	if fc.Reuse {
		w = parquet.NewWriter(&scratch, opts...)
		h := len(rows) / 2
		if e := writeAll(w, append(append([]parquet.Row(nil), rows[h:]...), rows[:h]...)); e != "" {
			return nil, "earlier file: " + e
		}
		if e := w.Close(); e != nil {
			return nil, "earlier file: Close: " + e.Error()
		}
		w.Reset(&buf)
	} else {
		w = parquet.NewWriter(&buf, opts...)
	}
	if e := writeAll(w, rows); e != "" {
		return nil, e
	}
	if e := w.Close(); e != nil {
		return nil, "Close: " + e.Error()
	}
	return buf.Bytes(), ""
}

func c06IsNaN(v parquet.Value) bool {
	switch v.Kind() {
	case parquet.Float:
		return v.Float() != v.Float()
	case parquet.Double:
		return v.Double() != v.Double()
	}
	return false
}

func c06Show(v parquet.Value) string {
	switch v.Kind() {
	case parquet.ByteArray, parquet.FixedLenByteArray:
		return hex.EncodeToString(v.Bytes())
	case parquet.Float:
		return fmt.Sprintf("%v (bits %08x)", v, math.Float32bits(v.Float()))
	case parquet.Double:
		return fmt.Sprintf("%v (bits %016x)", v, math.Float64bits(v.Double()))
	}
	return fmt.Sprint(v)
}

// c06FileCheck writes the file and evaluates the property on every column
// index of it; record switches the coverage records on.
func c06FileCheck(c *core.Ctx, fc *c06File, record bool) (ok bool) {
	data, werr := fc.write()
	if werr != "" {
		c.Violation("file-write-error", werr, fc)
		return false
	}
	ok = true
	defer func() {
		if r := recover(); r != nil {
			c.Violation("file-search-panic", fmt.Sprint(r), fc)
			ok = false
		}
	}()
	pf, err := parquet.OpenFile(bytes.NewReader(data), int64(len(data)))
	if err != nil {
		c.Violation("file-open-error", err.Error(), fc)
		return false
	}
	rowsSeen := 0
	for rgi, rg := range pf.RowGroups() {
		cc := rg.ColumnChunks()[0]
		ix, err := cc.ColumnIndex()
		if err != nil || ix == nil {
			c.Violation("file-no-column-index", fmt.Sprintf("row group %d: %v", rgi, err), fc)
			return false
		}
		where := fmt.Sprintf("%s column, row group %d", fc.Col, rgi)
		if fc.Reuse {
			where += " of a file written after Writer.Reset"
		}
		rows, good := c06ChunkSearch(c, fc, cc, ix, "file", where, record)
		rowsSeen += rows
		if !good {
			return false
		}
		if record {
			key, _ := json.Marshal(fc)
			bucket := fmt.Sprintf("file/%s/asc=%v", fc.Col, ix.IsAscending())
			if rgi > 0 || fc.Reuse {
				bucket = fmt.Sprintf("file/%s/after-reset/asc=%v", fc.Col, ix.IsAscending())
			}
			c.Case(bucket, fmt.Sprintf("%s rg %d", key, rgi), ix.NumPages() >= 2)
		}
	}
	if rowsSeen != len(fc.Vals) {
		c.Violation("file-row-count", fmt.Sprintf("%d rows written, %d values read back", len(fc.Vals), rowsSeen), fc)
		return false
	}
	if !ok {
		return false
	}
	return c06FileViews(c, fc, pf.RowGroups(), record)
}

// c06ChunkSearch reads the pages of a column chunk and searches its column
// index for every value present in a page: Search must answer that page or an
// earlier one whose bounds contain the value. Returns the number of values read.
func c06ChunkSearch(c *core.Ctx, fc any, cc parquet.ColumnChunk, ix parquet.ColumnIndex, class, where string, record bool) (rowsSeen int, ok bool) {
	ok = true
	typ := cc.Type()
	pages := cc.Pages()
	defer pages.Close()
	pn := 0
	npages := ix.NumPages()
	for {
		pg, err := pages.ReadPage()
		if err != nil {
			break
		}
		vals := make([]parquet.Value, pg.NumValues())
		k, _ := pg.Values().ReadValues(vals)
		rowsSeen += k
		// a large page: every distinct value once
		var seen map[[17]byte]struct{}
		if k > 4096 {
			seen = make(map[[17]byte]struct{})
		}
		for _, val := range vals[:k] {
			if val.IsNull() || c06IsNaN(val) {
				continue
			}
			if seen != nil {
				var key [17]byte
				if b := val.AppendBytes(key[:0]); len(b) <= 16 {
					key[16] = byte(len(b))
					if _, dup := seen[key]; dup {
						continue
					}
					seen[key] = struct{}{}
				}
			}
			r := parquet.Search(ix, val, typ)
			if record {
				c.Res.Evaluations++
			}
			if r > pn {
				lo, hi := "-", "-"
				if pn < npages {
					lo, hi = c06Show(ix.MinValue(pn)), c06Show(ix.MaxValue(pn))
				}
				c.Violation(class+"-missed-page", fmt.Sprintf("%s: value %s is in page %d of %d but Search returned %d (ascending=%v, recorded bounds of page %d: [%s,%s])", where, c06Show(val), pn, npages, r, ix.IsAscending(), pn, lo, hi), fc)
				ok = false
			} else if r < npages {
				cl := parquet.CompareNullsLast(typ.Compare)
				if cl(ix.MinValue(r), val) > 0 || cl(val, ix.MaxValue(r)) > 0 {
					c.Violation(class+"-result-does-not-contain", fmt.Sprintf("%s: Search(%s) returned page %d whose bounds [%s,%s] exclude it", where, c06Show(val), r, c06Show(ix.MinValue(r)), c06Show(ix.MaxValue(r))), fc)
					ok = false
				}
			}
			if !ok && k > 4096 {
				break // a large page: the first failure will do
			}
		}
		parquet.Release(pg)
		pn++
		if !ok {
			return rowsSeen, false
		}
	}
	if pn != npages {
		c.Violation(class+"-page-count", fmt.Sprintf("%s: the column index has %d pages, %d pages were read", where, npages, pn), fc)
		return rowsSeen, false
	}
	return rowsSeen, true
}

func c06FileShrink(c *core.Ctx, fc *c06File) *c06File {
	return c06FileShrinkWith(c, fc, func(t *c06File) bool { return c.Probe(func() { c06FileCheck(c, t, false) }) })
}

func c06FileShrinkWith(c *core.Ctx, fc *c06File, fails func(t *c06File) bool) *c06File {
	cur := *fc
	budget := 900
	for progress := true; progress && budget > 0; {
		progress = false
		// shorter row groups (the later row groups survive with fewer rows)
		for _, f := range []func(t *c06File) bool{
			func(t *c06File) bool { t.MaxRows /= 2; return t.MaxRows >= 1 },
			func(t *c06File) bool { t.Flush /= 2; return t.Flush >= 1 },
			func(t *c06File) bool { t.MaxRows--; return t.MaxRows >= 1 },
			func(t *c06File) bool { t.Flush--; return t.Flush >= 1 },
		} {
			for budget > 0 {
				t := cur
				budget--
				if !f(&t) || !fails(&t) {
					break
				}
				cur, progress = t, true
			}
		}
		for size := len(cur.Vals) / 2; size >= 1 && budget > 0; {
			removed := false
			for from := 0; from+size <= len(cur.Vals) && budget > 0; {
				t := cur
				t.Vals = append(append([]string(nil), cur.Vals[:from]...), cur.Vals[from+size:]...)
				budget--
				if len(t.Vals) > 0 && fails(&t) {
					cur, removed, progress = t, true, true
				} else {
					from += size
				}
			}
			if !removed || size > len(cur.Vals) {
				size /= 2
			}
		}
	}
	for _, f := range []func(t *c06File){
		func(t *c06File) { t.Reuse = false },
		func(t *c06File) { t.Flush = 0 },
		func(t *c06File) { t.MaxRows = 0 },
		func(t *c06File) { t.Opt = false },
	} {
		t := cur
		f(&t)
		if t.Opt != cur.Opt {
			hasNull := false
			for _, v := range t.Vals {
				hasNull = hasNull || v == "N"
			}
			if hasNull {
				continue
			}
		}
		if fails(&t) {
			cur = t
		}
	}
	return &cur
}

func c06FileRun(c *core.Ctx, fc *c06File) bool {
	if c.Probe(func() { c06FileCheck(c, fc, false) }) {
		c06FileCheck(c, c06FileShrink(c, fc), false)
		return false
	}
	return c06FileCheck(c, fc, true)
}

// c06Files: indexes produced by the writer itself. Every kind of column in
// turn; sorted and unsorted data; runs of nulls and of NaN; files of one and of
// several row groups; new and reused writers.
func c06Files(c *core.Ctx) {
	nFiles := c.N(30, 200) * len(c06Cols)
	for f := 0; f < nFiles; f++ {
		col := &c06Cols[f%len(c06Cols)]
		n := 50 + c.Rng.Intn(400)
		fc := &c06File{Col: col.name, Opt: c.Rng.Intn(2) == 0, PageBuf: 64 + c.Rng.Intn(200), Limit: 3 + c.Rng.Intn(4), Batch: 1 + c.Rng.Intn(20)}
		// the history of the column writer: about two files in three have later
		// row groups or a reused writer
		switch (f / len(c06Cols)) % 3 {
		case 0:
			fc.MaxRows = int64(n/(2+c.Rng.Intn(4)) + 1)
		case 1:
			fc.Flush = n/(2+c.Rng.Intn(4)) + 1
			fc.Reuse = c.Rng.Intn(2) == 0
		default:
			fc.Reuse = c.Rng.Intn(3) == 0
		}
		sorted := c.Rng.Intn(3) != 0
		// how the row groups relate (files cut into row groups every rgRows
		// rows): the data is sorted within each row group and a row group
		// starts after the one before it, inside its last values (late data:
		// the end of a row group runs ahead of the start of the next), or
		// before it (row groups out of order)
		rgRows := int(fc.MaxRows)
		if fc.Flush > 0 {
			rgRows = fc.Flush
		}
		perGroup := sorted && rgRows > 0 && c.Rng.Intn(2) == 0
		v := int64(c.Rng.Intn(10)) - 20
		rgStart, beforeJump, jumped := v, v, false
		for i := 0; i < n; {
			run := 1 + c.Rng.Intn(40)
			null := fc.Opt && c.Rng.Intn(3) == 0
			nan := col.nan != nil && c.Rng.Intn(8) == 0
			zeros := c.Rng.Intn(6) == 0 // a run around the zero of the domain
			flat := c.Rng.Intn(4) == 0  // a run of one value (often longer than a page)
			for k := 0; k < run && i < n; k, i = k+1, i+1 {
				if perGroup && i > 0 && i%rgRows == 0 {
					switch c.Rng.Intn(4) {
					case 0: // after the row group before
					case 1: // the row group before ran ahead at its end
						if jumped {
							v = beforeJump + int64(c.Rng.Intn(3))
						}
					case 2: // shortly after the start of the row group before
						v = rgStart + int64(c.Rng.Intn(6))
					default: // before it
						v = rgStart - int64(c.Rng.Intn(12))
					}
					v = max(v, -90)
					rgStart, jumped = v, false
				} else if perGroup && !jumped && rgRows-i%rgRows < 2+rgRows/8 && c.Rng.Intn(4) == 0 {
					// late data at the end of the row group
					beforeJump, jumped = v, true
					v += 8 + int64(c.Rng.Intn(16))
				}
				if flat && k > 0 {
					// v stays
				} else if sorted {
					v += int64(c.Rng.Intn(3))
				} else if zeros {
					v = int64(c.Rng.Intn(13)) - 6
				} else {
					v = int64(c.Rng.Intn(100)) - 50
				}
				switch {
				case null:
					fc.Vals = append(fc.Vals, "N")
				case nan:
					fc.Vals = append(fc.Vals, hex.EncodeToString(col.nan(c.Rng.Uint64())))
				default:
					fc.Vals = append(fc.Vals, hex.EncodeToString(col.enc(v, c.Rng.Uint64())))
				}
			}
		}
		// a chunk that returns to where it began: one value (a default, a sentinel)
		// fills the first and the last page of the column chunk, whatever lies between
		// (the first and the last bound of the index are equal, the others are not)
		if fc.MaxRows == 0 && fc.Flush == 0 && c.Rng.Intn(2) == 0 {
			s := col.enc(int64(c.Rng.Intn(100))-50, c.Rng.Uint64())
			if run := 2*fc.PageBuf/len(s) + 2*fc.Batch + 2; run <= 200 {
				ends := make([]string, run)
				for i := range ends {
					ends[i] = hex.EncodeToString(s)
				}
				fc.Vals = append(append(append([]string(nil), ends...), fc.Vals...), ends...)
			}
		}
		if !c06FileRun(c, fc) {
			continue
		}
		// the same file with its column indexes in the encoding of another writer
		if !c06ForeignRun(c, &c06Foreign{c06File: *fc, Dialect: c06DrawDialect(c, f/len(c06Cols)+f%len(c06Cols))}) {
			continue
		}
		if f < len(c06Cols) && f%4 == 0 {
			c.Sample(map[string]any{"file_column": fc.Col, "rows": len(fc.Vals), "max_rows_per_row_group": fc.MaxRows, "flush_every": fc.Flush, "writer_reuse": fc.Reuse})
		}
	}
}

func replayC06(c *core.Ctx, raw json.RawMessage) {
	var lc c06Large
	if err := json.Unmarshal(raw, &lc); err == nil && lc.PageBuf > 0 && len(lc.Pages) > 0 && c06ColByName(lc.Col) != nil {
		c06LargeCheck(c, &lc, true)
		return
	}
	var fx c06Foreign
	if err := json.Unmarshal(raw, &fx); err == nil && fx.Dialect != nil && fx.Col != "" && c06ColByName(fx.Col) != nil {
		c06ForeignCheck(c, &fx, true)
		return
	}
	var fc c06File
	if err := json.Unmarshal(raw, &fc); err == nil && fc.Col != "" && c06ColByName(fc.Col) != nil {
		c06FileCheck(c, &fc, true)
		return
	}
	var mc c06Multi
	if err := json.Unmarshal(raw, &mc); err == nil && mc.Kind != "" && len(mc.Chunks) > 0 {
		c06MultiRun(c, &mc, "replay", true)
		return
	}
	var cs c06Case
	if err := json.Unmarshal(raw, &cs); err != nil || cs.Kind == "" {
		c.Note("replay is neither an index case nor a file case; rerun the check with the recorded seed")
		return
	}
	c06Run(c, &cs, "replay", true)
}
