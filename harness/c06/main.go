package main

import (
	"bytes"
	"encoding/binary"
	"encoding/json"
	"fmt"
	"strconv"
	"strings"

	"github.com/parquet-go/parquet-go"
	"github.com/parquet-go/parquet-go/format"

	"verif/harness/core"
)

func main() { core.Main("C06", runC06, replayC06) }

// c06Page is one page of a column index: Null or [Min,Max].
type c06Page struct {
	Null bool  `json:"null"`
	Min  int64 `json:"min"`
	Max  int64 `json:"max"`
}

type c06Case struct {
	Kind       string    `json:"kind"` // "int64" or "bytes" (values are mapped to byte strings)
	NullsFirst bool      `json:"nulls_first"`
	Ascending  bool      `json:"ascending"`
	Pages      []c06Page `json:"pages"`
	Probes     []int64   `json:"probes"`
}

// c06Bytes maps the small integer domain to byte strings whose lexicographic
// order is the integer order, with shared 0xFF prefixes and varying lengths.
func c06Bytes(v int64) []byte {
	// v in [-8, 40): order-preserving, variable length
	u := v + 8
	b := []byte{0xFF, 0xFF}
	for i := int64(0); i < u/4; i++ {
		b = append(b, 0xFF)
	}
	b = append(b, byte(u%4))
	return b
}

func c06Build(cs *c06Case) (parquet.ColumnIndex, parquet.Type) {
	idx := &format.ColumnIndex{}
	hasNull := false
	for _, p := range cs.Pages {
		if p.Null {
			hasNull = true
		}
	}
	for _, p := range cs.Pages {
		idx.NullPages = append(idx.NullPages, p.Null)
		var mn, mx []byte
		if cs.Kind == "int64" {
			mn = binary.LittleEndian.AppendUint64(nil, uint64(p.Min))
			mx = binary.LittleEndian.AppendUint64(nil, uint64(p.Max))
		} else {
			mn, mx = c06Bytes(p.Min), c06Bytes(p.Max)
		}
		if p.Null {
			// the writer stores the zero value for null pages
			if cs.Kind == "int64" {
				mn, mx = make([]byte, 8), make([]byte, 8)
			} else {
				mn, mx = []byte{}, []byte{}
			}
		}
		idx.MinValues = append(idx.MinValues, mn)
		idx.MaxValues = append(idx.MaxValues, mx)
	}
	_ = hasNull
	if cs.Ascending {
		idx.BoundaryOrder = format.Ascending
	} else {
		idx.BoundaryOrder = format.Unordered
	}
	if cs.Kind == "int64" {
		return parquet.NewColumnIndex(parquet.Int64, idx), parquet.Int64Type
	}
	return parquet.NewColumnIndex(parquet.ByteArray, idx), parquet.ByteArrayType
}

func c06Value(cs *c06Case, v int64) parquet.Value {
	if cs.Kind == "int64" {
		return parquet.Int64Value(v)
	}
	return parquet.ByteArrayValue(c06Bytes(v))
}

func c06Contains(p c06Page, v int64) bool { return !p.Null && p.Min <= v && v <= p.Max }

// c06WellFormed: a claimed ascending order is true of the non-null pages.
func c06WellFormed(cs *c06Case) bool {
	if !cs.Ascending {
		return true
	}
	first := true
	var pm, px int64
	for _, p := range cs.Pages {
		if p.Null {
			continue
		}
		if !first && (p.Min < pm || p.Max < px) {
			return false
		}
		first, pm, px = false, p.Min, p.Max
	}
	return true
}

func c06Request(cs *c06Case) string {
	var sb strings.Builder
	if cs.Kind == "int64" {
		sb.WriteString("c06.find_z ")
	} else {
		sb.WriteString("c06.find_bytes ")
	}
	sb.WriteString(b01(cs.NullsFirst) + " " + b01(cs.Ascending) + " ")
	if len(cs.Pages) == 0 {
		sb.WriteString("_")
	}
	for i, p := range cs.Pages {
		if i > 0 {
			sb.WriteByte(',')
		}
		if p.Null {
			sb.WriteString("N")
		} else if cs.Kind == "int64" {
			sb.WriteString(core.Zs(p.Min) + ":" + core.Zs(p.Max))
		} else {
			sb.WriteString(core.Hexs(c06Bytes(p.Min)) + ":" + core.Hexs(c06Bytes(p.Max)))
		}
	}
	sb.WriteByte(' ')
	for i, v := range cs.Probes {
		if i > 0 {
			sb.WriteByte(',')
		}
		if cs.Kind == "int64" {
			sb.WriteString(core.Zs(v))
		} else {
			sb.WriteString(core.Hexs(c06Bytes(v)))
		}
	}
	return sb.String()
}

func b01(b bool) string {
	if b {
		return "1"
	}
	return "0"
}

// c06Run executes one case on the implementation and on the model, evaluates
// the three statements of the property on the implementation's answers.
// Returns false if a violation or mismatch was recorded.
func c06Check(c *core.Ctx, cs *c06Case) bool {
	index, typ := c06Build(cs)
	cmp := parquet.CompareNullsLast(typ.Compare)
	if cs.NullsFirst {
		cmp = parquet.CompareNullsFirst(typ.Compare)
	}
	n := len(cs.Pages)
	impl := make([]int, len(cs.Probes))
	panicked := ""
	func() {
		defer func() {
			if r := recover(); r != nil {
				panicked = fmt.Sprint(r)
			}
		}()
		for i, v := range cs.Probes {
			impl[i] = parquet.Find(index, c06Value(cs, v), cmp)
			if !cs.NullsFirst {
				if s := parquet.Search(index, c06Value(cs, v), typ); s != impl[i] {
					panicked = fmt.Sprintf("Search=%d differs from Find(CompareNullsLast)=%d", s, impl[i])
				}
			}
		}
	}()
	ok := true
	if panicked != "" {
		c.Violation("panic", "Find panicked or Search/Find disagree: "+panicked, cs)
		return false
	}
	// property predicate on the implementation's answers
	for i, v := range cs.Probes {
		r := impl[i]
		one := *cs
		one.Probes = []int64{v}
		if r < 0 || r > n {
			c.Violation("out-of-range", fmt.Sprintf("Find returned %d with %d pages", r, n), one)
			ok = false
			continue
		}
		first := n
		for p, pg := range cs.Pages {
			if c06Contains(pg, v) {
				first = p
				break
			}
		}
		switch {
		case first < n && r > first:
			c.Violation("missed-page", fmt.Sprintf("value %d lies in page %d but Find returned %d (NumPages=%d)", v, first, r, n), one)
			ok = false
		case r < n && !c06Contains(cs.Pages[r], v):
			c.Violation("result-does-not-contain", fmt.Sprintf("Find returned page %d whose bounds do not contain %d", r, v), one)
			ok = false
		}
	}
	// correspondence with the model
	want := c.Ask(c06Request(cs))
	var got strings.Builder
	for i, r := range impl {
		if i > 0 {
			got.WriteByte(',')
		}
		got.WriteString(strconv.Itoa(r))
	}
	if want != got.String() {
		if ok {
			c.Mismatch("corr:C06.find", c06Request(cs), got.String(), want, cs)
		}
		ok = false
	}
	return ok
}

// c06Run checks a case; a failing case is shrunk before it is reported.
func c06Run(c *core.Ctx, cs *c06Case, bucket string, record bool) bool {
	ok := true
	if c.Probe(func() { c06Check(c, cs) }) {
		ok = false
		min := c06Shrink(c, cs)
		c06Check(c, min)
	}
	if record {
		key, _ := json.Marshal(cs)
		c.Case(bucket, string(key), len(cs.Pages) >= 2)
	}
	return ok
}

func c06VmCase(cs *c06Case, impl []int) string {
	var pages []string
	for _, p := range cs.Pages {
		if p.Null {
			pages = append(pages, "None")
		} else {
			pages = append(pages, fmt.Sprintf("Some (%s, %s)", core.CoqZ(p.Min), core.CoqZ(p.Max)))
		}
	}
	var out []string
	for i, v := range cs.Probes {
		out = append(out, fmt.Sprintf("(%s, %s, %s, %s, %d%%nat)", core.CoqBool(cs.NullsFirst), core.CoqBool(cs.Ascending), core.CoqList(pages), core.CoqZ(v), impl[i]))
	}
	return strings.Join(out, ";\n  ")
}

func runC06(c *core.Ctx) {
	c.Res.Rule = "column indexes enumerated exhaustively over a small value domain (every null-page placement, every bounds combination, ascending claimed only when true of the non-null pages, and unordered) plus random larger indexes and indexes read back from written files; each probed with every domain value through Find with CompareNullsLast and CompareNullsFirst (and Search). A case is one (index, comparator, flag) with all probes; non-trivial = at least 2 pages; distinct by the JSON of the case."
	var vm []string
	addVm := func(cs *c06Case) {
		if cs.Kind != "int64" || len(vm) >= 300 {
			return
		}
		index, typ := c06Build(cs)
		cmp := parquet.CompareNullsLast(typ.Compare)
		if cs.NullsFirst {
			cmp = parquet.CompareNullsFirst(typ.Compare)
		}
		impl := make([]int, len(cs.Probes))
		for i, v := range cs.Probes {
			impl[i] = parquet.Find(index, c06Value(cs, v), cmp)
		}
		vm = append(vm, c06VmCase(cs, impl))
	}

	// corpus first: the defect of the pinned tree
	corpus := []c06Case{
		{Kind: "int64", Ascending: true, Pages: []c06Page{{Min: -5, Max: -1}, {Null: true}, {Min: 6, Max: 10}}, Probes: []int64{6, -5, -1, 0, 10, 11, -6}},
		{Kind: "int64", Ascending: true, Pages: []c06Page{{Null: true}, {Null: true}, {Min: 1, Max: 2}}, Probes: []int64{1, 2, 0, 3}},
		{Kind: "bytes", Ascending: true, Pages: []c06Page{{Min: 0, Max: 3}, {Null: true}, {Null: true}, {Min: 3, Max: 9}}, Probes: []int64{3, 9, 4, 0}},
	}
	for i := range corpus {
		c06Run(c, &corpus[i], "corpus", true)
		c.Sample(corpus[i])
		addVm(&corpus[i])
	}

	// exhaustive small scope
	dom := []int64{0, 1, 2, 3}
	maxPages := c.N(3, 4)
	var opts []c06Page
	opts = append(opts, c06Page{Null: true})
	for _, a := range dom {
		for _, b := range dom {
			if a <= b {
				opts = append(opts, c06Page{Min: a, Max: b})
			}
		}
	}
	probes := []int64{-1, 0, 1, 2, 3, 4}
	var rec func(pages []c06Page, depth int)
	count := 0
	rec = func(pages []c06Page, depth int) {
		if depth > 0 || true {
			for _, asc := range []bool{true, false} {
				for _, nf := range []bool{false, true} {
					for _, kind := range []string{"int64", "bytes"} {
						if kind == "bytes" && (count%7 != 0) {
							continue
						}
						cs := &c06Case{Kind: kind, NullsFirst: nf, Ascending: asc, Pages: append([]c06Page(nil), pages...), Probes: probes}
						if !c06WellFormed(cs) {
							continue
						}
						c06Run(c, cs, fmt.Sprintf("exhaustive/pages=%d", len(pages)), true)
						if count%97 == 0 {
							addVm(cs)
						}
					}
				}
			}
			count++
		}
		if depth == maxPages {
			return
		}
		for _, o := range opts {
			rec(append(pages, o), depth+1)
		}
	}
	rec(nil, 0)
	c.Res.Exhaustive = true
	c.Note("exhaustive over indexes with <= %d pages, bounds in {0..3}, probes {-1..4}", maxPages)

	// random larger indexes
	nRand := c.N(3000, 60000)
	for i := 0; i < nRand; i++ {
		n := 1 + c.Rng.Intn(24)
		asc := c.Rng.Intn(3) != 0
		cs := &c06Case{Kind: []string{"int64", "bytes"}[c.Rng.Intn(2)], NullsFirst: c.Rng.Intn(4) == 0, Ascending: asc}
		lo, hi := int64(-4), int64(-4)
		for p := 0; p < n; p++ {
			if c.Rng.Intn(4) == 0 {
				cs.Pages = append(cs.Pages, c06Page{Null: true})
				continue
			}
			if asc {
				lo += int64(c.Rng.Intn(3))
				if hi < lo {
					hi = lo
				}
				hi += int64(c.Rng.Intn(3))
				mn := lo
				// overlapping / duplicate bounds: min may stay, max may stay
				cs.Pages = append(cs.Pages, c06Page{Min: mn, Max: hi})
			} else {
				a := int64(c.Rng.Intn(30)) - 4
				b := a + int64(c.Rng.Intn(6))
				cs.Pages = append(cs.Pages, c06Page{Min: a, Max: b})
			}
		}
		for v := int64(-6); v < 34; v++ {
			cs.Probes = append(cs.Probes, v)
		}
		if cs.Kind == "bytes" {
			// keep inside the order-preserving byte domain
			var pr []int64
			for _, v := range cs.Probes {
				if v >= -8 {
					pr = append(pr, v)
				}
			}
			cs.Probes = pr
		}
		if !c06WellFormed(cs) {
			panic("generator produced an ill-formed ascending index")
		}
		c06Run(c, cs, "random", true)
		if i < 2 {
			c.Sample(cs)
		}
		if i%40 == 0 {
			addVm(cs)
		}
	}

	c06Files(c)

	c.Vm("From Coq Require Import List ZArith Bool Arith.\nFrom PQ Require Import Search.Model.\nImport ListNotations.")
	c.Vm("Definition cases : list (bool * bool * list (option (Z * Z)) * Z * nat) := [\n  " + strings.Join(vm, ";\n  ") + "].")
	c.Vm("Definition mismatches := filter (fun '(nf, asc, idx, v, r) => negb (Nat.eqb (find_Z nf asc idx v) r)) cases.")
	c.Vm("Definition M := Eval vm_compute in (length cases, mismatches).\nPrint M.")
	total := 0
	for _, s := range vm {
		total += strings.Count(s, "%nat")
	}
	c.Res.VmCases = total
}

// c06Shrink minimises a failing case (pages, then probes).
func c06Shrink(c *core.Ctx, cs *c06Case) *c06Case {
	fails := func(t *c06Case) bool {
		if !c06WellFormed(t) {
			return false
		}
		return c.Probe(func() { c06Check(c, t) })
	}
	cur := *cs
	for changed := true; changed; {
		changed = false
		for i := range cur.Pages {
			t := cur
			t.Pages = append(append([]c06Page(nil), cur.Pages[:i]...), cur.Pages[i+1:]...)
			if fails(&t) {
				cur, changed = t, true
				break
			}
		}
		if changed {
			continue
		}
		for i := range cur.Probes {
			if len(cur.Probes) == 1 {
				break
			}
			t := cur
			t.Probes = append(append([]int64(nil), cur.Probes[:i]...), cur.Probes[i+1:]...)
			if fails(&t) {
				cur, changed = t, true
				break
			}
		}
	}
	return &cur
}

// c06Files: indexes produced by the writer itself, searched for every value
// that is actually present in a page.
func c06Files(c *core.Ctx) {
	type row struct {
		A *int64   `parquet:"a,optional"`
		B string   `parquet:"b"`
		U [16]byte `parquet:"u,uuid"`
	}
	nFiles := c.N(40, 600)
	for f := 0; f < nFiles; f++ {
		var rows []row
		n := 50 + c.Rng.Intn(400)
		sorted := c.Rng.Intn(3) != 0
		v := int64(c.Rng.Intn(10)) - 20
		for i := 0; i < n; {
			run := 1 + c.Rng.Intn(40)
			null := c.Rng.Intn(3) == 0
			for k := 0; k < run && i < n; k, i = k+1, i+1 {
				if sorted {
					v += int64(c.Rng.Intn(3))
				} else {
					v = int64(c.Rng.Intn(100)) - 50
				}
				// long 0xFF prefixes (the truncated maximum cannot be incremented) and
				// 16-byte values that share their high half and differ in the top bit
				// of the low half (unsigned order of both halves)
				s := fmt.Sprintf("%s%04d", strings.Repeat("\xff", c.Rng.Intn(8)), v+100)
				var u [16]byte
				u[7] = byte(f % 2)
				binary.BigEndian.PutUint64(u[8:], uint64(v+100)<<54|uint64(c.Rng.Intn(4)))
				if null {
					rows = append(rows, row{B: s, U: u})
				} else {
					x := v
					rows = append(rows, row{A: &x, B: s, U: u})
				}
			}
		}
		var buf bytes.Buffer
		lim := 3 + c.Rng.Intn(4)
		w := parquet.NewGenericWriter[row](&buf, parquet.PageBufferSize(64+c.Rng.Intn(200)), parquet.ColumnIndexSizeLimit(func([]string) int { return lim }))
		for i := 0; i < len(rows); {
			k := 1 + c.Rng.Intn(20)
			if i+k > len(rows) {
				k = len(rows) - i
			}
			if _, err := w.Write(rows[i : i+k]); err != nil {
				c.Violation("file-write-error", err.Error(), nil)
				return
			}
			i += k
		}
		if err := w.Close(); err != nil {
			c.Violation("file-write-error", err.Error(), nil)
			return
		}
		pf, err := parquet.OpenFile(bytes.NewReader(buf.Bytes()), int64(buf.Len()))
		if err != nil {
			c.Violation("file-open-error", err.Error(), nil)
			return
		}
		for _, rg := range pf.RowGroups() {
			for ci, cc := range rg.ColumnChunks() {
				ix, err := cc.ColumnIndex()
				if err != nil || ix == nil {
					continue
				}
				typ := cc.Type()
				pages := cc.Pages()
				pn := 0
				npages := ix.NumPages()
				for {
					pg, err := pages.ReadPage()
					if err != nil {
						break
					}
					vals := make([]parquet.Value, pg.NumValues())
					k, _ := pg.Values().ReadValues(vals)
					for _, val := range vals[:k] {
						if val.IsNull() {
							continue
						}
						r := parquet.Search(ix, val, typ)
						c.Res.Evaluations++
						if r > pn {
							c.Violation("file-missed-page", fmt.Sprintf("column %d: value %v is in page %d of %d but Search returned %d (ascending=%v)", ci, val, pn, npages, r, ix.IsAscending()),
								map[string]any{"rows": rows, "column": ci, "page": pn, "value": val.String()})
						} else if r < npages {
							cl := parquet.CompareNullsLast(typ.Compare)
							if cl(ix.MinValue(r), val) > 0 || cl(val, ix.MaxValue(r)) > 0 {
								c.Violation("file-result-does-not-contain", fmt.Sprintf("column %d: Search(%v) returned page %d whose bounds [%v,%v] exclude it", ci, val, r, ix.MinValue(r), ix.MaxValue(r)), map[string]any{"rows": rows, "column": ci})
							}
						}
					}
					parquet.Release(pg)
					pn++
				}
				pages.Close()
				key := fmt.Sprintf("file %d col %d pages %d asc %v", f, ci, npages, ix.IsAscending())
				c.Case(fmt.Sprintf("file/asc=%v", ix.IsAscending()), key, npages >= 2)
			}
		}
	}
}

func replayC06(c *core.Ctx, raw json.RawMessage) {
	var cs c06Case
	if err := json.Unmarshal(raw, &cs); err != nil || cs.Kind == "" {
		c.Note("replay is not an in-memory index case; rerun the check with the recorded seed")
		return
	}
	c06Run(c, &cs, "replay", true)
}
