package main

import (
	"encoding/json"
	"fmt"
	"strconv"
	"strings"

	"github.com/parquet-go/parquet-go"

	"verif/harness/core"
)

// The ColumnIndex implementations Find is run against, other than the index
// of one column chunk: the index of a column chunk of parquet.MultiRowGroup
// (multi_row_group.go multiColumnIndex) and of the merged row groups built on
// it. Its pages are the pages of the chunks' indexes one chunk after the
// other; the IsAscending flag that selects the binary search is computed from
// the flags of the chunks and from the bounds on both sides of every chunk
// boundary.

// c06Chunk is the column index of one underlying row group.
type c06Chunk struct {
	// Order: what the chunk's own index claims: "asc", "desc" or "" (unordered);
	// a claim is only made when it is true of the non-null pages
	Order string    `json:"order"`
	Pages []c06Page `json:"pages"`
}

type c06Multi struct {
	Kind       string     `json:"kind"`
	NullsFirst bool       `json:"nulls_first"`
	Chunks     []c06Chunk `json:"chunks"`
	// Shape: how the row group is put together:
	//  "flat"          MultiRowGroup(rg...)
	//  "nested"        MultiRowGroup(MultiRowGroup(rg[:Split]...), MultiRowGroup(rg[Split:]...))
	//  "merged"        MergeRowGroups(rg) without sorting columns
	//  "merged-nested" MergeRowGroups([MultiRowGroup(rg[:Split]...), MergeRowGroups(rg[Split:])])
	Shape  string  `json:"shape"`
	Split  int     `json:"split,omitempty"`
	Probes []int64 `json:"probes"`
	Zeros  int     `json:"zeros,omitempty"`
}

// c06RowGroup / c06ColumnChunk: a row group of one column whose column chunk
// has the given column index (the exported interfaces of the library).
type c06RowGroup struct {
	schema *parquet.Schema
	chunk  *c06ColumnChunk
}

func (g *c06RowGroup) NumRows() int64                          { return g.chunk.rows }
func (g *c06RowGroup) ColumnChunks() []parquet.ColumnChunk     { return []parquet.ColumnChunk{g.chunk} }
func (g *c06RowGroup) Schema() *parquet.Schema                 { return g.schema }
func (g *c06RowGroup) SortingColumns() []parquet.SortingColumn { return nil }
func (g *c06RowGroup) Rows() parquet.Rows                      { return parquet.NewRowGroupRowReader(g) }

type c06ColumnChunk struct {
	typ   parquet.Type
	index parquet.ColumnIndex
	rows  int64
}

func (k *c06ColumnChunk) Type() parquet.Type                        { return k.typ }
func (k *c06ColumnChunk) Column() int                               { return 0 }
func (k *c06ColumnChunk) Pages() parquet.Pages                      { return nil }
func (k *c06ColumnChunk) ColumnIndex() (parquet.ColumnIndex, error) { return k.index, nil }
func (k *c06ColumnChunk) OffsetIndex() (parquet.OffsetIndex, error) {
	return nil, parquet.ErrMissingOffsetIndex
}
func (k *c06ColumnChunk) BloomFilter() parquet.BloomFilter { return nil }
func (k *c06ColumnChunk) NumValues() int64                 { return k.rows }

var c06Schemas = map[string]*parquet.Schema{}

func c06SchemaOf(kind string, typ parquet.Type) *parquet.Schema {
	s := c06Schemas[kind]
	if s == nil {
		s = parquet.NewSchema("t", parquet.Group{"c": parquet.Required(parquet.Leaf(typ))})
		c06Schemas[kind] = s
	}
	return s
}

func (ch *c06Chunk) asCase(mc *c06Multi) *c06Case {
	return &c06Case{Kind: mc.Kind, Ascending: ch.Order == "asc", Descending: ch.Order == "desc", Pages: ch.Pages, Zeros: mc.Zeros}
}

// c06ChunkWellFormed: the order the chunk's index claims is true of its
// non-null pages (minima and maxima both non-decreasing / non-increasing).
func c06ChunkWellFormed(ch *c06Chunk) bool {
	if ch.Order != "asc" && ch.Order != "desc" && ch.Order != "" {
		return false
	}
	first := true
	var pm, px int64
	for _, p := range ch.Pages {
		if p.Null {
			continue
		}
		if p.Min > p.Max {
			return false
		}
		if !first {
			if ch.Order == "asc" && (p.Min < pm || p.Max < px) || ch.Order == "desc" && (p.Min > pm || p.Max > px) {
				return false
			}
		}
		first, pm, px = false, p.Min, p.Max
	}
	return true
}

func c06MultiWellFormed(mc *c06Multi) bool {
	if len(mc.Chunks) == 0 {
		return false
	}
	for i := range mc.Chunks {
		if !c06ChunkWellFormed(&mc.Chunks[i]) {
			return false
		}
	}
	return true
}

// build puts the row group together and returns the column index of its
// column chunk, with the indexes of the underlying chunks.
func (mc *c06Multi) build() (index parquet.ColumnIndex, parts []parquet.ColumnIndex, typ parquet.Type, err string) {
	defer func() {
		if r := recover(); r != nil {
			err = fmt.Sprintf("panic while building the row group: %v", r)
		}
	}()
	rgs := make([]parquet.RowGroup, len(mc.Chunks))
	for i := range mc.Chunks {
		ix, t := c06Build(mc.Chunks[i].asCase(mc))
		typ = t
		parts = append(parts, ix)
		rgs[i] = &c06RowGroup{schema: c06SchemaOf(mc.Kind, t), chunk: &c06ColumnChunk{typ: t, index: ix, rows: int64(10 * len(mc.Chunks[i].Pages))}}
	}
	k := mc.Split
	if k < 1 || k >= len(rgs) {
		k = len(rgs) / 2
	}
	merge := func(in []parquet.RowGroup) parquet.RowGroup {
		m, e := parquet.MergeRowGroups(in)
		if e != nil {
			panic("MergeRowGroups: " + e.Error())
		}
		return m
	}
	var rg parquet.RowGroup
	switch {
	case mc.Shape == "nested" && k >= 1:
		rg = parquet.MultiRowGroup(parquet.MultiRowGroup(rgs[:k]...), parquet.MultiRowGroup(rgs[k:]...))
	case mc.Shape == "merged":
		rg = merge(rgs)
	case mc.Shape == "merged-nested" && k >= 1:
		rg = merge([]parquet.RowGroup{parquet.MultiRowGroup(rgs[:k]...), merge(rgs[k:])})
	default:
		rg = parquet.MultiRowGroup(rgs...)
	}
	chunks := rg.ColumnChunks()
	if len(chunks) != 1 {
		return nil, nil, nil, fmt.Sprintf("the row group has %d column chunks, want 1", len(chunks))
	}
	ix, e := chunks[0].ColumnIndex()
	if e != nil || ix == nil {
		return nil, nil, nil, fmt.Sprintf("ColumnIndex of the column chunk of the row group: %v, %v", ix, e)
	}
	return ix, parts, typ, ""
}

func (mc *c06Multi) pages() (all []c06Page) {
	for _, ch := range mc.Chunks {
		all = append(all, ch.Pages...)
	}
	return all
}

func c06MultiRequest(mc *c06Multi) string {
	var sb strings.Builder
	asZ := mc.Kind == "int64" || mc.Kind == "float" || mc.Kind == "double"
	if asZ {
		sb.WriteString("c06.multi_find_z ")
	} else {
		sb.WriteString("c06.multi_find_bytes ")
	}
	sb.WriteString(b01(mc.NullsFirst) + " ")
	for i, ch := range mc.Chunks {
		if i > 0 {
			sb.WriteByte(';')
		}
		sb.WriteString(b01(ch.Order == "asc") + "@")
		if len(ch.Pages) == 0 {
			sb.WriteByte('_')
		}
		for j, p := range ch.Pages {
			if j > 0 {
				sb.WriteByte(',')
			}
			switch {
			case p.Null:
				sb.WriteString("N")
			case asZ:
				sb.WriteString(core.Zs(p.Min) + ":" + core.Zs(p.Max))
			default:
				sb.WriteString(core.Hexs(c06Bytes(p.Min)) + ":" + core.Hexs(c06Bytes(p.Max)))
			}
		}
	}
	sb.WriteByte(' ')
	for i, v := range mc.Probes {
		if i > 0 {
			sb.WriteByte(',')
		}
		if asZ {
			sb.WriteString(core.Zs(v))
		} else {
			sb.WriteString(core.Hexs(c06Bytes(v)))
		}
	}
	return sb.String()
}

// c06MultiCheck: one case on the implementation and on the model; the
// statements of the property are evaluated on the implementation's answers
// over the pages the index reports.
func c06MultiCheck(c *core.Ctx, mc *c06Multi) bool { return c06MultiLevel(c, mc) == 0 }

// c06MultiLevel: 0 = nothing to report, 1 = the model disagrees (the property
// predicate holds), 2 = the property predicate fails.
func c06MultiLevel(c *core.Ctx, mc *c06Multi) int {
	index, parts, typ, berr := mc.build()
	if berr != "" {
		c.Violation("multi-build", berr, mc)
		return 2
	}
	cmp := parquet.CompareNullsLast(typ.Compare)
	if mc.NullsFirst {
		cmp = parquet.CompareNullsFirst(typ.Compare)
	}
	pages := mc.pages()
	n := len(pages)
	one := &c06Case{Kind: mc.Kind, Zeros: mc.Zeros}
	impl := make([]int, len(mc.Probes))
	asc := false
	failed := ""
	func() {
		defer func() {
			if r := recover(); r != nil {
				failed = fmt.Sprintf("panic: %v", r)
			}
		}()
		// the pages the index reports are the pages of the chunks, in order
		if index.NumPages() != n {
			failed = fmt.Sprintf("NumPages=%d, the chunks have %d pages", index.NumPages(), n)
			return
		}
		p := 0
		for i, part := range parts {
			for j := range mc.Chunks[i].Pages {
				if index.NullPage(p) != part.NullPage(j) {
					failed = fmt.Sprintf("NullPage(%d)=%v, page %d of chunk %d: %v", p, index.NullPage(p), j, i, part.NullPage(j))
					return
				}
				if !part.NullPage(j) && (typ.Compare(index.MinValue(p), part.MinValue(j)) != 0 || typ.Compare(index.MaxValue(p), part.MaxValue(j)) != 0) {
					failed = fmt.Sprintf("bounds of page %d [%v,%v] are not those of page %d of chunk %d [%v,%v]", p, index.MinValue(p), index.MaxValue(p), j, i, part.MinValue(j), part.MaxValue(j))
					return
				}
				p++
			}
		}
		asc = index.IsAscending()
		for i, v := range mc.Probes {
			impl[i] = parquet.Find(index, c06Value(one, v), cmp)
			if !mc.NullsFirst {
				if s := parquet.Search(index, c06Value(one, v), typ); s != impl[i] {
					failed = fmt.Sprintf("Search=%d differs from Find(CompareNullsLast)=%d", s, impl[i])
					return
				}
			}
		}
	}()
	if failed != "" {
		c.Violation("multi-index-view", "column index of a "+mc.Shape+" row group: "+failed, mc)
		return 2
	}
	ok := true
	for i, v := range mc.Probes {
		r := impl[i]
		t := *mc
		t.Probes = []int64{v}
		if r < 0 || r > n {
			c.Violation("multi-out-of-range", fmt.Sprintf("Find returned %d with %d pages", r, n), t)
			ok = false
			continue
		}
		first := n
		for p, pg := range pages {
			if c06Contains(pg, v) {
				first = p
				break
			}
		}
		switch {
		case first < n && r > first:
			c.Violation("multi-missed-page", fmt.Sprintf("column index of a %s row group over %d chunks (IsAscending=%v): value %d lies in page %d but Find returned %d (NumPages=%d)", mc.Shape, len(mc.Chunks), asc, v, first, r, n), t)
			ok = false
		case r < n && !c06Contains(pages[r], v):
			c.Violation("multi-result-does-not-contain", fmt.Sprintf("column index of a %s row group: Find returned page %d whose bounds do not contain %d", mc.Shape, r, v), t)
			ok = false
		}
	}
	// correspondence with the model: the flag isOrdered computes and Find's answers
	want := c.Ask(c06MultiRequest(mc))
	var got strings.Builder
	got.WriteString(b01(asc) + ";")
	for i, r := range impl {
		if i > 0 {
			got.WriteByte(',')
		}
		got.WriteString(strconv.Itoa(r))
	}
	if !ok {
		return 2
	}
	if want != got.String() {
		c.Mismatch("corr:C06.multi_find", c06MultiRequest(mc), got.String(), want, mc)
		return 1
	}
	return 0
}

func c06MultiRun(c *core.Ctx, mc *c06Multi, bucket string, record bool) bool {
	ok := true
	level := 0
	if c.Probe(func() { level = c06MultiLevel(c, mc) }) {
		ok = false
		c06MultiCheck(c, c06MultiShrink(c, mc, level))
	}
	if record {
		key, _ := json.Marshal(mc)
		c.Case(bucket, string(key), len(mc.Chunks) >= 2)
	}
	return ok
}

// c06MultiShrink minimises a failing case: chunks, pages, shape, claims,
// probes. A case on which the property predicate fails stays one (it is not
// traded for a smaller case on which only the model disagrees).
func c06MultiShrink(c *core.Ctx, mc *c06Multi, level int) *c06Multi {
	fails := func(t *c06Multi) bool {
		if !c06MultiWellFormed(t) {
			return false
		}
		l := 0
		c.Probe(func() { l = c06MultiLevel(c, t) })
		return l >= level
	}
	clone := func(m *c06Multi) c06Multi {
		t := *m
		t.Chunks = make([]c06Chunk, len(m.Chunks))
		for i, ch := range m.Chunks {
			t.Chunks[i] = c06Chunk{Order: ch.Order, Pages: append([]c06Page(nil), ch.Pages...)}
		}
		t.Probes = append([]int64(nil), m.Probes...)
		return t
	}
	cur := clone(mc)
	for changed := true; changed; {
		changed = false
		try := func(t c06Multi) bool {
			if fails(&t) {
				cur, changed = t, true
				return true
			}
			return false
		}
		if cur.Shape != "flat" {
			t := clone(&cur)
			t.Shape, t.Split = "flat", 0
			if try(t) {
				continue
			}
		}
		for i := range cur.Chunks {
			if len(cur.Chunks) > 1 {
				t := clone(&cur)
				t.Chunks = append(t.Chunks[:i], t.Chunks[i+1:]...)
				if t.Split > 1 && i < t.Split {
					t.Split--
				}
				if try(t) {
					break
				}
			}
			done := false
			for j := range cur.Chunks[i].Pages {
				t := clone(&cur)
				t.Chunks[i].Pages = append(t.Chunks[i].Pages[:j], t.Chunks[i].Pages[j+1:]...)
				if try(t) {
					done = true
					break
				}
			}
			if done {
				break
			}
			if cur.Chunks[i].Order != "" {
				t := clone(&cur)
				t.Chunks[i].Order = ""
				if try(t) {
					break
				}
			}
		}
		if changed {
			continue
		}
		for i := range cur.Probes {
			if len(cur.Probes) == 1 {
				break
			}
			t := clone(&cur)
			t.Probes = append(t.Probes[:i], t.Probes[i+1:]...)
			if try(t) {
				break
			}
		}
		if !changed && cur.NullsFirst {
			t := clone(&cur)
			t.NullsFirst = false
			try(t)
		}
	}
	return &cur
}

var c06Shapes = []string{"flat", "nested", "merged", "merged-nested"}

// c06ChunkVariants: every chunk of at most maxPages pages over the page
// options, with every claim that is true of it.
func c06ChunkVariants(opts []c06Page, maxPages int, orders []string) (out []c06Chunk) {
	var rec func(pages []c06Page)
	rec = func(pages []c06Page) {
		for _, o := range orders {
			ch := c06Chunk{Order: o, Pages: append([]c06Page(nil), pages...)}
			if c06ChunkWellFormed(&ch) {
				out = append(out, ch)
			}
		}
		if len(pages) == maxPages {
			return
		}
		for _, o := range opts {
			rec(append(pages, o))
		}
	}
	rec(nil)
	return out
}

// c06Multis: the exhaustive small scope and the random larger row groups.
func c06Multis(c *core.Ctx, addVm func(mc *c06Multi, asc bool, impl []int)) {
	dom := []int64{0, 1, 2}
	opts := []c06Page{{Null: true}}
	for _, a := range dom {
		for _, b := range dom {
			if a <= b {
				opts = append(opts, c06Page{Min: a, Max: b})
			}
		}
	}
	probes := []int64{-1, 0, 1, 2, 3}
	count := 0
	run := func(chunks []c06Chunk, bucket string) {
		count++
		kinds := []string{"int64"}
		if count%11 == 0 {
			kinds = append(kinds, "bytes")
		}
		if count%7 == 0 {
			kinds = append(kinds, "double")
		}
		if count%13 == 0 {
			kinds = append(kinds, "float")
		}
		for ki, kind := range kinds {
			mc := &c06Multi{Kind: kind, NullsFirst: count%5 == 0, Chunks: chunks, Shape: c06Shapes[(count/3+ki)%len(c06Shapes)], Probes: probes}
			if len(chunks) > 2 {
				mc.Split = 1 + count%(len(chunks)-1)
			}
			if kind == "float" || kind == "double" {
				mc.Zeros = (count/7 + ki) % 8
			}
			c06MultiRun(c, mc, bucket, true)
			if kind == "int64" && count%211 == 0 {
				c06MultiVm(c, mc, addVm)
			}
		}
	}
	// two chunks of at most two pages each: every pair
	two := c06ChunkVariants(opts, 2, []string{"asc", "desc", ""})
	for _, a := range two {
		for _, b := range two {
			run([]c06Chunk{a, b}, "multi/exhaustive/chunks=2")
		}
	}
	// three chunks of at most one page each (quick) / one outer chunk of two pages (thorough)
	small := c06ChunkVariants(opts, 1, []string{"asc", "desc", ""})
	for _, a := range small {
		for _, b := range small {
			for _, d := range small {
				run([]c06Chunk{a, b, d}, "multi/exhaustive/chunks=3")
			}
		}
	}
	c.Note("multi row group indexes: exhaustive over 2 chunks of <= 2 pages (%d chunk variants) and 3 chunks of <= 1 page (%d variants), bounds in {0..2}, every true claim (asc/desc/unordered) per chunk, probes {-1..3}", len(two), len(small))

	nRand := c.N(2500, 40000)
	for i := 0; i < nRand; i++ {
		mc := c06RandomMulti(c)
		if !c06MultiWellFormed(mc) {
			panic("generator produced an ill-formed chunk")
		}
		c06MultiRun(c, mc, "multi/random/"+mc.Shape, true)
		if i < 2 {
			c.Sample(mc)
		}
		if mc.Kind == "int64" && i%50 == 0 {
			c06MultiVm(c, mc, addVm)
		}
	}
}

// c06MultiVm hands the implementation's answers for a case to cases.v.
func c06MultiVm(c *core.Ctx, mc *c06Multi, addVm func(mc *c06Multi, asc bool, impl []int)) {
	index, _, typ, berr := mc.build()
	if berr != "" {
		return
	}
	cmp := parquet.CompareNullsLast(typ.Compare)
	if mc.NullsFirst {
		cmp = parquet.CompareNullsFirst(typ.Compare)
	}
	one := &c06Case{Kind: mc.Kind}
	impl := make([]int, len(mc.Probes))
	for i, v := range mc.Probes {
		impl[i] = parquet.Find(index, c06Value(one, v), cmp)
	}
	addVm(mc, index.IsAscending(), impl)
}

// c06RandomMulti: 1 to 6 chunks of 0 to 5 pages. A chunk that claims an order
// has it; where a chunk starts relative to the one before it is drawn from:
// after it (disjoint or touching), inside its last page (partial overlap: "late
// data" at the end of a row group), anywhere (overlapping, out of order). A
// chunk may hold only null pages or no page at all.
func c06RandomMulti(c *core.Ctx) *c06Multi {
	mc := &c06Multi{Kind: []string{"int64", "int64", "bytes", "double", "float"}[c.Rng.Intn(5)], NullsFirst: c.Rng.Intn(4) == 0, Shape: c06Shapes[c.Rng.Intn(len(c06Shapes))]}
	if mc.Kind == "float" || mc.Kind == "double" {
		mc.Zeros = c.Rng.Intn(8)
	}
	n := 1 + c.Rng.Intn(6)
	if n > 2 {
		mc.Split = 1 + c.Rng.Intn(n-1)
	}
	// the whole row group leans to one order, so that the claims of the chunks
	// often agree and the boundaries decide
	lean := []string{"asc", "asc", "desc", ""}[c.Rng.Intn(4)]
	havePrev := false
	var prevMin, prevMax int64 // last non-null page so far
	for i := 0; i < n; i++ {
		ch := c06Chunk{Order: lean}
		if c.Rng.Intn(5) == 0 {
			ch.Order = []string{"asc", "desc", ""}[c.Rng.Intn(3)]
		}
		np := c.Rng.Intn(6)
		nullOnly := c.Rng.Intn(7) == 0
		// the first bounds of the chunk
		var lo, hi int64
		switch {
		case !havePrev:
			lo = int64(c.Rng.Intn(8)) - 4
			if ch.Order == "desc" {
				lo += 16
			}
		case c.Rng.Intn(3) == 0: // anywhere
			lo = int64(c.Rng.Intn(26)) - 4
		case ch.Order == "desc":
			if c.Rng.Intn(2) == 0 {
				lo = prevMin - int64(c.Rng.Intn(3)) - 2 // before it (descending: disjoint)
			} else {
				lo = prevMin + int64(c.Rng.Intn(int(prevMax-prevMin)+1)) - 1 // reaches into its last page
			}
		default:
			if c.Rng.Intn(2) == 0 {
				lo = prevMax + int64(c.Rng.Intn(3)) // after it
			} else {
				lo = prevMin + int64(c.Rng.Intn(int(prevMax-prevMin)+1)) // inside its last page
			}
		}
		hi = lo + int64(c.Rng.Intn(3))
		for p := 0; p < np; p++ {
			if nullOnly || c.Rng.Intn(5) == 0 {
				ch.Pages = append(ch.Pages, c06Page{Null: true})
				continue
			}
			lo, hi = min(max(lo, -5), 30), min(max(hi, -5), 30)
			if lo > hi {
				lo = hi
			}
			pg := c06Page{Min: lo, Max: hi}
			// a wide last page: values far from the rest at the end of the chunk
			if p == np-1 && c.Rng.Intn(4) == 0 {
				if ch.Order == "desc" {
					pg.Min -= int64(c.Rng.Intn(8))
					if pg.Min < -5 {
						pg.Min = -5
					}
				} else {
					pg.Max += int64(c.Rng.Intn(8))
					if pg.Max > 30 {
						pg.Max = 30
					}
				}
			}
			ch.Pages = append(ch.Pages, pg)
			havePrev, prevMin, prevMax = true, pg.Min, pg.Max
			switch ch.Order {
			case "asc":
				lo += int64(c.Rng.Intn(3))
				if hi < lo {
					hi = lo
				}
				hi += int64(c.Rng.Intn(3))
			case "desc":
				hi -= int64(c.Rng.Intn(3))
				if lo > hi {
					lo = hi
				}
				lo -= int64(c.Rng.Intn(3))
			default:
				lo = int64(c.Rng.Intn(26)) - 4
				hi = lo + int64(c.Rng.Intn(6))
			}
		}
		if !c06ChunkWellFormed(&ch) {
			// clamping at the ends of the domain broke the claim
			ch.Order = ""
		}
		mc.Chunks = append(mc.Chunks, ch)
	}
	lowest := int64(-6)
	if mc.Kind == "bytes" {
		lowest = -8
	}
	for v := lowest; v < 33; v++ {
		mc.Probes = append(mc.Probes, v)
	}
	return mc
}

// ---------------------------------------------------------------- files

// c06FileViews: the row groups of a written file seen through the row groups
// that concatenate them: MultiRowGroup over them in file order, in reverse
// order, rotated, nested, and the row groups MergeRowGroups makes of them with
// and without a sorting column. The column index of the column chunk of each
// is searched for every value its pages hold.
func c06FileViews(c *core.Ctx, fc *c06File, rgs []parquet.RowGroup, record bool) bool {
	n := len(rgs)
	if n < 2 || n > 8 {
		return true
	}
	reversed := make([]parquet.RowGroup, n)
	for i, rg := range rgs {
		reversed[n-1-i] = rg
	}
	rotated := append(append([]parquet.RowGroup(nil), rgs[1:]...), rgs[0])
	type view struct {
		name string
		make func() (parquet.RowGroup, error)
	}
	views := []view{
		{"MultiRowGroup(row groups)", func() (parquet.RowGroup, error) { return parquet.MultiRowGroup(rgs...), nil }},
		{"MultiRowGroup(row groups in reverse order)", func() (parquet.RowGroup, error) { return parquet.MultiRowGroup(reversed...), nil }},
		{"MultiRowGroup(row groups 1.., row group 0)", func() (parquet.RowGroup, error) { return parquet.MultiRowGroup(rotated...), nil }},
		{"MultiRowGroup(MultiRowGroup(first half), MultiRowGroup(second half))", func() (parquet.RowGroup, error) {
			return parquet.MultiRowGroup(parquet.MultiRowGroup(rgs[:n/2]...), parquet.MultiRowGroup(rgs[n/2:]...)), nil
		}},
		{"MergeRowGroups(row groups)", func() (parquet.RowGroup, error) { return parquet.MergeRowGroups(rgs) }},
		{"MergeRowGroups(row groups, sorted by the column)", func() (parquet.RowGroup, error) {
			return parquet.MergeRowGroups(rgs, parquet.SortingRowGroupConfig(parquet.SortingColumns(parquet.Ascending("c"))))
		}},
	}
	for vi, v := range views {
		if c.Quick() && (len(fc.Vals)+vi)%2 != 0 {
			continue // quick tier: every other view, which ones depends on the file
		}
		where := fmt.Sprintf("%s column, %s of a file of %d row groups", fc.Col, v.name, n)
		rg, err := v.make()
		if err != nil {
			c.Violation("file-multi-build", where+": "+err.Error(), fc)
			return false
		}
		chunks := rg.ColumnChunks()
		if len(chunks) != 1 {
			c.Violation("file-multi-build", fmt.Sprintf("%s: %d column chunks", where, len(chunks)), fc)
			return false
		}
		ix, err := chunks[0].ColumnIndex()
		if err != nil || ix == nil {
			// a row group that computes its rows (row range views of a refined
			// merge) has no column index: nothing to search
			if record {
				c.Case("file-multi/no-column-index", where, false)
			}
			continue
		}
		if _, good := c06ChunkSearch(c, fc, chunks[0], ix, "file-multi", where, record); !good {
			return false
		}
		if record {
			key, _ := json.Marshal(fc)
			c.Case(fmt.Sprintf("file-multi/%s/asc=%v", fc.Col, ix.IsAscending()), string(key)+v.name, true)
		}
	}
	return true
}
