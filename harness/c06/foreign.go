package main

import (
	"bytes"
	"encoding/binary"
	"encoding/json"
	"fmt"

	"github.com/parquet-go/parquet-go"
	"github.com/parquet-go/parquet-go/encoding/thrift"
	"github.com/parquet-go/parquet-go/format"

	"verif/harness/core"
)

// Column indexes as OTHER writers encode them. The files of c06Files carry the
// column index in the one encoding parquet-go's own thrift writer produces; the
// thrift compact protocol leaves a writer choices, and parquet-java, Arrow and
// the others take them differently:
//
//   - the element type of a list<bool> is written as 1 or as 2 (the
//     specification: "the element type BOOL is 1 or 2; readers must accept both");
//   - a false element of a list<bool> is the byte 2 (the specification) or the
//     byte 0 (older writers, parquet-go); true is 1;
//   - a field header is short (id delta 1..15 in the high nibble) or long (the
//     type byte followed by the zigzag varint of the field id), at the writer's
//     choice;
//   - optional fields are present or absent (null_counts; the level histograms
//     of parquet-format 2.10), and a newer writer adds fields the reader does
//     not know (any type, to be skipped: a bool, an i32, a binary, a list<bool>,
//     a struct holding bools).
//
// A c06Foreign case takes a file the writer produced, re-encodes the column
// index of every column chunk in a drawn dialect (content unchanged), appends
// the new sections and a footer pointing at them, opens the file through the
// eager (OpenFile reads the whole page index) or the lazy (SkipPageIndex: the
// index of a chunk is read when asked for) path, and evaluates the property on
// it: every value present in a page is searched for. The index must also read
// as what it read as in parquet-go's own encoding.

type c06Dialect struct {
	BoolElem   int  `json:"bool_list_element_type"` // 1 or 2
	FalseByte  int  `json:"false_element_byte"`     // 0 or 2
	Long       int  `json:"long_field_headers"`     // bit i: the header of field id i is written in the long form
	NullCounts bool `json:"null_counts"`            // the optional field 5 is written
	Histograms bool `json:"level_histograms"`       // the optional fields 6 and 7 are written
	// Unknown: 0 none, 1 bool field (true), 2 bool field (false), 3 i32, 4 binary, 5 list<bool>
	// (elements in this dialect), 6 struct { 1: bool, 2: list<bool>, 3: i64 }; field id 8 (9 when UnknownAt
	// says "after field 8" ...): written after all the known fields
	Unknown int  `json:"unknown_field"`
	Lazy    bool `json:"lazy_page_index"`
}

type c06Foreign struct {
	c06File
	Dialect *c06Dialect `json:"foreign_dialect"`
}

type c06Thrift struct {
	b    []byte
	last []int16 // field id stack
}

func (t *c06Thrift) uvarint(u uint64) { t.b = binary.AppendUvarint(t.b, u) }
func (t *c06Thrift) zigzag(v int64)   { t.uvarint(uint64(v<<1) ^ uint64(v>>63)) }
func (t *c06Thrift) begin()           { t.last = append(t.last, 0) }
func (t *c06Thrift) end()             { t.b = append(t.b, 0); t.last = t.last[:len(t.last)-1] }

// field header: compact type code typ (1 true, 2 false, 5 i32, 6 i64, 8 binary, 9 list, 12 struct)
func (t *c06Thrift) field(id int16, typ byte, long bool) {
	last := &t.last[len(t.last)-1]
	if d := id - *last; !long && d >= 1 && d <= 15 {
		t.b = append(t.b, byte(d)<<4|typ)
	} else {
		t.b = append(t.b, typ)
		t.zigzag(int64(id))
	}
	*last = id
}

func (t *c06Thrift) list(n int, elem byte) {
	if n < 15 {
		t.b = append(t.b, byte(n)<<4|elem)
	} else {
		t.b = append(t.b, 0xF0|elem)
		t.uvarint(uint64(n))
	}
}

func (t *c06Thrift) bools(d *c06Dialect, bs []bool) {
	t.list(len(bs), byte(d.BoolElem))
	for _, b := range bs {
		if b {
			t.b = append(t.b, 1)
		} else {
			t.b = append(t.b, byte(d.FalseByte))
		}
	}
}

func (t *c06Thrift) binaries(bs [][]byte) {
	t.list(len(bs), 8)
	for _, b := range bs {
		t.uvarint(uint64(len(b)))
		t.b = append(t.b, b...)
	}
}

func (t *c06Thrift) int64s(vs []int64) {
	t.list(len(vs), 6)
	for _, v := range vs {
		t.zigzag(v)
	}
}

// c06EncodeColumnIndex: the ColumnIndex struct of parquet.thrift in the dialect.
func c06EncodeColumnIndex(d *c06Dialect, ci *format.ColumnIndex, histogram []int64) []byte {
	t := &c06Thrift{}
	long := func(id int) bool { return d.Long>>id&1 != 0 }
	t.begin()
	t.field(1, 9, long(1))
	t.bools(d, ci.NullPages)
	t.field(2, 9, long(2))
	t.binaries(ci.MinValues)
	t.field(3, 9, long(3))
	t.binaries(ci.MaxValues)
	t.field(4, 5, long(4))
	t.zigzag(int64(ci.BoundaryOrder))
	if d.NullCounts {
		t.field(5, 9, long(5))
		t.int64s(ci.NullCounts)
	}
	if d.Histograms {
		t.field(6, 9, long(6))
		t.int64s(histogram)
		t.field(7, 9, long(7))
		t.int64s(histogram)
	}
	some := []bool{false, true, false, false, true}
	switch d.Unknown {
	case 1:
		t.field(8, 1, long(8))
	case 2:
		t.field(8, 2, long(8))
	case 3:
		t.field(8, 5, long(8))
		t.zigzag(-77)
	case 4:
		t.field(8, 8, long(8))
		t.uvarint(3)
		t.b = append(t.b, 0, 2, 1)
	case 5:
		t.field(8, 9, long(8))
		t.bools(d, some)
	case 6:
		t.field(8, 12, long(8))
		t.begin()
		t.field(1, 2, false)
		t.field(2, 9, false)
		t.bools(d, some)
		t.field(3, 6, true)
		t.zigzag(1 << 40)
		t.end()
	}
	t.end()
	return t.b
}

// c06Splice: the file with the column index of every chunk re-encoded.
func c06Splice(data []byte, pf *parquet.File, d *c06Dialect) (out []byte, err string) {
	if len(data) < 12 {
		return nil, "short file"
	}
	flen := int(binary.LittleEndian.Uint32(data[len(data)-8:]))
	footerStart := len(data) - 8 - flen
	if footerStart < 4 {
		return nil, "footer length out of range"
	}
	md := *pf.Metadata()
	indexes := pf.ColumnIndexes()
	out = append([]byte(nil), data[:footerStart]...)
	md.RowGroups = append([]format.RowGroup(nil), md.RowGroups...)
	k := 0
	for i := range md.RowGroups {
		rg := &md.RowGroups[i]
		rg.Columns = append([]format.ColumnChunk(nil), rg.Columns...)
		for j := range rg.Columns {
			if k >= len(indexes) {
				return nil, "fewer column indexes than column chunks"
			}
			ci := &indexes[k]
			k++
			// one count per page and level (the columns are flat: levels 0..1)
			hist := make([]int64, 0, 2*len(ci.NullPages))
			for p := range ci.NullPages {
				hist = append(hist, int64(p), 1)
			}
			sec := c06EncodeColumnIndex(d, ci, hist)
			rg.Columns[j].ColumnIndexOffset = int64(len(out))
			rg.Columns[j].ColumnIndexLength = int32(len(sec))
			out = append(out, sec...)
		}
	}
	footer, e := thrift.Marshal(new(thrift.CompactProtocol), &md)
	if e != nil {
		return nil, "encoding the footer: " + e.Error()
	}
	out = append(out, footer...)
	out = binary.LittleEndian.AppendUint32(out, uint32(len(footer)))
	return append(out, "PAR1"...), ""
}

func (d *c06Dialect) String() string {
	js, _ := json.Marshal(d)
	return string(js)
}

func c06ForeignCheck(c *core.Ctx, fx *c06Foreign, record bool) (ok bool) {
	fc, d := &fx.c06File, fx.Dialect
	if d.BoolElem != 1 && d.BoolElem != 2 || d.FalseByte != 0 && d.FalseByte != 2 {
		c.Note("not a dialect of the compact protocol: %s", d)
		return true
	}
	data, werr := fc.write()
	if werr != "" {
		c.Violation("file-write-error", werr, fx)
		return false
	}
	ok = true
	defer func() {
		if r := recover(); r != nil {
			c.Violation("foreign-index-panic", fmt.Sprint(r), fx)
			ok = false
		}
	}()
	pf, err := parquet.OpenFile(bytes.NewReader(data), int64(len(data)))
	if err != nil {
		c.Violation("file-open-error", err.Error(), fx)
		return false
	}
	foreign, serr := c06Splice(data, pf, d)
	if serr != "" {
		c.Violation("file-open-error", "re-encoding the column indexes: "+serr, fx)
		return false
	}
	var opts []parquet.FileOption
	how := "OpenFile"
	if d.Lazy {
		opts = append(opts, parquet.SkipPageIndex(true))
		how = "OpenFile(SkipPageIndex), the index read per chunk"
	}
	ff, err := parquet.OpenFile(bytes.NewReader(foreign), int64(len(foreign)), opts...)
	if err != nil {
		c.Violation("foreign-index-unreadable", fmt.Sprintf("%s column: the file with its column indexes re-encoded as %s does not open: %v", fc.Col, d, err), fx)
		return false
	}
	if len(ff.RowGroups()) != len(pf.RowGroups()) {
		c.Violation("foreign-index-unreadable", fmt.Sprintf("%d row groups, %d after re-encoding the column indexes", len(pf.RowGroups()), len(ff.RowGroups())), fx)
		return false
	}
	rowsSeen := 0
	for rgi, rg := range ff.RowGroups() {
		cc := rg.ColumnChunks()[0]
		ix, err := cc.ColumnIndex()
		if err != nil || ix == nil {
			c.Violation("foreign-index-unreadable", fmt.Sprintf("%s column, row group %d, %s: column index encoded as %s: %v", fc.Col, rgi, how, d, err), fx)
			return false
		}
		where := fmt.Sprintf("%s column, row group %d, column index encoded as another writer may (%s), read through %s", fc.Col, rgi, d, how)
		rows, good := c06ChunkSearch(c, fx, cc, ix, "foreign", where, record)
		rowsSeen += rows
		if !good {
			return false
		}
		// the same index as in parquet-go's own encoding
		own, err := pf.RowGroups()[rgi].ColumnChunks()[0].ColumnIndex()
		if err != nil || own == nil {
			c.Violation("file-no-column-index", fmt.Sprintf("row group %d: %v", rgi, err), fx)
			return false
		}
		diff := ""
		switch {
		case own.NumPages() != ix.NumPages():
			diff = fmt.Sprintf("NumPages %d, was %d", ix.NumPages(), own.NumPages())
		case own.IsAscending() != ix.IsAscending() || own.IsDescending() != ix.IsDescending():
			diff = fmt.Sprintf("ascending/descending %v/%v, was %v/%v", ix.IsAscending(), ix.IsDescending(), own.IsAscending(), own.IsDescending())
		}
		for p := 0; diff == "" && p < own.NumPages(); p++ {
			switch {
			case own.NullPage(p) != ix.NullPage(p):
				diff = fmt.Sprintf("NullPage(%d) = %v, was %v", p, ix.NullPage(p), own.NullPage(p))
			case !bytes.Equal(own.MinValue(p).Bytes(), ix.MinValue(p).Bytes()) || own.MinValue(p).IsNull() != ix.MinValue(p).IsNull():
				diff = fmt.Sprintf("MinValue(%d) = %s, was %s", p, c06Show(ix.MinValue(p)), c06Show(own.MinValue(p)))
			case !bytes.Equal(own.MaxValue(p).Bytes(), ix.MaxValue(p).Bytes()) || own.MaxValue(p).IsNull() != ix.MaxValue(p).IsNull():
				diff = fmt.Sprintf("MaxValue(%d) = %s, was %s", p, c06Show(ix.MaxValue(p)), c06Show(own.MaxValue(p)))
			case d.NullCounts && own.NullCount(p) != ix.NullCount(p):
				diff = fmt.Sprintf("NullCount(%d) = %d, was %d", p, ix.NullCount(p), own.NullCount(p))
			}
		}
		if diff != "" {
			c.Violation("foreign-index-read-differently", where+": "+diff, fx)
			return false
		}
		if record {
			c.Case(fmt.Sprintf("foreign-encoding/bool-elem=%d/false=%d/lazy=%v", d.BoolElem, d.FalseByte, d.Lazy),
				fmt.Sprintf("%s|%s|%d", fc.key(), d, rgi), ix.NumPages() >= 2)
		}
	}
	if rowsSeen != len(fc.Vals) {
		c.Violation("file-row-count", fmt.Sprintf("%d rows written, %d values read back after re-encoding the column indexes", len(fc.Vals), rowsSeen), fx)
		return false
	}
	return ok
}

func (fc *c06File) key() string {
	js, _ := json.Marshal(fc)
	return string(js)
}

// c06ForeignShrink: the plainest dialect and the smallest file that still fail.
func c06ForeignShrink(c *core.Ctx, fx *c06Foreign) *c06Foreign {
	cur := *fx
	fails := func(t *c06Foreign) bool { return c.Probe(func() { c06ForeignCheck(c, t, false) }) }
	try := func(f func(d *c06Dialect)) {
		d := *cur.Dialect
		f(&d)
		t := cur
		t.Dialect = &d
		if fails(&t) {
			cur = t
		}
	}
	// towards parquet-go's own encoding, one choice at a time
	try(func(d *c06Dialect) { d.Lazy = false })
	try(func(d *c06Dialect) { d.Unknown = 0 })
	try(func(d *c06Dialect) { d.Histograms = false })
	try(func(d *c06Dialect) { d.Long = 0 })
	for bit := 1; bit <= 8; bit++ {
		try(func(d *c06Dialect) { d.Long &^= 1 << bit })
	}
	try(func(d *c06Dialect) { d.NullCounts = true })
	try(func(d *c06Dialect) { d.BoolElem = 2 })
	try(func(d *c06Dialect) { d.FalseByte = 0 })
	// the file
	file := cur.c06File
	small := c06FileShrinkWith(c, &file, func(t *c06File) bool {
		x := cur
		x.c06File = *t
		return fails(&x)
	})
	cur.c06File = *small
	return &cur
}

// c06ForeignFailures: a reader that mistakes an encoding fails on every file
// written in it; three shrunk reports will do.
var c06ForeignFailures int

func c06ForeignRun(c *core.Ctx, fx *c06Foreign) bool {
	if c06ForeignFailures >= 3 {
		return true
	}
	if c.Probe(func() { c06ForeignCheck(c, fx, false) }) {
		c06ForeignCheck(c, c06ForeignShrink(c, fx), false)
		if c06ForeignFailures++; c06ForeignFailures == 3 {
			c.Note("re-encoded column indexes: three files failed, the remaining files are not re-encoded")
		}
		return false
	}
	return c06ForeignCheck(c, fx, true)
}

// c06DrawDialect: every choice independently; the two choices about booleans
// (the only values of a column index whose encoding the protocol leaves open)
// cycle through their four combinations with the file number.
func c06DrawDialect(c *core.Ctx, f int) *c06Dialect {
	d := &c06Dialect{BoolElem: 1 + f%2, FalseByte: 2 * (f / 2 % 2), NullCounts: c.Rng.Intn(4) != 0, Histograms: c.Rng.Intn(3) == 0,
		Lazy: f/4%2 == 1}
	switch c.Rng.Intn(3) {
	case 0:
		d.Long = c.Rng.Intn(256) << 1
	case 1:
		d.Long = 0x1fe
	}
	if c.Rng.Intn(2) == 0 {
		d.Unknown = 1 + c.Rng.Intn(6)
	}
	return d
}
