// C08, the bulk copy as an operation of the histories of row readers.
//
// parquet.CopyRows(dst, reader) consumes a row reader from its current
// position to its end.  It is not one code path: copyRows (row.go) hands the
// copy to the reader when the reader implements RowWriterTo (WriteRowsTo: the
// rows of a RowBuffer, the rows of an empty row group), to the destination
// when it implements RowReaderFrom (Writer / GenericWriter.ReadRowsFrom, which
// read through the row buffer of the writer), and otherwise loops over
// ReadRows with a buffer of 42 rows; when both ends expose a schema the
// schemas are compared first (a conversion is put in front of the reader when
// they differ).  Whatever the path, the reader has one row position: the rows
// handed to the destination must be the rows from the position to the end, in
// order, and afterwards the reader must stand where a sequential reader that
// has read those rows stands (at the end), for the reads, seeks and copies
// that follow in the history.
//
// Operation "c<d>" of a history (row readers only), d = the destination:
//
//	c0  a RowWriter and nothing else
//	c1  a RowWriter with the schema of the reader (RowWriterWithSchema)
//	c2  a parquet.GenericWriter (RowReaderFrom) writing a file, which is closed
//	    and read back (readers of rows of another shape than c08Row: as c1)
//
// Output of the operation: i<first>.<count>/1 (i/1 when no row was left), the
// batch of a read to the end; the model of CopyRows over a reader without a
// shortcut is Cursor/Copy.v (ReadRows(42) until io.EOF over the run function
// of the reader's model).
package main

import (
	"bytes"
	"fmt"
	"io"

	"github.com/parquet-go/parquet-go"

	"verif/harness/core"
)

// c08Sink checks the rows it is handed against the rows expected from a
// position on and keeps nothing.
type c08Sink struct {
	t     *c08RowReader
	first int64
	cnt   int
	calls int
	bad   string
}

func (s *c08Sink) WriteRows(rows []parquet.Row) (int, error) {
	s.calls++
	check := s.t.check
	if check == nil {
		check = c08CheckRow
	}
	for j, row := range rows {
		if s.bad == "" {
			p := s.first + int64(s.cnt+j)
			id := s.t.idAt(p)
			if id < 0 {
				s.bad = fmt.Sprintf("row %d of the copy: a row at position %d, beyond the last row", s.cnt+j, p)
			} else if bad := check(row, id); bad != "" {
				s.bad = fmt.Sprintf("row %d of the copy: %s", s.cnt+j, bad)
			}
		}
	}
	s.cnt += len(rows)
	return len(rows), nil
}

type c08SchemaSink struct {
	c08Sink
	schema *parquet.Schema
}

func (s *c08SchemaSink) Schema() *parquet.Schema { return s.schema }

// copy is parquet.CopyRows from the reader into a destination of the kind.
func (t *c08RowReader) copy(kind int64, first int64) (cnt int, err error, bad string, ok bool) {
	var schema *parquet.Schema
	if ws, isWS := t.r.(parquet.RowReaderWithSchema); isWS {
		schema = ws.Schema()
	}
	if kind == 2 && (t.check != nil || t.ids != nil) {
		kind = 1
	}
	if kind == 1 && schema == nil {
		kind = 0
	}
	var n int64
	switch kind {
	case 0:
		s := &c08Sink{t: t, first: first}
		n, err = parquet.CopyRows(s, t.r)
		cnt, bad = s.cnt, s.bad
	case 1:
		s := &c08SchemaSink{c08Sink: c08Sink{t: t, first: first}, schema: schema}
		n, err = parquet.CopyRows(s, t.r)
		cnt, bad = s.cnt, s.bad
	case 2:
		var buf bytes.Buffer
		w := parquet.NewGenericWriter[c08Row](&buf)
		n, err = parquet.CopyRows(w, t.r)
		if cerr := w.Close(); cerr != nil {
			return int(n), err, fmt.Sprintf("closing the destination writer: %v", cerr), true
		}
		f, ferr := parquet.OpenFile(bytes.NewReader(buf.Bytes()), int64(buf.Len()))
		if ferr != nil {
			return int(n), err, fmt.Sprintf("opening the destination file: %v", ferr), true
		}
		r := parquet.NewGenericReader[c08Row](f)
		defer r.Close()
		rows := make([]c08Row, 64)
		for {
			for i := range rows {
				rows[i] = c08Row{}
			}
			m, rerr := r.Read(rows)
			for j := 0; j < m && bad == ""; j++ {
				p := first + int64(cnt+j)
				if id := t.idAt(p); id < 0 {
					bad = fmt.Sprintf("row %d of the copy: a row at position %d, beyond the last row", cnt+j, p)
				} else if b := c08CheckGoRow(&rows[j], id); b != "" {
					bad = fmt.Sprintf("row %d of the copy: %s", cnt+j, b)
				}
			}
			cnt += m
			if rerr != nil {
				if rerr != io.EOF && bad == "" {
					bad = fmt.Sprintf("reading the destination file back: %v", rerr)
				}
				break
			}
			if m == 0 {
				break
			}
		}
	default:
		return 0, nil, "", false
	}
	if bad == "" && n != int64(cnt) {
		bad = fmt.Sprintf("CopyRows returned %d, the destination holds %d rows", n, cnt)
	}
	return cnt, err, bad, true
}

// GenericReader is a RowReader too (ReadRows next to Read).
func (t *c08GenericReader) copy(kind int64, first int64) (int, error, string, bool) {
	u := &c08RowReader{r: t.r}
	return u.copy(kind, first)
}

// c08HasCopy: whether the history holds a bulk copy.
func c08HasCopy(ops []string) bool {
	for _, o := range ops {
		if len(o) > 0 && o[0] == 'c' {
			return true
		}
	}
	return false
}

// c08CopyHistories: a copy in the middle of a history: before it nothing, a
// seek, a partial read, a seek and a partial read, or another copy; after it
// reads (the reader is at its end), a seek back followed by a read or by
// another copy.
func c08CopyHistories(N int64, points []int64, dsts []int64, back bool) [][]string {
	var pre [][]string
	pre = append(pre, nil, []string{"r1"}, []string{"r3"}, []string{"r64"})
	for _, k := range points {
		pre = append(pre, []string{fmt.Sprintf("s%d", k)}, []string{fmt.Sprintf("s%d", k), "r1"}, []string{"r3", fmt.Sprintf("s%d", k)})
	}
	var post [][]string
	post = append(post, []string{"r3"}, []string{"r64", "r1"})
	if back {
		for _, k := range points {
			s := fmt.Sprintf("s%d", k)
			post = append(post, []string{s, "r3", "r64"}, []string{"r1", s, "c0", "r1"})
		}
	} else {
		post = append(post, []string{fmt.Sprintf("s%d", N), "r1"}, []string{fmt.Sprintf("s%d", N+3), "c0", "r1"})
	}
	var out [][]string
	i := 0
	for _, a := range pre {
		for _, b := range post {
			d := dsts[i%len(dsts)]
			i++
			h := append(append(append([]string(nil), a...), fmt.Sprintf("c%d", d)), b...)
			out = append(out, h)
		}
	}
	return out
}

// c08RunCopyAll: the histories with a bulk copy on every row reader.
func c08RunCopyAll(c *core.Ctx) {
	n := 0
	run := func(cs c08Case, hs [][]string, bucket string) {
		for _, h := range hs {
			t := cs
			t.Ops = h
			c08Run(c, &t, bucket)
			n++
		}
	}
	all := []int64{0, 1, 2}
	// readers of a file
	for _, v := range []int{2, 1} {
		p := c08FileParams{Rows: 22, PageBuf: 16, Version: v, Batch: 5}
		b, err := c08Build(p)
		if err != nil {
			c.Violation("file", err.Error(), p)
			return
		}
		N := b.rgRows[0]
		b1 := b.layout[0][0][0]
		for _, o := range []c08Open{{}, {SkipIndex: true}} {
			if c.Quick() && v == 1 && o.SkipIndex {
				continue
			}
			run(c08Case{File: p, Open: o, Target: "rows"}, c08CopyHistories(N, []int64{0, b1, N - 1, N}, all, true), "copy/rows")
		}
		p2 := c08FileParams{Rows: 22, PageBuf: 16, RGRows: 12, Version: v, Batch: 5}
		b2, err := c08Build(p2)
		if err != nil {
			c.Violation("file", err.Error(), p2)
			return
		}
		g := b2.rgRows[0]
		for _, target := range []string{"reader", "generic", "multirows"} {
			if c.Quick() && v == 1 && target != "reader" {
				continue
			}
			run(c08Case{File: p2, Target: target}, c08CopyHistories(b2.total, []int64{0, g - 1, g, b2.total - 1}, all, true), "copy/"+target)
		}
		// more rows than one batch of the copy loop (42 rows)
		pm := c08FileParams{Rows: 300, PageBuf: 64, RGRows: 110, Version: v, Batch: 13}
		if _, err := c08Build(pm); err != nil {
			c.Violation("file", err.Error(), pm)
			return
		}
		for _, target := range []string{"reader", "multirows", "generic"} {
			if c.Quick() && v == 1 {
				continue
			}
			run(c08Case{File: pm, Target: target}, c08CopyHistories(300, []int64{0, 109, 110, 258, 299}, all, true), "copy/"+target)
		}
		run(c08Case{File: pm, Target: "rows", RG: 1}, c08CopyHistories(110, []int64{0, 41, 68, 109}, all, true), "copy/rows")
		run(c08Case{File: pm, Target: "convertrg", RG: 1, Der: &c08Der{Conv: "evolve"}}, c08CopyHistories(110, []int64{0, 68, 109}, all, true), "copy/convertrg")
	}
	// buffers
	for _, kind := range []string{"buffer", "rowbuffer"} {
		for _, rows := range []int{1, 22, 100} {
			N := int64(rows)
			run(c08Case{Target: kind, Der: &c08Der{Rows: rows}}, c08CopyHistories(N, []int64{0, 1, N / 2, N - 1, N, N + 3}, all, true), "copy/"+kind)
		}
	}
	// forward-only seekers
	for _, d := range []*c08Der{
		{Rows: 40, Shape: "interleave", K: 2, Inputs: "buffer", Schema: true},
		{Rows: 40, Shape: "ranges", K: 3, Inputs: "mixed", PageBuf: 32},
		{Rows: 40, Shape: "dups", K: 2, Inputs: "buffer", Dedupe: true, Schema: true},
		{Rows: 100, Shape: "interleave", K: 3, Inputs: "file", PageBuf: 32},
	} {
		m, err := c08BuildMerged(d)
		if err != nil {
			c.Violation("file", err.Error(), d)
			return
		}
		N := int64(len(m.ids))
		run(c08Case{Target: "merged", Der: d}, c08CopyHistories(N, []int64{1, N / 2, N - 1}, all, false), "copy/merged")
	}
	for _, conv := range []string{"same", "evolve"} {
		for _, caps := range [][]int{nil, {3}, {64, 1, 7}} {
			d := &c08Der{Rows: 100, Conv: conv, Under: "scripted", Caps: caps, EOFLast: len(caps) == 1}
			run(c08Case{Target: "convert", Der: d}, c08CopyHistories(100, []int64{1, 50, 99}, all, false), "copy/convert")
		}
	}
	// a copy now and then in random histories
	for i := 0; i < c.N(60, 600); i++ {
		kind := []string{"buffer", "rowbuffer"}[i%2]
		d := &c08Der{Rows: []int{1, 100, 300}[c.Rng.Intn(3)]}
		N := int64(d.Rows)
		ops := c08AnyOps(c.Rng, N, []int64{0, 1, N - 1, N, N + 3}, 2+c.Rng.Intn(16), false)
		for j := 0; j < 1+c.Rng.Intn(2); j++ {
			ops[c.Rng.Intn(len(ops))] = fmt.Sprintf("c%d", c.Rng.Intn(3))
		}
		run(c08Case{Target: kind, Der: d}, [][]string{ops}, "copy/random/"+kind)
	}
	pm := c08FileParams{Rows: 300, PageBuf: 48, RGRows: 110, Version: 2, Batch: 13}
	if b, err := c08Build(pm); err == nil {
		for i := 0; i < c.N(60, 600); i++ {
			target := []string{"reader", "multirows", "rows", "generic"}[i%4]
			cs := c08Case{File: pm, Target: target, Open: c08Open{SkipIndex: c.Rng.Intn(3) == 0, Async: c.Rng.Intn(4) == 0}}
			N := b.total
			if target == "rows" {
				cs.RG = c.Rng.Intn(len(b.rgRows))
				N = b.rgRows[cs.RG]
			}
			ops := c08AnyOps(c.Rng, N, []int64{0, 109, 110, N - 1, N}, 2+c.Rng.Intn(12), false)
			for j := 0; j < 1+c.Rng.Intn(2); j++ {
				ops[c.Rng.Intn(len(ops))] = fmt.Sprintf("c%d", c.Rng.Intn(3))
			}
			run(cs, [][]string{ops}, "copy/random/"+target)
		}
	} else {
		c.Violation("file", err.Error(), pm)
	}
	c.Note("bulk copies: %d histories with parquet.CopyRows(dst, reader) as an operation (dst: a bare RowWriter; a RowWriter with the reader's schema; a GenericWriter = RowReaderFrom, its file read back) after nothing / a seek / a partial read / both, followed by reads, seeks back, further copies, on RowGroup.Rows, Reader, GenericReader, MultiRowGroup rows, ConvertRowGroup rows, GenericBuffer and RowBuffer rows (RowWriterTo), merged row groups and ConvertRowReader (forward only); the rows handed over must be the rows from the position to the end and the reader must then stand at the end; compared with Cursor/Copy.v over the model of the reader (not for the forward-only seekers)", n)
}
