// C08, the columnar reader of a VARIANT column (parquet.VariantReader): one row
// window shared by all cursors, advanced by Next(n) and positioned by
// SeekToRow(k); the leaf columns are opened lazily, when a cursor that needs
// them first takes part in a Next.  Histories over {Next(n), SeekToRow(k),
// create cursor j}: after every Next the window must be the rows
// [position, position+n) - the typed vector of the field "a" holds the row
// numbers themselves - and the window state of every cursor (location tags,
// row / typed-row maps, typed vectors, list offsets, residual values) must be
// what a fresh reader that holds the same cursors from the start and is read
// sequentially (Next only) returns for the same rows.
package main

import (
	"bytes"
	"fmt"
	"io"
	"strings"

	"github.com/parquet-go/parquet-go"
	"github.com/parquet-go/parquet-go/variant"
)

type c08RawVariant struct {
	Metadata []byte `parquet:"metadata"`
	Value    []byte `parquet:"value"`
}

type c08VarRow struct {
	ID  int32 `parquet:"id"`
	Var any   `parquet:"var,variant"`
}

// c08VarValue: the variant value of row i (nil: the column is null in that row).
//
//	a: int64 i                                       (shredded as int64: always typed)
//	b: string / int64 1000+i / absent by i mod 3     (shredded as int64: residual on a string)
//	o: {x: 3i, y: "y<i>"} or, every 4th row, int64   (shredded as {x: int64}: partial object / residual)
//	l: [10i, 10i+1, ...] of i mod 4 elements, every 5th non-empty one ending with a string
//	u: "u<i>"                                        (not shredded: navigated in the residual)
func c08VarValue(i int64) *variant.Value {
	if i%11 == 5 {
		return nil
	}
	fields := []variant.Field{{Name: "a", Value: variant.Int64(i)}}
	switch i % 3 {
	case 0:
		fields = append(fields, variant.Field{Name: "b", Value: variant.String(fmt.Sprintf("t%d", i))})
	case 1:
		fields = append(fields, variant.Field{Name: "b", Value: variant.Int64(1000 + i)})
	}
	if i%4 == 0 {
		fields = append(fields, variant.Field{Name: "o", Value: variant.Int64(-i)})
	} else {
		fields = append(fields, variant.Field{Name: "o", Value: variant.MakeObject([]variant.Field{
			{Name: "x", Value: variant.Int64(3 * i)},
			{Name: "y", Value: variant.String(fmt.Sprintf("y%d", i))},
		})})
	}
	var elems []variant.Value
	for j := int64(0); j < i%4; j++ {
		elems = append(elems, variant.Int64(10*i+j))
	}
	if len(elems) > 0 && i%5 == 0 {
		elems[len(elems)-1] = variant.String(fmt.Sprintf("e%d", i))
	}
	fields = append(fields, variant.Field{Name: "l", Value: variant.MakeArray(elems)})
	fields = append(fields, variant.Field{Name: "u", Value: variant.String(fmt.Sprintf("u%d", i))})
	v := variant.MakeObject(fields)
	return &v
}

// the cursors a history can create ("c<j>")
var c08VarCursors = []struct {
	name string
	make func(r *parquet.VariantReader) *parquet.VariantCursor
}{
	{"root", func(r *parquet.VariantReader) *parquet.VariantCursor { return r.Root() }},
	{"a", func(r *parquet.VariantReader) *parquet.VariantCursor { return r.Path("a") }},
	{"b", func(r *parquet.VariantReader) *parquet.VariantCursor { return r.Path("b") }},
	{"o", func(r *parquet.VariantReader) *parquet.VariantCursor { return r.Path("o") }},
	{"o.x", func(r *parquet.VariantReader) *parquet.VariantCursor { return r.Path("o", "x") }},
	{"o.y", func(r *parquet.VariantReader) *parquet.VariantCursor { return r.Path("o", "y") }},
	{"l", func(r *parquet.VariantReader) *parquet.VariantCursor { return r.Path("l") }},
	{"l[]", func(r *parquet.VariantReader) *parquet.VariantCursor { return r.Path("l").Elements() }},
	{"u", func(r *parquet.VariantReader) *parquet.VariantCursor { return r.Path("u") }},
	{"zz", func(r *parquet.VariantReader) *parquet.VariantCursor { return r.Path("zz") }},
}

type c08VarFile struct {
	rgs   []parquet.RowGroup
	total int64
}

var c08VarFiles = map[string]*c08VarFile{}

func c08BuildVariant(d *c08Der) (*c08VarFile, error) {
	pageBuf, version := d.PageBuf, d.Version
	if pageBuf <= 0 {
		pageBuf = 256
	}
	if version == 0 {
		version = 2
	}
	key := fmt.Sprintf("%d/%d/%d", d.Rows, pageBuf, version)
	if f, ok := c08VarFiles[key]; ok {
		return f, nil
	}
	shredded, err := parquet.ShreddedVariant(parquet.Group{
		"a": parquet.Int(64),
		"b": parquet.Int(64),
		"o": parquet.Group{"x": parquet.Int(64)},
		"l": parquet.List(parquet.Int(64)),
	})
	if err != nil {
		return nil, err
	}
	schema := parquet.NewSchema("table", parquet.Group{
		"id":  parquet.Int(32),
		"var": parquet.Optional(shredded),
	})
	rows := make([]c08VarRow, d.Rows)
	for i := range rows {
		rows[i] = c08VarRow{ID: int32(i)}
		if v := c08VarValue(int64(i)); v != nil {
			var mb variant.MetadataBuilder
			value := variant.Encode(&mb, *v)
			_, metadata := mb.Build()
			rows[i].Var = c08RawVariant{Metadata: metadata, Value: value}
		}
	}
	var buf bytes.Buffer
	w := parquet.NewGenericWriter[c08VarRow](&buf, schema, parquet.PageBufferSize(pageBuf), parquet.DataPageVersion(version))
	for at := 0; at < len(rows); at += 9 {
		if _, err := w.Write(rows[at:min(at+9, len(rows))]); err != nil {
			return nil, err
		}
	}
	if err := w.Close(); err != nil {
		return nil, err
	}
	f, err := parquet.OpenFile(bytes.NewReader(buf.Bytes()), int64(buf.Len()))
	if err != nil {
		return nil, err
	}
	vf := &c08VarFile{rgs: f.RowGroups(), total: f.NumRows()}
	if len(vf.rgs) != 1 || vf.total != int64(d.Rows) {
		return nil, fmt.Errorf("the variant file has %d row groups and %d rows", len(vf.rgs), vf.total)
	}
	c08VarFiles[key] = vf
	return vf, nil
}

// c08CursorState: the window state of a cursor as text.
func c08CursorState(cur *parquet.VariantCursor) string {
	var sb strings.Builder
	locs := cur.Locs()
	fmt.Fprintf(&sb, "kind=%v locs=%v rows=%v typedrows=%v residuals=%d offsets=%v", cur.Kind(), locs, cur.Rows(), cur.TypedRows(), cur.ResidualCount(), cur.ListOffsets())
	if t := cur.LeafType(); t != nil {
		switch t.Kind() {
		case parquet.Int64:
			fmt.Fprintf(&sb, " int64s=%v", cur.Int64s())
		case parquet.Int32:
			fmt.Fprintf(&sb, " int32s=%v", cur.Int32s())
		case parquet.ByteArray:
			slab, offs := cur.ByteArrays()
			for i := 0; i+1 < len(offs); i++ {
				fmt.Fprintf(&sb, " %q", slab[offs[i]:offs[i+1]])
			}
		}
	}
	for i := range locs {
		v, ok, err := cur.Residual(i)
		switch {
		case err != nil:
			fmt.Fprintf(&sb, " r%d=error(%v)", i, err)
		case ok:
			fmt.Fprintf(&sb, " r%d=%v", i, v.GoValue())
		}
	}
	return sb.String()
}

// c08VarWant: the typed vector of cursor "a" over the rows [pos, pos+n).
func c08VarWantA(pos int64, n int) string {
	var ids []int64
	for i := pos; i < pos+int64(n); i++ {
		if i%11 != 5 {
			ids = append(ids, i)
		}
	}
	return fmt.Sprint(ids)
}

type c08VarRefKey struct {
	file    *c08VarFile
	cursors string
	pos     int64
	n       int
}

var c08VarRefs = map[c08VarRefKey][]string{}

// c08VarReference: the states of the cursors (created in the given order before
// the first Next) over the rows [pos, pos+n) of a fresh reader that is only
// read sequentially.
func c08VarReference(vf *c08VarFile, created []int, pos int64, n int) ([]string, error) {
	key := c08VarRefKey{vf, fmt.Sprint(created), pos, n}
	if st, ok := c08VarRefs[key]; ok {
		return st, nil
	}
	r, err := parquet.NewVariantReader(vf.rgs[0], "var")
	if err != nil {
		return nil, err
	}
	defer r.Close()
	curs := make([]*parquet.VariantCursor, len(created))
	for i, j := range created {
		curs[i] = c08VarCursors[j].make(r)
	}
	for at := int64(0); at < pos; {
		k, err := r.Next(int(min(pos-at, 37)))
		if err != nil || k <= 0 {
			return nil, fmt.Errorf("sequential Next at row %d: %d, %v", at, k, err)
		}
		at += int64(k)
	}
	k, err := r.Next(n)
	if err != nil || k != n {
		return nil, fmt.Errorf("sequential Next(%d) at row %d: %d, %v", n, pos, k, err)
	}
	st := make([]string, len(curs))
	for i, cur := range curs {
		st[i] = c08CursorState(cur)
	}
	if len(c08VarRefs) < 1<<16 {
		c08VarRefs[key] = st
	}
	return st, nil
}

// c08RunVariant runs a history on a VariantReader.  Ops: r<n> Next(n), s<k>
// SeekToRow(k), c<j> create cursor j.  Outputs: per Next w<first>.<count> followed
// by ;<j>=<row> for every cursor j in effect among a, b, o.x and the elements of
// l whose typed vector holds a value: the first row that the typed leaf column
// delivered for this window, read off that value (the model says which row
// every leaf column reads from, Cursor/VariantLeaves.v); e at the end of the
// rows; k / o per seek; d per cursor creation.
func c08RunVariant(cs *c08Case, res *c08Result) {
	vf, err := c08BuildVariant(cs.Der)
	if err != nil {
		res.fail("file", "%v", err)
		return
	}
	N := vf.total
	r, err := parquet.NewVariantReader(vf.rgs[0], "var")
	if err != nil {
		res.fail("file", "NewVariantReader: %v", err)
		return
	}
	defer r.Close()
	pos := int64(0)
	var created []int // in creation order
	var curs []*parquet.VariantCursor
	effective := 0 // cursors created before the last Next
	has := map[int]bool{}
	for i, op := range cs.Ops {
		code, arg := c08ParseOp(op)
		switch {
		case code == 'c' && arg >= 0 && arg < int64(len(c08VarCursors)):
			if !has[int(arg)] {
				has[int(arg)] = true
				created = append(created, int(arg))
				curs = append(curs, c08VarCursors[arg].make(r))
			}
			res.outs = append(res.outs, "d")
		case code == 's':
			err := r.SeekToRow(arg)
			switch {
			case err == nil && arg <= N:
				res.outs = append(res.outs, "k")
				pos = arg
			case err != nil && arg > N:
				// documented: the rows are [0, NumRows]
				res.outs = append(res.outs, "o")
			default:
				res.outs = append(res.outs, c08Err(err))
				res.fail("error", "op %d SeekToRow(%d) on %d rows: %v", i, arg, N, err)
			}
		case code == 'r' && arg > 0:
			n, err := r.Next(int(arg))
			want := int(min(arg, N-pos))
			switch {
			case pos >= N:
				if n != 0 || err != io.EOF {
					res.outs = append(res.outs, fmt.Sprintf("w?%d/%s", n, c08Err(err)))
					res.fail("error", "op %d Next(%d) at row %d of %d: %d, %v; want 0, io.EOF", i, arg, pos, N, n, err)
					continue
				}
				res.outs = append(res.outs, "e")
				continue
			case err != nil:
				res.outs = append(res.outs, fmt.Sprintf("w?%d/%s", n, c08Err(err)))
				kind := "error"
				if err == io.EOF {
					kind = "early-eof"
				}
				res.fail(kind, "op %d Next(%d) at row %d of %d: %d, %v", i, arg, pos, N, n, err)
				return // the reader keeps its error
			case n != want:
				res.outs = append(res.outs, fmt.Sprintf("w?%d", n))
				res.fail("wrong-rows", "op %d Next(%d) at row %d of %d returned a window of %d rows, want %d", i, arg, pos, N, n, want)
				pos += int64(n)
				continue
			}
			effective = len(curs)
			bad := ""
			ref, rerr := c08VarReference(vf, created[:effective], pos, n)
			if rerr != nil {
				res.fail("file", "reference reader: %v", rerr)
				return
			}
			for x := 0; x < effective && bad == ""; x++ {
				name := c08VarCursors[created[x]].name
				got := c08CursorState(curs[x])
				if name == "a" {
					if ids := fmt.Sprint(curs[x].Int64s()); ids != c08VarWantA(pos, n) {
						bad = fmt.Sprintf("cursor a over the rows [%d,%d) holds the typed values %s", pos, pos+int64(n), core8Trunc(ids))
					}
				}
				if bad == "" && got != ref[x] {
					bad = fmt.Sprintf("cursor %s over the rows [%d,%d): %s; a fresh reader read sequentially: %s", name, pos, pos+int64(n), core8Trunc(got), core8Trunc(ref[x]))
				}
			}
			if bad != "" {
				res.outs = append(res.outs, fmt.Sprintf("w?%d", n))
				res.fail("wrong-rows", "op %d Next(%d) at row %d: %s", i, arg, pos, bad)
			} else {
				// the window, and the first row that the typed leaf column of a /
				// b / o.x / the elements of l delivered, read off its first value
				out := fmt.Sprintf("w%x.%x", pos, n)
				for x := 0; x < effective; x++ {
					if first, ok := c08VarLeafFirst(created[x], curs[x]); ok {
						out += fmt.Sprintf(";%x=%x", created[x], first)
					}
				}
				res.outs = append(res.outs, out)
			}
			pos += int64(n)
		default:
			res.outs = append(res.outs, "?")
			res.fail("bad-op", "op %q does not apply to a VariantReader", op)
		}
	}
}

func core8Trunc(s string) string {
	if len(s) > 300 {
		return s[:300] + "..."
	}
	return s
}

// c08VarLeafFirst: the row of the row group from which the typed leaf column
// of cursor j (a, b, o.x, the elements of l)
// delivered its rows: the row its first typed value belongs to minus the
// window row of the entry that holds it.
func c08VarLeafFirst(j int, cur *parquet.VariantCursor) (int64, bool) {
	var row func(v int64) int64
	switch c08VarCursors[j].name {
	case "a":
		row = func(v int64) int64 { return v }
	case "b":
		row = func(v int64) int64 { return v - 1000 }
	case "o.x":
		row = func(v int64) int64 { return v / 3 }
	case "l[]":
		row = func(v int64) int64 { return v / 10 }
	default:
		return 0, false
	}
	vals, typed := cur.Int64s(), cur.TypedRows()
	if len(vals) == 0 || len(typed) == 0 {
		return 0, false
	}
	entry := int64(typed[0])
	if rows := cur.Rows(); rows != nil {
		if entry < 0 || entry >= int64(len(rows)) {
			return 0, false
		}
		entry = int64(rows[entry])
	}
	return row(vals[0]) - entry, true
}
