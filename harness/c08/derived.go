// C08, readers that are not read straight from a file: every other public type
// with a SeekToRow method is put under the same seek / read histories.
//
//	merged        MergeRowGroups(sorted inputs).Rows(): mergedRowGroupRows (inputs
//	              whose key ranges overlap), concatenatingRowsWrapper (disjoint
//	              inputs behind a conversion, deduplicated inputs), and the plan the
//	              refinement makes of partly overlapping inputs (row-range views
//	              around a merged stretch).  These readers document forward-only
//	              seeking: a backward seek may be refused.
//	mergedpages   the column pages of that row group (multiPages over rangePages,
//	              convertedPages, singlePage, FilePages)
//	convert       ConvertRowReader(reader, conversion): forwardRowSeeker over a
//	              scripted reader (batches capped by a cycle of lengths, io.EOF
//	              with or after the last rows) or over the rows of the file;
//	              forward-only
//	convertrg     ConvertRowGroup(row group, conversion).Rows()
//	convertpages  ... .ColumnChunks()[i].Pages(): convertedPages, and the pages of
//	              a column the source lacks
//	buffer        GenericBuffer.Rows(); bufferpages: the pages of its column buffers
//	rowbuffer     RowBuffer.Rows(); rowbufferpages: the pages of its column chunks
//
// The rows are those of c08MakeRow, so every value identifies its row; the
// expected row at every position is known by construction (merged: the ids in
// ascending order, a duplicated id twice unless duplicates are dropped).
package main

import (
	"bytes"
	"fmt"
	"io"
	"sort"
	"strings"

	"github.com/parquet-go/parquet-go"
)

// c08Der: the parameters of a derived reader.  The rows are c08MakeRow(0..Rows-1).
type c08Der struct {
	Rows int `json:"rows"`
	// merged: how the ids are dealt to the sorted inputs
	//   interleave  id mod k (the key ranges overlap entirely)
	//   ranges      k disjoint stretches of uneven length
	//   dups        interleave, every 7th id also in the next input
	//   lone        two long inputs that overlap in 100 ids around the middle
	//               (lone stretches of more than 1024 rows: row-range views)
	Shape  string `json:"shape,omitempty"`
	K      int    `json:"inputs,omitempty"`
	Inputs string `json:"input_kind,omitempty"` // file | buffer | mixed
	Dedupe bool   `json:"drop_duplicated_rows,omitempty"`
	// merged: the schema of the rows is handed to MergeRowGroups; otherwise it
	// merges the schemas of the inputs, which orders the fields by name (list
	// before opt): every input is then read through a conversion
	Schema bool `json:"schema_given,omitempty"`
	// merged inputs that are files, convert: page size and page version
	PageBuf int `json:"page_buffer_size,omitempty"`
	Version int `json:"data_page_version,omitempty"`
	// convert*: "same" (the schema of the rows) | "evolve" (columns dropped,
	// reordered, one added)
	Conv string `json:"conversion,omitempty"`
	// convert: the reader underneath: "scripted" (an in-memory reader: the n-th
	// call returns at most Caps[n mod len] rows, 0 = as many as asked; io.EOF
	// comes with the last rows when EOFLast) | "file" (the rows of the file of
	// the case)
	Under   string `json:"under,omitempty"`
	Caps    []int  `json:"caps,omitempty"`
	EOFLast bool   `json:"eof_with_last_rows,omitempty"`
}

func c08ForwardOnly(target string) bool { return target == "merged" || target == "convert" }

func c08IsDerived(target string) bool {
	switch target {
	case "merged", "mergedpages", "convert", "convertrg", "convertpages", "buffer", "bufferpages", "rowbuffer", "rowbufferpages", "variant":
		return true
	}
	return false
}

func c08ColName(col int) string {
	if col < 0 || col >= c08NumCols {
		return "(added column)"
	}
	return c08ColNames[col]
}

var c08Sorting = parquet.SortingColumns(parquet.Ascending("id"))

// c08Deal: the ids of every input of a merge, ascending.
func c08Deal(d *c08Der) ([][]int64, error) {
	k, n := d.K, int64(d.Rows)
	if k < 1 || k > 8 || n < 1 {
		return nil, fmt.Errorf("bad merge parameters: %d inputs, %d rows", k, n)
	}
	parts := make([][]int64, k)
	switch d.Shape {
	case "interleave":
		for i := int64(0); i < n; i++ {
			parts[i%int64(k)] = append(parts[i%int64(k)], i)
		}
	case "dups":
		for i := int64(0); i < n; i++ {
			j := int(i % int64(k))
			parts[j] = append(parts[j], i)
			if i%7 == 0 && k > 1 {
				parts[(j+1)%k] = append(parts[(j+1)%k], i)
			}
		}
	case "ranges":
		// stretches of length proportional to 2, 3, 1, 2, 3, 1, ...
		w := []int64{2, 3, 1}
		total := int64(0)
		for j := 0; j < k; j++ {
			total += w[j%3]
		}
		at := int64(0)
		for j := 0; j < k; j++ {
			end := at + n*w[j%3]/total
			if j == k-1 {
				end = n
			}
			for i := at; i < end; i++ {
				parts[j] = append(parts[j], i)
			}
			at = end
		}
	case "lone":
		if k != 2 || n < 2300 {
			return nil, fmt.Errorf("shape lone needs 2 inputs and at least 2300 rows")
		}
		lo, hi := n/2-50, n/2+50
		for i := int64(0); i < n; i++ {
			switch {
			case i < lo || (i < hi && i%2 == 0):
				parts[0] = append(parts[0], i)
			default:
				parts[1] = append(parts[1], i)
			}
		}
	default:
		return nil, fmt.Errorf("unknown shape %q", d.Shape)
	}
	return parts, nil
}

// c08DerBuilt: what is built once for the parameters of a derived reader.
type c08DerBuilt struct {
	merged parquet.RowGroup
	ids    []int64 // the id of the row expected at every position
	kind   string  // the dynamic type of the rows of the merged row group
	cols   []int   // the column of c08Row behind every leaf column of the merged row group
	// the rows come back with io.EOF together with the last ones (a sequential
	// read in batches of 7 rows says)
	eofLast bool
}

func (b *c08DerBuilt) idCol() int {
	for c, src := range b.cols {
		if src == 0 {
			return c
		}
	}
	return 0
}

// c08CheckRowCols compares a row whose columns are those of c08Row in another
// order with row r.
func c08CheckRowCols(cols []int) func(row parquet.Row, r int64) string {
	return func(row parquet.Row, r int64) string {
		perm := make(parquet.Row, 0, len(row))
		for _, v := range row {
			c := v.Column()
			if c < 0 || c >= len(cols) {
				return fmt.Sprintf("value with column index %d", c)
			}
			perm = append(perm, v.Level(v.RepetitionLevel(), v.DefinitionLevel(), cols[c]))
		}
		return c08CheckRow(perm, r)
	}
}

var c08DerCache = map[string]*c08DerBuilt{}

func c08DerKey(d *c08Der) string {
	return fmt.Sprintf("%d/%s/%d/%s/%v/%d/%d/%v", d.Rows, d.Shape, d.K, d.Inputs, d.Dedupe, d.PageBuf, d.Version, d.Schema)
}

func c08WriteFile(ids []int64, pageBuf, version int, sorted bool) (*parquet.File, error) {
	var buf bytes.Buffer
	opts := []parquet.WriterOption{parquet.PageBufferSize(pageBuf), parquet.DataPageVersion(version)}
	if sorted {
		opts = append(opts, parquet.SortingWriterConfig(c08Sorting))
	}
	w := parquet.NewGenericWriter[c08Row](&buf, opts...)
	for at := 0; at < len(ids); at += 11 {
		end := min(at+11, len(ids))
		rows := make([]c08Row, 0, 11)
		for _, id := range ids[at:end] {
			rows = append(rows, c08MakeRow(id))
		}
		if _, err := w.Write(rows); err != nil {
			return nil, err
		}
	}
	if err := w.Close(); err != nil {
		return nil, err
	}
	return parquet.OpenFile(bytes.NewReader(buf.Bytes()), int64(buf.Len()))
}

func c08MakeBuffer(ids []int64, sorted bool) (*parquet.GenericBuffer[c08Row], error) {
	var opts []parquet.RowGroupOption
	if sorted {
		opts = append(opts, parquet.SortingRowGroupConfig(c08Sorting))
	}
	b := parquet.NewGenericBuffer[c08Row](opts...)
	rows := make([]c08Row, len(ids))
	for i, id := range ids {
		rows[i] = c08MakeRow(id)
	}
	if _, err := b.Write(rows); err != nil {
		return nil, err
	}
	return b, nil
}

func c08BuildMerged(d *c08Der) (built *c08DerBuilt, err error) {
	key := c08DerKey(d)
	if b, ok := c08DerCache[key]; ok {
		return b, nil
	}
	defer func() {
		if r := recover(); r != nil {
			built, err = nil, fmt.Errorf("panic while merging the row groups: %v", r)
		}
	}()
	parts, err := c08Deal(d)
	if err != nil {
		return nil, err
	}
	pageBuf, version := d.PageBuf, d.Version
	if pageBuf <= 0 {
		pageBuf = 64
	}
	if version == 0 {
		version = 2
	}
	var inputs []parquet.RowGroup
	var all []int64
	for j, ids := range parts {
		all = append(all, ids...)
		asFile := d.Inputs == "file" || (d.Inputs == "mixed" && j%2 == 0)
		if asFile {
			f, err := c08WriteFile(ids, pageBuf, version, true)
			if err != nil {
				return nil, err
			}
			inputs = append(inputs, f.RowGroups()...)
		} else {
			b, err := c08MakeBuffer(ids, true)
			if err != nil {
				return nil, err
			}
			inputs = append(inputs, b)
		}
	}
	opts := []parquet.RowGroupOption{parquet.SortingRowGroupConfig(c08Sorting, parquet.DropDuplicatedRows(d.Dedupe))}
	if d.Schema {
		opts = append(opts, c08SchemaS)
	}
	merged, err := parquet.MergeRowGroups(inputs, opts...)
	if err != nil {
		return nil, fmt.Errorf("MergeRowGroups: %w", err)
	}
	// the column of c08Row behind every leaf column of the merged row group
	var cols []int
	for _, path := range merged.Schema().Columns() {
		src := -1
		for ci, name := range c08ColNames {
			if strings.Join(path, ".") == name || (ci == 2 && path[0] == "list") {
				src = ci
			}
		}
		if src < 0 {
			return nil, fmt.Errorf("MergeRowGroups: unexpected column %v in the merged schema", path)
		}
		cols = append(cols, src)
	}
	if len(cols) != c08NumCols {
		return nil, fmt.Errorf("MergeRowGroups: the merged schema has the columns %v", merged.Schema().Columns())
	}
	sort.Slice(all, func(i, j int) bool { return all[i] < all[j] })
	if d.Dedupe {
		uniq := all[:0]
		for i, id := range all {
			if i == 0 || id != all[i-1] {
				uniq = append(uniq, id)
			}
		}
		all = uniq
	}
	b := &c08DerBuilt{merged: merged, ids: all, cols: cols}
	rows := merged.Rows()
	b.kind = strings.TrimPrefix(fmt.Sprintf("%T", rows), "*parquet.")
	batch := make([]parquet.Row, 7)
	for read := 0; read <= len(all); {
		n, err := rows.ReadRows(batch)
		read += n
		if err != nil {
			b.eofLast = err == io.EOF && n > 0
			break
		}
		if n == 0 {
			break
		}
	}
	rows.Close()
	c08DerCache[key] = b
	return b, nil
}

// ---- conversions

// c08RowT: the rows read through the "evolve" conversion: the columns opt and s
// are dropped, list comes before id, and extra is a column the source lacks.
type c08RowT struct {
	List  []int64 `parquet:"list,list"`
	Extra *int64  `parquet:"extra,optional"`
	ID    int64   `parquet:"id"`
	G     *c08Grp `parquet:"zg,optional"`
}

var (
	c08SchemaS = parquet.SchemaOf(c08Row{})
	c08SchemaT = parquet.SchemaOf(c08RowT{})
	// the column of c08Row behind every leaf column of c08RowT
	c08EvolveCols = []int{2, -1, 0, 4}
	c08Convs      = map[string]parquet.Conversion{}
)

func c08Conv(name string) (parquet.Conversion, error) {
	if cv, ok := c08Convs[name]; ok {
		return cv, nil
	}
	var target *parquet.Schema
	switch name {
	case "same":
		target = c08SchemaS
	case "evolve":
		target = c08SchemaT
	default:
		return nil, fmt.Errorf("unknown conversion %q", name)
	}
	cv, err := parquet.Convert(target, c08SchemaS)
	if err != nil {
		return nil, err
	}
	c08Convs[name] = cv
	return cv, nil
}

// c08CheckRowT compares a row of the evolved schema with row r, value by value
// (levels and column indexes included): the row that deconstructing the Go
// value gives.
func c08CheckRowT(row parquet.Row, r int64) string {
	src := c08MakeRow(r)
	want := c08SchemaT.Deconstruct(nil, &c08RowT{List: src.List, ID: src.ID, G: src.G})
	if !row.Equal(want) {
		return fmt.Sprintf("expected row %d of the evolved schema %v, got %v", r, want, row)
	}
	return ""
}

// c08Scripted is the reader underneath ConvertRowReader: rows 0..n-1 from
// memory, the batches capped as the script says.
type c08Scripted struct {
	rows    []parquet.Row
	pos     int
	calls   int
	caps    []int
	eofLast bool
}

func (s *c08Scripted) ReadRows(rows []parquet.Row) (int, error) {
	call := s.calls
	s.calls++
	if s.pos >= len(s.rows) {
		return 0, io.EOF
	}
	n := len(rows)
	if len(s.caps) > 0 {
		if c := s.caps[call%len(s.caps)]; c > 0 && c < n {
			n = c
		}
	}
	n = min(n, len(s.rows)-s.pos)
	for i := 0; i < n; i++ {
		rows[i] = append(rows[i][:0], s.rows[s.pos+i]...)
	}
	s.pos += n
	if s.eofLast && s.pos == len(s.rows) && n > 0 {
		return n, io.EOF
	}
	return n, nil
}

var c08SrcRows = map[int][]parquet.Row{}

func c08SourceRows(n int) []parquet.Row {
	if rows, ok := c08SrcRows[n]; ok {
		return rows
	}
	rows := make([]parquet.Row, n)
	for i := range rows {
		r := c08MakeRow(int64(i))
		rows[i] = c08SchemaS.Deconstruct(nil, &r)
	}
	c08SrcRows[n] = rows
	return rows
}

var c08Buffers = map[string]parquet.RowGroup{}

func c08BufferOf(kind string, n int) (parquet.RowGroup, error) {
	key := fmt.Sprintf("%s/%d", kind, n)
	if b, ok := c08Buffers[key]; ok {
		return b, nil
	}
	ids := make([]int64, n)
	for i := range ids {
		ids[i] = int64(i)
	}
	var rg parquet.RowGroup
	if kind == "buffer" {
		b, err := c08MakeBuffer(ids, false)
		if err != nil {
			return nil, err
		}
		rg = b
	} else {
		b := parquet.NewRowBuffer[c08Row]()
		rows := make([]c08Row, n)
		for i := range rows {
			rows[i] = c08MakeRow(int64(i))
		}
		if _, err := b.Write(rows); err != nil {
			return nil, err
		}
		rg = b
	}
	if rg.NumRows() != int64(n) {
		return nil, fmt.Errorf("the %s holds %d rows, %d were written", kind, rg.NumRows(), n)
	}
	c08Buffers[key] = rg
	return rg, nil
}

// c08ExecDerived runs the history of a case on a derived reader; false when
// the target is not one.  b and f are the file of the case (built and opened
// as the case says), which the convert targets read.
func c08ExecDerived(cs *c08Case, b *c08Built, f *parquet.File, res *c08Result) bool {
	if !c08IsDerived(cs.Target) {
		return false
	}
	d := cs.Der
	if d == nil {
		res.fail("bad-op", "target %s needs the parameters of the derived reader", cs.Target)
		return true
	}
	switch cs.Target {
	case "merged", "mergedpages":
		m, err := c08BuildMerged(d)
		if err != nil {
			res.fail("file", "%v", err)
			return true
		}
		N := int64(len(m.ids))
		if cs.Target == "merged" {
			c08RunRows(&c08RowReader{r: m.merged.Rows(), ids: m.ids, check: c08CheckRowCols(m.cols)}, N, cs, res)
			return true
		}
		chunks := m.merged.ColumnChunks()
		if cs.Col >= len(chunks) || d.Dedupe {
			res.fail("bad-op", "no such column / the column pages of a row group that drops duplicates hold the duplicates")
			return true
		}
		// the column chunks of a merged row group are the concatenation of the
		// chunks of its members: the rows in the order of the id column
		ids, err := c08PageIDs(chunks[m.idCol()])
		if err != nil {
			res.fail("file", "sequential read of the id column of the merged row group: %v", err)
			return true
		}
		c08RunPagesExp(chunks[cs.Col].Pages(), nil, int64(len(ids)), 0, cs, res, &c08PageExp{ids: ids, col: m.cols[cs.Col]})
	case "convert":
		cv, err := c08Conv(d.Conv)
		if err != nil {
			res.fail("bad-op", "%v", err)
			return true
		}
		var under parquet.RowReader
		N := int64(d.Rows)
		switch d.Under {
		case "scripted":
			under = &c08Scripted{rows: c08SourceRows(d.Rows), caps: d.Caps, eofLast: d.EOFLast}
		case "file":
			rows := parquet.NewReader(f)
			defer rows.Close()
			under, N = rows, b.total
		default:
			res.fail("bad-op", "unknown reader %q under ConvertRowReader", d.Under)
			return true
		}
		r, ok := parquet.ConvertRowReader(under, cv).(c08Rows)
		if !ok {
			res.fail("bad-op", "the reader of ConvertRowReader is not a RowSeeker")
			return true
		}
		t := &c08RowReader{r: r}
		if d.Conv == "evolve" {
			t.check = c08CheckRowT
		}
		c08RunRows(t, N, cs, res)
	case "convertrg", "convertpages":
		cv, err := c08Conv(d.Conv)
		if err != nil {
			res.fail("bad-op", "%v", err)
			return true
		}
		if cs.RG >= len(b.rgRows) {
			res.fail("bad-op", "no such row group")
			return true
		}
		rg := parquet.ConvertRowGroup(f.RowGroups()[cs.RG], cv)
		if cs.Target == "convertrg" {
			t := &c08RowReader{r: rg.Rows(), off: b.rgOff[cs.RG]}
			if d.Conv == "evolve" {
				t.check = c08CheckRowT
			}
			c08RunRows(t, b.rgRows[cs.RG], cs, res)
			return true
		}
		chunks := rg.ColumnChunks()
		src := cs.Col
		if d.Conv == "evolve" {
			if cs.Col >= len(c08EvolveCols) {
				res.fail("bad-op", "no such column")
				return true
			}
			src = c08EvolveCols[cs.Col]
		}
		if cs.Col >= len(chunks) {
			res.fail("bad-op", "no such column")
			return true
		}
		ids := make([]int64, b.rgRows[cs.RG])
		for i := range ids {
			ids[i] = b.rgOff[cs.RG] + int64(i)
		}
		c08RunPagesExp(chunks[cs.Col].Pages(), nil, b.rgRows[cs.RG], 0, cs, res, &c08PageExp{ids: ids, col: src})
	case "buffer", "rowbuffer":
		rg, err := c08BufferOf(cs.Target, d.Rows)
		if err != nil {
			res.fail("file", "%v", err)
			return true
		}
		c08RunRows(&c08RowReader{r: rg.Rows()}, int64(d.Rows), cs, res)
	case "bufferpages", "rowbufferpages":
		rg, err := c08BufferOf(strings.TrimSuffix(cs.Target, "pages"), d.Rows)
		if err != nil {
			res.fail("file", "%v", err)
			return true
		}
		if cs.Col >= len(rg.ColumnChunks()) {
			res.fail("bad-op", "no such column")
			return true
		}
		c08RunPages(rg.ColumnChunks()[cs.Col], int64(d.Rows), 0, cs, res)
	case "variant":
		c08RunVariant(cs, res)
	}
	return true
}

// c08PageIDs reads the id column of a row group sequentially: the id of the
// row at every position of its column chunks.
func c08PageIDs(cc parquet.ColumnChunk) ([]int64, error) {
	pages := cc.Pages()
	defer pages.Close()
	var ids []int64
	for {
		pg, err := pages.ReadPage()
		if err != nil {
			if err == io.EOF {
				return ids, nil
			}
			return nil, err
		}
		vals, err := c08PageValues(pg)
		parquet.Release(pg)
		if err != nil {
			return nil, err
		}
		for _, v := range vals {
			ids = append(ids, v.Int64())
		}
		if len(ids) > 1<<20 {
			return nil, fmt.Errorf("more than %d rows", 1<<20)
		}
	}
}

// c08NeedsFile: whether the reader of the case reads the file that the case
// describes (the other derived readers build their own rows).
func c08NeedsFile(cs *c08Case) bool {
	if !c08IsDerived(cs.Target) {
		return true
	}
	switch cs.Target {
	case "convertrg", "convertpages":
		return true
	case "convert":
		return cs.Der != nil && cs.Der.Under == "file"
	}
	return false
}

// ---- generation

// c08ForwardOps: a random history for a reader that seeks forward only: reads
// of 1..1000 rows, seeks ahead of the position by 0, 1, a few rows, about a
// batch, far, to the last row, to the end and beyond, seeks to the position
// itself, and now and then a seek back (refused, or accepted when the rows in
// between were only skipped by a pending seek).
func c08ForwardOps(rng interface{ Intn(int) int }, N int64, n int) []string {
	var ops []string
	pos := int64(0)
	for j := 0; j < n; j++ {
		x := rng.Intn(100)
		switch {
		case x < 42:
			k := []int64{1, 3, 7, 64, 1000}[rng.Intn(5)]
			ops = append(ops, fmt.Sprintf("r%d", k))
			pos = min(max(pos, 0)+k, max(N, pos))
		case x < 86:
			var k int64
			room := max(N-pos, 1)
			switch rng.Intn(9) {
			case 0:
				k = pos
			case 1:
				k = pos + 1
			case 2:
				k = pos + 2 + int64(rng.Intn(7))
			case 3:
				k = pos + int64(rng.Intn(100))
			case 4, 5:
				k = pos + int64(rng.Intn(int(room)))
			case 6:
				k = N - 1
			case 7:
				k = N
			default:
				k = N + 3
			}
			if k < pos {
				k = pos
			}
			ops = append(ops, fmt.Sprintf("s%d", k))
			pos = k
		case x < 95:
			k := int64(0)
			if pos > 0 {
				k = int64(rng.Intn(int(min(pos, N+3))))
			}
			ops = append(ops, fmt.Sprintf("s%d", k))
		default:
			ops = append(ops, fmt.Sprintf("s%d", pos))
		}
	}
	return ops
}

// c08AnyOps: a random history with seeks in both directions; page selects
// ReadPage instead of reads of rows.
func c08AnyOps(rng interface {
	Intn(int) int
	Int63n(int64) int64
}, N int64, points []int64, n int, page bool) []string {
	var ops []string
	for j := 0; j < n; j++ {
		x := rng.Intn(100)
		switch {
		case x < 45:
			if page {
				ops = append(ops, "r")
			} else {
				ops = append(ops, fmt.Sprintf("r%d", []int{1, 3, 64, 1000}[rng.Intn(4)]))
			}
		case x < 70 && len(points) > 0:
			ops = append(ops, fmt.Sprintf("s%d", points[rng.Intn(len(points))]))
		case x < 94:
			ops = append(ops, fmt.Sprintf("s%d", rng.Int63n(N+2)))
		default:
			ops = append(ops, "s0")
		}
	}
	return ops
}

// c08DerivedRequest: the oracle request that models a case on a derived reader
// ("": none).
//
//	convert over a scripted reader: forwardRowSeeker under the caps of the script
//	  (c08.fwd seeker), every output
//	merged: mergedRowGroupRows (c08.fwd merged) or concatenatingRowsWrapper
//	  (c08.fwd concat); how short the readers underneath cut a batch is not
//	  observable from outside, so every ReadRows is handed to the model with
//	  the number of rows it returned as the cap of the calls underneath
//	convertrg / convertpages / buffer / bufferpages / rowbufferpages: rowGroupRows
//	  and the page cursor over the page layout of the source (a column the
//	  source lacks, a column buffer: one page)
func c08DerivedRequest(cs *c08Case, b *c08Built, res *c08Result) string {
	d := cs.Der
	if d == nil {
		return ""
	}
	one := func(n int64) string { return fmt.Sprintf("%x", n) }
	m := "idx"
	if cs.Open.SkipIndex {
		m = "noidx"
	}
	if c08HasCopy(cs.Ops) && c08ForwardOnly(cs.Target) {
		// the models of the forward-only seekers have no bulk copy
		return ""
	}
	switch cs.Target {
	case "convert":
		if d.Under != "scripted" {
			return ""
		}
		caps := make([]int64, len(d.Caps))
		for i, c := range d.Caps {
			caps[i] = int64(c)
		}
		eofl := "0"
		if d.EOFLast {
			eofl = "1"
		}
		return fmt.Sprintf("c08.fwd seeker %x %s %s %s", d.Rows, c08Hex(caps), eofl, c08OpsTok(cs.Ops))
	case "merged":
		mb, err := c08BuildMerged(d)
		if err != nil || len(res.outs) != len(cs.Ops) {
			return ""
		}
		machine := map[string]string{"mergedRowGroupRows": "merged", "concatenatingRowsWrapper": "concat"}[mb.kind]
		if machine == "" {
			return ""
		}
		parts := make([]string, len(cs.Ops))
		for i, op := range cs.Ops {
			code, arg := c08ParseOp(op)
			parts[i] = fmt.Sprintf("%c%x", code, arg)
			var first, cnt int64
			if code == 'r' {
				if _, err := fmt.Sscanf(res.outs[i], "i%x.%x/", &first, &cnt); err == nil && cnt > 0 {
					parts[i] += fmt.Sprintf(":%x", cnt)
				}
			}
		}
		eofl := "0"
		if mb.eofLast {
			eofl = "1"
		}
		return fmt.Sprintf("c08.fwd %s %x _ %s %s", machine, len(mb.ids), eofl, strings.Join(parts, ","))
	case "variant":
		if len(res.outs) != len(cs.Ops) {
			return ""
		}
		parts := make([]string, len(cs.Ops))
		for i, op := range cs.Ops {
			code, arg := c08ParseOp(op)
			parts[i] = fmt.Sprintf("%c%x", code, arg)
			if code == 'r' {
				// the leaf columns whose first row was observed in this window
				var seen []string
				for _, f := range strings.Split(res.outs[i], ";")[1:] {
					seen = append(seen, strings.SplitN(f, "=", 2)[0])
				}
				if len(seen) > 0 {
					parts[i] += ":" + strings.Join(seen, ".")
				}
			}
		}
		return fmt.Sprintf("c08.variant cur %x %x %s", len(c08VarCursors), d.Rows, strings.Join(parts, ","))
	case "buffer", "rowbuffer":
		cols := make([]string, c08NumCols)
		for i := range cols {
			cols[i] = one(int64(d.Rows))
		}
		return "c08.mrows idx " + strings.Join(cols, "/") + " " + c08OpsTok(cs.Ops)
	case "bufferpages", "rowbufferpages":
		return "c08.pages idx " + one(int64(d.Rows)) + " " + c08OpsTok(cs.Ops)
	case "convertrg":
		if b == nil {
			return ""
		}
		var cols []string
		if d.Conv == "evolve" {
			for _, src := range c08EvolveCols {
				if src < 0 {
					cols = append(cols, one(b.rgRows[cs.RG]))
				} else {
					cols = append(cols, c08Hex(b.layout[cs.RG][src]))
				}
			}
		} else {
			for c := 0; c < c08NumCols; c++ {
				cols = append(cols, c08Hex(b.layout[cs.RG][c]))
			}
		}
		return "c08.mrows " + m + " " + strings.Join(cols, "/") + " " + c08OpsTok(cs.Ops)
	case "convertpages":
		if b == nil {
			return ""
		}
		src := cs.Col
		if d.Conv == "evolve" {
			src = c08EvolveCols[cs.Col]
		}
		if src < 0 {
			return "c08.pages idx " + one(b.rgRows[cs.RG]) + " " + c08OpsTok(cs.Ops)
		}
		if cs.Open.SkipIndex {
			m = "lazy"
		}
		return "c08.pages " + m + " " + c08Hex(b.layout[cs.RG][src]) + " " + c08OpsTok(cs.Ops)
	}
	return ""
}
