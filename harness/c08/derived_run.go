package main

import (
	"fmt"

	"verif/harness/core"
)

// c08VmFwd: cases of ConvertRowReader over scripted readers for cases.v:
// (rows, io.EOF with the last rows, caps, history, outputs).
var c08VmFwd []string

func c08AddVmFwd(cs *c08Case) {
	d := cs.Der
	if len(c08VmFwd) >= 80 || cs.Target != "convert" || d == nil || d.Under != "scripted" {
		return
	}
	res, _ := c08Exec(cs)
	if res.kind != "" || len(res.outs) != len(cs.Ops) {
		return
	}
	var ops, outs []string
	for i, op := range cs.Ops {
		code, arg := c08ParseOp(op)
		if code == 'r' {
			ops = append(ops, fmt.Sprintf("FRead %d", arg))
		} else {
			ops = append(ops, fmt.Sprintf("FSeek %d", arg))
		}
		var f, n int64
		var e int
		switch o := res.outs[i]; {
		case o == "k":
			outs = append(outs, "FSeekOk")
		case o == "b":
			outs = append(outs, "FRefused")
		case o == "e":
			outs = append(outs, "FSeekEOF")
		case o == "i/0" || o == "i/1":
			outs = append(outs, fmt.Sprintf("FRows 0 0 %v", o == "i/1"))
		default:
			if _, err := fmt.Sscanf(o, "i%x.%x/%d", &f, &n, &e); err != nil {
				return
			}
			outs = append(outs, fmt.Sprintf("FRows %d %d %v", f, n, e == 1))
		}
	}
	caps := make([]string, len(d.Caps))
	for i, cp := range d.Caps {
		caps[i] = fmt.Sprint(cp)
	}
	c08VmFwd = append(c08VmFwd, fmt.Sprintf("(%d, %v, %s, %s, %s)", d.Rows, d.EOFLast, core.CoqList(caps), core.CoqList(ops), core.CoqList(outs)))
}

// c08RunDerivedAll: the histories on the derived readers (derived.go, variant.go).
func c08RunDerivedAll(c *core.Ctx) {
	exhaustive := func(cs c08Case, alphabet []string, length int, bucket string) {
		c08Enumerate(alphabet, length, func(ops []string) {
			t := cs
			t.Ops = ops
			c08Run(c, &t, bucket)
		})
	}
	nMerged, nFwdSeek := 0, 0

	// ---- merged row groups
	small := []*c08Der{
		{Rows: 40, Shape: "interleave", K: 2, Inputs: "buffer", Schema: true},
		{Rows: 40, Shape: "interleave", K: 3, Inputs: "file", PageBuf: 32},
		{Rows: 40, Shape: "ranges", K: 3, Inputs: "mixed", PageBuf: 32},
		{Rows: 40, Shape: "dups", K: 2, Inputs: "buffer", Dedupe: true, Schema: true},
		{Rows: 40, Shape: "dups", K: 3, Inputs: "mixed", PageBuf: 32},
		{Rows: 40, Shape: "ranges", K: 1, Inputs: "file", PageBuf: 32, Dedupe: true},
	}
	kinds := map[string]int{}
	for i, d := range small {
		m, err := c08BuildMerged(d)
		if err != nil {
			c.Violation("file", err.Error(), d)
			return
		}
		kinds[d.Shape+"/"+d.Inputs+":"+m.kind]++
		N := int64(len(m.ids))
		alphabet := []string{"r1", "r3", "r64", "s1", "s5", fmt.Sprintf("s%d", N/2), fmt.Sprintf("s%d", N-1), fmt.Sprintf("s%d", N), fmt.Sprintf("s%d", N+3)}
		length := c.N(3, 4)
		if i == 0 {
			length = c.N(4, 5)
		} else if i == 1 {
			length = c.N(3, 5)
		}
		exhaustive(c08Case{Target: "merged", Der: d}, alphabet, length, "exhaustive/merged/"+m.kind)
	}
	medium := []*c08Der{
		{Rows: 300, Shape: "interleave", K: 2, Inputs: "file", Schema: true},
		{Rows: 300, Shape: "interleave", K: 4, Inputs: "mixed", PageBuf: 96},
		{Rows: 300, Shape: "interleave", K: 3, Inputs: "buffer", Dedupe: true},
		{Rows: 300, Shape: "dups", K: 2, Inputs: "file", Dedupe: true, Version: 1},
		{Rows: 300, Shape: "dups", K: 3, Inputs: "buffer", Schema: true},
		{Rows: 300, Shape: "ranges", K: 4, Inputs: "file", Version: 1, Schema: true},
		{Rows: 300, Shape: "ranges", K: 3, Inputs: "mixed", Dedupe: true},
		{Rows: 300, Shape: "ranges", K: 1, Inputs: "buffer", Dedupe: true},
		{Rows: 2600, Shape: "lone", K: 2, Inputs: "file", PageBuf: 512, Schema: true},
		{Rows: 2600, Shape: "lone", K: 2, Inputs: "file", PageBuf: 1024, Version: 1, Schema: true},
	}
	for _, d := range medium {
		m, err := c08BuildMerged(d)
		if err != nil {
			c.Violation("file", err.Error(), d)
			return
		}
		kinds[d.Shape+"/"+d.Inputs+":"+m.kind]++
		N := int64(len(m.ids))
		// corpus: seeks ahead by less than, exactly, and more than the next batch
		for _, h := range [][]string{
			{"s5", "r16", "r16"},
			{"r3", "s19", "r16", "r1000"},
			{"s17", "r16", "r16", "r1000"},
			{"r10", fmt.Sprintf("s%d", N/2), "r7", "r7", "r1000"},
			{"s100", "r1", "r1", "r3"},
			{"r64", fmt.Sprintf("s%d", N-1), "r3", "r3"},
			{fmt.Sprintf("s%d", N/2), "s20", "r3", fmt.Sprintf("s%d", N/2), "r64"},
			{fmt.Sprintf("s%d", N), "r3", "s0", "r1"},
			{fmt.Sprintf("s%d", N+3), "r3"},
			{"r1000", "r1000", "r1000", "r1"},
		} {
			c08Run(c, &c08Case{Target: "merged", Der: d, Ops: h}, "corpus/merged/"+m.kind)
		}
		n := c.N(60, 600)
		if d.Rows > 1000 {
			n = c.N(25, 250)
		}
		for i := 0; i < n; i++ {
			cs := &c08Case{Target: "merged", Der: d, Ops: c08ForwardOps(c.Rng, N, 1+c.Rng.Intn(24))}
			c08Run(c, cs, "random/merged/"+m.kind)
			nMerged++
			if i == 0 && d.Shape == "interleave" {
				c.Sample(cs)
			}
		}
		// the column pages of the merged row group: seeks in both directions
		if d.Dedupe {
			continue
		}
		ids, err := c08PageIDs(m.merged.ColumnChunks()[m.idCol()])
		if err != nil || len(ids) != len(m.ids) {
			c.Violation("file", fmt.Sprintf("the id column of the merged row group holds %d rows, Rows() %d (%v)", len(ids), len(m.ids), err), d)
			return
		}
		// seek points: where the id sequence of the column chunks jumps (member
		// boundaries), +-1
		var points []int64
		for p := 1; p < len(ids) && len(points) < 60; p++ {
			if ids[p] != ids[p-1]+1 && (d.Shape != "interleave" && d.Shape != "dups" || ids[p] < ids[p-1]) {
				points = append(points, int64(p-1), int64(p), int64(p+1))
			}
		}
		points = append(points, 0, N-1, N, N+3)
		np := c.N(24, 240)
		if d.Rows > 1000 {
			np = c.N(12, 120)
		}
		for i := 0; i < np; i++ {
			cs := &c08Case{Target: "mergedpages", Der: d, Col: c.Rng.Intn(c08NumCols), Drain: c.Rng.Intn(2) == 0,
				Ops: c08AnyOps(c.Rng, N, points, 1+c.Rng.Intn(16), true)}
			c08Run(c, cs, "random/mergedpages/"+d.Shape)
		}
	}
	c.Note("merged row groups: the rows of MergeRowGroups were of the kinds %v (mergedRowGroupRows: heap merge; concatenatingRowsWrapper: sorted segments, deduplicated row groups); %d random forward histories", kinds, nMerged)

	// ---- ConvertRowReader over a scripted reader: every history of one length
	// over forward and backward seeks, batches cut by the reader underneath
	scripts := []struct {
		caps    []int
		eofLast bool
	}{{nil, false}, {nil, true}, {[]int{1}, false}, {[]int{4}, true}, {[]int{5, 2}, false}, {[]int{16, 1, 7}, true}}
	for i, sc := range scripts {
		conv := []string{"same", "evolve"}[i%2]
		d := &c08Der{Rows: 30, Conv: conv, Under: "scripted", Caps: sc.caps, EOFLast: sc.eofLast}
		alphabet := []string{"r1", "r3", "r4", "r64", "s2", "s7", "s16", "s29", "s30", "s33"}
		exhaustive(c08Case{Target: "convert", Der: d}, alphabet, c.N(3, 4), "exhaustive/convert/"+conv)
	}
	for i := 0; i < c.N(500, 6000); i++ {
		sc := scripts[c.Rng.Intn(len(scripts))]
		if c.Rng.Intn(2) == 0 {
			sc.caps = nil
			for k := 1 + c.Rng.Intn(4); k > 0; k-- {
				sc.caps = append(sc.caps, []int{0, 1, 2, 3, 5, 8, 16, 63, 64}[c.Rng.Intn(9)])
			}
			sc.eofLast = c.Rng.Intn(2) == 0
		}
		d := &c08Der{Rows: []int{100, 128, 300}[c.Rng.Intn(3)], Conv: []string{"same", "evolve"}[c.Rng.Intn(2)], Under: "scripted", Caps: sc.caps, EOFLast: sc.eofLast}
		cs := &c08Case{Target: "convert", Der: d, Ops: c08ForwardOps(c.Rng, int64(d.Rows), 1+c.Rng.Intn(24))}
		c08Run(c, cs, "random/convert/scripted/"+d.Conv)
		nFwdSeek++
		if i%5 == 0 {
			c08AddVmFwd(cs)
		}
		if i == 0 {
			c.Sample(cs)
		}
	}
	// ... over the rows of a file; ConvertRowGroup: its rows and column pages
	for i := 0; i < c.N(240, 3000); i++ {
		p := c08FileParams{Rows: 300, PageBuf: []int{24, 64, 96}[c.Rng.Intn(3)], RGRows: []int64{0, 110}[c.Rng.Intn(2)], Version: 1 + c.Rng.Intn(2), Batch: 13}
		b, err := c08Build(p)
		if err != nil {
			c.Violation("file", err.Error(), p)
			return
		}
		d := &c08Der{Conv: []string{"same", "evolve"}[c.Rng.Intn(2)]}
		cs := &c08Case{File: p, Open: c08Open{SkipIndex: c.Rng.Intn(4) == 0}, Der: d}
		switch i % 3 {
		case 0:
			cs.Target, d.Under = "convert", "file"
			cs.Ops = c08ForwardOps(c.Rng, b.total, 1+c.Rng.Intn(24))
		case 1:
			cs.Target, cs.RG = "convertrg", c.Rng.Intn(len(b.rgRows))
			cs.Ops = c08AnyOps(c.Rng, b.rgRows[cs.RG], c08SeekPoints(b.layout[cs.RG][c.Rng.Intn(c08NumCols)], b.rgRows[cs.RG], false), 1+c.Rng.Intn(24), false)
		default:
			cs.Target, cs.RG = "convertpages", c.Rng.Intn(len(b.rgRows))
			ncols, src := c08NumCols, 0
			if d.Conv == "evolve" {
				ncols = len(c08EvolveCols)
			}
			cs.Col = c.Rng.Intn(ncols)
			src = cs.Col
			if d.Conv == "evolve" {
				src = c08EvolveCols[cs.Col]
			}
			var points []int64
			if src >= 0 {
				points = c08SeekPoints(b.layout[cs.RG][src], b.rgRows[cs.RG], false)
			}
			cs.Ops = c08AnyOps(c.Rng, b.rgRows[cs.RG], points, 1+c.Rng.Intn(24), true)
			cs.Drain = c.Rng.Intn(2) == 0
		}
		c08Run(c, cs, fmt.Sprintf("random/%s/%s", cs.Target, d.Conv))
	}

	// ---- buffers: the rows and the column pages of GenericBuffer and RowBuffer
	for _, kind := range []string{"buffer", "rowbuffer"} {
		d := &c08Der{Rows: 22}
		ralpha := []string{"r1", "r3", "r64", "s0", "s7", "s21", "s22", "s25"}
		exhaustive(c08Case{Target: kind, Der: d}, ralpha, c.N(3, 4), "exhaustive/"+kind)
		palpha := []string{"r", "s0", "s1", "s7", "s21", "s22", "s25"}
		for col := 0; col < c08NumCols; col++ {
			exhaustive(c08Case{Target: kind + "pages", Der: d, Col: col}, palpha, c.N(3, 4), "exhaustive/"+kind+"pages")
		}
		for i := 0; i < c.N(80, 1000); i++ {
			d := &c08Der{Rows: []int{1, 100, 300}[c.Rng.Intn(3)]}
			N := int64(d.Rows)
			cs := &c08Case{Target: kind, Der: d, Ops: c08AnyOps(c.Rng, N, []int64{0, 1, N - 1, N, N + 3}, 1+c.Rng.Intn(24), false)}
			if i%2 == 1 {
				cs.Target, cs.Col, cs.Drain = kind+"pages", c.Rng.Intn(c08NumCols), c.Rng.Intn(2) == 0
				cs.Ops = c08AnyOps(c.Rng, N, []int64{0, 1, N - 1, N, N + 3}, 1+c.Rng.Intn(12), true)
			}
			c08Run(c, cs, "random/"+cs.Target)
		}
	}

	// ---- the columnar variant reader
	vd := &c08Der{Rows: 200, PageBuf: 256}
	all := []string{}
	for j := range c08VarCursors {
		all = append(all, fmt.Sprintf("c%d", j))
	}
	with := func(pre []string, h ...string) []string { return append(append([]string(nil), pre...), h...) }
	for _, h := range [][]string{
		with(all, "r10", "s123", "r10", "s42", "r8", "s199", "r8", "r1", "s200", "r1", "s0", "r64"),
		with(all[:2], "r10", "c2", "r10", "c4", "c7", "r3", "r64"),
		with(all[1:2], "s150", "c2", "c7", "r8", "s42", "r8"),
		{"r10", "c1", "r10", "s100", "c0", "c6", "r7", "c7", "c8", "c5", "r7", "s3", "r7"},
		{"c1", "s77", "r3", "c9", "c3", "r3", "s77", "r3", "c5", "s198", "r64", "r1"},
		{"s201", "c1", "r1", "s200", "r1", "s199", "r1", "r1"},
	} {
		c08Run(c, &c08Case{Target: "variant", Der: vd, Ops: h}, "corpus/variant")
	}
	// every history of one length: create a / b / the list elements, windows of
	// 1, 8 and 64 rows, seeks to the first rows of pages and to the end
	valpha := []string{"c1", "c2", "c7", "r1", "r8", "r64", "s0", "s9", "s100", "s199", "s200"}
	exhaustive(c08Case{Target: "variant", Der: vd}, valpha, c.N(3, 4), "exhaustive/variant")
	for i := 0; i < c.N(300, 4000); i++ {
		d := &c08Der{Rows: 200, PageBuf: []int{128, 256, 1024}[c.Rng.Intn(3)], Version: 1 + c.Rng.Intn(2)}
		N := int64(d.Rows)
		var ops []string
		for j, n := 0, 2+c.Rng.Intn(20); j < n; j++ {
			x := c.Rng.Intn(100)
			switch {
			case x < 30:
				ops = append(ops, fmt.Sprintf("c%d", c.Rng.Intn(len(c08VarCursors))))
			case x < 65:
				ops = append(ops, fmt.Sprintf("r%d", []int{1, 3, 8, 64, 1000}[c.Rng.Intn(5)]))
			case x < 95:
				ops = append(ops, fmt.Sprintf("s%d", c.Rng.Int63n(N+1)))
			case x < 98:
				ops = append(ops, fmt.Sprintf("s%d", N))
			default:
				ops = append(ops, fmt.Sprintf("s%d", N+1+int64(c.Rng.Intn(3))))
			}
		}
		cs := &c08Case{Target: "variant", Der: d, Ops: ops}
		c08Run(c, cs, "random/variant")
		if i == 0 {
			c.Sample(cs)
		}
	}
	c.Note("derived readers: %d random forward histories on ConvertRowReader over scripted readers (batch caps cycled per call, io.EOF with or after the last rows)", nFwdSeek)
}
